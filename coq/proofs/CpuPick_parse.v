(* parse_cpu_list (the mirror of parseCPUList) accepts exactly the cpulist grammar and returns its expansion. *)
From Coq Require Import List NArith ZArith Bool Lia.
Import ListNotations.
From NV Require Import lib.Bytes model.CpuPick.
Open Scope N_scope.

(* ---- character classes --------------------------------------------------------------------- *)
Lemma digit_not_blank b : is_digit b = true -> is_blank b = false.
Proof. unfold is_digit, is_blank. intros H. apply andb_true_iff in H as [H1 H2]. apply N.leb_le in H1, H2.
  apply orb_false_iff. split; [apply andb_false_iff; right; apply N.leb_gt; lia|apply N.eqb_neq; lia]. Qed.
Lemma digit_not_comma b : is_digit b = true -> (b =? comma) = false.
Proof. unfold is_digit, comma. intros H. apply andb_true_iff in H as [H1 H2]. apply N.leb_le in H1, H2. apply N.eqb_neq. lia. Qed.
Lemma digit_not_dash b : is_digit b = true -> (b =? dash) = false.
Proof. unfold is_digit, dash. intros H. apply andb_true_iff in H as [H1 H2]. apply N.leb_le in H1, H2. apply N.eqb_neq. lia. Qed.
Lemma blank_not_comma b : is_blank b = true -> (b =? comma) = false.
Proof. unfold is_blank, comma. intros H. apply N.eqb_neq. intros ->. discriminate. Qed.
Lemma blank_not_dash b : is_blank b = true -> (b =? dash) = false.
Proof. unfold is_blank, dash. intros H. apply N.eqb_neq. intros ->. discriminate. Qed.
Lemma blank_not_digit b : is_blank b = true -> is_digit b = false.
Proof. intros H. destruct (is_digit b) eqn:E; [|reflexivity]. apply digit_not_blank in E. congruence. Qed.
Lemma dash_not_comma : (dash =? comma) = false.
Proof. reflexivity. Qed.

(* ---- numbers ------------------------------------------------------------------------------ *)
Lemma digits_val_app s1 : forall acc s2,
  digits_val acc (s1 ++ s2) = match digits_val acc s1 with Some v => digits_val v s2 | None => None end.
Proof.
  induction s1 as [|b s1 IH]; intros acc s2; simpl; [reflexivity|].
  destruct (is_digit b); [apply IH|reflexivity].
Qed.

Lemma number_digits_val ds v : number ds v -> digits_val 0 ds = Some v.
Proof.
  induction 1 as [d Hd|ds v d Hn IH Hd].
  - simpl. rewrite Hd. reflexivity.
  - rewrite digits_val_app, IH. simpl. now rewrite Hd.
Qed.

Lemma digits_val_number ds : forall v, ds <> [] -> digits_val 0 ds = Some v -> number ds v.
Proof.
  induction ds as [|d l IH] using rev_ind; intros v Hne H; [congruence|].
  rewrite digits_val_app in H. destruct (digits_val 0 l) as [v'|] eqn:E; [|discriminate].
  cbn [digits_val] in H. destruct (is_digit d) eqn:Hd; [|discriminate]. injection H as Hv. subst v.
  destruct l as [|x l'].
  - cbn [digits_val] in E. injection E as Ev. subst v'. rewrite ?N.mul_0_r, ?N.add_0_l. apply num_one. exact Hd.
  - apply num_snoc; [apply IH; [discriminate|reflexivity]|exact Hd].
Qed.

Lemma number_nonempty ds v : number ds v -> ds <> [].
Proof. destruct 1; [discriminate|]. destruct ds; discriminate. Qed.

Lemma number_all_digits ds v : number ds v -> Forall (fun b => is_digit b = true) ds.
Proof. induction 1; [repeat constructor; assumption|]. apply Forall_app. split; [assumption|]. repeat constructor. assumption. Qed.

Lemma parse_cpu_num_spec s v : parse_cpu_num s = Some v <-> number s v /\ v <= max_int.
Proof.
  unfold parse_cpu_num. split.
  - destruct s as [|b r]; [discriminate|]. destruct (digits_val 0 (b :: r)) as [v'|] eqn:E; [|discriminate].
    destruct (v' <=? max_int) eqn:L; [|discriminate]. intros H; inversion H; subst.
    split; [apply digits_val_number; [discriminate|assumption]|now apply N.leb_le].
  - intros [Hn Hm]. pose proof (number_nonempty _ _ Hn). rewrite (number_digits_val _ _ Hn).
    apply N.leb_le in Hm. rewrite Hm. destruct s; congruence.
Qed.

(* ---- strings.Cut at the first '-' ------------------------------------------------------------- *)
Definition no_byte (x : N) (s : list N) : Prop := Forall (fun b => (b =? x) = false) s.

Lemma cut_dash_none s : no_byte dash s -> cut_dash s = (s, None).
Proof. induction 1 as [|b s Hb _ IH]; simpl; [reflexivity|]. now rewrite Hb, IH. Qed.

Lemma cut_dash_app s1 s2 : no_byte dash s1 -> cut_dash (s1 ++ dash :: s2) = (s1, Some s2).
Proof. induction 1 as [|b s Hb _ IH]; simpl; [reflexivity|]. now rewrite Hb, IH. Qed.

Lemma cut_dash_inv s : forall lo hi, cut_dash s = (lo, hi) ->
  match hi with None => s = lo | Some h => s = lo ++ dash :: h end.
Proof.
  induction s as [|b s IH]; simpl; intros lo hi H.
  - inversion H; subst. reflexivity.
  - destruct (b =? dash) eqn:E.
    + inversion H; subst. apply N.eqb_eq in E. subst. reflexivity.
    + destruct (cut_dash s) as [lo' hi'] eqn:Ec. inversion H; subst. specialize (IH _ _ eq_refl).
      destruct hi; simpl; now rewrite IH at 1.
Qed.

Lemma digits_no_dash ds v : number ds v -> no_byte dash ds.
Proof. intros H. apply number_all_digits in H. eapply Forall_impl; [|eassumption]. apply digit_not_dash. Qed.
Lemma digits_no_comma ds v : number ds v -> no_byte comma ds.
Proof. intros H. apply number_all_digits in H. eapply Forall_impl; [|eassumption]. apply digit_not_comma. Qed.

(* ---- range expansion ---------------------------------------------------------------------- *)
Lemma count_up_map k : forall a, count_up a k = map (N.add a) (count_up 0 k).
Proof.
  induction k as [|k IH]; intros a.
  - simpl. now rewrite N.add_0_r.
  - change (count_up a (S k)) with (a :: count_up (a + 1) k).
    change (count_up 0 (S k)) with (0 :: count_up (0 + 1) k).
    rewrite (IH (a + 1)), (IH (0 + 1)), map_cons, map_map, N.add_0_r. f_equal.
    apply map_ext. intros i. lia.
Qed.

Lemma expand_range_spec a b : expand_range a b = cpu_range a b.
Proof. unfold expand_range, cpu_range. apply count_up_map. Qed.

(* ---- items -------------------------------------------------------------------------------- *)
Lemma parse_item_spec part l : parse_item part = Some l <-> item part l.
Proof.
  unfold parse_item. split.
  - destruct (cut_dash part) as [lo hi] eqn:Ec. apply cut_dash_inv in Ec.
    destruct (parse_cpu_num lo) as [a|] eqn:Ea; [|discriminate]. apply parse_cpu_num_spec in Ea as [Ha1 Ha2].
    destruct hi as [h|].
    + destruct (parse_cpu_num h) as [b|] eqn:Eb; [|discriminate]. apply parse_cpu_num_spec in Eb as [Hb1 Hb2].
      destruct ((b <? a) || (max_span <? b - a)) eqn:Er; [discriminate|].
      apply orb_false_iff in Er as [E1 E2]. apply N.ltb_ge in E1, E2.
      intros H; inversion H; subst. rewrite expand_range_spec. now apply item_range.
    + intros H; inversion H; subst. now apply item_one.
  - intros H. destruct H as [ds n Hn Hm|ds1 n ds2 m Hn Hm Hle Hmax Hspan].
    + rewrite (cut_dash_none ds) by (eapply digits_no_dash; eassumption).
      now rewrite (proj2 (parse_cpu_num_spec ds n)).
    + rewrite (cut_dash_app ds1) by (eapply digits_no_dash; eassumption).
      rewrite (proj2 (parse_cpu_num_spec ds1 n)) by (split; [assumption|lia]).
      rewrite (proj2 (parse_cpu_num_spec ds2 m)) by now split.
      apply N.ltb_ge in Hle, Hspan. rewrite Hle, Hspan. simpl. now rewrite expand_range_spec.
Qed.

(* an item starts and ends with a digit and contains neither blanks nor commas *)
Lemma number_first ds v : number ds v -> exists d r, ds = d :: r /\ is_digit d = true.
Proof.
  intros H. pose proof (number_all_digits _ _ H) as Ha. pose proof (number_nonempty _ _ H).
  destruct ds as [|d r]; [congruence|]. inversion Ha; subst. eauto.
Qed.
Lemma number_last ds v : number ds v -> exists r d, ds = r ++ [d] /\ is_digit d = true.
Proof. destruct 1 as [d Hd|ds v d Hn Hd]; [exists [], d|exists ds, d]; auto. Qed.

Lemma item_first body l : item body l -> exists d r, body = d :: r /\ is_digit d = true.
Proof.
  destruct 1 as [ds n Hn _|ds1 n ds2 m Hn _ _ _ _].
  - eapply number_first; eassumption.
  - destruct (number_first _ _ Hn) as [d [r [-> Hd]]]. exists d, (r ++ dash :: ds2). auto.
Qed.
Lemma item_last body l : item body l -> exists r d, body = r ++ [d] /\ is_digit d = true.
Proof.
  destruct 1 as [ds n Hn _|ds1 n ds2 m _ Hm _ _ _].
  - eapply number_last; eassumption.
  - destruct (number_last _ _ Hm) as [r [d [-> Hd]]]. exists (ds1 ++ dash :: r), d.
    split; [now rewrite <- app_assoc|assumption].
Qed.
Lemma item_no_comma body l : item body l -> no_byte comma body.
Proof.
  destruct 1 as [ds n Hn _|ds1 n ds2 m Hn Hm _ _ _].
  - eapply digits_no_comma; eassumption.
  - apply Forall_app. split; [eapply digits_no_comma; eassumption|].
    constructor; [apply dash_not_comma|eapply digits_no_comma; eassumption].
Qed.
Lemma blanks_no_comma ws : blanks ws -> no_byte comma ws.
Proof. intros H. eapply Forall_impl; [|eassumption]. apply blank_not_comma. Qed.

(* ---- trimming ----------------------------------------------------------------------------- *)
Lemma drop_blanks_app ws s : blanks ws -> drop_blanks (ws ++ s) = drop_blanks s.
Proof. induction 1 as [|b ws Hb _ IH]; simpl; [reflexivity|]. now rewrite Hb. Qed.

Lemma drop_blanks_stop b s : is_blank b = false -> drop_blanks (b :: s) = b :: s.
Proof. intros H. simpl. now rewrite H. Qed.

Lemma drop_blanks_split s : exists ws, blanks ws /\ s = ws ++ drop_blanks s.
Proof.
  induction s as [|b s [ws [Hw E]]]; [exists []; split; [constructor|reflexivity]|].
  simpl. destruct (is_blank b) eqn:Hb.
  - exists (b :: ws). split; [now constructor|]. simpl. now rewrite <- E.
  - exists []. split; [constructor|reflexivity].
Qed.

Lemma blanks_rev ws : blanks ws -> blanks (rev ws).
Proof. apply Forall_rev. Qed.

Lemma trim_blanks_blanks ws : blanks ws -> trim_blanks ws = [].
Proof.
  intros H. unfold trim_blanks. rewrite <- (app_nil_r ws), drop_blanks_app by assumption. reflexivity.
Qed.

Lemma trim_blanks_body ws1 body ws2 d r r' d' :
  blanks ws1 -> blanks ws2 -> body = d :: r -> is_blank d = false -> body = r' ++ [d'] -> is_blank d' = false ->
  trim_blanks (ws1 ++ body ++ ws2) = body.
Proof.
  intros H1 H2 E1 Hd E2 Hd'. unfold trim_blanks. rewrite drop_blanks_app by assumption.
  rewrite E1. simpl app. rewrite drop_blanks_stop by assumption. rewrite app_comm_cons, <- E1.
  rewrite rev_app_distr, drop_blanks_app by now apply blanks_rev.
  rewrite E2 at 1. rewrite rev_app_distr. simpl app. rewrite drop_blanks_stop by assumption.
  change (d' :: rev r') with (rev [d'] ++ rev r'). rewrite <- rev_app_distr, rev_involutive. now symmetry.
Qed.

Lemma trim_blanks_split s : exists ws1 ws2, blanks ws1 /\ blanks ws2 /\ s = ws1 ++ trim_blanks s ++ ws2.
Proof.
  destruct (drop_blanks_split s) as [ws1 [H1 E1]].
  destruct (drop_blanks_split (rev (drop_blanks s))) as [ws2 [H2 E2]].
  exists ws1, (rev ws2). split; [assumption|]. split; [now apply blanks_rev|].
  unfold trim_blanks. rewrite <- rev_app_distr, <- E2, rev_involutive. exact E1.
Qed.

(* ---- fields ------------------------------------------------------------------------------- *)
Lemma field_no_comma f l : field f l -> no_byte comma f.
Proof.
  destruct 1 as [ws Hw|ws1 body ws2 l H1 H2 Hi].
  - now apply blanks_no_comma.
  - apply Forall_app. split; [now apply blanks_no_comma|]. apply Forall_app. split; [eapply item_no_comma; eassumption|now apply blanks_no_comma].
Qed.

Lemma parse_fields_field f l r l' :
  field f l -> parse_fields r = Some l' -> parse_fields (f :: r) = Some (l ++ l').
Proof.
  intros Hf Hr. destruct Hf as [ws Hw|ws1 body ws2 l H1 H2 Hi]; simpl.
  - now rewrite trim_blanks_blanks.
  - destruct (item_first _ _ Hi) as [d [t [E1 Hd]]]. destruct (item_last _ _ Hi) as [t' [d' [E2 Hd']]].
    rewrite (trim_blanks_body ws1 body ws2 d t t' d') by (auto using digit_not_blank).
    apply parse_item_spec in Hi. destruct body as [|b0 body0]; [discriminate E1|]. now rewrite Hi, Hr.
Qed.

Lemma parse_fields_cons_inv f r l :
  parse_fields (f :: r) = Some l -> exists l1 l2, field f l1 /\ parse_fields r = Some l2 /\ l = l1 ++ l2.
Proof.
  simpl. destruct (trim_blanks_split f) as [ws1 [ws2 [H1 [H2 E]]]].
  destruct (trim_blanks f) as [|b part] eqn:Et.
  - intros H. exists [], l. split; [|auto]. rewrite E. apply field_empty. apply Forall_app. now split.
  - destruct (parse_item (b :: part)) as [l1|] eqn:Ei; [|discriminate].
    destruct (parse_fields r) as [l2|]; [|discriminate]. intros H; injection H as <-.
    exists l1, l2. split; [|auto]. rewrite E. apply field_item; auto. now apply parse_item_spec.
Qed.

(* ---- splitting at commas ---------------------------------------------------------------------- *)
Definition join_comma (f : list N) (fs : list (list N)) : list N := f ++ concat (map (cons comma) fs).

Lemma split1_join s : forall f fs, split1 s = (f, fs) -> s = join_comma f fs.
Proof.
  induction s as [|b s IH]; simpl; intros f fs H.
  - inversion H; subst. reflexivity.
  - destruct (split1 s) as [f' fs'] eqn:E. specialize (IH _ _ eq_refl). destruct (b =? comma) eqn:Eb.
    + inversion H; subst. apply N.eqb_eq in Eb. subst b. reflexivity.
    + inversion H; subst. reflexivity.
Qed.

Lemma split_comma_last f : no_byte comma f -> split_comma f = [f].
Proof.
  unfold split_comma. induction 1 as [|b f Hb _ IH]; simpl; [reflexivity|].
  destruct (split1 f) as [g gs]. rewrite Hb. now inversion IH.
Qed.

Lemma split_comma_cons f s : no_byte comma f -> split_comma (f ++ comma :: s) = f :: split_comma s.
Proof.
  unfold split_comma. induction 1 as [|b f Hb _ IH]; simpl.
  - destruct (split1 s) as [g gs]. reflexivity.
  - destruct (split1 (f ++ comma :: s)) as [g gs]. rewrite Hb. destruct (split1 s) as [g' gs']. now inversion IH.
Qed.

Lemma parse_fields_join fs : forall f l, parse_fields (f :: fs) = Some l -> cpulist (join_comma f fs) l.
Proof.
  induction fs as [|g gs IH]; intros f l H; apply parse_fields_cons_inv in H as [l1 [l2 [Hf [Hr ->]]]].
  - simpl in Hr. inversion Hr; subst. unfold join_comma. simpl. rewrite !app_nil_r. now apply cl_last.
  - unfold join_comma. simpl. apply cl_cons; [assumption|]. now apply IH.
Qed.

Lemma parse_cpu_list_fields s : parse_cpu_list s = parse_fields (split_comma s).
Proof. destruct s; reflexivity. Qed.

Theorem parse_cpu_list_grammar s l : parse_cpu_list s = Some l <-> cpulist s l.
Proof.
  rewrite parse_cpu_list_fields. split.
  - unfold split_comma. destruct (split1 s) as [f fs] eqn:E. apply split1_join in E. subst s. apply parse_fields_join.
  - induction 1 as [f l Hf|f l s l' Hf Hs IH].
    + rewrite split_comma_last by (eapply field_no_comma; eassumption).
      rewrite <- (app_nil_r l). now apply parse_fields_field.
    + rewrite split_comma_cons by (eapply field_no_comma; eassumption). now apply parse_fields_field.
Qed.

(* the expansion lists exactly the CPUs n..m, in increasing order *)
Lemma count_up_In k : forall a c, In c (count_up a k) <-> a <= c <= a + N.of_nat k.
Proof.
  induction k as [|k IH]; intros a c.
  - simpl. lia.
  - change (count_up a (S k)) with (a :: count_up (a + 1) k). cbn [In]. rewrite IH. lia.
Qed.

Lemma count_up_length k : forall a, length (count_up a k) = S k.
Proof. induction k as [|k IH]; intros a; [reflexivity|]. change (count_up a (S k)) with (a :: count_up (a + 1) k). cbn [length]. now rewrite IH. Qed.

Lemma cpu_range_In n m c : n <= m -> (In c (cpu_range n m) <-> n <= c <= m).
Proof. intros Hle. rewrite <- expand_range_spec. unfold expand_range. rewrite count_up_In. lia. Qed.

Lemma cpu_range_length n m : length (cpu_range n m) = S (N.to_nat (m - n)).
Proof. rewrite <- expand_range_spec. apply count_up_length. Qed.

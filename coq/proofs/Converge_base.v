(* Converge_base: address order, the swap rule, and lemmas about the list primitives of model/Converge.v. *)
From Coq Require Import List NArith Bool Lia Permutation Arith PeanoNat.
Import ListNotations.
From NV Require Import model.Converge.
Open Scope N_scope.

(* ---- overlay address order ---------------------------------------------------------------------------------- *)
Lemma addr_cmp_eq a b : addr_cmp a b = Eq <-> a = b.
Proof.
  destruct a as [fa va], b as [fb vb]; unfold addr_cmp; simpl.
  destruct fa, fb; split; intro H; try discriminate; try (inversion H; fail).
  - apply N.compare_eq_iff in H. now subst.
  - inversion H; subst. apply N.compare_refl.
  - apply N.compare_eq_iff in H. now subst.
  - inversion H; subst. apply N.compare_refl.
Qed.

Lemma addr_cmp_antisym a b : addr_cmp b a = CompOpp (addr_cmp a b).
Proof.
  destruct a as [fa va], b as [fb vb]; unfold addr_cmp; simpl.
  destruct fa, fb; simpl; try reflexivity; apply N.compare_antisym.
Qed.

Lemma addr_cmp_trans a b c : addr_cmp a b = Lt -> addr_cmp b c = Lt -> addr_cmp a c = Lt.
Proof.
  destruct a as [fa va], b as [fb vb], c as [fc vc]; unfold addr_cmp; simpl.
  destruct fa, fb, fc; simpl; try discriminate; try reflexivity;
    rewrite !N.compare_lt_iff; lia.
Qed.

(* distinct addresses are strictly ordered one way or the other *)
Lemma addr_total a b : a <> b -> addr_cmp a b = Lt \/ addr_cmp b a = Lt.
Proof.
  intro D. destruct (addr_cmp a b) eqn:E.
  - apply addr_cmp_eq in E. contradiction.
  - now left.
  - right. rewrite addr_cmp_antisym, E. reflexivity.
Qed.

Lemma should_swap_requires me peer elig : should_swap me peer elig = true -> addr_cmp peer me <> Lt.
Proof. unfold should_swap. destruct (addr_cmp peer me); congruence. Qed.

Lemma should_swap_smaller_peer me peer elig : addr_cmp peer me = Lt -> should_swap me peer elig = false.
Proof. unfold should_swap. now intros ->. Qed.

(* ---- nodes and ids ------------------------------------------------------------------------------------------ *)
Lemma other_other n : other (other n) = n.
Proof. now destruct n. Qed.
Lemma other_neq n : other n <> n.
Proof. now destruct n. Qed.

Lemma id_owner_mk n clk : id_owner (mk_id n clk) = n.
Proof.
  unfold id_owner, mk_id. destruct n; simpl node_bit.
  - rewrite N.add_0_r, N.odd_mul, N.odd_2. reflexivity.
  - rewrite N.add_comm, N.odd_add_mul_2. reflexivity.
Qed.

Lemma mk_id_lt n clk : mk_id n clk < 2 * (clk + 1).
Proof. unfold mk_id. destruct n; simpl node_bit; lia. Qed.
Lemma mk_id_ge n clk : 2 * clk <= mk_id n clk.
Proof. unfold mk_id. lia. Qed.

(* ---- identity of a tunnel: the fields that never change -------------------------------------------------------- *)
Definition tid (t : tun) : N * N * N * N * bool := (t_l t, t_r t, t_hid t, t_sid t, t_ini t).

Lemma tid_set_flags t i o p : tid (set_flags t i o p) = tid t.
Proof. reflexivity. Qed.
Lemma tid_set_sent t : tid (set_sent t) = tid t.
Proof. reflexivity. Qed.
Lemma tid_set_recv t c : tid (set_recv t c) = tid t.
Proof. reflexivity. Qed.

Lemma tid_fields t u : tid t = tid u ->
  t_l t = t_l u /\ t_r t = t_r u /\ t_hid t = t_hid u /\ t_sid t = t_sid u /\ t_ini t = t_ini u.
Proof. unfold tid. intro H. inversion H. auto. Qed.

Definition tl_of (i : N * N * N * N * bool) : N := let '(l, _, _, _, _) := i in l.
Definition sid_of (i : N * N * N * N * bool) : N := let '(_, _, _, s, _) := i in s.
Lemma map_tl l : map t_l l = map tl_of (map tid l).
Proof. rewrite map_map. apply map_ext. now intros []. Qed.
Lemma map_sid l : map t_sid l = map sid_of (map tid l).
Proof. rewrite map_map. apply map_ext. now intros []. Qed.

(* ---- list primitives ---------------------------------------------------------------------------------------- *)
Lemma find_l_some idx l t : find_l idx l = Some t -> In t l /\ t_l t = idx.
Proof.
  unfold find_l. intro H. apply find_some in H as [H1 H2]. unfold has_l in H2. apply N.eqb_eq in H2. auto.
Qed.

Lemma find_l_none idx l : find_l idx l = None -> forall t, In t l -> t_l t <> idx.
Proof.
  unfold find_l. intros H t Ht E. apply (find_none _ _ H) in Ht. unfold has_l in Ht. apply N.eqb_neq in Ht. auto.
Qed.

Lemma find_l_in_nodup idx l t : NoDup (map t_l l) -> In t l -> t_l t = idx -> find_l idx l = Some t.
Proof.
  unfold find_l. induction l as [|a l IH]; simpl; intros ND Hin E; [tauto|].
  inversion ND as [|x y Hn ND']; subst.
  unfold has_l at 1. destruct (t_l a =? t_l t) eqn:Ea.
  - apply N.eqb_eq in Ea. destruct Hin as [->|Hin]; [reflexivity|].
    exfalso. apply Hn. rewrite Ea. now apply in_map.
  - destruct Hin as [->|Hin]; [rewrite N.eqb_refl in Ea; discriminate|]. now apply IH.
Qed.

Lemma upd_l_tid idx f l : (forall t, tid (f t) = tid t) -> map tid (upd_l idx f l) = map tid l.
Proof.
  intro Hf. unfold upd_l. rewrite map_map. apply map_ext. intro t. destruct (has_l idx t); auto.
Qed.

Lemma upd_l_in idx f l t' : In t' (upd_l idx f l) ->
  exists t, In t l /\ (t' = t \/ (t' = f t /\ t_l t = idx)).
Proof.
  unfold upd_l. rewrite in_map_iff. intros [t [E Hin]]. exists t. split; [exact Hin|].
  unfold has_l in E. destruct (t_l t =? idx) eqn:El; [right|left]; [|now symmetry].
  apply N.eqb_eq in El. auto.
Qed.

Lemma upd_l_in_rev idx f l t : In t l -> exists t', In t' (upd_l idx f l) /\ (t' = t \/ (t' = f t /\ t_l t = idx)).
Proof.
  intro Hin. unfold upd_l. exists (if has_l idx t then f t else t). split.
  - apply in_map_iff. now exists t.
  - unfold has_l. destruct (t_l t =? idx) eqn:El; [right|now left]. apply N.eqb_eq in El. auto.
Qed.

Lemma del_l_in idx l t : In t (del_l idx l) <-> In t l /\ t_l t <> idx.
Proof.
  unfold del_l. rewrite filter_In. unfold has_l. rewrite negb_true_iff, N.eqb_neq. tauto.
Qed.

Lemma del_l_nodup (f : tun -> N) idx l : NoDup (map f l) -> NoDup (map f (del_l idx l)).
Proof.
  unfold del_l. induction l as [|a l IH]; simpl; intro ND; [constructor|].
  inversion ND as [|x y Hn ND']; subst. destruct (negb (has_l idx a)); simpl; [|now apply IH].
  constructor; [|now apply IH]. intro Hin. apply Hn. apply in_map_iff in Hin as [t [E Ht]].
  apply filter_In in Ht as [Ht _]. apply in_map_iff. now exists t.
Qed.

Lemma filter_all {A} (f : A -> bool) l : (forall x, In x l -> f x = true) -> filter f l = l.
Proof.
  induction l as [|a l IH]; simpl; intro H; [reflexivity|].
  rewrite (H a (or_introl eq_refl)). f_equal. apply IH. intros x Hx. apply H. now right.
Qed.

Lemma make_primary_perm idx l : NoDup (map t_l l) -> Permutation (make_primary idx l) l.
Proof.
  unfold make_primary. destruct (find_l idx l) as [u|] eqn:F; [|reflexivity].
  apply find_l_some in F as [Hin El]. subst idx. intro ND.
  induction l as [|a l IH]; [destruct Hin|].
  simpl in ND. inversion ND as [|x y Hn ND']; subst.
  destruct Hin as [->|Hin].
  - simpl. unfold has_l at 1. rewrite N.eqb_refl. simpl. constructor.
    assert (del_l (t_l u) l = l) as ->; [|reflexivity].
    unfold del_l. apply filter_all. intros t Ht. unfold has_l.
    rewrite negb_true_iff, N.eqb_neq. intro E. apply Hn. rewrite <- E. now apply in_map.
  - simpl. unfold has_l at 1. destruct (t_l a =? t_l u) eqn:Ea.
    + apply N.eqb_eq in Ea. exfalso. apply Hn. rewrite Ea. now apply in_map.
    + simpl. eapply perm_trans; [apply perm_swap|]. constructor. now apply IH.
Qed.

Lemma removelast_app_last {A} (l : list A) (d : A) : l <> [] -> l = removelast l ++ [last l d].
Proof. apply app_removelast_last. Qed.

Lemma rev_head_last {A} (l : list A) (o : A) (r : list A) (d : A) : rev l = o :: r -> last l d = o /\ l <> [].
Proof.
  intro H. assert (l = rev r ++ [o]) as ->.
  { rewrite <- (rev_involutive l), H. reflexivity. }
  split; [apply last_last|]. intro E. apply app_eq_nil in E as [_ E]. discriminate.
Qed.

(* add_tunnel: the new list is a sub-list of t :: old, the retired tunnel's session goes to [n_gone] *)
Lemma add_tunnel_spec ns t :
  let ns' := add_tunnel ns t in
  n_pend ns' = n_pend ns /\ n_swaps ns' = n_swaps ns /\ n_done ns' = n_done ns /\
  In t (n_tuns ns') /\
  (exists keep drop, t :: n_tuns ns = keep ++ drop /\ n_tuns ns' = keep /\
                     n_gone ns' = map t_sid drop ++ n_gone ns /\ (length drop <= 1)%nat).
Proof.
  unfold add_tunnel. cbv zeta.
  destruct (Nat.ltb max_tunnels (length (t :: n_tuns ns))) eqn:Lt.
  - destruct (n_tuns ns) as [|a l] eqn:TL; [simpl in Lt; discriminate|].
    remember (t :: a :: l) as L eqn:EL.
    destruct (rev L) as [|o r] eqn:R.
    + apply (f_equal (@length _)) in R. rewrite rev_length in R. subst L. simpl in R. discriminate.
    + apply (rev_head_last _ _ _ t) in R as [HL NE].
      unfold add_gone, set_tuns. cbn [n_pend n_swaps n_done n_tuns n_gone].
      repeat split; try reflexivity.
      * subst L. cbn [removelast]. now left.
      * exists (removelast L), [o]. repeat split; auto.
        rewrite <- HL. now apply app_removelast_last.
  - unfold set_tuns. cbn [n_pend n_swaps n_done n_tuns n_gone].
    split; [reflexivity|]. split; [reflexivity|]. split; [reflexivity|]. split; [now left|].
    exists (t :: n_tuns ns), []. rewrite app_nil_r. repeat split; auto.
Qed.

Lemma send_all_spec me t pls :
  let '(t', ms) := send_all me t pls in
  tid t' = tid t /\ t_ctr t <= t_ctr t' /\ t_seen t' = t_seen t /\
  forall m, In m ms -> exists c pl, m = MData me (t_r t) (t_sid t) (t_ini t) c (KData pl) /\ c <= t_ctr t'.
Proof.
  revert t. induction pls as [|pl r IH]; intro t; simpl.
  - repeat split; auto; try lia; try (intros m []).
  - specialize (IH (set_sent t)). destruct (send_all me (set_sent t) r) as [t2 ms] eqn:E.
    destruct IH as (I1 & I2 & I3 & I4). simpl in I2. repeat split; auto; try lia.
    intros m [<-|Hm].
    + exists (t_ctr t + 1), pl. split; [reflexivity|lia].
    + apply I4 in Hm as (c & pl' & -> & Hc). exists c, pl'. split; [reflexivity|exact Hc].
Qed.

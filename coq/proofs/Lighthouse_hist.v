(* Lighthouse_hist: what one operation can change in addrMap, and the invariants over all histories. *)
From Coq Require Import List NArith Bool Lia.
Import ListNotations.
From NV Require Import lib.Ip gen.Tab_Lighthouse model.Lighthouse proofs.Lighthouse_gate.
Open Scope N_scope.

Local Notation aga := (aget_aset addr_eqb addr_eqb_eq).
Local Notation agn := (aget_aset N.eqb N.eqb_eq).

Lemma addr_eqb_refl a : addr_eqb a a = true.
Proof. now apply addr_eqb_eq. Qed.

Lemma addr_eqb_sym a b : addr_eqb a b = addr_eqb b a.
Proof. apply (eqb_sym_ addr_eqb addr_eqb_eq). Qed.

Lemma mem_In a l : mem a l = true <-> In a l.
Proof.
  unfold mem. rewrite existsb_exists. split.
  - intros (x & Hx & E). apply addr_eqb_eq in E. now subst.
  - intros H. exists a. split; [exact H|apply addr_eqb_refl].
Qed.

Lemma mem_false a l : mem a l = false <-> ~ In a l.
Proof.
  split.
  - intros H I. apply mem_In in I. congruence.
  - intros H. destruct (mem a l) eqn:E; [apply mem_In in E; contradiction|reflexivity].
Qed.

(* ---- association-list facts ----------------------------------------------------------------------------- *)

Lemma aget_app_last {K V} (eqb : K -> K -> bool) k (m : list (K * V)) k' v :
  @aget K V eqb k (m ++ [(k', v)]) =
  match @aget K V eqb k m with Some x => Some x | None => if eqb k k' then Some v else None end.
Proof.
  induction m as [|[k0 v0] r IH]; simpl; [reflexivity|]. destruct (eqb k k0); [reflexivity|exact IH].
Qed.

Lemma fold_aset_get (rid : N) l : forall (am : list (addr * N)) a,
  aget addr_eqb a (fold_left (fun am a => aset addr_eqb a rid am) l am) = if mem a l then Some rid else aget addr_eqb a am.
Proof.
  induction l as [|x l IH]; intros am a; simpl; [reflexivity|].
  rewrite IH, aga. rewrite (addr_eqb_sym a x).
  destruct (addr_eqb x a); simpl; [now destruct (mem a l)|reflexivity].
Qed.

Lemma find_rl_some am l rid : find_rl am l = Some rid -> exists a, In a l /\ aget addr_eqb a am = Some rid.
Proof.
  induction l as [|x l IH]; simpl; [discriminate|].
  destruct (aget addr_eqb x am) eqn:E.
  - intros H; inversion H; subst. exists x. auto.
  - intros H. destruct (IH H) as (a & Ha & Ga). exists a. auto.
Qed.

Lemma find_rl_none am l : find_rl am l = None -> forall a, In a l -> aget addr_eqb a am = None.
Proof.
  induction l as [|x l IH]; simpl; [intros _ a []|].
  destruct (aget addr_eqb x am) eqn:E; [discriminate|].
  intros H a [<-|Ha]; [exact E|now apply IH].
Qed.

(* ---- get_rl ------------------------------------------------------------------------------------------------ *)

Lemma get_rl_cases st all st1 rid : get_rl st all = (st1, rid) ->
  (exists ai, In ai all /\ amap_get ai st = Some rid /\ s_next st1 = s_next st /\
     forall A, amap_get A st1 = if mem A (firstn 1 all) then Some rid else amap_get A st) \/
  (rid = s_next st /\ s_next st1 = N.succ (s_next st) /\ (forall a, In a all -> amap_get a st = None) /\
     forall A, amap_get A st1 = if mem A all then Some rid else amap_get A st).
Proof.
  unfold get_rl. destruct (find_rl (s_amap st) all) as [r|] eqn:F; intros H; inversion H; subst; clear H.
  - left. destruct (find_rl_some _ _ _ F) as (ai & Hai & Gai). exists ai. repeat split; auto.
    + destruct all; reflexivity.
    + intros A. destruct all as [|a0 rest]; simpl; [reflexivity|].
      unfold amap_get; simpl. rewrite aga. rewrite (addr_eqb_sym A a0). now destruct (addr_eqb a0 A).
  - right. repeat split; auto.
    + intros a Ha. exact (find_rl_none _ _ F a Ha).
    + intros A. unfold amap_get; simpl. apply fold_aset_get.
Qed.

Lemma get_rl_entry st all st1 rid r o : get_rl st all = (st1, rid) -> entry st1 r o = entry st r o.
Proof.
  unfold get_rl. destruct (find_rl (s_amap st) all) as [r0|]; intros H; inversion H; subst; clear H.
  - destruct all; reflexivity.
  - unfold entry, rec_get; simpl. rewrite aget_app_last.
    destruct (aget N.eqb r (s_recs st)); [reflexivity|]. destruct (r =? s_next st); reflexivity.
Qed.

Lemma get_rl_key st a0 rest st1 rid : get_rl st (a0 :: rest) = (st1, rid) -> amap_get a0 st1 = Some rid.
Proof.
  intros H. destruct (get_rl_cases _ _ _ _ H) as [(ai & _ & _ & _ & G)|(_ & _ & _ & G)]; rewrite G; simpl;
    now rewrite addr_eqb_refl.
Qed.

(* ---- upd_entry --------------------------------------------------------------------------------------------- *)

Lemma upd_entry_amap st rid o g A : amap_get A (upd_entry st rid o g) = amap_get A st.
Proof. unfold upd_entry. destruct (rec_get rid st); reflexivity. Qed.

Lemma upd_entry_next st rid o g : s_next (upd_entry st rid o g) = s_next st.
Proof. unfold upd_entry. destruct (rec_get rid st); reflexivity. Qed.

Lemma upd_entry_other st rid o g r o' :
  entry (upd_entry st rid o g) r o' <> entry st r o' -> r = rid /\ o' = o.
Proof.
  unfold upd_entry. destruct (rec_get rid st) as [rl|] eqn:R; [|intros H; now elim H].
  unfold entry, rec_get; simpl. rewrite agn.
  destruct (rid =? r) eqn:E.
  - apply N.eqb_eq in E; subst r. unfold rec_get in R. rewrite R. simpl. rewrite aga.
    destruct (addr_eqb o o') eqn:E2; [apply addr_eqb_eq in E2; auto|]. intros H; now elim H.
  - intros H; now elim H.
Qed.

(* ---- one operation ------------------------------------------------------------------------------------------ *)

(* who may have changed cache[o] of list rid, and where that list is registered afterwards *)
Inductive change_by (c : cfg) (st' : state) (rid : N) : hop -> Prop :=
| ByLearn f ap : amap_get (fst f) st' = Some rid -> change_by c st' rid (HLearn f ap)
| ByUpdate f m : tab_eff (features c f m) = EUpdate -> amap_get (fst f) st' = Some rid ->
    change_by c st' rid (HMsg f (PMsg m))
| ByReply f m a : tab_eff (features c f m) = EReply -> claimed m = Some a -> amap_get a st' = Some rid ->
    change_by c st' rid (HMsg f (PMsg m)).

Lemma hstep_changes c st op st' outs rid o :
  hstep c st op = (st', outs) -> entry st' rid o <> entry st rid o ->
  o = fst (op_sender op) /\ change_by c st' rid op.
Proof.
  destruct op as [f p|f ap]; simpl.
  - destruct p as [|m]; simpl; [intros H; inversion H; subst; intros N0; now elim N0|].
    destruct (tab_eff (features c f m)) eqn:E.
    1,6: intros H; inversion H; subst; intros N0; now elim N0.
    + destruct (claimed m); intros H; inversion H; subst; intros N0; now elim N0.
    + unfold do_update. destruct (get_rl st (all_from f)) as [st1 rid1] eqn:G.
      intros H; inversion H; subst; clear H. intros N0.
      rewrite <- (get_rl_entry _ _ _ _ rid o G) in N0.
      apply upd_entry_other in N0 as [-> ->]. split; [reflexivity|].
      apply ByUpdate; [exact E|]. rewrite upd_entry_amap. exact (get_rl_key _ _ _ _ _ G).
    + destruct (claimed m) as [a|] eqn:C; [|intros H; inversion H; subst; intros N0; now elim N0].
      unfold do_reply. destruct (get_rl st [a]) as [st1 rid1] eqn:G.
      intros H; inversion H; subst; clear H. intros N0.
      rewrite <- (get_rl_entry _ _ _ _ rid o G) in N0.
      apply upd_entry_other in N0 as [-> ->]. split; [reflexivity|].
      eapply ByReply; eauto. rewrite upd_entry_amap. exact (get_rl_key _ _ _ _ _ G).
    + destruct (claimed m); intros H; inversion H; subst; intros N0; now elim N0.
  - unfold learn, query_cache. destruct (amap_get (fst f) st) as [r0|] eqn:A.
    + intros H; inversion H; subst; clear H. intros N0.
      apply upd_entry_other in N0 as [-> ->]. split; [reflexivity|].
      apply ByLearn. now rewrite upd_entry_amap.
    + destruct (get_rl st (all_from f)) as [st1 rid1] eqn:G.
      intros H; inversion H; subst; clear H. intros N0.
      rewrite <- (get_rl_entry _ _ _ _ rid o G) in N0.
      apply upd_entry_other in N0 as [-> ->]. split; [reflexivity|].
      apply ByLearn. rewrite upd_entry_amap. exact (get_rl_key _ _ _ _ _ G).
Qed.

(* ---- property statements at the level of one message ---------------------------------------------------------- *)

(* a host update that changes anything: on a lighthouse, about the sender, under the sender's key, in the sender's list *)
Lemma update_owner c st f m st' outs rid o :
  step c st f (PMsg m) = (st', outs) -> m_type m = t_host_update ->
  entry st' rid o <> entry st rid o ->
  c_am c = true /\ o = fst f /\ amap_get (fst f) st' = Some rid /\ (forall a, claimed m = Some a -> In a (all_from f)).
Proof.
  intros S T N0.
  destruct (hstep_changes c st (HMsg f (PMsg m)) st' outs rid o S N0) as [Ho Hc]. simpl in Ho.
  inversion Hc; subst.
  - destruct (gate_update _ _ _ H1) as (A & _ & C). auto.
  - destruct (gate_reply _ _ _ H1) as (_ & T' & _). rewrite T in T'. discriminate.
Qed.

Lemma do_query_sends c st f m q o : In o (do_query c st f m q) ->
  exists rm, (o = OSend (fst f) rm /\ m_type rm = t_host_query_reply) \/ (o = OSend q rm /\ m_type rm = t_host_punch).
Proof.
  unfold do_query. destruct (prep st q); [|intros []].
  intros [<-|H]; [eexists; left; split; reflexivity|].
  destruct (prep st (fst f)); [|destruct H].
  destruct (c_v1 c); [destruct (fst (fst f))|]; simpl in H; try contradiction;
    destruct H as [<-|[]]; eexists; right; split; reflexivity.
Qed.

(* any message sent at all comes from a lighthouse; a query answer only for a query, to the asking tunnel *)
Lemma sends_gate c st f p st' outs d rm :
  step c st f p = (st', outs) -> In (OSend d rm) outs ->
  c_am c = true /\
  (m_type rm = t_host_query_reply -> d = fst f /\ exists m, p = PMsg m /\ m_type m = t_host_query).
Proof.
  destruct p as [|m]; simpl; [intros H; inversion H; subst; intros []|].
  destruct (tab_eff (features c f m)) eqn:E.
  1,6: intros H; inversion H; subst; intros [].
  - destruct (gate_answer _ _ _ E) as (A & T & _).
    destruct (claimed m) as [q|]; intros H; inversion H; subst; [|intros []].
    intros I. apply do_query_sends in I as (rm' & [[I1 I2]|[I1 I2]]); inversion I1; subst; (split; [exact A|]).
    + intros _. split; [reflexivity|eauto].
    + intros X. rewrite I2 in X. discriminate.
  - destruct (gate_update _ _ _ E) as (A & T & _). unfold do_update.
    destruct (get_rl st (all_from f)) as [st1 rid1]. intros H; inversion H; subst; clear H.
    intros I. split; [exact A|]. intros X.
    destruct (is_v1 m); [destruct (fst (fst f))|]; simpl in I; try contradiction;
      destruct I as [I|[]]; inversion I; subst; discriminate.
  - destruct (claimed m); intros H; inversion H; subst; intros [].
  - destruct (claimed m) as [a|]; intros H; inversion H; subst; [|intros []].
    intros I. unfold do_punch in I. apply in_app_or in I as [I|I]; [|apply in_app_or in I as [I|I]].
    + apply in_map_iff in I as (? & X & _). discriminate.
    + apply in_map_iff in I as (? & X & _). discriminate.
    + destruct (c_respond c); simpl in I; [destruct I as [I|[]]; discriminate|contradiction].
Qed.

(* a node that is not a lighthouse: only query replies and punch requests from its configured lighthouses do anything *)
Lemma client_gate c st f p st' outs :
  c_am c = false -> step c st f p = (st', outs) ->
  (st' = st /\ outs = []) \/
  (sender_lh c f = true /\ exists m, p = PMsg m /\ (m_type m = t_host_query_reply \/ m_type m = t_host_punch)).
Proof.
  intros NA. destruct p as [|m]; simpl; [intros H; inversion H; auto|].
  destruct (tab_eff (features c f m)) eqn:E.
  1,6: intros H; inversion H; auto.
  - destruct (gate_answer _ _ _ E) as (A & _). congruence.
  - destruct (gate_update _ _ _ E) as (A & _). congruence.
  - destruct (gate_reply _ _ _ E) as (L & T & _). intros _. right. split; [exact L|eauto].
  - destruct (gate_punch _ _ _ E) as (L & T & _). intros _. right. split; [exact L|eauto].
Qed.

(* punches are scheduled only on request of a configured lighthouse *)
Lemma punch_gate c st f p st' outs o :
  step c st f p = (st', outs) -> In o outs -> (exists t v, o = OPunch t v) \/ (exists v, o = ORespond v) ->
  sender_lh c f = true /\ exists m, p = PMsg m /\ m_type m = t_host_punch.
Proof.
  destruct p as [|m]; simpl; [intros H; inversion H; subst; intros []|].
  destruct (tab_eff (features c f m)) eqn:E.
  1,6: intros H; inversion H; subst; intros [].
  - destruct (claimed m) as [q|]; intros H; inversion H; subst; [|intros []].
    intros I X. apply do_query_sends in I as (rm & [[-> _]|[-> _]]);
      destruct X as [(? & ? & X)|(? & X)]; discriminate.
  - unfold do_update. destruct (get_rl st (all_from f)) as [st1 rid1]. intros H; inversion H; subst; clear H.
    intros I X. destruct (is_v1 m); [destruct (fst (fst f))|]; simpl in I; try contradiction;
      destruct I as [<-|[]]; destruct X as [(? & ? & X)|(? & X)]; discriminate.
  - destruct (claimed m); intros H; inversion H; subst; intros [].
  - destruct (gate_punch _ _ _ E) as (L & T & _). intros _ _ _. split; [exact L|eauto].
Qed.

(* ---- histories ------------------------------------------------------------------------------------------------ *)

Lemma run_cons c st op h : run c st (op :: h) = run c (fst (hstep c st op)) h.
Proof. reflexivity. Qed.

Lemma run_app c st h op : run c st (h ++ [op]) = fst (hstep c (run c st h) op).
Proof. unfold run. now rewrite fold_left_app. Qed.

(* an operation that is entitled to write cache[o]: a handshake of the tunnel whose first address is o, a host update
   of that tunnel on a lighthouse (claiming nothing but its own addresses), or a query reply from that tunnel when it
   is one of my configured lighthouses *)
Definition accepted_writer (c : cfg) (op : hop) (o : addr) : Prop :=
  match op with
  | HLearn f _ => fst f = o
  | HMsg f (PMsg m) =>
      fst f = o /\
      ((c_am c = true /\ m_type m = t_host_update /\ forall a, claimed m = Some a -> In a (all_from f)) \/
       (sender_lh c f = true /\ m_type m = t_host_query_reply))
  | HMsg _ PGarbage => False
  end.

Lemma change_accepted c st' rid op o : o = fst (op_sender op) -> change_by c st' rid op -> accepted_writer c op o.
Proof.
  intros -> H. inversion H; subst; simpl.
  - reflexivity.
  - destruct (gate_update _ _ _ H0) as (A & T & C). split; [reflexivity|left; auto].
  - destruct (gate_reply _ _ _ H0) as (L & T & _). split; [reflexivity|right; auto].
Qed.

Lemma history_owner c : forall h st0 rid o,
  entry (run c st0 h) rid o <> None ->
  entry st0 rid o <> None \/ exists op, In op h /\ accepted_writer c op o.
Proof.
  induction h as [|op h IH]; intros st0 rid o H; [left; exact H|].
  rewrite run_cons in H. destruct (hstep c st0 op) as [st1 outs] eqn:S. simpl in H.
  destruct (IH st1 rid o H) as [H1|(op' & I & W)]; [|right; exists op'; split; [now right|exact W]].
  destruct (entry st0 rid o) eqn:E0; [left; discriminate|].
  right. exists op. split; [now left|].
  assert (N0 : entry st1 rid o <> entry st0 rid o) by (rewrite E0; exact H1).
  destruct (hstep_changes _ _ _ _ _ _ _ S N0) as [Ho Hc]. eapply change_accepted; eauto.
Qed.

(* ---- which addresses share a list --------------------------------------------------------------------------------- *)

Definition sets_of (h : list hop) : list (list addr) := map (fun o => all_from (op_sender o)) h.

(* no two certificates share an address (unless they carry the same addresses) *)
Definition wf_sets (S : list (list addr)) : Prop :=
  forall F G, In F S -> In G S -> (exists x, In x F /\ In x G) -> forall y, In y F <-> In y G.

(* list numbers are fresh, and two addresses registered to the same list belong to one certificate *)
Definition alias_inv (S : list (list addr)) (st : state) : Prop :=
  (forall A r, amap_get A st = Some r -> r < s_next st) /\
  (forall A B r, amap_get A st = Some r -> amap_get B st = Some r -> A = B \/ exists F, In F S /\ In A F /\ In B F).

Lemma mem_one A a : mem A (firstn 1 [a]) = addr_eqb A a.
Proof. simpl. apply orb_false_r. Qed.

Lemma get_rl_inv S st all st1 rid :
  alias_inv S st -> (In all S /\ wf_sets S) \/ (exists a, all = [a]) ->
  get_rl st all = (st1, rid) -> alias_inv S st1.
Proof.
  intros [Fr Al] HS G.
  destruct (get_rl_cases _ _ _ _ G) as [(ai & Iai & Gai & Nx & GA)|(-> & Nx & Nn & GA)].
  - (* an existing list; allAddrs[0] now (also) names it *)
    split.
    + intros A r. rewrite GA, Nx. destruct (mem A (firstn 1 all)); [intros X; inversion X; subst; eauto|apply Fr].
    + assert (K : forall A B, mem A (firstn 1 all) = true -> amap_get B st = Some rid ->
                  A = B \/ exists F, In F S /\ In A F /\ In B F).
      { intros A B MA GB. destruct HS as [[IS WF]|[a ->]].
        - assert (IA : In A all). { apply mem_In in MA. destruct all; simpl in MA; [destruct MA|]. destruct MA as [<-|[]]. now left. }
          destruct (Al ai B rid Gai GB) as [<-|(F & IF & IaF & IBF)].
          + right. exists all. auto.
          + right. exists all. split; [exact IS|]. split; [exact IA|].
            apply (WF F all IF IS); [exists ai; auto|exact IBF].
        - rewrite mem_one in MA. apply addr_eqb_eq in MA; subst A.
          destruct Iai as [<-|[]]. exact (Al a B rid Gai GB). }
      intros A B r. rewrite !GA.
      destruct (mem A (firstn 1 all)) eqn:MA, (mem B (firstn 1 all)) eqn:MB.
      * intros _ _. apply mem_In in MA, MB. destruct all; simpl in MA, MB; [destruct MA|].
        destruct MA as [<-|[]], MB as [<-|[]]. now left.
      * intros X GB; inversion X; subst. now apply K.
      * intros GA' X; inversion X; subst. destruct (K B A MB GA') as [->|(F & ? & ? & ?)]; [now left|right; eauto].
      * apply Al.
  - (* a new list under every address of [all] *)
    split.
    + intros A r. rewrite GA, Nx. destruct (mem A all); [intros X; inversion X; subst; lia|].
      intros X. apply Fr in X. lia.
    + intros A B r. rewrite !GA.
      destruct (mem A all) eqn:MA, (mem B all) eqn:MB.
      * intros _ _. apply mem_In in MA, MB. destruct HS as [[IS _]|[a ->]].
        -- right. exists all. auto.
        -- destruct MA as [<-|[]], MB as [<-|[]]. now left.
      * intros X GB; inversion X; subst. apply Fr in GB. lia.
      * intros GA' X; inversion X; subst. apply Fr in GA'. lia.
      * apply Al.
Qed.

Lemma upd_entry_inv S st rid o g : alias_inv S st -> alias_inv S (upd_entry st rid o g).
Proof.
  intros [Fr Al]. split.
  - intros A r. rewrite upd_entry_amap, upd_entry_next. apply Fr.
  - intros A B r. rewrite !upd_entry_amap. apply Al.
Qed.

Lemma hstep_inv S c st op st' outs :
  alias_inv S st -> wf_sets S -> In (all_from (op_sender op)) S ->
  hstep c st op = (st', outs) -> alias_inv S st'.
Proof.
  intros I WF IS. destruct op as [f p|f ap]; simpl in *.
  - destruct p as [|m]; simpl; [intros H; inversion H; subst; exact I|].
    destruct (tab_eff (features c f m)).
    1,6: intros H; inversion H; subst; exact I.
    + destruct (claimed m); intros H; inversion H; subst; exact I.
    + unfold do_update. destruct (get_rl st (all_from f)) as [st1 rid1] eqn:G.
      intros H; inversion H; subst; clear H. apply upd_entry_inv.
      eapply get_rl_inv; [exact I|left; split; [exact IS|exact WF]|exact G].
    + destruct (claimed m) as [a|]; [|intros H; inversion H; subst; exact I].
      unfold do_reply. destruct (get_rl st [a]) as [st1 rid1] eqn:G.
      intros H; inversion H; subst; clear H. apply upd_entry_inv.
      eapply get_rl_inv; [exact I|right; eauto|exact G].
    + destruct (claimed m); intros H; inversion H; subst; exact I.
  - unfold learn, query_cache. destruct (amap_get (fst f) st).
    + intros H; inversion H; subst. now apply upd_entry_inv.
    + destruct (get_rl st (all_from f)) as [st1 rid1] eqn:G.
      intros H; inversion H; subst; clear H. apply upd_entry_inv.
      eapply get_rl_inv; [exact I|left; split; [exact IS|exact WF]|exact G].
Qed.

Lemma run_inv S c : forall h st0,
  alias_inv S st0 -> wf_sets S -> (forall op, In op h -> In (all_from (op_sender op)) S) ->
  alias_inv S (run c st0 h).
Proof.
  induction h as [|op h IH]; intros st0 I WF HS; [exact I|].
  rewrite run_cons. destruct (hstep c st0 op) as [st1 outs] eqn:E. simpl.
  apply IH; [|exact WF|intros op' Hop; apply HS; now right].
  eapply hstep_inv; eauto. apply HS. now left.
Qed.

Lemma alias_inv_mono S S' st : (forall F, In F S -> In F S') -> alias_inv S st -> alias_inv S' st.
Proof.
  intros Sub [Fr Al]. split; [exact Fr|]. intros A B r GA GB.
  destruct (Al A B r GA GB) as [->|(F & IF & ? & ?)]; [now left|right; exists F; auto].
Qed.

(* every address registered to the list a host update writes is certified for the sender, in every state reachable
   through operations of tunnels whose certificates do not share addresses *)
Lemma update_addr c st0 h f m st' outs rid o :
  alias_inv [] st0 -> wf_sets (sets_of (h ++ [HMsg f (PMsg m)])) ->
  step c (run c st0 h) f (PMsg m) = (st', outs) -> m_type m = t_host_update ->
  entry st' rid o <> entry (run c st0 h) rid o ->
  forall A, amap_get A st' = Some rid -> In A (all_from f).
Proof.
  intros I0 WF S T N0 A GA.
  set (SS := sets_of (h ++ [HMsg f (PMsg m)])) in *.
  assert (Iall : forall op, In op (h ++ [HMsg f (PMsg m)]) -> In (all_from (op_sender op)) SS).
  { intros op Hop. unfold SS, sets_of. apply in_map_iff. exists op. auto. }
  assert (I1 : alias_inv SS (run c st0 (h ++ [HMsg f (PMsg m)]))).
  { apply run_inv; [|exact WF|exact Iall]. eapply alias_inv_mono; [|exact I0]. intros F []. }
  rewrite run_app in I1.
  change (hstep c (run c st0 h) (HMsg f (PMsg m))) with (step c (run c st0 h) f (PMsg m)) in I1.
  rewrite S in I1. simpl in I1.
  destruct (update_owner _ _ _ _ _ _ _ _ S T N0) as (_ & _ & Gf & _).
  destruct I1 as [_ Al]. destruct (Al A (fst f) rid GA Gf) as [->|(F & IF & IA & If)]; [now left|].
  assert (Iff : In (all_from f) SS). { apply (Iall (HMsg f (PMsg m))). apply in_or_app. right. now left. }
  apply (WF F (all_from f) IF Iff); [exists (fst f); split; [exact If|now left]|exact IA].
Qed.

(* Rebuild / CopyAddrs: the list is the canonical (sorted, duplicate-free) form of the SET
   learned + reported + admitted resolved - blocked, for every enumeration order of the owners and of the
   resolver results; the same for the relays; and the invariant that carries this over all operation histories. *)
From Coq Require Import List NArith Bool Lia Sorting.Permutation Sorting.Sorted.
Import ListNotations.
From NV Require Import model.RemoteList proofs.RemoteList_order proofs.RemoteList_sort.
Open Scope N_scope.

Lemma is_bad_true bad a : is_bad bad a = true <-> In a bad.
Proof.
  unfold is_bad. rewrite existsb_exists. split.
  - intros (x & Hx & E). apply ap_eqb_eq in E. now subst.
  - intros H. exists a. split; [assumption|apply ap_eqb_refl].
Qed.

Lemma is_bad_false bad a : is_bad bad a = false <-> ~ In a bad.
Proof. rewrite <- is_bad_true. destruct (is_bad bad a); split; intros H; congruence. Qed.

(* what is in the collected list: an entry of some owner's cache, or an admitted resolver result - and not blocked *)
Lemma collect_addrs_in adm c dns bad x :
  In x (collect_addrs adm c dns bad) <->
  ((exists e, In e c /\ In x (oc_addrs (snd e))) \/ (In x dns /\ adm (ap_addr x) = true)) /\ ~ In x bad.
Proof.
  unfold collect_addrs, cache_addrs. rewrite in_app_iff, !filter_In, in_flat_map, andb_true_iff, negb_true_iff, is_bad_false.
  tauto.
Qed.

Lemma cache_addrs_perm c c' : Permutation c c' -> forall x, In x (cache_addrs c) <-> In x (cache_addrs c').
Proof.
  intros P x. unfold cache_addrs. rewrite !in_flat_map. split; intros (e & He & Hx); exists e; split; try assumption.
  - eapply Permutation_in; eassumption.
  - eapply Permutation_in; [symmetry|]; eassumption.
Qed.

Lemma collect_addrs_perm adm c c' dns dns' bad :
  Permutation c c' -> Permutation dns dns' ->
  forall x, In x (collect_addrs adm c dns bad) <-> In x (collect_addrs adm c' dns' bad).
Proof.
  intros Pc Pd x. rewrite !collect_addrs_in.
  assert (E1 : (exists e, In e c /\ In x (oc_addrs (snd e))) <-> (exists e, In e c' /\ In x (oc_addrs (snd e)))).
  { split; intros (e & He & Hx); exists e; split; try assumption.
    - eapply Permutation_in; eassumption.
    - eapply Permutation_in; [symmetry|]; eassumption. }
  assert (E2 : In x dns <-> In x dns').
  { split; apply Permutation_in; [assumption|now symmetry]. }
  tauto.
Qed.

Lemma collect_relays_perm c c' : Permutation c c' -> forall x, In x (collect_relays c) <-> In x (collect_relays c').
Proof.
  intros P x. unfold collect_relays. rewrite !in_flat_map. split; intros (e & He & Hx); exists e; split; try assumption.
  - eapply Permutation_in; eassumption.
  - eapply Permutation_in; [symmetry|]; eassumption.
Qed.

(* ---- one rebuild from a dirty list ---- *)
Section Rebuild.
  Variable admission : list addr -> addr -> bool.
  Variable chk : addr -> ap -> bool.

  Definition rebuilt (pref : list prefix) (vpn : list addr) (c : cache) (dns bad : list ap) : list ap :=
    sort_addrs pref (collect_addrs (admission vpn) c dns bad).

  Theorem rebuilt_sorted pref vpn c dns bad : addrs_sorted pref (rebuilt pref vpn c dns bad).
  Proof. apply sort_addrs_sorted. Qed.

  Theorem rebuilt_nodup pref vpn c dns bad : NoDup (rebuilt pref vpn c dns bad).
  Proof. apply sort_addrs_nodup. Qed.

  Theorem rebuilt_exact pref vpn c dns bad x :
    In x (rebuilt pref vpn c dns bad) <->
    ((exists e, In e c /\ In x (oc_addrs (snd e))) \/ (In x dns /\ admission vpn (ap_addr x) = true)) /\ ~ In x bad.
  Proof. unfold rebuilt. rewrite sort_addrs_in. apply collect_addrs_in. Qed.

  (* every enumeration order of the owner map and of the resolver-result map gives the same list *)
  Theorem rebuilt_order_independent pref vpn c c' dns dns' bad :
    Permutation c c' -> Permutation dns dns' -> rebuilt pref vpn c dns bad = rebuilt pref vpn c' dns' bad.
  Proof. intros Pc Pd. apply sort_addrs_ext. now apply collect_addrs_perm. Qed.

  (* ... and every sorting procedure: any arrangement of the collected addresses in which no later element sorts
     before an earlier one yields, after the dedup loop, that same list *)
  Theorem rebuilt_sort_independent pref vpn c dns bad l' :
    Permutation l' (collect_addrs (admission vpn) c dns bad) -> wsorted (less pref) l' ->
    dedup ap_eqb l' = rebuilt pref vpn c dns bad.
  Proof.
    intros P Hs. apply sort_addrs_any_sort; [assumption|].
    intros x. split; apply Permutation_in; [assumption|now symmetry].
  Qed.

  (* it is the only list that is sorted and has exactly those elements *)
  Theorem rebuilt_unique pref vpn c dns bad m :
    addrs_sorted pref m -> (forall x, In x m <-> In x (collect_addrs (admission vpn) c dns bad)) ->
    m = rebuilt pref vpn c dns bad.
  Proof. apply sort_addrs_unique. Qed.

  Theorem relays_rebuilt_spec c :
    relays_sorted (relays_of (collect_relays c)) /\ NoDup (relays_of (collect_relays c)) /\
    (forall x, In x (relays_of (collect_relays c)) <-> exists e, In e c /\ In x (oc_relay (snd e))).
  Proof.
    split; [apply relays_of_sorted|]. split; [apply relays_of_nodup|].
    intros x. rewrite relays_of_in. unfold collect_relays. apply in_flat_map.
  Qed.

  Theorem relays_order_independent c c' : Permutation c c' -> relays_of (collect_relays c) = relays_of (collect_relays c').
  Proof. intros P. apply relays_of_ext. now apply collect_relays_perm. Qed.

  (* ---- histories ---- *)
  Notation rstep := (rstep admission chk).
  Notation rrun := (rrun admission chk).
  Notation rebuild := (rebuild admission).
  Notation copy_addrs := (copy_addrs admission).
  Notation copy_relays := (copy_relays admission).
  Notation sources := (sources admission).

  (* the cached list is either marked dirty or has exactly the elements of the current sources *)
  Definition fresh (s : rl) : Prop :=
    rl_dirty s = true \/
    ((forall x, In x (rl_addrs s) <-> In x (sources s)) /\
     (forall x, In x (rl_relays s) <-> In x (collect_relays (rl_cache s)))).

  Lemma fresh_new vpn : fresh (rl_new vpn).
  Proof. right. split; intros x; cbn; tauto. Qed.

  Lemma rebuild_fresh pref s : fresh s -> fresh (rebuild pref s).
  Proof.
    intros F. right. unfold rebuild, RemoteList.sources. cbn [rl_addrs rl_relays rl_cache rl_dns rl_bad rl_vpn].
    destruct F as [D|[F1 F2]].
    - rewrite D. split; intros x; [apply sort_addrs_in|apply relays_of_in].
    - destruct (rl_dirty s); split; intros x; rewrite ?sort_addrs_in, ?relays_of_in; try tauto; [apply F1|apply F2].
  Qed.

  Lemma rstep_fresh s o : fresh s -> fresh (rstep s o).
  Proof.
    intros F. destruct o; cbn [rstep]; try (left; reflexivity).
    - (* RLearn *) destruct (is4 a); left; reflexivity.
    - (* RBlock *) destruct (is_bad (rl_bad s) a); [assumption|left; reflexivity].
    - (* RRebuild *) now apply rebuild_fresh.
  Qed.

  Lemma rrun_fresh ops : forall s, fresh s -> fresh (rrun s ops).
  Proof.
    induction ops as [|o r IH]; intros s F; cbn [RemoteList.rrun fold_left]; [assumption|].
    apply (IH (rstep s o)). now apply rstep_fresh.
  Qed.

  Lemma copy_fresh pref s : fresh s ->
    copy_addrs pref s = sort_addrs pref (sources s) /\ copy_relays pref s = relays_of (collect_relays (rl_cache s)).
  Proof.
    intros F. unfold RemoteList.copy_addrs, RemoteList.copy_relays, RemoteList.rebuild, RemoteList.sources.
    cbn [rl_addrs rl_relays]. destruct F as [D|[F1 F2]].
    - rewrite D. split; reflexivity.
    - destruct (rl_dirty s); [split; reflexivity|]. split; [now apply sort_addrs_ext|now apply relays_of_ext].
  Qed.

  (* whatever the history, what CopyAddrs returns is sorted and duplicate free *)
  Lemma copy_always_sorted pref s : addrs_sorted pref (copy_addrs pref s) /\ NoDup (copy_addrs pref s) /\
    relays_sorted (copy_relays pref s) /\ NoDup (copy_relays pref s).
  Proof.
    unfold RemoteList.copy_addrs, RemoteList.copy_relays, RemoteList.rebuild. cbn [rl_addrs rl_relays].
    repeat split; [apply sort_addrs_sorted|apply sort_addrs_nodup|apply relays_of_sorted|apply relays_of_nodup].
  Qed.

  Theorem history_exact vpn ops pref :
    let s := rrun (rl_new vpn) ops in
    copy_addrs pref s = sort_addrs pref (sources s) /\
    copy_relays pref s = relays_of (collect_relays (rl_cache s)).
  Proof. intros s. apply copy_fresh. apply rrun_fresh. apply fresh_new. Qed.
End Rebuild.

(* Every operation of model/HostMap.v preserves the invariant [Good], and a summary ([Step]) of what one
   operation may do to the ghost classification and to the index maps. *)
From Coq Require Import List NArith Bool Lia.
Import ListNotations.
From NV Require Import gen.Consts_HostMap model.HostMap proofs.HostMap_maps proofs.HostMap_lists proofs.HostMap_inv.
Open Scope N_scope.

(* ---------- unlockedMakePrimary --------------------------------------------------------------- *)

Lemma make_primary_false s x hx :
  info s x = Some hx -> is_some_id (mget (hi_local hx) (idx s)) x = false -> make_primary x s = (s, false).
Proof. intros H E. unfold make_primary. unfold info in H. now rewrite H, E. Qed.

Lemma make_primary_true s x hx :
  info s x = Some hx -> is_some_id (mget (hi_local hx) (idx s)) x = true ->
  make_primary x s = (promote_addrs x (hi_addrs hx) s, true).
Proof. intros H E. unfold make_primary. unfold info in H. now rewrite H, E. Qed.

Lemma promote_inv s x hx :
  Inv s -> Len s -> info s x = Some hx -> st_of s x = Some Main ->
  let s' := promote_addrs x (hi_addrs hx) s in
  Inv s' /\ Len s' /\ same_rest s s' /\
  (forall b, L s' b = if mem b (hi_addrs hx) then x :: remove_first x (L s b) else L s b).
Proof.
  intros IV LN HX SX. destruct (promote_addrs_spec x (hi_addrs hx) s (i_sync _ IV) (i_nodup _ IV)) as (LL & SR & SY').
  simpl. pose proof IV as IV0. inv_destruct IV0.
  assert (XL : forall b, mem b (hi_addrs hx) = true -> In x (L s b)).
  { intros b H. apply mem_In in H. eapply ML; eauto. }
  split; [|split; [|split; assumption]].
  - constructor; try (use_same_rest SR; solve [assumption | auto]).
    + intros b. rewrite LL. destruct (mem b (hi_addrs hx)); [|apply ND].
      constructor; [now apply rf_NoDup_notin|now apply rf_NoDup].
    + intros b y. rewrite LL. use_same_rest SR. destruct (mem b (hi_addrs hx)) eqn:EB; [|apply MEM].
      intros [<-|H].
      * exists hx. apply mem_In in EB. tauto.
      * apply rf_In in H. now apply MEM.
    + intros h hi b. rewrite LL. use_same_rest SR. intros E1 E2 E3. destruct (mem b (hi_addrs hx)); [|eapply ML; eauto].
      destruct (N.eqb_spec h x) as [->|NE]; [now left|]. right. apply rf_In_neq; [assumption|]. eapply ML; eauto.
  - intros b. rewrite LL. destruct (mem b (hi_addrs hx)) eqn:EB; [|apply LN].
    cbn [length]. rewrite (rf_length_in x (L s b)) by auto. apply LN.
Qed.

(* ---------- AddRelay ----------------------------------------------------------------------------- *)

(* what a successful AddRelay did, relative to the state after the promotion *)
Lemma relay_put_inv s x hx i :
  Inv s -> info s x = Some hx -> st_of s x = Some Main -> i <> 0 -> mget i (rel s) = None ->
  Inv (set_infos (set_rel s (mset i x (rel s))) (mset x (with_relay hx i) (infos s))).
Proof.
  intros IV HX SX I0 IR. pose proof IV as IV0. inv_destruct IV0.
  set (s' := set_infos _ _).
  assert (INF : forall y, info s' y = if y =? x then Some (with_relay hx i) else info s y).
  { intros y. unfold info, s'. simpl. apply mget_mset. }
  assert (INFO : forall y hy, info s' y = Some hy -> exists h0, info s y = Some h0 /\ hi_addrs hy = hi_addrs h0 /\
            hi_local hy = hi_local h0 /\ hi_remote hy = hi_remote h0 /\
            (forall r, In r (hi_relays h0) -> In r (hi_relays hy)) /\ (y <> x -> hy = h0)).
  { intros y hy. rewrite INF. destruct (N.eqb_spec y x) as [->|NE].
    - intros E. inversion E; subst. exists hx. repeat split; auto; try tauto.
      intros r H. simpl. apply ins_sorted_In. now right.
    - intros E. exists hy. repeat split; auto. }
  assert (INF2 : forall y h0, info s y = Some h0 -> exists hy, info s' y = Some hy /\ hi_addrs hy = hi_addrs h0 /\
            hi_local hy = hi_local h0 /\ hi_remote hy = hi_remote h0 /\
            (forall r, In r (hi_relays h0) -> In r (hi_relays hy))).
  { intros y h0 E. rewrite INF. destruct (N.eqb_spec y x) as [->|NE].
    - rewrite HX in E. inversion E; subst. eexists. split; [reflexivity|]. repeat split; auto.
      intros r H. simpl. apply ins_sorted_In. now right.
    - eauto 8. }
  constructor.
  - exact SY.
  - exact ND.
  - intros a y H. destruct (MEM _ _ H) as (hy & E1 & E2 & E3). destruct (INF2 _ _ E1) as (hy' & F1 & F2 & _).
    exists hy'. rewrite F2. auto.
  - intros h hi a E1 E2 E3. destruct (INFO _ _ E1) as (h0 & F1 & F2 & _). rewrite F2 in E3. eapply ML; eauto.
  - intros h hi E1 E2. destruct (INFO _ _ E1) as (h0 & F1 & F2 & F3 & _). rewrite F3. eapply MI; eauto.
  - intros j h E. destruct (IX _ _ E) as (h0 & E1 & E2 & E3). destruct (INF2 _ _ E1) as (hy' & F1 & F2 & F3 & _).
    exists hy'. rewrite F3. auto.
  - intros r h E. destruct (RX _ _ E) as (h0 & E1 & E2 & E3). destruct (INF2 _ _ E1) as (hy' & F1 & F2 & F3 & F4 & _).
    exists hy'. rewrite F4. auto.
  - intros r h. unfold s'. simpl. rewrite mget_mset. destruct (N.eqb_spec r i) as [->|NE].
    + intros E. inversion E; subst. exists (with_relay hx i). rewrite INF, N.eqb_refl. split; [reflexivity|].
      split; [|assumption]. simpl. apply ins_sorted_In. now left.
    + intros E. destruct (RL _ _ E) as (h0 & E1 & E2 & E3). destruct (INF2 _ _ E1) as (hy' & F1 & _ & _ & _ & F5).
      exists hy'. auto.
  - intros h hi r E1 E2 E3. unfold s'. simpl. rewrite mget_mset.
    destruct (INFO _ _ E1) as (h0 & F1 & _ & _ & _ & _ & F6).
    destruct (N.eqb_spec h x) as [->|NE].
    + rewrite INF, N.eqb_refl in E1. inversion E1; subst. simpl in E3. apply ins_sorted_In in E3.
      destruct (N.eqb_spec r i) as [|NR]; [reflexivity|]. destruct E3 as [|E3]; [contradiction|]. exact (MR _ _ _ HX SX E3).
    + rewrite (F6 NE) in E3. pose proof (MR _ _ _ F1 E2 E3) as M.
      destruct (N.eqb_spec r i) as [->|]; [congruence|assumption].
  - intros h hi E1 E2. destruct (INFO _ _ E1) as (h0 & F1 & _ & F3 & _ & _ & F6).
    assert (h <> x) by (intros ->; change (st_of s x = Some Adding) in E2; congruence).
    rewrite (F6 H). eapply AD; eauto.
  - exact AU.
  - unfold s'. simpl. rewrite mget_mset. destruct (N.eqb_spec 0 i); [congruence|]. auto.
  - exact DJ.
  - intros a h E. destruct (PV _ _ E) as (h0 & E1 & E2 & E3). destruct (INF2 _ _ E1) as (hy' & F1 & F2 & _).
    exists hy'. rewrite F2. auto.
  - intros j h E. destruct (PX _ _ E) as (h0 & E1 & E2 & E3). destruct (INF2 _ _ E1) as (hy' & F1 & F2 & F3 & _).
    exists hy'. rewrite F3. auto.
  - intros h hi E1 E2. destruct (INFO _ _ E1) as (h0 & F1 & _ & _ & _ & _ & F6).
    assert (h <> x) by (intros ->; change (st_of s x = Some Pend) in E2; congruence).
    rewrite (F6 H). eapply PN; eauto.
  - intros y E. apply GH in E. destruct (info s y) as [h0|] eqn:E0; [|congruence].
    destruct (INF2 _ _ E0) as (hy' & F1 & _). congruence.
Qed.

(* the summary of AddRelay used later: main/pending index maps, RemoteIndexes and the ghost are untouched,
   Relays only grows, hostinfos keep their addresses and indexes *)
Record RelayStep (s s' : state) : Prop := mkRS {
  rs_idx : idx s' = idx s; rs_ridx : ridx s' = ridx s; rs_pvpn : pvpn s' = pvpn s; rs_pidx : pidx s' = pidx s;
  rs_gst : gst s' = gst s;
  rs_rel : forall r h, mget r (rel s) = Some h -> mget r (rel s') = Some h
}.

Lemma relay_step_refl s : RelayStep s s.
Proof. constructor; auto. Qed.

Ltac relay_noop :=
  split; [assumption|]; split; [assumption|]; split; [assumption|]; split; [apply relay_step_refl|]; intros ? ?; discriminate.

Lemma add_relay_loop_inv fuel x hx : forall cs s s' r,
  Inv s -> Len s -> NoAdding s -> info s x = Some hx ->
  add_relay_loop fuel x cs s = (s', r) ->
  Inv s' /\ Len s' /\ NoAdding s' /\ RelayStep s s' /\
  (forall i, r = Some i -> i <> 0 /\ mget i (rel s) = None /\ mget i (rel s') = Some x /\ st_of s x = Some Main).
Proof.
  induction fuel as [|fuel IH]; intros cs s s' r IV LN NO HX; simpl.
  - intros E. inversion E; subst. relay_noop.
  - destruct (gen_index cs) as [[i cs']|] eqn:G.
    2:{ intros E. inversion E; subst. relay_noop. }
    pose proof (gen_index_nonzero _ _ _ G) as I0.
    destruct (mget i (rel s)) as [o|] eqn:ER; [now apply IH|].
    destruct (is_some_id (mget (hi_local hx) (idx s)) x) eqn:GD.
    + rewrite (make_primary_true _ _ _ HX GD).
      apply is_some_id_true in GD. destruct (i_idx _ IV _ _ GD) as (hx' & E1 & _ & SX).
      rewrite HX in E1. inversion E1; subst hx'.
      destruct (promote_inv s x hx IV LN HX SX) as (IV1 & LN1 & SR & LL).
      set (s1 := promote_addrs x (hi_addrs hx) s) in *.
      assert (HX1 : info s1 x = Some hx) by (destruct SR as (EI & _); unfold info; now rewrite EI).
      unfold info in HX1. rewrite HX1. intros E. inversion E; subst; clear E.
      assert (ER1 : mget i (rel s1) = None) by (destruct SR as (_ & _ & _ & EL & _); now rewrite EL).
      assert (SX1 : st_of s1 x = Some Main) by (destruct SR as (_ & _ & _ & _ & _ & _ & EG); unfold st_of; now rewrite EG).
      split; [now apply relay_put_inv|]. split; [exact LN1|].
      destruct SR as (EI & EX & ERR & EL & EP & EQ & EG).
      split; [intros y; unfold st_of; simpl; rewrite EG; apply NO|].
      split.
      * constructor; simpl; auto. intros r h E. rewrite EL, mget_mset.
        destruct (N.eqb_spec r i) as [->|]; [congruence|assumption].
      * intros j E. inversion E; subst. simpl. rewrite mget_mset_eq. auto.
    + rewrite (make_primary_false _ _ _ HX GD). intros E. inversion E; subst.
      relay_noop.
Qed.

(* ---------- what one operation may do to the ghost classification and the index maps --------------- *)

Record Step (s s' : state) : Prop := mkStep' {
  sp_dead : forall y, st_of s y = Some Dead -> st_of s' y = Some Dead;
  sp_main : forall y, st_of s y = Some Main -> st_of s' y = Some Main \/ st_of s' y = Some Dead;
  sp_held : forall i h, held s i = Some h -> held s' i = Some h \/ st_of s' h = Some Dead;
  sp_rel : forall r h, mget r (rel s) = Some h -> mget r (rel s') = Some h \/ st_of s' h = Some Dead;
  sp_ridx : forall r h, mget r (ridx s) = Some h -> mget r (ridx s') <> None \/ st_of s' h = Some Dead
}.

Lemma held_idx s i h : mget i (idx s) = Some h -> held s i = Some h.
Proof. unfold held. now intros ->. Qed.

Lemma held_cases s i h : held s i = Some h ->
  mget i (idx s) = Some h \/ (mget i (idx s) = None /\ mget i (pidx s) = Some h).
Proof. unfold held. destruct (mget i (idx s)); [intros E; inversion E; now left|now right]. Qed.

Lemma held_pidx s i h : Inv s -> mget i (pidx s) = Some h -> held s i = Some h.
Proof.
  intros IV E. unfold held. destruct (mget i (idx s)) as [z|] eqn:EZ; [|assumption].
  rewrite (i_disj _ IV _ _ EZ) in E. discriminate.
Qed.

Lemma step_refl s : Step s s.
Proof. constructor; auto. intros r h E. left. congruence. Qed.

Lemma trans_step s s' : Inv s' -> Trans s s' -> Step s s'.
Proof.
  intros IV' T. constructor.
  - intros y. now apply trans_dead.
  - apply (t_main _ _ T).
  - intros i h E. apply held_cases in E as [E|[_ E]].
    + destruct (t_idx _ _ T _ _ E) as [M|D]; [left; now apply held_idx|now right].
    + left. apply held_pidx; [assumption|]. now rewrite (t_pidx _ _ T).
  - apply (t_rel _ _ T).
  - intros r h E. destruct (t_ridx _ _ T _ _ E) as [M|D]; [left; congruence|now right].
Qed.

Lemma same_rest_good s s' : same_rest s s' -> NoAdding s -> NoAdding s'.
Proof. intros (_ & _ & _ & _ & _ & _ & EG) NO y. unfold st_of. rewrite EG. apply NO. Qed.

(* ---------- beginning an insertion: x becomes Adding with hostinfo record hx ------------------------ *)

Lemma begin_add_inv s sb x hx :
  Inv s -> NoAdding s ->
  (forall y, info sb y = if y =? x then Some hx else info s y) ->
  (forall y, st_of sb y = if y =? x then Some Adding else st_of s y) ->
  hosts sb = hosts s -> more sb = more s -> idx sb = idx s -> ridx sb = ridx s -> rel sb = rel s ->
  (forall a h, mget a (pvpn sb) = Some h -> mget a (pvpn s) = Some h /\ h <> x) ->
  (forall i h, mget i (pidx sb) = Some h -> mget i (pidx s) = Some h /\ h <> x) ->
  st_of s x <> Some Main ->
  mget (hi_local hx) (idx s) = None -> mget (hi_local hx) (pidx sb) = None -> hi_local hx <> 0 ->
  hi_relays hx = [] ->
  Inv sb /\ (forall b, L sb b = L s b).
Proof.
  intros IV NO INF STF EH EM EX ER EL PVB PXB NM A1 A2 A3 A4. pose proof IV as IV0. inv_destruct IV0.
  assert (LL : forall b, L sb b = L s b) by (intros b; unfold get_list; now rewrite EH, EM).
  assert (IO : forall y, y <> x -> info sb y = info s y).
  { intros y N. rewrite INF. destruct (N.eqb_spec y x); [contradiction|reflexivity]. }
  assert (SO : forall y, y <> x -> st_of sb y = st_of s y).
  { intros y N. rewrite STF. destruct (N.eqb_spec y x); [contradiction|reflexivity]. }
  assert (MX : forall y, st_of s y = Some Main -> y <> x) by (intros y E ->; contradiction).
  assert (BK : forall y g, st_of sb y = Some g -> g <> Adding -> y <> x /\ st_of s y = Some g).
  { intros y g. rewrite STF. destruct (N.eqb_spec y x); [intros E; inversion E; congruence|auto]. }
  split; [|exact LL]. constructor.
  - intros a l. rewrite EM, EH. apply SY.
  - intros a. rewrite LL. apply ND.
  - intros a y. rewrite LL. intros H. destruct (MEM _ _ H) as (hy & E1 & E2 & [E3|E3]); [|now apply NO in E3].
    exists hy. rewrite IO, SO by auto. auto.
  - intros h hi a E1 E2 E3. rewrite LL. destruct (BK _ _ E2) as [N B]; [discriminate|]. rewrite IO in E1 by assumption.
    eapply ML; eauto.
  - intros h hi E1 E2. destruct (BK _ _ E2) as [N B]; [discriminate|]. rewrite IO in E1 by assumption.
    rewrite EX. eapply MI; eauto.
  - intros i h. rewrite EX. intros E. destruct (IX _ _ E) as (hi & E1 & E2 & E3). exists hi.
    rewrite IO, SO by auto. auto.
  - intros r h. rewrite ER. intros E. destruct (RX _ _ E) as (hi & E1 & E2 & E3). exists hi.
    rewrite IO, SO by auto. auto.
  - intros r h. rewrite EL. intros E. destruct (RL _ _ E) as (hi & E1 & E2 & E3). exists hi.
    rewrite IO, SO by auto. auto.
  - intros h hi r E1 E2 E3. destruct (BK _ _ E2) as [N B]; [discriminate|]. rewrite IO in E1 by assumption.
    rewrite EL. eapply MR; eauto.
  - intros h hi E1 E2. destruct (N.eqb_spec h x) as [->|NE].
    + rewrite INF, N.eqb_refl in E1. inversion E1; subst. rewrite EX. auto.
    + rewrite SO in E2 by assumption. now apply NO in E2.
  - intros y z E1 E2. destruct (N.eqb_spec y x) as [->|N1]; destruct (N.eqb_spec z x) as [->|N2]; auto.
    + rewrite SO in E2 by assumption. now apply NO in E2.
    + rewrite SO in E1 by assumption. now apply NO in E1.
    + rewrite SO in E1 by assumption. now apply NO in E1.
  - rewrite EX, EL. split; [assumption|]. split; [|assumption].
    destruct (mget 0 (pidx sb)) as [z|] eqn:EZ; [|reflexivity]. apply PXB in EZ as [EZ _]. congruence.
  - intros i h. rewrite EX. intros E. destruct (mget i (pidx sb)) as [z|] eqn:EZ; [|reflexivity].
    apply PXB in EZ as [EZ _]. rewrite (DJ _ _ E) in EZ. discriminate.
  - intros a h E. apply PVB in E as [E N]. destruct (PV _ _ E) as (hi & E1 & E2 & E3). exists hi.
    rewrite IO, SO by auto. auto.
  - intros i h E. apply PXB in E as [E N]. destruct (PX _ _ E) as (hi & E1 & E2 & E3). exists hi.
    rewrite IO, SO by auto. auto.
  - intros h hi E1 E2. destruct (BK _ _ E2) as [N B]; [discriminate|]. rewrite IO in E1 by assumption.
    eapply PN; eauto.
  - intros y E. rewrite INF. destruct (N.eqb_spec y x); [discriminate|]. rewrite SO in E by assumption. now apply GH.
Qed.

(* the whole flow of unlockedAddHostInfo from a state in which x is unreferenced by the main hostmap *)
Lemma add_flow s sb x hx :
  Inv s -> Len s -> NoAdding s ->
  (forall y, info sb y = if y =? x then Some hx else info s y) ->
  (forall y, st_of sb y = if y =? x then Some Adding else st_of s y) ->
  hosts sb = hosts s -> more sb = more s -> idx sb = idx s -> ridx sb = ridx s -> rel sb = rel s ->
  (forall a h, mget a (pvpn sb) = Some h -> mget a (pvpn s) = Some h /\ h <> x) ->
  (forall i h, mget i (pidx sb) = Some h -> mget i (pidx s) = Some h /\ h <> x) ->
  (forall i h, mget i (pidx s) = Some h -> mget i (pidx sb) = Some h \/ (h = x /\ i = hi_local hx)) ->
  st_of s x <> Some Main -> st_of s x <> Some Dead ->
  mget (hi_local hx) (idx s) = None -> mget (hi_local hx) (pidx sb) = None -> hi_local hx <> 0 ->
  hi_relays hx = [] ->
  let s' := add_tail x hx (inner_adds x (hi_addrs hx) sb) in
  Good s' /\ Step s s' /\ mget (hi_local hx) (idx s') = Some x /\ pidx s' = pidx sb /\ pvpn s' = pvpn sb /\
  (forall y, y <> x -> info s' y = info s y) /\ info s' x = Some hx.
Proof.
  intros IV LN NO INF STF EH EM EX ER EL PVB PXB PXF NM NDd A1 A2 A3 A4.
  destruct (begin_add_inv s sb x hx IV NO INF STF EH EM EX ER EL PVB PXB NM A1 A2 A3 A4) as (IVB & LLB).
  assert (LNB : Len sb) by (intros b; rewrite LLB; apply LN).
  assert (HXB : info sb x = Some hx) by (rewrite INF, N.eqb_refl; reflexivity).
  assert (SXB : st_of sb x = Some Adding) by (rewrite STF, N.eqb_refl; reflexivity).
  destruct (inner_adds_inv x hx (hi_addrs hx) sb IVB LNB HXB SXB (incl_refl _)) as (IV1 & LN1 & T1 & XA & _).
  set (s1 := inner_adds x (hi_addrs hx) sb) in *.
  assert (HX1 : info s1 x = Some hx) by (unfold info; now rewrite (t_infos _ _ T1)).
  assert (SX1 : st_of s1 x = Some Adding) by (apply (t_st_fwd _ _ T1); [assumption|discriminate]).
  destruct (add_tail_inv s1 x hx IV1 HX1 SX1 XA) as (IV' & NO').
  destruct (i_adding _ IV1 _ _ HX1 SX1) as (B1 & B2 & B3 & B4).
  simpl.
  assert (STO : forall y, y <> x -> st_of (add_tail x hx s1) y = st_of s1 y).
  { intros y N. rewrite add_tail_st. destruct (N.eqb_spec y x); [contradiction|reflexivity]. }
  assert (DX : forall y, st_of s1 y = Some Dead -> st_of (add_tail x hx s1) y = Some Dead).
  { intros y E. rewrite STO; [assumption|]. intros ->. congruence. }
  assert (SB : forall y g, st_of s y = Some g -> y <> x -> st_of sb y = Some g).
  { intros y g E N. rewrite STF. destruct (N.eqb_spec y x); [contradiction|assumption]. }
  split; [split; [assumption|split; [|assumption]]|].
  { intros b. rewrite add_tail_list. apply LN1. }
  split; [|split; [|split; [|split; [|split]]]].
  - constructor.
    + intros y E. apply DX. apply (trans_dead _ _ _ T1). apply SB; [assumption|]. intros ->. contradiction.
    + intros y E. assert (YX : y <> x) by (intros ->; contradiction).
      destruct (t_main _ _ T1 y (SB _ _ E YX)) as [M|D].
      * left. now rewrite STO.
      * right. now apply DX.
    + intros i h E. apply held_cases in E as [E|[_ E]].
      * rewrite <- EX in E. destruct (t_idx _ _ T1 _ _ E) as [M|D]; [|right; now apply DX].
        left. apply held_idx. unfold add_tail. simpl. rewrite mget_mset.
        destruct (N.eqb_spec i (hi_local hx)) as [->|]; [congruence|assumption].
      * destruct (PXF _ _ E) as [E'|[-> ->]].
        -- left. apply held_pidx; [assumption|]. unfold add_tail. simpl. now rewrite (t_pidx _ _ T1).
        -- left. apply held_idx. unfold add_tail. simpl. apply mget_mset_eq.
    + intros r h E. rewrite <- EL in E. destruct (t_rel _ _ T1 _ _ E) as [M|D]; [now left|right; now apply DX].
    + intros r h E. rewrite <- ER in E. destruct (t_ridx _ _ T1 _ _ E) as [M|D]; [|right; now apply DX].
      left. unfold add_tail. simpl. rewrite mget_mset. destruct (r =? hi_remote hx); congruence.
  - unfold add_tail. simpl. apply mget_mset_eq.
  - unfold add_tail. simpl. apply (t_pidx _ _ T1).
  - unfold add_tail. simpl. apply (t_pvpn _ _ T1).
  - intros y N. unfold info, add_tail. simpl. rewrite (t_infos _ _ T1). fold (info sb y). rewrite INF.
    destruct (N.eqb_spec y x); [contradiction|reflexivity].
  - exact HX1.
Qed.

(* ---------- a new hostinfo that is not (yet) in the main hostmap ------------------------------------ *)

Lemma st_none_of_info s id : Inv s -> info s id = None -> st_of s id = None.
Proof.
  intros IV E. destruct (st_of s id) eqn:S; [|reflexivity]. exfalso. apply (i_ghost _ IV id); congruence.
Qed.

Lemma fresh_inv s sb id hi0 g :
  Inv s -> info s id = None -> g <> Main -> g <> Adding ->
  (forall y, info sb y = if y =? id then Some hi0 else info s y) ->
  (forall y, st_of sb y = if y =? id then Some g else st_of s y) ->
  hosts sb = hosts s -> more sb = more s -> idx sb = idx s -> ridx sb = ridx s -> rel sb = rel s ->
  pidx sb = pidx s ->
  (forall b h, mget b (pvpn sb) = Some h -> mget b (pvpn s) = Some h \/ (h = id /\ hi_addrs hi0 = [b] /\ g = Pend)) ->
  hi_relays hi0 = [] ->
  Inv sb /\ (forall b, L sb b = L s b).
Proof.
  intros IV FR GM GA INF STF EH EM EX ER EL EQ PVB R0. pose proof IV as IV0. inv_destruct IV0.
  assert (LL : forall b, L sb b = L s b) by (intros b; unfold get_list; now rewrite EH, EM).
  assert (KN : forall y hy, info s y = Some hy -> y <> id) by (intros y hy E ->; congruence).
  assert (IO : forall y, y <> id -> info sb y = info s y).
  { intros y N. rewrite INF. destruct (N.eqb_spec y id); [contradiction|reflexivity]. }
  assert (SO : forall y, y <> id -> st_of sb y = st_of s y).
  { intros y N. rewrite STF. destruct (N.eqb_spec y id); [contradiction|reflexivity]. }
  assert (BK : forall y g', st_of sb y = Some g' -> g' <> g -> y <> id /\ st_of s y = Some g').
  { intros y g'. rewrite STF. destruct (N.eqb_spec y id); [intros E; inversion E; congruence|auto]. }
  split; [|exact LL]. constructor.
  - intros a l. rewrite EM, EH. apply SY.
  - intros a. rewrite LL. apply ND.
  - intros a y. rewrite LL. intros H. destruct (MEM _ _ H) as (hy & E1 & E2 & E3).
    exists hy. rewrite IO, SO by eauto. auto.
  - intros h hi a E1 E2 E3. rewrite LL. destruct (BK _ _ E2) as [N B]; [congruence|]. rewrite IO in E1 by assumption.
    eapply ML; eauto.
  - intros h hi E1 E2. destruct (BK _ _ E2) as [N B]; [congruence|]. rewrite IO in E1 by assumption.
    rewrite EX. eapply MI; eauto.
  - intros i h. rewrite EX. intros E. destruct (IX _ _ E) as (hi & E1 & E2 & E3). exists hi.
    rewrite IO, SO by eauto. auto.
  - intros r h. rewrite ER. intros E. destruct (RX _ _ E) as (hi & E1 & E2 & E3). exists hi.
    rewrite IO, SO by eauto. auto.
  - intros r h. rewrite EL. intros E. destruct (RL _ _ E) as (hi & E1 & E2 & E3). exists hi.
    rewrite IO, SO by eauto. auto.
  - intros h hi r E1 E2 E3. destruct (BK _ _ E2) as [N B]; [congruence|]. rewrite IO in E1 by assumption.
    rewrite EL. eapply MR; eauto.
  - intros h hi E1 E2. destruct (BK _ _ E2) as [N B]; [congruence|]. rewrite IO in E1 by assumption.
    rewrite EX, EQ. eapply AD; eauto.
  - intros y z E1 E2. destruct (BK _ _ E1) as [N1 B1]; [congruence|]. destruct (BK _ _ E2) as [N2 B2]; [congruence|]. eauto.
  - rewrite EX, EL, EQ. auto.
  - intros i h. rewrite EX, EQ. apply DJ.
  - intros a h E. destruct (PVB _ _ E) as [E'|(-> & AA & ->)].
    + destruct (PV _ _ E') as (hi & E1 & E2 & E3). exists hi. rewrite IO, SO by eauto. auto.
    + exists hi0. rewrite INF, STF, N.eqb_refl. auto.
  - intros i h. rewrite EQ. intros E. destruct (PX _ _ E) as (hi & E1 & E2 & E3). exists hi.
    rewrite IO, SO by eauto. auto.
  - intros h hi E1 E2. destruct (N.eqb_spec h id) as [->|NE].
    + rewrite INF, N.eqb_refl in E1. inversion E1; subst. assumption.
    + rewrite IO in E1 by assumption. rewrite SO in E2 by assumption. eapply PN; eauto.
  - intros y E. rewrite INF. destruct (N.eqb_spec y id); [discriminate|]. rewrite SO in E by assumption. now apply GH.
Qed.

Lemma fresh_step s sb id g :
  Inv s -> Inv sb -> info s id = None ->
  (forall y, st_of sb y = if y =? id then Some g else st_of s y) ->
  idx sb = idx s -> ridx sb = ridx s -> rel sb = rel s -> pidx sb = pidx s ->
  Step s sb.
Proof.
  intros IV IVB FR STF EX ER EL EQ.
  assert (SN : st_of s id = None) by now apply st_none_of_info.
  assert (SO : forall y g', st_of s y = Some g' -> st_of sb y = Some g').
  { intros y g' E. rewrite STF. destruct (N.eqb_spec y id) as [->|]; [congruence|assumption]. }
  constructor; auto.
  - intros i h E. left. unfold held in *. now rewrite EX, EQ.
  - intros r h E. left. now rewrite EL.
  - intros r h E. left. rewrite ER. congruence.
Qed.

(* ---------- StartHandshake ---------------------------------------------------------------------- *)

Lemma start_good s id a s' r :
  Good s -> info s id = None -> start id a s = (s', r) -> Good s' /\ Step s s'.
Proof.
  intros (IV & LN & NO) FR. unfold start. destruct (mget a (pvpn s)) as [e|] eqn:EP.
  - intros E. inversion E; subst. split; [exact (conj IV (conj LN NO))|apply step_refl].
  - intros E. inversion E; subst; clear E.
    set (sb := gset id Pend _).
    assert (INF : forall y, info sb y = if y =? id then Some (mkHI [a] 0 0 []) else info s y).
    { intros y. unfold info, sb. simpl. apply mget_mset. }
    assert (STF : forall y, st_of sb y = if y =? id then Some Pend else st_of s y).
    { intros y. unfold sb. rewrite st_gset. reflexivity. }
    destruct (fresh_inv s sb id (mkHI [a] 0 0 []) Pend IV FR) as (IVB & LLB); try reflexivity; try discriminate; auto.
    { intros b h. unfold sb. simpl. rewrite mget_mset. destruct (N.eqb_spec b a) as [->|]; [|now left].
      intros E. inversion E; subst. right. auto. }
    split; [split; [assumption|split]|].
    + intros b. rewrite LLB. apply LN.
    + intros y. rewrite STF. destruct (N.eqb_spec y id); [discriminate|apply NO].
    + eapply fresh_step; eauto.
Qed.

(* ---------- allocateIndex ------------------------------------------------------------------------ *)

Lemma alloc_loop_spec fuel : forall cs s i,
  alloc_loop fuel cs s = Some i -> i <> 0 /\ mget i (pidx s) = None /\ mget i (idx s) = None.
Proof.
  induction fuel as [|fuel IH]; intros cs s i; simpl; [discriminate|].
  destruct (gen_index cs) as [[j cs']|] eqn:G; [|discriminate].
  destruct (mget j (pidx s)) eqn:E1; [apply IH|]. destruct (mget j (idx s)) eqn:E2; [apply IH|].
  intros E. inversion E; subst. split; [eapply gen_index_nonzero; eauto|auto].
Qed.

Lemma alloc_good s id cs s' r :
  Good s -> alloc_guard id s = true -> alloc id cs s = (s', r) ->
  Good s' /\ Step s s' /\
  (forall i, r = Some i -> i <> 0 /\ held s i = None /\ mget i (pidx s') = Some id).
Proof.
  intros (IV & LN & NO). unfold alloc_guard, alloc. destruct (mget id (infos s)) as [hi|] eqn:HI; [|discriminate].
  destruct (hi_addrs hi) as [|a t] eqn:EA; [discriminate|]. intros G. apply andb_prop in G as [G1 G2].
  apply is_some_id_true in G1. apply N.eqb_eq in G2.
  destruct (alloc_loop alloc_tries cs s) as [i|] eqn:AL.
  2:{ intros E. inversion E; subst. split; [exact (conj IV (conj LN NO))|]. split; [apply step_refl|]. intros ? ?; discriminate. }
  apply alloc_loop_spec in AL as (I0 & IP & IX0).
  intros E. inversion E; subst; clear E.
  pose proof IV as IV0. inv_destruct IV0.
  destruct (PV _ _ G1) as (hi' & E1 & E2 & SP). unfold info in E1. rewrite HI in E1. inversion E1; subst hi'. clear E1.
  set (s' := set_pidx _ _).
  assert (INF : forall y, info s' y = if y =? id then Some (with_local hi i) else info s y).
  { intros y. unfold info, s'. simpl. apply mget_mset. }
  assert (IO : forall y hy, info s y = Some hy -> y <> id -> info s' y = Some hy).
  { intros y hy E N. rewrite INF. destruct (N.eqb_spec y id); [contradiction|assumption]. }
  assert (NP : forall y g, st_of s y = Some g -> g <> Pend -> y <> id) by (intros y g E N ->; congruence).
  assert (INFB : forall y hy, info s' y = Some hy -> y <> id -> info s y = Some hy).
  { intros y hy. rewrite INF. destruct (N.eqb_spec y id); [contradiction|auto]. }
  assert (ST : forall y, st_of s' y = st_of s y) by reflexivity.
  assert (LL : forall b, L s' b = L s b) by reflexivity.
  assert (IVS : Inv s').
  { constructor.
    - exact SY.
    - exact ND.
    - intros b y H. destruct (MEM _ _ H) as (hy & F1 & F2 & F3). exists hy. split; [|auto].
      apply IO; [assumption|]. destruct F3 as [F3|F3]; eapply NP; eauto; discriminate.
    - intros h hh b F1 F2 F3. apply (ML h hh b); auto. apply INFB; [assumption|]. eapply NP; eauto. discriminate.
    - intros h hh F1 F2. apply (MI h hh); auto. apply INFB; [assumption|]. eapply NP; eauto. discriminate.
    - intros j h F. destruct (IX _ _ F) as (hh & F1 & F2 & F3). exists hh. split; [|auto].
      apply IO; [assumption|]. eapply NP; eauto. discriminate.
    - intros j h F. destruct (RX _ _ F) as (hh & F1 & F2 & F3). exists hh. split; [|auto].
      apply IO; [assumption|]. eapply NP; eauto. discriminate.
    - intros j h F. destruct (RL _ _ F) as (hh & F1 & F2 & F3). exists hh. split; [|auto].
      apply IO; [assumption|]. eapply NP; eauto. discriminate.
    - intros h hh j F1 F2 F3. apply (MR h hh j); auto. apply INFB; [assumption|]. eapply NP; eauto. discriminate.
    - intros h hh _ F2. now apply NO in F2.
    - exact AU.
    - unfold s'. simpl. rewrite mget_mset. destruct (N.eqb_spec 0 i); [congruence|]. auto.
    - intros j h F. unfold s'. simpl. rewrite mget_mset. destruct (N.eqb_spec j i) as [->|]; [|eapply DJ; eauto].
      change (mget i (idx s) = Some h) in F. congruence.
    - intros b h F. change (mget b (pvpn s) = Some h) in F. destruct (PV _ _ F) as (hh & F1 & F2 & F3).
      destruct (N.eqb_spec h id) as [->|NE].
      + exists (with_local hi i). rewrite INF, N.eqb_refl. unfold info in F1. rewrite HI in F1. inversion F1; subst. auto.
      + exists hh. split; [now apply IO|auto].
    - intros j h. unfold s'. simpl. rewrite mget_mset. destruct (N.eqb_spec j i) as [->|NJ].
      + intros F. inversion F; subst. exists (with_local hi i). rewrite INF, N.eqb_refl. auto.
      + intros F. destruct (PX _ _ F) as (hh & F1 & F2 & F3). destruct (N.eqb_spec h id) as [->|NE].
        * unfold info in F1. rewrite HI in F1. inversion F1; subst. rewrite G2 in F. congruence.
        * exists hh. split; [now apply IO|auto].
    - intros h hh F1 F2. destruct (N.eqb_spec h id) as [->|NE].
      + rewrite INF, N.eqb_refl in F1. inversion F1; subst. simpl. eapply PN; eauto.
      + apply (PN h hh); auto.
    - intros y F. apply GH in F. rewrite INF. destruct (N.eqb_spec y id); [discriminate|assumption]. }
  split; [split; [assumption|split; assumption]|]. split.
  - constructor; auto.
    + intros j h F. left. apply held_cases in F as [F|[F1 F2]].
      * now apply held_idx.
      * apply held_pidx; [assumption|]. unfold s'. simpl. rewrite mget_mset.
        destruct (N.eqb_spec j i) as [->|]; [congruence|assumption].
    + intros j h F. left. change (mget j (ridx s) <> None). congruence.
  - intros j F. inversion F; subst. split; [assumption|]. split.
    + unfold held. now rewrite IX0.
    + unfold s'. simpl. apply mget_mset_eq.
Qed.

(* ---------- HandshakeManager.unlockedDeleteHostInfo ---------------------------------------------- *)

Lemma mget_pdel_addrs h addrs : forall a m,
  mget a (pdel_addrs h addrs m) = if mem a addrs && is_some_id (mget a m) h then None else mget a m.
Proof.
  induction addrs as [|x r IH]; intros a m; simpl; [reflexivity|].
  rewrite IH. unfold mem in *. simpl. destruct (is_some_id (mget x m) h) eqn:EX.
  - rewrite !mget_mdel. neq a x; simpl.
    + rewrite EX. now rewrite andb_false_r.
    + reflexivity.
  - neq a x; simpl; [|reflexivity]. rewrite EX. now rewrite !andb_false_r.
Qed.

Lemma pend_unlink_spec s h hi :
  info s h = Some hi ->
  let s' := pend_unlink h s in
  (forall a, mget a (pvpn s') = if mem a (hi_addrs hi) && is_some_id (mget a (pvpn s)) h then None else mget a (pvpn s)) /\
  (forall i, mget i (pidx s') = if (i =? hi_local hi) && is_some_id (mget (hi_local hi) (pidx s)) h then None else mget i (pidx s)) /\
  infos s' = infos s /\ hosts s' = hosts s /\ more s' = more s /\ idx s' = idx s /\ ridx s' = ridx s /\
  rel s' = rel s /\ gst s' = gst s.
Proof.
  intros HI. unfold pend_unlink. unfold info in HI. rewrite HI. simpl.
  destruct (is_some_id (mget (hi_local hi) (pidx s)) h) eqn:G; simpl.
  - split; [intros a; apply mget_pdel_addrs|]. split; [|repeat split].
    intros i. rewrite mget_mdel. now rewrite andb_true_r.
  - split; [intros a; apply mget_pdel_addrs|]. split; [|repeat split].
    intros i. now rewrite andb_false_r.
Qed.

Lemma pvpn_unlink_some s h hi a y :
  Inv s -> info s h = Some hi ->
  (forall b, mget b (pvpn s) = Some h -> In b (hi_addrs hi)) ->
  (if mem a (hi_addrs hi) && is_some_id (mget a (pvpn s)) h then None else mget a (pvpn s)) = Some y ->
  mget a (pvpn s) = Some y /\ y <> h.
Proof.
  intros IV HI PA. destruct (mem a (hi_addrs hi) && _) eqn:G; [discriminate|]. intros E. split; [assumption|].
  intros ->. pose proof (PA _ E) as M. apply mem_In in M. rewrite M, E in G. simpl in G. now rewrite N.eqb_refl in G.
Qed.

Lemma pidx_unlink_some s h hi i y :
  Inv s -> info s h = Some hi ->
  (if (i =? hi_local hi) && is_some_id (mget (hi_local hi) (pidx s)) h then None else mget i (pidx s)) = Some y ->
  mget i (pidx s) = Some y /\ y <> h.
Proof.
  intros IV HI. destruct ((i =? hi_local hi) && _) eqn:G; [discriminate|]. intros E. split; [assumption|].
  intros ->. destruct (i_pidx _ IV _ _ E) as (hi' & E1 & E2 & _). rewrite HI in E1. inversion E1; subst hi'. subst i.
  rewrite N.eqb_refl, E in G. simpl in G. now rewrite N.eqb_refl in G.
Qed.

Lemma pend_delete_good s h hi :
  Good s -> info s h = Some hi -> Good (pend_delete h s) /\ Step s (pend_delete h s).
Proof.
  intros (IV & LN & NO) HI. unfold pend_delete.
  destruct (pend_unlink_spec s h hi HI) as (PVS & PXS & EI & EH & EM & EX & ER & EL & EG).
  set (su := pend_unlink h s) in *. set (s' := gmove h Pend Dead su).
  pose proof IV as IV0. inv_destruct IV0.
  assert (PA : forall b, mget b (pvpn s) = Some h -> In b (hi_addrs hi)).
  { intros b E. destruct (PV _ _ E) as (hi' & E1 & E2 & _). rewrite HI in E1. inversion E1; subst. rewrite E2. now left. }
  assert (FS : infos s' = infos s /\ hosts s' = hosts s /\ more s' = more s /\ idx s' = idx s /\ ridx s' = ridx s /\
               rel s' = rel s /\ pvpn s' = pvpn su /\ pidx s' = pidx su).
  { unfold s', gmove. destruct (mget h (gst su)) as [g|]; [destruct (hst_eqb g Pend)|]; simpl; repeat split; assumption. }
  destruct FS as (FI & FH & FM & FX & FR & FL & FP & FQ).
  assert (ST : forall y, st_of s' y = if (y =? h) && (match st_of s h with Some g => hst_eqb g Pend | None => false end)
                                     then Some Dead else st_of s y).
  { intros y. unfold s'. rewrite st_gmove. unfold st_of. now rewrite EG. }
  assert (BK : forall y g, st_of s' y = Some g -> g <> Dead -> st_of s y = Some g).
  { intros y g. rewrite ST. destruct (_ && _); [intros E; inversion E; congruence|auto]. }
  assert (FW : forall y g, st_of s y = Some g -> g <> Pend -> st_of s' y = Some g).
  { intros y g E N. rewrite ST. destruct (N.eqb_spec y h) as [->|]; [|simpl; assumption]. rewrite E. simpl.
    destruct (hst_eqb g Pend) eqn:X; [apply hst_eqb_eq in X; congruence|reflexivity]. }
  assert (FWO : forall y g, st_of s y = Some g -> y <> h -> st_of s' y = Some g).
  { intros y g E N. rewrite ST. destruct (N.eqb_spec y h); [contradiction|simpl; assumption]. }
  assert (LL : forall b, L s' b = L s b) by (intros b; unfold get_list; now rewrite FH, FM).
  assert (INF : forall y, info s' y = info s y) by (intros y; unfold info; now rewrite FI).
  assert (IVS : Inv s').
  { constructor.
    - intros a l. rewrite FM, FH. apply SY.
    - intros a. rewrite LL. apply ND.
    - intros a y. rewrite LL. intros H. destruct (MEM _ _ H) as (hy & E1 & E2 & [E3|E3]); [|now apply NO in E3].
      exists hy. rewrite INF. split; [assumption|]. split; [assumption|]. left. apply FW; [assumption|discriminate].
    - intros x hx a. rewrite INF, LL. intros E1 E2 E3. eapply ML; eauto. apply BK; [assumption|discriminate].
    - intros x hx. rewrite INF, FX. intros E1 E2. eapply MI; eauto. apply BK; [assumption|discriminate].
    - intros i x. rewrite FX. intros E. destruct (IX _ _ E) as (hx & E1 & E2 & E3). exists hx. rewrite INF.
      split; [assumption|]. split; [assumption|]. apply FW; [assumption|discriminate].
    - intros i x. rewrite FR. intros E. destruct (RX _ _ E) as (hx & E1 & E2 & E3). exists hx. rewrite INF.
      split; [assumption|]. split; [assumption|]. apply FW; [assumption|discriminate].
    - intros i x. rewrite FL. intros E. destruct (RL _ _ E) as (hx & E1 & E2 & E3). exists hx. rewrite INF.
      split; [assumption|]. split; [assumption|]. apply FW; [assumption|discriminate].
    - intros x hx r. rewrite INF, FL. intros E1 E2 E3. eapply MR; eauto. apply BK; [assumption|discriminate].
    - intros x hx _ E2. apply BK in E2; [|discriminate]. now apply NO in E2.
    - intros x y E1 E2. apply BK in E1; [|discriminate]. now apply NO in E1.
    - rewrite FX, FL, FQ, PXS. destruct (_ && _); auto.
    - intros i x. rewrite FX, FQ, PXS. intros E. destruct (_ && _); [reflexivity|]. eapply DJ; eauto.
    - intros a y. rewrite FP, PVS. intros E. apply (pvpn_unlink_some s h hi a y IV HI PA) in E as [E N].
      destruct (PV _ _ E) as (hy & E1 & E2 & E3). exists hy. rewrite INF. split; [assumption|]. split; [assumption|].
      now apply FWO.
    - intros i y. rewrite FQ, PXS. intros E. apply (pidx_unlink_some s h hi i y IV HI) in E as [E N].
      destruct (PX _ _ E) as (hy & E1 & E2 & E3). exists hy. rewrite INF. split; [assumption|]. split; [assumption|].
      now apply FWO.
    - intros x hx. rewrite INF. intros E1 E2. eapply PN; eauto. apply BK; [assumption|discriminate].
    - intros y. rewrite INF. intros E. apply GH. intros X. apply E. rewrite ST, X.
      destruct (N.eqb_spec y h) as [EQ|]; [|reflexivity]. rewrite <- EQ, X. reflexivity. }
  split; [split; [assumption|split]|].
  - intros b. rewrite LL. apply LN.
  - intros y E. apply BK in E; [|discriminate]. now apply NO in E.
  - constructor.
    + intros y E. apply FW; [assumption|discriminate].
    + intros y E. left. apply FW; [assumption|discriminate].
    + intros i y E. apply held_cases in E as [E|[E0 E]].
      * left. apply held_idx. now rewrite FX.
      * destruct (N.eqb_spec y h) as [->|NE].
        -- destruct (PX _ _ E) as (hi' & _ & _ & SP).
           destruct ((i =? hi_local hi) && is_some_id (mget (hi_local hi) (pidx s)) h) eqn:G.
           ++ right. rewrite ST, N.eqb_refl, SP. reflexivity.
           ++ left. apply held_pidx; [assumption|]. rewrite FQ, PXS, G. assumption.
        -- left. apply held_pidx; [assumption|]. rewrite FQ, PXS.
           destruct (N.eqb_spec i (hi_local hi)) as [->|]; [|simpl; assumption]. rewrite E. simpl.
           destruct (N.eqb_spec y h); [contradiction|reflexivity].
    + intros r y E. left. now rewrite FL.
    + intros r y E. left. rewrite FR. congruence.
Qed.

(* ---------- Complete (initiator) ------------------------------------------------------------------ *)

Lemma complete_good s h addrs remote :
  Good s -> complete_guard h s = true -> correct_host h addrs s = true ->
  Good (complete h addrs remote s) /\ Step s (complete h addrs remote s).
Proof.
  intros (IV & LN & NO). unfold complete_guard, correct_host, complete.
  destruct (mget h (infos s)) as [hi|] eqn:HI; [|discriminate].
  intros G CH. apply is_some_id_true in G.
  destruct (hi_addrs hi) as [|a0 t] eqn:EA; [discriminate|]. apply mem_In in CH.
  pose proof IV as IV0. inv_destruct IV0.
  destruct (PX _ _ G) as (hi' & E1 & _ & SP). unfold info in E1. rewrite HI in E1. inversion E1; subst hi'. clear E1.
  set (hx := mkHI addrs (hi_local hi) remote (hi_relays hi)).
  set (sa := set_infos s (mset h hx (infos s))).
  assert (HA : info sa h = Some hx) by (unfold info, sa; simpl; apply mget_mset_eq).
  destruct (pend_unlink_spec sa h hx HA) as (PVS & PXS & EI & EH & EM & EX & ER & EL & EG).
  set (su := pend_unlink h sa) in *.
  assert (HU : mget h (infos su) = Some hx) by (rewrite EI; exact HA).
  rewrite (add_hi_unfold h hx su HU).
  set (sb := gset h Adding su).
  assert (PA : forall b, mget b (pvpn s) = Some h -> In b addrs).
  { intros b E. destruct (PV _ _ E) as (hi' & F1 & F2 & _). unfold info in F1. rewrite HI in F1. inversion F1; subst hi'.
    rewrite EA in F2. inversion F2; subst. assumption. }
  assert (FLOW := add_flow s sb h hx IV LN NO).
  destruct FLOW as (GD & STP & _).
  - intros y. unfold info, sb. simpl. rewrite EI. unfold sa. simpl. apply mget_mset.
  - intros y. unfold sb. rewrite st_gset. unfold st_of. now rewrite EG.
  - exact EH.
  - exact EM.
  - exact EX.
  - exact ER.
  - exact EL.
  - intros b y. unfold sb. simpl. rewrite PVS. unfold sa. simpl. intros E.
    destruct (mem b addrs && is_some_id (mget b (pvpn s)) h) eqn:GG; [discriminate|]. split; [assumption|].
    intros ->. pose proof (PA _ E) as M. apply mem_In in M. rewrite M, E in GG. simpl in GG. now rewrite N.eqb_refl in GG.
  - intros i y. unfold sb. simpl. rewrite PXS. unfold sa. simpl. intros E.
    eapply (pidx_unlink_some s h hi i y IV); eauto.
  - intros i y E. unfold sb. simpl. rewrite PXS. unfold sa. simpl.
    destruct (N.eqb_spec i (hi_local hi)) as [->|NE]; [|now left].
    right. rewrite G in E. inversion E; subst. auto.
  - fold (st_of s h). congruence.
  - fold (st_of s h). congruence.
  - simpl. destruct (mget (hi_local hi) (idx s)) as [z|] eqn:EZ; [|reflexivity]. rewrite (DJ _ _ EZ) in G. discriminate.
  - unfold sb. simpl. rewrite PXS. unfold sa. simpl. rewrite N.eqb_refl, G. simpl. now rewrite N.eqb_refl.
  - simpl. intros Z. rewrite Z in G. congruence.
  - simpl. eapply PN; eauto.
  - split; assumption.
Qed.

(* ---------- beginHandshake + CheckAndComplete (responder) ------------------------------------------ *)

Lemma resp_good s id addrs remote cs s' r :
  Good s -> info s id = None -> resp id addrs remote cs s = (s', r) ->
  Good s' /\ Step s s' /\ (forall i, r = Some (0, i) -> i <> 0 /\ held s i = None /\ mget i (idx s') = Some id).
Proof.
  intros (IV & LN & NO) FR. unfold resp. destruct (gen_index cs) as [[i cs']|] eqn:GI.
  2:{ intros E. inversion E; subst. split; [exact (conj IV (conj LN NO))|]. split; [apply step_refl|]. intros ? ?; discriminate. }
  pose proof (gen_index_nonzero _ _ _ GI) as I0.
  set (hx := mkHI addrs i remote []). set (sa := set_infos s (mset id hx (infos s))).
  assert (SN : st_of s id = None) by now apply st_none_of_info.
  assert (COLL : forall sd, sd = gset id Dead sa -> Good sd /\ Step s sd).
  { intros sd ->.
    assert (INF : forall y, info (gset id Dead sa) y = if y =? id then Some hx else info s y).
    { intros y. unfold info, sa. simpl. apply mget_mset. }
    assert (STF : forall y, st_of (gset id Dead sa) y = if y =? id then Some Dead else st_of s y).
    { intros y. rewrite st_gset. reflexivity. }
    destruct (fresh_inv s (gset id Dead sa) id hx Dead IV FR) as (IVB & LLB); try reflexivity; try discriminate; auto.
    split; [split; [assumption|split]|].
    + intros b. rewrite LLB. apply LN.
    + intros y. rewrite STF. destruct (N.eqb_spec y id); [discriminate|apply NO].
    + eapply fresh_step; eauto. }
  simpl. destruct (mget i (idx s)) as [z|] eqn:EX.
  { intros E. inversion E; subst. destruct (COLL _ eq_refl) as [A B]. split; [assumption|]. split; [assumption|].
    intros ? X; discriminate. }
  destruct (mget i (pidx s)) as [z|] eqn:EP.
  { intros E. inversion E; subst. destruct (COLL _ eq_refl) as [A B]. split; [assumption|]. split; [assumption|].
    intros ? X; discriminate. }
  intros E. inversion E; subst; clear E.
  assert (HA : mget id (infos sa) = Some hx) by (unfold sa; simpl; apply mget_mset_eq).
  rewrite (add_hi_unfold id hx sa HA).
  set (sb := gset id Adding sa).
  assert (KN : forall y hy, info s y = Some hy -> y <> id) by (intros y hy F ->; congruence).
  destruct (add_flow s sb id hx IV LN NO) as (GD & STP & IDX & _).
  - intros y. unfold info, sb, sa. simpl. apply mget_mset.
  - intros y. unfold sb. rewrite st_gset. reflexivity.
  - reflexivity.
  - reflexivity.
  - reflexivity.
  - reflexivity.
  - reflexivity.
  - intros b y F. change (mget b (pvpn s) = Some y) in F. split; [assumption|].
    destruct (i_pvpn _ IV _ _ F) as (hy & F1 & _). eauto.
  - intros j y F. change (mget j (pidx s) = Some y) in F. split; [assumption|].
    destruct (i_pidx _ IV _ _ F) as (hy & F1 & _). eauto.
  - intros j y F. now left.
  - congruence.
  - congruence.
  - exact EX.
  - exact EP.
  - exact I0.
  - reflexivity.
  - split; [assumption|]. split; [assumption|]. intros j F. inversion F; subst. split; [assumption|]. split.
    + unfold held. now rewrite EX.
    + exact IDX.
Qed.

(* ---------- DeleteHostInfo / MakePrimary / AddRelay as operations ----------------------------------- *)

Lemma delete_good s h hi s' f :
  Good s -> info s h = Some hi -> delete_hi h s = (s', f) -> Good s' /\ Step s s' /\ Trans s s'.
Proof.
  intros (IV & LN & NO) HI DEL. pose proof (NO h) as NA.
  assert (IV' : Inv s') by (eapply delete_inv; eauto).
  assert (T : Trans s s') by (eapply delete_trans; eauto).
  split; [split; [assumption|split]|split; [now apply trans_step|assumption]].
  - exact (delete_len s s' h hi f IV HI DEL LN).
  - exact (delete_noadding s s' h hi f IV HI DEL NO).
Qed.

Lemma promote_good s h hi s' b :
  Good s -> info s h = Some hi -> make_primary h s = (s', b) ->
  Good s' /\ Step s s' /\ (b = false -> s' = s) /\ same_rest s s'.
Proof.
  intros (IV & LN & NO) HI. destruct (is_some_id (mget (hi_local hi) (idx s)) h) eqn:G.
  - rewrite (make_primary_true _ _ _ HI G). intros E. inversion E; subst; clear E.
    apply is_some_id_true in G. destruct (i_idx _ IV _ _ G) as (hi' & E1 & _ & SX). rewrite HI in E1. inversion E1; subst hi'.
    destruct (promote_inv s h hi IV LN HI SX) as (IV1 & LN1 & SR & _).
    split; [split; [assumption|split; [assumption|eapply same_rest_good; eauto]]|].
    split; [apply trans_step; [assumption|now apply trans_same_rest]|]. split; [discriminate|assumption].
  - rewrite (make_primary_false _ _ _ HI G). intros E. inversion E; subst.
    split; [exact (conj IV (conj LN NO))|]. split; [apply step_refl|]. split; [reflexivity|apply same_rest_refl].
Qed.

Lemma relay_good s h hi cs s' r :
  Good s -> info s h = Some hi -> add_relay h cs s = (s', r) ->
  Good s' /\ Step s s' /\ (forall i, r = Some i -> i <> 0 /\ mget i (rel s) = None /\ mget i (rel s') = Some h).
Proof.
  intros (IV & LN & NO) HI E. unfold add_relay in E.
  destruct (add_relay_loop_inv _ _ _ _ _ _ _ IV LN NO HI E) as (IV' & LN' & NO' & RS & RI).
  split; [exact (conj IV' (conj LN' NO'))|]. split.
  - destruct RS as [EX ER EP EQ EG RR]. constructor.
    + intros y F. unfold st_of. now rewrite EG.
    + intros y F. left. unfold st_of. now rewrite EG.
    + intros i y F. left. unfold held in *. now rewrite EX, EQ.
    + intros i y F. left. now apply RR.
    + intros i y F. left. rewrite ER. congruence.
  - intros i F. destruct (RI i F) as (A & B & C & _). auto.
Qed.

(* ---------- every operation ------------------------------------------------------------------------- *)

Lemma known_info s h : known h s = true -> exists hi, info s h = Some hi.
Proof. unfold known, info. destruct (mget h (infos s)); [eauto|discriminate]. Qed.

Lemma unknown_info s h : known h s = false -> info s h = None.
Proof. unfold known, info. destruct (mget h (infos s)); [discriminate|reflexivity]. Qed.

Theorem good_step o s : Good s -> Good (fst (step o s)) /\ Step s (fst (step o s)).
Proof.
  intros GD. pose proof (conj GD (step_refl s)) as NOOP. destruct o; simpl.
  - (* OStart *) destruct (known id s) eqn:K; [exact NOOP|]. apply unknown_info in K.
    destruct (start id a s) as [s' r] eqn:E. simpl. eapply start_good; eauto.
  - (* OAlloc *) destruct (alloc_guard id s) eqn:G; [|exact NOOP].
    destruct (alloc id cs s) as [s' r] eqn:E. simpl. destruct (alloc_good _ _ _ _ _ GD G E) as (A & B & _). auto.
  - (* OComplete *) destruct (complete_guard id s) eqn:G; [|exact NOOP].
    destruct (correct_host id addrs s) eqn:CH; simpl.
    + now apply complete_good.
    + unfold complete_guard in G. destruct (mget id (infos s)) as [hi|] eqn:HI; [|discriminate].
      eapply pend_delete_good; eauto.
  - (* OResp *) destruct (known id s) eqn:K; [exact NOOP|]. apply unknown_info in K.
    destruct addrs as [|a0 t]; [exact NOOP|].
    destruct (resp id (a0 :: t) remote cs s) as [s' r] eqn:E.
    destruct (resp_good _ _ _ _ _ _ _ GD K E) as (A & B & _).
    destruct r as [[code i]|]; simpl; auto.
  - (* ODelete *) destruct (known id s) eqn:K; [|exact NOOP]. apply known_info in K as [hi HI].
    destruct (delete_hi id s) as [s' f] eqn:E. simpl. destruct (delete_good _ _ _ _ _ GD HI E) as (A & B & _). auto.
  - (* OPromote *) destruct (known id s) eqn:K; [|exact NOOP]. apply known_info in K as [hi HI].
    destruct (make_primary id s) as [s' b] eqn:E. simpl. destruct (promote_good _ _ _ _ _ GD HI E) as (A & B & _). auto.
  - (* OAddRelay *) destruct (known id s) eqn:K; [|exact NOOP]. apply known_info in K as [hi HI].
    destruct (add_relay id cs s) as [s' r] eqn:E. simpl. destruct (relay_good _ _ _ _ _ _ GD HI E) as (A & B & _). auto.
  - (* OPendDelete *) destruct (known id s) eqn:K; [|exact NOOP]. apply known_info in K as [hi HI].
    simpl. eapply pend_delete_good; eauto.
Qed.

Lemma good_init : Good init.
Proof.
  split; [|split].
  - constructor; unfold Sync, info, st_of, get_list; simpl; intros; try discriminate; try contradiction;
      auto using NoDup_nil.
  - intros a. vm_compute. discriminate.
  - intros y E. discriminate.
Qed.

Lemma good_run ops : forall s, Good s -> Good (run s ops).
Proof.
  induction ops as [|o r IH]; intros s G; simpl; [assumption|]. apply IH. now apply good_step.
Qed.

Theorem good_reachable ops : Good (run init ops).
Proof. apply good_run, good_init. Qed.

(* a hostinfo that was removed stays removed over any continuation *)
Lemma dead_run ops : forall s y, Good s -> st_of s y = Some Dead -> st_of (run s ops) y = Some Dead.
Proof.
  induction ops as [|o r IH]; intros s y G E; simpl; [assumption|].
  destruct (good_step o s G) as [G' ST]. apply IH; [assumption|]. now apply (sp_dead _ _ ST).
Qed.

Lemma main_run ops : forall s y, Good s -> st_of s y = Some Main ->
  st_of (run s ops) y = Some Main \/ st_of (run s ops) y = Some Dead.
Proof.
  induction ops as [|o r IH]; intros s y G E; simpl; [now left|].
  destruct (good_step o s G) as [G' ST]. destruct (sp_main _ _ ST _ E) as [M|D].
  - now apply IH.
  - right. now apply dead_run.
Qed.

(* Converge_swap: at most one of the two nodes ever decides swapPrimary (C31, second clause). *)
From Coq Require Import List NArith Bool Lia.
Import ListNotations.
From NV Require Import model.Converge proofs.Converge_base.
Open Scope N_scope.

Ltac break_match :=
  match goal with
  | |- context [match ?x with _ => _ end] => destruct x eqn:?
  | |- context [if ?x then _ else _] => destruct x eqn:?
  end.

Lemma add_tunnel_swaps ns t : n_swaps (add_tunnel ns t) = n_swaps ns.
Proof. pose proof (add_tunnel_spec ns t) as H. cbv zeta in H. tauto. Qed.

Lemma remove_l_swaps ns idx : n_swaps (remove_l ns idx) = n_swaps ns.
Proof. unfold remove_l. now destruct (find_l idx (n_tuns ns)). Qed.

Lemma send_primary_swaps me ns k : n_swaps (fst (send_primary me ns k)) = n_swaps ns.
Proof. unfold send_primary. destruct (n_tuns ns); [reflexivity|]. now destruct (send_on me t k). Qed.

Lemma l_start_swaps ns : n_swaps (l_start ns) = n_swaps ns.
Proof. unfold l_start. now destruct (n_pend ns). Qed.

Lemma l_hsout_swaps r me clk idx ns : n_swaps (fst (l_hsout r me clk idx ns)) = n_swaps ns.
Proof. unfold l_hsout. repeat (break_match; cbn [fst]); reflexivity. Qed.

Lemma l_data_swaps me pl ns : n_swaps (fst (l_data me pl ns)) = n_swaps ns.
Proof.
  unfold l_data. destruct (n_tuns ns) eqn:T.
  - pose proof (l_start_swaps ns). repeat (break_match; cbn [fst]); auto.
  - apply send_primary_swaps.
Qed.

Lemma l_stage1_swaps me clk idx iidx hid ht ns :
  n_swaps (fst (fst (l_stage1 me clk idx iidx hid ht ns))) = n_swaps ns.
Proof.
  unfold l_stage1. destruct (find (is_resp_of hid) (n_tuns ns)); [reflexivity|].
  match goal with |- context [if ?b then _ else _] => destruct b end.
  - pose proof (send_primary_swaps me ns KTestReq). destruct (send_primary me ns KTestReq). exact H.
  - destruct (used idx ns); [reflexivity|]. cbn [fst]. apply add_tunnel_swaps.
Qed.

Lemma l_stage2_swaps me iidx ridx hid sid rt ns :
  n_swaps (fst (l_stage2 me iidx ridx hid sid rt ns)) = n_swaps ns.
Proof.
  unfold l_stage2. destruct (n_pend ns) as [p|]; [|reflexivity].
  destruct (p_ready p && (p_idx p =? iidx)); [|reflexivity].
  destruct (p_hid p =? hid); [|reflexivity].
  destruct (send_all me _ (p_store p)). cbn [fst]. rewrite add_tunnel_swaps. reflexivity.
Qed.

Lemma l_data_in_swaps me hidx sid fi ctr k ns :
  n_swaps (fst (fst (l_data_in me hidx sid fi ctr k ns))) = n_swaps ns.
Proof.
  unfold l_data_in. destruct (find_l hidx (n_tuns ns)); [|reflexivity].
  destruct (accepts t sid fi ctr); [|reflexivity]. destruct k; reflexivity.
Qed.

Lemma l_recverr_swaps idx ns : n_swaps (l_recverr idx ns) = n_swaps ns.
Proof. unfold l_recverr. destruct (find _ _); [apply remove_l_swaps|reflexivity]. Qed.

Lemma l_recv_swaps me clk idx m ns :
  n_swaps (fst (fst (fst (l_recv me clk idx m ns)))) = n_swaps ns.
Proof.
  destruct m; unfold l_recv.
  - pose proof (l_stage1_swaps me clk idx iidx hid ht ns). destruct (l_stage1 _ _ _ _ _ _ _) as [[? ?] ?]. exact H.
  - pose proof (l_stage2_swaps me iidx ridx hid sid rt ns). destruct (l_stage2 _ _ _ _ _ _ _). exact H.
  - pose proof (l_data_in_swaps me hidx sid from_ini ctr k ns). destruct (l_data_in _ _ _ _ _ _ _) as [[? ?] ?]. exact H.
  - apply l_recverr_swaps.
Qed.

(* the only place the counter moves: a check whose swap rule said yes *)
Lemma l_check_swaps ma pa me lidx elig ns :
  n_swaps (fst (l_check ma pa me lidx elig ns)) = n_swaps ns \/
  (should_swap ma pa elig = true /\ n_swaps (fst (l_check ma pa me lidx elig ns)) = n_swaps ns + 1).
Proof.
  unfold l_check. destruct (find_l lidx (n_tuns ns)) as [u|]; [|now left].
  destruct (t_in u).
  - destruct (is_primary lidx (n_tuns ns)); [now left|].
    destruct (should_swap ma pa elig) eqn:S; [right; split; reflexivity|now left].
  - destruct (t_pd u); [left; apply remove_l_swaps|].
    destruct (is_primary lidx (n_tuns ns)); [|now left]. destruct (t_out u); now left.
Qed.

Lemma get_put_same s n ns ms reg : get (put s n ns ms reg) n = ns.
Proof. now destruct n. Qed.
Lemma get_put_other s n ns ms reg : get (put s n ns ms reg) (other n) = get s (other n).
Proof. now destruct n. Qed.

(* a node whose peer has the smaller address never counts a swap *)
Lemma step_swaps_big c s e n :
  addr_cmp (c_addr c (other n)) (c_addr c n) = Lt ->
  n_swaps (get (fst (step c s e)) n) = n_swaps (get s n).
Proof.
  intro Lt. destruct e as [m|m idx|m pl|k idx|m lidx elig]; unfold step.
  - cbn [fst]. destruct m, n; cbn [put get s_a s_b]; auto using l_start_swaps.
  - pose proof (l_hsout_swaps (c_retries c) m (s_clk s) idx (get s m)) as H.
    destruct (l_hsout _ _ _ _ _) as [ns ms]. cbn [fst] in *. destruct m, n; cbn [put get s_a s_b] in *; auto.
  - pose proof (l_data_swaps m pl (get s m)) as H.
    destruct (l_data _ _ _) as [ns ms]. cbn [fst] in *. destruct m, n; cbn [put get s_a s_b] in *; auto.
  - destruct (nth_error (s_net s) (N.to_nat k)) as [mm|]; [|cbn [fst]; destruct n; reflexivity].
    pose proof (l_recv_swaps (other (msg_src mm)) (s_clk s) idx mm (get s (other (msg_src mm)))) as H.
    destruct (l_recv _ _ _ _ _) as [[[ns ms] o] reg]. cbn [fst] in *.
    destruct (other (msg_src mm)), n; cbn [put get s_a s_b] in *; auto.
  - pose proof (l_check_swaps (c_addr c m) (c_addr c (other m)) m lidx elig (get s m)) as H.
    destruct (l_check _ _ _ _ _ _) as [ns ms]. cbn [fst] in *.
    destruct m, n; cbn [put get s_a s_b other] in *; auto;
      (destruct H as [H|[S _]]; [exact H|]; rewrite (should_swap_smaller_peer _ _ _ Lt) in S; discriminate).
Qed.

Lemma run_swaps_big c n evs s :
  addr_cmp (c_addr c (other n)) (c_addr c n) = Lt ->
  n_swaps (get (run c s evs) n) = n_swaps (get s n).
Proof.
  intro Lt. revert s. induction evs as [|e r IH]; intro s; [reflexivity|].
  simpl. rewrite IH. now apply step_swaps_big.
Qed.

(* C31, second clause: whatever the schedule, one of the two nodes has never decided to swap its primary *)
Lemma one_swapper c evs :
  c_addr_a c <> c_addr_b c ->
  let s := run c init evs in n_swaps (s_a s) = 0 \/ n_swaps (s_b s) = 0.
Proof.
  intros D s. destruct (addr_total _ _ D) as [Lt|Lt].
  - right. apply (run_swaps_big c NB evs init Lt).
  - left. apply (run_swaps_big c NA evs init Lt).
Qed.

(* the loser is determined by the addresses alone: the node with the larger overlay address never swaps *)
Lemma larger_never_swaps c evs n :
  addr_cmp (c_addr c (other n)) (c_addr c n) = Lt -> n_swaps (get (run c init evs) n) = 0.
Proof. intro Lt. rewrite (run_swaps_big c n evs init Lt). now destruct n. Qed.

(* C03 assembled: everything signing accepts decodes back from its standard, PEM and handshake encodings; the
   decoders only return certificates that obey validate(). *)
From Coq Require Import List NArith ZArith Lia Bool.
From Coq Require Import ZifyN ZifyNat ZifyBool.
Import ListNotations.
From NV Require Import lib.Bytes lib.Proto lib.Der model.CertCodec proofs.CertCodec_sort proofs.CertCodec_v2 proofs.CertCodec_v1.
Open Scope N_scope.

(* ---- what signing hands out ---- *)

Lemma validate_v2_keeps c c' : validate_v2 c = Some c' ->
  c_sig c' = c_sig c /\ c_curve c' = c_curve c /\ c_nb c' = c_nb c /\ c_na c' = c_na c /\ c_pub c' = c_pub c /\
  c_name c' = c_name c /\ c_groups c' = c_groups c /\ c_isca c' = c_isca c /\ c_issuer c' = c_issuer c.
Proof. unfold validate_v2. destruct (check_v2 c); [|discriminate]. intros H; inversion H; subst. now cbn. Qed.

Theorem sign_v2_issued tbs sig c : sign_v2 tbs sig = Some c ->
  exists c', c = seal_v2 c' /\ issued_v2 c' /\ fits (encode_v2 c) /\ validate_v2 (with_sig tbs sig) = Some c'.
Proof.
  unfold sign_v2. destruct (tbs_ok tbs && negb (is_nil sig)) eqn:E; [|discriminate].
  apply andb_prop in E as [Ht Hs]. apply negb_true_iff in Hs.
  destruct (validate_v2 (with_sig tbs sig)) as [c'|] eqn:Ev; [|discriminate].
  destruct (lenN (encode_v2 (seal_v2 c')) <=? max_certificate_size) eqn:El; [|discriminate].
  intros H; inversion H; subst; clear H. exists c'. split; [reflexivity|].
  destruct (validate_v2_keeps _ _ Ev) as (K1 & K2 & K3 & K4 & _).
  unfold with_sig in *. cbn [c_sig c_curve c_nb c_na] in *.
  unfold tbs_ok in Ht. apply andb_prop in Ht as [Ht Hna]. apply andb_prop in Ht as [Hcv Hnb].
  split; [|split; [|reflexivity]].
  - unfold issued_v2. rewrite K1, K2, K3, K4. repeat split; try assumption.
    + now apply validate_v2_valid in Ev.
    + now apply is_nil_false_iff.
    + apply orb_true_iff in Hcv as [X|X]; apply N.eqb_eq in X; rewrite X; lia.
  - apply N.leb_le in El. unfold fits, lenN, max_certificate_size in *. exact El.
Qed.

Theorem sign_v1_issued tbs sig c : sign_v1 tbs sig = Some c ->
  c = with_sig tbs sig /\ issued_v1 c /\ c_sig c <> [].
Proof.
  unfold sign_v1. destruct (_ && _) eqn:E; [|discriminate]. intros H; inversion H; subst; clear H.
  unfold tbs_ok in E. repeat (apply andb_prop in E as [E ?]). rename E into Hcv.
  match goal with X : negb (is_nil sig) = true |- _ => apply negb_true_iff in X; rename X into Hs end.
  split; [reflexivity|]. split; [|now apply is_nil_false_iff].
  unfold issued_v1, with_sig, valid_v1, marshalable_v1 in *. cbn [c_pub c_isca c_nets c_unsafe c_name c_groups c_nb c_na c_curve].
  repeat split; try assumption.
  apply orb_true_iff in Hcv as [X|X]; apply N.eqb_eq in X; rewrite X; unfold two32; lia.
Qed.

(* ---- version 2 ---- *)

Theorem roundtrip_v2 tbs sig c : sign_v2 tbs sig = Some c ->
  decode_v2 [] 0 (encode_v2 c) = Some c /\
  recombine 2 (encode_hs_v2 c) (Some (c_pub (c2 c))) (c_curve (c2 c)) = Some (V2 c).
Proof.
  intros H. destruct (sign_v2_issued _ _ _ H) as (c' & -> & Hi & Hf & _). split.
  - apply decode_encode_v2; [assumption|exact Hf|reflexivity].
  - unfold recombine. cbn [seal_v2 c2].
    rewrite decode_encode_hs_v2; [cbn [seal_v2 c2]; now rewrite N.eqb_refl|assumption|].
    pose proof (encode_hs_v2_shorter (seal_v2 c')). unfold fits in *. lia.
Qed.

(* ---- version 1 ---- *)

Theorem roundtrip_v1 tbs sig c : sign_v1 tbs sig = Some c -> go_len (encode_v1 c) -> go_len (encode_hs_v1 c) ->
  decode_v1 [] (encode_v1 c) = Some c /\
  recombine 1 (encode_hs_v1 c) (Some (c_pub c)) (c_curve c) = Some (V1 c) /\
  recombine 0 (encode_hs_v1 c) (Some (c_pub c)) (c_curve c) = Some (V1 c).
Proof.
  intros H G1 G2. destruct (sign_v1_issued _ _ _ H) as (_ & Hi & _). split; [|split].
  - now apply decode_encode_v1.
  - unfold recombine. rewrite decode_encode_hs_v1 by assumption. now rewrite N.eqb_refl.
  - unfold recombine. rewrite decode_encode_hs_v1 by assumption. now rewrite N.eqb_refl.
Qed.

(* ---- PEM and fingerprints ---- *)

Section Pem.
  Variable pem_enc : N -> list N -> list N.
  Variable pem_dec : list N -> option (N * list N * list N).
  Variable H : list N -> list N.
  (* encoding/pem: Decode(EncodeToMemory(block)) returns the block's type and bytes and nothing is left over *)
  Hypothesis pem_roundtrip : forall banner body, pem_dec (pem_enc banner body) = Some (banner, body, []).

  Theorem pem_roundtrip_v2 tbs sig c : sign_v2 tbs sig = Some c ->
    unmarshal_pem pem_dec (marshal_pem pem_enc (V2 c)) = Some (V2 c, []).
  Proof.
    intros Hs. unfold unmarshal_pem, marshal_pem. rewrite pem_roundtrip.
    destruct (roundtrip_v2 _ _ _ Hs) as [-> _]. reflexivity.
  Qed.

  Theorem pem_roundtrip_v1 tbs sig c : sign_v1 tbs sig = Some c -> go_len (encode_v1 c) ->
    unmarshal_pem pem_dec (marshal_pem pem_enc (V1 c)) = Some (V1 c, []).
  Proof.
    intros Hs G. unfold unmarshal_pem, marshal_pem. rewrite pem_roundtrip.
    destruct (sign_v1_issued _ _ _ Hs) as (_ & Hi & _). now rewrite decode_encode_v1.
  Qed.

  (* whatever any of the three paths returns for an issued certificate has the fingerprint of the issued one
     (v1: hash of the re-marshalled certificate; v2: hash of rawDetails, curve, key, signature) *)
  Theorem fingerprints_v2 tbs sig c c1 c2' c3 rest : sign_v2 tbs sig = Some c ->
    decode_v2 [] 0 (encode_v2 c) = Some c1 ->
    recombine 2 (encode_hs_v2 c) (Some (c_pub (c2 c))) (c_curve (c2 c)) = Some c2' ->
    unmarshal_pem pem_dec (marshal_pem pem_enc (V2 c)) = Some (c3, rest) ->
    fingerprint H (V2 c1) = fingerprint H (V2 c) /\ fingerprint H c2' = fingerprint H (V2 c) /\
    fingerprint H c3 = fingerprint H (V2 c).
  Proof.
    intros Hs E1 E2 E3. destruct (roundtrip_v2 _ _ _ Hs) as [R1 R2].
    rewrite (pem_roundtrip_v2 _ _ _ Hs) in E3. rewrite R1 in E1. rewrite R2 in E2.
    inversion E1; inversion E2; inversion E3; subst. auto.
  Qed.

  Theorem fingerprints_v1 tbs sig c c1 c2' c3 rest : sign_v1 tbs sig = Some c ->
    go_len (encode_v1 c) -> go_len (encode_hs_v1 c) ->
    decode_v1 [] (encode_v1 c) = Some c1 ->
    recombine 1 (encode_hs_v1 c) (Some (c_pub c)) (c_curve c) = Some c2' ->
    unmarshal_pem pem_dec (marshal_pem pem_enc (V1 c)) = Some (c3, rest) ->
    fingerprint H (V1 c1) = fingerprint H (V1 c) /\ fingerprint H c2' = fingerprint H (V1 c) /\
    fingerprint H c3 = fingerprint H (V1 c).
  Proof.
    intros Hs G1 G2 E1 E2 E3. destruct (roundtrip_v1 _ _ _ Hs G1 G2) as (R1 & R2 & _).
    rewrite (pem_roundtrip_v1 _ _ _ Hs G1) in E3. rewrite R1 in E1. rewrite R2 in E2.
    inversion E1; inversion E2; inversion E3; subst. auto.
  Qed.

  (* ---- soundness of every decoding entry point ---- *)

  Definition obeys (a : anycert) : bool := match a with V1 c => valid_v1 c | V2 c => valid_v2 (c2 c) end.

  Theorem recombine_sound v raw pk curve a : recombine v raw pk curve = Some a -> obeys a = true.
  Proof.
    unfold recombine. destruct pk as [k|]; [|discriminate].
    destruct v as [|[[]|[[]|[]|]|]]; try discriminate.
    - destruct (decode_v1 k raw) as [c|] eqn:E; [|discriminate]. destruct (_ =? _); [|discriminate].
      intros X; inversion X; subst. cbn. eapply decode_v1_sound; eassumption.
    - destruct (decode_v2 k curve raw) as [c|] eqn:E; [|discriminate]. destruct (_ =? _); [|discriminate].
      intros X; inversion X; subst. cbn. now apply decode_v2_sound in E as [E _].
    - destruct (decode_v1 k raw) as [c|] eqn:E; [|discriminate]. destruct (_ =? _); [|discriminate].
      intros X; inversion X; subst. cbn. eapply decode_v1_sound; eassumption.
  Qed.

  Theorem unmarshal_pem_sound b a rest : unmarshal_pem pem_dec b = Some (a, rest) -> obeys a = true.
  Proof.
    unfold unmarshal_pem. destruct (pem_dec b) as [[[banner body] r]|]; [|discriminate].
    destruct banner as [|[[]|[[]|[]|]|]]; try discriminate.
    - destruct (decode_v2 [] 0 body) as [c|] eqn:E; [|discriminate].
      intros X; inversion X; subst. cbn. now apply decode_v2_sound in E as [E _].
    - destruct (decode_v1 [] body) as [c|] eqn:E; [|discriminate].
      intros X; inversion X; subst. cbn. eapply decode_v1_sound; eassumption.
  Qed.
End Pem.

(* the hypothesis about encoding/pem is satisfiable: a banner byte in front of the body *)
Example pem_hypothesis_satisfiable :
  let enc := fun (bn : N) (b : list N) => bn :: b in
  let dec := fun (b : list N) => match b with bn :: r => Some (bn, r, @nil N) | [] => None end in
  forall banner body, dec (enc banner body) = Some (banner, body, []).
Proof. reflexivity. Qed.

(* ---- non-vacuity and the two places where the decoders are laxer than Sign (harmless, reported) ---- *)

Definition sample_tbs (curve : N) : cert :=
  mkCert [104; 111; 115; 116] [(true, 167772161, 24); (false, 335544320, 64)] [(true, 3232235776, 16)]
         [[97]; [195; 169]] false 1700000000%Z 1800000000%Z [1; 2; 3] curve [9; 9; 9] [].

Example sign_accepts_sample :
  (exists c, sign_v2 (sample_tbs 1) [7; 7] = Some c /\ c_nets (c2 c) = [(true, 167772161, 24); (false, 335544320, 64)]) /\
  (exists c, sign_v1 (with_nets (sample_tbs 0) [(true, 167772161, 24)] []) [7; 7] = Some c).
Proof. split; eexists; vm_compute; split || reflexivity; reflexivity. Qed.

(* Sign refuses curves other than 0 and 1 (there is no signer for them); the decoders take any curve byte / enum
   value. Such a certificate can never verify: CheckSignature returns false for unknown curves. *)
Example decoder_accepts_unknown_curve :
  (exists b c, decode_v2 [] 0 b = Some c /\ c_curve (c2 c) = 7) /\
  (exists b c, decode_v1 [] b = Some c /\ c_curve c = 7).
Proof.
  split.
  - exists (encode_v2 (seal_v2 (with_sig (sample_tbs 7) [7; 7]))). eexists. split; vm_compute; reflexivity.
  - exists (encode_v1 (with_sig (with_nets (sample_tbs 7) [(true, 167772161, 24)] []) [7; 7])). eexists.
    split; vm_compute; reflexivity.
Qed.

(* setSignature refuses an empty signature and so does the v2 decoder; the v1 decoder does not look *)
Example decoder_v1_accepts_empty_signature : exists b c, decode_v1 [] b = Some c /\ c_sig c = [].
Proof.
  exists (encode_v1 (with_nets (sample_tbs 0) [(true, 167772161, 24)] [])). eexists. split; vm_compute; reflexivity.
Qed.

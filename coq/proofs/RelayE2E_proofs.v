(* Lemmas for C15 (relays never see or alter end-to-end traffic) over the symbolic model model/RelayE2E.v. *)
From Coq Require Import List NArith Bool Lia.
Import ListNotations.
From NV Require Import lib.Sym model.RelayE2E.
Open Scope N_scope.

Section E2E.
  Variable e2e : list N.     (* the end-to-end tunnel keys the relay is not an endpoint of *)
  Notation safe := (safe e2e).
  Notation aeads := (e2e_aeads e2e).
  Notation is_e2e := (is_e2e e2e).

  (* ---- keys and plaintexts ------------------------------------------------------------------------------ *)

  Lemma even_2k k : N.even (2 * k) = true.
  Proof. rewrite N.even_mul. reflexivity. Qed.
  Lemma half_2k k : 2 * k / 2 = k.
  Proof. rewrite N.mul_comm. apply N.div_mul. discriminate. Qed.
  Lemma even_2k1 k : N.even (2 * k + 1) = false.
  Proof. rewrite N.even_add, even_2k. reflexivity. Qed.

  Lemma aead_inj k n ad p k' n' ad' p' :
    Aead k n ad p = Aead k' n' ad' p' -> k = k' /\ n = n' /\ ad = ad' /\ p = p'.
  Proof. intros H. inversion H. auto. Qed.
  Lemma junk_inj i l i' l' : Junk i l = Junk i' l' -> i = i'.
  Proof. intros H. inversion H. auto. Qed.

  Lemma key_inj a b : key a = key b -> a = b.
  Proof. intros H. assert (E : 2 * a = 2 * b) by (unfold key in H; congruence). lia. Qed.

  Lemma is_e2e_key k : is_e2e (key k) = existsb (N.eqb k) e2e.
  Proof. unfold key. cbn [RelayE2E.is_e2e]. now rewrite even_2k, half_2k. Qed.
  Lemma safe_key k : safe (key k) = negb (existsb (N.eqb k) e2e).
  Proof. unfold key. cbn [RelayE2E.safe]. now rewrite even_2k, half_2k. Qed.
  Lemma unsafe_data d : safe (data d) = false.
  Proof. unfold data. cbn [RelayE2E.safe]. now rewrite even_2k1. Qed.

  Lemma e2e_unsafe k : is_e2e k = true -> safe k = false.
  Proof.
    destruct k; cbn; try discriminate. intros H. apply andb_true_iff in H as [-> H]. now rewrite H.
  Qed.
  Lemma safe_not_e2e k : safe k = true -> is_e2e k = false.
  Proof. intros S. destruct (is_e2e k) eqn:E; [|reflexivity]. apply e2e_unsafe in E. congruence. Qed.

  (* ---- concatenation, slicing, DH preserve safety and create no ciphertext ------------------------------- *)

  Lemma safe_cat a c : safe (cat a c) = safe a && safe c.
  Proof.
    induction a; cbn [cat]; try (destruct c; cbn [RelayE2E.safe]; rewrite ?andb_true_r; reflexivity).
    cbn [RelayE2E.safe]. rewrite IHa2. now rewrite andb_assoc.
  Qed.

  Lemma aeads_cat a c : aeads (cat a c) = aeads a ++ aeads c.
  Proof.
    induction a; cbn [cat]; try (destruct c; cbn [e2e_aeads]; rewrite ?app_nil_r; reflexivity).
    cbn [e2e_aeads]. rewrite IHa2. now rewrite app_assoc.
  Qed.

  Lemma safe_sub d t o l : safe t = true -> safe (sub d t o l) = true.
  Proof.
    intros S. unfold sub. destruct (l =? 0); [reflexivity|].
    destruct ((o =? 0) && (l =? tlen d t)); [exact S|]. destruct t; exact S.
  Qed.

  Lemma aeads_sub d t o l : incl (aeads (sub d t o l)) (aeads t).
  Proof.
    unfold sub. destruct (l =? 0); [apply incl_nil_l|].
    destruct ((o =? 0) && (l =? tlen d t)); [apply incl_refl|].
    destruct t; cbn [e2e_aeads]; try apply incl_refl; try apply incl_nil_l.
  Qed.

  Lemma safe_take : forall d t m, safe t = true -> safe (fst (take d m t)) = true /\ safe (snd (take d m t)) = true.
  Proof.
    intros d; induction t; intros m S; cbn [take]; try (cbn [fst snd]; split; apply safe_sub; exact S).
    cbn [RelayE2E.safe] in S. apply andb_true_iff in S as [S1 S2].
    destruct (m <=? tlen d t1).
    - destruct (take d m t1) as [x r] eqn:E. specialize (IHt1 m S1). rewrite E in IHt1. cbn [fst snd] in *.
      destruct IHt1 as [Hx Hr]. split; [exact Hx|]. rewrite safe_cat, Hr, S2. reflexivity.
    - destruct (take d (m - tlen d t1) t2) as [y r] eqn:E. specialize (IHt2 (m - tlen d t1) S2). rewrite E in IHt2.
      cbn [fst snd] in *. destruct IHt2 as [Hy Hr]. split; [|exact Hr]. rewrite safe_cat, S1, Hy. reflexivity.
  Qed.

  Lemma aeads_take : forall d t m, incl (aeads (fst (take d m t))) (aeads t) /\ incl (aeads (snd (take d m t))) (aeads t).
  Proof.
    intros d; induction t; intros m; cbn [take]; try (cbn [fst snd]; split; apply aeads_sub).
    destruct (m <=? tlen d t1).
    - destruct (take d m t1) as [x r] eqn:E. specialize (IHt1 m). rewrite E in IHt1. cbn [fst snd] in *.
      destruct IHt1 as [Hx Hr]. cbn [e2e_aeads]. split.
      + apply incl_appl. exact Hx.
      + rewrite aeads_cat. apply incl_app; [apply incl_appl; exact Hr|apply incl_appr, incl_refl].
    - destruct (take d (m - tlen d t1) t2) as [y r] eqn:E. specialize (IHt2 (m - tlen d t1)). rewrite E in IHt2.
      cbn [fst snd] in *. destruct IHt2 as [Hy Hr]. cbn [e2e_aeads]. split.
      + rewrite aeads_cat. apply incl_app; [apply incl_appl, incl_refl|apply incl_appr; exact Hy].
      + apply incl_appr. exact Hr.
  Qed.

  Lemma safe_dh k B : safe B = true -> safe (dh k B) = true.
  Proof. intros S. unfold dh. destruct B; try exact S. destruct (k0 <? k); reflexivity. Qed.

  Lemma aeads_dh k B : incl (aeads (dh k B)) (aeads B).
  Proof. unfold dh. destruct B; cbn [e2e_aeads]; try apply incl_refl. destruct (k0 <? k); apply incl_refl. Qed.

  (* ---- whatever the adversary derives from safe knowledge is safe, and holds no new end-to-end ciphertext -- *)

  Definition all_safe (K : list term) : Prop := forall t, In t K -> safe t = true.

  Lemma derives_safe K t : all_safe K -> derives K t -> safe t = true.
  Proof.
    intros HK D. induction D; try reflexivity.
    - now apply HK.
    - now apply safe_dh.
    - cbn [RelayE2E.safe]. now rewrite IHD1, IHD2.
    - cbn [RelayE2E.safe]. now rewrite IHD1, IHD2.
    - cbn [RelayE2E.safe]. rewrite (safe_not_e2e _ IHD1). now rewrite IHD1, IHD2, IHD3.
    - cbn [RelayE2E.safe] in IHD1. rewrite (safe_not_e2e _ IHD2) in IHD1.
      apply andb_true_iff in IHD1 as [_ S]. exact S.
    - rewrite safe_cat. now rewrite IHD1, IHD2.
    - now apply safe_take.
    - now apply safe_take.
  Qed.

  Definition origins (K : list term) : list term := flat_map aeads K.

  Lemma derives_origin K t : all_safe K -> derives K t -> incl (aeads t) (origins K).
  Proof.
    intros HK D. induction D; cbn [e2e_aeads]; try apply incl_nil_l.
    - intros x Hx. apply in_flat_map. exists t. split; assumption.
    - eapply incl_tran; [apply aeads_dh|exact IHD2].
    - apply incl_app; assumption.
    - apply incl_app; assumption.
    - rewrite (safe_not_e2e _ (derives_safe K k HK D1)). apply incl_app; [assumption|apply incl_app; assumption].
    - cbn [e2e_aeads] in IHD1. rewrite (safe_not_e2e _ (derives_safe K k HK D2)) in IHD1.
      intros x Hx. apply IHD1. apply in_or_app. right. apply in_or_app. now right.
    - rewrite aeads_cat. apply incl_app; assumption.
    - eapply incl_tran; [apply aeads_take|exact IHD].
    - eapply incl_tran; [apply aeads_take|exact IHD].
  Qed.

  (* ---- what the endpoints send is safe, and its only end-to-end ciphertext is the inner one ------------------- *)

  Definition wf_sent (s : sent) : bool := existsb (N.eqb (s_kab s)) e2e && negb (existsb (N.eqb (s_kar s)) e2e).

  Definition inner_ct (s : sent) : term :=
    Aead (key (s_kab s)) (s_ctr s) (hdr t_message st_none (s_idx s) (s_ctr s)) (data (s_data s)).

  Lemma safe_wire s : wf_sent s = true -> safe (wire s) = true.
  Proof.
    unfold wf_sent. intros W. apply andb_true_iff in W as [W1 W2]. apply negb_true_iff in W2.
    unfold wire, outer_pkt, inner_pkt. rewrite !safe_cat. cbn [RelayE2E.safe hdr].
    rewrite !is_e2e_key, W1, W2, safe_key, W2. rewrite !safe_cat. cbn [RelayE2E.safe hdr]. rewrite is_e2e_key, W1. reflexivity.
  Qed.

  Lemma aeads_wire s x : wf_sent s = true -> In x (aeads (wire s)) -> x = inner_ct s.
  Proof.
    unfold wf_sent. intros W. apply andb_true_iff in W as [W1 W2]. apply negb_true_iff in W2.
    unfold wire, outer_pkt, inner_pkt. rewrite !aeads_cat. cbn [e2e_aeads hdr key].
    fold (key (s_kab s)) (key (s_kar s)). rewrite !is_e2e_key, W1, W2. cbn [e2e_aeads app].
    rewrite !aeads_cat. cbn [e2e_aeads hdr key]. fold (key (s_kab s)). rewrite is_e2e_key, W1.
    unfold inner_ct. cbn [app In]. intros Hx. repeat (destruct Hx as [Hx|Hx]; [symmetry; exact Hx|]). destruct Hx.
  Qed.

  Definition wf_world (own : list N) (traffic : list sent) (extra : list term) : Prop :=
    (forall k, In k own -> existsb (N.eqb k) e2e = false) /\
    (forall s, In s traffic -> wf_sent s = true) /\
    (forall t, In t extra -> safe t = true /\ aeads t = []).

  Lemma knowledge_safe own traffic extra : wf_world own traffic extra -> all_safe (knowledge own traffic extra).
  Proof.
    intros (Ho & Ht & He) t Hin. unfold knowledge in Hin. apply in_app_or in Hin as [Hin|Hin].
    - apply in_map_iff in Hin as (k & <- & Hk). rewrite safe_key, (Ho k Hk). reflexivity.
    - apply in_app_or in Hin as [Hin|Hin].
      + apply in_map_iff in Hin as (s & <- & Hs). apply safe_wire. now apply Ht.
      + now apply He.
  Qed.

  Lemma knowledge_origins own traffic extra x :
    wf_world own traffic extra -> In x (origins (knowledge own traffic extra)) -> exists s, In s traffic /\ x = inner_ct s.
  Proof.
    intros (Ho & Ht & He) Hin. unfold origins in Hin. apply in_flat_map in Hin as (t & Hin & Hx).
    unfold knowledge in Hin. apply in_app_or in Hin as [Hin|Hin].
    - apply in_map_iff in Hin as (k & <- & Hk). cbn in Hx. destruct Hx.
    - apply in_app_or in Hin as [Hin|Hin].
      + apply in_map_iff in Hin as (s & <- & Hs). exists s. split; [exact Hs|]. exact (aeads_wire s x (Ht s Hs) Hx).
      + destruct (He t Hin) as [_ E]. rewrite E in Hx. destruct Hx.
  Qed.

  (* ---- the theorems -------------------------------------------------------------------------------------------- *)

  (* No plaintext, no end-to-end key: nothing the relay can compute from everything it sees and holds is a plaintext
     or a slice of one, or an end-to-end key. *)
  Lemma no_plaintext own traffic extra t :
    wf_world own traffic extra -> derives (knowledge own traffic extra) t -> safe t = true.
  Proof. intros W D. exact (derives_safe _ _ (knowledge_safe _ _ _ W) D). Qed.

  (* Integrity: whatever the relay hands to the endpoint, if the endpoint accepts it on a tunnel whose key is end to
     end, header, counter, ciphertext and plaintext are exactly those of a packet the tunnel's peer sent. *)
  Lemma integrity own traffic extra ts idx c t tu p :
    wf_world own traffic extra -> derives (knowledge own traffic extra) t ->
    recv_inner ts idx c t = Some (tu, p) -> existsb (N.eqb (t_key tu)) e2e = true ->
    exists s, In s traffic /\ s_kab s = t_key tu /\ s_ctr s = c /\ hcode t_message st_none (s_idx s) (s_ctr s) = hcode t_message st_none idx c /\
              p = data (s_data s).
  Proof.
    intros W D R E. unfold recv_inner in R. destruct (take dl 16 t) as [h body] eqn:T.
    destruct (term_eqb h (hdr t_message st_none idx c)) eqn:Hh; [|discriminate]. apply term_eqb_eq in Hh.
    destruct (find_tunnel ts idx) as [tu'|]; [|discriminate].
    destruct (adec (key (t_key tu')) c h body) as [p'|] eqn:A; [|discriminate]. inversion R; subst tu' p'. clear R.
    apply adec_some in A.
    assert (Db : derives (knowledge own traffic extra) body).
    { replace body with (snd (take dl 16 t)) by (rewrite T; reflexivity). now apply d_take2. }
    pose proof (derives_origin _ _ (knowledge_safe _ _ _ W) Db) as I.
    assert (Hin : In body (origins (knowledge own traffic extra))).
    { apply I. rewrite A. cbn [e2e_aeads]. rewrite is_e2e_key, E. now left. }
    destruct (knowledge_origins _ _ _ _ W Hin) as (s & Hs & Eq). exists s. split; [exact Hs|].
    rewrite A in Eq. unfold inner_ct in Eq. apply aead_inj in Eq as (Ek & Ec & Eh & Ep).
    apply key_inj in Ek. subst h. unfold hdr in Eh. apply junk_inj in Eh.
    subst c. repeat split; auto.
  Qed.

  (* Attribution: a plaintext delivered out of a relay packet is attributed to the peer of the tunnel that owns the
     INNER index, and that tunnel's peer sent it; the relay record's claimed peer address plays no part. *)
  Lemma attribution own traffic extra ts r c' idx c t who p :
    wf_world own traffic extra -> derives (knowledge own traffic extra) t ->
    recv_outer ts r c' idx c t = Some (who, p) ->
    (forall tu, In tu ts -> existsb (N.eqb (t_key tu)) e2e = true) ->
    exists tu s, find_tunnel ts idx = Some tu /\ who = t_peer tu /\ In s traffic /\ s_kab s = t_key tu /\ s_ctr s = c /\ p = data (s_data s).
  Proof.
    intros W D R He. unfold recv_outer in R. destruct (take dl (tlen dl t - 16) t) as [ad tag] eqn:T1.
    destruct (take dl 16 ad) as [h body] eqn:T2.
    destruct (term_eqb h (hdr t_message st_relay (r_idx r) c')); [|discriminate].
    destruct (adec (key (r_key r)) c' ad tag) as [[]|]; try discriminate.
    destruct (recv_inner ts idx c body) as [[tu p']|] eqn:RI; [|discriminate]. inversion R; subst who p'. clear R.
    assert (Dad : derives (knowledge own traffic extra) ad).
    { replace ad with (fst (take dl (tlen dl t - 16) t)) by (rewrite T1; reflexivity). now apply d_take1. }
    assert (Db : derives (knowledge own traffic extra) body).
    { replace body with (snd (take dl 16 ad)) by (rewrite T2; reflexivity). now apply d_take2. }
    assert (Hf : find_tunnel ts idx = Some tu).
    { unfold recv_inner in RI. destruct (take dl 16 body) as [h2 b2]. destruct (term_eqb h2 _); [|discriminate].
      destruct (find_tunnel ts idx) as [tu'|]; [|discriminate]. destruct (adec _ _ _ _); [|discriminate]. now inversion RI. }
    assert (Hin : In tu ts). { unfold find_tunnel in Hf. apply find_some in Hf. tauto. }
    destruct (integrity own traffic extra ts idx c body tu p W Db RI (He tu Hin)) as (s & Hs & Hk & Hc & _ & Hp).
    exists tu, s. repeat split; auto.
  Qed.
End E2E.

(* C39: facts about the generated relay control tables (gen/Tab_Relay.v), proved by evaluating them completely, and
   the completeness of the enumerations of the two feature spaces. Everything here is re-checked against the
   table that the harness regenerates from the code on every run. *)
From Coq Require Import List NArith Bool.
Import ListNotations.
From NV Require Import lib.Relay_lib gen.Tab_Relay model.Relay.
Open Scope N_scope.

(* ---- the enumerations are complete ---------------------------------------------------------------- *)
Lemma in_all_bool b : In b all_bool. Proof. destruct b; simpl; auto. Qed.
Lemma in_all_rstate x : In x all_rstate. Proof. destruct x; simpl; auto. Qed.
Lemma in_all_rtype x : In x all_rtype. Proof. destruct x; simpl; auto. Qed.
Lemma in_all_encf x : In x all_encf. Proof. destruct x; simpl; auto. Qed.
Lemma in_all_opt {A} (l : list A) (o : option A) : (forall a, In a l) -> In o (all_opt l).
Proof. intros H. destruct o as [a|]; [right; apply in_map, H | left; reflexivity]. Qed.
Lemma in_all_pair {A B} (la : list A) (lb : list B) (p : A * B) :
  (forall a, In a la) -> (forall b, In b lb) -> In p (all_pair la lb).
Proof. intros Ha Hb. destruct p as [a b]. apply in_flat_map. exists a. split; [apply Ha | apply in_map, Hb]. Qed.

Lemma in_all_qex x : In x all_qex.
Proof. apply in_all_opt. intros p. apply in_all_pair; [apply in_all_rstate | apply in_all_bool]. Qed.
Lemma in_all_qpeer x : In x all_qpeer.
Proof.
  apply in_all_opt. intros p. apply in_all_pair; [apply in_all_bool |].
  intros o. apply in_all_opt, in_all_rstate.
Qed.

Lemma in_all_qrows r : In r all_qrows.
Proof.
  destruct r as [e am fm tm ex p]. unfold all_qrows.
  apply in_flat_map. exists e. split; [apply in_all_encf |].
  apply in_flat_map. exists am. split; [apply in_all_bool |].
  apply in_flat_map. exists fm. split; [apply in_all_bool |].
  apply in_flat_map. exists tm. split; [apply in_all_bool |].
  apply in_flat_map. exists ex. split; [apply in_all_qex |].
  apply in_map, in_all_qpeer.
Qed.

Lemma in_all_xrec x : In x all_xrec.
Proof.
  apply in_all_opt. intros p. apply in_all_pair; [| apply in_all_bool].
  intros q. apply in_all_pair; [apply in_all_rtype | apply in_all_rstate].
Qed.
Lemma in_all_xpeer x : In x all_xpeer.
Proof. apply in_all_opt. intros o. apply in_all_opt, in_all_rstate. Qed.

Lemma in_all_xrows r : xfeasible r = true -> In r all_xrows.
Proof.
  intros F. unfold all_xrows. apply filter_In. split; [| exact F].
  destruct r as [e rc p].
  apply in_flat_map. exists e. split; [apply in_all_encf |].
  apply in_flat_map. exists rc. split; [apply in_all_xrec |].
  apply in_map, in_all_xpeer.
Qed.

(* ---- lifting a complete evaluation to every row ------------------------------------------------------ *)
Definition qall (P : qrow -> act -> bool) : bool :=
  forallb (fun r => match req_decide r with Some a => P r a | None => false end) all_qrows.
Definition xall (P : xrow -> act -> bool) : bool :=
  forallb (fun r => match resp_decide r with Some a => P r a | None => false end) all_xrows.

Lemma qall_spec P : qall P = true -> forall r, exists a, req_decide r = Some a /\ P r a = true.
Proof.
  intros H r. unfold qall in H. rewrite forallb_forall in H. specialize (H r (in_all_qrows r)).
  destruct (req_decide r) as [a|]; [exists a; auto | discriminate].
Qed.
Lemma xall_spec P : xall P = true -> forall r, xfeasible r = true -> exists a, resp_decide r = Some a /\ P r a = true.
Proof.
  intros H r F. unfold xall in H. rewrite forallb_forall in H. specialize (H r (in_all_xrows r F)).
  destruct (resp_decide r) as [a|]; [exists a; auto | discriminate].
Qed.

(* ---- what the tables say ------------------------------------------------------------------------------- *)

(* the documented gates (model.Relay.qrow_gate_ok / xrow_gate_ok, written from the property text) hold for every row *)
Lemma tab_req_gates : qall (fun r a => qrow_gate_ok (r, a)) = true.
Proof. vm_compute. reflexivity. Qed.
Lemma tab_resp_gates : xall (fun r a => xrow_gate_ok (r, a)) = true.
Proof. vm_compute. reflexivity. Qed.

(* the tables are total *)
Lemma req_decide_total r : exists a, req_decide r = Some a /\ qrow_gate_ok (r, a) = true.
Proof. exact (qall_spec _ tab_req_gates r). Qed.
Lemma resp_decide_total r : xfeasible r = true -> exists a, resp_decide r = Some a /\ xrow_gate_ok (r, a) = true.
Proof. exact (xall_spec _ tab_resp_gates r). Qed.

(* states a handler writes into an existing record: Requested or Established only *)
Definition st_re (s : rstate) : bool := match s with SReq | SEst => true | _ => false end.
Definition act_states_ok (a : act) : bool :=
  match a_h a with HSet st => st_re st | _ => true end && match a_p a with PSet st => st_re st | _ => true end.
Lemma tab_req_states : qall (fun _ a => act_states_ok a) = true.
Proof. vm_compute. reflexivity. Qed.
Lemma tab_resp_states : xall (fun _ a => act_states_ok a) = true.
Proof. vm_compute. reflexivity. Qed.

(* records are created only with these shapes: forwarding legs PeerRequested (own) / Requested (target leg),
   a terminal record Established *)
Definition act_creates_ok (a : act) : bool :=
  match a_h a with HCreate TFwd SPeerReq | HCreate TTerm SEst => true | HCreate _ _ => false | _ => true end &&
  match a_p a with PCreate TFwd SReq => true | PCreate _ _ => false | _ => true end.
Lemma tab_req_creates : qall (fun _ a => act_creates_ok a) = true.
Proof. vm_compute. reflexivity. Qed.
Lemma tab_resp_creates : xall (fun _ a =>
  match a_h a with HCreate _ _ => false | _ => true end && match a_p a with PCreate _ _ => false | _ => true end) = true.
Proof. vm_compute. reflexivity. Qed.

(* the transitions the tables perform are exactly the documented message transitions (both directions: a transition
   that disappears from the code is noticed as well) *)
Definition pair_mem (p : rstate * rstate) (l : list (rstate * rstate)) : bool :=
  existsb (pair_eqb rstate_eqb rstate_eqb p) l.
Lemma table_transitions_pinned :
  forallb (fun p => pair_mem p message_transitions) table_transitions &&
  forallb (fun p => pair_mem p table_transitions) message_transitions = true.
Proof. vm_compute. reflexivity. Qed.

Lemma rstate_eqb_eq a b : rstate_eqb a b = true <-> a = b.
Proof. destruct a, b; simpl; split; intros H; try reflexivity; try discriminate. Qed.

Lemma pair_mem_in p l : pair_mem p l = true <-> In p l.
Proof.
  unfold pair_mem. rewrite existsb_exists. split.
  - intros [q [Hq E]]. unfold pair_eqb in E. apply andb_prop in E as [E1 E2].
    apply rstate_eqb_eq in E1, E2. destruct p, q; simpl in *; subst; exact Hq.
  - intros H. exists p. split; [exact H |]. unfold pair_eqb. destruct p as [a b]; simpl.
    apply andb_true_intro; split; apply rstate_eqb_eq; reflexivity.
Qed.

Lemma table_transitions_iff p : In p table_transitions <-> In p message_transitions.
Proof.
  pose proof table_transitions_pinned as H. apply andb_prop in H as [H1 H2].
  rewrite forallb_forall in H1, H2. split; intros Hp.
  - apply pair_mem_in, H1, Hp.
  - apply pair_mem_in, H2, Hp.
Qed.

(* and the message transitions are exactly: any change into Requested or Established *)
Lemma message_transitions_char a b : In (a, b) message_transitions <-> a <> b /\ (b = SReq \/ b = SEst).
Proof.
  unfold message_transitions. simpl. split.
  - intros H. repeat (destruct H as [H|H]; [inversion H; subst; split; [discriminate | auto] |]). destruct H.
  - intros [N [E|E]]; subst; destruct a; try (exfalso; apply N; reflexivity); auto 10.
Qed.

(* all transitions, documented and conservative: any change except into PeerRequested *)
Lemma allowed_transitions_char a b : In (a, b) allowed_transitions <-> a <> b /\ b <> SPeerReq.
Proof.
  unfold allowed_transitions, documented_transitions, conservative_transitions. simpl. split.
  - intros H. repeat (destruct H as [H|H]; [inversion H; subst; split; discriminate |]). destruct H.
  - intros [N1 N2]. destruct a, b; try (exfalso; apply N1; reflexivity); try (exfalso; apply N2; reflexivity); auto 12.
Qed.

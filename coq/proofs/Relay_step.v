(* C39: every operation of a history preserves the invariant; what each kind of operation may do to the state of
   an existing relay record. The two control handlers are handled through the facts proved about the generated
   tables (proofs/Relay_tab.v). *)
From Coq Require Import List NArith Bool Lia.
Import ListNotations.
From NV Require Import lib.Relay_lib gen.Tab_Relay model.Relay proofs.Relay_maps proofs.Relay_tab proofs.Relay_inv.
Open Scope N_scope.

(* a message changes the state of an existing record only into Requested or Established *)
Definition msg_ok (a b : rstate) : Prop := a = b \/ b = SReq \/ b = SEst.
Lemma msg_ok_refl a : msg_ok a a. Proof. now left. Qed.
Lemma msg_ok_trans a b c : msg_ok a b -> msg_ok b c -> msg_ok a c.
Proof. unfold msg_ok. intros [H1|H1] [H2|H2]; subst; auto. Qed.
Lemma st_re_msg_ok st x : st_re st = true -> msg_ok x st.
Proof. destruct st; simpl; intros H; try discriminate; unfold msg_ok; auto. Qed.

(* nobody asks for a relay to one of its own addresses, and nobody is named as source towards itself
   (only requests matter; executable, used as the hypothesis of the no-reflection theorem) *)
Definition wf_op (s : state) (o : op) : bool :=
  match o with
  | OMsg h w _ =>
      match decode w, tun s h with
      | Some (_, from, to), Some th =>
          if w_typ w =? 1 then
            negb (memN to (t_addrs th)) &&
            match primary s to with
            | Some p => match tun s p with Some tp => negb (memN from (t_addrs tp)) | None => true end
            | None => true
            end
          else true
      | _, _ => true
      end
  | _ => true
  end.

(* the invariant afterwards, records persist with message transitions, am_relay untouched *)
Definition good (ns : bool) (s s' : state) : Prop := Inv ns s' /\ evolve msg_ok s s' /\ s_am s' = s_am s.

Lemma good_refl ns s : Inv ns s -> good ns s s.
Proof. intros I. split; [exact I | split; [apply evolve_refl, msg_ok_refl | reflexivity]]. Qed.

Lemma good_trans ns s1 s2 s3 : good ns s1 s2 -> good ns s2 s3 -> good ns s1 s3.
Proof.
  intros (I2 & E2 & A2) (I3 & E3 & A3). split; [exact I3 |].
  split; [eapply evolve_trans; [apply msg_ok_trans | exact E2 | exact E3] | congruence].
Qed.

Lemma good_frame ns s s' : Inv ns s -> frame msg_ok s s' -> good ns s s'.
Proof.
  intros I F. split; [eapply Inv_frame; eauto |]. split; [now apply frame_evolve |].
  now destruct F as (_ & A & _).
Qed.

Lemma good_frame_eq ns s s' : Inv ns s -> frame eq s s' -> good ns s s'.
Proof. intros I F. apply good_frame; [exact I |]. eapply frame_weaken; [| exact F]. intros a b ->. apply msg_ok_refl. Qed.

Lemma added_evolve (P : rstate -> rstate -> Prop) s s' h r0 : (forall a, P a a) -> added s s' h r0 -> evolve P s s'.
Proof.
  intros RP (M & A & X & R & [t [E [Al E']]] & O). split; [exact M |]. intros x tx Ex.
  destruct (N.eq_dec x h) as [->|Nx].
  - rewrite E in Ex. inversion Ex; subst tx. eexists. split; [exact E' |]. simpl. repeat split; auto.
    intros r Hr. exists r. split; [apply in_ins_rec; now right | split; [apply rec_static_refl | apply RP]].
  - exists tx. rewrite (O x Nx). repeat split; auto.
    intros r Hr. exists r. split; [exact Hr | split; [apply rec_static_refl | apply RP]].
Qed.

Lemma add_relay_good ns s h key rem ty st am org cs s' res cs' :
  Inv ns s ->
  (ty = TFwd -> am = true /\ is_me s key = false) ->
  (ns = true -> ty = TFwd -> forall t, tun s h = Some t -> ~ In key (t_addrs t)) ->
  (forall t, tun s h = Some t -> rec_by_addr (t_recs t) key = None) ->
  add_relay h key rem ty st am org cs s = (s', res, cs') ->
  good ns s s'.
Proof.
  intros I H1 H2 Hab A. destruct (add_relay_spec ns _ _ _ _ _ _ _ _ _ _ _ _ I H1 H2 Hab A) as [J R].
  destruct res as [i|].
  - destruct R as [_ Ad]. split; [exact J |]. split; [eapply added_evolve; [apply msg_ok_refl | eauto] |]. now destruct Ad as (_ & A' & _).
  - subst s'. now apply good_refl.
Qed.

Lemma deliver_to_good ns s m : Inv ns s -> good ns s (fst (deliver_to s m)).
Proof.
  intros I. unfold deliver_to. destruct (tun s (o_to m)) as [t|] eqn:E; [| now apply good_refl].
  destruct (t_valid t); simpl; [now apply good_refl |].
  apply good_frame_eq; [exact I | apply frame_via; auto].
Qed.

Lemma do_pact_good ns pa p key am org cs s s' cs' :
  Inv ns s ->
  (forall ty st, pa = PCreate ty st -> ty = TFwd -> am = true /\ is_me s key = false) ->
  (forall ty st, pa = PCreate ty st -> ns = true -> ty = TFwd -> forall t, tun s p = Some t -> ~ In key (t_addrs t)) ->
  (forall st, pa = PSet st -> st_re st = true) ->
  (forall ty st, pa = PCreate ty st -> forall t, tun s p = Some t -> rec_by_addr (t_recs t) key = None) ->
  do_pact pa p key am org cs s = Some (s', cs') -> good ns s s'.
Proof.
  intros I H1 H2 H3 H4 D. destruct pa as [|st|ty st]; simpl in D.
  - inversion D; subst. now apply good_refl.
  - inversion D; subst. apply good_frame; [exact I |].
    apply frame_set_state_by_addr; [apply msg_ok_refl | intros x; apply st_re_msg_ok; now apply H3].
  - destruct (add_relay p key 0 ty st am org cs s) as [[s1 [i|]] cs1] eqn:A; [| discriminate].
    inversion D; subst. eapply add_relay_good; [exact I | | | | exact A].
    + intros Ty. eapply H1; eauto.
    + intros Hns Ty. eapply H2; eauto.
    + eapply H4; eauto.
Qed.

Lemma do_hact_good ns ha h key rem am org cs s s' cs' :
  Inv ns s ->
  (forall ty st, ha = HCreate ty st -> ty = TFwd -> am = true /\ is_me s key = false) ->
  (forall ty st, ha = HCreate ty st -> ns = true -> ty = TFwd -> forall t, tun s h = Some t -> ~ In key (t_addrs t)) ->
  (forall st, ha = HSet st -> st_re st = true) ->
  do_hact ha h key rem am org cs s = Some (s', cs') -> good ns s s'.
Proof.
  intros I H1 H2 H3 D. destruct ha as [|st| |ty st]; simpl in D.
  - inversion D; subst. now apply good_refl.
  - inversion D; subst. apply good_frame; [exact I |].
    apply frame_set_state_by_addr; [apply msg_ok_refl | intros x; apply st_re_msg_ok; now apply H3].
  - inversion D; subst. apply good_frame; [exact I |].
    apply frame_complete_by_addr; [apply msg_ok_refl | intros x; right; now right].
  - destruct (tun s h) as [t|] eqn:E; [| discriminate].
    destruct (rec_by_addr (t_recs t) key) as [r0|] eqn:Rb; simpl in D.
    + inversion D; subst. now apply good_refl.
    + destruct (add_relay h key rem ty st am org cs s) as [[s1 [i|]] cs1] eqn:A; [| discriminate].
      inversion D; subst. eapply add_relay_good; [exact I | | | | exact A].
      * intros Ty. eapply H1; eauto.
      * intros Hns Ty t0 E0. apply (H2 ty st eq_refl Hns Ty t0). congruence.
      * intros t0 E0. rewrite E in E0. now inversion E0; subst.
Qed.

(* ---- what the table says about the row a request reads -------------------------------------------------------- *)
(* the target leg is created only when the target's tunnel has no record for the source yet *)
Lemma tab_req_pcreate_absent :
  qall (fun r a => match a_p a with
                   | PCreate _ _ => match q_peer r with Some (_, None) => true | _ => false end
                   | _ => true
                   end) = true.
Proof. vm_compute. reflexivity. Qed.

Lemma req_row_facts r a :
  req_decide r = Some a ->
  act_states_ok a = true /\
  (forall ty st, a_p a = PCreate ty st -> ty = TFwd -> q_am r = true /\ q_from_me r = false) /\
  (forall ty st, a_h a = HCreate ty st -> ty = TFwd -> q_am r = true /\ q_tgt_me r = false) /\
  (forall ty st, a_p a = PCreate ty st -> exists v, q_peer r = Some (v, None)).
Proof.
  intros D.
  assert (PA : forall ty st, a_p a = PCreate ty st -> exists v, q_peer r = Some (v, None)).
  { destruct (qall_spec _ tab_req_pcreate_absent r) as [a0 [D0 S0]]. rewrite D in D0. inversion D0; subst a0.
    intros ty st Hp. rewrite Hp in S0. destruct (q_peer r) as [[v [x|]]|]; try discriminate. eauto. }
  destruct (qall_spec _ tab_req_states r) as [a1 [D1 S1]]. rewrite D in D1. inversion D1; subst a1.
  destruct (qall_spec _ tab_req_gates r) as [a2 [D2 G]]. rewrite D in D2. inversion D2; subst a2.
  split; [exact S1 |]. unfold qrow_gate_ok in G.
  repeat (apply andb_prop in G as [G ?]).
  split; [| split; [| exact PA]].
  - intros ty st Hp Ty. subst ty.
    assert (C : creates_fwd_p a = true) by (unfold creates_fwd_p; now rewrite Hp).
    match goal with H : implb (creates_fwd_h a || creates_fwd_p a || touches_p a || _) _ = true |- _ =>
      rewrite C in H; rewrite orb_true_r in H; simpl in H; repeat (apply andb_prop in H as [H ?]) end.
    split.
    + repeat match goal with H : (_ && _) = true |- _ => apply andb_prop in H as [H ?] end; assumption.
    + repeat match goal with H : (_ && _) = true |- _ => apply andb_prop in H as [H ?] end.
      match goal with H : negb (q_from_me r) = true |- _ => now apply negb_true_iff in H end.
  - intros ty st Hh Ty. subst ty.
    assert (C : creates_fwd_h a = true) by (unfold creates_fwd_h; now rewrite Hh).
    match goal with H : implb (creates_fwd_h a || creates_fwd_p a || touches_p a || _) _ = true |- _ =>
      rewrite C in H; simpl in H; repeat (apply andb_prop in H as [H ?]) end.
    split.
    + repeat match goal with H : (_ && _) = true |- _ => apply andb_prop in H as [H ?] end; assumption.
    + repeat match goal with H : (_ && _) = true |- _ => apply andb_prop in H as [H ?] end.
      match goal with H : negb (q_tgt_me r) = true |- _ => now apply negb_true_iff in H end.
Qed.

Lemma send_if_good ns c s m : Inv ns s -> good ns s (fst (send_if c s m)).
Proof.
  intros I. unfold send_if. destruct c; [| now apply good_refl].
  destruct m; [now apply deliver_to_good | now apply good_refl].
Qed.

(* states along a step keep the configuration and the addresses of every tunnel *)
Lemma good_tun ns s s' x t : good ns s s' -> tun s x = Some t -> exists t', tun s' x = Some t' /\ t_addrs t' = t_addrs t.
Proof. intros (_ & [_ E] & _) Ex. destruct (E x t Ex) as [t' [E' [A _]]]. eauto. Qed.
Lemma good_me ns s s' a : good ns s s' -> is_me s' a = is_me s a.
Proof. intros (_ & [M _] & _). unfold is_me. now rewrite M. Qed.

Lemma request_tail_good ns a h key from target init v1 tm am s1 cs1 sendP hs :
  Inv ns s1 ->
  (forall ty st, a_h a = HCreate ty st -> ty = TFwd -> am = true /\ is_me s1 key = false) ->
  (forall ty st, a_h a = HCreate ty st -> ns = true -> ty = TFwd -> forall t, tun s1 h = Some t -> ~ In key (t_addrs t)) ->
  act_states_ok a = true ->
  good ns s1 (fst (fst (request_tail a h key from target init v1 tm am s1 cs1 sendP hs))).
Proof.
  intros I H1 H2 S. unfold request_tail.
  destruct (do_hact (a_h a) h key init am (if tm then GTerminal else GOwnReq) cs1 s1) as [[s2 cs2]|] eqn:D.
  2:{ simpl. now apply good_refl. }
  assert (G : good ns s1 s2).
  { eapply do_hact_good; [exact I | exact H1 | exact H2 | | exact D].
    intros st Hs. unfold act_states_ok in S. rewrite Hs in S. now apply andb_prop in S as [S _]. }
  destruct (send_if (is_toh (a_s a)) s2 (option_map (fun r => mkO h 2 v1 from target (r_rem r) (r_idx r)) (rec_of s2 h from)))
    as [s2' sendH] eqn:SE.
  simpl. eapply good_trans; [exact G |].
  pose proof (send_if_good ns (is_toh (a_s a)) s2
                (option_map (fun r => mkO h 2 v1 from target (r_rem r) (r_idx r)) (rec_of s2 h from)) (proj1 G)) as G2.
  now rewrite SE in G2.
Qed.

Lemma step_request_good ns s h th v1 from target init cs :
  Inv ns s -> tun s h = Some th ->
  (ns = true -> ~ In target (t_addrs th) /\
                forall p tp, primary s target = Some p -> tun s p = Some tp -> ~ In from (t_addrs tp)) ->
  good ns s (fst (fst (step_request s h th v1 from target init cs))).
Proof.
  intros I E W. unfold step_request.
  destruct (req_decide (qrow_of s th v1 from target init)) as [a|] eqn:D; [| simpl; now apply good_refl].
  destruct (req_row_facts _ _ D) as (S & FP & FH & PA). simpl in FP, FH.
  (* the arrival tunnel's record *)
  assert (HH : forall s1, good ns s s1 ->
               (forall ty st, a_h a = HCreate ty st -> ty = TFwd ->
                              s_am s = true /\ is_me s1 (if is_me s target then from else target) = false) /\
               (forall ty st, a_h a = HCreate ty st -> ns = true -> ty = TFwd ->
                              forall t, tun s1 h = Some t -> ~ In (if is_me s target then from else target) (t_addrs t))).
  { intros s1 G. split.
    - intros ty st Hh Ty. destruct (FH ty st Hh Ty) as [F1 F2]. split; [exact F1 |].
      rewrite (good_me _ _ _ _ G). rewrite F2. exact F2.
    - intros ty st Hh Hns Ty t Et. destruct (FH ty st Hh Ty) as [F1 F2]. rewrite F2.
      destruct (good_tun _ _ _ _ _ G E) as [t' [Et' A]]. rewrite Et in Et'. inversion Et'; subst t'. rewrite A.
      apply (W Hns). }
  destruct (primary s target) as [p|] eqn:Pr.
  - destruct (do_pact (a_p a) p from (s_am s) (GTargetLeg h) cs s) as [[s1 cs1]|] eqn:DP.
    2:{ simpl. now apply good_refl. }
    assert (G1 : good ns s s1).
    { eapply do_pact_good; [exact I | | | | | exact DP].
      - intros ty st Hp Ty. destruct (FP ty st Hp Ty) as [F1 F2]. auto.
      - intros ty st Hp Hns Ty t Et. destruct (W Hns) as [_ W2]. eapply W2; eauto.
      - intros st Hs. unfold act_states_ok in S. rewrite Hs in S. now apply andb_prop in S as [_ S].
      - intros ty st Hp t Et. destruct (PA ty st Hp) as [v Qp]. unfold qrow_of in Qp. cbn [q_peer] in Qp. rewrite Pr, Et in Qp. inversion Qp as [[Hv Hrel]].
        destruct (rec_by_addr (t_recs t) from); [discriminate | reflexivity]. }
    destruct (send_if (is_top (a_s a)) s1 (option_map (fun r => mkO p 1 v1 (addr0 th) target (r_idx r) 0) (rec_of s1 p from)))
      as [s1' sendP] eqn:SE.
    assert (G2 : good ns s s1').
    { eapply good_trans; [exact G1 |].
      pose proof (send_if_good ns (is_top (a_s a)) s1
                    (option_map (fun r => mkO p 1 v1 (addr0 th) target (r_idx r) 0) (rec_of s1 p from)) (proj1 G1)) as G.
      now rewrite SE in G. }
    eapply good_trans; [exact G2 |].
    destruct (HH s1' G2) as [K1 K2].
    apply request_tail_good; [exact (proj1 G2) | exact K1 | exact K2 | exact S].
  - destruct (HH s (good_refl ns s I)) as [K1 K2].
    apply request_tail_good; [exact I | exact K1 | exact K2 | exact S].
Qed.

Lemma step_response_good ns s h th v1 to init resp :
  Inv ns s -> good ns s (fst (fst (step_response s h th v1 to init resp))).
Proof.
  intros I. unfold step_response.
  destruct (resp_decide (xrow_of s h th v1 to init resp)) as [a|] eqn:D; [| simpl; now apply good_refl].
  assert (S : act_states_ok a = true).
  { assert (F : xfeasible (xrow_of s h th v1 to init resp) = true).
    { unfold xrow_of. destruct (rec_by_idx (t_recs th) init) as [r|]; [| now destruct v1].
      destruct (primary s (r_peer r)); [| now destruct v1].
      destruct (tun (complete_by_idx h init resp s) n) as [tp|]; [| now destruct v1].
      unfold encf_of. destruct v1; [destruct (is4 (addr0 tp)) |]; reflexivity. }
    destruct (xall_spec _ tab_resp_states _ F) as [a1 [D1 S1]]. rewrite D in D1. now inversion D1; subst. }
  set (s1 := match a_h a with
             | HComplete => complete_by_idx h init resp s
             | HSet st => set_state_by_idx h init st s
             | _ => s
             end).
  assert (G1 : good ns s s1).
  { unfold s1. destruct (a_h a) as [|st| |ty st] eqn:Ha; try (now apply good_refl).
    - apply good_frame; [exact I |]. apply frame_set_state_by_idx; [apply msg_ok_refl |].
      intros x. apply st_re_msg_ok. unfold act_states_ok in S. rewrite Ha in S. now apply andb_prop in S as [S _].
    - apply good_frame; [exact I |]. apply frame_complete_by_idx; [apply msg_ok_refl | intros x; right; now right]. }
  destruct (rec_by_idx (t_recs th) init) as [r|]; [| exact G1].
  destruct (primary s (r_peer r)) as [p|]; [| exact G1].
  set (s2 := match a_p a with PSet st => set_state_by_addr p to st s1 | _ => s1 end).
  assert (G2 : good ns s s2).
  { eapply good_trans; [exact G1 |]. unfold s2. destruct (a_p a) as [|st|ty st] eqn:Hp; try (apply good_refl; exact (proj1 G1)).
    apply good_frame; [exact (proj1 G1) |]. apply frame_set_state_by_addr; [apply msg_ok_refl |].
    intros x. apply st_re_msg_ok. unfold act_states_ok in S. rewrite Hp in S. now apply andb_prop in S as [_ S]. }
  match goal with |- context [send_if ?c ?st ?m] => destruct (send_if c st m) as [s3 snd3] eqn:SE;
    pose proof (send_if_good ns c st m (proj1 G2)) as G3; rewrite SE in G3 end.
  simpl. eapply good_trans; [exact G2 | exact G3].
Qed.

Lemma control_step_good ns s h w cs :
  Inv ns s -> (ns = true -> wf_op s (OMsg h w cs) = true) -> good ns s (fst (fst (control_step s h w cs))).
Proof.
  intros I W. unfold control_step. destruct (tun s h) as [th|] eqn:E; [| simpl; now apply good_refl].
  destruct (decode w) as [[[v1 from] to]|] eqn:Dc; [| simpl; now apply good_refl].
  destruct (w_typ w =? 1) eqn:T1.
  - apply step_request_good; [exact I | exact E |]. intros Hns. specialize (W Hns). simpl in W.
    rewrite Dc, E, T1 in W. apply andb_prop in W as [W1 W2]. split.
    + apply negb_true_iff in W1. now apply memN_false.
    + intros p tp Pp Ep. rewrite Pp, Ep in W2. apply negb_true_iff in W2. now apply memN_false.
  - destruct (w_typ w =? 2); [apply step_response_good; exact I | simpl; now apply good_refl].
Qed.

(* StartRelays only creates terminal records and puts a Disestablished one back to Requested *)
Lemma start_relays_good ns s relay vpn cs : Inv ns s -> good ns s (fst (fst (start_relays s relay vpn cs))).
Proof.
  intros I. unfold start_relays. destruct (s_am s); [simpl; now apply good_refl |].
  destruct ((relay =? vpn) || is_me s relay); [simpl; now apply good_refl |].
  destruct (primary s relay) as [rh|]; [| simpl; now apply good_refl].
  destruct (tun s rh) as [t|] eqn:E; [| simpl; now apply good_refl].
  destruct (negb (t_valid t)); [simpl; now apply good_refl |].
  destruct (rec_by_addr (t_recs t) vpn) as [r|] eqn:Rb.
  - destruct (r_st r); simpl; try (now apply good_refl).
    apply good_frame; [exact I |]. apply frame_set_state_by_addr; [apply msg_ok_refl | intros x; right; now left].
  - destruct (add_relay rh vpn 0 TTerm SReq false GStart cs s) as [[s1 [i|]] cs1] eqn:A; simpl; [| now apply good_refl].
    eapply add_relay_good; [exact I | | | | exact A]; try (intros; discriminate).
    intros t0 E0. rewrite E in E0. now inversion E0; subst.
Qed.


(* ---- one step, any operation ----------------------------------------------------------------------------------------- *)

(* what each kind of operation may do to the state of a record that exists before it *)
Definition op_ok (o : op) (a b : rstate) : Prop :=
  match o with
  | OMsg _ _ _ => msg_ok a b                                (* a control message: into Requested / Established *)
  | OStart _ _ _ => a = b \/ (a = SDis /\ b = SReq)          (* StartRelays re-requests a disestablished relay *)
  | ODel _ | OAdd _ _ _ _ _ => to_dis a b                   (* a tunnel went away (deleted / retired by the per-address cap) *)
  | OSetAm _ | OVia _ _ => a = b
  end.

Lemma NoDup_map_inj {A B} (f : A -> B) l a b : NoDup (map f l) -> In a l -> In b l -> f a = f b -> a = b.
Proof.
  induction l as [|x l IH]; simpl; intros ND Ha Hb E; [tauto |].
  inversion ND as [|? ? Hx ND']; subst.
  destruct Ha as [->|Ha], Hb as [->|Hb]; auto.
  - exfalso. apply Hx. rewrite E. now apply in_map.
  - exfalso. apply Hx. rewrite <- E. now apply in_map.
Qed.

Lemma start_relays_evolve ns s relay vpn cs :
  Inv ns s -> evolve (fun a b => a = b \/ (a = SDis /\ b = SReq)) s (fst (fst (start_relays s relay vpn cs))).
Proof.
  set (P := fun a b : rstate => a = b \/ (a = SDis /\ b = SReq)).
  assert (R : forall a, P a a) by (intros; now left).
  intros I. unfold start_relays. destruct (s_am s); [simpl; now apply evolve_refl |].
  destruct ((relay =? vpn) || is_me s relay); [simpl; now apply evolve_refl |].
  destruct (primary s relay) as [rh|]; [| simpl; now apply evolve_refl].
  destruct (tun s rh) as [t|] eqn:E; [| simpl; now apply evolve_refl].
  destruct (negb (t_valid t)); [simpl; now apply evolve_refl |].
  destruct (rec_by_addr (t_recs t) vpn) as [r|] eqn:Rb.
  - destruct (r_st r) eqn:St; simpl; try (now apply evolve_refl).
    apply rec_by_addr_some in Rb as [Inr Pr].
    apply frame_evolve. unfold set_state_by_addr, map_recs. rewrite E.
    eapply frame_with_tun; [exact R | exact E |]. repeat split. simpl.
    (* one record per peer address: the record keyed vpn is the Disestablished one *)
    assert (U : forall r', In r' (t_recs t) -> r_peer r' = vpn -> r' = r).
    { intros r' Hr' Pr'. eapply NoDup_map_inj; [apply (inv_uniq _ _ I rh t E) | exact Hr' | exact Inr | congruence]. }
    clear Inr. induction (t_recs t) as [|y l IH]; simpl; constructor.
    + destruct (r_peer y =? vpn) eqn:K.
      * apply N.eqb_eq in K. rewrite (U y (or_introl eq_refl) K). split; [repeat split |]. simpl. right. auto.
      * split; [apply rec_static_refl | apply R].
    + apply IH. intros r' Hr'. apply U. now right.
  - destruct (add_relay rh vpn 0 TTerm SReq false GStart cs s) as [[s1 [i|]] cs1] eqn:A; simpl; [| now apply evolve_refl].
    assert (Hab : forall t0, tun s rh = Some t0 -> rec_by_addr (t_recs t0) vpn = None).
    { intros t0 E0. rewrite E in E0. now inversion E0; subst. }
    destruct (add_relay_spec ns s rh vpn 0 TTerm SReq false GStart cs s1 (Some i) cs1 I
                (fun H => ltac:(discriminate)) (fun _ H => ltac:(discriminate)) Hab A) as [_ [_ Ad]].
    eapply added_evolve; [exact R | exact Ad].
Qed.

Lemma step_spec ns s o :
  Inv ns s -> (ns = true -> wf_op s o = true) ->
  Inv ns (step_state s o) /\ evolve (op_ok o) s (step_state s o).
Proof.
  intros I W. unfold step_state. destruct o as [id addrs local valid v1 | id | b | h w cs | relay vpn cs | h ip]; simpl.
  - destruct (add_tunnel_spec ns s id addrs local valid v1 I) as (J & Ev & _). auto.
  - destruct (delete_tunnel_spec ns s id I) as (J & Ev & _). auto.
  - split; [now apply Inv_with_am | apply evolve_same_tun; auto; intros a; reflexivity].
  - destruct (control_step_good ns s h w cs I W) as (J & Ev & _). auto.
  - split; [exact (proj1 (start_relays_good ns s relay vpn cs I)) | now apply (start_relays_evolve ns)].
  - pose proof (insert_via_frame s h ip) as F. split; [eapply Inv_frame; eauto | now apply frame_evolve].
Qed.

(* ---- reachable states ---------------------------------------------------------------------------------------------------- *)

Inductive reach (me : list N) (am : bool) : state -> Prop :=
| reach_init : reach me am (init me am)
| reach_step s o : reach me am s -> reach me am (step_state s o).

(* histories in which no tunnel asks for a relay to one of its own addresses *)
Inductive reach_wf (me : list N) (am : bool) : state -> Prop :=
| reach_wf_init : reach_wf me am (init me am)
| reach_wf_step s o : reach_wf me am s -> wf_op s o = true -> reach_wf me am (step_state s o).

Lemma reach_run_from me am s ops : reach me am s -> reach me am (run s ops).
Proof.
  revert s. induction ops as [|o ops IH]; intros s H; simpl; [exact H |].
  apply IH. now constructor.
Qed.

Lemma reach_run me am ops : reach me am (run (init me am) ops).
Proof. apply reach_run_from. constructor. Qed.

Lemma reach_is_run me am s : reach me am s -> exists ops, s = run (init me am) ops.
Proof.
  induction 1 as [|s o H [ops IH]].
  - exists []. reflexivity.
  - exists (ops ++ [o]). unfold run. rewrite fold_left_app. simpl. now rewrite IH.
Qed.

Lemma reach_inv me am s : reach me am s -> Inv false s.
Proof.
  induction 1 as [|s o H IH]; [apply Inv_init |].
  apply (step_spec false s o IH). discriminate.
Qed.

Lemma reach_wf_inv me am s : reach_wf me am s -> Inv true s.
Proof.
  induction 1 as [|s o H IH Wf]; [apply Inv_init |].
  apply (step_spec true s o IH). auto.
Qed.

Lemma reach_wf_reach me am s : reach_wf me am s -> reach me am s.
Proof. induction 1; now constructor. Qed.

Lemma reach_me me am s : reach me am s -> s_me s = me.
Proof.
  induction 1 as [|s o H IH]; [reflexivity |].
  destruct (step_spec false s o (reach_inv _ _ _ H) ltac:(discriminate)) as [_ [M _]]. congruence.
Qed.

(* executable form of "the whole history is well formed" *)
Fixpoint wf_run (s : state) (ops : list op) : bool :=
  match ops with
  | [] => true
  | o :: r => wf_op s o && wf_run (step_state s o) r
  end.

Lemma reach_wf_run me am ops : forall s, reach_wf me am s -> wf_run s ops = true -> reach_wf me am (run s ops).
Proof.
  induction ops as [|o ops IH]; intros s R W; simpl in *; [exact R |].
  apply andb_prop in W as [W1 W2]. apply IH; [now constructor | exact W2].
Qed.

(* Static hosts: no sequence of tunnel closes (DeleteVpnAddrs), lighthouse answers (query replies, host updates,
   punch notifications), roaming packets, wrong-host blocks, keepalive punches or reads changes what a static host
   was configured with: its addrMap entry, the resolver-result set (the configured addresses), the entries stored
   under the node's own key and the vpn addresses its filter is evaluated for all stay as they were at start-up. *)
From Coq Require Import List NArith Bool Lia.
Import ListNotations.
From NV Require Import gen.Consts_RemoteList model.RemoteList model.RemotesAdmit
  proofs.RemoteList_order proofs.RemoteList_sort proofs.RemoteList_rebuild proofs.RemotesAdmit_inv proofs.RemotesAdmit_hist.
Open Scope N_scope.

(* ---- addrMap ---- *)
Lemma mget_mset_same m a id : mget (mset m a id) a = Some id.
Proof.
  induction m as [|[k v] t IH]; cbn [mset mget]; [now rewrite addr_eqb_refl|].
  destruct (addr_eqb k a) eqn:E; cbn [mget]; rewrite E; [reflexivity|exact IH].
Qed.

Lemma mget_mset_other m a b id : a <> b -> mget (mset m a id) b = mget m b.
Proof.
  intros N. induction m as [|[k v] t IH]; cbn [mset mget].
  - destruct (addr_eqb a b) eqn:E; [apply addr_eqb_eq in E; contradiction|reflexivity].
  - destruct (addr_eqb k a) eqn:E; cbn [mget].
    + apply addr_eqb_eq in E. subst k. destruct (addr_eqb a b) eqn:E2; [apply addr_eqb_eq in E2; contradiction|reflexivity].
    + destruct (addr_eqb k b); [reflexivity|exact IH].
Qed.

Lemma mget_mdel_other m a b : a <> b -> mget (mdel m a) b = mget m b.
Proof.
  intros N. unfold mdel. induction m as [|[k v] t IH]; cbn [filter mget fst]; [reflexivity|].
  destruct (addr_eqb k a) eqn:E; cbn [negb mget].
  - apply addr_eqb_eq in E. subst k. destruct (addr_eqb a b) eqn:E2; [apply addr_eqb_eq in E2; contradiction|exact IH].
  - destruct (addr_eqb k b); [reflexivity|exact IH].
Qed.

Lemma first_known_none m all : first_known m all = None -> forall a, In a all -> mget m a = None.
Proof.
  induction all as [|x r IH]; cbn [first_known]; [intros _ a []|].
  destruct (mget m x) eqn:E; [discriminate|]. intros H a [<-|Ha]; [exact E|now apply IH].
Qed.

Lemma fold_mset_other all : forall m k id, ~ In k all -> mget (fold_left (fun m a => mset m a id) all m) k = mget m k.
Proof.
  induction all as [|x r IH]; intros m k id N; cbn [fold_left]; [reflexivity|].
  rewrite IH by (intros H; apply N; now right). apply mget_mset_other. intros ->. apply N. now left.
Qed.

Lemma fold_mset_head r : forall m a0 id, mget (fold_left (fun m a => mset m a id) r (mset m a0 id)) a0 = Some id.
Proof.
  induction r as [|x r IH]; intros m a0 id; cbn [fold_left]; [apply mget_mset_same|].
  destruct (addr_eqb x a0) eqn:E.
  - apply addr_eqb_eq in E. subst x.
    assert (X : forall m', mget m' a0 = Some id -> mget (fold_left (fun m a => mset m a id) r (mset m' a0 id)) a0 = Some id) by (intros; apply IH).
    apply X. apply mget_mset_same.
  - assert (N : x <> a0) by (intros ->; rewrite addr_eqb_refl in E; discriminate).
    clear IH. revert m. induction r as [|y r IH2]; intros m; cbn [fold_left].
    + rewrite mget_mset_other by exact N. apply mget_mset_same.
    + destruct (addr_eqb y a0) eqn:E2.
      * apply addr_eqb_eq in E2. subst y.
        assert (G : forall r' m', mget m' a0 = Some id -> mget (fold_left (fun m a => mset m a id) r' m') a0 = Some id).
        { induction r' as [|z r' IH3]; intros m' H; cbn [fold_left]; [exact H|]. apply IH3.
          destruct (addr_eqb z a0) eqn:E3; [apply addr_eqb_eq in E3; subst z; apply mget_mset_same|].
          rewrite mget_mset_other; [exact H|]. intros ->. rewrite addr_eqb_refl in E3. discriminate. }
        apply G. apply mget_mset_same.
      * assert (G : forall r' m', mget m' a0 = Some id -> mget (fold_left (fun m a => mset m a id) r' m') a0 = Some id).
        { induction r' as [|z r' IH3]; intros m' H; cbn [fold_left]; [exact H|]. apply IH3.
          destruct (addr_eqb z a0) eqn:E3; [apply addr_eqb_eq in E3; subst z; apply mget_mset_same|].
          rewrite mget_mset_other; [exact H|]. intros ->. rewrite addr_eqb_refl in E3. discriminate. }
        apply G. rewrite mget_mset_other by (intros ->; rewrite addr_eqb_refl in E2; discriminate).
        rewrite mget_mset_other by exact N. apply mget_mset_same.
Qed.

(* a key that is registered keeps its list through unlockedGetRemoteList *)
Lemma grl_mget_keep s all k i : mget (lh_map s) k = Some i -> mget (lh_map (fst (get_remote_list s all))) k = Some i.
Proof.
  intros H. unfold get_remote_list. destruct (first_known (lh_map s) all) as [id|] eqn:F; cbn [fst lh_map].
  - destruct all as [|a0 r]; [exact H|]. destruct (addr_eqb a0 k) eqn:E.
    + apply addr_eqb_eq in E. subst a0. cbn [first_known] in F. rewrite H in F. injection F as <-. apply mget_mset_same.
    + rewrite mget_mset_other; [exact H|]. intros ->. rewrite addr_eqb_refl in E. discriminate.
  - rewrite fold_mset_other; [exact H|]. intros Hin. rewrite (first_known_none _ _ F k Hin) in H. discriminate.
Qed.

Lemma grl_mget_head s a0 r : mget (lh_map (fst (get_remote_list s (a0 :: r)))) a0 = Some (snd (get_remote_list s (a0 :: r))).
Proof.
  unfold get_remote_list. destruct (first_known (lh_map s) (a0 :: r)) as [id|] eqn:F; cbn [fst snd lh_map].
  - apply mget_mset_same.
  - cbn [fold_left]. apply fold_mset_head.
Qed.

(* ---- the list table ---- *)
Lemma lget_lupd l id id' f : lget (lupd l id' f) id = if id =? id' then option_map f (lget l id) else lget l id.
Proof.
  induction l as [|[k v] t IH]; cbn [lupd lget]; [now destruct (id =? id')|].
  destruct (k =? id') eqn:E; cbn [lget].
  - apply N.eqb_eq in E. subst k. destruct (id' =? id) eqn:E2.
    + apply N.eqb_eq in E2. subst id. now rewrite N.eqb_refl.
    + rewrite N.eqb_sym, E2. reflexivity.
  - destruct (k =? id) eqn:E2; [|exact IH].
    apply N.eqb_eq in E2. subst k. rewrite E. reflexivity.
Qed.

Lemma lget_app l x id r : lget l id = Some r -> lget (l ++ x) id = Some r.
Proof.
  induction l as [|[k v] t IH]; cbn [lget app]; [discriminate|]. destruct (k =? id); [tauto|exact IH].
Qed.

Section Static.
  Variable c : config.
  Notation adm := (adm c).
  Notation chk := (chk c).
  Notation self := (cfg_self c).

  (* what a static host was configured with *)
  Definition sig (r : lrec) : ocache * list ap * list addr := (cget (rl_cache (snd r)) self, rl_dns (snd r), rl_vpn (snd r)).

  Definition ext (l l' : list (N * lrec)) : Prop :=
    forall id r, lget l id = Some r -> exists r', lget l' id = Some r' /\ sig r' = sig r.

  Lemma ext_refl l : ext l l.
  Proof. intros id r H. now exists r. Qed.

  Lemma ext_trans l1 l2 l3 : ext l1 l2 -> ext l2 l3 -> ext l1 l3.
  Proof.
    intros A B id r H. destruct (A id r H) as (r' & H1 & H2). destruct (B id r' H1) as (r'' & H3 & H4).
    exists r''. split; [exact H3|congruence].
  Qed.

  Lemma ext_lupd l id f : (forall r, sig (f r) = sig r) -> ext l (lupd l id f).
  Proof.
    intros Hf i r H. rewrite lget_lupd. destruct (i =? id); [|now exists r].
    rewrite H. cbn [option_map]. exists (f r). split; [reflexivity|apply Hf].
  Qed.

  Lemma ext_app l x : ext l (l ++ x).
  Proof. intros id r H. exists r. split; [now apply lget_app|reflexivity]. Qed.

  Lemma ext_grl s all : ext (lh_lists s) (lh_lists (fst (get_remote_list s all))).
  Proof.
    unfold get_remote_list. destruct (first_known (lh_map s) all); cbn [fst lh_lists]; [|apply ext_app].
    apply ext_lupd. intros r. reflexivity.
  Qed.

  (* the RemoteList operations that leave the configured part alone *)
  Definition rop_keeps (o : rop) : Prop :=
    match o with
    | RLearn ow _ | RSet4 ow _ _ | RSet6 ow _ _ | RRelay ow _ => ow <> self
    | RBlock _ | RRebuild _ => True
    | _ => False
    end.

  Lemma cget_cupd_other cch ow f : ow <> self -> cget (cupd cch ow f) self = cget cch self.
  Proof.
    intros N. induction cch as [|[k v] t IH]; cbn [cupd cget].
    - destruct (addr_eqb ow self) eqn:E; [apply addr_eqb_eq in E; contradiction|reflexivity].
    - destruct (addr_eqb k ow) eqn:E; cbn [cget].
      + apply addr_eqb_eq in E. subst k. destruct (addr_eqb ow self) eqn:E2; [apply addr_eqb_eq in E2; contradiction|reflexivity].
      + destruct (addr_eqb k self); [reflexivity|exact IH].
  Qed.

  Lemma rstep_keeps p L o : rop_keeps o -> sig (p, rstep adm chk L o) = sig (p, L).
  Proof.
    intros H. unfold sig. destruct o; cbn [rop_keeps] in H; try contradiction; cbn [rstep snd].
    - destruct (is4 a); cbn [with_cache rl_cache rl_dns rl_vpn]; now rewrite cget_cupd_other.
    - cbn [with_cache rl_cache rl_dns rl_vpn]. now rewrite cget_cupd_other.
    - cbn [with_cache rl_cache rl_dns rl_vpn]. now rewrite cget_cupd_other.
    - cbn [with_cache rl_cache rl_dns rl_vpn]. now rewrite cget_cupd_other.
    - destruct (is_bad (rl_bad L) a); reflexivity.
    - reflexivity.
  Qed.

  Lemma rrun_keeps ops : forall p L, Forall rop_keeps ops -> sig (p, rrun adm chk L ops) = sig (p, L).
  Proof.
    induction ops as [|o r IH]; intros p L H; cbn [rrun fold_left]; [reflexivity|].
    inversion H as [|? ? Ho Hr]; subst. fold (rrun adm chk (rstep adm chk L o) r). rewrite (IH p _ Hr). now apply rstep_keeps.
  Qed.

  Lemma ext_on_list s id ops : Forall rop_keeps ops -> ext (lh_lists s) (lh_lists (on_list c s id ops)).
  Proof.
    intros H. unfold on_list. cbn [lh_lists]. apply ext_lupd. intros [p L]. cbn [fst snd]. now apply rrun_keeps.
  Qed.

  (* the operations of the theorem: senders are peers (a peer never carries the node's own address: self-handshakes
     are refused), no handshake completion and no calculated remotes *)
  Definition keeps_op (o : lop) : Prop :=
    match o with
    | LQueryReply from _ _ _ _ _ _ | LUpdate from _ _ _ _ _ _ => match from with f0 :: _ => f0 <> self | [] => True end
    | LLearn vpns _ => match vpns with v0 :: _ => v0 <> self | [] => True end
    | LCalc _ | LDone _ => False
    | _ => True
    end.

  Definition kept (s s' : lh) : Prop :=
    ext (lh_lists s) (lh_lists s') /\
    forall k i, is_static c k = true -> mget (lh_map s) k = Some i -> mget (lh_map s') k = Some i.

  Lemma kept_refl s : kept s s.
  Proof. split; [apply ext_refl|auto]. Qed.

  Lemma kept_trans s1 s2 s3 : kept s1 s2 -> kept s2 s3 -> kept s1 s3.
  Proof. intros [A B] [C D]. split; [eapply ext_trans; eassumption|]. intros k i Hs H. apply D; [exact Hs|]. now apply B. Qed.

  Lemma kept_grl_on s all ops :
    Forall rop_keeps ops ->
    kept s (on_list c (fst (get_remote_list s all)) (snd (get_remote_list s all)) ops).
  Proof.
    intros H. split.
    - eapply ext_trans; [apply ext_grl|apply ext_on_list, H].
    - intros k i _ Hk. unfold on_list. cbn [lh_map]. now apply grl_mget_keep.
  Qed.

  Lemma kept_grl s all : kept s (fst (get_remote_list s all)).
  Proof. split; [apply ext_grl|]. intros k i _ Hk. now apply grl_mget_keep. Qed.

  Lemma fold_del_keep vpns id : forall m k i,
    ~ In k vpns -> mget m k = Some i ->
    mget (fold_left (fun m a => match mget m a with Some j => if j =? id then mdel m a else m | None => m end) vpns m) k = Some i.
  Proof.
    induction vpns as [|x r IH]; intros m k i N H; cbn [fold_left]; [exact H|].
    apply IH; [intros Hin; apply N; now right|].
    destruct (mget m x) as [j|]; [|exact H]. destruct (j =? id); [|exact H].
    rewrite mget_mdel_other; [exact H|]. intros ->. apply N. now left.
  Qed.

  Lemma kept_lstep s o : keeps_op o -> kept s (fst (lstep c s o)).
  Proof.
    intros K. destruct o; cbn [keeps_op] in K; try contradiction; cbn [lstep].
    - (* LQueryReply *)
      destruct from as [|f0 fr]; [apply kept_refl|]. destruct (details old vpn) as [d|]; [|apply kept_refl].
      destruct (any_lighthouse c (f0 :: fr)); [|apply kept_refl].
      pose proof (kept_grl_on s [d] [RSet4 f0 d v4; RSet6 f0 d v6; RRelay f0 (relays_in orel rel)]) as X.
      destruct (get_remote_list s [d]) as [s1 id]. cbn [fst snd] in *. apply X. repeat constructor; exact K.
    - (* LUpdate *)
      destruct from as [|f0 fr]; [apply kept_refl|].
      destruct (cfg_am_lh c && match details old vpn with Some d => mem_addr d (f0 :: fr) | None => true end); [|apply kept_refl].
      pose proof (kept_grl_on s (f0 :: fr) [RSet4 f0 f0 v4; RSet6 f0 f0 v6; RRelay f0 (relays_in orel rel)]) as X.
      destruct (get_remote_list s (f0 :: fr)) as [s1 id]. cbn [fst snd] in *. apply X. repeat constructor; exact K.
    - (* LPunch *)
      destruct (details old vpn); [destruct (any_lighthouse c from)|]; apply kept_refl.
    - (* LPunchAll *)
      destruct vpns as [|v0 vr]; [apply kept_refl|].
      pose proof (kept_grl_on s (v0 :: vr) [RRebuild pref]) as X. pose proof (kept_grl s (v0 :: vr)) as Y.
      destruct (get_remote_list s (v0 :: vr)) as [s1 id]. cbn [fst snd] in *.
      destruct (any_lighthouse c (v0 :: vr)); cbn [fst]; [exact Y|apply X; repeat constructor].
    - (* LDelete *)
      destruct vpns as [|v0 vr]; [apply kept_refl|]. destruct (existsb (is_static c) (v0 :: vr)) eqn:Es; [apply kept_refl|].
      destruct (mget (lh_map s) v0) as [id|]; [|apply kept_refl]. cbn [fst]. split; [apply ext_refl|].
      intros k i Hs Hk. cbn [lh_map]. apply fold_del_keep; [|exact Hk].
      intros Hin. assert (X : existsb (is_static c) (v0 :: vr) = true) by (apply existsb_exists; exists k; split; assumption).
      congruence.
    - (* LLearn *)
      destruct vpns as [|v0 vr]; [apply kept_refl|]. destruct (in_my c (ap_addr src)); [apply kept_refl|].
      pose proof (kept_grl_on s (v0 :: vr) [RLearn v0 src]) as X. pose proof (kept_grl s (v0 :: vr)) as Y.
      destruct (get_remote_list s (v0 :: vr)) as [s1 id]. cbn [fst snd] in *.
      destruct (ral_allow_all c (v0 :: vr) (ap_addr src)); cbn [fst]; [apply X; repeat constructor; exact K|exact Y].
    - (* LBlock *)
      pose proof (kept_grl_on s [vpn] [RBlock a]) as X.
      destruct (get_remote_list s [vpn]) as [s1 id]. cbn [fst snd] in *. apply X. repeat constructor.
    - (* LCopy *)
      destruct (mget (lh_map s) vpn) as [id|]; [|apply kept_refl]. cbn [fst]. split; [|auto].
      apply ext_on_list. repeat constructor.
    - (* LHsCheck *) apply kept_refl.
  Qed.

  Lemma kept_lrun ops : forall s, Forall keeps_op ops -> kept s (lrun c s ops).
  Proof.
    induction ops as [|o r IH]; intros s H; cbn [lrun fold_left]; [apply kept_refl|].
    inversion H as [|? ? Ho Hr]; subst. eapply kept_trans; [apply kept_lstep, Ho|apply (IH _ Hr)].
  Qed.

  (* ---- every static host is registered at start-up, with a list ---- *)
  Definition map_ok (s : lh) : Prop := forall k id, mget (lh_map s) k = Some id -> exists r, lget (lh_lists s) id = Some r.

  Lemma lget_lupd_some l id id' f r : lget l id = Some r -> exists r', lget (lupd l id' f) id = Some r'.
  Proof. intros H. rewrite lget_lupd, H. destruct (id =? id'); eexists; reflexivity. Qed.

  Lemma lget_app_last l id (r : lrec) : exists r', lget (l ++ [(id, r)]) id = Some r'.
  Proof.
    induction l as [|[k v] t IH]; cbn [app lget]; [rewrite N.eqb_refl; now eexists|].
    destruct (k =? id); [now eexists|exact IH].
  Qed.

  Lemma fold_mset_cases all : forall m k id j, mget (fold_left (fun m a => mset m a id) all m) k = Some j -> j = id \/ mget m k = Some j.
  Proof.
    induction all as [|x r IH]; intros m k id j H; cbn [fold_left] in H; [now right|].
    destruct (IH _ _ _ _ H) as [E|E]; [now left|].
    destruct (addr_eqb x k) eqn:Ex.
    - apply addr_eqb_eq in Ex. subst x. rewrite mget_mset_same in E. left. congruence.
    - rewrite mget_mset_other in E; [now right|]. intros ->. rewrite addr_eqb_refl in Ex. discriminate.
  Qed.

  Lemma first_known_valid m all id : first_known m all = Some id -> exists a, mget m a = Some id.
  Proof.
    induction all as [|x r IH]; cbn [first_known]; [discriminate|].
    destruct (mget m x) eqn:E; [intros [= <-]; now exists x|exact IH].
  Qed.

  Lemma map_ok_grl s all : map_ok s -> map_ok (fst (get_remote_list s all)).
  Proof.
    intros M. unfold get_remote_list. destruct (first_known (lh_map s) all) as [id|] eqn:F; cbn [fst]; intros k j H; cbn [lh_map lh_lists] in *.
    - assert (V : exists r, lget (lh_lists s) j = Some r).
      { destruct all as [|a0 r]; [now apply (M k)|]. destruct (addr_eqb a0 k) eqn:E.
        - apply addr_eqb_eq in E. subst a0. rewrite mget_mset_same in H. injection H as <-.
          destruct (first_known_valid _ _ _ F) as (a & Ha). now apply (M a).
        - rewrite mget_mset_other in H; [now apply (M k)|]. intros ->. rewrite addr_eqb_refl in E. discriminate. }
      destruct V as (r & Hr). eapply lget_lupd_some. exact Hr.
    - destruct (fold_mset_cases _ _ _ _ _ H) as [->|H'].
      + apply lget_app_last.
      + destruct (M k j H') as (r & Hr). exists r. now apply lget_app.
  Qed.

  Lemma map_ok_on_list s id ops : map_ok s -> map_ok (on_list c s id ops).
  Proof. intros M k j H. unfold on_list in *. cbn [lh_map lh_lists] in *. destruct (M k j H) as (r & Hr). eapply lget_lupd_some. exact Hr. Qed.

  Lemma init_facts : forall l s, map_ok s ->
    map_ok (fold_left (add_static c) l s) /\
    forall k, (In k (map fst l) \/ mget (lh_map s) k <> None) -> mget (lh_map (fold_left (add_static c) l s)) k <> None.
  Proof.
    induction l as [|e r IH]; intros s M; cbn [fold_left map].
    - split; [exact M|]. intros k [[]|H]. exact H.
    - assert (M1 : map_ok (add_static c s e)).
      { unfold add_static. pose proof (map_ok_grl s [fst e] M) as X. destruct (get_remote_list s [fst e]) as [s1 id].
        cbn [fst] in X. now apply map_ok_on_list. }
      destruct (IH (add_static c s e) M1) as [A B]. split; [exact A|].
      intros k H. apply B. destruct H as [[<-|H]|H]; [right|now left|right].
      + unfold add_static. pose proof (grl_mget_head s (fst e) []) as X.
        destruct (get_remote_list s [fst e]) as [s1 id]. cbn [fst snd] in X. unfold on_list. cbn [lh_map]. rewrite X. discriminate.
      + destruct (mget (lh_map s) k) as [i|] eqn:E; [|contradiction].
        unfold add_static. pose proof (grl_mget_keep s [fst e] k i E) as X.
        destruct (get_remote_list s [fst e]) as [s1 id]. cbn [fst] in X. unfold on_list. cbn [lh_map]. rewrite X. discriminate.
  Qed.

  Theorem static_kept ops S :
    Forall keeps_op ops -> is_static c S = true ->
    exists id r0 r,
      mget (lh_map (lh_init c)) S = Some id /\ mget (lh_map (lrun c (lh_init c) ops)) S = Some id /\
      lget (lh_lists (lh_init c)) id = Some r0 /\ lget (lh_lists (lrun c (lh_init c) ops)) id = Some r /\
      sig r = sig r0.
  Proof.
    intros H Hs.
    assert (M0 : map_ok (mkLH [] [] 0)) by (intros k id E; discriminate).
    destruct (init_facts (cfg_static c) _ M0) as [M R]. fold (lh_init c) in M, R.
    assert (Hin : In S (map fst (cfg_static c))) by (apply mem_addr_in; exact Hs).
    specialize (R S (or_introl Hin)). destruct (mget (lh_map (lh_init c)) S) as [id|] eqn:E; [|contradiction].
    destruct (M S id E) as (r0 & Hr0). destruct (kept_lrun ops (lh_init c) H) as [X Y].
    destruct (X id r0 Hr0) as (r & Hr & Hsig). exists id, r0, r. repeat split; try assumption. now apply Y.
  Qed.

  (* hence every configured address that the filter admits is returned by CopyAddrs unless it is blocked *)
  Theorem static_kept_copy ops id r0 r pref a :
    Forall plain_src ops ->
    lget (lh_lists (lh_init c)) id = Some r0 -> lget (lh_lists (lrun c (lh_init c) ops)) id = Some r -> sig r = sig r0 ->
    In a (rl_dns (snd r0)) -> adm (rl_vpn (snd r0)) (ap_addr a) = true -> ~ In a (rl_bad (snd r)) ->
    In a (copy_addrs adm pref (snd r)).
  Proof.
    intros P _ Hr Hsig Hd Ha Hb.
    destruct (reachable_good c ops P) as [A _]. pose proof (A _ (lget_in _ _ _ Hr)) as I. cbn [snd] in I.
    rewrite (proj2 (copy_ok c r pref I)). apply sort_addrs_in. unfold sources. apply collect_addrs_in.
    unfold sig in Hsig. injection Hsig as _ Hdns Hvpn. split; [|exact Hb]. right. rewrite Hdns, Hvpn. split; assumption.
  Qed.
End Static.

(* Lemmas about model/Reject.v, part 2: the model of CreateRejectPacket equals a bounds-check-free function
   (so it never panics), whose replies satisfy the independent validator, respect the buffer and the documented
   maximum, and which stays silent where it must. *)
From Coq Require Import List NArith ZArith Lia Bool ZifyN ZifyNat ZifyBool.
Import ListNotations.
From NV Require Import lib.Bytes lib.Ones lib.Corr gen.Consts_IpParse gen.Consts_Reject
  model.IpParse model.Reject proofs.IpParse_proofs proofs.Reject_proofs.
Open Scope N_scope.
Local Ltac Zify.zify_post_hook ::= Z.div_mod_to_equations.

(* ---------------------------------------------------------------------------------------------- *)
(** * The pure form *)

Definition v4_icmp_pure (p : list N) (cap : N) : list N :=
  let ihl := N.land (nth 0 p 0) 15 * 4 in
  if blen p <? ihl then [] else
  if (nth 9 p 0 =? 1) && (ihl <? blen p) && is_icmp4_error (nth (N.to_nat ihl) p 0) then [] else
  let plen := N.min (blen p) (ihl + 8) in
  if cap <? 20 + 8 + plen then [] else
  ip4_header (20 + 8 + plen) 1 (slice p 16 4) (slice p 12 4) ++ icmp_unreach 3 13 (slice p 0 (N.to_nat plen)) 0.

Definition v4_tcp_pure (p : list N) (cap : N) : list N :=
  let ihl := N.land (nth 0 p 0) 15 * 4 in
  if blen p <? ihl + 20 then [] else
  if cap <? 40 then [] else
  ip4_header 40 6 (slice p 16 4) (slice p 12 4) ++
  tcp_rst_pure (slice p (N.to_nat ihl) (N.to_nat (blen p - ihl))) (pseudo_sum (slice p 16 4) (slice p 12 4) 6 20).

Definition v6_icmp_pure (p : list N) (cap proto off : N) : list N :=
  if (proto =? 58) && (off <? blen p) && is_icmp6_error (nth (N.to_nat off) p 0) then [] else
  let plen := N.min (blen p) 1000 in
  if cap <? 40 + 8 + plen then [] else
  let payload_len := w16 (40 + 8 + plen - 40) in
  ip6_header payload_len 58 (slice p 24 16) (slice p 8 16) ++
  icmp_unreach 1 1 (slice p 0 (N.to_nat plen)) (pseudo_sum (slice p 24 16) (slice p 8 16) 58 payload_len).

Definition v6_tcp_pure (p : list N) (cap off : N) : list N :=
  if blen p <? off + 20 then [] else
  if cap <? 60 then [] else
  ip6_header 20 6 (slice p 24 16) (slice p 8 16) ++
  tcp_rst_pure (slice p (N.to_nat off) (N.to_nat (blen p - off))) (pseudo_sum (slice p 24 16) (slice p 8 16) 6 20).

Definition v6_reject_pure (p : list N) (cap : N) : list N :=
  match spec_walk p with
  | CDone nh off _ _ n =>
      if (n <=? limit)%nat then (if nh =? 6 then v6_tcp_pure p cap off else v6_icmp_pure p cap nh off) else []
  | _ => []
  end.

Definition create_reject_pure (p : list N) (cap : N) : list N :=
  match p with
  | [] => []
  | b0 :: _ =>
      if b0 / 16 =? 4 then
        if blen p <? 20 then [] else
        if negb (be16_at p 6 mod 8192 =? 0) then [] else
        if nth 9 p 0 =? 6 then v4_tcp_pure p cap else v4_icmp_pure p cap
      else if b0 / 16 =? 6 then
        if blen p <? 40 then [] else v6_reject_pure p cap
      else []
  end.

Lemma v4_icmp_char p cap : 20 <= blen p -> v4_icmp p cap = Ok (v4_icmp_pure p cap).
Proof.
  intros Hl. unfold v4_icmp, v4_icmp_pure. rewrite rd_ok by lia. change (N.to_nat 0) with 0%nat.
  set (ihl := N.land (nth 0 p 0) 15 * 4).
  destruct (blen p <? ihl); [reflexivity|]. rewrite rd_ok by lia. change (N.to_nat 9) with 9%nat.
  assert (Hbuild : forall plen, plen <= blen p ->
    (if cap <? 20 + 8 + plen then Ok []
     else rds p 16 4 (fun dst => rds p 12 4 (fun src => rds p 0 plen (fun body =>
            Ok (ip4_header (20 + 8 + plen) 1 dst src ++ icmp_unreach 3 13 body 0))))) =
    Ok (if cap <? 20 + 8 + plen then []
        else ip4_header (20 + 8 + plen) 1 (slice p 16 4) (slice p 12 4) ++ icmp_unreach 3 13 (slice p 0 (N.to_nat plen)) 0)).
  { intros plen Hp. destruct (cap <? 20 + 8 + plen); [reflexivity|]. rewrite !rds_ok by lia. reflexivity. }
  destruct ((nth 9 p 0 =? 1) && (ihl <? blen p)) eqn:C; cbn [andb].
  - apply andb_true_iff in C as [_ C]. apply N.ltb_lt in C. rewrite rd_ok by lia.
    destruct (is_icmp4_error (nth (N.to_nat ihl) p 0)); [reflexivity|]. apply Hbuild. lia.
  - apply Hbuild. lia.
Qed.

Lemma v4_tcp_char p cap : 20 <= blen p -> v4_tcp p cap = Ok (v4_tcp_pure p cap).
Proof.
  intros Hl. unfold v4_tcp, v4_tcp_pure. rewrite rd_ok by lia. change (N.to_nat 0) with 0%nat.
  set (ihl := N.land (nth 0 p 0) 15 * 4).
  destruct (N.ltb_spec (blen p) (ihl + 20)); [reflexivity|].
  destruct (cap <? 40); [reflexivity|]. rewrite !rds_ok by lia.
  rewrite tcp_rst_char; [reflexivity|].
  unfold blen. rewrite slice_length; unfold blen in *; lia.
Qed.

Lemma v6_icmp_char p cap proto off : 40 <= blen p -> v6_icmp p cap proto off = Ok (v6_icmp_pure p cap proto off).
Proof.
  intros Hl. unfold v6_icmp, v6_icmp_pure.
  assert (Hbuild : forall plen, plen <= blen p ->
    (if cap <? 40 + 8 + plen then Ok []
     else rds p 24 16 (fun dst => rds p 8 16 (fun src => rds p 0 plen (fun body =>
            let payload_len := w16 (40 + 8 + plen - 40) in
            Ok (ip6_header payload_len 58 dst src ++ icmp_unreach 1 1 body (pseudo_sum dst src 58 payload_len)))))) =
    Ok (if cap <? 40 + 8 + plen then []
        else let payload_len := w16 (40 + 8 + plen - 40) in
             ip6_header payload_len 58 (slice p 24 16) (slice p 8 16) ++
             icmp_unreach 1 1 (slice p 0 (N.to_nat plen)) (pseudo_sum (slice p 24 16) (slice p 8 16) 58 payload_len))).
  { intros plen Hp. destruct (cap <? 40 + 8 + plen); [reflexivity|]. rewrite !rds_ok by lia. reflexivity. }
  destruct ((proto =? 58) && (off <? blen p)) eqn:C; cbn [andb].
  - apply andb_true_iff in C as [_ C]. apply N.ltb_lt in C. rewrite rd_ok by lia.
    destruct (is_icmp6_error (nth (N.to_nat off) p 0)); [reflexivity|]. apply Hbuild. lia.
  - apply Hbuild. lia.
Qed.

Lemma v6_tcp_char p cap off : 40 <= blen p -> v6_tcp p cap off = Ok (v6_tcp_pure p cap off).
Proof.
  intros Hl. unfold v6_tcp, v6_tcp_pure.
  destruct (N.ltb_spec (blen p) (off + 20)); [reflexivity|].
  destruct (cap <? 60); [reflexivity|]. rewrite !rds_ok by lia.
  rewrite tcp_rst_char; [reflexivity|].
  unfold blen. rewrite slice_length; unfold blen in *; lia.
Qed.

Lemma v6_reject_char p cap : bytes_ok p = true -> 40 <= blen p -> v6_reject p cap = Ok (v6_reject_pure p cap).
Proof.
  intros Hb Hl. unfold v6_reject, v6_reject_pure. rewrite find_upper_spec by assumption.
  destruct (spec_walk p) as [nh off pl a n|nh off n|]; cbn [walk_of_chain]; [| |reflexivity].
  - destruct (n <=? limit)%nat; [|reflexivity].
    destruct (nh =? 6); [now apply v6_tcp_char|now apply v6_icmp_char].
  - destruct (n <=? limit)%nat; reflexivity.
Qed.

Lemma frag4_cond b6 b7 : b6 < 256 -> b7 < 256 ->
  (negb (N.land b6 31 =? 0) || negb (b7 =? 0)) = negb ((b6 * 256 + b7) mod 8192 =? 0).
Proof.
  intros H6 H7. rewrite land31 by assumption.
  destruct (N.eqb_spec (b6 mod 32) 0), (N.eqb_spec b7 0), (N.eqb_spec ((b6 * 256 + b7) mod 8192) 0); simpl; try reflexivity; lia.
Qed.

Lemma create_reject_char p cap : bytes_ok p = true -> create_reject p cap = Ok (create_reject_pure p cap).
Proof.
  intros Hb. unfold create_reject, create_reject_pure. destruct p as [|b0 r]; [reflexivity|].
  set (p := b0 :: r) in *.
  assert (Hb0 : b0 < 256) by apply (bytes_ok_nth p 0 Hb).
  destruct (N.ltb_spec (blen p) 1) as [H|H]; [unfold blen, p in H; simpl in H; lia|].
  rewrite rd_ok by lia. change (nth (N.to_nat 0) p 0) with b0.
  rewrite version_shift by assumption.
  destruct (b0 / 16 =? 4).
  - destruct (N.ltb_spec (blen p) 20) as [|Hl]; [reflexivity|].
    rewrite !rd_ok by lia. change (N.to_nat 6) with 6%nat. change (N.to_nat 7) with 7%nat. change (N.to_nat 9) with 9%nat.
    rewrite frag4_cond by (apply bytes_ok_nth; assumption). unfold be16_at.
    destruct (negb ((nth 6 p 0 * 256 + nth 7 p 0) mod 8192 =? 0)); [reflexivity|].
    destruct (nth 9 p 0 =? 6); [now apply v4_tcp_char|now apply v4_icmp_char].
  - destruct (b0 / 16 =? 6); [|reflexivity].
    destruct (N.ltb_spec (blen p) 40) as [|Hl]; [reflexivity|]. now apply v6_reject_char.
Qed.

(* ---------------------------------------------------------------------------------------------- *)
(** * Replies are well formed *)

Lemma slice_rest (p : list N) (off : N) : off <= blen p ->
  slice p (N.to_nat off) (N.to_nat (blen p - off)) = skipn (N.to_nat off) p.
Proof.
  intros H. unfold slice. apply firstn_all2. rewrite skipn_length. unfold blen. lia.
Qed.

Lemma bytes4_sum a b c d : bytes_ok [a; b; c; d] = true -> a < 256 /\ b < 256 /\ c < 256 /\ d < 256.
Proof.
  cbn [bytes_ok forallb]. unfold byte_ok. intros H. repeat (apply andb_true_iff in H as [? H]). lia.
Qed.

Lemma max_doc : rej_max_reject_packet_size = 1048.
Proof. reflexivity. Qed.

Lemma andb_intro (a b : bool) : a = true -> b = true -> a && b = true.
Proof. intros -> ->. reflexivity. Qed.

Lemma v4_common p : bytes_ok p = true -> 20 <= blen p ->
  exists s0 s1 s2 s3 d0 d1 d2 d3,
    slice p 12 4 = [s0; s1; s2; s3] /\ slice p 16 4 = [d0; d1; d2; d3] /\
    bytes_ok [s0; s1; s2; s3] = true /\ bytes_ok [d0; d1; d2; d3] = true.
Proof.
  intros Hb Hl. unfold blen in Hl.
  exists (nth 12 p 0), (nth 13 p 0), (nth 14 p 0), (nth 15 p 0), (nth 16 p 0), (nth 17 p 0), (nth 18 p 0), (nth 19 p 0).
  rewrite <- !slice4_nth by lia. repeat split; now apply slice_bytes_ok.
Qed.

Lemma v4_icmp_wf p cap : bytes_ok p = true -> 20 <= blen p -> nth 0 p 0 / 16 = 4 -> (nth 9 p 0 =? 6) = false ->
  v4_icmp_pure p cap <> [] ->
  reply_ok p (v4_icmp_pure p cap) = true /\ blen (v4_icmp_pure p cap) <= cap /\
  blen (v4_icmp_pure p cap) <= rej_max_reject_packet_size.
Proof.
  intros Hb Hl Hv Hp6 Hne. unfold v4_icmp_pure in *.
  assert (Hb0 : nth 0 p 0 < 256) by now apply bytes_ok_nth.
  rewrite land15 in * by assumption.
  replace (nth 0 p 0 mod 16 * 4) with (4 * (nth 0 p 0 mod 16)) in * by lia.
  set (ihl := 4 * (nth 0 p 0 mod 16)) in *.
  destruct (blen p <? ihl); [congruence|].
  destruct ((nth 9 p 0 =? 1) && (ihl <? blen p) && is_icmp4_error (nth (N.to_nat ihl) p 0)); [congruence|].
  set (plen := N.min (blen p) (ihl + 8)) in *.
  destruct (N.ltb_spec cap (20 + 8 + plen)) as [|Hcap]; [congruence|]. clear Hne.
  assert (Hplen : plen <= 68) by (unfold plen, ihl; lia).
  destruct (v4_common p Hb Hl) as (s0 & s1 & s2 & s3 & d0 & d1 & d2 & d3 & Es & Ed & Hs & Hd).
  rewrite Es, Ed.
  set (body := slice p 0 (N.to_nat plen)).
  assert (Hbody : bytes_ok body = true) by now apply slice_bytes_ok.
  assert (Hbl : length body = N.to_nat plen).
  { unfold body. apply slice_length. unfold plen, blen. lia. }
  destruct (ip4_header_ok (20 + 8 + plen) 1 d0 d1 d2 d3 s0 s1 s2 s3) as (c1 & c2 & EH & HbH & HvH); try assumption; try lia.
  destruct (icmp_unreach_ok 3 13 body 0) as (Lm & Bm & Im & Vm); try assumption; try lia.
  rewrite EH in *. set (msg := icmp_unreach 3 13 body 0) in *.
  set (out := [69; 0; (20 + 8 + plen) / 256 mod 256; (20 + 8 + plen) mod 256; 0; 0; 0; 0; 64; 1; c1; c2; d0; d1; d2; d3; s0; s1; s2; s3] ++ msg) in *.
  assert (Hn : blen out = 28 + plen).
  { unfold out. rewrite blen_app. unfold blen. rewrite Lm, Hbl. cbn [length]. lia. }
  split; [|rewrite Hn, max_doc; lia].
  assert (H0 : nth 0 out 0 = 69) by reflexivity.
  unfold reply_ok. rewrite H0. change (69 / 16 =? 4) with true. cbv iota.
  unfold reply4_ok. rewrite Hn, Hv, Hp6, Es, Ed, max_doc. fold ihl. fold plen.
  unfold out, be16_at, slice. cbn [app nth skipn firstn].
  apply valid_csumb_iff in HvH. rewrite HvH.
  replace (firstn (N.to_nat plen) p) with body by (unfold body, slice; reflexivity).
  rewrite Im. unfold valid_csumb. rewrite N.add_0_l in Vm. rewrite Vm.
  rewrite !nlist_eqb_refl, !N.eqb_refl.
  destruct (N.leb_spec 20 (blen p)); [|lia].
  destruct (N.leb_spec (28 + plen) 1048); [|lia].
  destruct (N.eqb_spec ((20 + 8 + plen) / 256 mod 256 * 256 + (20 + 8 + plen) mod 256) (28 + plen)); [|lia].
  reflexivity.
Qed.

Lemma v4_tcp_wf p cap : bytes_ok p = true -> 20 <= blen p -> nth 0 p 0 / 16 = 4 -> (nth 9 p 0 =? 6) = true ->
  v4_tcp_pure p cap <> [] ->
  reply_ok p (v4_tcp_pure p cap) = true /\ blen (v4_tcp_pure p cap) <= cap /\
  blen (v4_tcp_pure p cap) <= rej_max_reject_packet_size.
Proof.
  intros Hb Hl Hv Hp6 Hne. unfold v4_tcp_pure in *.
  assert (Hb0 : nth 0 p 0 < 256) by now apply bytes_ok_nth.
  rewrite land15 in * by assumption.
  replace (nth 0 p 0 mod 16 * 4) with (4 * (nth 0 p 0 mod 16)) in * by lia.
  set (ihl := 4 * (nth 0 p 0 mod 16)) in *.
  destruct (N.ltb_spec (blen p) (ihl + 20)) as [|Hge]; [congruence|].
  destruct (N.ltb_spec cap 40) as [|Hcap]; [congruence|]. clear Hne.
  destruct (v4_common p Hb Hl) as (s0 & s1 & s2 & s3 & d0 & d1 & d2 & d3 & Es & Ed & Hs & Hd).
  rewrite Es, Ed. rewrite slice_rest by lia.
  set (tcp_in := skipn (N.to_nat ihl) p).
  assert (Hbt : bytes_ok tcp_in = true) by now apply bytes_ok_skipn.
  assert (Hlt : 20 <= blen tcp_in) by (unfold tcp_in, blen at 1; rewrite length_skipn_N; lia).
  destruct (bytes4_sum _ _ _ _ Hs) as (? & ? & ? & ?). destruct (bytes4_sum _ _ _ _ Hd) as (? & ? & ? & ?).
  set (init := pseudo_sum [d0; d1; d2; d3] [s0; s1; s2; s3] 6 20).
  assert (Hinit : init = d0 * 256 + d1 + (d2 * 256 + d3) + (s0 * 256 + s1 + (s2 * 256 + s3)) + 26).
  { unfold init, pseudo_sum, w32. cbn [sum16]. change (20 mod 65536) with 20. change (20 / 65536) with 0.
    rewrite N.mod_small by lia. lia. }
  destruct (ip4_header_ok 40 6 d0 d1 d2 d3 s0 s1 s2 s3) as (c1 & c2 & EH & HbH & HvH); try assumption; try lia.
  destruct (tcp_rst_pure_ok tcp_in init) as (Ls & Bs & Rs & Vs); try assumption; try lia.
  rewrite EH in *. set (seg := tcp_rst_pure tcp_in init) in *.
  set (out := [69; 0; 40 / 256 mod 256; 40 mod 256; 0; 0; 0; 0; 64; 6; c1; c2; d0; d1; d2; d3; s0; s1; s2; s3] ++ seg) in *.
  assert (Hn : blen out = 40).
  { unfold out. rewrite blen_app. unfold blen. rewrite Ls. reflexivity. }
  split; [|rewrite Hn, max_doc; lia].
  assert (Hfirst : nth 0 out 0 = 69) by reflexivity.
  unfold reply_ok. rewrite Hfirst. change (69 / 16 =? 4) with true. cbv iota.
  unfold reply4_ok. rewrite Hn, Hv, Hp6, Es, Ed, max_doc. fold ihl. fold tcp_in.
  unfold out, be16_at, slice. cbn [app nth skipn firstn].
  apply valid_csumb_iff in HvH. rewrite HvH. rewrite Rs.
  unfold blen at 2. rewrite Ls. change (be16 (N.of_nat 20)) with [0; 20]. cbn [app].
  unfold valid_csumb. cbn [sum16].
  match goal with |- context [fold16 ?x] => replace x with (init + sum16 seg) by (rewrite Hinit; lia) end.
  rewrite Vs. rewrite !nlist_eqb_refl.
  destruct (N.leb_spec 20 (blen p)); [|lia].
  reflexivity.
Qed.

(* ---- IPv6 ---- *)

Lemma ip6_header_shape pl nh a b : pl < 65536 ->
  ip6_header pl nh a b = [96; 0; 0; 0; pl / 256 mod 256; pl mod 256; nh; 64] ++ a ++ b.
Proof. intros H. unfold ip6_header, be16, be16_bytes, w16. rewrite (N.mod_small pl 65536) by lia. reflexivity. Qed.

Lemma out6_facts h0 h1 h2 h3 h4 h5 h6 h7 (a b seg : list N) :
  length a = 16%nat -> length b = 16%nat ->
  let out := ([h0; h1; h2; h3; h4; h5; h6; h7] ++ a ++ b) ++ seg in
  slice out 8 16 = a /\ slice out 24 16 = b /\ slice out 8 32 = a ++ b /\ skipn 40 out = seg /\
  firstn 4 out = [h0; h1; h2; h3] /\ nth 0 out 0 = h0 /\ nth 6 out 0 = h6 /\ nth 7 out 0 = h7 /\
  be16_at out 4 = h4 * 256 + h5 /\ blen out = 40 + blen seg.
Proof.
  intros Ha Hb out. unfold out. set (H8 := [h0; h1; h2; h3; h4; h5; h6; h7]).
  assert (L8 : length H8 = 8%nat) by reflexivity.
  unfold slice. repeat split.
  - rewrite <- !app_assoc. rewrite (skipn_app_len H8) by (symmetry; exact L8). now apply firstn_app_len.
  - rewrite <- !app_assoc. rewrite (app_assoc H8). rewrite (skipn_app_len (H8 ++ a)) by (rewrite app_length, L8, Ha; reflexivity).
    now apply firstn_app_len.
  - rewrite <- !app_assoc. rewrite (skipn_app_len H8) by (symmetry; exact L8). rewrite app_assoc.
    apply firstn_app_len. rewrite app_length, Ha, Hb. reflexivity.
  - apply skipn_app_len. rewrite !app_length, L8, Ha, Hb. reflexivity.
  - unfold blen. rewrite !app_length, L8, Ha, Hb. lia.
Qed.

Lemma sum16_be_enc4 L : L < 65536 -> sum16 (be_enc 4 L) = L.
Proof.
  intros H. cbn [be_enc sum16].
  change (256 ^ N.of_nat 3) with 16777216. change (256 ^ N.of_nat 2) with 65536.
  change (256 ^ N.of_nat 1) with 256. change (256 ^ N.of_nat 0) with 1. lia.
Qed.

Lemma v6_common p : bytes_ok p = true -> 40 <= blen p ->
  length (slice p 8 16) = 16%nat /\ length (slice p 24 16) = 16%nat /\
  bytes_ok (slice p 8 16) = true /\ bytes_ok (slice p 24 16) = true /\
  sum16 (slice p 8 16) <= 524280 /\ sum16 (slice p 24 16) <= 524280.
Proof.
  intros Hb Hl. unfold blen in Hl.
  assert (L1 : length (slice p 8 16) = 16%nat) by (apply slice_length; lia).
  assert (L2 : length (slice p 24 16) = 16%nat) by (apply slice_length; lia).
  assert (B1 : bytes_ok (slice p 8 16) = true) by now apply slice_bytes_ok.
  assert (B2 : bytes_ok (slice p 24 16) = true) by now apply slice_bytes_ok.
  pose proof (sum16_bound_len _ B1) as S1. pose proof (sum16_bound_len _ B2) as S2.
  rewrite L1 in S1. rewrite L2 in S2. change ((N.of_nat 16 + 1) / 2) with 8 in *.
  repeat split; try assumption; lia.
Qed.

(* the checksum over the IPv6 pseudo header followed by the segment *)
Lemma pseudo6_valid (a b seg : list N) nh :
  length a = 16%nat -> length b = 16%nat -> sum16 a <= 524280 -> sum16 b <= 524280 -> nh < 256 ->
  blen seg < 65536 ->
  fold16 (pseudo_sum a b nh (blen seg) + sum16 seg) = 65535 ->
  valid_csumb ((a ++ b) ++ be_enc 4 (blen seg) ++ [0; 0; 0; nh] ++ seg) = true.
Proof.
  intros La Lb Sa Sb Hnh Hseg Hv. unfold valid_csumb.
  rewrite sum16_app by (rewrite app_length, La, Lb; reflexivity).
  rewrite sum16_app by (rewrite La; reflexivity).
  rewrite (sum16_app (be_enc 4 (blen seg))) by (rewrite be_enc_length; reflexivity).
  rewrite sum16_be_enc4 by assumption.
  change ([0; 0; 0; nh] ++ seg) with ([0; 0] ++ [0; nh] ++ seg). cbn [app sum16].
  unfold pseudo_sum, w32 in Hv. rewrite (N.mod_small (blen seg)) in Hv by lia.
  rewrite (N.div_small (blen seg)) in Hv by lia. rewrite N.mod_small in Hv by lia.
  apply N.eqb_eq. rewrite <- Hv. f_equal. lia.
Qed.

Lemma v6_tcp_wf p cap nh off pl a n : bytes_ok p = true -> 40 <= blen p -> nth 0 p 0 / 16 = 6 ->
  spec_walk p = CDone nh off pl a n -> (nh =? 6) = true ->
  v6_tcp_pure p cap off <> [] ->
  reply_ok p (v6_tcp_pure p cap off) = true /\ blen (v6_tcp_pure p cap off) <= cap /\
  blen (v6_tcp_pure p cap off) <= rej_max_reject_packet_size.
Proof.
  intros Hb Hl Hv W Hnh Hne. unfold v6_tcp_pure in *.
  destruct (N.ltb_spec (blen p) (off + 20)) as [|Hge]; [congruence|].
  destruct (N.ltb_spec cap 60) as [|Hcap]; [congruence|]. clear Hne.
  pose proof W as W'. unfold spec_walk in W'. change 40%nat with (N.to_nat 40) in W'.
  apply spec_chain_done in W' as (Epl & Hoff & _); [|lia].
  destruct (v6_common p Hb Hl) as (Ls & Ld & Bs & Bd & Ss & Sd).
  remember (slice p 8 16) as src eqn:Esrc. remember (slice p 24 16) as dst eqn:Edst.
  rewrite slice_rest by lia. rewrite <- Epl.
  assert (Hbt : bytes_ok pl = true) by (rewrite Epl; now apply bytes_ok_skipn).
  assert (Hlt : 20 <= blen pl) by (rewrite Epl; unfold blen at 1; rewrite length_skipn_N; lia).
  set (init := pseudo_sum dst src 6 20).
  assert (Hinit : init < 4194304).
  { unfold init, pseudo_sum, w32. change (20 mod 65536) with 20. change (20 / 65536) with 0. rewrite N.mod_small by lia. lia. }
  destruct (tcp_rst_pure_ok pl init) as (Lseg & Bseg & Rs & Vs); try assumption.
  set (seg := tcp_rst_pure pl init) in *.
  rewrite ip6_header_shape by lia.
  change (20 / 256 mod 256) with 0. change (20 mod 256) with 20.
  destruct (out6_facts 96 0 0 0 0 20 6 64 dst src seg Ld Ls) as (F1 & F2 & F3 & F4 & F5 & F6 & F7 & F8 & F9 & F10).
  set (out := ([96; 0; 0; 0; 0; 20; 6; 64] ++ dst ++ src) ++ seg) in *.
  assert (Hbs : blen seg = 20) by (unfold blen; rewrite Lseg; reflexivity).
  rewrite Hbs in F10. change (40 + 20) with 60 in F10.
  split; [|rewrite F10, max_doc; lia].
  unfold reply_ok. rewrite F6. change (96 / 16 =? 4) with false. change (96 / 16 =? 6) with true. cbv iota.
  unfold reply6_ok. rewrite F10, Hv, F5, F9, F8, F1, F2, F3, F4, F7, W, Hnh, max_doc, <- Esrc, <- Edst, Rs.
  rewrite !nlist_eqb_refl.
  rewrite <- app_assoc. rewrite <- (app_assoc (be_enc 4 (blen seg))).
  rewrite (pseudo6_valid dst src seg 6); try assumption; try lia.
  all: first [ rewrite Hbs; exact Vs | destruct (N.leb_spec 40 (blen p)); [reflexivity|lia] ].
Qed.

Lemma v6_icmp_wf p cap nh off pl a n : bytes_ok p = true -> 40 <= blen p -> nth 0 p 0 / 16 = 6 ->
  spec_walk p = CDone nh off pl a n -> (nh =? 6) = false ->
  v6_icmp_pure p cap nh off <> [] ->
  reply_ok p (v6_icmp_pure p cap nh off) = true /\ blen (v6_icmp_pure p cap nh off) <= cap /\
  blen (v6_icmp_pure p cap nh off) <= rej_max_reject_packet_size.
Proof.
  intros Hb Hl Hv W Hnh Hne. unfold v6_icmp_pure in *.
  destruct ((nh =? 58) && (off <? blen p) && is_icmp6_error (nth (N.to_nat off) p 0)); [congruence|].
  set (plen := N.min (blen p) 1000) in *.
  destruct (N.ltb_spec cap (40 + 8 + plen)) as [|Hcap]; [congruence|]. clear Hne.
  assert (Hplen : plen <= 1000) by (unfold plen; lia).
  cbv zeta. replace (w16 (40 + 8 + plen - 40)) with (8 + plen) by (unfold w16; rewrite N.mod_small; lia).
  destruct (v6_common p Hb Hl) as (Ls & Ld & Bs & Bd & Ss & Sd).
  remember (slice p 8 16) as src eqn:Esrc. remember (slice p 24 16) as dst eqn:Edst.
  set (body := slice p 0 (N.to_nat plen)).
  assert (Hbody : bytes_ok body = true) by now apply slice_bytes_ok.
  assert (Hbl : length body = N.to_nat plen).
  { unfold body. apply slice_length. unfold plen, blen. lia. }
  set (init := pseudo_sum dst src 58 (8 + plen)).
  assert (Hinit : init < 4194304).
  { unfold init, pseudo_sum, w32. rewrite (N.mod_small (8 + plen)) by lia. rewrite (N.div_small (8 + plen)) by lia.
    rewrite N.mod_small by lia. lia. }
  destruct (icmp_unreach_ok 1 1 body init) as (Lm & Bm & Im & Vm); try assumption; try lia.
  set (msg := icmp_unreach 1 1 body init) in *.
  assert (Hbm : blen msg = 8 + plen) by (unfold blen; rewrite Lm, Hbl; lia).
  rewrite ip6_header_shape by lia.
  destruct (out6_facts 96 0 0 0 ((8 + plen) / 256 mod 256) ((8 + plen) mod 256) 58 64 dst src msg Ld Ls)
    as (F1 & F2 & F3 & F4 & F5 & F6 & F7 & F8 & F9 & F10).
  set (out := ([96; 0; 0; 0; (8 + plen) / 256 mod 256; (8 + plen) mod 256; 58; 64] ++ dst ++ src) ++ msg) in *.
  rewrite Hbm in F10.
  split; [|rewrite F10, max_doc; lia].
  unfold reply_ok. rewrite F6. change (96 / 16 =? 4) with false. change (96 / 16 =? 6) with true. cbv iota.
  unfold reply6_ok. rewrite F10, Hv, F5, F9, F8, F1, F2, F3, F4, F7, W, Hnh, max_doc, <- Esrc, <- Edst.
  fold plen. replace (firstn (N.to_nat plen) p) with body by (unfold body, slice; reflexivity).
  rewrite Im. rewrite !nlist_eqb_refl.
  rewrite <- app_assoc. rewrite <- (app_assoc (be_enc 4 (blen msg))).
  rewrite (pseudo6_valid dst src msg 58); try assumption; try lia.
  all: first [ rewrite Hbm; exact Vm
             | destruct (N.leb_spec 40 (blen p)); [|lia]; destruct (N.leb_spec 40 (40 + (8 + plen))); [|lia];
               destruct (N.leb_spec (40 + (8 + plen)) 1048); [|lia];
               destruct (N.eqb_spec ((8 + plen) / 256 mod 256 * 256 + (8 + plen) mod 256) (40 + (8 + plen) - 40)); [|lia];
               reflexivity ].
Qed.

(* ---------------------------------------------------------------------------------------------- *)
(** * The C21 statements *)

Lemma reject_total p cap : bytes_ok p = true -> exists out, create_reject p cap = Ok out.
Proof. intros Hb. eexists. now apply create_reject_char. Qed.

Lemma is_v_nth b0 r : nth 0 (b0 :: r) 0 = b0.
Proof. reflexivity. Qed.

Lemma reject_wellformed p cap out : bytes_ok p = true ->
  create_reject p cap = Ok out -> out <> [] ->
  reply_ok p out = true /\ blen out <= cap /\ blen out <= rej_max_reject_packet_size.
Proof.
  intros Hb Hc Hne. rewrite create_reject_char in Hc by assumption. inversion Hc as [Eo]. clear Hc.
  rewrite <- Eo in Hne. unfold create_reject_pure in *.
  destruct p as [|b0 r]; [congruence|]. set (p := b0 :: r) in *.
  destruct (N.eqb_spec (b0 / 16) 4) as [E4|E4].
  - destruct (N.ltb_spec (blen p) 20) as [|Hl]; [congruence|].
    destruct (negb (be16_at p 6 mod 8192 =? 0)); [congruence|].
    destruct (nth 9 p 0 =? 6) eqn:P6.
    + now apply v4_tcp_wf.
    + now apply v4_icmp_wf.
  - destruct (N.eqb_spec (b0 / 16) 6) as [E6|E6]; [|congruence].
    destruct (N.ltb_spec (blen p) 40) as [|Hl]; [congruence|].
    unfold v6_reject_pure in *.
    destruct (spec_walk p) as [nh off pl a n|nh off n|] eqn:W; [|congruence|congruence].
    destruct (n <=? limit)%nat; [|congruence].
    destruct (nh =? 6) eqn:N6.
    + now apply (v6_tcp_wf p cap nh off pl a n).
    + now apply (v6_icmp_wf p cap nh off pl a n).
Qed.

Lemma reject_silent p cap : bytes_ok p = true -> must_be_silent p cap = true -> create_reject p cap = Ok [].
Proof.
  intros Hb Hs. rewrite create_reject_char by assumption. f_equal.
  unfold must_be_silent, create_reject_pure in *.
  destruct p as [|b0 r]; [reflexivity|]. set (p := b0 :: r) in *.
  assert (Hb0 : b0 < 256) by apply (bytes_ok_nth p 0 Hb).
  destruct (N.eqb_spec (b0 / 16) 4) as [E4|E4].
  - apply andb_true_iff in Hs as [Hl Hs]. apply N.leb_le in Hl.
    destruct (N.ltb_spec (blen p) 20); [reflexivity|].
    destruct (negb (be16_at p 6 mod 8192 =? 0)); [reflexivity|]. cbn [orb] in Hs.
    unfold reply_size in Hs. change (nth 0 p 0) with b0 in *. rewrite E4 in Hs. cbn [N.eqb Pos.eqb] in Hs.
    destruct (nth 9 p 0 =? 6) eqn:P6.
    + unfold v4_tcp_pure. change (nth 0 p 0) with b0.
      apply N.eqb_eq in P6. rewrite P6 in Hs. cbn [N.eqb Pos.eqb andb orb] in Hs.
      destruct (blen p <? N.land b0 15 * 4 + 20); [reflexivity|]. rewrite Hs. reflexivity.
    + unfold v4_icmp_pure. change (nth 0 p 0) with b0. rewrite land15 by assumption.
      replace (b0 mod 16 * 4) with (4 * (b0 mod 16)) by lia.
      destruct (blen p <? 4 * (b0 mod 16)); [reflexivity|].
      destruct ((nth 9 p 0 =? 1) && (4 * (b0 mod 16) <? blen p) && is_icmp4_error (nth (N.to_nat (4 * (b0 mod 16))) p 0));
        [reflexivity|]. cbn [orb] in Hs.
      replace (20 + 8 + N.min (blen p) (4 * (b0 mod 16) + 8)) with (28 + N.min (blen p) (4 * (b0 mod 16) + 8)) by lia.
      rewrite Hs. reflexivity.
  - destruct (N.eqb_spec (b0 / 16) 6) as [E6|E6]; [|discriminate].
    apply andb_true_iff in Hs as [Hl Hs]. apply N.leb_le in Hl.
    destruct (N.ltb_spec (blen p) 40); [reflexivity|].
    unfold v6_reject_pure. unfold reply_size in Hs. change (nth 0 p 0) with b0 in Hs.
    destruct (N.eqb_spec (b0 / 16) 4) as [Ex|Ex]; [contradiction|].
    destruct (spec_walk p) as [nh off pl a n|nh off n|] eqn:W; [|reflexivity|discriminate].
    destruct (n <=? limit)%nat; [|reflexivity].
    pose proof W as W'. unfold spec_walk in W'. change 40%nat with (N.to_nat 40) in W'.
    apply spec_chain_done in W' as (Epl & Hoff & _); [|lia].
    destruct (nh =? 6) eqn:N6.
    + unfold v6_tcp_pure. destruct (blen p <? off + 20); [reflexivity|].
      apply N.eqb_eq in N6. subst nh. cbn [N.eqb Pos.eqb andb orb] in Hs. rewrite Hs. reflexivity.
    + unfold v6_icmp_pure. apply orb_true_iff in Hs as [Hs|Hs].
      * apply andb_true_iff in Hs as [H58 Ht]. rewrite H58.
        destruct pl as [|t tl]; [discriminate|].
        assert (Hlt : off < blen p).
        { pose proof (length_skipn_N p off) as Hx. rewrite <- Epl in Hx. cbn [length] in Hx. lia. }
        assert (Hnth : nth (N.to_nat off) p 0 = t).
        { pose proof (nth_skipn p (N.to_nat off) 0) as Hx. rewrite <- Epl in Hx. cbn [nth] in Hx.
          rewrite Nat.add_0_r in Hx. auto. }
        rewrite Hnth, Ht. destruct (N.ltb_spec off (blen p)); [reflexivity|lia].
      * destruct ((nh =? 58) && (off <? blen p) && is_icmp6_error (nth (N.to_nat off) p 0)); [reflexivity|].
        replace (40 + 8 + N.min (blen p) 1000) with (48 + N.min (blen p) 1000) by lia.
        rewrite Hs. reflexivity.
Qed.

(* ---------------------------------------------------------------------------------------------- *)
(** * What the validator's verdict means, in Prop form *)

Ltac split_andb :=
  repeat match goal with
         | H : _ && _ = true |- _ => apply andb_true_iff in H; destruct H
         end.

Ltac to_props :=
  split_andb;
  repeat match goal with
         | H : (_ =? _) = true |- _ => apply N.eqb_eq in H
         | H : (_ =? _) = false |- _ => apply N.eqb_neq in H
         | H : nlist_eqb _ _ = true |- _ => apply nlist_eqb_eq in H
         | H : (_ <=? _) = true |- _ => apply N.leb_le in H
         | H : valid_csumb _ = true |- _ => apply valid_csumb_iff in H
         end.

Ltac finish_meaning :=
  repeat split; try assumption;
  try (intros; try congruence; repeat split; assumption).

Lemma rst_meaning tcp_in seg : rst_ok tcp_in seg = true ->
  let fl := nth 13 tcp_in 0 in
  length seg = 20%nat /\
  be16_at seg 0 = be16_at tcp_in 2 /\ be16_at seg 2 = be16_at tcp_in 0 /\
  nth 12 seg 0 = 80 /\ be16_at seg 14 = 0 /\ be16_at seg 18 = 0 /\
  ((fl / 16) mod 2 = 1 -> nth 13 seg 0 = 4 /\ be32_at seg 4 = be32_at tcp_in 8 /\ be32_at seg 8 = 0) /\
  ((fl / 16) mod 2 <> 1 ->
     nth 13 seg 0 = 20 /\ be32_at seg 4 = 0 /\
     be32_at seg 8 = (be32_at tcp_in 4 + (fl / 2) mod 2 + fl mod 2 +
                      (blen tcp_in + 4294967296 - 4 * (nth 12 tcp_in 0 / 16)) mod 4294967296) mod 4294967296).
Proof.
  intros H fl. unfold rst_ok in H. fold fl in H.
  destruct ((fl / 16) mod 2 =? 1) eqn:A; to_props.
  all: assert (length seg = 20%nat) by (unfold blen in *; lia).
  all: finish_meaning.
Qed.

Lemma icmp_meaning ty code body msg : icmp_ok ty code body msg = true ->
  nth 0 msg 0 = ty /\ nth 1 msg 0 = code /\ slice msg 4 4 = [0; 0; 0; 0] /\ skipn 8 msg = body.
Proof. unfold icmp_ok. intros H. to_props. auto. Qed.

Lemma reply4_meaning p out : reply4_ok p out = true ->
  let ihl := 4 * (nth 0 p 0 mod 16) in
  let seg := skipn 20 out in
  nth 0 out 0 = 69 /\ be16_at out 2 = blen out /\ blen out <= rej_max_reject_packet_size /\
  be16_at out 6 = 0 /\ nth 8 out 0 = 64 /\ valid_csum (firstn 20 out) /\
  slice out 12 4 = slice p 16 4 /\ slice out 16 4 = slice p 12 4 /\
  (nth 9 p 0 = 6 -> nth 9 out 0 = 6 /\ rst_ok (skipn (N.to_nat ihl) p) seg = true /\
                    valid_csum (slice out 12 8 ++ [0; 6] ++ be16 (blen seg) ++ seg)) /\
  (nth 9 p 0 <> 6 -> nth 9 out 0 = 1 /\
                     icmp_ok 3 13 (firstn (N.to_nat (N.min (blen p) (ihl + 8))) p) seg = true /\ valid_csum seg).
Proof.
  intros H ihl seg. unfold reply4_ok in H. fold ihl in H. fold seg in H.
  destruct (nth 9 p 0 =? 6) eqn:A; to_props; finish_meaning.
Qed.

Lemma reply6_meaning p out : reply6_ok p out = true ->
  let seg := skipn 40 out in
  let pseudo := slice out 8 32 ++ be_enc 4 (blen seg) ++ [0; 0; 0; nth 6 out 0] in
  firstn 4 out = [96; 0; 0; 0] /\ be16_at out 4 = blen out - 40 /\ 40 <= blen out /\
  blen out <= rej_max_reject_packet_size /\ nth 7 out 0 = 64 /\
  slice out 8 16 = slice p 24 16 /\ slice out 24 16 = slice p 8 16 /\
  valid_csum (pseudo ++ seg) /\
  exists nh off payload a n, spec_walk p = CDone nh off payload a n /\
    (nh = 6 -> nth 6 out 0 = 6 /\ rst_ok payload seg = true) /\
    (nh <> 6 -> nth 6 out 0 = 58 /\ icmp_ok 1 1 (firstn (N.to_nat (N.min (blen p) 1000)) p) seg = true).
Proof.
  intros H seg pseudo. unfold reply6_ok in H. fold seg in H. fold pseudo in H.
  destruct (spec_walk p) as [nh off pl a n|nh off n|] eqn:W;
    [|exfalso; split_andb; discriminate|exfalso; split_andb; discriminate].
  destruct (nh =? 6) eqn:A; to_props.
  all: repeat split; try assumption.
  all: exists nh, off, pl, a, n; finish_meaning.
Qed.

Lemma reply_ok_cases p out : reply_ok p out = true ->
  (nth 0 out 0 / 16 = 4 /\ reply4_ok p out = true) \/ (nth 0 out 0 / 16 = 6 /\ reply6_ok p out = true).
Proof.
  unfold reply_ok. destruct (N.eqb_spec (nth 0 out 0 / 16) 4); [auto|].
  destruct (N.eqb_spec (nth 0 out 0 / 16) 6); [auto|discriminate].
Qed.

(* packets for the examples in props/C21.v *)
Definition ex4 (proto ff1 ff2 : N) (payload : list N) : list N :=
  [69; 0; 0; 20 + N.of_nat (length payload); 0; 0; ff1; ff2; 64; proto; 0; 0; 10; 1; 2; 3; 192; 168; 7; 9] ++ payload.
Definition ex_tcp (flags : N) : list N := [4; 210; 0; 80; 1; 2; 3; 4; 9; 9; 9; 9; 80; flags; 16; 0; 0; 0; 0; 0].

(* ---------------------------------------------------------------------------------------------- *)
(** * The callers *)

Lemma callers_ok p buflen ws : bytes_ok p = true ->
  (reject_inside p buflen = Ok ws -> emitted_ok p buflen ws = true) /\
  (reject_outside p buflen = Ok ws -> emitted_ok p (outside_cap buflen) ws = true).
Proof.
  intros Hb.
  assert (G : forall cap o, create_reject p cap = Ok o -> o <> [] ->
                reply_ok p o && (blen o <=? rej_max_reject_packet_size) && negb (must_be_silent p cap) = true).
  { intros cap o Hc Hne. destruct (reject_wellformed p cap o Hb Hc Hne) as (R & _ & M).
    rewrite R. apply N.leb_le in M. rewrite M. cbn [andb].
    destruct (must_be_silent p cap) eqn:S; [|reflexivity].
    rewrite (reject_silent p cap Hb S) in Hc. inversion Hc. congruence. }
  split; intros H.
  - unfold reject_inside in H. destruct (create_reject p buflen) as [o|e|] eqn:C; try discriminate.
    destruct o as [|x o]; inversion H; subst; [reflexivity|]. apply (G buflen); [exact C|discriminate].
  - unfold reject_outside in H. destruct (create_reject p (outside_cap buflen)) as [o|e|] eqn:C; try discriminate.
    destruct o as [|x o]; [inversion H; reflexivity|].
    destruct (rej_max_reject_packet_size <? blen (x :: o)); inversion H; subst; [reflexivity|].
    apply (G (outside_cap buflen)); [exact C|discriminate].
Qed.

Lemma callers_total p buflen : bytes_ok p = true ->
  (exists ws, reject_inside p buflen = Ok ws) /\ (exists ws, reject_outside p buflen = Ok ws).
Proof.
  intros Hb. unfold reject_inside, reject_outside.
  destruct (reject_total p buflen Hb) as (o1 & ->). destruct (reject_total p (outside_cap buflen) Hb) as (o2 & ->).
  split.
  - destruct o1; eauto.
  - destruct o2; eauto. destruct (rej_max_reject_packet_size <? blen (n :: o2)); eauto.
Qed.

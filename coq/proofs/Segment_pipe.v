(* Segment_pipe: what decodeRead's validation (CheckValid, CorrectHdrLen, protoFromGSOType) and the error returns
   of SegmentTCP / SegmentUDP guarantee: every superpacket that reaches the segmentation loop satisfies the
   hypotheses of the C24 theorems, except for two conditions the code does not check and the kernel guarantees:
   an IPv6 csum_start of at least 40, and segments that fit the 16-bit length fields. *)
From Coq Require Import List NArith ZArith Bool Arith Lia ZifyN ZifyNat ZifyBool.
Import ListNotations.
From NV Require Import lib.Bytes lib.Ones model.Segment proofs.Segment_buf proofs.Segment_ref.
Open Scope N_scope.
Local Ltac Zify.zify_post_hook ::= Z.div_mod_to_equations.

Lemma check_valid_facts pkt h : check_valid pkt h = true -> gso_type h <> GSO_NONE ->
  (20 <= length pkt)%nat /\ v_gsosize h <> 0 /\ (bat pkt 0 / 16 = 4 \/ bat pkt 0 / 16 = 6).
Proof.
  unfold check_valid. intros H Ht.
  destruct (negb (N.land (v_flags h) 4 =? 0)); [discriminate|].
  destruct (Nat.ltb_spec (length pkt) 20); [discriminate|].
  destruct ((bat pkt 0 / 16 =? 6) && (length pkt <? 40)%nat); [discriminate|].
  destruct (N.eqb_spec (gso_type h) GSO_NONE) as [E|_]; [contradiction|]. cbn [negb andb] in H.
  destruct (N.eqb_spec (v_gsosize h) 0) as [E|Hg]; [discriminate|].
  destruct (has_ecn h && negb ((gso_type h =? GSO_TCPV4) || (gso_type h =? GSO_TCPV6))); [discriminate|].
  split; [lia|]. split; [exact Hg|].
  destruct (gso_type h =? GSO_TCPV4); [apply N.eqb_eq in H; left; exact H|].
  destruct (gso_type h =? GSO_TCPV6); [apply N.eqb_eq in H; right; exact H|].
  apply orb_true_iff in H as [H|H]; apply N.eqb_eq in H; [left|right]; exact H.
Qed.

Lemma correct_hdr_len_facts pkt h hl : bytes_ok pkt = true -> v_csumstart h < 65536 ->
  correct_hdr_len pkt h = Some hl ->
  hl <= N.of_nat (length pkt) /\
  (gso_type h = GSO_UDP_L4 -> hl = v_csumstart h + 8) /\
  (gso_type h <> GSO_UDP_L4 ->
     let thl := bat pkt (N.to_nat (v_csumstart h) + 12) / 16 * 4 in 20 <= thl /\ hl = v_csumstart h + thl).
Proof.
  intros Hok Hcs. unfold correct_hdr_len.
  set (cs := v_csumstart h) in *. set (len := N.of_nat (length pkt)).
  destruct (N.eqb_spec (gso_type h) GSO_UDP_L4) as [Et|Et].
  - destruct (N.ltb_spec len (w16 (cs + 8))); [discriminate|].
    destruct (N.ltb_spec (w16 (cs + 8)) cs); [discriminate|].
    destruct (len <=? w16 (cs + v_csumoff h) + 1); [discriminate|].
    intros E. injection E as <-. split; [lia|]. split; [|contradiction].
    intros _. unfold w16 in *. lia.
  - destruct (N.leb_spec len (w16 (cs + 12))); [discriminate|].
    set (b := bat pkt (N.to_nat (w16 (cs + 12)))).
    assert (Hb : b < 256) by (apply bytes_ok_bat; exact Hok).
    assert (Ew : w8 (b / 16 * 4) = b / 16 * 4) by (unfold w8; lia).
    rewrite Ew.
    destruct (N.ltb_spec (b / 16 * 4) 20); [discriminate|].
    destruct (N.ltb_spec 60 (b / 16 * 4)); [discriminate|]. cbn [orb].
    destruct (N.ltb_spec len (w16 (cs + b / 16 * 4))); [discriminate|].
    destruct (N.ltb_spec (w16 (cs + b / 16 * 4)) cs); [discriminate|].
    destruct (len <=? w16 (cs + v_csumoff h) + 1); [discriminate|].
    intros E. injection E as <-. split; [lia|]. split; [contradiction|].
    intros _. cbv zeta.
    assert (Enw : w16 (cs + b / 16 * 4) = cs + b / 16 * 4) by (unfold w16 in *; lia).
    assert (E12 : w16 (cs + 12) = cs + 12) by (unfold w16 in *; lia).
    assert (Eb : bat pkt (N.to_nat cs + 12) = b).
    { unfold b. rewrite E12. f_equal. lia. }
    rewrite Eb. split; [lia|exact Enw].
Qed.

Lemma base_ipv4_some_inv pkt cs b : base_ipv4_hdr_sum pkt cs = Some b -> (20 <= ihl_of pkt <= cs)%nat.
Proof.
  unfold base_ipv4_hdr_sum.
  destruct (Nat.ltb_spec (ihl_of pkt) 20); [discriminate|]. destruct (Nat.ltb_spec cs (ihl_of pkt)); [discriminate|].
  intros _. lia.
Qed.

Lemma segment_some_facts tcp pkt hl cs g segs : segment_l4 tcp pkt hl cs g = Some segs ->
  (hl <= 120)%nat /\ (is_v4 pkt = true -> (20 <= ihl_of pkt <= cs)%nat).
Proof.
  unfold segment_l4, segment_tcp, segment_udp. destruct tcp.
  - destruct (g =? 0)%nat; [discriminate|]. destruct (cs =? 0)%nat; [discriminate|].
    destruct (Nat.ltb_spec 120 hl) as [|H120]; [discriminate|]. intros HS. split; [lia|]. intros E. rewrite E in HS.
    destruct (base_ipv4_hdr_sum pkt cs) as [b|] eqn:Eb; [|discriminate]. apply (base_ipv4_some_inv pkt cs b Eb).
  - destruct (g =? 0)%nat; [discriminate|]. destruct (cs =? 0)%nat; [discriminate|].
    destruct (Nat.ltb_spec 120 hl) as [|H120]; [discriminate|]. destruct (negb (hl =? cs + 8)%nat); [discriminate|].
    intros HS. split; [lia|]. intros E. rewrite E in HS.
    destruct (base_ipv4_hdr_sum pkt cs) as [b|] eqn:Eb; [|discriminate]. apply (base_ipv4_some_inv pkt cs b Eb).
Qed.

Theorem decode_read_wf pkt vh tcp hl cs g segs :
  bytes_ok pkt = true -> v_csumstart vh < 65536 ->
  decode_read pkt vh = DSuper tcp hl cs g ->
  segment_l4 tcp pkt hl cs g = Some segs ->
  (is_v4 pkt = false -> (40 <= cs)%nat) ->
  N.of_nat (hl + Nat.min g (length pkt - hl)) <= 65535 ->
  wf_l4 tcp pkt hl cs g.
Proof.
  intros Hok Hcs16 Hd Hs H6 Hfit.
  unfold decode_read in Hd.
  destruct (length pkt =? 0)%nat; [discriminate|].
  destruct (N.eqb_spec (gso_type vh) GSO_NONE) as [|Hnone]; [discriminate|].
  destruct (check_valid pkt vh) eqn:Ecv; [|discriminate]. cbn [negb] in Hd.
  destruct (correct_hdr_len pkt vh) as [hlN|] eqn:Ech; [|discriminate].
  destruct (check_valid_facts pkt vh Ecv Hnone) as (H20 & Hg & Hver).
  destruct (correct_hdr_len_facts pkt vh hlN Hok Hcs16 Ech) as (Hlen & Hu & Ht).
  destruct (segment_some_facts tcp pkt hl cs g segs Hs) as (H120 & Hihl).
  assert (WC : forall hl' cs' g', hl' = hl -> cs' = cs -> g' = g -> hl = N.to_nat hlN -> g = N.to_nat (v_gsosize vh) ->
                wf_common pkt hl cs g).
  { intros _ _ _ _ _ _ Ehl Eg. unfold wf_common.
    split; [exact Hok|]. split; [lia|]. split; [lia|]. split; [exact H120|]. split; [exact Hfit|].
    destruct Hver as [Hv|Hv].
    - left. split; [exact Hv|]. apply Hihl. unfold is_v4. rewrite Hv. reflexivity.
    - right. split; [exact Hv|]. apply H6. unfold is_v4. rewrite Hv. reflexivity. }
  destruct ((gso_type vh =? GSO_TCPV4) || (gso_type vh =? GSO_TCPV6)) eqn:Etcp.
  - injection Hd as <- Ehl Ecs Eg. cbn [wf_l4]. unfold wf_tcp.
    assert (Hn5 : gso_type vh <> GSO_UDP_L4).
    { intros E. rewrite E in Etcp. discriminate. }
    destruct (Ht Hn5) as [Hthl Ehl2].
    assert (Ethl : tcp_hdr_len pkt cs = N.to_nat (bat pkt (N.to_nat (v_csumstart vh) + 12) / 16 * 4)).
    { unfold tcp_hdr_len. rewrite <- Ecs. lia. }
    split; [apply (WC hl cs g); congruence|]. split; lia.
  - destruct (N.eqb_spec (gso_type vh) GSO_UDP_L4) as [E5|]; [|discriminate].
    injection Hd as <- Ehl Ecs Eg. cbn [wf_l4]. unfold wf_udp.
    specialize (Hu E5). split; [apply (WC hl cs g); congruence|]. lia.
Qed.

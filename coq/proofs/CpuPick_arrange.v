(* Lemmas about pickCandidates / the performance filter / arrange (model/CpuPick.v). *)
From Coq Require Import List NArith ZArith Bool Lia Permutation.
Import ListNotations.
From NV Require Import lib.Bytes model.CpuPick.
Open Scope N_scope.

(* ---- membership helpers ------------------------------------------------------------------- *)
Lemma mem_n_In c l : mem_n c l = true <-> In c l.
Proof.
  unfold mem_n. rewrite existsb_exists. split.
  - intros [x [Hx He]]. apply N.eqb_eq in He. now subst.
  - intros H. exists c. split; [assumption|apply N.eqb_refl].
Qed.

Lemma mem_n_false c l : mem_n c l = false <-> ~ In c l.
Proof.
  rewrite <- mem_n_In. destruct (mem_n c l); split; intros H; try reflexivity; try discriminate.
  exfalso. now apply H.
Qed.

Lemma mem_z_In x l : mem_z x l = true <-> In x l.
Proof.
  unfold mem_z. rewrite existsb_exists. split.
  - intros [y [Hy He]]. apply Z.eqb_eq in He. now subst.
  - intros H. exists x. split; [assumption|apply Z.eqb_refl].
Qed.

Lemma dedup_z_In x l : In x (dedup_z l) <-> In x l.
Proof.
  induction l as [|a l IH]; simpl; [tauto|].
  rewrite filter_In, IH. split.
  - intros [H|[H _]]; auto.
  - intros [H|H]; auto. destruct (Z.eq_dec a x) as [E|E]; [now left|right].
    split; [assumption|]. apply negb_true_iff. apply Z.eqb_neq. congruence.
Qed.

Lemma NoDup_filter {A} (f : A -> bool) l : NoDup l -> NoDup (filter f l).
Proof.
  induction 1 as [|a l Hn Hd IH]; simpl; [constructor|].
  destruct (f a); [constructor|]; auto. rewrite filter_In. tauto.
Qed.

(* ---- performance filter and pickCandidates --------------------------------------------------- *)
Lemma by_per_cpu_value_filter val allowed k l :
  by_per_cpu_value val allowed k = Some l -> exists f, l = filter f allowed.
Proof.
  unfold by_per_cpu_value. destruct (all_some (map val allowed)) as [vals|]; [|discriminate].
  destruct (min_val vals =? max_val vals)%Z; [discriminate|].
  intros H; inversion H; eauto.
Qed.

Lemma by_intel_core_mask_filter mask allowed l :
  by_intel_core_mask mask allowed = Some l -> exists f, l = filter f allowed.
Proof.
  unfold by_intel_core_mask. destruct mask as [content|]; [|discriminate].
  destruct (parse_cpu_list (trim_blanks content)) as [[|x set]|]; try discriminate.
  destruct (filter (fun c => mem_n c (x :: set)) allowed) eqn:E; [discriminate|].
  intros H; inversion H; subst. rewrite <- E. eauto.
Qed.

(* the performance subset is the allowed list with some CPUs filtered out (order kept) *)
Lemma perf_cpus_filter src allowed : exists f, perf_cpus src allowed = filter f allowed.
Proof.
  unfold perf_cpus.
  destruct (by_per_cpu_value (ps_capacity src) allowed (ps_capacity_keep_pct src)) eqn:E1;
    [eapply by_per_cpu_value_filter; eassumption|].
  destruct (by_intel_core_mask (ps_mask src) allowed) eqn:E2; [eapply by_intel_core_mask_filter; eassumption|].
  destruct (by_per_cpu_value (ps_max_freq src) allowed (ps_freq_keep_pct src)) eqn:E3;
    [eapply by_per_cpu_value_filter; eassumption|].
  exists (fun _ => true). clear. induction allowed as [|a l IH]; simpl; congruence.
Qed.

Lemma perf_cpus_subset src allowed c : In c (perf_cpus src allowed) -> In c allowed.
Proof. destruct (perf_cpus_filter src allowed) as [f ->]. rewrite filter_In. tauto. Qed.

Lemma perf_cpus_nodup src allowed : NoDup allowed -> NoDup (perf_cpus src allowed).
Proof. destruct (perf_cpus_filter src allowed) as [f ->]. apply NoDup_filter. Qed.

Lemma pick_candidates_cases allowed perf r :
  pick_candidates allowed perf r = allowed \/ pick_candidates allowed perf r = perf.
Proof. unfold pick_candidates. destruct (_ <? _)%Z; auto. Qed.

(* ---- arrange: shape ----------------------------------------------------------------------- *)
Lemma smt_split_perm t : forall l seen o s, smt_split t seen l = (o, s) -> Permutation (o ++ s) l.
Proof.
  induction l as [|a l IH]; simpl; intros seen o s H.
  - inversion H; subst. constructor.
  - destruct (mem_z (coreOf t a) seen).
    + destruct (smt_split t seen l) as [o' s'] eqn:E. inversion H; subst.
      apply Permutation_sym, Permutation_cons_app, Permutation_sym. eauto.
    + destruct (smt_split t (coreOf t a :: seen) l) as [o' s'] eqn:E. inversion H; subst.
      simpl. constructor. eauto.
Qed.

Lemma rotate_perm off (l : list N) : Permutation (rotate off l) l.
Proof.
  unfold rotate. eapply Permutation_trans; [apply Permutation_app_comm|]. now rewrite firstn_skipn.
Qed.

Lemma arrange_shape cands t r h :
  exists pre, arrange cands t r h = pre ++ zero_tail_of t (node_confined t cands r h)
              /\ Permutation pre (preferred_of t (node_confined t cands r h)).
Proof.
  unfold arrange. set (cs := node_confined t cands r h).
  destruct (preferred_of t cs) as [|p ps] eqn:E.
  - exists []. split; [reflexivity|constructor].
  - set (off := N.to_nat (N.shiftr h 32 mod N.of_nat (length (p :: ps)))).
    destruct (smt_split t [] (rotate off (p :: ps))) as [o s] eqn:Es.
    exists (o ++ s). split; [now rewrite app_assoc|].
    eapply Permutation_trans; [eapply smt_split_perm; eassumption|apply rotate_perm].
Qed.

Lemma preferred_or_tail t cs c :
  In c (preferred_of t cs) \/ In c (zero_tail_of t cs) <-> In c cs.
Proof.
  unfold preferred_of, zero_tail_of. rewrite in_app_iff, !filter_In. split.
  - intros [[H _]|[[H _]|H]]; auto.
    destruct (mem_n 0 cs) eqn:E; [|contradiction]. destruct H as [<-|[]]. now apply mem_n_In.
  - intros H. destruct (N.eq_dec c 0) as [->|Hn].
    + right. right. apply mem_n_In in H. rewrite H. now left.
    + apply N.eqb_neq in Hn. rewrite Hn. simpl. destruct (on_zero_core t c); simpl; auto.
Qed.

Lemma arrange_In cands t r h c :
  In c (arrange cands t r h) <-> In c (node_confined t cands r h).
Proof.
  destruct (arrange_shape cands t r h) as [pre [-> Hp]]. rewrite in_app_iff, <- (preferred_or_tail t (node_confined t cands r h) c).
  split; (intros [H|H]; [left|now right]).
  - eapply Permutation_in; eassumption.
  - eapply Permutation_in; [apply Permutation_sym|]; eassumption.
Qed.

Lemma node_confined_cases t cands r h :
  (eligible_nodes t cands r = [] /\ node_confined t cands r h = cands) \/
  (exists n, In n (eligible_nodes t cands r) /\ node_confined t cands r h = by_node t cands n).
Proof.
  unfold node_confined. destruct (eligible_nodes t cands r) as [|z l] eqn:E; [now left|right].
  eexists. split; [|reflexivity]. apply nth_In.
  assert (Hl : N.of_nat (length (z :: l)) <> 0) by (simpl; lia).
  pose proof (N.mod_lt h _ Hl). lia.
Qed.

Lemma node_confined_subset t cands r h c : In c (node_confined t cands r h) -> In c cands.
Proof.
  destruct (node_confined_cases t cands r h) as [[_ ->]|[n [_ ->]]]; [tauto|].
  unfold by_node. rewrite filter_In. tauto.
Qed.

Lemma node_confined_nodup t cands r h : NoDup cands -> NoDup (node_confined t cands r h).
Proof.
  destruct (node_confined_cases t cands r h) as [[_ ->]|[n [_ ->]]]; [tauto|]. apply NoDup_filter.
Qed.

(* ---- the clauses -------------------------------------------------------------------------- *)
Lemma arrange_subset cands t r h c : In c (arrange cands t r h) -> In c cands.
Proof. rewrite arrange_In. apply node_confined_subset. Qed.

Lemma NoDup_app_intro {A} (l1 l2 : list A) :
  NoDup l1 -> NoDup l2 -> (forall x, In x l1 -> In x l2 -> False) -> NoDup (l1 ++ l2).
Proof.
  induction l1 as [|a l1 IH]; simpl; intros H1 H2 Hd; [assumption|].
  inversion H1; subst. constructor.
  - rewrite in_app_iff. intros [H|H]; [contradiction|]. eapply Hd; [now left|eassumption].
  - apply IH; auto. intros x Hx. apply Hd. now right.
Qed.

Lemma zero_tail_nodup t cs : NoDup cs -> NoDup (zero_tail_of t cs).
Proof.
  intros H. unfold zero_tail_of. apply NoDup_app_intro.
  - now apply NoDup_filter.
  - destruct (mem_n 0 cs); repeat constructor; simpl; tauto.
  - intros x Hx H0. apply filter_In in Hx as [_ Hx].
    destruct (mem_n 0 cs); [|contradiction]. destruct H0 as [<-|[]]. discriminate.
Qed.

Lemma arrange_nodup cands t r h : NoDup cands -> NoDup (arrange cands t r h).
Proof.
  intros Hc. pose proof (node_confined_nodup t cands r h Hc) as Hcs.
  destruct (arrange_shape cands t r h) as [pre [-> Hp]]. apply NoDup_app_intro.
  - eapply Permutation_NoDup; [apply Permutation_sym; eassumption|]. now apply NoDup_filter.
  - now apply zero_tail_nodup.
  - intros x Hx Ht. apply (Permutation_in _ Hp) in Hx. unfold preferred_of in Hx. apply filter_In in Hx as [_ Hx].
    apply andb_true_iff in Hx as [Hx0 Hxz]. unfold zero_tail_of in Ht. apply in_app_iff in Ht as [Ht|Ht].
    + apply filter_In in Ht as [_ Ht]. apply andb_true_iff in Ht as [_ Ht]. rewrite Ht in Hxz. discriminate.
    + destruct (mem_n 0 _); [|contradiction]. destruct Ht as [<-|[]]. discriminate.
Qed.

Lemma arrange_node_complete cands t r h :
  (exists n, In n (map (nodeOf t) cands) /\ (r <= node_count t cands n)%Z /\
             forall c, In c (arrange cands t r h) <-> In c cands /\ nodeOf t c = n)
  \/ ((forall c, In c cands -> (node_count t cands (nodeOf t c) < r)%Z) /\
      forall c, In c (arrange cands t r h) <-> In c cands).
Proof.
  destruct (node_confined_cases t cands r h) as [[He Hc]|[n [Hn Hc]]].
  - right. split.
    + intros c Hin. unfold node_count.
      destruct (r <=? Z.of_nat (length (by_node t cands (nodeOf t c))))%Z eqn:E; [|lia].
      exfalso. assert (Hx : In (nodeOf t c) (eligible_nodes t cands r)).
      { unfold eligible_nodes. rewrite filter_In. split; [|assumption].
        unfold nodes_of. rewrite dedup_z_In. now apply in_map. }
      rewrite He in Hx. contradiction.
    + intros c. now rewrite arrange_In, Hc.
  - left. exists n. unfold eligible_nodes in Hn. apply filter_In in Hn as [Hn1 Hn2].
    unfold nodes_of in Hn1. rewrite dedup_z_In in Hn1. split; [assumption|]. split.
    + unfold node_count. lia.
    + intros c. rewrite arrange_In, Hc. unfold by_node. rewrite filter_In, Z.eqb_eq. tauto.
Qed.

Lemma arrange_zero_last cands t r h :
  exists pre core0,
    arrange cands t r h = pre ++ core0 ++ (if mem_n 0 (arrange cands t r h) then [0] else [])
    /\ Forall (fun c => c <> 0 /\ on_zero_core t c = false) pre
    /\ Forall (fun c => c <> 0 /\ on_zero_core t c = true) core0.
Proof.
  assert (Hm : mem_n 0 (arrange cands t r h) = mem_n 0 (node_confined t cands r h)).
  { destruct (mem_n 0 (node_confined t cands r h)) eqn:E.
    - apply mem_n_In. apply arrange_In. now apply mem_n_In.
    - apply mem_n_false. rewrite arrange_In. now apply mem_n_false. }
  rewrite Hm. destruct (arrange_shape cands t r h) as [pre [-> Hp]].
  exists pre. eexists. split; [unfold zero_tail_of; reflexivity|]. split.
  - apply Forall_forall. intros c Hc. apply (Permutation_in _ Hp) in Hc. unfold preferred_of in Hc.
    apply filter_In in Hc as [_ Hc]. apply andb_true_iff in Hc as [H0 Hz].
    apply negb_true_iff in H0, Hz. apply N.eqb_neq in H0. auto.
  - apply Forall_forall. intros c Hc. apply filter_In in Hc as [_ Hc]. apply andb_true_iff in Hc as [H0 Hz].
    apply negb_true_iff in H0. apply N.eqb_neq in H0. auto.
Qed.

(* SMT: within the part before CPU 0's core, one thread of every physical core comes before any second
   thread of a core *)
Lemma smt_split_spec t : forall l seen o s, smt_split t seen l = (o, s) ->
  NoDup (map (coreOf t) o) /\ (forall c, In c o -> ~ In (coreOf t c) seen) /\
  (forall c, In c s -> In (coreOf t c) seen \/ In (coreOf t c) (map (coreOf t) o)).
Proof.
  induction l as [|a l IH]; simpl; intros seen o s H.
  - inversion H; subst. simpl. repeat split; try constructor; contradiction.
  - destruct (mem_z (coreOf t a) seen) eqn:Em.
    + destruct (smt_split t seen l) as [o' s'] eqn:E. inversion H; subst.
      destruct (IH _ _ _ E) as [H1 [H2 H3]]. repeat split; auto.
      intros c [<-|Hc]; [left; now apply mem_z_In|auto].
    + destruct (smt_split t (coreOf t a :: seen) l) as [o' s'] eqn:E. inversion H; subst.
      destruct (IH _ _ _ E) as [H1 [H2 H3]]. repeat split.
      * simpl. constructor; [|assumption]. intros Hin. apply in_map_iff in Hin as [c [Hc1 Hc2]].
        apply (H2 c Hc2). left. congruence.
      * intros c [<-|Hc].
        -- intros Hin. apply mem_z_In in Hin. congruence.
        -- intros Hin. apply (H2 c Hc). now right.
      * intros c Hc. destruct (H3 c Hc) as [[Hs|Hs]|Hs].
        -- right. left. congruence.
        -- now left.
        -- right. now right.
Qed.

Lemma arrange_smt_spread cands t r h :
  exists firsts sibs,
    arrange cands t r h = firsts ++ sibs ++ zero_tail_of t (node_confined t cands r h)
    /\ NoDup (map (coreOf t) firsts)
    /\ forall c, In c sibs -> In (coreOf t c) (map (coreOf t) firsts).
Proof.
  unfold arrange. set (cs := node_confined t cands r h).
  destruct (preferred_of t cs) as [|p ps] eqn:E.
  - exists [], []. simpl. repeat split; [constructor|contradiction].
  - set (off := N.to_nat (N.shiftr h 32 mod N.of_nat (length (p :: ps)))).
    destruct (smt_split t [] (rotate off (p :: ps))) as [o s] eqn:Es.
    exists o, s. destruct (smt_split_spec t _ _ _ _ Es) as [H1 [_ H3]]. repeat split; auto.
    intros c Hc. destruct (H3 c Hc) as [[]|H]; assumption.
Qed.

(* ---- determinism: only the candidates' own topology entries matter ------------------------------ *)
Lemma smt_split_ext t1 t2 : forall l seen,
  (forall c, In c l -> coreOf t1 c = coreOf t2 c) -> smt_split t1 seen l = smt_split t2 seen l.
Proof.
  induction l as [|a l IH]; simpl; intros seen H; [reflexivity|].
  rewrite (H a) by now left. rewrite !IH by (intros; apply H; now right). reflexivity.
Qed.

Lemma arrange_ext cands t1 t2 r h :
  (forall c, In c cands -> nodeOf t1 c = nodeOf t2 c /\ coreOf t1 c = coreOf t2 c) ->
  zeroCore t1 = zeroCore t2 ->
  arrange cands t1 r h = arrange cands t2 r h.
Proof.
  intros Hc Hz.
  assert (Hbn : forall n, by_node t1 cands n = by_node t2 cands n).
  { intros n. unfold by_node. apply filter_ext_in. intros c Hin. now rewrite (proj1 (Hc c Hin)). }
  assert (Hno : nodes_of t1 cands = nodes_of t2 cands).
  { unfold nodes_of. f_equal. apply map_ext_in. intros c Hin. apply Hc, Hin. }
  assert (He : eligible_nodes t1 cands r = eligible_nodes t2 cands r).
  { unfold eligible_nodes. rewrite Hno. apply filter_ext. intros n. now rewrite Hbn. }
  assert (Hcs : node_confined t1 cands r h = node_confined t2 cands r h).
  { unfold node_confined. rewrite He. destruct (eligible_nodes t2 cands r); [reflexivity|apply Hbn]. }
  assert (Hoz : forall c, In c cands -> on_zero_core t1 c = on_zero_core t2 c).
  { intros c Hin. unfold on_zero_core. now rewrite Hz, (proj2 (Hc c Hin)). }
  assert (Hsub : forall c, In c (node_confined t2 cands r h) -> In c cands) by apply node_confined_subset.
  unfold arrange. rewrite Hcs. set (cs := node_confined t2 cands r h) in *.
  assert (Hp : preferred_of t1 cs = preferred_of t2 cs).
  { unfold preferred_of. apply filter_ext_in. intros c Hin. now rewrite Hoz by auto. }
  assert (Ht : zero_tail_of t1 cs = zero_tail_of t2 cs).
  { unfold zero_tail_of. f_equal. apply filter_ext_in. intros c Hin. now rewrite Hoz by auto. }
  rewrite Hp, Ht. destruct (preferred_of t2 cs) as [|p ps] eqn:E; [reflexivity|].
  rewrite (smt_split_ext t1 t2); [reflexivity|].
  intros c Hin. apply Hc, Hsub. apply (Permutation_in _ (rotate_perm _ _)) in Hin.
  rewrite <- E in Hin. unfold preferred_of in Hin. apply filter_In in Hin. tauto.
Qed.

(* ---- the executable clause checkers mean what they say -------------------------------------------- *)
Lemma nodup_n_spec l : nodup_n l = true <-> NoDup l.
Proof.
  induction l as [|a l IH]; simpl.
  - split; [constructor|reflexivity].
  - rewrite andb_true_iff, negb_true_iff, mem_n_false, IH. split.
    + intros [H1 H2]. now constructor.
    + intros H. inversion H; auto.
Qed.

Lemma subset_n_spec l1 l2 : subset_n l1 l2 = true <-> forall c, In c l1 -> In c l2.
Proof.
  unfold subset_n. rewrite forallb_forall. split; intros H c Hc; specialize (H c Hc); now apply mem_n_In.
Qed.

Lemma same_set_n_spec l1 l2 : same_set_n l1 l2 = true <-> forall c, In c l1 <-> In c l2.
Proof.
  unfold same_set_n. rewrite andb_true_iff, !subset_n_spec. split.
  - intros [H1 H2] c. split; auto.
  - intros H. split; intros c; apply H.
Qed.

Lemma nodes_of_In t cands n : In n (nodes_of t cands) <-> In n (map (nodeOf t) cands).
Proof. unfold nodes_of. apply dedup_z_In. Qed.

Lemma node_complete_b_arrange cands t r h : node_complete_b t cands r (arrange cands t r h) = true.
Proof.
  unfold node_complete_b. apply orb_true_iff.
  destruct (arrange_node_complete cands t r h) as [[n [Hn [Hr Hc]]]|[Hs Hc]].
  - left. apply existsb_exists. exists n. split; [now apply nodes_of_In|].
    apply andb_true_iff. split; [lia|]. apply same_set_n_spec. intros x. rewrite Hc.
    unfold by_node. rewrite filter_In, Z.eqb_eq. tauto.
  - right. apply andb_true_iff. split.
    + apply forallb_forall. intros n Hin. apply nodes_of_In, in_map_iff in Hin as [c [<- Hin]]. specialize (Hs c Hin). lia.
    + apply same_set_n_spec. exact Hc.
Qed.

Lemma zero_last_b_app t pre core0 z :
  Forall (fun c => c <> 0 /\ on_zero_core t c = false) pre ->
  Forall (fun c => c <> 0 /\ on_zero_core t c = true) core0 ->
  (z = [] \/ z = [0]) ->
  zero_last_b t (pre ++ core0 ++ z) = true.
Proof.
  intros Hp Hc Hz. induction Hp as [|a pre [Ha1 Ha2] _ IH]; simpl.
  - induction Hc as [|a core0 [Ha1 Ha2] Hc IH]; simpl.
    + destruct Hz as [->| ->]; reflexivity.
    + apply N.eqb_neq in Ha1. rewrite Ha1, Ha2, IH, andb_true_r. apply forallb_forall. intros d Hd.
      apply in_app_iff in Hd as [Hd|Hd].
      * rewrite Forall_forall in Hc. destruct (Hc d Hd) as [_ ->]. apply orb_true_r.
      * destruct Hz as [->| ->]; [contradiction|]. destruct Hd as [<-|[]]. reflexivity.
  - apply N.eqb_neq in Ha1. now rewrite Ha1, Ha2.
Qed.

Lemma zero_last_b_arrange cands t r h : zero_last_b t (arrange cands t r h) = true.
Proof.
  destruct (arrange_zero_last cands t r h) as [pre [core0 [E [Hp Hc]]]]. rewrite E.
  apply zero_last_b_app; auto. destruct (mem_n 0 _); auto.
Qed.

(* ... and only then: whatever output the checkers accept has the stated shape *)
Lemma node_complete_b_sound t cands r out : node_complete_b t cands r out = true ->
  (exists n, In n (map (nodeOf t) cands) /\ (r <= node_count t cands n)%Z /\
             forall c, In c out <-> In c cands /\ nodeOf t c = n)
  \/ ((forall c, In c cands -> (node_count t cands (nodeOf t c) < r)%Z) /\ forall c, In c out <-> In c cands).
Proof.
  unfold node_complete_b. intros H. apply orb_true_iff in H as [H|H].
  - left. apply existsb_exists in H as [n [Hin H]]. apply andb_true_iff in H as [H1 H2].
    exists n. split; [now apply nodes_of_In|]. split; [lia|].
    intros x. rewrite (proj1 (same_set_n_spec _ _) H2 x). unfold by_node. rewrite filter_In, Z.eqb_eq. tauto.
  - right. apply andb_true_iff in H as [H1 H2]. split.
    + intros c Hin. rewrite forallb_forall in H1. assert (Hn : In (nodeOf t c) (nodes_of t cands)) by (apply nodes_of_In; now apply in_map).
      specialize (H1 _ Hn). lia.
    + now apply same_set_n_spec.
Qed.

Lemma zero_last_b_sound t out : zero_last_b t out = true ->
  exists pre core0,
    out = pre ++ core0 ++ (if mem_n 0 out then [0] else [])
    /\ Forall (fun c => c <> 0 /\ on_zero_core t c = false) pre
    /\ Forall (fun c => c <> 0 /\ on_zero_core t c = true) core0.
Proof.
  induction out as [|c r IH]; intros H.
  - exists [], []. repeat split; constructor.
  - cbn [zero_last_b] in H. destruct (c =? 0) eqn:E0.
    + apply N.eqb_eq in E0. subst c. destruct r; [|discriminate]. exists [], []. repeat split; constructor.
    + assert (Hm : mem_n 0 (c :: r) = mem_n 0 r) by (unfold mem_n; cbn [existsb]; rewrite (N.eqb_sym 0 c), E0; reflexivity).
      rewrite Hm. apply N.eqb_neq in E0. destruct (on_zero_core t c) eqn:Ez.
      * apply andb_true_iff in H as [Hall H]. destruct (IH H) as [pre [core0 [E [Hp Hc]]]].
        assert (pre = []) as ->.
        { destruct pre as [|x pre]; [reflexivity|]. exfalso. inversion Hp as [|? ? [Hx1 Hx2] _]; subst.
          rewrite forallb_forall in Hall. assert (Hin : In x r) by (rewrite E; now left).
          specialize (Hall x Hin). apply orb_true_iff in Hall as [Hx|Hx]; [apply N.eqb_eq in Hx; contradiction|congruence]. }
        exists [], (c :: core0). split; [simpl in *; now rewrite <- E|]. split; [constructor|]. constructor; auto.
      * destruct (IH H) as [pre [core0 [E [Hp Hc]]]]. exists (c :: pre), core0.
        split; [simpl; now rewrite <- E|]. split; [constructor; auto|assumption].
Qed.

(* ---- Default: pickCandidates over the performance filter, then arrange --------------------------------- *)
Lemma default_pins_props allowed src topo_for r key out :
  default_pins allowed (perf_cpus src allowed) topo_for r key = Some out ->
  (forall c, In c out -> In c allowed) /\ (NoDup allowed -> NoDup out) /\ zero_last_b (topo_for (pick_candidates allowed (perf_cpus src allowed) r)) out = true.
Proof.
  unfold default_pins. destruct allowed as [|a al] eqn:Ea; [discriminate|]. rewrite <- Ea.
  destruct (pick_candidates allowed (perf_cpus src allowed) r) as [|x xs] eqn:Ec; [discriminate|]. rewrite <- Ec.
  intros H. injection H as <-. repeat split.
  - intros c Hc. apply arrange_subset in Hc.
    destruct (pick_candidates_cases allowed (perf_cpus src allowed) r) as [E|E]; rewrite E in Hc; [assumption|].
    eapply perf_cpus_subset; eassumption.
  - intros Hn. apply arrange_nodup.
    destruct (pick_candidates_cases allowed (perf_cpus src allowed) r) as [E|E]; rewrite E; [assumption|].
    now apply perf_cpus_nodup.
  - apply zero_last_b_arrange.
Qed.

(* Lemmas about model/RouteCfg.v for C41. *)
From Coq Require Import List NArith ZArith Lia Bool DecimalN DecimalPos.
From Coq Require Import ZifyN ZifyNat ZifyBool.
Import ListNotations.
From NV Require Import model.RouteCfg.
Open Scope N_scope.

(* ---- decimal strings --------------------------------------------------------------------------- *)

Definition digits_ok (ds : list N) : Prop := Forall (fun d => d < 10) ds.

Lemma digits_val_text ds : digits_ok ds -> forall acc,
  digits_val acc (map (fun d => d + 48) ds) = Some (dec_value acc ds).
Proof.
  induction 1 as [|d r Hd _ IH]; intros acc; cbn [map digits_val dec_value]; [reflexivity|].
  unfold is_digit.
  destruct (N.leb_spec 48 (d + 48)); [|lia]. destruct (N.leb_spec (d + 48) 57); [|lia]. cbn [andb].
  replace (d + 48 - 48) with d by lia. apply IH.
Qed.

Lemma digits_val_sound s : forall acc v, digits_val acc s = Some v ->
  exists ds, s = map (fun d => d + 48) ds /\ digits_ok ds /\ v = dec_value acc ds.
Proof.
  induction s as [|c r IH]; intros acc v H; cbn [digits_val] in H.
  - injection H as <-. exists []. repeat split. constructor.
  - destruct (is_digit c) eqn:Hc; [|discriminate]. unfold is_digit in Hc.
    destruct (IH _ _ H) as [ds [-> [Hok ->]]].
    exists ((c - 48) :: ds). cbn [map dec_value]. repeat split.
    + f_equal. lia.
    + constructor; [lia|assumption].
Qed.

Lemma split_sign_other c r : c <> 43 -> c <> 45 -> split_sign (c :: r) = (false, c :: r).
Proof.
  intros H1 H2. unfold split_sign. destruct c as [|p]; [reflexivity|].
  do 6 (destruct p as [p|p|]; try reflexivity); congruence.
Qed.

Definition atoi_body (neg : bool) (ds : list N) : option Z :=
  match ds with
  | [] => None
  | _ :: _ =>
      match digits_val 0 ds with
      | None => None
      | Some v => let v' := if neg then (- v)%Z else v in if in_int v' then Some v' else None
      end
  end.

Lemma atoi_unfold s : atoi s = atoi_body (fst (split_sign s)) (snd (split_sign s)).
Proof. unfold atoi. destruct (split_sign s). reflexivity. Qed.

Lemma atoi_body_text neg ds : ds <> [] -> digits_ok ds ->
  atoi_body neg (map (fun d => d + 48) ds) = if in_int (dec_signed neg ds) then Some (dec_signed neg ds) else None.
Proof.
  intros Hne Hok. unfold atoi_body, dec_signed. rewrite (digits_val_text ds Hok 0%Z).
  destruct ds; [congruence|]. cbn [map]. destruct neg; reflexivity.
Qed.

Lemma atoi_digits neg ds : ds <> [] -> digits_ok ds ->
  atoi (dec_text neg ds) = if in_int (dec_signed neg ds) then Some (dec_signed neg ds) else None.
Proof.
  intros Hne Hok. rewrite atoi_unfold. unfold dec_text. destruct neg; cbn [app].
  - cbn [split_sign fst snd]. now apply atoi_body_text.
  - destruct ds as [|d r]; [congruence|]. cbn [map].
    assert (Hd : d < 10) by (inversion Hok; assumption).
    rewrite split_sign_other by lia. cbn [fst snd].
    apply (atoi_body_text false (d :: r)); assumption.
Qed.

Lemma atoi_plus ds : ds <> [] -> digits_ok ds ->
  atoi (43 :: dec_text false ds) = if in_int (dec_signed false ds) then Some (dec_signed false ds) else None.
Proof.
  intros Hne Hok. rewrite atoi_unfold. unfold dec_text. cbn [app split_sign fst snd].
  now apply atoi_body_text.
Qed.

(* a decimal string and the integer it denotes are the same configuration value *)
Lemma parse_num_text neg ds : ds <> [] -> digits_ok ds ->
  parse_num (YStr (dec_text neg ds)) = parse_num (YInt (dec_signed neg ds)).
Proof. intros. cbn [parse_num]. now apply atoi_digits. Qed.

Lemma parse_num_text_plus ds : ds <> [] -> digits_ok ds ->
  parse_num (YStr (43 :: dec_text false ds)) = parse_num (YInt (dec_signed false ds)).
Proof. intros. cbn [parse_num]. now apply atoi_plus. Qed.

Lemma atoi_body_sound neg body z : atoi_body neg body = Some z ->
  exists ds, body = map (fun d => d + 48) ds /\ ds <> [] /\ digits_ok ds /\ in_int z = true /\
             z = (if neg then - dec_value 0 ds else dec_value 0 ds)%Z.
Proof.
  unfold atoi_body. intros Hb. destruct body as [|c r]; [discriminate|].
  destruct (digits_val 0 (c :: r)) as [v|] eqn:Ev; [|discriminate].
  destruct (digits_val_sound _ _ _ Ev) as [ds [E [Hok ->]]].
  cbv zeta in Hb. destruct (in_int _) eqn:Hin; [|discriminate]. injection Hb as <-.
  exists ds. repeat split; try assumption. intros ->. discriminate.
Qed.

(* strings that are accepted are decimal strings (optional sign, at least one digit, nothing else) *)
Lemma atoi_sound s z : atoi s = Some z ->
  exists sign ds, s = sign ++ map (fun d => d + 48) ds /\ (sign = [] \/ sign = [43] \/ sign = [45]) /\
                  ds <> [] /\ digits_ok ds /\ in_int z = true /\
                  z = if str_eqb sign [45] then (- dec_value 0 ds)%Z else dec_value 0 ds.
Proof.
  rewrite atoi_unfold. intros H. destruct s as [|c r]; [discriminate|].
  destruct (N.eq_dec c 43) as [->|N43]; [|destruct (N.eq_dec c 45) as [->|N45]].
  - cbn [split_sign fst snd] in H.
    destruct (atoi_body_sound _ _ _ H) as [ds [-> [Hne [Hok [Hin ->]]]]]. exists [43], ds. cbn. repeat split; auto.
  - cbn [split_sign fst snd] in H.
    destruct (atoi_body_sound _ _ _ H) as [ds [-> [Hne [Hok [Hin ->]]]]]. exists [45], ds. cbn. repeat split; auto.
  - rewrite split_sign_other in H by assumption. cbn [fst snd] in H.
    destruct (atoi_body_sound _ _ _ H) as [ds [E [Hne [Hok [Hin ->]]]]]. exists [], ds. cbn. repeat split; auto.
Qed.

(* ---- canonical rendering ----------------------------------------------------------------------- *)

Lemma uint_digits_ok u : digits_ok (uint_digits u).
Proof. induction u; cbn [uint_digits]; constructor; try assumption; lia. Qed.

Lemma of_uint_acc_value u : forall acc,
  Z.pos (Pos.of_uint_acc u acc) = dec_value (Z.pos acc) (uint_digits u).
Proof.
  induction u as [|u IH|u IH|u IH|u IH|u IH|u IH|u IH|u IH|u IH|u IH]; intros acc;
    cbn [Pos.of_uint_acc uint_digits dec_value]; [reflexivity|..]; rewrite IH; f_equal; lia.
Qed.

Lemma of_uint_value u : Z.of_N (Pos.of_uint u) = dec_value 0 (uint_digits u).
Proof.
  induction u as [|u IH|u IH|u IH|u IH|u IH|u IH|u IH|u IH|u IH|u IH];
    cbn [Pos.of_uint uint_digits dec_value]; [reflexivity|exact IH|..];
    cbn [Z.of_N]; rewrite of_uint_acc_value; reflexivity.
Qed.

Lemma to_uint_value n : dec_value 0 (uint_digits (N.to_uint n)) = Z.of_N n.
Proof.
  rewrite <- of_uint_value. change (Pos.of_uint (N.to_uint n)) with (N.of_uint (N.to_uint n)).
  now rewrite DecimalN.Unsigned.of_to.
Qed.

Lemma to_uint_nonempty n : uint_digits (N.to_uint n) <> [].
Proof.
  destruct n as [|p]; cbn [N.to_uint uint_digits]; [discriminate|].
  pose proof (DecimalPos.Unsigned.to_uint_nonnil p) as H.
  destruct (Pos.to_uint p); cbn [uint_digits]; congruence.
Qed.

Lemma decimal_signed z : dec_signed (z <? 0)%Z (uint_digits (N.to_uint (Z.abs_N z))) = z.
Proof.
  unfold dec_signed. rewrite to_uint_value. destruct (Z.ltb_spec z 0); lia.
Qed.

Lemma parse_num_decimal z : parse_num (YStr (decimal z)) = parse_num (YInt z).
Proof.
  unfold decimal. rewrite parse_num_text by (apply to_uint_nonempty || apply uint_digits_ok).
  now rewrite decimal_signed.
Qed.

(* ---- numbers: nothing else is accepted --------------------------------------------------------- *)

Lemma parse_num_cases v z : parse_num v = Some z ->
  (v = YInt z /\ in_int z = true) \/ (exists s, v = YStr s /\ atoi s = Some z).
Proof.
  destruct v; cbn [parse_num]; intros H; try discriminate.
  - right. eauto.
  - left. destruct (in_int z0) eqn:E; [|discriminate]. injection H as ->. auto.
Qed.

Lemma parse_num_in_int v z : parse_num v = Some z -> in_int z = true.
Proof.
  intros H. destruct (parse_num_cases v z H) as [[_ Hi]|[s [_ Ha]]]; [assumption|].
  destruct (atoi_sound s z Ha) as [_ [_ [_ [_ [_ [_ [Hi _]]]]]]]. assumption.
Qed.

(* ---- map_opt ----------------------------------------------------------------------------------- *)

Lemma map_opt_Forall2 {A B} (f : A -> option B) l : forall rs,
  map_opt f l = Some rs <-> Forall2 (fun a b => f a = Some b) l rs.
Proof.
  induction l as [|a r IH]; intros rs; cbn [map_opt].
  - split; [intros H; injection H as <-; constructor|intros H; inversion H; reflexivity].
  - split.
    + intros H. destruct (f a) as [b|] eqn:Ea; [|discriminate].
      destruct (map_opt f r) as [bs|] eqn:Er; [|discriminate]. injection H as <-.
      constructor; [assumption|]. now apply IH.
    + intros H. inversion H as [|? b ? bs Ha Hr]; subst. rewrite Ha.
      apply IH in Hr. now rewrite Hr.
Qed.

Lemma Forall2_imp {A B} (P Q : A -> B -> Prop) l1 l2 :
  (forall a b, P a b -> Q a b) -> Forall2 P l1 l2 -> Forall2 Q l1 l2.
Proof. intros H F. induction F; constructor; auto. Qed.

(* ---- well-formed entries (the declarative reading of the configuration) -------------------------- *)

(* a numeric field: the stated number when the key is present, the default only when it is absent *)
Definition num_field (m : list (list N * yaml)) (k : list N) (default : option Z) (ok : Z -> Prop) (got : Z) : Prop :=
  match ylookup k m with
  | None => default = Some got
  | Some v => parse_num v = Some got /\ ok got
  end.

Definition route_wf (pp : list N -> option prefix) (nets : list prefix) (e : yaml) (r : route) : Prop :=
  exists m mtu s c,
    e = YMap m /\ r = (mtu, 0%Z, c, [], true) /\
    num_field m k_mtu None (fun z => 500 <= z)%Z mtu /\
    ylookup k_route m = Some (YStr s) /\ pp s = Some c /\
    route_inside nets c = true.

Definition gateway_wf (pa : list N -> option addr) (v : yaml) (g : addr * Z) : Prop :=
  exists gm s,
    v = YMap gm /\ ylookup k_gateway gm = Some (YStr s) /\ pa s = Some (fst g) /\
    num_field gm k_weight (Some 1%Z) (fun z => 1 <= z <= max_int32)%Z (snd g).

Definition via_wf (pa : list N -> option addr) (m : list (list N * yaml)) (via : list (addr * Z)) : Prop :=
  (exists s ip, ylookup k_via m = Some (YStr s) /\ pa s = Some ip /\ via = [(ip, 1%Z)]) \/
  (exists l, ylookup k_via m = Some (YList l) /\ Forall2 (gateway_wf pa) l via).

Definition install_wf (m : list (list N * yaml)) (inst : bool) : Prop :=
  match ylookup k_install m with
  | None => inst = true
  | Some vi => parse_install vi = Some inst
  end.

Definition unsafe_wf (pp : list N -> option prefix) (pa : list N -> option addr) (nets : list prefix)
           (e : yaml) (r : route) : Prop :=
  exists m mtu metric s c via inst,
    e = YMap m /\ r = (mtu, metric, c, via, inst) /\
    num_field m k_mtu (Some 0%Z) (fun z => z = 0 \/ 500 <= z)%Z mtu /\
    num_field m k_metric (Some 0%Z) (fun z => 0 <= z <= max_int32)%Z metric /\
    via_wf pa m via /\
    ylookup k_route m = Some (YStr s) /\ pp s = Some c /\
    install_wf m inst /\
    base_in_networks nets c = false.

Section Routes.
  Variable pp : list N -> option prefix.
  Variable nets : list prefix.

  Lemma route_entry_iff e r : parse_route_entry pp nets e = Some r <-> route_wf pp nets e r.
  Proof.
    split.
    - intros H. unfold parse_route_entry in H.
      destruct e as [| | | | |m|]; try discriminate.
      destruct (ylookup k_mtu m) as [vm|] eqn:Em; [|discriminate].
      destruct (parse_num vm) as [mtu|] eqn:En; [|discriminate].
      destruct (Z.ltb_spec mtu 500); [discriminate|].
      destruct (ylookup k_route m) as [vr|] eqn:Er; [|discriminate].
      destruct vr as [s| | | | | |]; cbn [parse_cidr] in H; try discriminate.
      destruct (pp s) as [c|] eqn:Ec; [|discriminate].
      destruct (route_inside nets c) eqn:Ei; [|discriminate]. injection H as <-.
      exists m, mtu, s, c. unfold num_field. rewrite Em. repeat split; auto.
    - intros [m [mtu [s [c [-> [-> [Hm [Hr [Hc Hi]]]]]]]]]. unfold num_field in Hm.
      unfold parse_route_entry.
      destruct (ylookup k_mtu m) as [vm|]; [|discriminate]. destruct Hm as [-> Hge].
      destruct (Z.ltb_spec mtu 500); [lia|].
      rewrite Hr. cbn [parse_cidr]. rewrite Hc, Hi. reflexivity.
  Qed.

  Lemma routes_iff v rs : parse_routes pp nets v = Some rs <->
    (v = YNull /\ rs = []) \/ (exists es, v = YList es /\ Forall2 (route_wf pp nets) es rs).
  Proof.
    split.
    - intros H. destruct v as [| | | |l| |]; cbn [parse_routes] in H; try discriminate.
      + right. exists l. split; [reflexivity|]. apply map_opt_Forall2 in H.
        eapply Forall2_imp; [|exact H]. intros a b. apply route_entry_iff.
      + left. injection H as <-. auto.
    - intros [[-> ->]|[es [-> F]]]; cbn [parse_routes]; [reflexivity|].
      apply map_opt_Forall2. eapply Forall2_imp; [|exact F]. intros a b. apply route_entry_iff.
  Qed.
End Routes.

Section Entries.
  Variable pp : list N -> option prefix.
  Variable pa : list N -> option addr.
  Variable nets : list prefix.

  Lemma gateway_iff v g : parse_gateway pa v = Some g <-> gateway_wf pa v g.
  Proof.
    split.
    - intros H. unfold parse_gateway in H.
      destruct v as [| | | | |gm|]; try discriminate.
      destruct (ylookup k_gateway gm) as [vg|] eqn:Eg; [|discriminate].
      destruct vg as [s| | | | | |]; try discriminate.
      destruct (pa s) as [ip|] eqn:Ea; [|discriminate].
      exists gm, s. unfold num_field.
      destruct (ylookup k_weight gm) as [vw|] eqn:Ew.
      + destruct (parse_num vw) as [w|] eqn:En; [|discriminate].
        destruct (Z.ltb_spec w 1); [discriminate|]. destruct (Z.ltb_spec max_int32 w); [discriminate|].
        cbn [orb] in H. injection H as <-. cbn [fst snd]. repeat split; auto; lia.
      + cbn [parse_num] in H. change (in_int 1) with true in H. cbv iota in H.
        change ((1 <? 1)%Z || (max_int32 <? 1)%Z) with false in H. injection H as <-.
        cbn [fst snd]. repeat split; auto.
    - intros [gm [s [-> [Hg [Ha Hw]]]]]. unfold parse_gateway. rewrite Hg, Ha.
      unfold num_field in Hw. destruct g as [ip w]. cbn [fst snd] in *.
      destruct (ylookup k_weight gm) as [vw|].
      + destruct Hw as [-> Hr].
        destruct (Z.ltb_spec w 1); [lia|]. destruct (Z.ltb_spec max_int32 w); [lia|]. reflexivity.
      + injection Hw as <-. reflexivity.
  Qed.

  Lemma via_iff m via :
    (exists vv, ylookup k_via m = Some vv /\ parse_via pa vv = Some via) <-> via_wf pa m via.
  Proof.
    split.
    - intros [vv [Hv H]]. unfold parse_via in H.
      destruct vv as [s| | | |l| |]; try discriminate.
      + destruct (pa s) as [ip|] eqn:Ea; [|discriminate]. injection H as <-. left. eauto.
      + right. exists l. split; [assumption|].
        apply map_opt_Forall2 in H. eapply Forall2_imp; [|exact H]. intros a b. apply gateway_iff.
    - intros [[s [ip [Hv [Ha ->]]]]|[l [Hv F]]].
      + exists (YStr s). split; [assumption|]. cbn [parse_via]. now rewrite Ha.
      + exists (YList l). split; [assumption|]. cbn [parse_via]. apply map_opt_Forall2.
        eapply Forall2_imp; [|exact F]. intros a b. apply gateway_iff.
  Qed.

  Lemma unsafe_mtu_iff m mtu :
    parse_unsafe_mtu m = Some mtu <-> num_field m k_mtu (Some 0%Z) (fun z => z = 0 \/ 500 <= z)%Z mtu.
  Proof.
    unfold parse_unsafe_mtu, num_field. destruct (ylookup k_mtu m) as [vm|]; [|tauto].
    destruct (parse_num vm) as [z|].
    - destruct (Z.eqb_spec z 0) as [E0|N0]; destruct (Z.ltb_spec z 500) as [Hl|Hg]; cbn [negb andb]; split; intros H.
      + injection H as <-. split; [reflexivity|lia].
      + destruct H as [H _]. exact H.
      + injection H as <-. split; [reflexivity|lia].
      + destruct H as [H _]. exact H.
      + discriminate.
      + destruct H as [H Hr]. injection H as <-. lia.
      + injection H as <-. split; [reflexivity|lia].
      + destruct H as [H _]. exact H.
    - split; [discriminate|intros [H _]; discriminate].
  Qed.

  Lemma unsafe_metric_iff m metric :
    parse_unsafe_metric m = Some metric <-> num_field m k_metric (Some 0%Z) (fun z => 0 <= z <= max_int32)%Z metric.
  Proof.
    unfold parse_unsafe_metric, num_field. destruct (ylookup k_metric m) as [vm|].
    - destruct (parse_num vm) as [z|].
      + destruct (Z.ltb_spec z 0) as [Hl|Hl]; destruct (Z.ltb_spec max_int32 z) as [Hh|Hh]; cbn [orb]; split; intros H;
          try discriminate;
          try (destruct H as [H' Hr]; injection H' as <-; lia).
        * injection H as <-. split; [reflexivity|lia].
        * destruct H as [H _]. exact H.
      + split; [discriminate|intros [H _]; discriminate].
    - cbn. tauto.
  Qed.

  Lemma unsafe_install_iff m inst : parse_unsafe_install m = Some inst <-> install_wf m inst.
  Proof.
    unfold parse_unsafe_install, install_wf. destruct (ylookup k_install m); [tauto|].
    split; [intros H; injection H as <-; reflexivity|intros ->; reflexivity].
  Qed.

  Lemma unsafe_entry_iff e r : parse_unsafe_entry pp pa nets e = Some r <-> unsafe_wf pp pa nets e r.
  Proof.
    split.
    - intros H. unfold parse_unsafe_entry in H.
      destruct e as [| | | | |m|]; try discriminate.
      destruct (parse_unsafe_mtu m) as [mtu|] eqn:Emtu; [|discriminate].
      destruct (parse_unsafe_metric m) as [metric|] eqn:Emet; [|discriminate].
      destruct (ylookup k_via m) as [vv|] eqn:Ev; [|discriminate].
      destruct (parse_via pa vv) as [via|] eqn:Evia; [|discriminate].
      destruct (ylookup k_route m) as [vr|] eqn:Er; [|discriminate].
      destruct (parse_unsafe_install m) as [inst|] eqn:Ei; [|discriminate].
      destruct vr as [s| | | | | |]; cbn [parse_cidr] in H; try discriminate.
      destruct (pp s) as [c|] eqn:Ec; [|discriminate].
      destruct (base_in_networks nets c) eqn:Eb; [discriminate|]. injection H as <-.
      exists m, mtu, metric, s, c, via, inst.
      split; [reflexivity|]. split; [reflexivity|].
      split; [now apply unsafe_mtu_iff|]. split; [now apply unsafe_metric_iff|].
      split; [apply via_iff; eauto|]. split; [assumption|]. split; [assumption|].
      split; [now apply unsafe_install_iff|assumption].
    - intros [m [mtu [metric [s [c [via [inst [-> [-> [Hmtu [Hmet [Hvia [Hr [Hc [Hi Hb]]]]]]]]]]]]]]].
      apply unsafe_mtu_iff in Hmtu. apply unsafe_metric_iff in Hmet. apply unsafe_install_iff in Hi.
      apply via_iff in Hvia as [vv [Hv Hpv]].
      unfold parse_unsafe_entry. rewrite Hmtu, Hmet, Hv, Hpv, Hr, Hi. cbn [parse_cidr]. rewrite Hc, Hb. reflexivity.
  Qed.

  Lemma unsafe_routes_iff v rs : parse_unsafe_routes pp pa nets v = Some rs <->
    (v = YNull /\ rs = []) \/ (exists es, v = YList es /\ Forall2 (unsafe_wf pp pa nets) es rs).
  Proof.
    split.
    - intros H. destruct v as [| | | |l| |]; cbn [parse_unsafe_routes] in H; try discriminate.
      + right. exists l. split; [reflexivity|]. apply map_opt_Forall2 in H.
        eapply Forall2_imp; [|exact H]. intros a b. apply unsafe_entry_iff.
      + left. injection H as <-. auto.
    - intros [[-> ->]|[es [-> F]]]; cbn [parse_unsafe_routes]; [reflexivity|].
      apply map_opt_Forall2. eapply Forall2_imp; [|exact F]. intros a b. apply unsafe_entry_iff.
  Qed.
End Entries.

(* ---- inside / outside -------------------------------------------------------------------------- *)

(* an accepted route lies inside one of the networks: every address of the route is an address of it *)
Lemma route_inside_covers nets c : route_inside nets c = true ->
  exists n, In n nets /\ forall v, contains c (fst (fst c)) v = true -> contains n (fst (fst c)) v = true.
Proof.
  destruct c as [[cf cv] cb]. cbn [route_inside fst]. intros H.
  apply existsb_exists in H as [[[nf nv] nb] [Hin Hn]]. cbn [snd] in Hn.
  exists (nf, nv, nb). split; [assumption|]. intros v Hc.
  unfold contains in *.
  apply andb_prop in Hn as [Hn Hle]. apply andb_prop in Hn as [Hn H3]. apply andb_prop in Hn as [H1 H2].
  apply andb_prop in Hc as [Hc C3]. apply andb_prop in Hc as [_ C2].
  apply N.eqb_eq in H1. subst nf.
  apply N.leb_le in H2, Hle, C2. apply N.eqb_eq in H3, C3.
  rewrite N.eqb_refl. cbn [andb]. apply andb_true_intro. split; [now apply N.leb_le|].
  apply N.eqb_eq. rewrite H3.
  set (L := fam_bits cf) in *.
  replace (L - nb) with ((L - cb) + (cb - nb)) by lia.
  rewrite <- !N.shiftr_shiftr. now rewrite C3.
Qed.

(* an accepted unsafe route has its base address outside every network *)
Lemma base_outside nets c : base_in_networks nets c = false ->
  forall n, In n nets -> contains n (fst (fst c)) (snd (fst c)) = false.
Proof.
  destruct c as [[cf cv] cb]. cbn [base_in_networks fst snd]. intros H n Hin.
  destruct (contains n cf cv) eqn:E; [|reflexivity].
  assert (existsb (fun n => contains n cf cv) nets = true) by (apply existsb_exists; eauto). congruence.
Qed.

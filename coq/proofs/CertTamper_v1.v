(* C02, version 1: the signed bytes (the re-marshalled details) determine every identity field. *)
From Coq Require Import List NArith ZArith Lia Bool.
From Coq Require Import ZifyN ZifyNat ZifyBool.
Import ListNotations.
From NV Require Import lib.Bytes lib.Proto lib.Der model.CertCodec model.CertTamper
  proofs.CertCodec_sort proofs.CertCodec_v2 proofs.CertCodec_v1 proofs.CertCodec_main proofs.CertTamper_v2.
Open Scope N_scope.

(* ---- what the message loops preserve ---- *)

Lemma msg_loop_inv {St} (step : St -> list N -> option (St * list N)) (P : St -> Prop) :
  (forall st b st' b', step st b = Some (st', b') -> P st -> P st') ->
  forall k b st st', msg_loop step k st b = Some st' -> P st -> P st'.
Proof.
  intros Hs. induction k as [|k IH]; intros b st st' H HP.
  - destruct b; [|discriminate]. inversion H; now subst.
  - destruct b as [|x b']; [inversion H; now subst|]. cbn [msg_loop] in H.
    destruct (step st (x :: b')) as [[st1 b1]|] eqn:E; [|discriminate].
    eapply IH; [exact H|]. eapply Hs; eassumption.
Qed.

Lemma msg_run_inv {St} (step : St -> list N -> option (St * list N)) (P : St -> Prop) :
  (forall st b st' b', step st b = Some (st', b') -> P st -> P st') ->
  forall b st st', msg_run step st b = Some st' -> P st -> P st'.
Proof. intros Hs b. unfold msg_run. apply msg_loop_inv. exact Hs. Qed.

(* what the handlers can do to the state *)
Lemma pb_unknown_out {St} (st st' : St) num typ b r : pb_unknown st num typ b = Some (st', r) -> st' = st.
Proof. unfold pb_unknown. destruct (skip_field_pw num typ b); [|discriminate]. intros H; now inversion H. Qed.

Lemma pb_bytes_out {St} b (k : list N -> option St) st' r : pb_bytes b k = Some (st', r) -> exists v, k v = Some st'.
Proof.
  unfold pb_bytes. destruct (bytes_dec b) as [[v r0]|]; [|discriminate]. destruct (k v) eqn:E; [|discriminate].
  intros H; inversion H; subst. eauto.
Qed.

Lemma pb_varint_out {St} b (k : N -> St) st' r : pb_varint b k = Some (st', r) -> exists v, v < two64 /\ st' = k v.
Proof.
  unfold pb_varint. destruct (varint_dec b) as [[v r0]|] eqn:E; [|discriminate].
  intros H; inversion H; subst. apply varint_dec_progress in E as [_ Hv]. eauto.
Qed.

Lemma pb_u32s_out {St} typ b (k : list N -> St) st num st' r :
  pb_u32s typ b k st num = Some (st', r) -> st' = st \/ exists xs, st' = k xs.
Proof.
  unfold pb_u32s. destruct typ as [|[[[]|[]|]|[[]|[]|]|]]; intros H;
    try (apply pb_unknown_out in H; now left).
  - apply pb_varint_out in H as (v & _ & ->). right. eauto.
  - apply pb_bytes_out in H as (v & H). destruct (packed_dec varint_dec v); [|discriminate]. inversion H. right. eauto.
Qed.

Definition d_inv (d : rawd) : Prop :=
  utf8_valid (r_name d) = true /\ forallb utf8_valid (r_groups d) = true /\
  r_nb d < two64 /\ r_na d < two64 /\ r_curve d < two32.

Lemma d_inv0 : d_inv rawd0.
Proof. unfold d_inv, rawd0, two64, two32. cbn. repeat split; lia. Qed.

Ltac inv_leaf :=
  match goal with
  | |- (if ?c then _ else _) = Some _ -> _ => destruct c; inv_leaf
  | |- pb_unknown _ _ _ _ = Some _ -> _ =>
      let H := fresh in intros H; apply pb_unknown_out in H; subst; assumption
  | |- pb_u32s _ _ _ _ _ = Some _ -> _ =>
      let H := fresh in intros H; apply pb_u32s_out in H as [->|[? ->]]; [assumption|];
      unfold d_inv, add_ips, add_subnets in *; cbn [r_name r_groups r_nb r_na r_curve]; assumption
  | |- pb_bytes _ _ = Some _ -> _ =>
      let H := fresh in let v := fresh "v" in intros H; apply pb_bytes_out in H as [v H]; cbv beta in H;
      try (destruct (utf8_valid v) eqn:?; [|discriminate]); inversion H; subst;
      unfold d_inv, set_name, add_group, set_pub, set_issuer in *; cbn [r_name r_groups r_nb r_na r_curve];
      rewrite ?forallb_app; cbn [forallb]; intuition (auto with bool)
  | |- pb_varint _ _ = Some _ -> _ =>
      let H := fresh in let v := fresh "v" in let Hv := fresh in
      intros H; apply pb_varint_out in H as (v & Hv & ->);
      unfold d_inv, set_nb, set_na, set_isca, set_curve in *; cbn [r_name r_groups r_nb r_na r_curve];
      intuition auto; unfold w32, two32; apply N.mod_lt; discriminate
  end.

Lemma d_step_inv d b d' b' : d_step d b = Some (d', b') -> d_inv d -> d_inv d'.
Proof.
  intros H Hi. revert H. unfold d_step. destruct (tag_dec_pb b) as [[[num typ] b1]|]; [|discriminate].
  repeat match goal with |- context [match ?x with _ => _ end] => is_var x; destruct x end; inv_leaf.
Qed.

Definition c_inv (st : option rawd * list N) : Prop := match fst st with Some d => d_inv d | None => True end.

Lemma c_step_inv st b st' b' : c_step st b = Some (st', b') -> c_inv st -> c_inv st'.
Proof.
  intros H Hi. revert H. unfold c_step. destruct (tag_dec_pb b) as [[[num typ] b1]|]; [|discriminate].
  repeat match goal with |- context [match ?x with _ => _ end] => is_var x; destruct x end;
    repeat match goal with |- (if ?c then _ else _) = Some _ -> _ => destruct c end;
    intros H;
    try (apply pb_unknown_out in H; subst; assumption);
    apply pb_bytes_out in H as [v H]; cbv beta in H.
  all: match type of H with
       | Some (fst _, _) = Some _ => inversion H; subst; exact Hi
       | _ =>
           destruct (msg_run d_step _ v) as [d|] eqn:E; [|discriminate]; inversion H; subst; unfold c_inv; cbn [fst];
           eapply (msg_run_inv d_step d_inv d_step_inv); [exact E|];
           unfold c_inv in Hi; match goal with |- d_inv (match ?o with _ => _ end) => destruct o end; [exact Hi|exact d_inv0]
       end.
Qed.

Lemma i64_of_u64_ok v : v < two64 -> int64_ok (u64_to_i64 v) = true.
Proof. unfold int64_ok, u64_to_i64, two64, two63. intros H. destruct (v <? 9223372036854775808) eqn:E; lia. Qed.

(* what every certificate the v1 decoder returns satisfies: exactly what re-marshalling and reading back needs *)
Theorem decoded_fields_v1 pk b c : decode_v1 pk b = Some c -> fields_v1_ok c.
Proof.
  intros H. pose proof (decode_v1_sound _ _ _ H) as Hv.
  destruct (valid_v1_parts c Hv) as (_ & Hnv & Hn4 & Huv & Hu4).
  unfold decode_v1 in H. destruct (is_nil b); [discriminate|].
  destruct (msg_run c_step (None, []) b) as [[[d|] sg]|] eqn:E; try discriminate. cbn [fst snd] in H.
  assert (Hd : d_inv d).
  { pose proof (msg_run_inv c_step c_inv c_step_inv _ _ _ E) as X. apply X. exact I. }
  destruct (Nat.odd _ || Nat.odd _); [discriminate|]. destruct (negb _ && negb _); [discriminate|].
  destruct (valid_v1 _); [|discriminate]. inversion H; subst; clear H.
  destruct Hd as (I1 & I2 & I3 & I4 & I5).
  unfold fields_v1_ok, marshalable_v1. cbn [c_name c_groups c_nets c_unsafe c_nb c_na c_curve] in *.
  rewrite I1, I2. repeat split; try assumption; now apply i64_of_u64_ok.
Qed.

Theorem issued_fields_v1 tbs sig c : sign_v1 tbs sig = Some c -> fields_v1_ok c /\ c_pub c <> [].
Proof.
  intros H. destruct (sign_v1_issued _ _ _ H) as (_ & (Hv & Hm & Hnb & Hna & Hcv) & _).
  destruct (valid_v1_parts c Hv) as (Hp & Hnv & Hn4 & Huv & Hu4). split; [|exact Hp].
  unfold fields_v1_ok. repeat split; assumption.
Qed.

(* ---- the signed bytes read back to the fields ---- *)

Lemma tbs_v1_reads_back c : fields_v1_ok c -> go_len (tbs_v1 c) -> msg_run d_step rawd0 (tbs_v1 c) = Some (rawd_of c).
Proof.
  intros (Hm & Hnv & Hn4 & Huv & Hu4 & Hnb & Hna & Hcv) G. unfold tbs_v1 in *.
  rewrite <- (app_nil_r (encode_details_v1 c)).
  rewrite drun_details by (try assumption; try reflexivity; now apply details_v1_small). reflexivity.
Qed.

Lemma ip_pairs_inj l1 l2 : forallb pfx_valid l1 = true -> forallb p_is4 l1 = true ->
  forallb pfx_valid l2 = true -> forallb p_is4 l2 = true -> ip_pairs l1 = ip_pairs l2 -> l1 = l2.
Proof. intros A1 B1 A2 B2 E. rewrite <- (unpair_pairs l1), <- (unpair_pairs l2) by assumption. now rewrite E. Qed.

Lemma i64_to_u64_inj x y : int64_ok x = true -> int64_ok y = true -> i64_to_u64 x = i64_to_u64 y -> x = y.
Proof. intros Hx Hy E. rewrite <- (u64_i64_roundtrip x), <- (u64_i64_roundtrip y) by assumption. now rewrite E. Qed.

Theorem tbs_v1_injective c1 c2' : fields_v1_ok c1 -> fields_v1_ok c2' -> go_len (tbs_v1 c1) ->
  tbs_v1 c1 = tbs_v1 c2' -> ident_c c1 = ident_c c2'.
Proof.
  intros F1 F2 G E.
  pose proof (tbs_v1_reads_back c1 F1 G) as R1.
  assert (G2 : go_len (tbs_v1 c2')) by (rewrite <- E; exact G).
  pose proof (tbs_v1_reads_back c2' F2 G2) as R2.
  rewrite E in R1. rewrite R1 in R2. inversion R2 as [[En Ei Es Eg Enb Ena Ep Eca Eiss Ecv]].
  destruct F1 as (_ & A1 & B1 & C1 & D1 & N1 & M1 & _). destruct F2 as (_ & A2 & B2 & C2 & D2 & N2 & M2 & _).
  apply ip_pairs_inj in Ei; try assumption. apply ip_pairs_inj in Es; try assumption.
  apply i64_to_u64_inj in Enb; try assumption. apply i64_to_u64_inj in Ena; try assumption.
  unfold ident_c. congruence.
Qed.

(* ---- a v1 signed message never starts with the v2 details tag ---- *)

Lemma tbs_v1_head c : c_pub c <> [] -> exists x r, tbs_v1 c = x :: r /\ x <> t_details.
Proof.
  intros Hp. unfold tbs_v1, encode_details_v1.
  unfold opt_bytes at 1. destruct (c_name c) as [|? ?]; cbn [is_nil app].
  2:{ unfold field_bytes. change (tag_enc 1 wt_bytes) with [10]. cbn [app]. eexists _, _. split; [reflexivity|discriminate]. }
  unfold opt_packed at 1. destruct (ip_pairs (c_nets c)) as [|? ?]; cbn [is_nil app].
  2:{ unfold field_bytes. change (tag_enc 2 wt_bytes) with [18]. cbn [app]. eexists _, _. split; [reflexivity|discriminate]. }
  unfold opt_packed at 1. destruct (ip_pairs (c_unsafe c)) as [|? ?]; cbn [is_nil app].
  2:{ unfold field_bytes. change (tag_enc 3 wt_bytes) with [26]. cbn [app]. eexists _, _. split; [reflexivity|discriminate]. }
  destruct (c_groups c) as [|g gs]; cbn [flat_map app].
  2:{ unfold field_bytes at 1. change (tag_enc 4 wt_bytes) with [34]. rewrite <- !app_assoc. cbn [app].
      eexists _, _. split; [reflexivity|discriminate]. }
  unfold opt_varint at 1. destruct (i64_to_u64 (c_nb c) =? 0); cbn [app].
  2:{ unfold field_varint. change (tag_enc 5 wt_varint) with [40]. cbn [app]. eexists _, _. split; [reflexivity|discriminate]. }
  unfold opt_varint at 1. destruct (i64_to_u64 (c_na c) =? 0); cbn [app].
  2:{ unfold field_varint. change (tag_enc 6 wt_varint) with [48]. cbn [app]. eexists _, _. split; [reflexivity|discriminate]. }
  unfold opt_bytes at 1. destruct (c_pub c) as [|? ?]; [contradiction|]. cbn [is_nil].
  unfold field_bytes. change (tag_enc 7 wt_bytes) with [58]. cbn [app]. eexists _, _. split; [reflexivity|discriminate].
Qed.

Theorem tbs_versions_disjoint c1 c2' : c_pub c1 <> [] -> wf_v2 c2' -> tbs_v1 c1 <> tbs_v2 c2'.
Proof.
  intros Hp Hw E. destruct (tbs_v1_head c1 Hp) as (x & r & E1 & Hx). destruct (tbs_v2_head c2' Hw) as (r' & E2).
  rewrite E1, E2 in E. inversion E. contradiction.
Qed.

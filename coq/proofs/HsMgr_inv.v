(* The invariant of model/HsMgr.v: the hostmap part is a Good state of model/HostMap.v (hence WF), ids at or
   above [nxt] are unused, and every live tunnel is described by an entry of the ghost log of completed
   handshakes (certificate addresses, stage-1 payload, peer time, role). *)
From Coq Require Import List NArith Bool Lia.
Import ListNotations.
From NV Require Import gen.Consts_HostMap model.HostMap proofs.HostMap_maps proofs.HostMap_lists proofs.HostMap_inv
  proofs.HostMap_ops proofs.HostMap_props model.HsMgr proofs.HsMgr_frame.
Open Scope N_scope.

(* ---------- what one HostMap operation does to the hostinfo records and to Indexes ------------------- *)

Definition subject (o : op) : N :=
  match o with
  | OStart id _ | OAlloc id _ | OComplete id _ _ | OResp id _ _ _ | ODelete id | OPromote id
  | OAddRelay id _ _ | OPendDelete id => id
  end.

Lemma step_infos_other o s y : y <> subject o -> mget y (infos (fst (step o s))) = mget y (infos s).
Proof.
  intros NE. destruct o; cbn [subject] in NE; cbn [step].
  - destruct (known id s); [reflexivity|]. destruct (start id a s) as [s' r] eqn:E. cbn [fst].
    pose proof (start_frame id a s) as F. rewrite E in F. cbn [fst] in F. now apply F.
  - destruct (alloc_guard id s); [|reflexivity]. destruct (alloc id cs s) as [s' r] eqn:E. cbn [fst].
    pose proof (alloc_frame id cs s) as F. rewrite E in F. cbn [fst] in F. now apply F.
  - destruct (complete_guard id s) eqn:G; [|reflexivity]. unfold complete_guard in G.
    destruct (mget id (infos s)) as [hi|] eqn:HI; [|discriminate].
    destruct (correct_host id addrs s); cbn [fst].
    + now apply (complete_frame id addrs remote s hi HI).
    + now rewrite (proj1 (pend_delete_frame id s)).
  - destruct (known id s); [reflexivity|]. destruct addrs as [|a0 t]; [reflexivity|].
    pose proof (resp_frame id (a0 :: t) remote cs s) as F. cbn zeta in F.
    destruct (resp id (a0 :: t) remote cs s) as [s' [[c i]|]]; cbn [fst] in *; now apply F.
  - destruct (known id s); [|reflexivity]. pose proof (delete_hi_infos id s) as F.
    destruct (delete_hi id s) as [s' f]. cbn [fst] in *. now rewrite F.
  - destruct (known id s); [|reflexivity]. pose proof (make_primary_frame id s) as [F _].
    destruct (make_primary id s) as [s' b]. cbn [fst] in *. now rewrite F.
  - destruct (known id s); [|reflexivity]. unfold add_relay.
    pose proof (add_relay_loop_frame alloc_tries id cs s) as (_ & F & _).
    destruct (add_relay_loop alloc_tries id cs s) as [s' r]. cbn [fst] in *. now apply F.
  - destruct (known id s); [|reflexivity]. cbn [fst]. now rewrite (proj1 (pend_delete_frame id s)).
Qed.

Lemma step_idx_back o s i y :
  mget i (idx (fst (step o s))) = Some y -> y = subject o \/ mget i (idx s) = Some y.
Proof.
  destruct o; cbn [subject step].
  - destruct (known id s); [auto|]. destruct (start id a s) as [s' r] eqn:E. cbn [fst].
    pose proof (start_frame id a s) as F. rewrite E in F. cbn [fst] in F. destruct F as (F & _). rewrite F. auto.
  - destruct (alloc_guard id s); [|auto]. destruct (alloc id cs s) as [s' r] eqn:E. cbn [fst].
    pose proof (alloc_frame id cs s) as F. rewrite E in F. cbn [fst] in F. destruct F as (F & _). rewrite F. auto.
  - destruct (complete_guard id s) eqn:G; [|auto]. unfold complete_guard in G.
    destruct (mget id (infos s)) as [hi|] eqn:HI; [|discriminate].
    destruct (correct_host id addrs s); cbn [fst].
    + apply (complete_frame id addrs remote s hi HI).
    + destruct (pend_delete_frame id s) as (_ & F & _). rewrite F. auto.
  - destruct (known id s); [auto|]. destruct addrs as [|a0 t]; [auto|].
    pose proof (resp_frame id (a0 :: t) remote cs s) as F. cbn zeta in F.
    destruct (resp id (a0 :: t) remote cs s) as [s' [[c j]|]]; cbn [fst] in *; apply F.
  - destruct (known id s); [|auto]. pose proof (delete_hi_idx_sub id s) as F.
    destruct (delete_hi id s) as [s' f]. cbn [fst] in *. intros E. right. now apply F.
  - destruct (known id s); [|auto]. pose proof (make_primary_frame id s) as [_ F].
    destruct (make_primary id s) as [s' b]. cbn [fst] in *. rewrite F. auto.
  - destruct (known id s); [|auto]. unfold add_relay.
    pose proof (add_relay_loop_frame alloc_tries id cs s) as (F & _).
    destruct (add_relay_loop alloc_tries id cs s) as [s' r]. cbn [fst] in *. rewrite F. auto.
  - destruct (known id s); [|auto]. cbn [fst]. destruct (pend_delete_frame id s) as (_ & F & _). rewrite F. auto.
Qed.

(* an operation on an unknown hostinfo other than its creation changes nothing *)
Lemma step_unknown o s :
  mget (subject o) (infos s) = None ->
  match o with OStart _ _ | OResp _ _ _ _ => True | _ => fst (step o s) = s end.
Proof.
  intros U. destruct o; cbn [subject] in U; cbn [step]; try exact I.
  - unfold alloc_guard. now rewrite U.
  - unfold complete_guard. now rewrite U.
  - unfold known. now rewrite U.
  - unfold known. now rewrite U.
  - unfold known. now rewrite U.
  - unfold known. now rewrite U.
Qed.

(* the subject of an operation that is neither a completion nor a creation keeps its addresses; if its local
   index changes, the new one is not in Indexes *)
Lemma step_subject_keep o s hi hi' :
  match o with OComplete _ _ _ => False | _ => True end ->
  mget (subject o) (infos s) = Some hi -> mget (subject o) (infos (fst (step o s))) = Some hi' ->
  hi_addrs hi' = hi_addrs hi /\ (hi_local hi' = hi_local hi \/ mget (hi_local hi') (idx (fst (step o s))) = None).
Proof.
  intros NC HI. destruct o; cbn [subject] in HI; cbn [subject step]; try contradiction.
  - unfold known. rewrite HI. cbn [fst]. rewrite HI. intros E. inversion E. auto.
  - destruct (alloc_guard id s); [|cbn [fst]; rewrite HI; intros E; inversion E; auto].
    pose proof (alloc_frame id cs s) as F. cbn zeta in F.
    destruct (alloc id cs s) as [s' r]. cbn [fst] in *. destruct F as (FI & _ & _ & _ & _ & _ & F).
    destruct (F _ HI) as (h2 & E2 & A & [->|[B _]]); intros E; rewrite E2 in E; inversion E; subst; auto.
    split; [assumption|]. right. now rewrite FI.
  - unfold known. rewrite HI. cbn [fst]. rewrite HI. intros E. inversion E. auto.
  - unfold known. rewrite HI. pose proof (delete_hi_infos id s) as F.
    destruct (delete_hi id s) as [s' f]. cbn [fst] in *. rewrite F, HI. intros E. inversion E. auto.
  - unfold known. rewrite HI. pose proof (make_primary_frame id s) as [F _].
    destruct (make_primary id s) as [s' b]. cbn [fst] in *. rewrite F, HI. intros E. inversion E. auto.
  - unfold known. rewrite HI. unfold add_relay.
    pose proof (add_relay_loop_frame alloc_tries id cs s) as (_ & _ & F & _).
    destruct (add_relay_loop alloc_tries id cs s) as [s' r]. cbn [fst] in *.
    destruct (F _ HI) as (h2 & E2 & A & B). intros E. rewrite E2 in E. inversion E; subst. auto.
  - unfold known. rewrite HI. cbn [fst]. rewrite (proj1 (pend_delete_frame id s)), HI. intros E. inversion E. auto.
Qed.

(* ---------- the invariant ---------------------------------------------------------------------------- *)

Section Inv.
Variable cfg : config.

(* event e describes the live tunnel h (hostinfo record hi) *)
Definition ev_ok (s : hstate) (h : N) (hi : hinfo) (e : ev) : Prop :=
  e_id e = h /\ hi_addrs hi = e_cert e /\
  (exists r, mget h (hxs s) = Some (mkHX (e_init e) (e_pkt e) (e_time e) r)) /\
  e_cert e <> [] /\ has_self cfg (e_cert e) = false /\
  (e_init e = true -> exists a, e_target e = Some a /\ In a (e_cert e)).

Definition J (s : hstate) : Prop :=
  forall h hi, mget h (infos (hm s)) = Some hi -> mget (hi_local hi) (idx (hm s)) = Some h ->
    exists e, In e (log s) /\ ev_ok s h hi e.

Record HInv (s : hstate) : Prop := mkHInv {
  hv_good : Good (hm s);
  hv_fresh : forall y, nxt s <= y -> mget y (infos (hm s)) = None;
  hv_j : J s
}.

Lemma hinv_init : HInv hinit.
Proof.
  constructor.
  - apply good_init.
  - intros y _. reflexivity.
  - intros h hi E. discriminate.
Qed.

(* a step of the hostmap that neither changes the tunnel records nor the log: J survives when live tunnels
   keep their record *)
Lemma J_frame s m' hx' :
  J s ->
  (forall h hi', mget h (infos m') = Some hi' -> mget (hi_local hi') (idx m') = Some h ->
     exists hi, mget h (infos (hm s)) = Some hi /\ mget (hi_local hi) (idx (hm s)) = Some h /\ hi_addrs hi' = hi_addrs hi) ->
  (forall h x, mget h (hxs s) = Some x -> exists r, mget h hx' = Some (mkHX (x_init x) (x_pkt0 x) (x_time x) r)) ->
  forall b n l', J (mkHS m' hx' b n (log s ++ l')).
Proof.
  intros JS LV HX b n l' h hi' E1 E2. cbn [hm] in E1, E2.
  destruct (LV _ _ E1 E2) as (hi & F1 & F2 & F3).
  destruct (JS _ _ F1 F2) as (e & IN & A & B & (r & C) & D).
  exists e. split; [cbn [log]; apply in_or_app; now left|].
  split; [assumption|]. split; [congruence|]. split; [|exact D].
  destruct (HX _ _ C) as (r' & C'). exists r'. exact C'.
Qed.

Lemma hx_same (s : hstate) h x : mget h (hxs s) = Some x -> exists r, mget h (hxs s) = Some (mkHX (x_init x) (x_pkt0 x) (x_time x) r).
Proof. intros E. exists (x_remote x). rewrite E. now destruct x. Qed.

Lemma set_hm_eq s m : set_hm s m = mkHS m (hxs s) (blk s) (nxt s) (log s ++ []).
Proof. unfold set_hm. now rewrite app_nil_r. Qed.

(* one HostMap operation that is not a completion, a responder insertion or a start *)
Definition plain (o : op) : Prop :=
  match o with OComplete _ _ _ | OResp _ _ _ _ | OStart _ _ => False | _ => True end.

Lemma live_back_plain o s h hi' :
  plain o ->
  mget h (infos (fst (step o s))) = Some hi' -> mget (hi_local hi') (idx (fst (step o s))) = Some h ->
  exists hi, mget h (infos s) = Some hi /\ mget (hi_local hi) (idx s) = Some h /\ hi_addrs hi' = hi_addrs hi.
Proof.
  intros PL E1 E2. destruct (N.eq_dec h (subject o)) as [->|NE].
  - destruct (mget (subject o) (infos s)) as [hi|] eqn:HI.
    + assert (NC : match o with OComplete _ _ _ => False | _ => True end) by (destruct o; auto).
      destruct (step_subject_keep o s hi hi' NC HI E1) as (A & [B|B]); [|congruence].
      exists hi. split; [reflexivity|]. split; [|assumption].
      rewrite B in E2. pose proof E2 as E3. apply step_idx_back in E3 as [X|X]; [clear X|assumption].
      (* the subject itself: it cannot have entered Indexes by a plain operation *)
      destruct o; try contradiction; cbn [step subject] in *.
      * destruct (alloc_guard id s); [|assumption].
        pose proof (alloc_frame id cs s) as F. cbn zeta in F. destruct (alloc id cs s) as [s' r]. cbn [fst] in *.
        destruct F as (F & _). now rewrite F in E2.
      * destruct (known id s); [|assumption]. pose proof (delete_hi_idx_sub id s) as F.
        destruct (delete_hi id s) as [s' f]. cbn [fst] in *. now apply F.
      * destruct (known id s); [|assumption]. pose proof (make_primary_frame id s) as [_ F].
        destruct (make_primary id s) as [s' b]. cbn [fst] in *. now rewrite F in E2.
      * destruct (known id s); [|assumption]. unfold add_relay in *.
        pose proof (add_relay_loop_frame alloc_tries id cs s) as (F & _).
        destruct (add_relay_loop alloc_tries id cs s) as [s' r]. cbn [fst] in *. now rewrite F in E2.
      * destruct (known id s); [|assumption]. cbn [fst] in *. destruct (pend_delete_frame id s) as (_ & F & _).
        now rewrite F in E2.
    + pose proof (step_unknown o s HI) as U. destruct o; try contradiction; rewrite U in E1; congruence.
  - rewrite (step_infos_other o s h NE) in E1. exists hi'. split; [assumption|]. split; [|reflexivity].
    apply step_idx_back in E2 as [X|X]; [contradiction|assumption].
Qed.

Lemma hinv_plain o s :
  plain o -> HInv s -> HInv (set_hm s (fst (step o (hm s)))).
Proof.
  intros PL [G F JJ]. constructor; cbn [hm set_hm nxt].
  - now apply good_step.
  - intros y LE. destruct (N.eq_dec y (subject o)) as [->|NE].
    + pose proof (step_unknown o (hm s) (F _ LE)) as U. destruct o; try contradiction; rewrite U; now apply F.
    + rewrite step_infos_other by assumption. now apply F.
  - rewrite set_hm_eq. apply J_frame; [assumption| |apply hx_same].
    intros h hi' E1 E2. eapply live_back_plain; eauto.
Qed.

(* ---------- StartHandshake --------------------------------------------------------------------------- *)

Lemma step_start_cases id a s :
  mget id (infos s) = None ->
  (exists e, mget a (pvpn s) = Some e /\ step (OStart id a) s = (s, RId e false)) \/
  (mget a (pvpn s) = None /\
   step (OStart id a) s =
     (gset id Pend (set_pvpn (set_infos s (mset id (mkHI [a] 0 0 []) (infos s))) (mset a id (pvpn s))), RId id true)).
Proof.
  intros U. cbn [step]. unfold known. rewrite U. unfold start. destruct (mget a (pvpn s)) as [e|].
  - left. exists e. auto.
  - right. auto.
Qed.

Lemma hinv_start s a bl : HInv s -> HInv (start_with s a bl).
Proof.
  intros [G F JJ]. unfold start_with.
  destruct (step_start_cases (nxt s) a (hm s) (F _ (N.le_refl _))) as [(e & PV & ->)|(PV & ST)].
  - constructor; cbn [hm nxt]; assumption.
  - pose proof (good_step (OStart (nxt s) a) (hm s) G) as [G' _]. rewrite ST in *. cbn [fst] in G'.
    set (m' := gset _ _ _) in *.
    constructor; cbn [hm nxt].
    + exact G'.
    + intros y LE. unfold m'. cbn [infos gset set_gst set_pvpn set_infos]. rewrite mget_mset.
      destruct (N.eqb_spec y (nxt s)); [lia|]. apply F. lia.
    + intros h hi E1 E2. cbn [hm log hxs] in *.
      unfold m' in E1, E2. cbn [infos idx gset set_gst set_pvpn set_infos] in E1, E2. rewrite mget_mset in E1.
      destruct (N.eqb_spec h (nxt s)) as [->|NE].
      * inversion E1; subst hi. cbn [hi_local] in E2.
        destruct G as (IV & _). destruct (i_zero _ IV) as (Z & _). congruence.
      * destruct (JJ _ _ E1 E2) as (ev0 & IN & OK). exists ev0. split; [exact IN|exact OK].
Qed.

(* ---------- continueHandshake ------------------------------------------------------------------------- *)

Lemma step_complete_cases h cert ridx m :
  complete_guard h m = true ->
  step (OComplete h cert ridx) m =
    if correct_host h cert m then (complete h cert ridx m, RBool true) else (pend_delete h m, RBool false).
Proof. intros G. cbn [step]. now rewrite G. Qed.

Lemma guard_known h m : complete_guard h m = true -> exists hi, mget h (infos m) = Some hi.
Proof. unfold complete_guard. destruct (mget h (infos m)) as [hi|]; [eauto|discriminate]. Qed.

Lemma step_penddelete_known h m : (exists hi, mget h (infos m) = Some hi) -> fst (step (OPendDelete h) m) = pend_delete h m.
Proof. intros [hi E]. cbn [step]. unfold known. now rewrite E. Qed.

Lemma hinv_complete_true s h cert ridx t v :
  HInv s -> complete_guard h (hm s) = true -> has_self cfg cert = false -> correct_host h cert (hm s) = true ->
  HInv (mkHS (complete h cert ridx (hm s)) (mset h (mkHX true 0 t (Some v)) (hxs s)) (blk s) (nxt s)
             (log s ++ [mkEv h true 0 t cert (target_of s h)])).
Proof.
  intros [G F JJ] GD NS CH. destruct (guard_known _ _ GD) as [hi HI].
  pose proof (good_step (OComplete h cert ridx) (hm s) G) as [G' _].
  rewrite (step_complete_cases _ _ _ _ GD), CH in G'. cbn [fst] in G'.
  destruct (complete_frame h cert ridx (hm s) hi HI) as (CO & CS & CL & CB).
  constructor; cbn [hm nxt].
  - exact G'.
  - intros y LE. rewrite CO; [now apply F|]. intros ->. rewrite (F _ LE) in HI. discriminate.
  - intros h' hi' E1 E2. cbn [hm log hxs] in *. destruct (N.eq_dec h' h) as [->|NE].
    + rewrite CS in E1. inversion E1; subst hi'; clear E1.
      exists (mkEv h true 0 t cert (target_of s h)). split; [apply in_or_app; right; now left|].
      unfold ev_ok. cbn [e_id e_cert e_init e_pkt e_time e_target hi_addrs].
      unfold correct_host in CH. rewrite HI in CH. unfold target_of. rewrite HI.
      destruct (hi_addrs hi) as [|a0 r0]; [discriminate|]. apply mem_In in CH.
      split; [reflexivity|]. split; [reflexivity|]. split; [exists (Some v); apply mget_mset_eq|].
      split; [intros ->; contradiction|]. split; [exact NS|]. intros _. exists a0. auto.
    + rewrite CO in E1 by assumption. apply CB in E2 as [X|X]; [contradiction|].
      destruct (JJ _ _ E1 X) as (e & IN & A & B & (r & C) & D).
      exists e. split; [apply in_or_app; now left|]. split; [exact A|]. split; [exact B|]. split; [|exact D].
      exists r. cbn [hxs]. rewrite mget_mset_neq by assumption. exact C.
Qed.

(* ---------- beginHandshake --------------------------------------------------------------------------- *)

Lemma step_resp_unknown id a0 r ridx cs m :
  mget id (infos m) = None -> fst (step (OResp id (a0 :: r) ridx cs) m) = fst (resp id (a0 :: r) ridx cs m).
Proof.
  intros U. cbn [step]. unfold known. rewrite U.
  destruct (resp id (a0 :: r) ridx cs m) as [s' [[c i]|]]; reflexivity.
Qed.

Lemma cac_add s pkt t a0 i :
  check_and_complete s pkt t a0 i = CAdd -> mget i (idx (hm s)) = None /\ mget i (pidx (hm s)) = None.
Proof.
  unfold check_and_complete.
  assert (X : match mget i (idx (hm s)), mget i (pidx (hm s)) with None, None => CAdd | _, _ => CColl end = CAdd ->
              mget i (idx (hm s)) = None /\ mget i (pidx (hm s)) = None).
  { destruct (mget i (idx (hm s))); [discriminate|]. destruct (mget i (pidx (hm s))); [discriminate|auto]. }
  destruct (mget a0 (hosts (hm s))) as [e|]; [|exact X].
  destruct (find _ _); [discriminate|]. destruct (_ && _); [discriminate|exact X].
Qed.

Lemma hinv_resp_add s pkt cs ridx t a0 r v i cs' :
  HInv s -> has_self cfg (a0 :: r) = false -> gen_index cs = Some (i, cs') ->
  mget i (idx (hm s)) = None -> mget i (pidx (hm s)) = None ->
  HInv (mkHS (fst (step (OResp (nxt s) (a0 :: r) ridx cs) (hm s)))
             (mset (nxt s) (mkHX false pkt t (Some v)) (hxs s)) (blk s) (nxt s + 1)
             (log s ++ [mkEv (nxt s) false pkt t (a0 :: r) None])).
Proof.
  intros [G F JJ] NS GI EX EP.
  pose proof (good_step (OResp (nxt s) (a0 :: r) ridx cs) (hm s) G) as [G' _].
  pose proof (F _ (N.le_refl _)) as U.
  rewrite (step_resp_unknown _ _ _ _ _ _ U) in *.
  pose proof (resp_frame (nxt s) (a0 :: r) ridx cs (hm s)) as (RO & RB & RS & RI). cbn zeta in *.
  specialize (RS _ _ GI). specialize (RI _ _ GI EX EP).
  constructor; cbn [hm nxt].
  - exact G'.
  - intros y LE. rewrite RO by lia. apply F. lia.
  - intros h' hi' E1 E2. cbn [hm log hxs] in *. destruct (N.eq_dec h' (nxt s)) as [->|NE].
    + rewrite RS in E1. inversion E1; subst hi'; clear E1.
      exists (mkEv (nxt s) false pkt t (a0 :: r) None). split; [apply in_or_app; right; now left|].
      unfold ev_ok. cbn [e_id e_cert e_init e_pkt e_time e_target hi_addrs].
      split; [reflexivity|]. split; [reflexivity|]. split; [exists (Some v); apply mget_mset_eq|].
      split; [discriminate|]. split; [exact NS|]. discriminate.
    + rewrite RO in E1 by assumption. apply RB in E2 as [X|X]; [contradiction|].
      destruct (JJ _ _ E1 X) as (e & IN & A & B & (r0 & C) & D).
      exists e. split; [apply in_or_app; now left|]. split; [exact A|]. split; [exact B|]. split; [|exact D].
      exists r0. cbn [hxs]. rewrite mget_mset_neq by assumption. exact C.
Qed.

Lemma hinv_set_remote s x v : HInv s -> HInv (set_remote s x v).
Proof.
  intros [G F JJ]. unfold set_remote. constructor; cbn [hm nxt]; try assumption.
  rewrite <- (app_nil_r (log s)). apply J_frame; [assumption| |].
  - intros h hi' E1 E2. exists hi'. auto.
  - intros h x0 E. rewrite mget_mset. destruct (N.eqb_spec h x) as [->|NE].
    + unfold hx_of. rewrite E. eauto.
    + now apply hx_same.
Qed.

(* ---------- every operation -------------------------------------------------------------------------- *)

Theorem hinv_step o s : HInv s -> HInv (fst (hstep cfg o s)).
Proof.
  intros HI. destruct o; cbn [hstep].
  - (* Start *) cbn [fst]. now apply hinv_start.
  - (* Alloc *) cbn [fst]. now apply (hinv_plain (OAlloc h cs)).
  - (* InitComplete *)
    destruct (complete_guard h (hm s)) eqn:GD; [|exact HI].
    destruct (has_self cfg cert) eqn:NS.
    { cbn [fst]. now apply (hinv_plain (OPendDelete h)). }
    rewrite (step_complete_cases _ _ _ _ GD). destruct (correct_host h cert (hm s)) eqn:CH.
    + cbn [fst]. now apply hinv_complete_true.
    + assert (H1 : HInv (set_hm s (pend_delete h (hm s)))).
      { rewrite <- (step_penddelete_known h (hm s) (guard_known _ _ GD)). now apply (hinv_plain (OPendDelete h)). }
      destruct (target_of s h) as [a|]; cbn [fst]; [now apply hinv_start|exact H1].
  - (* RespStage1 *)
    destruct cert as [|a0 r]; [exact HI|]. destruct (has_self cfg (a0 :: r)) eqn:NS; [exact HI|].
    destruct (gen_index cs) as [[i cs']|] eqn:GI; [|exact HI].
    destruct (check_and_complete s pkt t a0 i) eqn:CA.
    + unfold set_remote_if_preferred. destruct (x_remote (hx_of s x)) as [cur|].
      * destruct (negb (mem cur (c_pref cfg)) && mem v (c_pref cfg)); cbn [fst]; [now apply hinv_set_remote|exact HI].
      * cbn [fst]. now apply hinv_set_remote.
    + exact HI.
    + exact HI.
    + cbn [fst]. destruct (cac_add _ _ _ _ _ CA) as [EX EP]. eapply hinv_resp_add; eauto.
  - (* DelPending *) cbn [fst]. now apply (hinv_plain (OPendDelete h)).
  - (* DelMain *) cbn [fst]. now apply (hinv_plain (ODelete h)).
  - (* Promote *) cbn [fst]. now apply (hinv_plain (OPromote h)).
  - (* Tick *) destruct (mget a (pvpn (hm s))) as [h|]; [|exact HI]. cbn [fst]. now apply (hinv_plain (OPendDelete h)).
Qed.

Lemma hinv_run ops : forall s, HInv s -> HInv (hrun cfg s ops).
Proof. induction ops as [|o r IH]; intros s H; cbn [hrun]; [assumption|]. apply IH. now apply hinv_step. Qed.

Theorem hinv_reachable ops : HInv (hrun cfg hinit ops).
Proof. apply hinv_run, hinv_init. Qed.

End Inv.

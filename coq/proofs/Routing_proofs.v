(* Lemmas about model/Routing.v for C40. *)
From Coq Require Import List NArith ZArith Lia Bool.
From Coq Require Import ZifyN ZifyNat ZifyBool.
Import ListNotations.
From NV Require Import lib.Bytes model.Routing.
Open Scope N_scope.

(* ---- hash ------------------------------------------------------------------------------------ *)

Lemma hash_packet_range lp rp : hash_packet lp rp < two31.
Proof.
  unfold hash_packet.
  change 2147483647 with (N.ones 31). rewrite N.land_ones.
  apply N.mod_lt. discriminate.
Qed.

(* ---- exact quotient -------------------------------------------------------------------------- *)

(* round-half-up of L * 2^31 / W, the number the 128-bit code computes *)
Definition qx (W L : N) : N := (L * two31 + W / 2) / W.

Lemma sdr_exact w d : 0 < d -> d < two64 -> w <= d ->
  scale_divide_and_round w d = Some (qx d w).
Proof.
  intros Hd0 Hd Hw. unfold scale_divide_and_round, mul64, add64, div64, qx.
  set (p := w * two31).
  set (s := p mod two64 + d / 2 + 0).
  assert (E : (p / two64 + s / two64) * two64 + s mod two64 = p + d / 2).
  { pose proof (N.div_mod p two64 ltac:(discriminate)) as Ep.
    pose proof (N.div_mod s two64 ltac:(discriminate)) as Es.
    subst s. lia. }
  assert (B : p + d / 2 < d * two64).
  { subst p. unfold two31, two64 in *.
    assert (d / 2 <= d) by (apply N.div_le_upper_bound; lia). nia. }
  assert (Hhi : p / two64 + s / two64 < d) by nia.
  assert (Hw64 : w64 (p / two64 + s / two64) = p / two64 + s / two64).
  { unfold w64. apply N.mod_small. unfold two64 in *. lia. }
  rewrite Hw64.
  destruct (N.eqb_spec d 0) as [->|_]; [lia|].
  destruct (N.leb_spec d (p / two64 + s / two64)) as [Hc|_]; [lia|].
  now rewrite E.
Qed.

Lemma qx_le W L : 0 < W -> L <= W -> qx W L <= two31.
Proof.
  intros HW HL. unfold qx. apply N.lt_succ_r.
  apply N.div_lt_upper_bound; [lia|].
  assert (W / 2 < W) by (apply N.div_lt; lia).
  unfold two31 in *. nia.
Qed.

Lemma qx_total W : 0 < W -> qx W W = two31.
Proof.
  intros HW. unfold qx. symmetry.
  apply N.div_unique with (r := W / 2).
  - apply N.div_lt; lia.
  - lia.
Qed.

Lemma qx_zero W : 0 < W -> qx W 0 = 0.
Proof.
  intros HW. unfold qx. apply N.div_small. rewrite N.mul_0_l, N.add_0_l. apply N.div_lt; lia.
Qed.

Lemma qx_mono W L L' : 0 < W -> L <= L' -> qx W L <= qx W L'.
Proof.
  intros HW HL. unfold qx. apply N.div_le_mono; [lia|]. unfold two31. nia.
Qed.

(* the share between two running weights: within less than one of the exact share *)
Lemma qx_share W L w : 0 < W ->
  let wd := (Z.of_N (qx W (L + w)) - Z.of_N (qx W L))%Z in
  (0 <= wd)%Z /\
  (Z.abs (wd * Z.of_N W - Z.of_N (w * two31)) < Z.of_N W)%Z /\
  (W <= w * two31 -> (1 <= wd)%Z).
Proof.
  intros HW wd.
  assert (Hm : qx W L <= qx W (L + w)) by (apply qx_mono; lia).
  unfold qx in *.
  set (h := W / 2) in *.
  pose proof (N.div_mod (L * two31 + h) W ltac:(lia)) as E1.
  pose proof (N.div_mod ((L + w) * two31 + h) W ltac:(lia)) as E2.
  pose proof (N.mod_lt (L * two31 + h) W ltac:(lia)) as R1.
  pose proof (N.mod_lt ((L + w) * two31 + h) W ltac:(lia)) as R2.
  set (q1 := (L * two31 + h) / W) in *.
  set (q2 := ((L + w) * two31 + h) / W) in *.
  set (r1 := (L * two31 + h) mod W) in *.
  set (r2 := ((L + w) * two31 + h) mod W) in *.
  assert (EZ : (wd * Z.of_N W = Z.of_N (w * two31) + Z.of_N r1 - Z.of_N r2)%Z).
  { subst wd. unfold two31 in *. nia. }
  split; [subst wd; lia|]. split.
  - rewrite EZ. lia.
  - intros Hge.
    assert ((0 < wd * Z.of_N W)%Z) by (rewrite EZ; lia).
    nia.
Qed.

(* ---- the loop computes the exact quotients ----------------------------------------------------- *)

Fixpoint spec_loop (W loop : N) (ws : list N) : list Z :=
  match ws with
  | [] => []
  | w :: r => (Z.of_N (qx W (loop + w)) - 1)%Z :: spec_loop W (loop + w) r
  end.

Lemma int_pred_small q : q <= two31 -> int_pred_of_u64 q = (Z.of_N q - 1)%Z.
Proof.
  intros Hq. unfold int_pred_of_u64, int_of_u64, w64.
  change 18446744073709551616 with two64.
  destruct (N.eq_dec q 0) as [->|Hne].
  - vm_compute. reflexivity.
  - replace (q + (two64 - 1)) with ((q - 1) + 1 * two64) by (unfold two64; lia).
    rewrite N.mod_add by discriminate.
    rewrite N.mod_small by (unfold two31, two64 in *; lia).
    destruct (N.ltb_spec (q - 1) two63) as [_|Hc]; [lia|].
    unfold two31, two63 in *; lia.
Qed.

Lemma sum_w64_exact ws : forall acc, acc + sumN ws < two64 -> sum_w64 acc ws = acc + sumN ws.
Proof.
  induction ws as [|w r IH]; intros acc H; cbn [sum_w64 sumN fold_right] in *.
  - lia.
  - fold (sumN r) in *.
    assert (Hw : w64 (acc + w) = acc + w).
    { unfold w64. apply N.mod_small. unfold two64 in *. lia. }
    rewrite Hw, IH; lia.
Qed.

Lemma bounds_loop_exact W : 0 < W -> W < two64 ->
  forall ws loop, loop + sumN ws <= W -> bounds_loop W loop ws = Some (spec_loop W loop ws).
Proof.
  intros HW HW64. induction ws as [|w r IH]; intros loop H; cbn [bounds_loop spec_loop sumN fold_right] in *.
  - reflexivity.
  - fold (sumN r) in *.
    assert (Hw : w64 (loop + w) = loop + w).
    { unfold w64. apply N.mod_small. unfold two64 in *. lia. }
    rewrite Hw, sdr_exact by lia.
    rewrite IH by lia. cbn [option_map].
    rewrite int_pred_small by (apply qx_le; lia). reflexivity.
Qed.

Lemma calc_buckets_exact ws : 0 < sumN ws -> sumN ws < two64 ->
  calc_buckets ws = Some (spec_loop (sumN ws) 0 ws).
Proof.
  intros H0 H64. unfold calc_buckets.
  rewrite sum_w64_exact by lia. rewrite N.add_0_l.
  apply bounds_loop_exact; lia.
Qed.

Lemma spec_loop_length W ws : forall loop, length (spec_loop W loop ws) = length ws.
Proof. induction ws as [|w r IH]; intros loop; cbn [spec_loop length]; [reflexivity|now rewrite IH]. Qed.

(* ---- valid configurations ---------------------------------------------------------------------- *)

Definition weights_ok (ws : list N) : Prop := Forall (fun w => weight_ok w = true) ws.

Lemma sumN_bounds ws : weights_ok ws ->
  N.of_nat (length ws) <= sumN ws /\ sumN ws <= N.of_nat (length ws) * 2147483647.
Proof.
  induction 1 as [|w r Hw _ IH]; cbn [sumN fold_right length].
  - lia.
  - fold (sumN r). unfold weight_ok in Hw. lia.
Qed.

(* at most 2^32 gateways: the int sum of the weights cannot wrap *)
Definition count_ok (ws : list N) : Prop := ws <> [] /\ N.of_nat (length ws) <= 4294967296.

Lemma valid_total ws : weights_ok ws -> count_ok ws -> 0 < sumN ws /\ sumN ws < two63.
Proof.
  intros Hw [Hne Hc]. pose proof (sumN_bounds ws Hw) as [Hlo Hhi].
  destruct ws as [|w r]; [congruence|]. cbn [length] in *. unfold two63. lia.
Qed.

Lemma calc_buckets_valid ws : weights_ok ws -> count_ok ws ->
  calc_buckets ws = Some (spec_loop (sumN ws) 0 ws).
Proof.
  intros Hw Hc. destruct (valid_total ws Hw Hc) as [H0 H63].
  apply calc_buckets_exact; [assumption|]. unfold two63, two64 in *. lia.
Qed.

(* ---- shares ------------------------------------------------------------------------------------ *)

Lemma share_ok_qx W L w : 0 < W ->
  share_ok W w (Z.of_N (qx W (L + w)) - 1 - (Z.of_N (qx W L) - 1)) = true.
Proof.
  intros HW. pose proof (qx_share W L w HW) as [H1 [H2 H3]]. cbv zeta in *.
  replace (Z.of_N (qx W (L + w)) - 1 - (Z.of_N (qx W L) - 1))%Z
    with (Z.of_N (qx W (L + w)) - Z.of_N (qx W L))%Z by lia.
  unfold share_ok.
  destruct (N.leb_spec W (w * two31)) as [Hle|Hgt]; lia.
Qed.

Lemma shares_ok_spec W : 0 < W -> forall ws loop,
  shares_ok W ws (widths (Z.of_N (qx W loop) - 1) (spec_loop W loop ws)) = true.
Proof.
  intros HW. induction ws as [|w r IH]; intros loop; cbn [spec_loop widths shares_ok].
  - reflexivity.
  - rewrite share_ok_qx by assumption. rewrite IH. reflexivity.
Qed.

Lemma last_is_spec W ws : forall loop, ws <> [] ->
  last_is (Z.of_N (qx W (loop + sumN ws)) - 1) (spec_loop W loop ws) = true.
Proof.
  induction ws as [|w r IH]; intros loop Hne; [congruence|].
  cbn [spec_loop sumN fold_right]. fold (sumN r).
  destruct r as [|w' r'].
  - cbn [spec_loop sumN fold_right last_is]. rewrite N.add_0_r. apply Z.eqb_refl.
  - specialize (IH (loop + w) ltac:(discriminate)).
    rewrite N.add_assoc.
    remember (w' :: r') as rr. cbn [last_is].
    destruct (spec_loop W (loop + w) rr) as [|b bs] eqn:E.
    + subst rr. cbn [spec_loop] in E. discriminate.
    + exact IH.
Qed.

Lemma bounds_ok_valid ws bs : weights_ok ws -> count_ok ws -> calc_buckets ws = Some bs ->
  bounds_ok ws bs = true.
Proof.
  intros Hw Hc E. rewrite calc_buckets_valid in E by assumption. injection E as <-.
  destruct (valid_total ws Hw Hc) as [H0 _].
  unfold bounds_ok. apply andb_true_intro. split.
  - pose proof (shares_ok_spec (sumN ws) H0 ws 0) as S. rewrite qx_zero in S by assumption. exact S.
  - pose proof (last_is_spec (sumN ws) ws 0 (proj1 Hc)) as L.
    rewrite N.add_0_l, qx_total in L by assumption. exact L.
Qed.

(* ---- what bounds_ok means (so that the executable check is the stated property) ------------------ *)

Lemma shares_ok_Forall2 W ws wds : shares_ok W ws wds = true <->
  Forall2 (fun w wd => share_ok W w wd = true) ws wds.
Proof.
  revert wds. induction ws as [|w r IH]; intros [|wd rd]; cbn [shares_ok]; split; intros H;
    try constructor; try discriminate; try (inversion H; fail).
  - apply andb_prop in H. tauto.
  - apply IH. apply andb_prop in H. tauto.
  - inversion H; subst. apply andb_true_intro. split; [assumption|now apply IH].
Qed.

Lemma Forall2_weaken {A B} (P Q : A -> B -> Prop) l1 l2 :
  (forall a b, P a b -> Q a b) -> Forall2 P l1 l2 -> Forall2 Q l1 l2.
Proof. intros H F. induction F; constructor; auto. Qed.

Lemma share_ok_iff W w wd : share_ok W w wd = true <->
  (0 <= wd)%Z /\ (Z.abs (wd * Z.of_N W - Z.of_N (w * two31)) < Z.of_N W)%Z /\
  (W <= w * two31 -> (1 <= wd)%Z).
Proof.
  unfold share_ok. destruct (N.leb_spec W (w * two31)); lia.
Qed.

Lemma last_is_iff x l : last_is x l = true <-> exists pre, l = pre ++ [x].
Proof.
  induction l as [|y r IH]; cbn [last_is].
  - split; [discriminate|]. intros [[|] H]; discriminate.
  - destruct r as [|z r'].
    + rewrite Z.eqb_eq. split.
      * intros ->. now exists [].
      * intros [[|a [|b pre]] H]; cbn in H; inversion H; subst; try reflexivity.
    + rewrite IH. split.
      * intros [pre ->]. exists (y :: pre). reflexivity.
      * intros [[|a pre] H]; cbn in H; inversion H; subst. now exists pre.
Qed.

(* ---- cover: every hash value is in exactly one bucket and balance picks it ---------------------- *)

Fixpoint chain (prev : Z) (bs : list Z) : Prop :=
  match bs with [] => True | b :: r => (prev <= b)%Z /\ chain b r end.

Fixpoint lastd (prev : Z) (bs : list Z) : Z :=
  match bs with [] => prev | b :: r => lastd b r end.

Lemma shares_chain W ws : forall bs prev, shares_ok W ws (widths prev bs) = true -> chain prev bs.
Proof.
  induction ws as [|w r IH]; intros [|b bs] prev H; cbn [widths shares_ok chain] in *; try exact I; try discriminate.
  apply andb_prop in H as [H1 H2]. apply share_ok_iff in H1. split; [lia|]. now apply IH.
Qed.

Lemma last_is_lastd x bs prev : last_is x bs = true -> lastd prev bs = x.
Proof.
  revert prev. induction bs as [|b r IH]; intros prev H; cbn [last_is lastd] in *; [discriminate|].
  destruct r as [|c r'].
  - cbn [lastd]. apply Z.eqb_eq in H. lia.
  - now apply IH.
Qed.

Lemma owners_nil h : forall gws prev, (h <= prev)%Z -> chain prev (map snd gws) -> owners h prev gws = [].
Proof.
  induction gws as [|[a b] r IH]; intros prev Hp Hc; cbn [owners map snd chain] in *; [reflexivity|].
  destruct Hc as [Hb Hc].
  destruct (Z.ltb_spec prev h); [lia|]. cbn [andb app].
  apply IH; [lia|assumption].
Qed.

Lemma owners_first_le h : forall gws prev, (prev < h)%Z -> chain prev (map snd gws) ->
  (h <= lastd prev (map snd gws))%Z ->
  exists a, owners h prev gws = [a] /\ first_le h gws = Some a.
Proof.
  induction gws as [|[a b] r IH]; intros prev Hp Hc Hl; cbn [owners first_le map snd chain lastd] in *; [lia|].
  destruct Hc as [Hb Hc].
  destruct (Z.leb_spec h b) as [Hle|Hgt].
  - exists a. destruct (Z.ltb_spec prev h); [|lia]. cbn [andb].
    rewrite owners_nil by assumption. split; reflexivity.
  - rewrite andb_false_r. cbn [app]. apply IH; assumption.
Qed.

Lemma combine_snd {A B} (l1 : list A) (l2 : list B) : length l1 = length l2 -> map snd (combine l1 l2) = l2.
Proof.
  revert l2. induction l1 as [|a r IH]; intros [|b r2] H; cbn in *; try reflexivity; try discriminate.
  f_equal. apply IH. lia.
Qed.

Lemma balance_cover gws lp rp :
  chain (-1) (map snd gws) -> lastd (-1) (map snd gws) = 2147483647%Z ->
  exists a, owners (Z.of_N (hash_packet lp rp)) (-1) gws = [a] /\ balance lp rp gws = Some (a, true).
Proof.
  intros Hc Hl. pose proof (hash_packet_range lp rp) as Hr.
  destruct (owners_first_le (Z.of_N (hash_packet lp rp)) gws (-1)) as [a [Ho Hf]];
    [lia|assumption|unfold two31 in Hr; lia|].
  exists a. split; [assumption|]. unfold balance. now rewrite Hf.
Qed.

Lemma calculate_cover gs gws lp rp :
  weights_ok (map snd gs) -> count_ok (map snd gs) -> calculate gs = Some gws ->
  exists a, owners (Z.of_N (hash_packet lp rp)) (-1) gws = [a] /\ balance lp rp gws = Some (a, true).
Proof.
  intros Hw Hc E. unfold calculate in E.
  destruct (calc_buckets (map snd gs)) as [bs|] eqn:Eb; [|discriminate]. injection E as <-.
  pose proof (bounds_ok_valid _ _ Hw Hc Eb) as Hok. unfold bounds_ok in Hok.
  apply andb_prop in Hok as [Hs Hlast].
  assert (Hlen : length (map fst gs) = length bs).
  { rewrite calc_buckets_valid in Eb by assumption. injection Eb as <-.
    now rewrite spec_loop_length, !map_length. }
  apply balance_cover; rewrite combine_snd by assumption.
  - eapply shares_chain; eassumption.
  - now apply last_is_lastd.
Qed.

Lemma calculate_defined gs : weights_ok (map snd gs) -> count_ok (map snd gs) ->
  exists bs, calc_buckets (map snd gs) = Some bs /\ length bs = length gs /\
             calculate gs = Some (combine (map fst gs) bs).
Proof.
  intros Hw Hc. exists (spec_loop (sumN (map snd gs)) 0 (map snd gs)).
  unfold calculate. rewrite calc_buckets_valid by assumption.
  rewrite spec_loop_length, map_length. repeat split; reflexivity.
Qed.

(* a gateway can end up with an empty share: 1 against three times 2^31-1 *)
Lemma empty_share_example :
  calc_buckets [1; 2147483647; 2147483647; 2147483647]
  = Some [(-1)%Z; 715827882%Z; 1431655764%Z; 2147483647%Z].
Proof. vm_compute. reflexivity. Qed.

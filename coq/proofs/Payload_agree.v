(* Where the hand-written parser and the generated decoder agree, for ALL byte strings:
   whenever the strict variant of the parser (the parser + a wire-type check on Hmac = 2 and Cookie = 4, the two
   fields the schema knows and the parser does not) accepts an input, the parser itself accepts it with the same
   result and the generated decoder accepts it with the same field values. *)
From Coq Require Import List NArith ZArith Lia Bool.
From Coq Require Import ZifyN ZifyNat ZifyBool.
Import ListNotations.
From NV Require Import lib.Bytes lib.Proto model.Payload proofs.Payload_proofs.
Open Scope N_scope.
Local Ltac Zify.zify_post_hook ::= Z.div_mod_to_equations.

(* ---- protowire.ConsumeFieldValue accepts  ==>  skipNebula accepts and stops at the same byte ---- *)

Lemma tag_dec_raw b num typ r : tag_dec b = Some (num, typ, r) ->
  exists v, varint_dec b = Some (v, r) /\ v / 8 = num /\ v mod 8 = typ.
Proof.
  unfold tag_dec. destruct (varint_dec b) as [[v r']|]; [|discriminate].
  destruct (_ && _); [|discriminate]. intros H; inversion H; subst. exists v. auto.
Qed.

Lemma tag_gogo_wire b num typ r : tag_dec b = Some (num, typ, r) ->
  exists w, varint_dec_gogo b = Some (w, r) /\ w mod 8 = typ.
Proof.
  intros H. apply tag_dec_raw in H as (v & Hv & _ & Ht). exists v. split; [now apply varint_dec_implies_gogo|assumption].
Qed.

Lemma gogo_item_simple depth b num typ b1 b2 : tag_dec b = Some (num, typ, b1) ->
  typ <> 3 -> skip_field typ b1 = Some b2 -> skip_item_gogo depth b = Some (depth, b2).
Proof.
  intros T N3 S. apply tag_gogo_wire in T as (w & Hw & Ht). unfold skip_item_gogo. rewrite Hw, Ht.
  unfold skip_field in S.
  destruct typ as [|[[[]|[]|]|[[]|[]|]|]]; try discriminate; try (exfalso; apply N3; reflexivity).
  - destruct (varint_dec b1) as [[x r]|] eqn:E; [|discriminate]. cbn in S. inversion S; subst.
    now rewrite (varint_dec_implies_gogo _ _ _ E).
  - destruct (take_bytes 4 b1) as [[x r]|] eqn:E; [|discriminate]. cbn in S. inversion S; subst. reflexivity.
  - destruct (bytes_dec b1) as [[x r]|] eqn:E; [|discriminate]. cbn in S. inversion S; subst.
    now rewrite (bytes_dec_implies_gogo _ _ _ E).
  - destruct (take_bytes 8 b1) as [[x r]|] eqn:E; [|discriminate]. cbn in S. inversion S; subst. reflexivity.
Qed.

Lemma gogo_item_sgroup depth b num b1 : tag_dec b = Some (num, 3, b1) ->
  skip_item_gogo depth b = Some (depth + 1, b1).
Proof. intros T. apply tag_gogo_wire in T as (w & Hw & Ht). unfold skip_item_gogo. now rewrite Hw, Ht. Qed.

Lemma gogo_item_egroup depth b num b1 : tag_dec b = Some (num, 4, b1) ->
  skip_item_gogo depth b = if depth =? 0 then None else Some (depth - 1, b1).
Proof. intros T. apply tag_gogo_wire in T as (w & Hw & Ht). unfold skip_item_gogo. now rewrite Hw, Ht. Qed.

Definition gogo_cont (n : N) (r : list N) : option (list N) := if n =? 0 then Some r else skip_run_gogo n r.

(* a well-formed protowire group body, read by skipNebula at depth n+1, brings it back to depth n at the same byte *)
Lemma group_sim d : forall num b r n,
  group_run_pw d num b = Some r -> skip_run_gogo (n + 1) b = gogo_cont n r.
Proof.
  induction d as [|d IHd].
  - (* no nesting left: only non-group fields inside *)
    intros num b. remember (length b) as k eqn:Hk. assert (Lk : (length b <= k)%nat) by lia. clear Hk.
    revert b Lk. induction k as [|k IHk]; intros b Lk r n H; rewrite group_run_pw_unfold in H.
    + destruct b; [|cbn in Lk; lia]. discriminate.
    + destruct (tag_dec b) as [[[n2 t2] b1]|] eqn:T; [|discriminate].
      pose proof (tag_dec_shorter _ _ _ _ T) as Sh.
      destruct (t2 =? 4) eqn:E4.
      * apply N.eqb_eq in E4. subst t2. destruct (n2 =? num); [|discriminate]. inversion H; subst.
        rewrite skip_run_gogo_unfold, (gogo_item_egroup _ _ _ _ T).
        destruct (n + 1 =? 0) eqn:Z; [apply N.eqb_eq in Z; lia|].
        replace (n + 1 - 1) with n by lia. reflexivity.
      * destruct (skip_value_pw 0 (length b1) n2 t2 b1) as [b2|] eqn:Sk; [|discriminate].
        pose proof (skip_value_pw_shorter _ _ _ _ _ _ Sk) as Sh2.
        cbn [skip_value_pw] in Sk. destruct (t2 =? 3) eqn:E3; [discriminate|]. apply N.eqb_neq in E3.
        rewrite skip_run_gogo_unfold, (gogo_item_simple _ _ _ _ _ _ T E3 Sk).
        destruct (n + 1 =? 0) eqn:Z; [apply N.eqb_eq in Z; lia|].
        apply IHk; [lia|assumption].
  - intros num b. remember (length b) as k eqn:Hk. assert (Lk : (length b <= k)%nat) by lia. clear Hk.
    revert b Lk. induction k as [|k IHk]; intros b Lk r n H; rewrite group_run_pw_unfold in H.
    + destruct b; [|cbn in Lk; lia]. discriminate.
    + destruct (tag_dec b) as [[[n2 t2] b1]|] eqn:T; [|discriminate].
      pose proof (tag_dec_shorter _ _ _ _ T) as Sh.
      destruct (t2 =? 4) eqn:E4.
      * apply N.eqb_eq in E4. subst t2. destruct (n2 =? num); [|discriminate]. inversion H; subst.
        rewrite skip_run_gogo_unfold, (gogo_item_egroup _ _ _ _ T).
        destruct (n + 1 =? 0) eqn:Z; [apply N.eqb_eq in Z; lia|].
        replace (n + 1 - 1) with n by lia. reflexivity.
      * destruct (skip_value_pw (S d) (length b1) n2 t2 b1) as [b2|] eqn:Sk; [|discriminate].
        pose proof (skip_value_pw_shorter _ _ _ _ _ _ Sk) as Sh2.
        destruct (t2 =? 3) eqn:E3.
        -- (* nested group *)
           apply N.eqb_eq in E3. subst t2. rewrite skip_value_pw_group in Sk by lia.
           rewrite skip_run_gogo_unfold, (gogo_item_sgroup _ _ _ _ T).
           destruct (n + 1 + 1 =? 0) eqn:Z; [apply N.eqb_eq in Z; lia|].
           rewrite (IHd n2 b1 b2 (n + 1) Sk). unfold gogo_cont.
           destruct (n + 1 =? 0) eqn:Z2; [apply N.eqb_eq in Z2; lia|].
           apply IHk; [lia|assumption].
        -- apply N.eqb_neq in E3. rewrite skip_value_pw_nongroup in Sk by assumption.
           rewrite skip_run_gogo_unfold, (gogo_item_simple _ _ _ _ _ _ T E3 Sk).
           destruct (n + 1 =? 0) eqn:Z; [apply N.eqb_eq in Z; lia|].
           apply IHk; [lia|assumption].
Qed.

Theorem skip_pw_implies_gogo b num typ b1 r : tag_dec b = Some (num, typ, b1) ->
  skip_field_pw num typ b1 = Some r -> skip_gogo b = Some r.
Proof.
  intros T S. change (skip_gogo b) with (skip_run_gogo 0 b). rewrite skip_run_gogo_unfold.
  destruct (typ =? 3) eqn:E3.
  - apply N.eqb_eq in E3. subst typ. rewrite (gogo_item_sgroup _ _ _ _ T).
    change (0 + 1 =? 0) with false. cbv iota.
    unfold skip_field_pw in S. rewrite pw_recursion_levels_S in S.
    rewrite skip_value_pw_group in S by lia.
    apply (group_sim _ _ _ _ 0 S).
  - apply N.eqb_neq in E3. rewrite skip_field_pw_nongroup in S by assumption.
    rewrite (gogo_item_simple _ _ _ _ _ _ T E3 S). reflexivity.
Qed.

(* ---- step simulations ---- *)

Lemma dec_u32_implies_gogo b v r : dec_u32 b = Some (v, r) -> gogo_u32 b = Some (v, r).
Proof.
  unfold dec_u32, gogo_u32. destruct (varint_dec b) as [[x r']|] eqn:E; [|discriminate].
  rewrite (varint_dec_implies_gogo _ _ _ E). destruct (x <=? max_u32) eqn:L; [|discriminate].
  apply N.leb_le in L. intros H; inversion H; subst.
  rewrite N.mod_small by (unfold max_u32, two32 in *; lia). reflexivity.
Qed.

Lemma skip_varint_value num b1 b2 : skip_field_pw num 0 b1 = Some b2 -> exists x, varint_dec b1 = Some (x, b2).
Proof.
  rewrite skip_field_pw_nongroup by discriminate. cbn [skip_field].
  destruct (varint_dec b1) as [[x r]|]; [|discriminate]. cbn. intros H; inversion H; subst. eauto.
Qed.

Lemma skip_bytes_value num b1 b2 : skip_field_pw num 2 b1 = Some b2 -> exists v, bytes_dec b1 = Some (v, b2).
Proof.
  rewrite skip_field_pw_nongroup by discriminate. cbn [skip_field].
  destruct (bytes_dec b1) as [[x r]|]; [|discriminate]. cbn. intros H; inversion H; subst. eauto.
Qed.

Lemma skip_egroup_none num b1 : skip_field_pw num 4 b1 = None.
Proof. rewrite skip_field_pw_nongroup by discriminate. reflexivity. Qed.

Lemma details_sim p d b p' b' : payload_of_details d = p -> details_step true p b = Some (p', b') ->
  exists d', schema_details_step d b = Some (d', b') /\ payload_of_details d' = p'.
Proof.
  intros R H. unfold details_step in H. unfold schema_details_step.
  destruct (tag_dec b) as [[[num typ] b1]|] eqn:T; [|discriminate].
  destruct (typ =? 4) eqn:E4.
  { (* an end-group tag is refused by every branch of the parser *)
    exfalso. apply N.eqb_eq in E4. subst typ. revert H. fcalc.
    repeat match goal with |- context [if ?c then _ else _] => destruct c end; try discriminate.
    all: try (now rewrite skip_egroup_none). }
  apply N.eqb_neq in E4. rewrite (tag_dec_implies_gogo _ _ _ _ T E4).
  destruct p as [pc pi pr pt pv], d as [dc di dr dk dt dv]. unfold payload_of_details in R.
  cbn [d_cert d_ii d_ri d_time d_ver] in R. inversion R; subst. clear R.
  destruct (num =? f_cert).
  { destruct (typ =? wt_bytes); [|discriminate].
    destruct (bytes_dec b1) as [[v b2]|] eqn:E; [|discriminate]. inversion H; subst.
    rewrite (bytes_dec_implies_gogo _ _ _ E). eexists; split; reflexivity. }
  destruct (num =? f_ii).
  { destruct (typ =? wt_varint); [|discriminate].
    destruct (dec_u32 b1) as [[v b2]|] eqn:E; [|discriminate]. inversion H; subst.
    rewrite (dec_u32_implies_gogo _ _ _ E). eexists; split; reflexivity. }
  destruct (num =? f_ri).
  { destruct (typ =? wt_varint); [|discriminate].
    destruct (dec_u32 b1) as [[v b2]|] eqn:E; [|discriminate]. inversion H; subst.
    rewrite (dec_u32_implies_gogo _ _ _ E). eexists; split; reflexivity. }
  destruct (num =? f_time) eqn:E5.
  { apply N.eqb_eq in E5. subst num. revert H. fcalc.
    destruct (typ =? 0); [|discriminate].
    destruct (varint_dec b1) as [[v b2]|] eqn:E; [|discriminate]. intros H; inversion H; subst.
    rewrite (varint_dec_implies_gogo _ _ _ E). eexists; split; reflexivity. }
  destruct (num =? f_ver) eqn:E8.
  { apply N.eqb_eq in E8. subst num. revert H. fcalc.
    destruct (typ =? 0); [|discriminate].
    destruct (dec_u32 b1) as [[v b2]|] eqn:E; [|discriminate]. intros H; inversion H; subst.
    rewrite (dec_u32_implies_gogo _ _ _ E). eexists; split; reflexivity. }
  destruct (num =? f_cookie) eqn:Ek.
  { (* Cookie: strict lets only the varint form through; the parser skips it, the schema stores it *)
    apply N.eqb_eq in Ek. subst num. revert H. fcalc.
    destruct (typ =? 0) eqn:E0; cbn [negb andb]; [|discriminate].
    apply N.eqb_eq in E0. subst typ.
    destruct (skip_field_pw 4 0 b1) as [b2|] eqn:S; [|discriminate]. intros H; inversion H; subst.
    apply skip_varint_value in S as (x & Hx). rewrite (varint_dec_implies_gogo _ _ _ Hx).
    eexists; split; reflexivity. }
  cbn [andb] in H.
  destruct (skip_field_pw num typ b1) as [b2|] eqn:S; [|discriminate]. inversion H; subst.
  rewrite (skip_pw_implies_gogo _ _ _ _ _ T S). eexists; split; reflexivity.
Qed.

Lemma outer_sim p m b p' b' : payload_of_msg m = p -> outer_step true p b = Some (p', b') ->
  exists m', schema_outer_step m b = Some (m', b') /\ payload_of_msg m' = p'.
Proof.
  intros R H. unfold outer_step in H. unfold schema_outer_step.
  destruct (tag_dec b) as [[[num typ] b1]|] eqn:T; [|discriminate].
  destruct (typ =? 4) eqn:E4.
  { exfalso. apply N.eqb_eq in E4. subst typ. revert H. fcalc.
    repeat match goal with |- context [if ?c then _ else _] => destruct c end; try discriminate.
    all: try (now rewrite skip_egroup_none). }
  apply N.eqb_neq in E4. rewrite (tag_dec_implies_gogo _ _ _ _ T E4).
  destruct (num =? f_details).
  { destruct (typ =? wt_bytes); [|discriminate].
    destruct (bytes_dec b1) as [[sub b2]|] eqn:E; [|discriminate].
    rewrite (bytes_dec_implies_gogo _ _ _ E).
    destruct (unmarshal_details true p sub) as [p2|] eqn:U; [|discriminate]. inversion H; subst.
    set (d0 := match h_details m with Some d => d | None => details0 end).
    assert (R0 : payload_of_details d0 = payload_of_msg m).
    { unfold d0, payload_of_msg. destruct (h_details m); reflexivity. }
    destruct (msg_run_sim (details_step true) schema_details_step
                (fun p d => payload_of_details d = p)
                (fun s1 s2 b s1' b' HR HS => details_sim s1 s2 b s1' b' HR HS)
                (payload_of_msg m) d0 sub p' R0 U) as (d' & Hd' & Rd').
    unfold schema_details_decode. rewrite Hd'. eexists; split; [reflexivity|]. exact Rd'. }
  destruct (num =? f_hmac) eqn:Eh.
  { apply N.eqb_eq in Eh. subst num. revert H. fcalc.
    destruct (typ =? 2) eqn:E2; cbn [negb andb]; [|discriminate].
    apply N.eqb_eq in E2. subst typ.
    destruct (skip_field_pw 2 2 b1) as [b2|] eqn:S; [|discriminate]. intros H; inversion H; subst.
    apply skip_bytes_value in S as (v & Hv). rewrite (bytes_dec_implies_gogo _ _ _ Hv).
    eexists; split; reflexivity. }
  cbn [andb] in H.
  destruct (skip_field_pw num typ b1) as [b2|] eqn:S; [|discriminate]. inversion H; subst.
  rewrite (skip_pw_implies_gogo _ _ _ _ _ T S). eexists; split; reflexivity.
Qed.

(* strict accepts  ==>  the generated decoder accepts, same field values *)
Theorem strict_implies_schema b p : unmarshal_strict b = Some p ->
  exists m, schema_decode b = Some m /\ payload_of_msg m = p.
Proof.
  intros H. unfold unmarshal_strict, unmarshal_gen in H. unfold schema_decode.
  apply (msg_run_sim (outer_step true) schema_outer_step (fun p m => payload_of_msg m = p)
           (fun s1 s2 b s1' b' HR HS => outer_sim s1 s2 b s1' b' HR HS) payload0 hs0 b p eq_refl H).
Qed.

(* strict is the parser with more refusals *)
Lemma details_strict_weaken p b x : details_step true p b = Some x -> details_step false p b = Some x.
Proof.
  unfold details_step. destruct (tag_dec b) as [[[num typ] b1]|]; [|discriminate].
  repeat match goal with |- context [if ?c then _ else _] => destruct c eqn:? end; try discriminate; try (intros H; exact H).
  all: rewrite andb_false_r in *; try discriminate.
Qed.

Lemma unmarshal_details_weaken p b x : unmarshal_details true p b = Some x -> unmarshal_details false p b = Some x.
Proof.
  intros H. unfold unmarshal_details in *.
  destruct (msg_run_sim (details_step true) (details_step false) eq
              (fun s1 s2 b s1' b' HR HS => ex_intro _ s1' (conj (eq_ind s1 (fun s => details_step false s b = Some (s1', b'))
                                                                   (details_strict_weaken s1 b (s1', b') HS) s2 HR) eq_refl))
              p p b x eq_refl H) as (r & Hr & <-).
  exact Hr.
Qed.

Lemma outer_strict_weaken p b x : outer_step true p b = Some x -> outer_step false p b = Some x.
Proof.
  unfold outer_step. destruct (tag_dec b) as [[[num typ] b1]|]; [|discriminate].
  destruct (num =? f_details).
  - destruct (typ =? wt_bytes); [|discriminate].
    destruct (bytes_dec b1) as [[sub b2]|]; [|discriminate].
    destruct (unmarshal_details true p sub) as [p2|] eqn:U; [|discriminate].
    now rewrite (unmarshal_details_weaken _ _ _ U).
  - rewrite andb_false_r.
    destruct ((num =? f_hmac) && negb (typ =? wt_bytes) && true); [discriminate|]. intros H; exact H.
Qed.

Theorem strict_implies_parser b p : unmarshal_strict b = Some p -> unmarshal_payload b = Some p.
Proof.
  intros H. unfold unmarshal_strict, unmarshal_payload, unmarshal_gen in *.
  destruct (msg_run_sim (outer_step true) (outer_step false) eq
              (fun s1 s2 b s1' b' HR HS => ex_intro _ s1' (conj (eq_ind s1 (fun s => outer_step false s b = Some (s1', b'))
                                                                   (outer_strict_weaken s1 b (s1', b') HS) s2 HR) eq_refl))
              payload0 payload0 b p eq_refl H) as (r & Hr & <-).
  exact Hr.
Qed.

Theorem agreement b p : unmarshal_strict b = Some p ->
  unmarshal_payload b = Some p /\ exists m, schema_decode b = Some m /\ payload_of_msg m = p.
Proof. intros H. split; [now apply strict_implies_parser|now apply strict_implies_schema]. Qed.

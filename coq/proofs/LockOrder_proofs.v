(* LockOrder_proofs: the acyclicity check is sound, and threads that respect an acyclic lock-order graph never
   reach a wait-for cycle. *)
From Coq Require Import List NArith Bool Arith Lia.
Import ListNotations.
From NV Require Import model.LockOrder.
Open Scope N_scope.

Lemma rank_ok_edge r g a b : rank_ok r g = true -> In (a, b) g -> (get_rank r b < get_rank r a)%nat.
Proof.
  unfold rank_ok. rewrite forallb_forall. intros H Hin. specialize (H _ Hin). simpl in H. now apply Nat.ltb_lt in H.
Qed.

Lemma rank_ok_reach r g a b : rank_ok r g = true -> reach g a b -> (get_rank r b < get_rank r a)%nat.
Proof.
  intros H R. induction R as [a b Hin|a b c Hin R IH].
  - now apply (rank_ok_edge r g).
  - pose proof (rank_ok_edge r g a b H Hin). lia.
Qed.

(* any ranking that strictly decreases along every edge rules out cycles; [acyclicb] checks its own ranking *)
Lemma acyclicb_sound g : acyclicb g = true -> forall v, ~ reach g v v.
Proof. unfold acyclicb. intros H v R. pose proof (rank_ok_reach _ g v v H R). lia. Qed.

Lemma acyclicb_no_self g : acyclicb g = true -> forall v, ~ In (v, v) g.
Proof. intros H v Hin. apply (acyclicb_sound g H v). now constructor. Qed.

Lemma minus_in g known e : In e (minus g known) <-> In e g /\ has_edge e known = false.
Proof. unfold minus. rewrite filter_In. now rewrite negb_true_iff. Qed.

Section Threads.
  Variable lock : Type.
  Variable class : lock -> N.
  Variable g : graph.
  Variable sys : list (thread lock).
  Hypothesis Hdisc : forall t, In t sys -> disciplined lock class g t.

  Lemma wf_path_reach t u : wf_path lock sys t u ->
    forall mu, waits lock u = Some mu ->
    exists mt, waits lock t = Some mt /\ reach g (class mt) (class mu).
  Proof.
    intro P. induction P as [t u Ht Hu [m [Wm Hm]]|t x u Ht Hx [m [Wm Hm]] P IH]; intros mu Wu.
    - exists m. split; [exact Wm|]. apply reach1. exact (Hdisc u Hu mu Wu m Hm).
    - destruct (IH mu Wu) as [mx [Wx R]]. exists m. split; [exact Wm|].
      apply (reachS g _ (class mx)); [exact (Hdisc x Hx mx Wx m Hm)|exact R].
  Qed.

  (* no thread of a disciplined system is part of a wait-for cycle *)
  Lemma ordered_no_deadlock : acyclicb g = true -> forall t, ~ wf_path lock sys t t.
  Proof.
    intros A t P.
    assert (exists m, waits lock t = Some m) as [m Wm].
    { inversion P as [? ? _ _ [m [W _]]|? ? ? _ _ [m [W _]] _]; subst; now exists m. }
    destruct (wf_path_reach t t P m Wm) as [m' [Wm' R]].
    rewrite Wm in Wm'. inversion Wm'; subst m'. exact (acyclicb_sound g A _ R).
  Qed.
End Threads.

(* the check is not vacuous: it accepts a chain and refuses a 2-cycle and a self-loop *)
Example acyclicb_examples :
  acyclicb [(1, 2); (2, 3); (1, 3)] = true /\ acyclicb [(1, 2); (2, 1)] = false /\ acyclicb [(4, 4)] = false /\
  acyclicb (minus [(1, 2); (2, 1); (2, 3)] [(2, 1)]) = true.
Proof. vm_compute. repeat split; reflexivity. Qed.

Example deadlock_example :
  (* two threads, each holding one lock and waiting for the other's: a wait-for cycle, and indeed not disciplined
     for any acyclic graph *)
  let t1 := mkThread N [1] (Some 2) in let t2 := mkThread N [2] (Some 1) in
  wf_path N [t1; t2] t1 t1.
Proof.
  cbv zeta. eapply wfS; [now left|right; now left| |apply wf1; [right; now left|now left|]].
  - exists 2. simpl. auto.
  - exists 1. simpl. auto.
Qed.

(* Lemmas about model/IpParse.v: the offset-based, bounded walker of the code against the list-consuming,
   unbounded reference parser; panic freedom of every checked read. *)
From Coq Require Import List NArith ZArith Lia Bool ZifyN ZifyNat ZifyBool.
Import ListNotations.
From NV Require Import lib.Bytes gen.Consts_IpParse model.IpParse.
Open Scope N_scope.
Local Ltac Zify.zify_post_hook ::= Z.div_mod_to_equations.

(* ---------------------------------------------------------------------------------------------- *)
(** * Lists, checked reads *)

Lemma skipn_nth_cons (l : list N) : forall n, (n < length l)%nat -> skipn n l = nth n l 0 :: skipn (S n) l.
Proof.
  induction l as [|a l IH]; intros [|n] H; simpl in *; try lia; [reflexivity|].
  rewrite IH by lia. destruct l; reflexivity.
Qed.

Lemma nth_skipn (l : list N) : forall n i, nth i (skipn n l) 0 = nth (n + i) l 0.
Proof.
  induction l as [|a l IH]; intros [|n] i; simpl; try reflexivity.
  - destruct i; reflexivity.
  - apply IH.
Qed.

Lemma length_skipn_N (d : list N) (off : N) :
  N.of_nat (length (skipn (N.to_nat off) d)) = blen d - off.
Proof. unfold blen. rewrite skipn_length. lia. Qed.

Lemma nth_error_nth_ok (d : list N) (i : nat) : (i < length d)%nat -> nth_error d i = Some (nth i d 0).
Proof. intros H. now apply nth_error_nth'. Qed.

Lemma rd_ok {A} (d : list N) (i : N) (k : N -> res A) :
  i < blen d -> rd d i k = k (nth (N.to_nat i) d 0).
Proof.
  intros H. unfold rd, blen in *. rewrite nth_error_nth_ok by lia. reflexivity.
Qed.

Lemma rds_ok {A} (d : list N) (lo n : N) (k : list N -> res A) :
  lo + n <= blen d -> rds d lo n k = k (slice d (N.to_nat lo) (N.to_nat n)).
Proof. intros H. unfold rds. destruct (N.leb_spec (lo + n) (blen d)); [reflexivity|lia]. Qed.

Lemma slice2 (d : list N) (i : nat) :
  (i + 2 <= length d)%nat -> slice d i 2 = [nth i d 0; nth (S i) d 0].
Proof.
  intros H. unfold slice. rewrite (skipn_nth_cons d i) by lia. rewrite (skipn_nth_cons d (S i)) by lia.
  reflexivity.
Qed.

Lemma rd16_ok {A} (d : list N) (i : N) (k : N -> res A) :
  i + 2 <= blen d -> rd16 d i k = k (nth (N.to_nat i) d 0 * 256 + nth (N.to_nat (i + 1)) d 0).
Proof.
  intros H. unfold rd16. rewrite rds_ok by assumption.
  change (N.to_nat 2) with 2%nat. unfold blen in H. rewrite slice2 by lia.
  replace (N.to_nat (i + 1)) with (S (N.to_nat i)) by lia.
  unfold be_dec. cbn [be_dec_acc]. f_equal; lia.
Qed.

Lemma bytes_ok_nth (d : list N) (i : nat) : bytes_ok d = true -> nth i d 0 < 256.
Proof.
  intros H. destruct (Nat.lt_ge_cases i (length d)) as [Hi|Hi].
  - unfold bytes_ok in H. rewrite forallb_forall in H.
    specialize (H (nth i d 0) (nth_In d 0 Hi)). unfold byte_ok in H. lia.
  - rewrite nth_overflow by assumption. lia.
Qed.

(* a property of all 256 byte values, decided by evaluation *)
Definition all_bytes : list N := map N.of_nat (seq 0 256).
Lemma byte_forall (P : N -> bool) : forallb P all_bytes = true -> forall b, b < 256 -> P b = true.
Proof.
  intros H b Hb. rewrite forallb_forall in H. apply H. unfold all_bytes.
  apply in_map_iff. exists (N.to_nat b). split; [lia|]. apply in_seq. lia.
Qed.

Lemma land248 b : b < 256 -> (N.land b 248 =? 0) = (b <? 8).
Proof.
  intros Hb. apply (byte_forall (fun b => Bool.eqb (N.land b 248 =? 0) (b <? 8)) eq_refl) in Hb.
  now apply eqb_prop in Hb.
Qed.

Lemma version_nibble b : b < 256 -> N.land (N.shiftr b 4) 15 = b / 16.
Proof.
  intros Hb. apply (byte_forall (fun b => N.land (N.shiftr b 4) 15 =? b / 16) eq_refl) in Hb.
  now apply N.eqb_eq in Hb.
Qed.

Lemma land15 b : b < 256 -> N.land b 15 = b mod 16.
Proof. intros _. change 15 with (N.ones 4). now rewrite N.land_ones. Qed.

Lemma frag_cond b2 b3 : b2 < 256 -> b3 < 256 ->
  (negb (b2 =? 0) || negb (N.land b3 248 =? 0)) = negb ((b2 * 256 + b3) / 8 =? 0).
Proof.
  intros H2 H3. rewrite land248 by assumption.
  destruct (N.eqb_spec b2 0), (N.ltb_spec b3 8), (N.eqb_spec ((b2 * 256 + b3) / 8) 0); simpl; try reflexivity; lia.
Qed.

(* ---------------------------------------------------------------------------------------------- *)
(** * The extension header walk *)

Lemma kind_cases nh :
  (kind_of nh = KOpts /\ ((nh =? 0) || (nh =? 43) || (nh =? 60)) = true /\ is_ext nh = true) \/
  (kind_of nh = KFrag /\ ((nh =? 0) || (nh =? 43) || (nh =? 60)) = false /\ (nh =? 44) = true /\ is_ext nh = true) \/
  (kind_of nh = KAuth /\ ((nh =? 0) || (nh =? 43) || (nh =? 60)) = false /\ (nh =? 44) = false /\ (nh =? 51) = true /\ is_ext nh = true) \/
  (kind_of nh = KUpper /\ ((nh =? 0) || (nh =? 43) || (nh =? 60)) = false /\ (nh =? 44) = false /\ (nh =? 51) = false /\ is_ext nh = false).
Proof.
  unfold kind_of, is_ext.
  destruct (nh =? 0) eqn:E0; [left; auto|].
  destruct (nh =? 43) eqn:E43; [left; auto|].
  destruct (nh =? 60) eqn:E60; [left; simpl; rewrite ?orb_true_r; auto|].
  destruct (nh =? 44) eqn:E44; [right; left; auto|].
  destruct (nh =? 51) eqn:E51; [right; right; left; auto|].
  right; right; right; auto.
Qed.

(* the walker's outcome as a function of the reference outcome and the number of headers it may walk *)
Definition walk_of_chain (fuel : nat) (c : chain) : res (N * N * bool * bool) :=
  match c with
  | CDone nh off _ anyf n => if (n <=? fuel)%nat then Ok (nh, off, false, anyf) else Err 6
  | CNonFirst nh off n => if (n <=? fuel)%nat then Ok (nh, off, true, true) else Err 6
  | CBad => Err 6
  end.

Lemma walk_of_chain_bump f c : walk_of_chain (S f) (bump c) = walk_of_chain f c.
Proof. destruct c; reflexivity. Qed.

Lemma walk_of_chain_bump0 c : walk_of_chain 0 (bump c) = Err 6.
Proof. destruct c; reflexivity. Qed.

(* the code notices an offset beyond the packet one step late, but it always does *)
Lemma walk_past_end fuel d nh off anyf : blen d < off -> walk_loop fuel d nh off anyf = Err 6.
Proof.
  intros H. destruct fuel as [|f]; cbn [walk_loop].
  - destruct (is_ext nh); [reflexivity|]. destruct (N.ltb_spec (blen d) off); [reflexivity|lia].
  - destruct ((nh =? 0) || (nh =? 43) || (nh =? 60)).
    { destruct (N.ltb_spec (blen d) (off + 2)); [reflexivity|lia]. }
    destruct (nh =? 44).
    { destruct (N.ltb_spec (blen d) (off + 8)); [reflexivity|lia]. }
    destruct (nh =? 51).
    { destruct (N.ltb_spec (blen d) (off + 2)); [reflexivity|lia]. }
    destruct (N.ltb_spec (blen d) off); [reflexivity|lia].
Qed.

Lemma skipn_skipn_N (d : list N) (a b : N) :
  skipn (N.to_nat b) (skipn (N.to_nat a) d) = skipn (N.to_nat (a + b)) d.
Proof.
  replace (N.to_nat (a + b)) with (N.to_nat a + N.to_nat b)%nat by lia.
  generalize (N.to_nat a) as x, (N.to_nat b) as y. clear a b.
  intros x; revert d; induction x as [|x IH]; intros d y; [reflexivity|].
  destruct d as [|c d]; [now rewrite !skipn_nil|]. apply IH.
Qed.

(* first two bytes of the remaining packet *)
Lemma rest2 d off : off + 2 <= blen d ->
  skipn (N.to_nat off) d =
  nth (N.to_nat off) d 0 :: nth (N.to_nat (off + 1)) d 0 :: skipn (N.to_nat (off + 2)) d.
Proof.
  intros H. unfold blen in H.
  rewrite (skipn_nth_cons d (N.to_nat off)) by lia.
  rewrite (skipn_nth_cons d (S (N.to_nat off))) by lia.
  replace (N.to_nat (off + 1)) with (S (N.to_nat off)) by lia.
  replace (N.to_nat (off + 2)) with (S (S (N.to_nat off))) by lia. reflexivity.
Qed.

Lemma rest8 d off : off + 8 <= blen d ->
  skipn (N.to_nat off) d =
  nth (N.to_nat off) d 0 :: nth (N.to_nat (off + 1)) d 0 :: nth (N.to_nat (off + 2)) d 0 :: nth (N.to_nat (off + 3)) d 0 ::
  nth (N.to_nat (off + 4)) d 0 :: nth (N.to_nat (off + 5)) d 0 :: nth (N.to_nat (off + 6)) d 0 :: nth (N.to_nat (off + 7)) d 0 ::
  skipn (N.to_nat (off + 8)) d.
Proof.
  intros H.
  rewrite (rest2 d off) by lia. rewrite (rest2 d (off + 2)) by lia.
  rewrite (rest2 d (off + 2 + 2)) by lia. rewrite (rest2 d (off + 2 + 2 + 2)) by lia.
  repeat match goal with |- context [N.to_nat ?e] =>
    lazymatch e with
    | off + 2 + 1 => replace e with (off + 3) by lia
    | off + 2 + 2 => replace e with (off + 4) by lia
    | off + 4 + 1 => replace e with (off + 5) by lia
    | off + 4 + 2 => replace e with (off + 6) by lia
    | off + 6 + 1 => replace e with (off + 7) by lia
    | off + 6 + 2 => replace e with (off + 8) by lia
    end end.
  reflexivity.
Qed.

Lemma short_rest d off k : off <= blen d -> blen d < off + k ->
  (length (skipn (N.to_nat off) d) < N.to_nat k)%nat.
Proof. intros H1 H2. pose proof (length_skipn_N d off). lia. Qed.

Lemma walk_spec : forall fuel d sfuel nh off anyf,
  bytes_ok d = true -> off <= blen d -> (length (skipn (N.to_nat off) d) < sfuel)%nat ->
  walk_loop fuel d nh off anyf = walk_of_chain fuel (spec_chain sfuel nh (skipn (N.to_nat off) d) off anyf).
Proof.
  induction fuel as [|f IH]; intros d sfuel nh off anyf Hb Hoff Hsf;
    (destruct sfuel as [|sf]; [lia|]); cbn [walk_loop spec_chain].
  - (* after the loop *)
    destruct (kind_cases nh) as [(K & _ & E)|[(K & _ & _ & E)|[(K & _ & _ & _ & E)|(K & _ & _ & _ & E)]]]; rewrite K, E.
    + destruct (skipn (N.to_nat off) d) as [|a [|b r]]; try reflexivity.
      destruct (8 * (b + 1) <=? blen (a :: b :: r)); [apply eq_sym, walk_of_chain_bump0|reflexivity].
    + destruct (skipn (N.to_nat off) d) as [|a [|b [|c1 [|c2 [|c3 [|c4 [|c5 [|c6 r]]]]]]]]; try reflexivity.
      destruct ((c1 * 256 + c2) / 8 =? 0); [apply eq_sym, walk_of_chain_bump0|reflexivity].
    + destruct (skipn (N.to_nat off) d) as [|a [|b r]]; try reflexivity.
      destruct (4 * (b + 2) <=? blen (a :: b :: r)); [apply eq_sym, walk_of_chain_bump0|reflexivity].
    + destruct (N.ltb_spec (blen d) off); [lia|reflexivity].
  - destruct (kind_cases nh) as [(K & E1 & _)|[(K & E1 & E2 & _)|[(K & E1 & E2 & E3 & _)|(K & E1 & E2 & E3 & _)]]];
      rewrite K, ?E1, ?E2, ?E3.
    + (* hop-by-hop / routing / destination options *)
      destruct (N.ltb_spec (blen d) (off + 2)) as [Hs|Hs].
      { pose proof (short_rest d off 2 Hoff Hs) as Hl.
        destruct (skipn (N.to_nat off) d) as [|a [|b r]]; try reflexivity. simpl in Hl. lia. }
      rewrite !rd_ok by lia. rewrite (rest2 d off) by lia. rewrite <- (rest2 d off) by lia.
      set (nh' := nth (N.to_nat off) d 0). set (l := nth (N.to_nat (off + 1)) d 0).
      rewrite skipn_skipn_N. pose proof (length_skipn_N d off) as Hlen.
      unfold blen at 1. rewrite Hlen.
      replace (off + (l + 1) * 8) with (off + 8 * (l + 1)) by lia.
      destruct (N.leb_spec (8 * (l + 1)) (blen d - off)) as [Hin|Hout].
      * rewrite walk_of_chain_bump. apply IH; [assumption|lia|].
        pose proof (length_skipn_N d (off + 8 * (l + 1))). lia.
      * apply walk_past_end. lia.
    + (* fragment *)
      destruct (N.ltb_spec (blen d) (off + 8)) as [Hs|Hs].
      { pose proof (short_rest d off 8 Hoff Hs) as Hl.
        destruct (skipn (N.to_nat off) d) as [|a [|b [|c1 [|c2 [|c3 [|c4 [|c5 [|c6 r]]]]]]]]; try reflexivity.
        simpl in Hl. lia. }
      rewrite (rd_ok d (off + 2)) by lia. rewrite (rd_ok d (off + 3)) by lia.
      rewrite (rest8 d off) by lia.
      rewrite frag_cond by (apply bytes_ok_nth; assumption).
      destruct ((nth (N.to_nat (off + 2)) d 0 * 256 + nth (N.to_nat (off + 3)) d 0) / 8 =? 0); cbn [negb];
        rewrite rd_ok by lia.
      * rewrite walk_of_chain_bump. apply IH; [assumption|lia|].
        pose proof (length_skipn_N d (off + 8)). pose proof (length_skipn_N d off). lia.
      * reflexivity.
    + (* authentication header *)
      destruct (N.ltb_spec (blen d) (off + 2)) as [Hs|Hs].
      { pose proof (short_rest d off 2 Hoff Hs) as Hl.
        destruct (skipn (N.to_nat off) d) as [|a [|b r]]; try reflexivity. simpl in Hl. lia. }
      rewrite !rd_ok by lia. rewrite (rest2 d off) by lia. rewrite <- (rest2 d off) by lia.
      set (nh' := nth (N.to_nat off) d 0). set (l := nth (N.to_nat (off + 1)) d 0).
      rewrite skipn_skipn_N. pose proof (length_skipn_N d off) as Hlen.
      unfold blen at 1. rewrite Hlen.
      replace (off + (l + 2) * 4) with (off + 4 * (l + 2)) by lia.
      destruct (N.leb_spec (4 * (l + 2)) (blen d - off)) as [Hin|Hout].
      * rewrite walk_of_chain_bump. apply IH; [assumption|lia|].
        pose proof (length_skipn_N d (off + 4 * (l + 2))). lia.
      * apply walk_past_end. lia.
    + (* upper layer protocol *)
      destruct (N.ltb_spec (blen d) off); [lia|reflexivity].
Qed.

(* ---------------------------------------------------------------------------------------------- *)
(** * What the reference walk guarantees about its results *)

Lemma bump_done c nh off p a n :
  bump c = CDone nh off p a n -> exists n', c = CDone nh off p a n' /\ n = S n'.
Proof. destruct c; simpl; intros H; inversion H; subst. eauto. Qed.

Lemma bump_nonfirst c nh off n :
  bump c = CNonFirst nh off n -> exists n', c = CNonFirst nh off n' /\ n = S n'.
Proof. destruct c; simpl; intros H; inversion H; subst. eauto. Qed.

Lemma rest8_inv d off a b c1 c2 c3 c4 c5 c6 r : off <= blen d ->
  skipn (N.to_nat off) d = a :: b :: c1 :: c2 :: c3 :: c4 :: c5 :: c6 :: r ->
  off + 8 <= blen d /\ a = nth (N.to_nat off) d 0 /\ c1 = nth (N.to_nat (off + 2)) d 0 /\
  c2 = nth (N.to_nat (off + 3)) d 0 /\ r = skipn (N.to_nat (off + 8)) d.
Proof.
  intros Hoff E. assert (Hl : off + 8 <= blen d).
  { pose proof (length_skipn_N d off) as Hl. rewrite E in Hl. cbn [length] in Hl. lia. }
  rewrite (rest8 d off Hl) in E. inversion E; subst. repeat split; auto.
Qed.

Lemma spec_chain_done : forall sfuel d nh off anyf nh' off' p a n,
  off <= blen d ->
  spec_chain sfuel nh (skipn (N.to_nat off) d) off anyf = CDone nh' off' p a n ->
  p = skipn (N.to_nat off') d /\ off' <= blen d /\ is_ext nh' = false.
Proof.
  induction sfuel as [|sf IH]; intros d nh off anyf nh' off' p a n Hoff H; cbn [spec_chain] in H; [discriminate|].
  pose proof (length_skipn_N d off) as Hlen.
  destruct (kind_cases nh) as [(K & _)|[(K & _)|[(K & _)|(K & _ & _ & _ & E)]]]; rewrite K in H.
  - destruct (skipn (N.to_nat off) d) as [|x [|y r]] eqn:Er; try discriminate.
    destruct (N.leb_spec (8 * (y + 1)) (blen (x :: y :: r))) as [Hin|]; [|discriminate].
    rewrite <- Er in H, Hin. rewrite skipn_skipn_N in H. apply bump_done in H as (n' & H & _).
    unfold blen in Hin. pose proof (length_skipn_N d off). apply IH in H; [assumption|lia].
  - destruct (skipn (N.to_nat off) d) as [|x [|y [|c1 [|c2 [|c3 [|c4 [|c5 [|c6 r]]]]]]]] eqn:Er; try discriminate.
    apply rest8_inv in Er as (Hl & _ & _ & _ & ->); [|assumption].
    destruct ((c1 * 256 + c2) / 8 =? 0); [|discriminate].
    apply bump_done in H as (n' & H & _). apply IH in H; [assumption|lia].
  - destruct (skipn (N.to_nat off) d) as [|x [|y r]] eqn:Er; try discriminate.
    destruct (N.leb_spec (4 * (y + 2)) (blen (x :: y :: r))) as [Hin|]; [|discriminate].
    rewrite <- Er in H, Hin. rewrite skipn_skipn_N in H. apply bump_done in H as (n' & H & _).
    unfold blen in Hin. pose proof (length_skipn_N d off). apply IH in H; [assumption|lia].
  - inversion H; subst. auto.
Qed.

(* a non-first fragment: the reported protocol is the next-header byte of the fragment header at the reported offset *)
Lemma spec_chain_nonfirst : forall sfuel d nh off anyf nh' off' n,
  off <= blen d ->
  spec_chain sfuel nh (skipn (N.to_nat off) d) off anyf = CNonFirst nh' off' n ->
  off' + 8 <= blen d /\ nh' = nth (N.to_nat off') d 0 /\
  negb ((nth (N.to_nat (off' + 2)) d 0 * 256 + nth (N.to_nat (off' + 3)) d 0) / 8 =? 0) = true.
Proof.
  induction sfuel as [|sf IH]; intros d nh off anyf nh' off' n Hoff H; cbn [spec_chain] in H; [discriminate|].
  pose proof (length_skipn_N d off) as Hlen.
  destruct (kind_cases nh) as [(K & _)|[(K & _)|[(K & _)|(K & _)]]]; rewrite K in H.
  - destruct (skipn (N.to_nat off) d) as [|x [|y r]] eqn:Er; try discriminate.
    destruct (N.leb_spec (8 * (y + 1)) (blen (x :: y :: r))) as [Hin|]; [|discriminate].
    rewrite <- Er in H, Hin. rewrite skipn_skipn_N in H. apply bump_nonfirst in H as (n' & H & _).
    unfold blen in Hin. pose proof (length_skipn_N d off). apply IH in H; [assumption|lia].
  - destruct (skipn (N.to_nat off) d) as [|x [|y [|c1 [|c2 [|c3 [|c4 [|c5 [|c6 r]]]]]]]] eqn:Er; try discriminate.
    apply rest8_inv in Er as (Hl & -> & -> & -> & ->); [|assumption].
    destruct ((nth (N.to_nat (off + 2)) d 0 * 256 + nth (N.to_nat (off + 3)) d 0) / 8 =? 0) eqn:Ez.
    + apply bump_nonfirst in H as (n' & H & _). apply IH in H; [assumption|lia].
    + inversion H; subst. rewrite Ez. auto.
  - destruct (skipn (N.to_nat off) d) as [|x [|y r]] eqn:Er; try discriminate.
    destruct (N.leb_spec (4 * (y + 2)) (blen (x :: y :: r))) as [Hin|]; [|discriminate].
    rewrite <- Er in H, Hin. rewrite skipn_skipn_N in H. apply bump_nonfirst in H as (n' & H & _).
    unfold blen in Hin. pose proof (length_skipn_N d off). apply IH in H; [assumption|lia].
  - discriminate.
Qed.

Definition limit : nat := N.to_nat ipp_max_ext_headers.

Lemma find_upper_spec d : bytes_ok d = true -> 40 <= blen d ->
  find_upper d = walk_of_chain limit (spec_walk d).
Proof.
  intros Hb Hl. unfold find_upper, spec_walk.
  destruct (N.ltb_spec (blen d) 40); [lia|]. rewrite rd_ok by lia.
  change (N.to_nat 6) with 6%nat. change 40%nat with (N.to_nat 40).
  apply walk_spec; [assumption|assumption|]. rewrite skipn_length. lia.
Qed.

(* the reference walk does not depend on its fuel once the fuel exceeds the number of remaining bytes:
   [spec_walk]'s |packet| + 1 is never what stops it *)
Lemma spec_chain_fuel : forall f1 f2 nh rest off anyf,
  (length rest < f1)%nat -> (length rest < f2)%nat ->
  spec_chain f1 nh rest off anyf = spec_chain f2 nh rest off anyf.
Proof.
  induction f1 as [|f1 IH]; intros f2 nh rest off anyf H1 H2; [lia|].
  destruct f2 as [|f2]; [lia|]. cbn [spec_chain].
  destruct (kind_of nh); [| | |reflexivity].
  - destruct rest as [|a [|b r]]; try reflexivity.
    destruct (N.leb_spec (8 * (b + 1)) (blen (a :: b :: r))) as [Hin|]; [|reflexivity].
    f_equal. unfold blen in Hin. apply IH; rewrite skipn_length; cbn [length] in *; lia.
  - destruct rest as [|a [|b [|c1 [|c2 [|c3 [|c4 [|c5 [|c6 r]]]]]]]]; try reflexivity.
    destruct ((c1 * 256 + c2) / 8 =? 0); [|reflexivity].
    f_equal. apply IH; cbn [length] in *; lia.
  - destruct rest as [|a [|b r]]; try reflexivity.
    destruct (N.leb_spec (4 * (b + 2)) (blen (a :: b :: r))) as [Hin|]; [|reflexivity].
    f_equal. unfold blen in Hin. apply IH; rewrite skipn_length; cbn [length] in *; lia.
Qed.

Lemma spec_walk_fuel d f : (length d < f)%nat ->
  spec_walk d = spec_chain f (nth 6 d 0) (skipn 40 d) 40 false.
Proof.
  intros H. unfold spec_walk. apply spec_chain_fuel; rewrite skipn_length; lia.
Qed.

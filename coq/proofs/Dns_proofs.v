(* Dns_proofs: where the responder's records come from (invariant over all handshake / reload / certificate
   histories), what parse_query can answer, case-insensitivity, the exact rcode rule, the TXT gate. *)
From Coq Require Import List NArith Bool Lia.
Import ListNotations.
From NV Require Import lib.Ip lib.Corr model.Dns.
Open Scope N_scope.

Lemma name_eqb_eq a b : name_eqb a b = true <-> a = b.
Proof. apply nlist_eqb_eq. Qed.

Local Notation agn := (aget_aset name_eqb name_eqb_eq).
Local Notation aga := (aget_aset addr_eqb addr_eqb_eq).

Lemma lower_app a b : lower (a ++ b) = lower a ++ lower b.
Proof. apply map_app. Qed.

Lemma lower_dot : lower [dot] = [dot].
Proof. reflexivity. Qed.

Lemma lower_byte_idem b : lower_byte (lower_byte b) = lower_byte b.
Proof.
  unfold lower_byte. destruct ((65 <=? b) && (b <=? 90)) eqn:E; [|now rewrite E].
  apply andb_prop in E as [E1 E2]. apply N.leb_le in E1, E2.
  replace ((65 <=? b + 32) && (b + 32 <=? 90)) with false; [reflexivity|].
  symmetry. apply andb_false_iff. right. apply N.leb_gt. lia.
Qed.

Lemma lower_idem n : lower (lower n) = lower n.
Proof. unfold lower. rewrite map_map. apply map_ext. apply lower_byte_idem. Qed.

(* deleting a key removes exactly its bindings *)
Lemma aget_adel (k k' : name) (m : list (name * N)) :
  aget name_eqb k (adel name_eqb k' m) = if name_eqb k' k then None else aget name_eqb k m.
Proof.
  induction m as [|[k0 v0] r IH]; simpl; [now destruct (name_eqb k' k)|].
  destruct (name_eqb k' k0) eqn:E0.
  - apply name_eqb_eq in E0; subst k0. rewrite IH.
    rewrite (eqb_sym_ name_eqb name_eqb_eq k k'). now destruct (name_eqb k' k).
  - simpl. destruct (name_eqb k k0) eqn:E1.
    + apply name_eqb_eq in E1; subst k0. now rewrite E0.
    + exact IH.
Qed.

Lemma aget_adel_sub (k k' : name) (m : list (name * N)) v : aget name_eqb k (adel name_eqb k' m) = Some v -> aget name_eqb k m = Some v.
Proof. rewrite aget_adel. destruct (name_eqb k' k); [discriminate|auto]. Qed.

Lemma first4_In l a : first4 l = Some a -> In (true, a) l.
Proof.
  unfold first4. destruct (find (fun a : addr => fst a) l) as [[f v]|] eqn:F; [|discriminate].
  apply find_some in F as [I T]. simpl in T. subst f. simpl. intros H; inversion H; subst. exact I.
Qed.

Lemma first6_In l a : first6 l = Some a -> In (false, a) l.
Proof.
  unfold first6. destruct (find (fun a : addr => negb (fst a)) l) as [[f v]|] eqn:F; [|discriminate].
  apply find_some in F as [I T]. simpl in T. destruct f; [discriminate|]. simpl. intros H; inversion H; subst. exact I.
Qed.

(* ---- certificates and the record invariant ----------------------------------------------------------------- *)

Definition cert := (N * name * list addr)%type.
Definition c_id (c : cert) : N := fst (fst c).
Definition c_name (c : cert) : name := snd (fst c).
Definition c_addrs (c : cert) : list addr := snd c.

(* the record key a certificate name turns into *)
Definition key_of (c : cert) : name := lower (c_name c ++ [dot]).

(* the certificates a history brings in: of completed handshakes, and every certificate the node itself had *)
Definition op_certs (o : dop) : list cert :=
  match o with DAdd id n a | DCert id n a => [(id, n, a)] | DReload _ => [] end.
Definition certs_of (mine : cert) (h : list dop) : list cert := mine :: flat_map op_certs h.

Definition from_certs (C : list cert) (is4 : bool) (m : list (name * N)) : Prop :=
  forall k v, aget name_eqb k m = Some v -> exists c, In c C /\ k = key_of c /\ In (is4, v) (c_addrs c).

Definition inv (C : list cert) (s : dstate) : Prop :=
  from_certs C true (d_m4 s) /\ from_certs C false (d_m6 s) /\ In (d_my s) C /\
  (forall a id, aget addr_eqb a (d_hosts s) = Some id -> exists c, In c C /\ c_id c = id /\ In a (c_addrs c)).

Lemma from_certs_mono C C' b m : (forall c, In c C -> In c C') -> from_certs C b m -> from_certs C' b m.
Proof. intros S F k v H. destruct (F k v H) as (c & I & E). exists c. auto. Qed.

Lemma inv_mono C C' s : (forall c, In c C -> In c C') -> inv C s -> inv C' s.
Proof.
  intros S (I4 & I6 & IM & IH). repeat split; eauto using from_certs_mono.
  intros a id H. destruct (IH a id H) as (c & I & E). exists c. auto.
Qed.

Lemma from_certs_adel C b m k : from_certs C b m -> from_certs C b (adel name_eqb k m).
Proof. intros F k' v H. apply aget_adel_sub in H. exact (F k' v H). Qed.

Lemma put_records_inv C s c :
  In c C -> inv C s -> inv C (put_records (key_of c) (c_addrs c) s).
Proof.
  intros IC (I4 & I6 & IM & IH). unfold put_records. repeat split; simpl; auto.
  - destruct (first4 (c_addrs c)) as [a|] eqn:F; [|exact I4].
    intros k v. rewrite agn. destruct (name_eqb (key_of c) k) eqn:E; [|apply I4].
    apply name_eqb_eq in E; subst k. intros H; inversion H; subst. exists c. split; [exact IC|]. split; [reflexivity|].
    now apply first4_In.
  - destruct (first6 (c_addrs c)) as [a|] eqn:F; [|exact I6].
    intros k v. rewrite agn. destruct (name_eqb (key_of c) k) eqn:E; [|apply I6].
    apply name_eqb_eq in E; subst k. intros H; inversion H; subst. exists c. split; [exact IC|]. split; [reflexivity|].
    now apply first6_In.
Qed.

Lemma seed_self_inv C s : inv C s -> inv C (seed_self s).
Proof.
  intros I. unfold seed_self. destruct (d_on s); [|exact I].
  destruct I as (I4 & I6 & IM & IH).
  set (nh := lower (my_name s) ++ [dot]).
  assert (K : nh = key_of (d_my s)). { unfold nh, key_of, c_name, my_name. now rewrite lower_app, lower_dot. }
  rewrite K.
  change (my_addrs s) with (c_addrs (d_my s)).
  match goal with |- inv C (put_records _ _ ?s1) => assert (I1 : inv C s1) end.
  { repeat split; simpl; auto.
    - apply from_certs_adel. destruct (d_self s); [exact I4|].
      match goal with |- context [if ?b then _ else _] => destruct b end; [exact I4|now apply from_certs_adel].
    - apply from_certs_adel. destruct (d_self s); [exact I6|].
      match goal with |- context [if ?b then _ else _] => destruct b end; [exact I6|now apply from_certs_adel]. }
  apply (put_records_inv C _ (d_my s)); [exact IM|exact I1].
Qed.

Lemma fold_hosts_get id l : forall (h : list (addr * N)) a,
  aget addr_eqb a (fold_left (fun h a => aset addr_eqb a id h) l h) = Some id \/
  aget addr_eqb a (fold_left (fun h a => aset addr_eqb a id h) l h) = aget addr_eqb a h.
Proof.
  induction l as [|x l IH]; intros h a; simpl; [now right|].
  destruct (IH (aset addr_eqb x id h) a) as [H|H]; [now left|].
  rewrite H, aga. destruct (addr_eqb x a); [now left|now right].
Qed.

Lemma fold_hosts_in id l : forall (h : list (addr * N)) a,
  aget addr_eqb a (fold_left (fun h a => aset addr_eqb a id h) l h) <> aget addr_eqb a h -> In a l.
Proof.
  induction l as [|x l IH]; intros h a; simpl; [intros H; now elim H|].
  intros H. destruct (addr_eqb x a) eqn:E; [apply addr_eqb_eq in E; now left|].
  right. apply (IH (aset addr_eqb x id h)). rewrite aga, E. exact H.
Qed.

Lemma dstep_inv C s o : (forall c, In c (op_certs o) -> In c C) -> inv C s -> inv C (dstep s o).
Proof.
  intros SC I. destruct o as [id cname addrs|on|id cname addrs]; simpl.
  - (* a handshake completed *)
    assert (IC : In (id, cname, addrs) C) by (apply SC; now left).
    assert (I1 : inv C (dns_add (cname ++ [dot]) addrs s)).
    { unfold dns_add. destruct (d_on s); [|exact I]. exact (put_records_inv C s (id, cname, addrs) IC I). }
    destruct I1 as (I4 & I6 & IM & IH). repeat split; simpl; auto.
    intros a id' H.
    destruct (fold_hosts_get id addrs (d_hosts (dns_add (cname ++ [dot]) addrs s)) a) as [G|G].
    + rewrite G in H. inversion H; subst id'.
      destruct (aget addr_eqb a (d_hosts (dns_add (cname ++ [dot]) addrs s))) as [x|] eqn:Eold.
      * destruct (N.eq_dec x id) as [->|NE]; [now apply IH|].
        exists (id, cname, addrs). split; [exact IC|]. split; [reflexivity|].
        apply (fold_hosts_in id addrs (d_hosts (dns_add (cname ++ [dot]) addrs s)) a). rewrite G, Eold. congruence.
      * exists (id, cname, addrs). split; [exact IC|]. split; [reflexivity|].
        apply (fold_hosts_in id addrs (d_hosts (dns_add (cname ++ [dot]) addrs s)) a). rewrite G, Eold. discriminate.
    + rewrite G in H. now apply IH.
  - destruct on.
    + apply seed_self_inv. destruct I as (I4 & I6 & IM & IH). repeat split; auto.
    + destruct I as (I4 & I6 & IM & IH). repeat split; simpl; auto; intros k v H; discriminate.
  - destruct I as (I4 & I6 & IM & IH). repeat split; simpl; auto. apply SC. now left.
Qed.

Lemma dinit_inv on id cname addrs : inv [(id, cname, addrs)] (dinit on id cname addrs).
Proof.
  apply seed_self_inv. repeat split; simpl; auto; intros k v H; discriminate.
Qed.

Lemma drun_inv C : forall h s, (forall o c, In o h -> In c (op_certs o) -> In c C) -> inv C s -> inv C (drun s h).
Proof.
  induction h as [|o h IH]; intros s SC I; [exact I|].
  simpl. apply IH; [intros o' c Ho; apply SC; now right|].
  apply dstep_inv; [intros c Hc; apply (SC o c); [now left|exact Hc]|exact I].
Qed.

(* every state reached from the initial one: the records come from the history's certificates *)
Lemma reach_inv on id cname addrs h :
  inv (certs_of (id, cname, addrs) h) (drun (dinit on id cname addrs) h).
Proof.
  apply drun_inv.
  - intros o c Ho Hc. right. apply in_flat_map. exists o. auto.
  - eapply inv_mono; [|apply dinit_inv]. intros c [<-|[]]. now left.
Qed.

(* ---- what parse_query answers ---------------------------------------------------------------------------------- *)

Definition is_txt (q : question) : bool := q_type q =? ty_TXT.
Definition is_addr_q (q : question) : bool := (q_type q =? ty_A) || (q_type q =? ty_AAAA).

(* the record (if any) a single question produces *)
Definition q_answer (s : dstate) (ok : bool) (q : question) : list answer :=
  if is_addr_q q then match query s (q_type q) (q_name q) with Some a => [(q_type q, fqdn (q_name q), a)] | None => [] end
  else if is_txt q then (if ok then match query_cert s q with Some c => [(ty_TXT, fqdn (q_name q), c)] | None => [] end else [])
  else [].

Lemma addr_q_not_txt q : is_addr_q q = true -> is_txt q = false.
Proof.
  unfold is_addr_q, is_txt. intros H. apply orb_prop in H as [H|H]; apply N.eqb_eq in H; rewrite H; reflexivity.
Qed.

(* the questions looked at: all of them, or those before the first certificate question of a client that may not ask *)
Fixpoint looked_at (ok : bool) (qs : list question) : list question :=
  match qs with
  | [] => []
  | q :: r => if is_txt q && negb ok then [] else q :: looked_at ok r
  end.

Definition stopped (ok : bool) (qs : list question) : bool := negb ok && existsb is_txt qs.

Lemma pq_cons s ok q r acc known :
  pq_loop s ok (q :: r) acc known =
  if is_addr_q q then pq_loop s ok r (acc ++ q_answer s ok q) (known || name_exists s (q_name q))
  else if is_txt q then
    (if ok then pq_loop s ok r (acc ++ q_answer s ok q) (known || name_exists s (q_name q)) else (acc, false))
  else pq_loop s ok r (acc ++ q_answer s ok q) (known || name_exists s (q_name q)).
Proof.
  unfold q_answer, is_addr_q, is_txt. cbn [pq_loop].
  destruct ((q_type q =? ty_A) || (q_type q =? ty_AAAA)); [reflexivity|].
  destruct (q_type q =? ty_TXT); [destruct ok; reflexivity|]. now rewrite app_nil_r.
Qed.

Ltac bclose :=
  match goal with |- context [match ?l with [] => true | _ :: _ => false end] =>
    destruct (match l with [] => true | _ :: _ => false end) end;
  match goal with |- context [forallb ?f ?r] => destruct (forallb f r) end;
  repeat match goal with |- context [name_exists ?s ?n] => destruct (name_exists s n) end;
  repeat match goal with |- context [stopped ?o ?r] => destruct (stopped o r) end;
  repeat match goal with k : bool |- _ => destruct k end; reflexivity.

Lemma pq_loop_spec s ok : forall qs acc known,
  pq_loop s ok qs acc known =
  (acc ++ flat_map (q_answer s ok) (looked_at ok qs),
   negb (stopped ok qs) &&
   match acc ++ flat_map (q_answer s ok) (looked_at ok qs) with [] => true | _ => false end &&
   negb known && forallb (fun q => negb (name_exists s (q_name q))) qs).
Proof.
  induction qs as [|q r IH]; intros acc known.
  - simpl. rewrite app_nil_r. unfold stopped. simpl. rewrite andb_false_r. simpl.
    destruct acc; simpl; [now rewrite andb_true_r|reflexivity].
  - rewrite pq_cons.
    assert (ST : stopped ok (q :: r) = negb ok && is_txt q || stopped ok r).
    { unfold stopped. simpl. destruct ok, (is_txt q); reflexivity. }
    destruct (is_addr_q q) eqn:EA; [|destruct (is_txt q) eqn:ET; [destruct ok|]].
    + assert (ET := addr_q_not_txt q EA). rewrite IH, ST. cbn [looked_at flat_map forallb]. rewrite ET. simpl.
      rewrite andb_false_r. simpl. rewrite <- !app_assoc. f_equal. bclose.
    + rewrite IH, ST. cbn [looked_at flat_map forallb]. rewrite ET. simpl.
      rewrite <- !app_assoc. f_equal. bclose.
    + rewrite ST. cbn [looked_at flat_map]. rewrite ET. simpl. now rewrite app_nil_r.
    + rewrite IH, ST. cbn [looked_at flat_map forallb]. rewrite ET. simpl.
      rewrite andb_false_r. simpl. rewrite <- !app_assoc. f_equal. bclose.
Qed.

Lemma parse_query_spec s client qs :
  let ok := client_ok s client in
  parse_query s client qs =
  (flat_map (q_answer s ok) (looked_at ok qs),
   negb (stopped ok qs) &&
   match flat_map (q_answer s ok) (looked_at ok qs) with [] => true | _ => false end &&
   forallb (fun q => negb (name_exists s (q_name q))) qs).
Proof. unfold parse_query. rewrite pq_loop_spec. simpl. now rewrite andb_true_r. Qed.

Lemma looked_at_sub ok qs q : In q (looked_at ok qs) -> In q qs.
Proof.
  induction qs as [|x r IH]; simpl; [auto|].
  destruct (is_txt x && negb ok); [intros []|]. intros [<-|H]; auto.
Qed.

(* every answer record belongs to a question and is what Query / QueryCert returned for it *)
Lemma answers_from s client qs t n v :
  In (t, n, v) (fst (parse_query s client qs)) ->
  exists q, In q qs /\ n = fqdn (q_name q) /\
    ((t = q_type q /\ is_addr_q q = true /\ query s t (q_name q) = Some v) \/
     (t = ty_TXT /\ is_txt q = true /\ client_ok s client = true /\ query_cert s q = Some v)).
Proof.
  rewrite parse_query_spec. simpl. intros H. apply in_flat_map in H as (q & Hq & Ha).
  exists q. split; [eapply looked_at_sub; eauto|].
  unfold q_answer in Ha. destruct (is_addr_q q) eqn:EA.
  - destruct (query s (q_type q) (q_name q)) eqn:Q; [|destruct Ha].
    destruct Ha as [Ha|[]]. inversion Ha; subst. split; [reflexivity|]. left. auto.
  - destruct (is_txt q) eqn:ET; [|destruct Ha].
    destruct (client_ok s client) eqn:OK; [|destruct Ha].
    destruct (query_cert s q) eqn:Q; [|destruct Ha].
    destruct Ha as [Ha|[]]. inversion Ha; subst. split; [reflexivity|]. right. auto.
Qed.

(* address answers come from a certificate of the history: same name (up to case), one of its addresses *)
Lemma sources on id cname addrs h client qs t n v :
  let s := drun (dinit on id cname addrs) h in
  In (t, n, v) (fst (parse_query s client qs)) -> t = ty_A \/ t = ty_AAAA ->
  exists q c, In q qs /\ q_type q = t /\ n = fqdn (q_name q) /\ In c (certs_of (id, cname, addrs) h) /\
    lower (q_name q) = key_of c /\ In (N.eqb t ty_A, v) (c_addrs c).
Proof.
  intros s H T. destruct (answers_from _ _ _ _ _ _ H) as (q & Iq & En & [(Et & EA & Q)|(Et & _)]).
  2:{ destruct T as [T|T]; rewrite T in Et; discriminate. }
  destruct (reach_inv on id cname addrs h) as (I4 & I6 & _). fold s in I4, I6.
  unfold query in Q. destruct T as [T|T]; rewrite T in Q; simpl in Q.
  - destruct (I4 _ _ Q) as (c & IC & K & IA). exists q, c. rewrite T. repeat split; auto. congruence.
  - destruct (I6 _ _ Q) as (c & IC & K & IA). exists q, c. rewrite T. repeat split; auto. congruence.
Qed.

(* certificate answers: only to a loopback client or one of my own overlay addresses, and the certificate is one of
   the history's that carries the address asked about *)
Lemma txt_gate on id cname addrs h client qs n v :
  let s := drun (dinit on id cname addrs) h in
  In (ty_TXT, n, v) (fst (parse_query s client qs)) ->
  (exists a, client = Some a /\ (is_loopback a = true \/ In a (my_addrs s))) /\
  exists q c ip, In q qs /\ q_type q = ty_TXT /\ q_ip q = Some ip /\ In c (certs_of (id, cname, addrs) h) /\
    c_id c = v /\ In ip (c_addrs c).
Proof.
  intros s H. destruct (answers_from _ _ _ _ _ _ H) as (q & Iq & En & [(Et & EA & Q)|(_ & ET & OK & Q)]).
  { apply addr_q_not_txt in EA. unfold is_txt in EA. rewrite <- Et in EA. discriminate. }
  split.
  - unfold client_ok in OK. destruct client as [a|]; [|discriminate]. exists a. split; [reflexivity|].
    apply orb_prop in OK as [OK|OK]; [now left|right].
    apply existsb_exists in OK as (x & Hx & E). apply addr_eqb_eq in E. now subst.
  - destruct (reach_inv on id cname addrs h) as (_ & _ & IM & IH). fold s in IM, IH.
    unfold query_cert in Q. destruct (q_ip q) as [ip|] eqn:EIP; [|discriminate].
    destruct (existsb (addr_eqb ip) (my_addrs s)) eqn:EM.
    + inversion Q; subst v. apply existsb_exists in EM as (x & Hx & E). apply addr_eqb_eq in E; subst x.
      exists q, (d_my s), ip. repeat split; auto. unfold is_txt in ET. now apply N.eqb_eq in ET.
    + destruct (IH _ _ Q) as (c & IC & EI & IA). exists q, c, ip. repeat split; auto.
      unfold is_txt in ET. now apply N.eqb_eq in ET.
Qed.

(* ---- case-insensitivity ------------------------------------------------------------------------------------------ *)

Lemma query_case s t n1 n2 : lower n1 = lower n2 -> query s t n1 = query s t n2 /\ name_exists s n1 = name_exists s n2.
Proof. intros E. unfold query, name_exists. now rewrite E. Qed.

Definition same_q (q1 q2 : question) : Prop := q_type q1 = q_type q2 /\ lower (q_name q1) = lower (q_name q2) /\ q_ip q1 = q_ip q2.
Definition strip (a : answer) : N * N := (fst (fst a), snd a).

Lemma q_answer_case s ok q1 q2 : same_q q1 q2 -> map strip (q_answer s ok q1) = map strip (q_answer s ok q2).
Proof.
  intros (ET & EN & EI). unfold q_answer, is_addr_q, is_txt, query_cert. rewrite ET, EI.
  destruct (query_case s (q_type q2) _ _ EN) as [-> _].
  destruct ((q_type q2 =? ty_A) || (q_type q2 =? ty_AAAA)).
  - destruct (query s (q_type q2) (q_name q2)); reflexivity.
  - destruct (q_type q2 =? ty_TXT); [|reflexivity]. destruct ok; [|reflexivity].
    destruct (q_ip q2); [|reflexivity].
    destruct (if existsb (addr_eqb a) (my_addrs s) then Some (my_id s) else aget addr_eqb a (d_hosts s)); reflexivity.
Qed.

Lemma case_insensitive s client qs1 qs2 :
  Forall2 same_q qs1 qs2 ->
  map strip (fst (parse_query s client qs1)) = map strip (fst (parse_query s client qs2)) /\
  snd (parse_query s client qs1) = snd (parse_query s client qs2).
Proof.
  intros F. rewrite !parse_query_spec. simpl. set (ok := client_ok s client).
  assert (A : map strip (flat_map (q_answer s ok) (looked_at ok qs1)) = map strip (flat_map (q_answer s ok) (looked_at ok qs2))).
  { induction F as [|q1 q2 r1 r2 SQ F IH]; [reflexivity|]. simpl.
    assert (ET : is_txt q1 = is_txt q2) by (unfold is_txt; destruct SQ as (-> & _); reflexivity).
    rewrite ET. destruct (is_txt q2 && negb ok); [reflexivity|]. simpl. rewrite !map_app, IH.
    now rewrite (q_answer_case s ok q1 q2 SQ). }
  split; [exact A|].
  assert (S : stopped ok qs1 = stopped ok qs2).
  { unfold stopped. f_equal. clear A. induction F as [|q1 q2 r1 r2 SQ F IH]; [reflexivity|].
    cbn [existsb]. rewrite IH. unfold is_txt. destruct SQ as (E & _). now rewrite E. }
  assert (K : forallb (fun q => negb (name_exists s (q_name q))) qs1 = forallb (fun q => negb (name_exists s (q_name q))) qs2).
  { clear A S. induction F as [|q1 q2 r1 r2 SQ F IH]; [reflexivity|]. cbn [forallb]. rewrite IH.
    destruct SQ as (_ & EN & _). destruct (query_case s 0 _ _ EN) as [_ E]. now rewrite E. }
  rewrite S, K. f_equal. f_equal.
  destruct (flat_map (q_answer s ok) (looked_at ok qs1)), (flat_map (q_answer s ok) (looked_at ok qs2)); simpl in A; try reflexivity; discriminate.
Qed.

(* ---- the rcode rule ---------------------------------------------------------------------------------------------- *)

(* NXDOMAIN exactly when all questions were looked at, none produced a record and none of the names is known *)
Lemma rcode_rule s client qs :
  snd (parse_query s client qs) =
  negb (stopped (client_ok s client) qs) &&
  match fst (parse_query s client qs) with [] => true | _ => false end &&
  forallb (fun q => negb (name_exists s (q_name q))) qs.
Proof. rewrite parse_query_spec. reflexivity. Qed.

Lemma nxdomain_only_unknown s client qs :
  snd (parse_query s client qs) = true ->
  fst (parse_query s client qs) = [] /\ forall q, In q qs -> name_exists s (q_name q) = false.
Proof.
  rewrite rcode_rule. intros H. apply andb_prop in H as [H K]. apply andb_prop in H as [_ E].
  split; [destruct (fst (parse_query s client qs)); [reflexivity|discriminate]|].
  intros q Hq. rewrite forallb_forall in K. specialize (K q Hq). now apply negb_true_iff in K.
Qed.

(* a known name without a record of the requested type (for TXT: no certificate, or a client that may not ask):
   NOERROR and an empty answer *)
Lemma nodata s client q :
  name_exists s (q_name q) = true -> q_answer s (client_ok s client) q = [] ->
  parse_query s client [q] = ([], false).
Proof.
  intros K A. rewrite parse_query_spec. simpl. rewrite K. simpl.
  destruct (is_txt q && negb (client_ok s client)); simpl; [now rewrite !andb_false_r|].
  rewrite A. simpl. now rewrite !andb_false_r.
Qed.

(* an unknown name (and no certificate answer): NXDOMAIN *)
Lemma unknown_nxdomain s client q :
  name_exists s (q_name q) = false -> q_answer s (client_ok s client) q = [] ->
  stopped (client_ok s client) [q] = false ->
  parse_query s client [q] = ([], true).
Proof.
  intros K A S. rewrite parse_query_spec. simpl. rewrite K, S. simpl.
  unfold stopped in S. simpl in S. rewrite orb_false_r in S.
  replace (is_txt q && negb (client_ok s client)) with false by (rewrite andb_comm; now rewrite S).
  simpl. rewrite A. reflexivity.
Qed.

(* 127.0.0.0/8 and ::1 *)
Lemma is_loopback_v4 n : is_loopback (true, n) = true <-> 2130706432 <= n < 2147483648.
Proof.
  unfold is_loopback. cbn [fst snd]. rewrite N.eqb_eq. split; intros H.
  - assert (D := N.div_mod n 16777216 ltac:(lia)). assert (M := N.mod_lt n 16777216 ltac:(lia)).
    rewrite H in D. clear H. remember (n mod 16777216) as r. clear Heqr. lia.
  - symmetry. apply (N.div_unique n 16777216 127 (n - 2130706432)); lia.
Qed.

Lemma is_loopback_v6 n : is_loopback (false, n) = true <-> n = 1.
Proof. unfold is_loopback. simpl. apply N.eqb_eq. Qed.

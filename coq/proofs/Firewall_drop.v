(* Firewall.Drop: exactly which AddRule calls fail; allowed => tracked (C16); address authenticity (C17). *)
From Coq Require Import List NArith ZArith Bool Lia Btauto.
Import ListNotations.
From NV Require Import lib.Corr lib.Ip gen.Consts_Firewall model.Firewall proofs.Firewall_layers proofs.Firewall_refine.
Open Scope N_scope.

(* ---------------------------------------------------------------------------------------------- *)
(* AddRule returns an error exactly for the rules that are not [rule_valid], whatever the table holds *)

Definition is_bad (s : csel) : bool := match s with CBad => true | _ => false end.
Definition rn_ok (r : rule) : bool :=
  negb (is_bad (r_local r)) && (is_any (r_groups r) (r_host r) (r_cidr r) || negb (is_bad (r_cidr r))).

Lemma lc_add_none cf sel lc : lc_add cf sel lc = None <-> is_bad sel = true.
Proof.
  unfold lc_add. destruct sel; simpl; try (split; discriminate).
  - destruct (negb (nonempty (my_unsafe cf)) || dlca cf); split; discriminate.
  - split; reflexivity.
Qed.

Lemma lc_add_some cf sel lc : is_bad sel = false -> exists lc', lc_add cf sel lc = Some lc'.
Proof.
  intros H. destruct (lc_add cf sel lc) eqn:E; [eauto|]. apply lc_add_none in E. congruence.
Qed.

Lemma rn_add_none cf r rn : rn_add cf r rn = None <-> rn_ok r = false.
Proof.
  unfold rn_add, rn_ok.
  destruct (is_bad (r_local r)) eqn:EL.
  - (* local_cidr does not parse: every path calls lc_add at least once, or fails on the cidr *)
    assert (HL : forall lc, lc_add cf (r_local r) lc = None) by (intros; now apply lc_add_none).
    cbn [negb andb]. split; [reflexivity|intros _].
    destruct (is_any (r_groups r) (r_host r) (r_cidr r)) eqn:EA; [now rewrite HL|].
    destruct (nonempty (r_groups r)) eqn:EG; [now rewrite HL|].
    destruct (nonempty (r_host r)) eqn:EH; [now rewrite HL|].
    destruct (r_cidr r) as [| |p|] eqn:EC; try reflexivity.
    + unfold is_any in EA. rewrite ?EG, ?EH, ?EC in EA. discriminate.
    + unfold is_any in EA. rewrite ?EC in EA. now rewrite !orb_true_r in EA.
    + now rewrite HL.
  - cbn [negb andb].
    destruct (is_any (r_groups r) (r_host r) (r_cidr r)) eqn:EA.
    + destruct (lc_add_some cf _ (odef lc_empty (rn_any rn)) EL) as [lc ->]. split; discriminate.
    + cbn [orb].
      destruct (lc_add_some cf _ lc_empty EL) as [lc1 E1]. rewrite E1.
      destruct (lc_add_some cf _ (odef lc_empty (aget str_eqb (r_host r) (rn_hosts rn))) EL) as [lc2 E2]. rewrite E2.
      destruct (r_cidr r) as [| |p|] eqn:EC; cbn [is_bad negb].
      * destruct (nonempty (r_groups r)), (nonempty (r_host r)); split; discriminate.
      * destruct (nonempty (r_groups r)), (nonempty (r_host r)); split; discriminate.
      * destruct (lc_add_some cf _ (odef lc_empty (tbl_get p (rn_cidr rn))) EL) as [lc3 E3]. rewrite E3.
        destruct (nonempty (r_groups r)), (nonempty (r_host r)); split; discriminate.
      * destruct (nonempty (r_groups r)), (nonempty (r_host r)); split; reflexivity.
Qed.

Lemma ca_add_none cf r ca : ca_add cf r ca = None <-> rn_ok r = false.
Proof.
  unfold ca_add.
  destruct (rn_ok r) eqn:EK.
  - assert (HS : forall rn, exists rn', rn_add cf r rn = Some rn').
    { intros rn. destruct (rn_add cf r rn) eqn:E; [eauto|]. apply rn_add_none in E. congruence. }
    destruct (negb (nonempty (r_ca_sha r)) && negb (nonempty (r_ca_name r))).
    + destruct (HS (odef rn_empty (ca_any ca))) as [rn ->]. split; discriminate.
    + destruct (HS (odef rn_empty (aget str_eqb (r_ca_sha r) (ca_shas ca)))) as [rn1 ->].
      destruct (HS (odef rn_empty (aget str_eqb (r_ca_name r) (ca_names ca)))) as [rn2 ->].
      destruct (nonempty (r_ca_sha r)), (nonempty (r_ca_name r)); split; discriminate.
  - assert (HN : forall rn, rn_add cf r rn = None) by (intros; now apply rn_add_none).
    split; [reflexivity|intros _].
    destruct (nonempty (r_ca_sha r)) eqn:E1, (nonempty (r_ca_name r)) eqn:E2; cbn [negb andb]; rewrite ?HN; reflexivity.
Qed.

Lemma port_loop_none cf r n : forall i pm, port_add_loop cf r n i pm = None <-> (n <> O /\ rn_ok r = false).
Proof.
  induction n as [|n IH]; intros i pm; simpl.
  - split; [discriminate|intros [H _]; congruence].
  - destruct (ca_add cf r (odef ca_empty (aget Z.eqb i pm))) as [ca|] eqn:E.
    + rewrite IH. assert (rn_ok r = true).
      { destruct (rn_ok r) eqn:EK; [reflexivity|]. apply ca_add_none with (cf := cf) (ca := odef ca_empty (aget Z.eqb i pm)) in EK. congruence. }
      split; [intros [_ H']; congruence|intros [_ H']; congruence].
    + apply ca_add_none in E. split; [intros _; split; [discriminate|exact E]|reflexivity].
Qed.

Lemma port_add_none cf r s e pm : port_add cf r s e pm = None <-> ((s <=? e)%Z && rn_ok r = false).
Proof.
  unfold port_add. destruct (Z.ltb_spec e s) as [H|H].
  - replace (s <=? e)%Z with false by (symmetry; apply Z.leb_gt; lia). split; reflexivity.
  - replace (s <=? e)%Z with true by (symmetry; apply Z.leb_le; lia). cbn [andb].
    rewrite port_loop_none. split; [intros [_ H']; exact H'|intros H'; split; [|exact H']].
    intros E. assert (0 < Z.to_nat (e - s + 1))%nat by lia. lia.
Qed.

Theorem add_rule_none cf r t : add_rule cf r t = None <-> rule_valid r = false.
Proof.
  unfold add_rule, rule_valid, eff_ports. fold (is_bad (r_local r)). fold (is_bad (r_cidr r)).
  assert (V : forall (b : bool) x, (b && negb (is_bad (r_local r)) && (is_any (r_groups r) (r_host r) (r_cidr r) || negb (is_bad (r_cidr r))) = x)
                                   <-> (b && rn_ok r = x)).
  { intros b x. unfold rn_ok. now rewrite andb_assoc. }
  assert (OM : forall (f : portmap -> table) o, option_map f o = None <-> o = None).
  { intros f [|]; simpl; split; congruence. }
  replace (match r_local r with CBad => false | _ => true end) with (negb (is_bad (r_local r))) by now destruct (r_local r).
  replace (match r_cidr r with CBad => false | _ => true end) with (negb (is_bad (r_cidr r))) by now destruct (r_cidr r).
  destruct (r_proto r =? proto_tcp) eqn:E1.
  { apply N.eqb_eq in E1. rewrite E1. replace (is_icmp proto_tcp) with false by reflexivity.
    cbn [orb andb]. rewrite OM, port_add_none. symmetry. apply V. }
  destruct (r_proto r =? proto_udp) eqn:E2.
  { apply N.eqb_eq in E2. rewrite E2. replace (is_icmp proto_udp) with false by reflexivity.
    cbn [orb andb]. rewrite OM, port_add_none. symmetry. apply V. }
  destruct (is_icmp (r_proto r)) eqn:E3.
  { cbn [orb andb]. rewrite OM, port_add_none. symmetry. apply V. }
  destruct (r_proto r =? proto_any) eqn:E4.
  { cbn [orb andb]. rewrite OM, port_add_none. symmetry. apply V. }
  cbn [orb andb]. split; reflexivity.
Qed.

Lemma add_rules_some cf rs : forall t, (exists t', add_rules cf rs t = Some t') <-> forallb rule_valid rs = true.
Proof.
  induction rs as [|r rs IH]; intros t; simpl.
  - split; eauto.
  - destruct (add_rule cf r t) as [t1|] eqn:E.
    + assert (rule_valid r = true).
      { destruct (rule_valid r) eqn:EV; [reflexivity|]. apply (add_rule_none cf r t) in EV. congruence. }
      rewrite H. cbn [andb]. apply IH.
    + apply add_rule_none in E. rewrite E. cbn [andb]. split; [intros [t' H]; discriminate|discriminate].
Qed.

(* ---------------------------------------------------------------------------------------------- *)
(* conntrack: drop_ct is drop with the answer of in_conns; allowed => tracked *)

Lemma pkt_eqb_eq a b : pkt_eqb a b = true <-> a = b.
Proof.
  destruct a as [a1 a2 a3 a4 a5 a6], b as [b1 b2 b3 b4 b5 b6]. unfold pkt_eqb; cbn [pk_local pk_remote pk_lport pk_rport pk_proto pk_frag].
  rewrite !andb_true_iff, !addr_eqb_eq, !N.eqb_eq, eqb_true_iff.
  split; [intros [[[[[-> ->] ->] ->] ->] ->]; reflexivity|intros H; inversion H; auto 10].
Qed.

Lemma drop_ct_drop fw cs incoming pkt h pr pl :
  fst (drop_ct fw cs incoming pkt h pr pl) = drop fw incoming pkt h pr pl (fst (in_conns fw cs pkt pr pl)).
Proof.
  unfold drop_ct, drop. destruct (remote_check h (pk_remote pkt)); [reflexivity|].
  destruct (negb (any_contains (routable (fw_conf fw)) (pk_local pkt))); [reflexivity|].
  destruct (in_conns fw cs pkt pr pl) as [hit cs1]; cbn [fst].
  destruct hit; [reflexivity|]. now destruct (table_match (fw_table fw incoming) incoming pkt pr pl).
Qed.

Lemma in_conns_untracked fw cs pkt pr pl : aget pkt_eqb pkt cs = None -> fst (in_conns fw cs pkt pr pl) = false.
Proof. unfold in_conns. now intros ->. Qed.

Lemma in_conns_hit fw cs pkt pr pl cs1 :
  in_conns fw cs pkt pr pl = (true, cs1) -> aget pkt_eqb pkt cs1 <> None.
Proof.
  unfold in_conns. destruct (aget pkt_eqb pkt cs) as [c|] eqn:E; [|discriminate].
  destruct (ce_version c =? fw_version fw).
  - intros H; inversion H; subst. congruence.
  - destruct (table_match (fw_table fw (ce_incoming c)) (ce_incoming c) pkt pr pl); [|discriminate].
    intros H; inversion H; subst. rewrite (aget_aset pkt_eqb pkt_eqb_eq).
    rewrite (proj2 (pkt_eqb_eq pkt pkt) eq_refl). discriminate.
Qed.

Theorem allowed_tracked fw cs incoming pkt h pr pl cs' :
  drop_ct fw cs incoming pkt h pr pl = (VAllow, cs') -> aget pkt_eqb pkt cs' <> None.
Proof.
  unfold drop_ct. destruct (remote_check h (pk_remote pkt)) as [v|] eqn:ER.
  - intros H; inversion H; subst. unfold remote_check in ER.
    destruct (h_networks h) as [t|].
    + destruct (lpm t (pk_remote pkt)) as [[| |]|]; discriminate.
    + destruct (h_addrs h) as [|a0 ?]; [discriminate|]. destruct (addr_eqb a0 (pk_remote pkt)); discriminate.
  - destruct (negb (any_contains (routable (fw_conf fw)) (pk_local pkt))); [discriminate|].
    destruct (in_conns fw cs pkt pr pl) as [hit cs1] eqn:EI. destruct hit.
    + intros H; inversion H; subst. now apply in_conns_hit in EI.
    + destruct (table_match (fw_table fw incoming) incoming pkt pr pl); [|discriminate].
      intros H; inversion H; subst. unfold add_conn. rewrite (aget_aset pkt_eqb pkt_eqb_eq).
      rewrite (proj2 (pkt_eqb_eq pkt pkt) eq_refl). discriminate.
Qed.

(* C16 at the level of Drop: untracked packet, addresses accepted: allowed iff some rule of that direction matches *)
Theorem drop_iff_rule cf inr outr fw incoming pkt h pr pl :
  new_firewall cf inr outr = Some fw ->
  remote_check h (pk_remote pkt) = None ->
  any_contains (routable cf) (pk_local pkt) = true ->
  (drop fw incoming pkt h pr pl false = VAllow <->
   existsb (rule_matches cf incoming pkt pr pl) (if incoming then inr else outr) = true).
Proof.
  unfold new_firewall. destruct (add_rules cf inr empty_table) as [ti|] eqn:EI; [|discriminate].
  destruct (add_rules cf outr empty_table) as [to|] eqn:EO; [|discriminate].
  intros H; inversion H; subst fw; clear H. intros HR HL. unfold drop. rewrite HR. cbn [fw_conf]. rewrite HL. cbn [negb].
  unfold fw_table; cbn [fw_in fw_out].
  destruct incoming.
  - rewrite (refine _ _ _ _ _ _ _ EI). destruct (existsb _ inr); split; congruence.
  - rewrite (refine _ _ _ _ _ _ _ EO). destruct (existsb _ outr); split; congruence.
Qed.

(* ---------------------------------------------------------------------------------------------- *)
(* C17 *)

Lemma fold_aset_In {K V E : Type} (eqb : K -> K -> bool) (eqb_eq : forall a b, eqb a b = true <-> a = b)
      (kf : E -> K) (vf : E -> V) (l : list E) : forall t x,
  In x (fold_left (fun t e => aset eqb (kf e) (vf e) t) l t) -> In x t \/ exists e, In e l /\ x = (kf e, vf e).
Proof.
  induction l as [|e l IH]; intros t x H; simpl in H; [auto|].
  apply IH in H as [H|[e' [H1 H2]]].
  - destruct x as [k v]. apply (aset_In eqb eqb_eq) in H as [[-> ->]|H]; [right; exists e; simpl; auto|auto].
  - right; exists e'; simpl; auto.
Qed.

(* what HostInfo.networks holds *)
Lemma networks_table_In mynets pr p v :
  In (p, v) (networks_table mynets pr) ->
  (exists u, In u (p_unsafe pr) /\ p = masked u /\ v = NwUnsafe)
  \/ (exists n, In n (p_nets pr) /\ p = full (fst n) /\ v = if any_contains mynets (fst n) then NwVPN else NwPeer).
Proof.
  unfold networks_table, tbl_insert. intros H.
  apply (fold_aset_In pfx_eqb pfx_eqb_eq (fun u => masked u) (fun _ => NwUnsafe)) in H as [H|[u [H1 H2]]].
  - apply (fold_aset_In pfx_eqb pfx_eqb_eq (fun n => masked (full (fst n)))
             (fun n => if any_contains mynets (fst n) then NwVPN else NwPeer)) in H as [[]|[n [H1 H2]]].
    right. exists n. cbv beta in H2. apply pair_equal_spec in H2 as [-> ->]. rewrite masked_full. auto.
  - left. exists u. cbv beta in H2. apply pair_equal_spec in H2 as [-> ->]. auto.
Qed.

Definition remote_authentic_P (mynets : lite) (pr : peer) (a : addr) : Prop :=
  (exists n, In n (p_nets pr) /\ fst n = a /\ any_contains mynets (fst n) = true)
  \/ (exists u, In u (p_unsafe pr) /\ contains u a = true).

(* HostInfo.networks / the single-address shortcut against the certificate *)
Theorem build_networks_sound mynets pr a :
  remote_check (hostinfo_of mynets pr) a = None -> remote_authentic_P mynets pr a.
Proof.
  unfold remote_check, hostinfo_of; cbn [h_networks h_addrs].
  destruct (simple_case mynets pr) eqn:ES.
  - unfold simple_case in ES. destruct (p_nets pr) as [|n [|? ?]] eqn:EN; try discriminate.
    destruct (p_unsafe pr); [|discriminate]. cbn [map].
    destruct (addr_eqb (fst n) a) eqn:EA; [|discriminate]. intros _. apply addr_eqb_eq in EA.
    left. exists n. rewrite EN. simpl. auto.
  - destruct (lpm (networks_table mynets pr) a) as [v|] eqn:EL; [|discriminate].
    apply lpm_sound in EL as [p [HI HC]]. apply networks_table_In in HI as [[u [H1 [-> ->]]]|[n [H1 [-> ->]]]].
    + intros _. right. exists u. rewrite contains_masked in HC. auto.
    + apply contains_full in HC. destruct (any_contains mynets (fst n)) eqn:EM; [|discriminate].
      intros _. left. exists n. auto.
Qed.

Lemma remote_check_not_allow h a v : remote_check h a = Some v -> v <> VAllow.
Proof.
  unfold remote_check. destruct (h_networks h) as [t|].
  - destruct (lpm t a) as [[| |]|]; intros H; inversion H; discriminate.
  - destruct (h_addrs h) as [|a0 ?]; [intros H; inversion H; discriminate|].
    destruct (addr_eqb a0 a); intros H; inversion H; discriminate.
Qed.

Theorem remote_authentic fw incoming pkt mynets pr pr' pl tracked :
  drop fw incoming pkt (hostinfo_of mynets pr) pr' pl tracked = VAllow ->
  remote_authentic_P mynets pr (pk_remote pkt).
Proof.
  unfold drop. destruct (remote_check (hostinfo_of mynets pr) (pk_remote pkt)) as [v|] eqn:E.
  - intros ->. now apply remote_check_not_allow in E.
  - intros _. now apply build_networks_sound.
Qed.

Lemma fold_insert_gen {E : Type} (f : E -> prefix) (l : list E) : forall s a,
  any_contains (fold_left (fun s x => lite_insert (f x) s) l s) a = any_contains s a || existsb (fun x => contains (f x) a) l.
Proof.
  induction l as [|x l IH]; intros s a; simpl; [now rewrite orb_false_r|].
  rewrite IH, any_contains_insert. btauto.
Qed.

Definition local_authentic_P (cf : fwconf) (a : addr) : Prop :=
  (exists n, In n (my_nets cf) /\ fst n = a) \/ (exists u, In u (my_unsafe cf) /\ contains u a = true).

Lemma routable_sound cf a : any_contains (routable cf) a = true -> local_authentic_P cf a.
Proof.
  unfold routable. rewrite (fold_insert_gen (fun u => u)), (fold_insert_gen (fun n => full (fst n))).
  cbn [any_contains existsb orb]. intros H. apply orb_true_iff in H as [H|H]; apply existsb_exists in H as [x [H1 H2]].
  - left. exists x. apply contains_full in H2. auto.
  - right. exists x. auto.
Qed.

Theorem local_authentic fw incoming pkt h pr pl tracked :
  drop fw incoming pkt h pr pl tracked = VAllow -> local_authentic_P (fw_conf fw) (pk_local pkt).
Proof.
  unfold drop. destruct (remote_check h (pk_remote pkt)) as [v|] eqn:E.
  - intros ->. now apply remote_check_not_allow in E.
  - destruct (any_contains (routable (fw_conf fw)) (pk_local pkt)) eqn:EL; cbn [negb]; [|discriminate].
    intros _. now apply routable_sound.
Qed.

(* corollaries stated over the untimed conntrack *)
Lemma drop_ct_untracked fw cs incoming pkt h pr pl :
  aget pkt_eqb pkt cs = None -> fst (drop_ct fw cs incoming pkt h pr pl) = drop fw incoming pkt h pr pl false.
Proof. intros. rewrite drop_ct_drop. now rewrite in_conns_untracked. Qed.

Theorem conntrack_authentic fw cs incoming pkt mynets pr pl :
  fst (drop_ct fw cs incoming pkt (hostinfo_of mynets pr) pr pl) = VAllow ->
  remote_authentic_P mynets pr (pk_remote pkt) /\ local_authentic_P (fw_conf fw) (pk_local pkt).
Proof.
  intros H. rewrite drop_ct_drop in H.
  split; [exact (remote_authentic _ _ _ _ _ _ _ _ H)|exact (local_authentic _ _ _ _ _ _ _ H)].
Qed.

Theorem build_networks_char mynets pr :
  h_addrs (hostinfo_of mynets pr) = map fst (p_nets pr) /\
  (h_networks (hostinfo_of mynets pr) = None <->
   exists n, p_nets pr = [n] /\ p_unsafe pr = [] /\ any_contains mynets (fst n) = true) /\
  (forall a, remote_check (hostinfo_of mynets pr) a = None -> remote_authentic_P mynets pr a).
Proof.
  split; [reflexivity|split; [|intros a; apply build_networks_sound]].
  unfold hostinfo_of, simple_case; cbn [h_networks].
  destruct (p_nets pr) as [|n [|m l]]; destruct (p_unsafe pr) as [|u us];
    try (split; [discriminate|intros [x [H1 [H2 H3]]]; discriminate]).
  destruct (any_contains mynets (fst n)) eqn:E.
  - split; [intros _; exists n; auto|reflexivity].
  - split; [discriminate|intros [x [H1 [_ H3]]]; inversion H1; subst; congruence].
Qed.

Lemma add_rules_succeed cf rs : (exists t, add_rules cf rs empty_table = Some t) <-> forallb rule_valid rs = true.
Proof. apply add_rules_some. Qed.

(* ---------------------------------------------------------------------------------------------- *)
(* Drop over an abstract matcher: with the built tables it is drop / drop_ct; and the rule-list matcher gives the same
   value as the built tables (C16_refine), so either may be evaluated *)
Lemma matcher_ext (m m' : matcher) ver cf cs incoming pkt h pr pl :
  (forall inc p q l, m inc p q l = m' inc p q l) ->
  drop_ct_m m ver cf cs incoming pkt h pr pl = drop_ct_m m' ver cf cs incoming pkt h pr pl
  /\ forall tracked, drop_m m cf incoming pkt h pr pl tracked = drop_m m' cf incoming pkt h pr pl tracked.
Proof.
  intros E. unfold drop_ct_m, drop_m, in_conns_m. split; [|intros tracked].
  - destruct (remote_check h (pk_remote pkt)); [reflexivity|].
    destruct (negb (any_contains (routable cf) (pk_local pkt))); [reflexivity|].
    rewrite (E incoming pkt pr pl).
    destruct (aget pkt_eqb pkt cs) as [c|]; [|reflexivity].
    now rewrite (E (ce_incoming c) pkt pr pl).
  - now rewrite (E incoming pkt pr pl).
Qed.

Lemma drop_ct_m_table fw cs incoming pkt h pr pl :
  drop_ct_m (table_matcher fw) (fw_version fw) (fw_conf fw) cs incoming pkt h pr pl = drop_ct fw cs incoming pkt h pr pl
  /\ forall tracked, drop_m (table_matcher fw) (fw_conf fw) incoming pkt h pr pl tracked = drop fw incoming pkt h pr pl tracked.
Proof. split; reflexivity. Qed.

Theorem drop_by_rules cf inr outr fw cs incoming pkt h pr pl :
  new_firewall cf inr outr = Some fw ->
  drop_ct_m (rules_matcher cf inr outr) 0 cf cs incoming pkt h pr pl = drop_ct fw cs incoming pkt h pr pl
  /\ forall tracked, drop_m (rules_matcher cf inr outr) cf incoming pkt h pr pl tracked = drop fw incoming pkt h pr pl tracked.
Proof.
  unfold new_firewall. destruct (add_rules cf inr empty_table) as [ti|] eqn:EI; [|discriminate].
  destruct (add_rules cf outr empty_table) as [to|] eqn:EO; [|discriminate].
  intros H; inversion H; subst fw; clear H.
  assert (E : forall inc p q l, rules_matcher cf inr outr inc p q l = table_matcher (mkFw cf ti to 0) inc p q l).
  { intros [|] p q l; unfold rules_matcher, table_matcher, fw_table; cbn [fw_in fw_out]; symmetry; now apply refine. }
  destruct (matcher_ext _ _ 0 cf cs incoming pkt h pr pl E) as [H1 H2].
  destruct (drop_ct_m_table (mkFw cf ti to 0) cs incoming pkt h pr pl) as [T1 T2].
  split; [rewrite H1; exact T1|intros tracked; rewrite H2; exact (T2 tracked)].
Qed.

(* new_firewall succeeds exactly when every rule of both directions is valid *)
Lemma new_firewall_some cf inr outr :
  (exists fw, new_firewall cf inr outr = Some fw) <-> forallb rule_valid inr && forallb rule_valid outr = true.
Proof.
  unfold new_firewall. rewrite andb_true_iff, <- !(add_rules_some cf _ empty_table).
  destruct (add_rules cf inr empty_table), (add_rules cf outr empty_table); split.
  all: try (intros [fw H]; discriminate).
  all: try (intros [[t1 H1] [t2 H2]]; discriminate).
  - intros _. split; eauto.
  - intros _. eauto.
Qed.

(* ---------------------------------------------------------------------------------------------- *)
(* reload: whenever the new configuration builds, the firewall that is in place after reloadFirewall was built from
   the CURRENT certificate's unsafe networks (and the unchanged overlay networks) *)
Theorem reload_universe fw cs unsafe' changed dlca' inr outr fw' cs' :
  reload_firewall fw cs unsafe' changed dlca' inr outr = (fw', cs') ->
  forallb rule_valid inr && forallb rule_valid outr = true ->
  my_unsafe (fw_conf fw') = unsafe' /\ my_nets (fw_conf fw') = my_nets (fw_conf fw).
Proof.
  unfold reload_firewall, reload_triggered. intros H V.
  destruct (changed || negb (list_eqb pfx_eqb unsafe' (my_unsafe (fw_conf fw)))) eqn:T.
  - destruct (proj2 (new_firewall_some (mkConf (my_nets (fw_conf fw)) unsafe' dlca') inr outr) V) as [f E].
    rewrite E in H. inversion H; subst; clear H. cbn [fw_conf].
    unfold new_firewall in E. destruct (add_rules _ inr empty_table); [|discriminate].
    destruct (add_rules _ outr empty_table); [|discriminate]. inversion E; subst. auto.
  - inversion H; subst; clear H. apply orb_false_iff in T as [_ T]. apply negb_false_iff in T.
    apply (list_eqb_eq pfx_eqb pfx_eqb_eq) in T. auto.
Qed.

(* hence, after any reload whose configuration builds, Drop lets through only packets whose node-side address belongs
   to the current certificate *)
Theorem reload_local_authentic fw cs unsafe' changed dlca' inr outr fw' cs' incoming pkt h pr pl tracked :
  reload_firewall fw cs unsafe' changed dlca' inr outr = (fw', cs') ->
  forallb rule_valid inr && forallb rule_valid outr = true ->
  drop fw' incoming pkt h pr pl tracked = VAllow ->
  (exists n, In n (my_nets (fw_conf fw)) /\ fst n = pk_local pkt) \/ (exists u, In u unsafe' /\ contains u (pk_local pkt) = true).
Proof.
  intros H V D. destruct (reload_universe _ _ _ _ _ _ _ _ _ H V) as [E1 E2].
  apply local_authentic in D. unfold local_authentic_P in D. now rewrite E1, E2 in D.
Qed.

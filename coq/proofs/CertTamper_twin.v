(* C02: the P-256 low/high-S twin is an involution on signature encodings. *)
From Coq Require Import List NArith ZArith Lia Bool.
From Coq Require Import ZifyN ZifyNat ZifyBool.
Import ListNotations.
From NV Require Import lib.Bytes lib.Proto lib.Der model.CertCodec model.CertTamper proofs.CertCodec_v2.
Open Scope N_scope.

Definition two256 : N := 256 ^ 32.

Lemma p256_n_lt : p256_n < two256.
Proof. vm_compute. reflexivity. Qed.

(* on numbers: s |-> n - s is its own inverse strictly between 0 and n, and never a fixed point (n is odd) *)
Lemma twin_number s : 0 < s < p256_n -> 0 < p256_n - s < p256_n /\ p256_n - (p256_n - s) = s /\ p256_n - s <> s.
Proof. intros H. unfold p256_n in *. lia. Qed.

(* ---- big-endian bytes with and without leading zeros ---- *)

Lemma be_enc_lead0 k x : x < 256 ^ N.of_nat k -> be_enc (S k) x = 0 :: be_enc k x.
Proof. intros H. cbn [be_enc]. rewrite N.div_small by assumption. reflexivity. Qed.

Lemma be_enc_pad l : bytes_ok l = true -> forall k, (length l <= k)%nat ->
  be_enc k (be_dec l) = repeat 0 (k - length l) ++ l.
Proof.
  intros Hok. induction k as [|k IH]; intros HL.
  - destruct l; [reflexivity|cbn in HL; lia].
  - destruct (Nat.eq_dec (length l) (S k)) as [E|NE].
    + rewrite <- E. rewrite Nat.sub_diag. cbn [repeat app]. now apply be_enc_dec.
    + assert (HL' : (length l <= k)%nat) by lia.
      rewrite be_enc_lead0.
      * rewrite IH by assumption. replace (S k - length l)%nat with (S (k - length l)) by lia. reflexivity.
      * pose proof (be_dec_bound l Hok). eapply N.lt_le_trans; [eassumption|].
        apply N.pow_le_mono_r; [discriminate|lia].
Qed.

Lemma strip1_zeros n b r : b <> 0 -> strip1 (repeat 0 n ++ b :: r) = b :: r.
Proof.
  intros Hb. induction n as [|n IH].
  - cbn [repeat app]. now apply strip1_id.
  - cbn [repeat app]. destruct (repeat 0 n ++ b :: r) eqn:E.
    + destruct n; discriminate.
    + rewrite <- E in *. cbn [strip1]. rewrite E. rewrite <- E. exact IH.
Qed.

Lemma be_dec_cons b r : be_dec (b :: r) = b * 256 ^ N.of_nat (length r) + be_dec r.
Proof. unfold be_dec. cbn [be_dec_acc]. rewrite be_dec_acc_split. lia. Qed.

Lemma short_of_small b r : b <> 0 -> be_dec (b :: r) < two256 -> (length (b :: r) <= 32)%nat.
Proof.
  intros Hb Hv. rewrite be_dec_cons in Hv. unfold two256 in Hv.
  assert (H1 : 256 ^ N.of_nat (length r) < 256 ^ 32) by nia.
  apply N.pow_lt_mono_r_iff in H1; [|lia]. cbn [length]. lia.
Qed.

(* the minimal representation is recovered from the value *)
Lemma strip1_be_enc_canon b r : bytes_ok (b :: r) = true -> b <> 0 -> be_dec (b :: r) < two256 ->
  strip1 (be_enc 32 (be_dec (b :: r))) = b :: r.
Proof.
  intros Hok Hb Hv. rewrite be_enc_pad by (try assumption; now apply short_of_small). now apply strip1_zeros.
Qed.

Lemma strip1_props l : bytes_ok l = true -> be_dec l <> 0 ->
  bytes_ok (strip1 l) = true /\ be_dec (strip1 l) = be_dec l /\ exists b r, strip1 l = b :: r /\ b <> 0.
Proof.
  induction l as [|x l IH]; intros Hok Hnz; [exfalso; apply Hnz; reflexivity|].
  destruct x as [|p].
  - destruct l as [|y l'].
    + exfalso. apply Hnz. reflexivity.
    + change (strip1 (0 :: y :: l')) with (strip1 (y :: l')).
      assert (E : be_dec (0 :: y :: l') = be_dec (y :: l')) by (unfold be_dec; reflexivity).
      rewrite E in *. apply IH; [|assumption].
      cbn [bytes_ok forallb] in *. now apply andb_prop in Hok as [_ ->].
  - rewrite strip1_id by discriminate. split; [exact Hok|]. split; [reflexivity|]. exists (N.pos p), l. split; [reflexivity|discriminate].
Qed.

Lemma strip1_bytes_ok l : bytes_ok l = true -> bytes_ok (strip1 l) = true.
Proof.
  induction l as [|x l IH]; intros Hok; [reflexivity|]. destruct x as [|p].
  - destruct l as [|y l']; [exact Hok|]. change (strip1 (0 :: y :: l')) with (strip1 (y :: l')). apply IH.
    cbn [bytes_ok forallb] in *. now apply andb_prop in Hok as [_ ->].
  - rewrite strip1_id by discriminate. exact Hok.
Qed.

(* ---- signatures ---- *)

Lemma int_good : tag_integer mod 32 <> 31. Proof. discriminate. Qed.

Lemma read_uint_emit c v rest : lenN c <= max_content -> uint_dec_bytes c = Some v ->
  read_uint (emit_tlv tag_integer c ++ rest) = Some (v, rest).
Proof. intros HL Hd. unfold read_uint. rewrite read_asn1_emit by (try exact int_good; exact HL). now rewrite Hd. Qed.

Theorem twin_involutive sig r s : bytes_ok sig = true -> fits sig -> parse_sig sig = Some (r, s) ->
  be_dec r <> 0 -> 0 < be_dec s < p256_n ->
  exists sig', twin sig = Some sig' /\ twin sig' = Some sig /\ sig' <> sig /\
               parse_sig sig' = Some (r, strip1 (be_enc 32 (p256_n - be_dec s))).
Proof.
  intros Hok Hfit Hp Hr Hs.
  unfold parse_sig in Hp.
  destruct (read_asn1 tag_sequence sig) as [[inner rest]|] eqn:E0; [|discriminate].
  destruct (is_nil rest) eqn:Erest; [|discriminate]. apply is_nil_true in Erest. subst rest. cbn [negb] in Hp.
  unfold read_uint in Hp.
  destruct (read_asn1 tag_integer inner) as [[rc in1]|] eqn:E1; [|discriminate].
  destruct (uint_dec_bytes rc) as [r0|] eqn:Ur; [|discriminate].
  destruct (read_asn1 tag_integer in1) as [[sc in2]|] eqn:E2; [|discriminate].
  destruct (uint_dec_bytes sc) as [s0|] eqn:Us; [|discriminate].
  destruct (is_nil in2) eqn:Ein2; [|discriminate]. apply is_nil_true in Ein2. subst in2. cbn [negb] in Hp.
  inversion Hp; subst r0 s0; clear Hp.
  (* the shape of sig *)
  pose proof (read_asn1_bytes_ok _ _ _ _ Hok E0) as [Hinner _].
  pose proof (read_asn1_bytes_ok _ _ _ _ Hinner E1) as [Hrc Hin1].
  pose proof (read_asn1_bytes_ok _ _ _ _ Hin1 E2) as [Hsc _].
  pose proof (read_asn1_is_emit _ _ _ _ Hok E0) as Ssig. rewrite app_nil_r in Ssig.
  pose proof (read_asn1_is_emit _ _ _ _ Hinner E1) as Sinner.
  pose proof (read_asn1_is_emit _ _ _ _ Hin1 E2) as Sin1. rewrite app_nil_r in Sin1.
  (* sizes *)
  assert (Lrc : (length rc <= length sig)%nat /\ (length sc <= length sig)%nat).
  { rewrite Ssig, Sinner, Sin1. pose proof (emit_tlv_length tag_sequence (emit_tlv tag_integer rc ++ emit_tlv tag_integer sc)).
    pose proof (emit_tlv_length tag_integer rc). pose proof (emit_tlv_length tag_integer sc).
    rewrite app_length in *. lia. }
  destruct Lrc as [Lrc Lsc].
  assert (Hsok : bytes_ok s = true).
  { clear - Us Hsc. unfold uint_dec_bytes in Us. destruct (check_integer sc); [|discriminate].
    destruct sc as [|b0 scr]; [discriminate|]. destruct (128 <=? b0); [discriminate|].
    injection Us as <-. exact (strip1_bytes_ok (b0 :: scr) Hsc). }
  (* r and s as addASN1IntBytes writes them *)
  destruct (uint_content_dec _ _ Hrc Ur Hr) as [Cr _].
  assert (Hsnz : be_dec s <> 0) by lia.
  destruct (uint_content_dec _ _ Hsc Us Hsnz) as [Cs (sb & sr & Es & Hsb)].
  (* the swapped s *)
  set (v := be_dec s) in *. set (w := p256_n - v).
  destruct (twin_number v Hs) as (Hw & Hww & Hne). fold w in Hw, Hww, Hne.
  pose proof p256_n_lt as Hn.
  assert (Hencok : bytes_ok (be_enc 32 w) = true) by apply be_enc_bytes_ok.
  assert (Hencv : be_dec (be_enc 32 w) = w) by (apply be_dec_enc; unfold two256 in Hn; change (N.of_nat 32) with 32; lia).
  destruct (strip1_props (be_enc 32 w) Hencok) as (Hs'ok & Hs'v & s'b & s'r & Es' & Hs'b); [rewrite Hencv; lia|].
  set (s' := strip1 (be_enc 32 w)) in *. rewrite Hencv in Hs'v.
  assert (Cs' : exists sc', uint_content s' = Some sc' /\ uint_dec_bytes sc' = Some s' /\ (length sc' <= 33)%nat).
  { unfold uint_content. rewrite Es', (strip0_id _ _ Hs'b).
    assert (Ls' : (length (s'b :: s'r) <= 32)%nat).
    { apply short_of_small; [exact Hs'b|]. rewrite <- Es', Hs'v. lia. }
    destruct (128 <=? s'b) eqn:Eb; eexists; (split; [reflexivity|]); split; try (cbn [length] in *; lia).
    - pose proof (uint_dec_content (s'b :: s'r)) as X. unfold uint_content in X. rewrite (strip0_id _ _ Hs'b), Eb in X.
      rewrite Es' in Hs'ok. destruct (X _ Hs'ok eq_refl) as [X1 _]. exact X1.
    - pose proof (uint_dec_content (s'b :: s'r)) as X. unfold uint_content in X. rewrite (strip0_id _ _ Hs'b), Eb in X.
      rewrite Es' in Hs'ok. destruct (X _ Hs'ok eq_refl) as [X1 _]. exact X1. }
  destruct Cs' as (sc' & Cs' & Us' & Lsc').
  exists (emit_tlv tag_sequence (emit_tlv tag_integer rc ++ emit_tlv tag_integer sc')).
  assert (T1 : twin sig = Some (emit_tlv tag_sequence (emit_tlv tag_integer rc ++ emit_tlv tag_integer sc'))).
  { unfold twin, parse_sig, read_uint. rewrite E0. cbn [is_nil negb]. rewrite E1, Ur, E2, Us. cbn [is_nil negb].
    unfold swap_s. fold v. replace (v <? p256_n) with true by (symmetry; apply N.ltb_lt; lia). fold w. fold s'.
    unfold encode_sig. now rewrite Cr, Cs'. }
  assert (Bounds : lenN rc <= max_content /\ lenN sc' <= max_content /\
                   lenN (emit_tlv tag_integer rc ++ emit_tlv tag_integer sc') <= max_content).
  { unfold fits, lenN, max_content in *. rewrite app_length.
    pose proof (emit_tlv_length tag_integer rc). pose proof (emit_tlv_length tag_integer sc'). lia. }
  destruct Bounds as (B1 & B2 & B3).
  assert (P' : parse_sig (emit_tlv tag_sequence (emit_tlv tag_integer rc ++ emit_tlv tag_integer sc')) = Some (r, s')).
  { unfold parse_sig. rewrite <- (app_nil_r (emit_tlv tag_sequence _)).
    rewrite read_asn1_emit by (try exact seq_good; exact B3). cbn [is_nil negb].
    rewrite (read_uint_emit rc r) by assumption.
    rewrite <- (app_nil_r (emit_tlv tag_integer sc')). rewrite (read_uint_emit sc' s') by assumption. reflexivity. }
  split; [exact T1|]. split; [|split; [|exact P']].
  - unfold twin. rewrite P'. unfold swap_s. rewrite Hs'v.
    replace (w <? p256_n) with true by (symmetry; apply N.ltb_lt; lia). rewrite Hww.
    unfold v. rewrite Es. rewrite strip1_be_enc_canon; [|rewrite <- Es; exact Hsok|exact Hsb|rewrite <- Es; fold v; lia].
    rewrite <- Es. unfold encode_sig. rewrite Cr, Cs. rewrite Ssig, Sinner, Sin1. reflexivity.
  - intros Eq. rewrite Eq in P'. unfold parse_sig, read_uint in P'. rewrite E0 in P'. cbn [is_nil negb] in P'.
    rewrite E1, Ur, E2, Us in P'. cbn [is_nil negb] in P'. inversion P' as [Ess]. 
    assert (be_dec s' = v) by (rewrite <- Ess; reflexivity). lia.
Qed.

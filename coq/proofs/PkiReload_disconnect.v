(* C42, last clause: a peer that a reload blocklists or stops trusting is disconnected on the next
   connection-manager check. Stated BY REFERENCE TO THE C30 TABLE: the status of the peer's certificate against the
   trust store in use after the reload ([peer_status], tied to CAPool.VerifyCachedCertificate by the C42
   correspondence) is the r_cert feature of the check's row in gen/Tab_ConnMgr.v (the connection manager reads
   pki.GetCAPool() at the time of the check; tied by the C30 correspondence), and C30's lemmas say what the real
   makeTrafficDecision / doTrafficCheck do on such a row. *)
From Coq Require Import List NArith Bool.
Import ListNotations.
From NV Require Import lib.Corr lib.ConnMgr_lib lib.PkiReload_lib gen.Tab_PkiReload model.PkiReload
  proofs.PkiReload_proofs proofs.PkiReload_hist.
From NV Require Import gen.Tab_ConnMgr model.ConnMgr proofs.ConnMgr_proofs.
Open Scope N_scope.

(* the peer's certificate status after a reload that took a new bundle into use *)
Lemma status_blocklisted q c q' peer : reload_ca q c = Some q' -> ca_rule (ca_features c) = true ->
  nmem (snd peer) (ca_block c) = true -> peer_status q' peer = CBlock.
Proof.
  intros R A B. rewrite (ca_replaced q c A) in R. inversion R; subst.
  unfold peer_status, pool_of. cbn [p_block]. now rewrite B.
Qed.

Lemma status_untrusted q c q' peer : reload_ca q c = Some q' -> ca_rule (ca_features c) = true ->
  nmem (snd peer) (ca_block c) = false ->
  existsb (fun x => (fst x =? fst peer) && negb (snd x)) (ca_cas c) = false -> peer_status q' peer = CInvalid.
Proof.
  intros R A B T. rewrite (ca_replaced q c A) in R. inversion R; subst.
  unfold peer_status, trusted, pool_of. cbn [p_block p_cas]. now rewrite B, T.
Qed.

(* the status against whatever trust store is in use decides the next check *)
Lemma blocklisted_disconnected (q : pool) peer r x : peer_status q peer = CBlock ->
  r_cert r = peer_status q peer -> decide r = Some x -> d_dec x = DClose /\ d_removed x = true.
Proof. intros S C D. apply (blocklisted_closed r x D). congruence. Qed.

Lemma untrusted_disconnected (q : pool) peer r x : peer_status q peer = CInvalid ->
  r_cert r = peer_status q peer -> r_dinv r = true -> decide r = Some x -> d_dec x = DClose /\ d_removed x = true.
Proof. intros S C I D. apply (invalid_closed_on r x D); congruence. Qed.

(* one reload step of the PKI followed by the next check of a tunnel to [peer] *)
Lemma reload_then_check p e p' peer r x :
  PkiReload.step p e = Some p' -> ca_rule (ca_features (snd e)) = true ->
  r_cert r = peer_status (ca p') peer -> decide r = Some x ->
  (nmem (snd peer) (ca_block (snd e)) = true -> d_dec x = DClose /\ d_removed x = true) /\
  (nmem (snd peer) (ca_block (snd e)) = false ->
   existsb (fun y => (fst y =? fst peer) && negb (snd y)) (ca_cas (snd e)) = false ->
   r_dinv r = true -> d_dec x = DClose /\ d_removed x = true).
Proof.
  intros S A C D. apply step_inv in S as [_ S]. split.
  - intros B. eapply blocklisted_disconnected; eauto. eapply status_blocklisted; eauto.
  - intros B T I. eapply untrusted_disconnected; eauto. eapply status_untrusted; eauto.
Qed.

(* in any state a history of reloads reaches, whatever its trust store holds decides the check *)
Lemma reachable_then_check p evs p' peer r x :
  PkiReload.run p evs = Some p' -> r_cert r = peer_status (ca p') peer -> decide r = Some x ->
  (nmem (snd peer) (p_block (ca p')) = true -> d_dec x = DClose /\ d_removed x = true) /\
  (nmem (snd peer) (p_block (ca p')) = false -> trusted (ca p') (fst peer) = false -> r_dinv r = true ->
   d_dec x = DClose /\ d_removed x = true).
Proof.
  intros _ C D. split.
  - intros B. apply (blocklisted_closed r x D). rewrite C. unfold peer_status. now rewrite B.
  - intros B T I. apply (invalid_closed_on r x D); [|exact I]. rewrite C. unfold peer_status. now rewrite B, T.
Qed.

(* with disconnect_invalid off, an untrusted (not blocklisted) peer is treated exactly as a trusted one *)
Lemma untrusted_kept_when_off (q : pool) peer r x : peer_status q peer = CInvalid ->
  r_cert r = peer_status q peer -> r_dinv r = false -> decide r = Some x -> decide (with_cert COk r) = Some x.
Proof. intros S C I D. apply (invalid_ignored_off r x D); congruence. Qed.

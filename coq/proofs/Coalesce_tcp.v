(* Coalesce_tcp: the TCP coalescer keeps the slot invariant, and the kernel's TSO segmentation of a flushed TCP
   slot reproduces the slot's members modulo [approx]. *)
From Coq Require Import List NArith Bool Arith Lia.
Import ListNotations.
From NV Require Import lib.Bytes lib.Ones lib.Corr gen.Consts_Coalesce model.Coalesce
  proofs.Coalesce_lists proofs.Coalesce_lane proofs.Coalesce_chain proofs.Coalesce_approx.
Open Scope N_scope.

Definition pkt0 : pkt := mkPkt 0 ShOther false 0 0 0 0 0 0 0 0 false false 0 0 0 0 0 0 0 [] 0 0 [] [] [].
Definition staged0 : staged := ((0, 0), pkt0).

Definition psh (p : pkt) : bool := has (p_flags p) coal_flag_psh.
Definition last_psh (ms : list staged) : bool :=
  match ms with
  | [] => false
  | [_] => false
  | _ => psh (snd (last ms staged0))
  end.

(* what dispatch guarantees for the TCP lane, plus the representation invariant of the batch *)
Definition pre_tcp (p : pkt) : Prop := p_proto p = coal_proto_tcp /\ wf_pktb p = true.

Record tcp_member (m0 : pkt) (gs i : N) (m : pkt) : Prop := mkTM {
  tm_pre : pre_tcp m;
  tm_shape : p_shape m = ShTcp;
  tm_hdr : tcp_headers_match m0 m = true;
  tm_seq : p_seq m = w32 (p_seq m0 + i * gs);
  tm_id : p_v6 m0 = true \/ p_df m0 = true \/ p_id m = w16 (p_id m0 + i);
  tm_adm : tcp_admissible (p_flags m) = true;
  tm_ece : has (p_flags m0) coal_flag_ece = has (p_flags m) coal_flag_ece
}.

Definition mid_tcp (m0 : pkt) (gs i : N) (m : pkt) : Prop :=
  tcp_member m0 gs i m /\ paylen m = gs /\ 1 <= gs /\ psh m = false.
Definition fin_tcp (m0 : pkt) (gs i : N) (m : pkt) : Prop :=
  tcp_member m0 gs i m /\ 1 <= paylen m /\ paylen m <= gs.
Definition xinv_tcp (s : slot) : Prop :=
  s_next s = w32 (p_seq (s_seed s) + s_total s) /\ s_psh s = last_psh (s_mem s).

Lemma wf_tcp p : wf_pktb p = true -> p_shape p = ShTcp -> p_raw p = [] /\ p_seq p < 4294967296 /\ p_id p < 65536.
Proof.
  unfold wf_pktb. intros H E. rewrite E in H.
  destruct (p_raw p); [|discriminate].
  destruct (p_seq p <? 4294967296) eqn:E1; [|discriminate].
  destruct (p_id p <? 65536) eqn:E2; [|discriminate].
  apply N.ltb_lt in E1, E2. auto.
Qed.

Lemma tcp_parse_shape p : pol_parse tcp_pol p = true -> p_shape p = ShTcp.
Proof. cbn [tcp_pol pol_parse]. unfold is_shape. apply shape_eqb_eq. Qed.

Lemma tcp_cls_data p : pol_cls tcp_pol p = CData -> tcp_admissible (p_flags p) = true /\ paylen p <> 0.
Proof.
  cbn [tcp_pol pol_cls]. destruct (tcp_admissible (p_flags p)); simpl; [|discriminate].
  destruct (paylen p =? 0) eqn:E; [discriminate|]. intros _. apply N.eqb_neq in E. auto.
Qed.

Lemma tcp_max_pos : 1 <= coal_tcp_max_segs.
Proof. vm_compute. discriminate. Qed.

Lemma tcp_mid_fin m0 gs i m : mid_tcp m0 gs i m -> fin_tcp m0 gs i m.
Proof. intros (Hm & Hs & Hg & _). split; [exact Hm|]. lia. Qed.

Lemma tcp_mid_size m0 gs i m : mid_tcp m0 gs i m -> paylen m = gs.
Proof. intros (_ & Hs & _). exact Hs. Qed.

Lemma tcp_fin_size m0 gs i m : fin_tcp m0 gs i m -> 1 <= paylen m /\ paylen m <= gs.
Proof. intros (_ & H). exact H. Qed.

Lemma tcp_seed_ok : forall kp, let p := snd kp in
  pre_tcp p -> pol_parse tcp_pol p = true -> pol_cls tcp_pol p = CData ->
  (pol_buf tcp_pol <? pol_hlen tcp_pol p + paylen p) = false ->
  1 <= paylen p /\ fin_tcp p (paylen p) 0 p /\ (pol_seed_open tcp_pol p = true -> mid_tcp p (paylen p) 0 p) /\
  xinv_tcp (seed_slot tcp_pol kp).
Proof.
  intros kp p Hpre Hpar Hcls _.
  destruct (tcp_cls_data p Hcls) as [Hadm Hpl].
  pose proof (tcp_parse_shape p Hpar) as Hsh.
  destruct Hpre as [Hproto Hwf]. destruct (wf_tcp p Hwf Hsh) as (_ & Hseq & Hid).
  assert (H1 : 1 <= paylen p) by lia.
  assert (Hmem : tcp_member p (paylen p) 0 p).
  { constructor; auto.
    - split; assumption.
    - apply tcp_headers_match_refl.
    - rewrite N.mul_0_l, N.add_0_r, w32_small by exact Hseq. reflexivity.
    - right. right. rewrite N.add_0_r, w16_small by exact Hid. reflexivity. }
  split; [exact H1|]. split; [split; [exact Hmem|lia]|]. split.
  - cbn [tcp_pol pol_seed_open]. intros Ho. apply negb_true_iff in Ho.
    split; [exact Hmem|]. split; [reflexivity|]. split; [exact H1|exact Ho].
  - unfold xinv_tcp. cbn [seed_slot s_next s_seed s_total s_psh s_mem tcp_pol pol_next last_psh].
    fold p. split; [apply w32_add_idem_r|reflexivity].
Qed.

Lemma chain_open_members (m0 : pkt) (gs : N) : forall ms i kp,
  chain_open0 mid_tcp m0 gs i ms -> In kp ms -> exists j, mid_tcp m0 gs j (snd kp).
Proof.
  induction ms as [|kp1 r IH]; intros i kp H Hin; [destruct Hin|].
  destruct H as [Hm Hr]. destruct Hin as [<-|Hin]; [exists i; exact Hm|]. eapply IH; eauto.
Qed.

Lemma open_no_psh m0 gs ms i : chain_open0 mid_tcp m0 gs i ms -> last_psh ms = false.
Proof.
  intros H. destruct ms as [|kp1 [|kp2 r]]; [reflexivity|reflexivity|].
  unfold last_psh.
  assert (Hin : In (last (kp1 :: kp2 :: r) staged0) (kp1 :: kp2 :: r)).
  { destruct (exists_last (l := kp1 :: kp2 :: r)) as (l' & a & E); [discriminate|].
    rewrite E. rewrite last_last. apply in_or_app. right. left. reflexivity. }
  destruct (chain_open_members _ _ _ _ _ H Hin) as (j & _ & _ & _ & Hp). exact Hp.
Qed.

Lemma last_psh_snoc kp0 rest kp : last_psh ((kp0 :: rest) ++ [kp]) = psh (snd kp).
Proof.
  unfold last_psh. rewrite last_last.
  destruct rest; reflexivity.
Qed.

Lemma tcp_append_ok : forall s kp, let p := snd kp in
  s_verb s = false ->
  chain_ok tcp_pol coal_tcp_max_segs mid_tcp fin_tcp xinv_tcp s -> slot_open mid_tcp s ->
  pre_tcp p -> pol_parse tcp_pol p = true -> pol_cls tcp_pol p = CData -> pol_can_append tcp_pol s p = true ->
  fin_tcp (s_seed s) (s_gso s) (s_nseg s) p /\
  (pol_closes tcp_pol s p = false -> mid_tcp (s_seed s) (s_gso s) (s_nseg s) p) /\
  xinv_tcp (append_slot tcp_pol s kp) /\
  s_nseg s + 1 <= coal_tcp_max_segs /\ s_hlen s + (s_total s + paylen p) <= pol_buf tcp_pol.
Proof.
  intros s kp p Hv Hc Ho Hpre Hpar Hcls Hcan.
  destruct (tcp_cls_data p Hcls) as [Hadm Hpl].
  pose proof (tcp_parse_shape p Hpar) as Hsh.
  destruct (co_x _ _ _ _ _ _ Hc) as [Hnext Hpsh].
  destruct (co_mem _ _ _ _ _ _ Hc) as (kp0 & rest & Em & Es).
  assert (Htot : s_total s = s_nseg s * s_gso s).
  { rewrite (co_total _ _ _ _ _ _ Hc), (co_pays _ _ _ _ _ _ Hc), (co_nseg _ _ _ _ _ _ Hc).
    apply (chain_open_total mid_tcp tcp_mid_size (s_seed s) (s_gso s) (s_mem s) 0). exact Ho. }
  cbn [tcp_pol pol_can_append] in Hcan. unfold tcp_can_append in Hcan.
  rewrite !andb_true_iff in Hcan.
  destruct Hcan as (((((((C1 & C2) & C3) & C4) & C5) & C6) & C7) & C8).
  apply N.eqb_eq in C2. apply N.ltb_lt in C3. apply N.leb_le in C4, C5. apply eqb_prop in C6.
  assert (Hmem : tcp_member (s_seed s) (s_gso s) (s_nseg s) p).
  { constructor; auto.
    - rewrite C2, Hnext, Htot. reflexivity.
    - apply orb_true_iff in C7. destruct C7 as [C7|C7]; [left; exact C7|].
      unfold ipv4_can_coalesce_id in C7. apply orb_true_iff in C7. destruct C7 as [C7|C7]; [right; left; exact C7|].
      right. right. apply N.eqb_eq in C7. rewrite C7. apply w16_add_idem_r. }
  split; [split; [exact Hmem|split; [lia|exact C4]]|].
  split.
  { cbn [tcp_pol pol_closes]. intros Hcl. apply orb_false_iff in Hcl. destruct Hcl as [Hlt Hp].
    apply N.ltb_ge in Hlt. split; [exact Hmem|]. split; [lia|]. split; [apply (co_gso1 _ _ _ _ _ _ Hc)|exact Hp]. }
  split.
  { unfold xinv_tcp. cbn [append_slot s_next s_seed s_total s_psh s_mem tcp_pol pol_next pol_psh]. fold p. split.
    - rewrite C2, Hnext. rewrite w32_add_idem_r, w32_add_idem_l, N.add_assoc. reflexivity.
    - rewrite Hpsh, (open_no_psh _ _ _ _ Ho). rewrite Em. rewrite last_psh_snoc. reflexivity. }
  split; [lia|].
  cbn [tcp_pol pol_buf]. lia.
Qed.

Definition tcp_chain_ok := chain_ok tcp_pol coal_tcp_max_segs mid_tcp fin_tcp xinv_tcp.
Definition tcp_slot_ok := slot_ok tcp_pol coal_tcp_max_segs mid_tcp fin_tcp xinv_tcp.
Definition tcp_chains := lane_chains tcp_pol coal_tcp_max_segs mid_tcp fin_tcp xinv_tcp.

Theorem tcp_commit_chains l kp :
  lane_struct tcp_pol l -> tcp_chains l -> pre_tcp (snd kp) -> tcp_chains (commit_staged tcp_pol l kp).
Proof.
  apply (commit_chains tcp_pol coal_tcp_max_segs pre_tcp mid_tcp fin_tcp xinv_tcp
           tcp_max_pos tcp_mid_fin tcp_mid_size tcp_fin_size tcp_seed_ok tcp_append_ok).
Qed.

Lemma tcp_lane0_chains : tcp_chains lane0.
Proof. apply lane0_chains. Qed.

(* ---- the kernel's segmentation of a flushed slot ---- *)

Lemma seg_render_tcp s gs i first last c :
  let sd := s_seed s in
  seg_pkt (render tcp_pol s) gs i first last c =
  mkPkt (p_proto sd) (p_shape sd) (p_v6 sd) (p_src sd) (p_dst sd) (p_sport sd) (p_dport sd) (p_tos sd) (p_flow sd)
        (p_ttl sd) (p_nxt sd) (p_df sd) (p_rsv sd) (seg_id sd i) (w32 (p_seq sd + i * gs)) (p_ack sd) (p_x2 sd)
        (seg_flags (if s_psh s then N.lor (p_flags sd) coal_flag_psh else p_flags sd) first last)
        (p_win sd) (p_urg sd) (p_opts sd) 0 0 c [] (p_raw sd).
Proof. reflexivity. Qed.

Lemma tcp_member_approx s i m fl_ok first last :
  tcp_member (s_seed s) (s_gso s) i m ->
  pre_tcp (s_seed s) -> p_shape (s_seed s) = ShTcp ->
  p_flags m = seg_flags (if s_psh s then N.lor (p_flags (s_seed s)) coal_flag_psh else p_flags (s_seed s)) first last ->
  fl_ok = true ->
  approx m (seg_pkt (render tcp_pol s) (s_gso s) i first last (p_pay m)).
Proof.
  intros Hm [Hp0 Hwf0] Hsh0 Hfl _. destruct Hm as [[Hp Hwf] Hsh Hh Hseq Hid _ _].
  destruct (tcp_headers_match_eq _ _ Hh) as (Hip & E1 & E2 & E3 & E4 & E5 & E6 & E7).
  destruct (ip_headers_match_eq _ _ Hip) as (I1 & I2 & I3 & I4 & I5 & I6 & I7 & I8 & I9).
  destruct (wf_tcp _ Hwf Hsh) as (Hraw & _ & _). destruct (wf_tcp _ Hwf0 Hsh0) as (Hraw0 & _ & _).
  unfold approx. rewrite seg_render_tcp.
  apply approxb_intro;
    cbn [p_proto p_shape p_v6 p_src p_dst p_sport p_dport p_tos p_flow p_ttl p_nxt p_df p_rsv p_id p_seq p_ack p_x2
         p_flags p_win p_urg p_opts p_pay p_raw]; try congruence.
  - apply (seg_id_ok (s_seed s) m (s_seed s) i); auto.
Qed.

Theorem tcp_slot_transparent s :
  tcp_slot_ok s ->
  Forall2 (fun kp q => approx (snd kp) q) (s_mem s) (kernel_segment (slot_write tcp_pol s)).
Proof.
  intros Hok. unfold tcp_slot_ok, slot_ok in Hok. unfold slot_write.
  destruct (s_verb s) eqn:Ev.
  { destruct Hok as (kp & Em & Es). simpl. rewrite Em, Es. constructor; [apply approxb_refl|constructor]. }
  fold tcp_chain_ok in Hok.
  destruct (co_mem _ _ _ _ _ _ Hok) as (kp0 & rest & Em & Es).
  pose proof (co_nseg _ _ _ _ _ _ Hok) as Hn.
  simpl orb. destruct (s_nseg s =? 1) eqn:E1.
  { apply N.eqb_eq in E1. rewrite E1, Em in Hn. destruct rest; [|simpl in Hn; lia].
    simpl. rewrite Em, Es. constructor; [apply approxb_refl|constructor]. }
  apply N.eqb_neq in E1.
  assert (H2 : 2 <= s_nseg s) by (rewrite Hn, Em in *; simpl length in *; lia).
  rewrite (kernel_segment_render tcp_pol coal_tcp_max_segs pre_tcp mid_tcp fin_tcp xinv_tcp
             tcp_max_pos tcp_mid_fin tcp_mid_size tcp_fin_size tcp_seed_ok tcp_append_ok s Hok H2).
  apply Forall2_map_l.
  pose proof (co_chain _ _ _ _ _ _ Hok) as Hch.
  destruct (co_x _ _ _ _ _ _ Hok) as [_ Hpsh].
  (* the seed is a non-final member: admissible flags, no PSH *)
  assert (Hseed : mid_tcp (s_seed s) (s_gso s) 0 (s_seed s)).
  { rewrite Em in Hch. destruct rest as [|kp1 rest]; [rewrite Hn, Em in H2; simpl in H2; lia|].
    cbn [chain] in Hch. destruct Hch as [Hm _]. rewrite <- Es in Hm. exact Hm. }
  destruct Hseed as (Hm0 & _ & _ & Hp0).
  apply (chain_segs mid_tcp fin_tcp approx (fun m => s_psh s = psh m) (render tcp_pol s) (s_seed s) (s_gso s))
    with (d := staged0).
  - intros i m (Hm & _ & _ & Hp).
    apply (tcp_member_approx s i m true); auto.
    + apply (tm_pre _ _ _ _ Hm0).
    + apply (tm_shape _ _ _ _ Hm0).
    + apply tcp_flags_mid; auto.
      * apply (tm_adm _ _ _ _ Hm0).
      * apply (tm_adm _ _ _ _ Hm).
      * apply (tm_ece _ _ _ _ Hm).
  - intros i m (Hm & _ & _) HQ.
    apply (tcp_member_approx s i m true); auto.
    + apply (tm_pre _ _ _ _ Hm0).
    + apply (tm_shape _ _ _ _ Hm0).
    + rewrite HQ. apply tcp_flags_fin; auto.
      * apply (tm_adm _ _ _ _ Hm0).
      * apply (tm_adm _ _ _ _ Hm).
      * apply (tm_ece _ _ _ _ Hm).
  - rewrite Em. discriminate.
  - rewrite Hpsh. rewrite Em in *. destruct rest as [|kp1 rest]; [simpl in Hn; lia|]. reflexivity.
  - exact Hch.
Qed.

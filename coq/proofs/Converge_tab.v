(* Converge_tab: the generated constants and the generated shouldSwapPrimary table against the model. *)
From Coq Require Import List NArith Bool.
Import ListNotations.
From NV Require Import gen.Tab_Converge model.Converge.
Open Scope N_scope.

(* T1: the model's constants are the code's *)
Lemma max_tunnels_pinned : N.of_nat max_tunnels = MaxHostInfosPerVpnIp.
Proof. reflexivity. Qed.
Lemma max_cached_pinned : N.of_nat max_cached = maxCachedPackets.
Proof. reflexivity. Qed.

(* T2: on every row the real shouldSwapPrimary answered what the model's rule says, and never yes for a peer
   whose address is smaller than ours *)
Definition row_ok (r : N * bool * bool * bool * bool) : bool :=
  let '(cls, rk, nc, se, res) := r in
  eqb res (match cls with 0 => false | _ => swap_elig rk nc se end) && implb res (negb (cls =? 0)).

Definition all_keys : list (N * bool * bool * bool) :=
  flat_map (fun cls => flat_map (fun rk => flat_map (fun nc => map (fun se => (cls, rk, nc, se)) [false; true])
                                                     [false; true]) [false; true]) [0; 1; 2].
Definition has_key (k : N * bool * bool * bool) : bool :=
  let '(cls, rk, nc, se) := k in
  existsb (fun r => let '(c', rk', nc', se', _) := r in (c' =? cls) && eqb rk' rk && eqb nc' nc && eqb se' se) swap_tab.

Lemma swap_tab_ok : forallb row_ok swap_tab = true.
Proof. vm_compute. reflexivity. Qed.
Lemma swap_tab_complete : forallb has_key all_keys = true /\ length swap_tab = length all_keys.
Proof. vm_compute. split; reflexivity. Qed.

(* the class of a pair of addresses, as the generator computes it from netip.Addr.Compare *)
Definition cmp_class (me peer : addr) : N := match addr_cmp peer me with Lt => 0 | Eq => 1 | Gt => 2 end.
Lemma should_swap_by_class me peer rk nc se :
  should_swap me peer (swap_elig rk nc se) = match cmp_class me peer with 0 => false | _ => swap_elig rk nc se end.
Proof. unfold should_swap, cmp_class. now destruct (addr_cmp peer me). Qed.

(* every table row with answer yes has the peer's address >= ours *)
Lemma swap_tab_requires_ge : forall cls rk nc se, In (cls, rk, nc, se, true) swap_tab -> cls <> 0.
Proof.
  intros cls rk nc se H. pose proof swap_tab_ok as T. rewrite forallb_forall in T. specialize (T _ H).
  unfold row_ok in T. apply andb_prop in T as [_ T]. simpl in T. apply negb_true_iff in T. now apply N.eqb_neq in T.
Qed.

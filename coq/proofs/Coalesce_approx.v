(* Coalesce_approx: [approx] from field equalities, what the header matchers give, the fields of a kernel segment,
   TCP flag arithmetic, word arithmetic. *)
From Coq Require Import List NArith Bool Arith Lia.
Import ListNotations.
From NV Require Import lib.Bytes lib.Corr gen.Consts_Coalesce model.Coalesce proofs.Coalesce_lists.
Open Scope N_scope.

Lemma shape_eqb_refl s : shape_eqb s s = true.
Proof. destruct s; reflexivity. Qed.

Lemma shape_eqb_eq a b : shape_eqb a b = true <-> a = b.
Proof. destruct a, b; simpl; split; intros H; try reflexivity; try discriminate. Qed.

Lemma nlist_eqb_refl l : nlist_eqb l l = true.
Proof. apply nlist_eqb_eq. reflexivity. Qed.

Lemma approxb_intro a b :
  p_proto a = p_proto b -> p_shape a = p_shape b -> p_v6 a = p_v6 b -> p_src a = p_src b -> p_dst a = p_dst b ->
  p_sport a = p_sport b -> p_dport a = p_dport b -> p_tos a = p_tos b -> p_flow a = p_flow b -> p_ttl a = p_ttl b ->
  p_nxt a = p_nxt b -> p_df a = p_df b -> p_rsv a = p_rsv b ->
  (p_v6 a = true \/ p_df a = true \/ p_id a = p_id b) ->
  p_seq a = p_seq b -> p_ack a = p_ack b -> p_x2 a = p_x2 b -> p_flags a = p_flags b -> p_win a = p_win b ->
  p_urg a = p_urg b -> p_opts a = p_opts b -> p_pay a = p_pay b -> p_raw a = p_raw b ->
  approxb a b = true.
Proof.
  intros E1 E2 E3 E4 E5 E6 E7 E8 E9 E10 E11 E12 E13 Eid E14 E15 E16 E17 E18 E19 E20 E21 E22.
  unfold approxb.
  assert (Hid : (p_v6 a || p_df a || (p_id a =? p_id b)) = true).
  { destruct Eid as [H|[H|H]]; rewrite H; [reflexivity|destruct (p_v6 a); reflexivity|rewrite N.eqb_refl; apply orb_true_r]. }
  rewrite Hid.
  rewrite E1, E2, E4, E5, E6, E7, E8, E9, E10, E11, E12, E13, E14, E15, E16, E17, E18, E19, E20, E21, E22.
  rewrite E3.
  rewrite !N.eqb_refl, shape_eqb_refl, !eqb_reflx, !nlist_eqb_refl. reflexivity.
Qed.

Lemma approxb_refl a : approxb a a = true.
Proof. apply approxb_intro; auto. Qed.

(* ---- header matchers ---- *)

Lemma ip_headers_match_eq a b :
  ip_headers_match a b = true ->
  p_v6 a = p_v6 b /\ p_tos a = p_tos b /\ p_flow a = p_flow b /\ p_ttl a = p_ttl b /\ p_nxt a = p_nxt b /\
  p_df a = p_df b /\ p_rsv a = p_rsv b /\ p_src a = p_src b /\ p_dst a = p_dst b.
Proof.
  unfold ip_headers_match. rewrite !andb_true_iff, !N.eqb_eq, !eqb_true_iff. tauto.
Qed.

Lemma ip_headers_match_refl a : ip_headers_match a a = true.
Proof. unfold ip_headers_match. rewrite !N.eqb_refl, !eqb_reflx. reflexivity. Qed.

Lemma tcp_headers_match_eq a b :
  tcp_headers_match a b = true ->
  ip_headers_match a b = true /\ p_sport a = p_sport b /\ p_dport a = p_dport b /\ p_ack a = p_ack b /\
  p_x2 a = p_x2 b /\ p_win a = p_win b /\ p_urg a = p_urg b /\ p_opts a = p_opts b.
Proof.
  unfold tcp_headers_match. rewrite !andb_true_iff, !N.eqb_eq, nlist_eqb_eq. tauto.
Qed.

Lemma tcp_headers_match_refl a : tcp_headers_match a a = true.
Proof. unfold tcp_headers_match. rewrite ip_headers_match_refl, !N.eqb_refl, nlist_eqb_refl. reflexivity. Qed.

Lemma udp_headers_match_eq a b :
  udp_headers_match a b = true ->
  ip_headers_match a b = true /\ p_sport a = p_sport b /\ p_dport a = p_dport b.
Proof.
  unfold udp_headers_match. rewrite !andb_true_iff, !N.eqb_eq. tauto.
Qed.

Lemma udp_headers_match_refl a : udp_headers_match a a = true.
Proof. unfold udp_headers_match. rewrite ip_headers_match_refl, !N.eqb_refl. reflexivity. Qed.

(* ---- word arithmetic ---- *)

Lemma w32_add_idem_r a b : w32 (a + w32 b) = w32 (a + b).
Proof. unfold w32. apply N.add_mod_idemp_r. discriminate. Qed.

Lemma w32_add_idem_l a b : w32 (w32 a + b) = w32 (a + b).
Proof. unfold w32. apply N.add_mod_idemp_l. discriminate. Qed.

Lemma w16_add_idem_r a b : w16 (a + w16 b) = w16 (a + b).
Proof. unfold w16. apply N.add_mod_idemp_r. discriminate. Qed.

Lemma w32_small a : a < 4294967296 -> w32 a = a.
Proof. intros H. unfold w32. apply N.mod_small. exact H. Qed.

Lemma w16_small a : a < 65536 -> w16 a = a.
Proof. intros H. unfold w16. apply N.mod_small. exact H. Qed.

(* ---- TCP flags ---- *)

Lemma N_lt_128_cases f : f < 128 -> In f (map N.of_nat (seq 0 128)).
Proof.
  intros H. apply in_map_iff. exists (N.to_nat f). split; [apply N2Nat.id|].
  apply in_seq. lia.
Qed.

Lemma tcp_admissible_lt f : tcp_admissible f = true -> f < 128.
Proof.
  unfold tcp_admissible. intros H. apply andb_prop in H. destruct H as [_ H]. apply N.eqb_eq in H.
  change (N.lor coal_flag_ack (N.lor coal_flag_psh coal_flag_ece)) with 88 in H.
  pose proof (N.lor_ldiff_and f 88) as E. rewrite H in E. rewrite N.lor_0_l in E.
  assert (E2 : N.land f 127 = f).
  { rewrite <- E at 1. rewrite <- N.land_assoc. change (N.land 88 127) with 88. exact E. }
  change 127 with (N.ones 7) in E2. rewrite N.land_ones in E2. rewrite <- E2.
  apply N.mod_lt. discriminate.
Qed.

Lemma tcp_admissible_cases f : tcp_admissible f = true -> f = 16 \/ f = 24 \/ f = 80 \/ f = 88.
Proof.
  intros H. pose proof (N_lt_128_cases f (tcp_admissible_lt f H)) as Hin.
  assert (Hall : forallb (fun x => implb (tcp_admissible x) ((x =? 16) || (x =? 24) || (x =? 80) || (x =? 88)))
                         (map N.of_nat (seq 0 128)) = true) by (vm_compute; reflexivity).
  rewrite forallb_forall in Hall. specialize (Hall f Hin). rewrite H in Hall. simpl in Hall.
  rewrite !orb_true_iff, !N.eqb_eq in Hall. tauto.
Qed.

(* a member that does not end the chain carries exactly the seed's flags, whatever PSH the header got later *)
Lemma tcp_flags_mid f0 fm (spsh first : bool) :
  tcp_admissible f0 = true -> has f0 coal_flag_psh = false ->
  tcp_admissible fm = true -> has fm coal_flag_psh = false ->
  has f0 coal_flag_ece = has fm coal_flag_ece ->
  fm = seg_flags (if spsh then N.lor f0 coal_flag_psh else f0) first false.
Proof.
  intros A0 P0 Am Pm E.
  destruct (tcp_admissible_cases _ A0) as [-> | [-> | [-> | ->]]]; try discriminate;
  destruct (tcp_admissible_cases _ Am) as [-> | [-> | [-> | ->]]]; try discriminate;
  destruct spsh, first; reflexivity.
Qed.

(* the last member carries the seed's flags plus its own PSH *)
Lemma tcp_flags_fin f0 fm (first : bool) :
  tcp_admissible f0 = true -> has f0 coal_flag_psh = false ->
  tcp_admissible fm = true ->
  has f0 coal_flag_ece = has fm coal_flag_ece ->
  fm = seg_flags (if has fm coal_flag_psh then N.lor f0 coal_flag_psh else f0) first true.
Proof.
  intros A0 P0 Am E.
  destruct (tcp_admissible_cases _ A0) as [-> | [-> | [-> | ->]]]; try discriminate;
  destruct (tcp_admissible_cases _ Am) as [-> | [-> | [-> | ->]]]; try discriminate;
  destruct first; reflexivity.
Qed.

(* ---- the fields of a kernel segment ---- *)

Lemma seg_pkt_tcp g gs i first last c :
  g_proto g = 1 ->
  let h := g_hdr g in
  seg_pkt g gs i first last c =
  mkPkt (p_proto h) (p_shape h) (p_v6 h) (p_src h) (p_dst h) (p_sport h) (p_dport h) (p_tos h) (p_flow h) (p_ttl h)
        (p_nxt h) (p_df h) (p_rsv h) (seg_id h i) (w32 (p_seq h + i * gs)) (p_ack h) (p_x2 h)
        (seg_flags (p_flags h) first last) (p_win h) (p_urg h) (p_opts h) 0 0 c [] (p_raw h).
Proof. intros E. unfold seg_pkt. rewrite E. reflexivity. Qed.

Lemma seg_pkt_udp g gs i first last c :
  g_proto g = 2 ->
  let h := g_hdr g in
  seg_pkt g gs i first last c =
  mkPkt (p_proto h) (p_shape h) (p_v6 h) (p_src h) (p_dst h) (p_sport h) (p_dport h) (p_tos h) (p_flow h) (p_ttl h)
        (p_nxt h) (p_df h) (p_rsv h) (seg_id h i) (p_seq h) (p_ack h) (p_x2 h)
        (p_flags h) (p_win h) (p_urg h) (p_opts h) 0 0 c [] (p_raw h).
Proof. intros E. unfold seg_pkt. rewrite E. reflexivity. Qed.

(* the identification the kernel stamps is the one the member carried, unless it carries no meaning *)
Lemma seg_id_ok (sd m h : pkt) i :
  p_v6 h = p_v6 sd -> p_id h = p_id sd -> p_v6 m = p_v6 sd -> p_df m = p_df sd ->
  (p_v6 sd = true \/ p_df sd = true \/ p_id m = w16 (p_id sd + i)) ->
  p_v6 m = true \/ p_df m = true \/ p_id m = seg_id h i.
Proof.
  intros Hv Hi Hmv Hmd [H|[H|H]].
  - left. congruence.
  - right. left. congruence.
  - destruct (p_v6 sd) eqn:E; [left; congruence|].
    right. right. unfold seg_id. rewrite Hv, Hi. exact H.
Qed.

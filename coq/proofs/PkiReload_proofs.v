(* Lemmas for C42 over model/PkiReload.v: the generated tables are total on what can occur and coincide with the
   documented rule (reflection over the finite feature space); one reload; all histories of reloads (induction). *)
From Coq Require Import List NArith Bool Lia.
Import ListNotations.
From NV Require Import lib.Corr lib.ConnMgr_lib lib.PkiReload_lib gen.Tab_PkiReload model.PkiReload.
Open Scope N_scope.

(* ---- reflection over the tables ---------------------------------------------------------------- *)

Definition ptab_forall (Q : prow -> pout -> bool) : bool := forallb (fun x => Q (fst x) (snd x)) tab_reload.
Definition catab_forall (Q : carow -> pout -> bool) : bool := forallb (fun x => Q (fst x) (snd x)) tab_ca.

Lemma ptab_forall_spec Q : ptab_forall Q = true -> forall r o, plookup r = Some o -> Q r o = true.
Proof.
  intros H r o L. unfold plookup in L. apply (passoc_in _ prow_eqb_eq) in L.
  unfold ptab_forall in H. rewrite forallb_forall in H. exact (H _ L).
Qed.

Lemma catab_forall_spec Q : catab_forall Q = true -> forall r o, ca_lookup r = Some o -> Q r o = true.
Proof.
  intros H r o L. unfold ca_lookup in L. apply (passoc_in _ carow_eqb_eq) in L.
  unfold catab_forall in H. rewrite forallb_forall in H. exact (H _ L).
Qed.

Lemma tab_rule_b : ptab_forall (fun r o => pout_eqb o (if rule r then PNew else PKeep)) = true.
Proof. vm_compute. reflexivity. Qed.

Lemma tab_total_b : prows_all (fun r => eqb (pfeasible r) (p_is_some (plookup r))) = true.
Proof. vm_compute. reflexivity. Qed.

Lemma catab_rule_b : catab_forall (fun r o => pout_eqb o (if ca_rule r then PNew else PKeep)) = true.
Proof. vm_compute. reflexivity. Qed.

Lemma catab_total_b : carows_all (fun r => eqb (ca_feasible r) (p_is_some (ca_lookup r))) = true.
Proof. vm_compute. reflexivity. Qed.

Lemma situations_per_row : 3 <= tab_reload_situations_per_row.
Proof. vm_compute. discriminate. Qed.

(* the table is the documented rule *)
Lemma plookup_rule r o : plookup r = Some o -> o = if rule r then PNew else PKeep.
Proof. intros L. apply pout_eqb_eq. exact (ptab_forall_spec _ tab_rule_b r o L). Qed.

Lemma ca_lookup_rule r o : ca_lookup r = Some o -> o = if ca_rule r then PNew else PKeep.
Proof. intros L. apply pout_eqb_eq. exact (catab_forall_spec _ catab_rule_b r o L). Qed.

(* ... and answers exactly the feature combinations that can occur *)
Lemma table_total r : pfeasible r = true <-> exists o, plookup r = Some o.
Proof.
  pose proof (prows_all_spec _ tab_total_b r) as H. cbv beta in H. apply eqb_prop in H. rewrite H.
  destruct (plookup r) as [o|]; simpl; split; intros E; try discriminate; try (now exists o); try reflexivity.
  destruct E as [o E]. discriminate.
Qed.

Lemma ca_table_total r : ca_feasible r = true <-> exists o, ca_lookup r = Some o.
Proof.
  pose proof (carows_all_spec _ catab_total_b r) as H. cbv beta in H. apply eqb_prop in H. rewrite H.
  destruct (ca_lookup r) as [o|]; simpl; split; intros E; try discriminate; try (now exists o); try reflexivity.
  destruct E as [o E]. discriminate.
Qed.

Lemma plookup_feasible r : pfeasible r = true -> plookup r = Some (if rule r then PNew else PKeep).
Proof. intros F. apply table_total in F as [o L]. rewrite L. f_equal. now apply plookup_rule. Qed.

Lemma ca_lookup_feasible r : ca_feasible r = true -> ca_lookup r = Some (if ca_rule r then PNew else PKeep).
Proof. intros F. apply ca_table_total in F as [o L]. rewrite L. f_equal. now apply ca_lookup_rule. Qed.

(* ---- small facts about the comparisons ----------------------------------------------------------- *)

Lemma nets_same_eq a b : nets_same a b = true -> k_nets a = k_nets b.
Proof. unfold nets_same. apply nlist_eqb_eq. Qed.

Lemma nets_same_refl a : nets_same a a = true.
Proof. unfold nets_same. now apply nlist_eqb_eq. Qed.

Lemma optN_eqb_eq a b : optN_eqb a b = true <-> a = b.
Proof.
  destruct a as [x|], b as [y|]; simpl; split; intros H; try discriminate; try reflexivity.
  - apply N.eqb_eq in H. now subst.
  - inversion H. apply N.eqb_refl.
Qed.

Lemma nlist_eqb_refl l : nlist_eqb l l = true.
Proof. now apply nlist_eqb_eq. Qed.

Lemma optN_eqb_refl a : optN_eqb a a = true.
Proof. now apply optN_eqb_eq. Qed.

Lemma pair_ok_spec a b : pair_ok a b = true <-> k_pub a = k_pub b /\ k_curve a = k_curve b /\ prim a = prim b.
Proof. unfold pair_ok. rewrite !andb_true_iff, !N.eqb_eq, optN_eqb_eq. tauto. Qed.

Lemma prim_same a b : nets_same a b = true -> prim a = prim b.
Proof. intros H. unfold prim. now rewrite (nets_same_eq _ _ H). Qed.

(* both versions kept with unchanged networks, the key pairing with both: the new pair agrees because the old did *)
Lemma pair_from_old a b a' b' kc kp :
  pair_ok a b = true -> nets_same a a' = true -> nets_same b b' = true ->
  (k_curve a' =? kc) && (k_pub a' =? kp) = true -> (k_curve b' =? kc) && (k_pub b' =? kp) = true ->
  pair_ok a' b' = true.
Proof.
  intros P Ha Hb Ka Kb. apply pair_ok_spec in P as (_ & _ & Pp).
  apply andb_true_iff in Ka as [Ka1 Ka2]. apply andb_true_iff in Kb as [Kb1 Kb2].
  apply N.eqb_eq in Ka1, Ka2, Kb1, Kb2. apply pair_ok_spec. repeat split; try congruence.
  rewrite <- (prim_same _ _ Ha), <- (prim_same _ _ Hb). exact Pp.
Qed.

(* ---- the features of anything that can happen are in the table --------------------------------- *)

Lemma features_feasible_initial c : pfeasible (features None c) = true.
Proof.
  destruct c as [[n1|] [n2|] kc kp le]; unfold pfeasible, features, all_new, cross, both, opt_all, has;
    cbn [f_o1 f_o2 f_n1 f_n2 f_lerr f_kmatch f_npair f_v1eq f_v2eq f_xeq f_ceq n_v1 n_v2 n_lerr n_kcurve n_kpub negb andb orb implb];
    rewrite ?orb_true_r, ?andb_true_r; try reflexivity;
    repeat match goal with |- context [implb ?x true] => rewrite (implb_true_r x) end; reflexivity.
Qed.

Lemma features_feasible s c : inv_b s = true -> pfeasible (features (Some s) c) = true.
Proof.
  intros I. destruct s as [o1 o2 sk], c as [n1 n2 kc kp le].
  unfold inv_b in I. cbn [s_v1 s_v2 s_kpub] in I.
  apply andb_true_iff in I as [I I4]. apply andb_true_iff in I as [I I3]. apply andb_true_iff in I as [I1 I2].
  destruct o1 as [o1|], o2 as [o2|]; try discriminate I1;
  destruct n1 as [n1|], n2 as [n2|];
    unfold pfeasible, features, all_new, cross, both, opt_all, has;
    cbn [f_o1 f_o2 f_n1 f_n2 f_lerr f_kmatch f_npair f_v1eq f_v2eq f_xeq f_ceq n_v1 n_v2 n_lerr n_kcurve n_kpub
         s_v1 s_v2 negb andb orb implb];
    rewrite ?orb_true_r, ?andb_true_r;
    repeat match goal with |- context [implb ?x true] => rewrite (implb_true_r x) end;
    try reflexivity.
  (* both versions in use, both in the new files *)
  cbn [both] in I2.
  destruct (nets_same o1 n1) eqn:E1; [|reflexivity].
  destruct (nets_same o2 n2) eqn:E2; [|reflexivity].
  destruct ((k_curve n1 =? kc) && (k_pub n1 =? kp)) eqn:K1; [|reflexivity].
  destruct ((k_curve n2 =? kc) && (k_pub n2 =? kp)) eqn:K2; [|reflexivity].
  rewrite (pair_from_old o1 o2 n1 n2 kc kp I2 E1 E2 K1 K2). reflexivity.
Qed.

Lemma ca_features_feasible c : ca_feasible (ca_features c) = true.
Proof. unfold ca_features, ca_feasible. destruct (ca_kind c =? 0); reflexivity. Qed.

(* ---- one certificate reload ------------------------------------------------------------------------ *)

Lemma reload_certs_defined s c : inv_b s = true ->
  reload_certs s c = Some (if rule (features (Some s) c) then state_of c else s).
Proof.
  intros I. unfold reload_certs. rewrite (plookup_feasible _ (features_feasible s c I)).
  destruct (rule (features (Some s) c)); reflexivity.
Qed.

Lemma reload_certs_cases s c s' : reload_certs s c = Some s' ->
  (rule (features (Some s) c) = false /\ accepted s c = false /\ s' = s) \/
  (rule (features (Some s) c) = true /\ accepted s c = true /\ s' = state_of c).
Proof.
  unfold reload_certs, accepted. destruct (plookup (features (Some s) c)) as [o|] eqn:L; [|discriminate].
  pose proof (plookup_rule _ _ L) as R. destruct (rule (features (Some s) c)); subst o; intros H; inversion H; auto.
Qed.

Lemma accepted_rule s c : accepted s c = true -> rule (features (Some s) c) = true.
Proof.
  unfold accepted. destruct (plookup (features (Some s) c)) as [o|] eqn:L; [|discriminate].
  pose proof (plookup_rule _ _ L) as R. destruct (rule (features (Some s) c)); subst o; [reflexivity|discriminate].
Qed.

Lemma start_certs_cases c r : start_certs c = Some r ->
  (rule (features None c) = false /\ r = None) \/ (rule (features None c) = true /\ r = Some (state_of c)).
Proof.
  unfold start_certs. destruct (plookup (features None c)) as [o|] eqn:L; [|discriminate].
  pose proof (plookup_rule _ _ L) as R. destruct (rule (features None c)); subst o; intros H; inversion H; auto.
Qed.

Lemma start_certs_defined c : exists r, start_certs c = Some r.
Proof.
  unfold start_certs. rewrite (plookup_feasible _ (features_feasible_initial c)).
  destruct (rule (features None c)); eauto.
Qed.

Lemma rule_spec r : rule r = true ->
  f_lerr r = false /\ f_kmatch r = true /\ f_npair r = true /\ f_v1eq r = true /\ f_v2eq r = true /\
  f_xeq r = true /\ f_ceq r = true.
Proof.
  unfold rule. rewrite !andb_true_iff, negb_true_iff. tauto.
Qed.

(* new files that pass the rule describe a state whose certificates agree with each other and with the key *)
Lemma rule_inv old c : rule (features old c) = true -> inv_b (state_of c) = true.
Proof.
  intros R. apply rule_spec in R as (Rl & Rk & Rp & _). destruct c as [n1 n2 kc kp le].
  unfold features in *. cbn [f_lerr f_kmatch f_npair f_v1eq f_v2eq f_xeq f_ceq n_v1 n_v2 n_lerr n_kcurve n_kpub] in *.
  unfold inv_b, state_of. cbn [s_v1 s_v2 s_kpub n_v1 n_v2 n_kpub].
  apply orb_false_iff in Rl as [_ Rn].
  unfold all_new in Rk. cbn [n_v1 n_v2] in Rk. apply andb_true_iff in Rk as [K1 K2].
  rewrite Rp.
  assert (H1 : opt_all (fun k => k_pub k =? kp) n1 = true).
  { destruct n1 as [a|]; [|reflexivity]. cbn [opt_all] in *. now apply andb_true_iff in K1 as [_ K1]. }
  assert (H2 : opt_all (fun k => k_pub k =? kp) n2 = true).
  { destruct n2 as [a|]; [|reflexivity]. cbn [opt_all] in *. now apply andb_true_iff in K2 as [_ K2]. }
  rewrite H1, H2. destruct n1, n2; try reflexivity. discriminate Rn.
Qed.

(* what an accepted reload does to the identity *)
Lemma rule_identity s c : inv_b s = true -> rule (features (Some s) c) = true ->
  id_step_b s (st_nets s) (state_of c) (st_nets (state_of c)) = true.
Proof.
  intros I R. apply rule_spec in R as (Rl & _ & Rp & R1 & R2 & Rx & Rc). destruct s as [o1 o2 sk], c as [n1 n2 kc kp le].
  unfold features in *.
  cbn [f_lerr f_kmatch f_npair f_v1eq f_v2eq f_xeq f_ceq n_v1 n_v2 n_lerr n_kcurve n_kpub s_v1 s_v2] in *.
  apply orb_false_iff in Rl as [_ Rn].
  unfold all_new in Rc. cbn [n_v1 n_v2] in Rc. apply andb_true_iff in Rc as [C1 C2].
  unfold inv_b in I. cbn [s_v1 s_v2 s_kpub] in I.
  apply andb_true_iff in I as [I _]. apply andb_true_iff in I as [I _]. apply andb_true_iff in I as [I1 I2].
  unfold id_step_b, st_nets, st_curve, state_of, eff, added_v2, v2_drop_ok.
  cbn [s_v1 s_v2 s_kpub n_v1 n_v2 n_kpub].
  destruct o1 as [o1|], o2 as [o2|]; try discriminate I1;
  destruct n1 as [n1|], n2 as [n2|]; try discriminate Rn;
    unfold st_curve in C1, C2; cbn [opt_all both cross has s_v1 s_v2 negb andb orb] in *;
    repeat match goal with
    | H : nets_same ?a ?b = true |- _ => pose proof (nets_same_eq _ _ H); pose proof (prim_same _ _ H); clear H
    | H : (_ =? _) = true |- _ => apply N.eqb_eq in H
    | H : pair_ok _ _ = true |- _ => apply pair_ok_spec in H as (? & ? & ?)
    end;
    unfold prim, nets_same in *;
    repeat match goal with H : k_nets _ = k_nets _ |- _ => rewrite <- H in * end;
    repeat match goal with H : k_curve _ = k_curve _ |- _ => rewrite H in * end;
    repeat match goal with H : k_curve _ = _ |- _ => rewrite H in * end;
    rewrite ?N.eqb_refl, ?nlist_eqb_refl, ?optN_eqb_refl; cbn [andb orb];
    rewrite ?orb_true_r, ?andb_true_r;
    try reflexivity;
    try (apply optN_eqb_eq; congruence).
Qed.

(* The statements of property C33 (props/C33.v), proved from Wheel_proofs / Wheel_time, over all
   add/advance/purge histories from NewTimerWheel(min, max) with 0 < min, 0 <= max. *)
From Coq Require Import List ZArith Lia Bool Permutation.
Import ListNotations.
From NV Require Import model.Wheel lib.Wheel_lib proofs.Wheel_proofs proofs.Wheel_time.
Open Scope Z_scope.

Section C33.
Context {A : Type}.
Implicit Types (w : wheel A) (h : list (op A)).

Lemma items_init mn mx : items (@init A mn mx) = [].
Proof.
  unfold items, waiting, init. fields. cbn [app].
  induction (Z.to_nat (wheel_len mn mx)) as [|n IH]; cbn [repeat concat app]; auto.
Qed.

Lemma nticks_params w w' T : w_tick w = w_tick w' -> w_max w = w_max w' -> nticks w T = nticks w' T.
Proof. unfold nticks, clamp. intros -> ->. reflexivity. Qed.

Lemma reach_fields mn mx h :
  let w := exec h (@init A mn mx) in w_tick w = mn /\ w_max w = mx /\ w_len w = wheel_len mn mx.
Proof. intros w. unfold w. destruct (exec_fields h (@init A mn mx)) as (H1 & H2 & H3). rewrite H1, H2, H3. auto. Qed.

(* (3) slot_ok *)
Lemma c33_slot_ok mn mx h T : params_ok mn mx ->
  let w := exec h (@init A mn mx) in
  0 <= find_wheel w T < w_len w /\ Z.of_nat (length (w_slots w)) = w_len w /\ w_len w = wheel_len mn mx.
Proof.
  intros Hp w. pose proof (wf_exec h _ (wf_init mn mx Hp)) as Hwf. fold w in Hwf.
  destruct (find_wheel_ok w T Hwf) as [H _]. destruct (reach_fields mn mx h) as (_ & _ & Hl).
  split; [exact H|]. split; [apply Hwf|exact Hl].
Qed.

(* (1) exactly one of {returned, expired queue, a slot}: conservation of the multiset of items *)
Lemma c33_partition mn mx h : params_ok mn mx ->
  let w := exec h (@init A mn mx) in
  Permutation (adds h) (outs h (init mn mx) ++ w_exp w ++ waiting w).
Proof.
  intros Hp w. pose proof (exec_perm h _ (wf_init mn mx Hp)) as H.
  rewrite items_init in H. exact H.
Qed.

Lemma c33_never_twice mn mx h : params_ok mn mx -> NoDup (adds h) ->
  let w := exec h (@init A mn mx) in
  NoDup (outs h (init mn mx) ++ w_exp w ++ waiting w).
Proof. intros Hp Hnd w. eapply Permutation_NoDup; [apply c33_partition; exact Hp|exact Hnd]. Qed.

(* (1) every item is returned, exactly once, by any continuation that advances far enough and purges:
   two Advances at least wheelLen + 1 ticks apart (whatever the clock did before), then at least as many
   Purges as items were added. No hypothesis on the clock. *)
Lemma c33_all_returned mn mx h a b m : params_ok mn mx ->
  a + (wheel_len mn mx + 1) * mn <= b -> (length (adds h) <= m)%nat ->
  Permutation (adds h) (outs (h ++ OAdvance a :: OAdvance b :: repeat OPurge m) (init mn mx)).
Proof.
  intros Hp Hab Hm. set (W0 := @init A mn mx).
  pose proof (wf_exec h _ (wf_init mn mx Hp)) as Hwf1. fold W0 in Hwf1.
  destruct (reach_fields mn mx h) as (Ht1 & _ & Hl1). fold W0 in Ht1, Hl1.
  set (w1 := exec h W0) in *.
  destruct (advance_last_near w1 a Hwf1) as (t & Hlast & Hnear).
  pose proof (wf_advance a w1 Hwf1) as Hwf2. set (w2 := advance a w1) in *.
  destruct (step_fields (OAdvance a) w1) as (Ht2 & _ & Hl2). cbn [step] in Ht2, Hl2. fold w2 in Ht2, Hl2.
  assert (Hflush : waiting (advance b w2) = []).
  { apply (advance_flush_all w2 t b Hwf2 Hlast). rewrite Hl2, Ht2, Hl1, Ht1.
    pose proof (wf_len_ge2 w1 Hwf1). destruct Hp. nia. }
  set (w3 := advance b w2) in *.
  set (h' := h ++ [OAdvance a; OAdvance b]).
  assert (Eh : h ++ OAdvance a :: OAdvance b :: repeat OPurge m = h' ++ repeat OPurge m)
    by (unfold h'; rewrite <- app_assoc; reflexivity).
  assert (Ew3 : exec h' W0 = w3) by (unfold h'; rewrite exec_app; reflexivity).
  pose proof (c33_partition mn mx h' Hp) as Hpart. cbn zeta in Hpart. fold W0 in Hpart.
  rewrite Ew3, Hflush, app_nil_r in Hpart.
  assert (Ea : adds h' = adds h) by (unfold h'; rewrite adds_app; cbn [adds]; apply app_nil_r).
  rewrite Ea in Hpart.
  assert (Hlen : (length (w_exp w3) <= m)%nat).
  { apply Permutation_length in Hpart. rewrite app_length in Hpart. lia. }
  destruct (drain m w3 Hlen) as (Hd & _).
  rewrite Eh, outs_app, Ew3, Hd. exact Hpart.
Qed.

(* ---- (2) on time ---------------------------------------------------------------------------------- *)

Lemma all_or_ex (l : list Z) F : (forall now, In now l -> now < F) \/ (exists now, In now l /\ F <= now).
Proof.
  induction l as [|a l [IH|(n & Hn & Hle)]].
  - left. intros ? [].
  - destruct (Z_lt_le_dec a F); [left|right].
    + intros now [<-|H]; auto.
    + exists a. split; [left; reflexivity|assumption].
  - right. exists n. split; [right|]; assumption.
Qed.

(* exact firing instant, from a reachable state with lastTick = t:  t + (n + 1) * tick *)
Lemma c33_fire_exact mn mx h1 x T h2 t : params_ok mn mx ->
  let w1 := exec h1 (@init A mn mx) in
  let h := h1 ++ OAdd x T :: h2 in
  let w := exec h (init mn mx) in
  let n := nticks (@init A mn mx) T in
  w_last w1 = Some t -> adv_ok (add x T w1) h2 -> NoDup (adds h) ->
  (In x (waiting w) <-> forall now, In now (nows h2) -> now < t + (n + 1) * mn) /\
  (In x (outs h (init mn mx) ++ w_exp w) <-> exists now, In now (nows h2) /\ t + (n + 1) * mn <= now).
Proof.
  intros Hp w1 h w n HL Hok Hnd.
  pose proof (wf_exec h1 _ (wf_init mn mx Hp)) as Hwf1. fold w1 in Hwf1.
  destruct (reach_fields mn mx h1) as (Ht1 & Hm1 & _). fold w1 in Ht1, Hm1.
  destruct (add_fires w1 t x T h2 Hwf1 HL Hok) as [F1 F2].
  rewrite (nticks_params w1 (@init A mn mx) T Ht1 Hm1), Ht1 in F1, F2. fold n in F1, F2.
  assert (Ew : w = exec h2 (add x T w1)) by (unfold w, h; rewrite exec_app; reflexivity).
  assert (Eo : outs h (init mn mx) = outs h1 (init mn mx) ++ outs h2 (add x T w1))
    by (unfold h; rewrite outs_app; reflexivity).
  pose proof (c33_never_twice mn mx h Hp Hnd) as ND. cbn zeta in ND. fold w in ND.
  rewrite <- Ew in F1, F2.
  assert (F2' : (exists now, In now (nows h2) /\ t + (n + 1) * mn <= now) -> In x (outs h (init mn mx) ++ w_exp w)).
  { intros Hex. specialize (F2 Hex). rewrite Eo, <- app_assoc. apply in_or_app. right. exact F2. }
  rewrite app_assoc in ND.
  split; split; auto.
  - intros Hin. destruct (all_or_ex (nows h2) (t + (n + 1) * mn)) as [Hall|Hex]; [exact Hall|].
    exfalso. exact (NoDup_app_disjoint _ _ x ND (F2' Hex) Hin).
  - intros Hin. destruct (all_or_ex (nows h2) (t + (n + 1) * mn)) as [Hall|Hex]; [|exact Hex].
    exfalso. exact (NoDup_app_disjoint _ _ x ND Hin (F1 Hall)).
Qed.

(* On time, in terms of what the caller sees: the wheel was advanced to instant c, then (after any Adds and
   Purges) x is added with timeout T.  The clock may step back by less than j (1 <= j <= tick; j = 1: never
   steps back).  n = ticks of the clamped timeout, rounded up. *)
Lemma c33_on_time mn mx j h0 c hq x T h2 : params_ok mn mx -> 1 <= j <= mn ->
  let h := h0 ++ OAdvance c :: hq ++ OAdd x T :: h2 in
  let w := exec h (@init A mn mx) in
  let n := nticks (@init A mn mx) T in
  clock_ok j None h -> nows hq = [] -> NoDup (adds h) ->
  ((forall now, In now (nows h2) -> now <= c + n * mn) ->
     In x (waiting w) /\ ~ In x (outs h (init mn mx)) /\ ~ In x (w_exp w)) /\
  ((exists now, In now (nows h2) /\ c + (n + 1) * mn + (j - 1) <= now) ->
     In x (outs h (init mn mx) ++ w_exp w) /\ ~ In x (waiting w)).
Proof.
  intros Hp Hj h w n Hclk Hq Hnd. set (W0 := @init A mn mx) in *.
  (* split the clock hypothesis *)
  unfold h in Hclk. apply clock_ok_app in Hclk. destruct Hclk as [Hk0 Hk1].
  cbn [clock_ok] in Hk1. destruct Hk1 as [Hkc Hk2].
  apply clock_ok_app in Hk2. destruct Hk2 as [_ Hk2]. rewrite (no_adv_clock hq Hq) in Hk2. cbn [clock_ok] in Hk2.
  set (m1 := clock_end None h0) in *. set (m2 := clock_max m1 c) in *.
  (* state after h0 *)
  pose proof (wf_init mn mx Hp : wf W0) as Hwf0.
  assert (Ht0 : w_tick W0 = mn) by reflexivity.
  destruct (clock_adv_ok j h0 W0 None Hwf0 ltac:(rewrite Ht0; exact Hj) I Hk0) as [_ Hinv1]. fold m1 in Hinv1.
  pose proof (wf_exec h0 W0 Hwf0) as Hwf1.
  destruct (reach_fields mn mx h0) as (Ht1 & Hm1 & _). fold W0 in Ht1, Hm1.
  set (w1 := exec h0 W0) in *.
  (* Advance c *)
  destruct (advance_clock j w1 m1 c Hwf1 ltac:(rewrite Ht1; exact Hj) Hinv1 Hkc) as (_ & Hinv2 & t & HL2 & Htc1 & Htc2).
  fold m2 in Hinv2. rewrite Ht1 in Htc2.
  pose proof (wf_advance c w1 Hwf1) as Hwf2. set (w2 := advance c w1) in *.
  (* Adds and Purges *)
  destruct (no_adv_state hq Hq w2) as [HL3 _]. rewrite HL2 in HL3.
  pose proof (wf_exec hq w2 Hwf2) as Hwf3. set (w3 := exec hq w2) in *.
  assert (Ew3 : w3 = exec (h0 ++ OAdvance c :: hq) W0) by (rewrite exec_app; reflexivity).
  destruct (reach_fields mn mx (h0 ++ OAdvance c :: hq)) as (Ht3 & Hm3 & _). fold W0 in Ht3, Hm3. rewrite <- Ew3 in Ht3, Hm3.
  assert (Hinv4 : cinv (add x T w3) m2).
  { unfold cinv in *. change (w_last (add x T w3)) with (w_last w3). rewrite HL3. rewrite HL2 in Hinv2. exact Hinv2. }
  destruct (clock_adv_ok j h2 (add x T w3) m2 (wf_add x T w3 Hwf3) ltac:(change (w_tick (add x T w3)) with (w_tick w3); rewrite Ht3; exact Hj) Hinv4 Hk2)
    as [Hok _].
  (* the exact firing instant *)
  assert (Eh : h = (h0 ++ OAdvance c :: hq) ++ OAdd x T :: h2) by (unfold h; rewrite <- app_assoc; reflexivity).
  pose proof (c33_fire_exact mn mx (h0 ++ OAdvance c :: hq) x T h2 t Hp) as FE. cbn zeta in FE. fold W0 in FE.
  rewrite <- Ew3, <- Eh in FE. fold w n in FE.
  specialize (FE HL3 Hok Hnd). destruct FE as [FE1 FE2].
  pose proof (c33_never_twice mn mx h Hp Hnd) as ND. cbn zeta in ND. fold W0 w in ND.
  destruct Hp as [Hmn _].
  split.
  - intros Hall. assert (Hin : In x (waiting w)) by (apply FE1; intros now Hn; specialize (Hall now Hn); nia).
    split; [exact Hin|]. split; intros Hbad.
    + eapply (NoDup_app_disjoint _ _ x ND Hbad). apply in_or_app. right. exact Hin.
    + apply NoDup_app_r in ND. exact (NoDup_app_disjoint _ _ x ND Hbad Hin).
  - intros (now & Hn & Hle). assert (Hin : In x (outs h W0 ++ w_exp w)) by (apply FE2; exists now; split; [exact Hn|nia]).
    split; [exact Hin|]. intros Hbad. rewrite app_assoc in ND. exact (NoDup_app_disjoint _ _ x ND Hin Hbad).
Qed.

(* the clock never steps back: at most ONE tick late *)
Lemma c33_on_time_mono mn mx h0 c hq x T h2 : params_ok mn mx ->
  let h := h0 ++ OAdvance c :: hq ++ OAdd x T :: h2 in
  let w := exec h (@init A mn mx) in
  let n := nticks (@init A mn mx) T in
  clock_ok 1 None h -> nows hq = [] -> NoDup (adds h) ->
  ((forall now, In now (nows h2) -> now <= c + n * mn) ->
     In x (waiting w) /\ ~ In x (outs h (init mn mx)) /\ ~ In x (w_exp w)) /\
  ((exists now, In now (nows h2) /\ c + (n + 1) * mn <= now) ->
     In x (outs h (init mn mx) ++ w_exp w) /\ ~ In x (waiting w)).
Proof.
  intros Hp h w n Hclk Hq Hnd.
  destruct (c33_on_time mn mx 1 h0 c hq x T h2 Hp ltac:(destruct Hp; lia) Hclk Hq Hnd) as [H1 H2].
  split; [exact H1|]. intros (now & Hn & Hle). apply H2. exists now. split; [exact Hn|]. fold n. lia.
Qed.

(* the clock may step back by less than one tick: at most TWO ticks late *)
Lemma c33_on_time_jitter mn mx h0 c hq x T h2 : params_ok mn mx ->
  let h := h0 ++ OAdvance c :: hq ++ OAdd x T :: h2 in
  let w := exec h (@init A mn mx) in
  let n := nticks (@init A mn mx) T in
  clock_ok mn None h -> nows hq = [] -> NoDup (adds h) ->
  ((forall now, In now (nows h2) -> now <= c + n * mn) ->
     In x (waiting w) /\ ~ In x (outs h (init mn mx)) /\ ~ In x (w_exp w)) /\
  ((exists now, In now (nows h2) /\ c + (n + 2) * mn <= now) ->
     In x (outs h (init mn mx) ++ w_exp w) /\ ~ In x (waiting w)).
Proof.
  intros Hp h w n Hclk Hq Hnd.
  destruct (c33_on_time mn mx mn h0 c hq x T h2 Hp ltac:(destruct Hp; lia) Hclk Hq Hnd) as [H1 H2].
  split; [exact H1|]. intros (now & Hn & Hle). apply H2. exists now. split; [exact Hn|]. fold n. lia.
Qed.

(* the clamped timeout in ticks, rounded up: n * tick is the documented "timeout rounded up to the tick,
   capped by the span" whenever the span is at least one tick *)
Lemma c33_roundup mn mx T : params_ok mn mx ->
  let w := @init A mn mx in
  let n := nticks w T in
  0 <= n <= wheel_len mn mx - 1 /\
  clamp w T <= n * mn /\ (1 <= mx -> n * mn < clamp w T + mn) /\
  (mn <= mx -> clamp w T = Z.max mn (Z.min T mx)).
Proof.
  intros Hp w n. pose proof (wf_init mn mx Hp : wf w) as Hwf.
  split; [exact (nticks_range w T Hwf)|]. split; [exact (nticks_ge w T Hwf)|]. split.
  - intros Hmx. apply (nticks_lt w T Hwf). apply clamp_pos; [exact Hwf|exact Hmx].
  - intros Hle. change (w_tick w) with mn in *. change (w_max w) with mx in *.
    destruct (clamp_cases w T) as [(H1 & ->)|[(H1 & H2 & ->)|(H1 & ->)]];
      change (w_tick w) with mn in *; change (w_max w) with mx in *; lia.
Qed.

End C33.

(* every history is the erasure of a labelled history (the k-th Add tagged k), to which the NoDup
   statements apply; Purge outputs, clocks and instants are those of the labelled run with tags dropped *)
Lemma label_clock {A} j (h : list (op A)) : forall i m, clock_ok j m (label i h) <-> clock_ok j m h.
Proof.
  induction h as [|[v T|now|] h IH]; intros i m; cbn [label clock_ok]; try tauto; try apply IH.
  rewrite IH. tauto.
Qed.

Lemma c33_labelled {A} mn mx (h : list (op A)) :
  let hl := label 0 h in
  NoDup (adds hl) /\ nows hl = nows h /\ (forall j m, clock_ok j m hl <-> clock_ok j m h) /\
  outs h (init mn mx) = map snd (outs hl (init mn mx)) /\
  exec h (init mn mx) = map_wheel snd (exec hl (init mn mx)).
Proof.
  intros hl. split; [apply label_NoDup|]. split; [apply label_nows|]. split; [intros; apply label_clock|].
  pose proof (label_erase h 0) as E. fold hl in E.
  split.
  - rewrite <- (outs_map (@snd nat A) hl (init mn mx)), map_wheel_init, E. reflexivity.
  - rewrite <- (exec_map (@snd nat A) hl (init mn mx)), map_wheel_init, E. reflexivity.
Qed.

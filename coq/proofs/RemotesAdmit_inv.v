(* The admission invariant of every RemoteList a lighthouse ever creates, over all histories of source updates
   under a fixed configuration: every address held (cached per owner, or already collected) passed the filter of
   its source; caps; blocked addresses are not returned. *)
From Coq Require Import List NArith Bool Lia Sorting.Permutation.
Import ListNotations.
From NV Require Import gen.Consts_RemoteList model.RemoteList model.RemotesAdmit
  proofs.RemoteList_order proofs.RemoteList_sort proofs.RemoteList_rebuild.
Open Scope N_scope.

(* ---- small facts ---- *)
Lemma unmap_idem a : unmap_addr (unmap_addr a) = unmap_addr a.
Proof.
  destruct a as [[|] v]; cbn [unmap_addr]; [reflexivity|].
  destruct (N.shiftr v 32 =? 65535) eqn:E; cbn [unmap_addr]; [reflexivity|]. now rewrite E.
Qed.

Definition eff (a : ap) : addr := unmap_addr (ap_addr a).
Definition plain (a : ap) : Prop := unmap_addr (ap_addr a) = ap_addr a.

Lemma of_v4_plain e : plain (of_v4 e).
Proof. reflexivity. Qed.

Lemma of_v6_plain e : plain (of_v6 e).
Proof. destruct e as [[hi lo] p]. unfold plain, of_v6, ap_addr. cbn [fst]. apply unmap_idem. Qed.

Lemma mem_addr_in a l : mem_addr a l = true <-> In a l.
Proof.
  unfold mem_addr. rewrite existsb_exists. split.
  - intros (x & Hx & E). apply addr_eqb_eq in E. now subst.
  - intros H. exists a. split; [assumption|apply addr_eqb_refl].
Qed.

Lemma firstn_In {A} (x : A) n l : In x (firstn n l) -> In x l.
Proof.
  revert l; induction n as [|n IH]; intros [|y r]; cbn [firstn In]; try tauto.
  intros [E|E]; [now left|right; now apply IH].
Qed.

Lemma firstn_le_cap {A} (l : list A) : (length (firstn cap l) <= cap)%nat.
Proof. apply firstn_le_length. Qed.

Lemma filter_length_le {A} (f : A -> bool) l : (length (filter f l) <= length l)%nat.
Proof. induction l as [|x r IH]; cbn [filter length]; [lia|]. destruct (f x); cbn [length]; lia. Qed.

Section Inv.
  Variable c : config.
  Notation adm := (adm c).
  Notation chk := (chk c).

  (* usable for a peer known under [peers]: the host the address designates is outside the node's own networks, allowed
     by the global allow list and by the inside allow list of one of the peer's overlay addresses *)
  Definition usable (peers : list addr) (a : addr) : Prop :=
    in_my c a = false /\ global_allow c a = true /\ exists v, In v peers /\ inside_allow c v a = true.

  Lemma usable_mono p q a : usable p a -> incl p q -> usable q a.
  Proof. intros (H1 & H2 & v & Hv & H3) I. repeat split; try assumption. exists v. split; [now apply I|assumption]. Qed.

  Lemma chk_usable vpn x : chk vpn x = true -> usable [vpn] (ap_addr x).
  Proof.
    unfold RemotesAdmit.chk, should_add_reported, ral_allow. rewrite !andb_true_iff, negb_true_iff.
    intros [[H1 H2] H3]. repeat split; try assumption. exists vpn. split; [now left|assumption].
  Qed.

  Lemma allow_all_usable vpns a : vpns <> [] -> in_my c a = false -> ral_allow_all c vpns a = true -> usable vpns a.
  Proof.
    unfold ral_allow_all. rewrite andb_true_iff, forallb_forall. intros Hne H1 [H2 H3].
    repeat split; try assumption. destruct vpns as [|v r]; [contradiction|]. exists v. split; [now left|]. apply H3. now left.
  Qed.

  Lemma adm_usable vpns a : vpns <> [] -> adm vpns a = true -> usable vpns a.
  Proof.
    unfold RemotesAdmit.adm, should_add. rewrite andb_true_iff, negb_true_iff. intros Hne [H1 H2]. now apply allow_all_usable.
  Qed.

  Definition ok_ap (peers : list addr) (a : ap) : Prop := usable peers (eff a).

  (* per-owner entry: every address it holds is usable, and it respects the caps *)
  Definition ok_oc (peers : list addr) (oc : ocache) : Prop :=
    (forall a, In a (oc_addrs oc) -> ok_ap peers a) /\
    (length (oc_r4 oc) <= cap)%nat /\ (length (oc_r6 oc) <= cap)%nat /\ (length (oc_relay oc) <= cap)%nat.

  Record inv_core (r : lrec) : Prop := mkInv {
    i_vpn_ne : rl_vpn (snd r) <> [];
    i_vpn_in : incl (rl_vpn (snd r)) (fst r);
    i_cache : forall e, In e (rl_cache (snd r)) -> ok_oc (fst r) (snd e);
    i_dns : forall a, In a (rl_dns (snd r)) -> plain a;
    i_addrs : forall a, In a (rl_addrs (snd r)) -> ok_ap (fst r) a;
    i_bad : rl_dirty (snd r) = true \/ forall a, In a (rl_addrs (snd r)) -> ~ In a (rl_bad (snd r)) }.

  Lemma ok_oc_empty p : ok_oc p oc_empty.
  Proof. split; [intros a []|]. cbn. lia. Qed.

  Lemma ok_oc_mono p q oc : ok_oc p oc -> incl p q -> ok_oc q oc.
  Proof. intros [H1 H2] I. split; [|exact H2]. intros a Ha. eapply usable_mono; [now apply H1|assumption]. Qed.

  Lemma inv_mono_core p q L : inv_core (p, L) -> incl p q -> inv_core (q, L).
  Proof.
    intros [A B C D E F] I. cbn [fst snd] in *. constructor; cbn [fst snd]; try assumption.
    - intros x Hx. apply I, B, Hx.
    - intros e He. eapply ok_oc_mono; [now apply C|assumption].
    - intros a Ha. eapply usable_mono; [now apply E|assumption].
  Qed.

  Lemma inv_new_core all : all <> [] -> inv_core (all, rl_new all).
  Proof.
    intros H. constructor; cbn; try assumption; try (intros ? []); try apply incl_refl.
    right. intros a [].
  Qed.

  Lemma cupd_ok p cch o f :
    (forall e, In e cch -> ok_oc p (snd e)) -> (forall oc, ok_oc p oc -> ok_oc p (f oc)) ->
    forall e, In e (cupd cch o f) -> ok_oc p (snd e).
  Proof.
    intros H Hf. induction cch as [|[k v] r IH]; cbn [cupd].
    - intros e [<-|[]]. cbn [snd]. apply Hf, ok_oc_empty.
    - destruct (addr_eqb k o).
      + intros e [<-|He]; [cbn [snd]; apply Hf, (H (k, v)); now left|apply H; now right].
      + intros e [<-|He]; [apply (H (k, v)); now left|]. apply IH; [|assumption]. intros e' He'. apply H. now right.
  Qed.

  (* what the collected list holds *)
  Lemma sources_ok_core r : inv_core r -> forall a, In a (sources adm (snd r)) -> ok_ap (fst r) a /\ ~ In a (rl_bad (snd r)).
  Proof.
    intros [A B C D E F] a Ha. unfold sources in Ha. apply collect_addrs_in in Ha. destruct Ha as [[(e & He & Hx)|[Hd Hadm]] Hb].
    - split; [|assumption]. now apply (proj1 (C e He)).
    - split; [|assumption]. unfold ok_ap, eff. rewrite (D a Hd).
      eapply usable_mono; [apply adm_usable; [exact A|exact Hadm]|exact B].
  Qed.

  Lemma inv_rebuild_core p L pref : inv_core (p, L) -> inv_core (p, rebuild adm pref L).
  Proof.
    intros I. pose proof (sources_ok_core _ I) as S. destruct I as [A B C D E F]. cbn [fst snd] in *.
    constructor; cbn [fst snd rebuild rl_vpn rl_cache rl_dns rl_addrs rl_bad rl_dirty]; try assumption.
    - intros a Ha. apply sort_addrs_in in Ha. destruct (rl_dirty L); [now apply S|now apply E].
    - right. intros a Ha. apply sort_addrs_in in Ha. destruct (rl_dirty L) eqn:Dd; [now apply S|].
      destruct F as [F|F]; [congruence|now apply F].
  Qed.

  (* which RemoteList operations the lighthouse issues, and what each needs in order to keep the invariant *)
  Definition rop_ok (p : list addr) (o : rop) : Prop :=
    match o with
    | RSet4 _ vpn _ | RSet6 _ vpn _ => In vpn p
    | RRelay _ _ | RBlock _ | RRebuild _ => True
    | RLearn _ a => plain a /\ usable p (ap_addr a)
    | RRefresh vpn => vpn <> [] /\ incl vpn p
    | RPre4 _ e => usable p (F4, fst e)
    | RPre6 _ e => plain (of_v6 e) /\ usable p (ap_addr (of_v6 e))
    | RDns l => forall a, In a l -> plain a
    | _ => False
    end.

  Ltac inv_cache I Hf :=
    let A := fresh "A" in let B := fresh "B" in let C := fresh "C" in let D := fresh "D" in
    let E := fresh "E" in let F := fresh "F" in
    destruct I as [A B C D E F]; cbn [fst snd] in *;
    constructor; cbn [fst snd with_cache rl_vpn rl_cache rl_dns rl_addrs rl_bad rl_dirty]; try assumption;
    [ apply cupd_ok; [exact C|exact Hf] | left; reflexivity ].

  Lemma in_oc_addrs a oc : In a (oc_addrs oc) <->
    In a (opt_list (oc_l4 oc)) \/ In a (oc_r4 oc) \/ In a (opt_list (oc_l6 oc)) \/ In a (oc_r6 oc).
  Proof. unfold oc_addrs. rewrite !in_app_iff. tauto. Qed.

  Lemma inv_rstep_core p L o : inv_core (p, L) -> rop_ok p o -> inv_core (p, rstep adm chk L o).
  Proof.
    intros I Hok. destruct o; cbn [rop_ok] in Hok; try contradiction; cbn [rstep].
    - (* RLearn *)
      destruct Hok as [Hp Hu]. destruct (is4 a) eqn:E4.
      + assert (Hf : forall oc, ok_oc p oc -> ok_oc p (mkOC (Some a) (oc_r4 oc) (oc_l6 oc) (oc_r6 oc) (oc_relay oc))).
        { intros oc [H1 H2]. split; [|exact H2]. intros x Hx. apply in_oc_addrs in Hx. cbn [oc_l4 oc_r4 oc_l6 oc_r6 opt_list In] in Hx.
          destruct Hx as [[<-|[]]|Hx]; [unfold ok_ap, eff; now rewrite Hp|].
          apply H1, in_oc_addrs. tauto. }
        inv_cache I Hf.
      + assert (Hf : forall oc, ok_oc p oc -> ok_oc p (mkOC (oc_l4 oc) (oc_r4 oc) (Some (unmap_addr (ap_addr a), ap_port a)) (oc_r6 oc) (oc_relay oc))).
        { intros oc [H1 H2]. split; [|exact H2]. intros x Hx. apply in_oc_addrs in Hx. cbn [oc_l4 oc_r4 oc_l6 oc_r6 opt_list In] in Hx.
          destruct Hx as [Hx|[Hx|[[<-|[]]|Hx]]]; try (apply H1, in_oc_addrs; tauto).
          unfold ok_ap, eff, ap_addr. cbn [fst]. rewrite unmap_idem. fold (ap_addr a). now rewrite Hp. }
        inv_cache I Hf.
    - (* RSet4 *)
      assert (Hf : forall oc, ok_oc p oc -> ok_oc p (mkOC (oc_l4 oc) (set_reported (chk vpn) (map of_v4 to)) (oc_l6 oc) (oc_r6 oc) (oc_relay oc))).
      { intros oc (H1 & H2 & H3 & H4). split.
        - intros x Hx. apply in_oc_addrs in Hx. cbn [oc_l4 oc_r4 oc_l6 oc_r6 opt_list In] in Hx.
          destruct Hx as [Hx|[Hx|Hx]]; try (apply H1, in_oc_addrs; tauto).
          unfold set_reported in Hx. apply filter_In in Hx. destruct Hx as [Hin Hc].
          apply firstn_In, in_map_iff in Hin. destruct Hin as (e & <- & _).
          unfold ok_ap, eff. rewrite (of_v4_plain e).
          eapply usable_mono; [apply (chk_usable vpn); exact Hc|]. intros y [<-|[]]. exact Hok.
        - cbn [oc_r4 oc_r6 oc_relay]. repeat split; try assumption. unfold set_reported.
          pose proof (filter_length_le (chk vpn) (firstn cap (map of_v4 to))); pose proof (firstn_le_cap (map of_v4 to)); lia. }
      inv_cache I Hf.
    - (* RSet6 *)
      assert (Hf : forall oc, ok_oc p oc -> ok_oc p (mkOC (oc_l4 oc) (oc_r4 oc) (oc_l6 oc) (set_reported (chk vpn) (map of_v6 to)) (oc_relay oc))).
      { intros oc (H1 & H2 & H3 & H4). split.
        - intros x Hx. apply in_oc_addrs in Hx. cbn [oc_l4 oc_r4 oc_l6 oc_r6 opt_list In] in Hx.
          destruct Hx as [Hx|[Hx|[Hx|Hx]]]; try (apply H1, in_oc_addrs; tauto).
          unfold set_reported in Hx. apply filter_In in Hx. destruct Hx as [Hin Hc].
          apply firstn_In, in_map_iff in Hin. destruct Hin as (e & <- & _).
          unfold ok_ap, eff. rewrite (of_v6_plain e).
          eapply usable_mono; [apply (chk_usable vpn); exact Hc|]. intros y [<-|[]]. exact Hok.
        - cbn [oc_r4 oc_r6 oc_relay]. repeat split; try assumption. unfold set_reported.
          pose proof (filter_length_le (chk vpn) (firstn cap (map of_v6 to))); pose proof (firstn_le_cap (map of_v6 to)); lia. }
      inv_cache I Hf.
    - (* RPre4 *)
      assert (Hf : forall oc, ok_oc p oc -> ok_oc p (mkOC (oc_l4 oc) (prepend_reported (of_v4 e) (oc_r4 oc)) (oc_l6 oc) (oc_r6 oc) (oc_relay oc))).
      { intros oc (H1 & H2 & H3 & H4). split.
        - intros x Hx. apply in_oc_addrs in Hx. cbn [oc_l4 oc_r4 oc_l6 oc_r6 opt_list In] in Hx.
          destruct Hx as [Hx|[Hx|Hx]]; try (apply H1, in_oc_addrs; tauto).
          unfold prepend_reported in Hx. apply firstn_In in Hx. destruct Hx as [<-|Hx]; [exact Hok|].
          apply H1, in_oc_addrs. tauto.
        - cbn [oc_r4 oc_r6 oc_relay]. repeat split; try assumption. apply firstn_le_cap. }
      inv_cache I Hf.
    - (* RPre6 *)
      destruct Hok as [Hp Hu].
      assert (Hf : forall oc, ok_oc p oc -> ok_oc p (mkOC (oc_l4 oc) (oc_r4 oc) (oc_l6 oc) (prepend_reported (of_v6 e) (oc_r6 oc)) (oc_relay oc))).
      { intros oc (H1 & H2 & H3 & H4). split.
        - intros x Hx. apply in_oc_addrs in Hx. cbn [oc_l4 oc_r4 oc_l6 oc_r6 opt_list In] in Hx.
          destruct Hx as [Hx|[Hx|[Hx|Hx]]]; try (apply H1, in_oc_addrs; tauto).
          unfold prepend_reported in Hx. apply firstn_In in Hx. destruct Hx as [<-|Hx].
          + unfold ok_ap, eff. now rewrite Hp.
          + apply H1, in_oc_addrs. tauto.
        - cbn [oc_r4 oc_r6 oc_relay]. repeat split; try assumption. apply firstn_le_cap. }
      inv_cache I Hf.
    - (* RRelay *)
      assert (Hf : forall oc, ok_oc p oc -> ok_oc p (mkOC (oc_l4 oc) (oc_r4 oc) (oc_l6 oc) (oc_r6 oc) (set_relay to))).
      { intros oc (H1 & H2 & H3 & H4). split; [exact H1|]. cbn [oc_r4 oc_r6 oc_relay]. repeat split; try assumption. apply firstn_le_cap. }
      inv_cache I Hf.
    - (* RBlock *)
      destruct (is_bad (rl_bad L) a); [exact I|].
      destruct I as [A B C D E F]. cbn [fst snd] in *. constructor; cbn [fst snd rl_vpn rl_cache rl_dns rl_addrs rl_bad rl_dirty]; try assumption.
      left; reflexivity.
    - (* RRefresh *)
      destruct Hok as [Hne Hin]. destruct I as [A B C D E F]. cbn [fst snd] in *.
      constructor; cbn [fst snd rl_vpn rl_cache rl_dns rl_addrs rl_bad rl_dirty]; try assumption. left; reflexivity.
    - (* RDns *)
      destruct I as [A B C D E F]. cbn [fst snd] in *.
      constructor; cbn [fst snd rl_vpn rl_cache rl_dns rl_addrs rl_bad rl_dirty]; try assumption. left; reflexivity.
    - (* RRebuild *) now apply inv_rebuild_core.
  Qed.

  Lemma inv_rrun_core ops : forall p L, inv_core (p, L) -> Forall (rop_ok p) ops -> inv_core (p, rrun adm chk L ops).
  Proof.
    induction ops as [|o r IH]; intros p L I H; cbn [rrun fold_left]; [exact I|].
    inversion H as [|? ? Ho Hr]; subst. apply (IH p (rstep adm chk L o)); [now apply inv_rstep_core|assumption].
  Qed.

  (* ---- consequences for one list ---- *)
  Lemma copy_ok_core r pref : inv_core r ->
    forall a, In a (copy_addrs adm pref (snd r)) -> ok_ap (fst r) a /\ ~ In a (rl_bad (snd r)).
  Proof.
    intros I a Ha. destruct r as [p L]. pose proof (inv_rebuild_core p L pref I) as I'.
    unfold copy_addrs in Ha. destruct I' as [A B C D E F]. cbn [fst snd] in *. split; [now apply E|].
    destruct F as [F|F]; [cbn in F; discriminate|]. apply F in Ha. exact Ha.
  Qed.

  (* the invariant: the admission facts above, and the cached list is dirty or current (C37) *)
  Definition inv_rec (r : lrec) : Prop := inv_core r /\ fresh adm (snd r).

  Lemma inv_mono p q L : inv_rec (p, L) -> incl p q -> inv_rec (q, L).
  Proof. intros [I F] H. split; [now apply (inv_mono_core p q L)|exact F]. Qed.

  Lemma inv_new all : all <> [] -> inv_rec (all, rl_new all).
  Proof. intros H. split; [now apply inv_new_core|cbn [snd]; apply (fresh_new adm chk)]. Qed.

  Lemma inv_rstep p L o : inv_rec (p, L) -> rop_ok p o -> inv_rec (p, rstep adm chk L o).
  Proof. intros [I F] H. cbn [snd] in *. split; [now apply inv_rstep_core|cbn [snd]; now apply rstep_fresh]. Qed.

  Lemma inv_rrun ops : forall p L, inv_rec (p, L) -> Forall (rop_ok p) ops -> inv_rec (p, rrun adm chk L ops).
  Proof. intros p L [I F] H. cbn [snd] in *. split; [now apply inv_rrun_core|cbn [snd]; now apply rrun_fresh]. Qed.

  Lemma copy_ok r pref : inv_rec r ->
    (forall a, In a (copy_addrs adm pref (snd r)) -> ok_ap (fst r) a /\ ~ In a (rl_bad (snd r))) /\
    copy_addrs adm pref (snd r) = sort_addrs pref (sources adm (snd r)).
  Proof. intros [I F]. split; [now apply copy_ok_core|]. now apply copy_fresh. Qed.
End Inv.

(* Histories: the simulation of proofs/Bits_sim.v lifted to every sequence of Check/Update
   operations, and the consequences stated by property C11. *)
From Coq Require Import List NArith ZArith Lia Bool.
Import ListNotations.
From NV Require Import lib.Bytes lib.Bits_lib model.Bits proofs.Bits_word proofs.Bits_sim.
Open Scope N_scope.

Lemma spec_update_fst L s i : fst (spec_update L s i) = spec_accept L s i.
Proof. unfold spec_update. destruct (spec_accept L s i); reflexivity. Qed.

Lemma step_sim L b s o :
  pow2 L -> R L b s -> in_range L (op_ctr o) = true ->
  fst (step_op b o) = fst (spec_step L s o) /\ R L (snd (step_op b o)) (snd (spec_step L s o)).
Proof.
  intros HL HR Hr. apply N.ltb_lt in Hr. destruct o as [i|i]; cbn [step_op spec_step fst snd op_ctr] in *.
  - split; [apply (check_sim L b s i HL HR)|exact HR].
  - apply update_sim; assumption.
Qed.

Lemma run_sim L : pow2 L -> forall ops b s,
  R L b s -> ops_in_range L ops = true ->
  fst (run_ops b ops) = fst (spec_run L s ops) /\ R L (snd (run_ops b ops)) (snd (spec_run L s ops)).
Proof.
  intros HL. induction ops as [|o r IH]; intros b s HR Hr.
  - cbn. split; [reflexivity|exact HR].
  - cbn [ops_in_range forallb] in Hr. apply andb_true_iff in Hr as [Ho Hrest].
    destruct (step_sim L b s o HL HR Ho) as [Ev HR1].
    cbn [run_ops spec_run].
    destruct (step_op b o) as [v b1]. destruct (spec_step L s o) as [v' s1]. cbn [fst snd] in *.
    specialize (IH b1 s1 HR1 Hrest).
    destruct (run_ops b1 r) as [vs b2]. destruct (spec_run L s1 r) as [vs' s2]. cbn [fst snd] in *.
    destruct IH as [E1 E2]. split; [congruence|exact E2].
Qed.

(* Check predicts Update and leaves the state alone *)
Lemma check_pure L b s i :
  pow2 L -> R L b s -> i < two64 - L ->
  check b i = fst (update b i) /\ check b i = spec_accept L s i /\ snd (step_op b (OCheck i)) = b.
Proof.
  intros HL HR Hi. destruct (update_sim L b s i HL HR Hi) as [E _].
  rewrite E, spec_update_fst. repeat split; apply (check_sim L b s i HL HR).
Qed.

(* in the specification a counter is accepted at most once, and never if already seen *)
Lemma spec_once L c : forall ops s,
  (accepted_count c ops (fst (spec_run L s ops)) <= (if seen s c then 0 else 1))%nat.
Proof.
  induction ops as [|o r IH]; intros s.
  - cbn. destruct (seen s c); lia.
  - cbn [spec_run]. destruct o as [i|i]; cbn [spec_step].
    + specialize (IH s). destruct (spec_run L s r) as [vs s2]. cbn [fst accepted_count] in *. exact IH.
    + unfold spec_update. destruct (spec_accept L s i) eqn:Ea.
      * specialize (IH (mkSpec (N.max (s_cur s) i) (i :: s_acc s))).
        rewrite seen_cons in IH.
        destruct (spec_run L _ r) as [vs s2]. cbn [fst accepted_count] in *.
        destruct (N.eqb_spec i c) as [->|Ni].
        -- rewrite N.eqb_refl in IH. cbn [orb andb] in *.
           unfold spec_accept in Ea. apply andb_true_iff in Ea as [Ea _].
           apply negb_true_iff in Ea. rewrite Ea. lia.
        -- destruct (N.eqb_spec c i); [congruence|]. cbn [orb andb] in *. exact IH.
      * specialize (IH s). destruct (spec_run L s r) as [vs s2]. cbn [fst accepted_count] in *.
        rewrite andb_false_r. exact IH.
Qed.

Lemma once L : pow2 L -> forall ops b s c,
  R L b s -> ops_in_range L ops = true ->
  (accepted_count c ops (fst (run_ops b ops)) <= 1)%nat.
Proof.
  intros HL ops b s c HR Hr. destruct (run_sim L HL ops b s HR Hr) as [E _]. rewrite E.
  pose proof (spec_once L c ops s). destruct (seen s c); lia.
Qed.

(* the specification's cursor is the highest accepted counter *)
Lemma spec_cur_max L : forall ops s,
  s_cur s = fold_right N.max 0 (s_acc s) ->
  s_cur (snd (spec_run L s ops)) = fold_right N.max 0 (s_acc (snd (spec_run L s ops))).
Proof.
  induction ops as [|o r IH]; intros s Hs; [exact Hs|].
  cbn [spec_run]. destruct o as [i|i]; cbn [spec_step].
  - specialize (IH s Hs). destruct (spec_run L s r). exact IH.
  - unfold spec_update. destruct (spec_accept L s i).
    + assert (Hs' : s_cur (mkSpec (N.max (s_cur s) i) (i :: s_acc s)) =
                    fold_right N.max 0 (s_acc (mkSpec (N.max (s_cur s) i) (i :: s_acc s)))).
      { cbn [s_cur s_acc fold_right]. rewrite <- Hs. apply N.max_comm. }
      specialize (IH _ Hs').
      destruct (spec_run L _ r). exact IH.
    + specialize (IH s Hs). destruct (spec_run L s r). exact IH.
Qed.

(* and its accepted set is exactly the set of counters of accepting Updates *)
Lemma spec_acc_exact L c : forall ops s,
  In c (s_acc (snd (spec_run L s ops))) <->
  In c (s_acc s) \/ (0 < accepted_count c ops (fst (spec_run L s ops)))%nat.
Proof.
  induction ops as [|o r IH]; intros s.
  - cbn. split; [auto|intros [H|H]; [exact H|lia]].
  - cbn [spec_run]. destruct o as [i|i]; cbn [spec_step].
    + specialize (IH s). destruct (spec_run L s r) as [vs s2]. cbn [fst snd accepted_count] in *. exact IH.
    + unfold spec_update. destruct (spec_accept L s i).
      * specialize (IH (mkSpec (N.max (s_cur s) i) (i :: s_acc s))).
        destruct (spec_run L _ r) as [vs s2]. cbn [fst snd accepted_count s_acc In] in *.
        rewrite IH. rewrite andb_true_r.
        destruct (N.eqb_spec i c); split; intros H; intuition (try congruence; try lia).
      * specialize (IH s). destruct (spec_run L s r) as [vs s2]. cbn [fst snd accepted_count] in *.
        rewrite andb_false_r. exact IH.
Qed.

(* Lemmas about model/AllowList.v (C38). *)
From Coq Require Import List NArith Bool Lia Permutation.
Import ListNotations.
From NV Require Import model.AllowList.
Open Scope N_scope.

(* ---- prefixes -------------------------------------------------------------------------------- *)

Lemma fam_eqb_eq a b : fam_eqb a b = true <-> a = b.
Proof. destruct a, b; simpl; split; congruence. Qed.

Lemma fam_eqb_refl a : fam_eqb a a = true.
Proof. now destruct a. Qed.

Lemma fam_eqb_neq a b : fam_eqb a b = false <-> a <> b.
Proof. destruct a, b; simpl; split; congruence. Qed.

Lemma contains_fam p x : contains p x = true -> pfam p = fst x.
Proof. unfold contains. intros H. apply andb_prop in H as [H _]. now apply fam_eqb_eq. Qed.

Lemma contains_same_bits p q x :
  contains p x = true -> contains q x = true -> pbits p = pbits q -> same_net p q = true.
Proof.
  unfold contains, same_net. intros Hp Hq Hb.
  apply andb_prop in Hp as [Fp Tp]. apply andb_prop in Hq as [Fq Tq].
  apply fam_eqb_eq in Fp. apply fam_eqb_eq in Fq. apply N.eqb_eq in Tp. apply N.eqb_eq in Tq.
  assert (Hf : pfam p = pfam q) by congruence.
  rewrite Hf, fam_eqb_refl, Hb, N.eqb_refl. cbn [andb]. apply N.eqb_eq.
  rewrite Hf, Hb in Tp. congruence.
Qed.

Lemma same_net_contains p q x : same_net p q = true -> contains p x = contains q x.
Proof.
  unfold same_net, contains. intros H.
  apply andb_prop in H as [H Ht]. apply andb_prop in H as [Hf Hb].
  apply fam_eqb_eq in Hf. apply N.eqb_eq in Hb. apply N.eqb_eq in Ht.
  rewrite <- Hf, <- Hb, Ht. reflexivity.
Qed.

Lemma contains_zero f a x : a < 2 ^ fbits f -> x < 2 ^ fbits f -> contains (f, a, 0) (f, x) = true.
Proof.
  intros Ha Hx. unfold contains, top. cbn [pfam pbits paddr fst snd].
  rewrite fam_eqb_refl, N.sub_0_r, !N.div_small by assumption. reflexivity.
Qed.

Lemma wf_addr_lt x : wf_addr x = true -> snd x < 2 ^ fbits (fst x).
Proof. unfold wf_addr. apply N.ltb_lt. Qed.

Lemma wf_prefix_lt p : wf_prefix p = true -> paddr p < 2 ^ fbits (pfam p) /\ pbits p <= fbits (pfam p).
Proof.
  unfold wf_prefix. intros H. apply andb_prop in H as [H1 H2].
  split; [now apply N.ltb_lt|now apply N.leb_le].
Qed.

(* a /0 of a family contains every address of the family *)
Lemma contains_default p x :
  wf_prefix p = true -> wf_addr x = true -> pbits p = 0 -> pfam p = fst x -> contains p x = true.
Proof.
  destruct p as [[f a] b], x as [g y]. cbn [pbits pfam fst snd]. intros Hp Hx -> ->.
  apply wf_prefix_lt in Hp as [Hp _]. apply wf_addr_lt in Hx. now apply contains_zero.
Qed.

Lemma unmap_wf x : wf_addr x = true -> wf_addr (unmap x) = true.
Proof.
  unfold unmap. destruct (is_mapped x); [|auto]. intros _.
  unfold wf_addr. cbn [fst snd fbits]. apply N.ltb_lt. apply N.mod_upper_bound. discriminate.
Qed.

Lemma unmap_v4 a : unmap (V4, a) = (V4, a).
Proof. reflexivity. Qed.

Lemma unmap_idem x : unmap (unmap x) = unmap x.
Proof. unfold unmap at 2 3. destruct (is_mapped x) eqn:E; [reflexivity|]. unfold unmap. now rewrite E. Qed.

Lemma norm_key_wf k p : norm_key k = Some p -> wf_prefix p = true.
Proof.
  unfold norm_key. destruct (wf_prefix k) eqn:W; [|discriminate].
  destruct (is_mapped _); [|intros E; injection E as <-; exact W].
  destruct (pbits k <? 96) eqn:B; [discriminate|]. intros E; injection E as <-.
  apply wf_prefix_lt in W as [_ W]. apply N.ltb_ge in B.
  unfold is_mapped in *. unfold wf_prefix. cbn [pfam paddr pbits fst snd fbits].
  apply andb_true_intro; split.
  - apply N.ltb_lt. apply N.mod_upper_bound. discriminate.
  - apply N.leb_le. assert (fbits (pfam k) <= 128) by (destruct (pfam k); cbn; lia). lia.
Qed.

(* ---- longest prefix match -------------------------------------------------------------------- *)

Definition most_specific {V : Type} (l : list (prefix * V)) (x : addr) (p : prefix) (v : V) : Prop :=
  In (p, v) l /\ contains p x = true /\
  forall q w, In (q, w) l -> contains q x = true -> pbits q <= pbits p.

(* entries for the same network carry the same value *)
Definition consistent {V : Type} (l : list (prefix * V)) : Prop :=
  forall p v q w, In (p, v) l -> In (q, w) l -> same_net p q = true -> v = w.

Lemma lpm_none {V : Type} (t : list (prefix * V)) x :
  lpm t x = None -> forall q w, In (q, w) t -> contains q x = false.
Proof.
  induction t as [|[p v] r IH]; cbn [lpm In]; intros H q w Hin; [contradiction|].
  destruct (contains p x) eqn:C.
  - destruct (lpm r x) as [[b w']|]; [destruct (pbits p <? b)|]; discriminate.
  - destruct Hin as [E|Hin]; [injection E as <- <-; exact C|eauto].
Qed.

Lemma lpm_some {V : Type} (t : list (prefix * V)) x b v :
  lpm t x = Some (b, v) -> exists p, most_specific t x p v /\ pbits p = b.
Proof.
  revert b v. induction t as [|[p v0] r IH]; cbn [lpm]; intros b v H; [discriminate|].
  destruct (contains p x) eqn:C.
  - destruct (lpm r x) as [[b' w']|] eqn:L.
    + destruct (IH _ _ eq_refl) as [p' [[Hin [Hc Hmax]] Hb]].
      destruct (pbits p <? b') eqn:Lt.
      * injection H as <- <-. exists p'. split; [|exact Hb]. split; [now right|]. split; [exact Hc|].
        intros q w [E|Hq] Hcq; [injection E as <- <-; apply N.ltb_lt in Lt; lia|eauto].
      * injection H as <- <-. exists p. split; [|reflexivity]. split; [now left|]. split; [exact C|].
        intros q w [E|Hq] Hcq; [injection E as <- <-; lia|].
        apply N.ltb_ge in Lt. specialize (Hmax _ _ Hq Hcq). lia.
    + injection H as <- <-. exists p. split; [|reflexivity]. split; [now left|]. split; [exact C|].
      intros q w [E|Hq] Hcq; [injection E as <- <-; lia|].
      rewrite (lpm_none _ _ L _ _ Hq) in Hcq. discriminate.
  - destruct (IH _ _ H) as [p' [[Hin [Hc Hmax]] Hb]].
    exists p'. split; [|exact Hb]. split; [now right|]. split; [exact Hc|].
    intros q w [E|Hq] Hcq; [injection E as <- <-; congruence|eauto].
Qed.

Lemma lpm_in {V : Type} (t : list (prefix * V)) x q w :
  In (q, w) t -> contains q x = true -> exists b v, lpm t x = Some (b, v).
Proof.
  intros Hin Hc. destruct (lpm t x) as [[b v]|] eqn:L; [eauto|].
  rewrite (lpm_none _ _ L _ _ Hin) in Hc. discriminate.
Qed.

(* under consistency the value of a most specific entry is unique *)
Lemma most_specific_unique {V : Type} (l : list (prefix * V)) x p v q w :
  consistent l -> most_specific l x p v -> most_specific l x q w -> v = w.
Proof.
  intros Hc [Hp [Cp Mp]] [Hq [Cq Mq]].
  apply (Hc p v q w Hp Hq). apply (contains_same_bits p q x Cp Cq).
  specialize (Mp _ _ Hq Cq). specialize (Mq _ _ Hp Cp). lia.
Qed.

(* either nothing contains x or there is a most specific entry *)
Lemma most_specific_dec {V : Type} (l : list (prefix * V)) x :
  (forall q w, In (q, w) l -> contains q x = false) \/ exists p v, most_specific l x p v.
Proof.
  destruct (lpm l x) as [[b v]|] eqn:L.
  - right. destruct (lpm_some _ _ _ _ L) as [p [H _]]. eauto.
  - left. exact (lpm_none _ _ L).
Qed.

Lemma most_specific_perm {V : Type} (l l' : list (prefix * V)) x p v :
  Permutation l l' -> most_specific l x p v -> most_specific l' x p v.
Proof.
  intros P [Hin [Hc Hm]]. split; [eapply Permutation_in; eauto|]. split; [exact Hc|].
  intros q w Hq. apply Hm with w. eapply Permutation_in; [apply Permutation_sym|]; eauto.
Qed.

Lemma consistent_perm {V : Type} (l l' : list (prefix * V)) :
  Permutation l l' -> consistent l -> consistent l'.
Proof.
  intros P H p v q w Hp Hq. apply H; (eapply Permutation_in; [apply Permutation_sym|]; eauto).
Qed.

(* ---- newAllowList: from the loop to a closed form --------------------------------------------- *)

Definition updf (f : fam) (r : rules) (e : prefix * bool) : rules :=
  if fam_eqb (pfam (fst e)) f then upd r (pbits (fst e)) (snd e) else r.

Lemma updf_same f r p v : pfam p = f -> updf f r (p, v) = upd r (pbits p) v.
Proof. intros <-. unfold updf. cbn [fst snd]. now rewrite fam_eqb_refl. Qed.

Lemma updf_other f r p v : pfam p <> f -> updf f r (p, v) = r.
Proof. intros H. unfold updf. cbn [fst snd]. apply fam_eqb_neq in H. now rewrite H. Qed.

Lemma build_eq es : forall t r4 r6,
  build es t r4 r6 =
  match norm_all es with
  | None => None
  | Some nes => Some (rev nes ++ t, fold_left (updf V4) nes r4, fold_left (updf V6) nes r6)
  end.
Proof.
  induction es as [|[k v] es IH]; intros t r4 r6; cbn [build norm_all]; [reflexivity|].
  destruct (norm_key k) as [p|] eqn:Hk; [|reflexivity].
  destruct (pfam p) eqn:Hf; rewrite IH; destruct (norm_all es) as [nes|]; try reflexivity;
    cbn [rev fold_left]; rewrite <- app_assoc; cbn [app].
  - rewrite (updf_same V4 r4 p v Hf), (updf_other V6 r6 p v) by (rewrite Hf; discriminate). reflexivity.
  - rewrite (updf_same V6 r6 p v Hf), (updf_other V4 r4 p v) by (rewrite Hf; discriminate). reflexivity.
Qed.

Definition upd' (r : rules) (e : prefix * bool) : rules := upd r (pbits (fst e)) (snd e).

Lemma fold_updf_filter f l : forall r, fold_left (updf f) l r = fold_left upd' (fent f l) r.
Proof.
  induction l as [|e l IH]; intros r; cbn [fold_left fent filter]; [reflexivity|].
  unfold updf at 2. destruct (fam_eqb (pfam (fst e)) f); cbn [fold_left]; apply IH.
Qed.

Lemma upd_nonfirst r b v : r_first r = false ->
  r_first (upd r b v) = false /\ r_all (upd r b v) = r_all r /\
  r_match (upd r b v) = r_match r && Bool.eqb v (r_all r) /\
  r_default (upd r b v) = r_default r || (b =? 0).
Proof.
  destruct r as [fi ma de al]. cbn. intros ->. unfold upd. cbn.
  destruct (b =? 0), (Bool.eqb v al), ma, de; cbn; auto.
Qed.

Lemma fold_upd_nonfirst l : forall r, r_first r = false ->
  r_first (fold_left upd' l r) = false /\ r_all (fold_left upd' l r) = r_all r /\
  r_match (fold_left upd' l r) = r_match r && forallb (fun e => Bool.eqb (snd e) (r_all r)) l /\
  r_default (fold_left upd' l r) = r_default r || existsb (fun e => pbits (fst e) =? 0) l.
Proof.
  induction l as [|e l IH]; intros r Hr; cbn [fold_left forallb existsb].
  - rewrite andb_true_r, orb_false_r. auto.
  - destruct (upd_nonfirst r (pbits (fst e)) (snd e) Hr) as [H1 [H2 [H3 H4]]].
    destruct (IH (upd' r e) H1) as [I1 [I2 [I3 I4]]]. unfold upd' in *.
    rewrite I1, I2, I3, I4, H2, H3, H4, andb_assoc, orb_assoc. auto.
Qed.

Lemma fold_upd_rules0 p0 v0 l :
  let R := fold_left upd' ((p0, v0) :: l) rules0 in
  r_all R = v0 /\ r_match R = forallb (fun e => Bool.eqb (snd e) v0) ((p0, v0) :: l) /\
  r_default R = existsb (fun e => pbits (fst e) =? 0) ((p0, v0) :: l).
Proof.
  cbn [fold_left]. set (r1 := upd' rules0 (p0, v0)).
  assert (H1 : r_first r1 = false /\ r_all r1 = v0 /\ r_match r1 = true /\ r_default r1 = (pbits p0 =? 0)).
  { unfold r1, upd', upd, rules0. cbn. destruct (pbits p0 =? 0); cbn; auto. }
  destruct H1 as [F [A [M D]]]. destruct (fold_upd_nonfirst l r1 F) as [_ [I2 [I3 I4]]].
  cbn [forallb existsb fst snd]. rewrite I2, I3, I4, A, M, D, Bool.eqb_reflx. auto.
Qed.

(* what the tail of newAllowList does for one family, in terms of the entries *)
Definition spec_finish (f : fam) (nes : list (prefix * bool)) (t : table) : option table :=
  if has_default f nes then Some t
  else if uniform f nes then Some (((f, 0, 0), fam_default nes f) :: t)
  else None.

Lemma finish_char f nes t :
  finish_fam f (fold_left (updf f) nes rules0) t = spec_finish f nes t.
Proof.
  rewrite fold_updf_filter. unfold finish_fam, spec_finish, has_default, uniform, fam_default.
  destruct (fent f nes) as [|[p0 v0] l] eqn:E; [reflexivity|].
  destruct (fold_upd_rules0 p0 v0 l) as [A [M D]]. rewrite A, M, D. reflexivity.
Qed.

Lemma new_char es :
  new_allow_list es =
  match norm_all es with
  | None => None
  | Some nes =>
      match spec_finish V4 nes (rev nes) with
      | None => None
      | Some t1 => spec_finish V6 nes t1
      end
  end.
Proof.
  unfold new_allow_list. rewrite build_eq. destruct (norm_all es) as [nes|]; [|reflexivity].
  rewrite app_nil_r, finish_char. destruct (spec_finish V4 nes (rev nes)); [apply finish_char|reflexivity].
Qed.

(* ---- the closed form in terms of membership --------------------------------------------------- *)

Lemma in_fent f l p v : In (p, v) (fent f l) <-> In (p, v) l /\ pfam p = f.
Proof. unfold fent. rewrite filter_In. cbn [fst]. now rewrite fam_eqb_eq. Qed.

Lemma has_default_true f l :
  has_default f l = true <-> exists p v, In (p, v) l /\ pfam p = f /\ pbits p = 0.
Proof.
  unfold has_default. rewrite existsb_exists. split.
  - intros [[p v] [Hin Hb]]. apply in_fent in Hin as [Hin Hf]. apply N.eqb_eq in Hb. eauto.
  - intros [p [v [Hin [Hf Hb]]]]. exists (p, v). split; [now apply in_fent|now apply N.eqb_eq].
Qed.

Lemma uniform_true f l :
  uniform f l = true <->
  forall p v q w, In (p, v) l -> In (q, w) l -> pfam p = f -> pfam q = f -> v = w.
Proof.
  unfold uniform. split.
  - intros H p v q w Hp Hq Fp Fq.
    assert (Ip : In (p, v) (fent f l)) by now apply in_fent.
    assert (Iq : In (q, w) (fent f l)) by now apply in_fent.
    destruct (fent f l) as [|[p0 v0] r]; [contradiction|].
    rewrite forallb_forall in H.
    apply H in Ip. apply H in Iq. cbn [snd] in *. apply Bool.eqb_prop in Ip. apply Bool.eqb_prop in Iq. congruence.
  - intros H. destruct (fent f l) as [|[p0 v0] r] eqn:E; [reflexivity|].
    apply forallb_forall. intros [q w] Hq. cbn [snd].
    assert (I0 : In (p0, v0) (fent f l)) by (rewrite E; now left).
    rewrite <- E in Hq. apply in_fent in I0 as [I0 F0]. apply in_fent in Hq as [Hq Fq].
    rewrite (H _ _ _ _ Hq I0 Fq F0). apply Bool.eqb_reflx.
Qed.

Lemma fam_default_in f l q w :
  uniform f l = true -> In (q, w) l -> pfam q = f -> fam_default l f = negb w.
Proof.
  intros U Hq Fq. unfold fam_default.
  assert (Iq : In (q, w) (fent f l)) by now apply in_fent.
  destruct (fent f l) as [|[p0 v0] r] eqn:E; [contradiction|].
  assert (I0 : In (p0, v0) (fent f l)) by (rewrite E; now left).
  apply in_fent in I0 as [I0 F0]. rewrite uniform_true in U. now rewrite (U _ _ _ _ I0 Hq F0 Fq).
Qed.

Lemma fam_default_none f l :
  (forall q w, In (q, w) l -> pfam q <> f) -> fam_default l f = true.
Proof.
  intros H. unfold fam_default. destruct (fent f l) as [|[p0 v0] r] eqn:E; [reflexivity|].
  assert (I0 : In (p0, v0) (fent f l)) by (rewrite E; now left).
  apply in_fent in I0 as [I0 F0]. exfalso. exact (H _ _ I0 F0).
Qed.

Lemma norm_all_wf es nes : norm_all es = Some nes -> forall p v, In (p, v) nes -> wf_prefix p = true.
Proof.
  revert nes. induction es as [|[k v0] es IH]; cbn [norm_all]; intros nes H p v Hin.
  - injection H as <-. contradiction.
  - destruct (norm_key k) as [p0|] eqn:K; [|discriminate].
    destruct (norm_all es) as [l|]; [|discriminate]. injection H as <-.
    destruct Hin as [E|Hin]; [injection E as <- <-; eapply norm_key_wf; eauto|eauto].
Qed.

Lemma norm_all_in es nes : norm_all es = Some nes ->
  forall p v, In (p, v) nes <-> exists k, In (k, v) es /\ norm_key k = Some p.
Proof.
  revert nes. induction es as [|[k v0] es IH]; cbn [norm_all]; intros nes H p v.
  - injection H as <-. split; [contradiction|intros [k [[] _]]].
  - destruct (norm_key k) as [p0|] eqn:K; [|discriminate].
    destruct (norm_all es) as [l|]; [|discriminate]. injection H as <-. cbn [In]. rewrite (IH l eq_refl). split.
    + intros [E|[k' [Hin Hk]]]; [injection E as <- <-; eauto|eauto].
    + intros [k' [[E|Hin] Hk]]; [injection E as <- <-; left; congruence|eauto].
Qed.

Lemma norm_all_none es :
  norm_all es = None <-> exists k v, In (k, v) es /\ norm_key k = None.
Proof.
  induction es as [|[k v0] es IH]; cbn [norm_all].
  - split; [discriminate|intros [k [v [[] _]]]].
  - destruct (norm_key k) as [p0|] eqn:K.
    + destruct (norm_all es) as [l|].
      * split; [discriminate|]. intros [k' [v [[E|Hin] Hk]]]; [injection E as <- <-; congruence|].
        destruct IH as [_ IH]. discriminate IH. eauto.
      * split; [|reflexivity]. intros _. destruct IH as [IH _]. destruct (IH eq_refl) as [k' [v [Hin Hk]]].
        exists k', v. split; [now right|exact Hk].
    + split; [|reflexivity]. intros _. exists k, v0. split; [now left|exact K].
Qed.

Lemma norm_all_perm es es' nes :
  Permutation es es' -> norm_all es = Some nes ->
  exists nes', norm_all es' = Some nes' /\ Permutation nes nes'.
Proof.
  intros P. revert nes. induction P as [|[k v] l l' P IH|[k1 v1] [k2 v2] l|l l' l'' P1 IH1 P2 IH2]; intros nes H.
  - exists nes. split; [exact H|apply Permutation_refl].
  - cbn [norm_all] in *. destruct (norm_key k) as [p|]; [|discriminate].
    destruct (norm_all l) as [nl|]; [|discriminate]. injection H as <-.
    destruct (IH nl eq_refl) as [nl' [E P']]. rewrite E. eexists; split; [reflexivity|now constructor].
  - cbn [norm_all] in *. destruct (norm_key k1) as [p1|]; destruct (norm_key k2) as [p2|]; try discriminate.
    destruct (norm_all l) as [nl|]; [|discriminate]. injection H as <-.
    eexists; split; [reflexivity|apply perm_swap].
  - destruct (IH1 _ H) as [n1 [E1 Q1]]. destruct (IH2 _ E1) as [n2 [E2 Q2]].
    exists n2. split; [exact E2|eapply Permutation_trans; eauto].
Qed.

Lemma norm_all_perm_none es es' :
  Permutation es es' -> norm_all es = None -> norm_all es' = None.
Proof.
  intros P H. apply norm_all_none. apply norm_all_none in H as [k [v [Hin Hk]]].
  exists k, v. split; [eapply Permutation_in; eauto|exact Hk].
Qed.

(* membership in the finished table *)
Lemma new_in es nes t :
  norm_all es = Some nes -> new_allow_list es = Some t ->
  (forall f, has_default f nes = true \/ uniform f nes = true) /\
  forall p v, In (p, v) t <->
    In (p, v) nes \/ exists f, has_default f nes = false /\ p = (f, 0, 0) /\ v = fam_default nes f.
Proof.
  intros Hn H. rewrite new_char, Hn in H. unfold spec_finish in H.
  destruct (has_default V4 nes) eqn:D4; destruct (has_default V6 nes) eqn:D6;
  try (destruct (uniform V4 nes) eqn:U4; [|discriminate]);
  try (destruct (uniform V6 nes) eqn:U6; [|discriminate]);
  injection H as <-; (split; [intros []; auto|]); intros p v; cbn [In]; rewrite <- ?in_rev; split;
  try (intros [E|HH]; [injection E as <- <-; right; eexists; eauto|revert HH]);
  try (intros [E|HH]; [injection E as <- <-; right; eexists; eauto|revert HH]);
  try (intros HH; now left);
  intros [HH|[f [Hd [-> ->]]]]; auto; destruct f; try congruence; auto.
Qed.

Lemma new_some_norm es t : new_allow_list es = Some t -> exists nes, norm_all es = Some nes.
Proof. rewrite new_char. destruct (norm_all es); [eauto|discriminate]. Qed.

(* ---- Allow: most specific entry, else the family default ---------------------------------------- *)

Lemma allow_lpm es nes t x p v :
  new_allow_list es = Some t -> norm_all es = Some nes -> consistent nes ->
  most_specific nes (unmap x) p v -> allow t x = v.
Proof.
  intros Hnew Hn Hc [Hin [Cp Mp]]. destruct (new_in _ _ _ Hn Hnew) as [_ Hmem].
  unfold allow. assert (It : In (p, v) t) by (apply Hmem; now left).
  destruct (lpm_in t _ _ _ It Cp) as [b [w L]]. rewrite L.
  destruct (lpm_some _ _ _ _ L) as [q [[Hq [Cq Mq]] _]].
  apply Hmem in Hq as [Hq|[f [Hd [-> ->]]]].
  - symmetry. apply (Hc p v q w Hin Hq). apply (contains_same_bits _ _ _ Cp Cq).
    specialize (Mq _ _ It Cp). specialize (Mp _ _ Hq Cq). lia.
  - exfalso. specialize (Mq _ _ It Cp). cbn [pbits snd] in Mq.
    apply contains_fam in Cp. apply contains_fam in Cq. cbn [pfam fst] in Cq.
    assert (HD : has_default f nes = true).
    { apply has_default_true. exists p, v. split; [exact Hin|]. split; [congruence|lia]. }
    congruence.
Qed.

Lemma allow_default es nes t x :
  new_allow_list es = Some t -> norm_all es = Some nes -> wf_addr x = true ->
  (forall q w, In (q, w) nes -> contains q (unmap x) = false) ->
  uniform (fst (unmap x)) nes = true /\ allow t x = fam_default nes (fst (unmap x)).
Proof.
  intros Hnew Hn Wx Hno. destruct (new_in _ _ _ Hn Hnew) as [Hdu Hmem].
  set (x' := unmap x) in *. set (f := fst x').
  assert (Wx' : wf_addr x' = true) by now apply unmap_wf.
  assert (Hd : has_default f nes = false).
  { destruct (has_default f nes) eqn:D; [|reflexivity]. apply has_default_true in D as [p [v [Hin [Hf Hb]]]].
    assert (C : contains p x' = true).
    { apply contains_default; [eapply norm_all_wf; eauto|exact Wx'|exact Hb|exact Hf]. }
    rewrite (Hno _ _ Hin) in C. discriminate. }
  split; [destruct (Hdu f); congruence|].
  assert (It : In ((f, 0, 0), fam_default nes f) t) by (apply Hmem; right; exists f; auto).
  assert (Cd : contains (f, 0, 0) x' = true).
  { apply contains_default; auto. unfold wf_prefix. cbn [paddr pfam pbits fst snd]. now destruct f. }
  unfold allow. fold x'. destruct (lpm_in t _ _ _ It Cd) as [b [w L]]. rewrite L.
  destruct (lpm_some _ _ _ _ L) as [q [[Hq [Cq _]] _]].
  apply Hmem in Hq as [Hq|[g [_ [-> ->]]]].
  - rewrite (Hno _ _ Hq) in Cq. discriminate.
  - apply contains_fam in Cq. cbn [pfam fst] in Cq. now subst g.
Qed.

(* ---- refusal --------------------------------------------------------------------------------- *)

(* family f has both values and no /0 *)
Definition mixed_no_default (nes : list (prefix * bool)) (f : fam) : Prop :=
  (exists p q, In (p, true) nes /\ In (q, false) nes /\ pfam p = f /\ pfam q = f) /\
  (forall p v, In (p, v) nes -> pfam p = f -> pbits p <> 0).

Lemma uniform_false f l :
  uniform f l = false <-> exists p q, In (p, true) l /\ In (q, false) l /\ pfam p = f /\ pfam q = f.
Proof.
  split.
  - intros H. unfold uniform in H. destruct (fent f l) as [|[p0 v0] r] eqn:E; [discriminate|].
    assert (I0 : In (p0, v0) l /\ pfam p0 = f) by (apply in_fent; rewrite E; now left).
    assert (Hex : exists q w, In (q, w) (fent f l) /\ w <> v0).
    { rewrite E. clear E I0. revert H. generalize ((p0, v0) :: r). intros m H.
      induction m as [|[q w] m IH]; [discriminate|]. cbn [forallb snd] in H.
      destruct (Bool.eqb w v0) eqn:B.
      - destruct (IH H) as [q' [w' [Hin Hne]]]. exists q', w'. split; [now right|exact Hne].
      - exists q, w. split; [now left|]. intros ->. now rewrite Bool.eqb_reflx in B. }
    destruct Hex as [q [w [Hq Hne]]]. apply in_fent in Hq as [Hq Fq]. destruct I0 as [I0 F0].
    destruct v0, w; try congruence; [exists p0, q|exists q, p0]; auto.
  - intros [p [q [Hp [Hq [Fp Fq]]]]]. destruct (uniform f l) eqn:U; [|reflexivity].
    rewrite uniform_true in U. discriminate (U _ _ _ _ Hp Hq Fp Fq).
Qed.

Lemma has_default_false f l :
  has_default f l = false <-> forall p v, In (p, v) l -> pfam p = f -> pbits p <> 0.
Proof.
  split.
  - intros H p v Hin Hf Hb. assert (has_default f l = true) by (apply has_default_true; eauto). congruence.
  - intros H. destruct (has_default f l) eqn:D; [|reflexivity].
    apply has_default_true in D as [p [v [Hin [Hf Hb]]]]. exfalso. eapply H; eauto.
Qed.

Lemma new_refused_iff es :
  new_allow_list es = None <->
  norm_all es = None \/ exists nes f, norm_all es = Some nes /\ mixed_no_default nes f.
Proof.
  rewrite new_char. destruct (norm_all es) as [nes|]; [|split; auto].
  unfold spec_finish, mixed_no_default. split.
  - intros H. right. exists nes.
    destruct (has_default V4 nes) eqn:D4; [|destruct (uniform V4 nes) eqn:U4].
    + destruct (has_default V6 nes) eqn:D6; [discriminate|]. destruct (uniform V6 nes) eqn:U6; [discriminate|].
      exists V6. split; [reflexivity|]. split; [now apply uniform_false|now apply has_default_false].
    + destruct (has_default V6 nes) eqn:D6; [discriminate|]. destruct (uniform V6 nes) eqn:U6; [discriminate|].
      exists V6. split; [reflexivity|]. split; [now apply uniform_false|now apply has_default_false].
    + exists V4. split; [reflexivity|]. split; [now apply uniform_false|now apply has_default_false].
  - intros [H|[nes' [f [E [Hu Hd]]]]]; [discriminate|]. injection E as <-.
    apply uniform_false in Hu. apply has_default_false in Hd.
    destruct f; rewrite Hd, Hu; [reflexivity|].
    destruct (has_default V4 nes); [reflexivity|]. destruct (uniform V4 nes); reflexivity.
Qed.

Lemma norm_key_none k :
  norm_key k = None <-> wf_prefix k = false \/ (is_mapped (pfam k, paddr k) = true /\ pbits k < 96).
Proof.
  unfold norm_key. destruct (wf_prefix k); [|split; auto].
  destruct (is_mapped _); [|split; [discriminate|intros [H|[H _]]; discriminate]].
  destruct (pbits k <? 96) eqn:B.
  - apply N.ltb_lt in B. split; auto.
  - apply N.ltb_ge in B. split; [discriminate|]. intros [H|[_ H]]; [discriminate|lia].
Qed.

(* ---- insertion order -------------------------------------------------------------------------- *)

Lemma mixed_perm nes nes' f : Permutation nes nes' -> mixed_no_default nes f -> mixed_no_default nes' f.
Proof.
  intros P [[p [q [Hp [Hq [Fp Fq]]]]] Hd]. split.
  - exists p, q. repeat split; auto; eapply Permutation_in; eauto.
  - intros p' v Hin. apply Hd with v. eapply Permutation_in; [apply Permutation_sym|]; eauto.
Qed.

Lemma new_refused_perm es es' : Permutation es es' -> new_allow_list es = None -> new_allow_list es' = None.
Proof.
  intros P H. apply new_refused_iff. apply new_refused_iff in H as [H|[nes [f [Hn Hm]]]].
  - left. eapply norm_all_perm_none; eauto.
  - right. destruct (norm_all_perm _ _ _ P Hn) as [nes' [E Q]]. exists nes', f. split; [exact E|].
    eapply mixed_perm; eauto.
Qed.

Lemma allow_perm es es' nes t t' x :
  Permutation es es' -> norm_all es = Some nes -> consistent nes ->
  new_allow_list es = Some t -> new_allow_list es' = Some t' -> wf_addr x = true ->
  allow t x = allow t' x.
Proof.
  intros P Hn Hc Ht Ht' Wx. destruct (norm_all_perm _ _ _ P Hn) as [nes' [Hn' Q]].
  assert (Hc' : consistent nes') by (eapply consistent_perm; eauto).
  destruct (most_specific_dec nes (unmap x)) as [Hno|[p [v Hms]]].
  - assert (Hno' : forall q w, In (q, w) nes' -> contains q (unmap x) = false).
    { intros q w Hq. apply Hno with w. eapply Permutation_in; [apply Permutation_sym|]; eauto. }
    destruct (allow_default _ _ _ _ Ht Hn Wx Hno) as [U A].
    destruct (allow_default _ _ _ _ Ht' Hn' Wx Hno') as [U' A']. rewrite A, A'.
    set (f := fst (unmap x)) in *.
    destruct (fent f nes) as [|[q w] r] eqn:E.
    + rewrite !fam_default_none; auto; intros q w Hq Hf.
      * assert (I : In (q, w) (fent f nes)) by (apply in_fent; split; auto; eapply Permutation_in; [apply Permutation_sym|]; eauto).
        rewrite E in I. contradiction.
      * assert (I : In (q, w) (fent f nes)) by (apply in_fent; auto). rewrite E in I. contradiction.
    + assert (I : In (q, w) nes /\ pfam q = f) by (apply in_fent; rewrite E; now left). destruct I as [I F].
      rewrite (fam_default_in f nes q w U I F).
      rewrite (fam_default_in f nes' q w U'); auto. eapply Permutation_in; eauto.
  - rewrite (allow_lpm _ _ _ _ _ _ Ht Hn Hc Hms).
    rewrite (allow_lpm _ _ _ _ _ _ Ht' Hn' Hc' (most_specific_perm _ _ _ _ _ Q Hms)). reflexivity.
Qed.

(* ---- mapped addresses and keys ---------------------------------------------------------------- *)

Lemma allow_unmap t x : allow t x = allow t (unmap x).
Proof. unfold allow. now rewrite unmap_idem. Qed.

Lemma mapped_is a : a < 2 ^ 32 -> is_mapped (V6, 65535 * 2 ^ 32 + a) = true.
Proof.
  intros H. unfold is_mapped. cbn [fst snd].
  replace (65535 * 2 ^ 32 + a) with (a + 65535 * 2 ^ 32) by lia.
  rewrite N.div_add, N.div_small, N.add_0_l by (auto; discriminate). apply N.eqb_refl.
Qed.

Lemma mapped_low a : a < 2 ^ 32 -> (65535 * 2 ^ 32 + a) mod 2 ^ 32 = a.
Proof.
  intros H. replace (65535 * 2 ^ 32 + a) with (a + 65535 * 2 ^ 32) by lia.
  rewrite N.mod_add, N.mod_small by (auto; discriminate). reflexivity.
Qed.

Lemma mapped_addr a : a < 2 ^ 32 -> unmap (V6, 65535 * 2 ^ 32 + a) = (V4, a).
Proof. intros H. unfold unmap. rewrite (mapped_is a H). cbn [snd]. now rewrite (mapped_low a H). Qed.

Lemma mapped_key a n : a < 2 ^ 32 -> n <= 32 ->
  norm_key (V6, 65535 * 2 ^ 32 + a, 96 + n) = Some (V4, a, n).
Proof.
  intros Ha Hn. unfold norm_key.
  assert (W : wf_prefix (V6, 65535 * 2 ^ 32 + a, 96 + n) = true).
  { unfold wf_prefix. cbn [paddr pfam pbits fst snd fbits]. apply andb_true_intro. split.
    - apply N.ltb_lt. assert (65535 * 2 ^ 32 + 2 ^ 32 <= 2 ^ 128) by (vm_compute; discriminate). lia.
    - apply N.leb_le. lia. }
  rewrite W. cbn [pfam paddr pbits fst snd]. rewrite (mapped_is a Ha), (mapped_low a Ha).
  assert (B : 96 + n <? 96 = false) by (apply N.ltb_ge; lia). rewrite B.
  replace (96 + n - 96) with n by lia. reflexivity.
Qed.

Lemma mapped_key_short a n : a < 2 ^ 32 -> n < 96 -> norm_key (V6, 65535 * 2 ^ 32 + a, n) = None.
Proof.
  intros Ha Hn. apply norm_key_none. right. cbn [pfam paddr pbits fst snd]. split; [|exact Hn].
  exact (mapped_is a Ha).
Qed.

(* ---- RemoteAllowList -------------------------------------------------------------------------- *)

Lemma remote_allow_and g rg vpn udp :
  remote_allow g rg vpn udp = allow_opt (inside_of rg vpn) udp && allow_opt g udp.
Proof. unfold remote_allow. destruct (allow_opt (inside_of rg vpn) udp); reflexivity. Qed.

Lemma all_inside_forallb rg vpns udp :
  all_inside rg vpns udp = forallb (fun v => allow_opt (inside_of rg v) udp) vpns.
Proof.
  induction vpns as [|v r IH]; cbn [all_inside forallb]; [reflexivity|].
  destruct (allow_opt (inside_of rg v) udp); cbn [negb andb]; [exact IH|reflexivity].
Qed.

Lemma allow_all_spec g rg vpns udp :
  allow_all g rg vpns udp = allow_opt g udp && forallb (fun v => allow_opt (inside_of rg v) udp) vpns.
Proof. unfold allow_all. rewrite all_inside_forallb. destruct (allow_opt g udp); reflexivity. Qed.

Lemma allow_all_remote g rg vpns udp :
  vpns <> [] -> allow_all g rg vpns udp = forallb (fun v => remote_allow g rg v udp) vpns.
Proof.
  intros Hne. rewrite allow_all_spec. destruct (allow_opt g udp) eqn:G; cbn [andb].
  - induction vpns as [|v r IH]; [reflexivity|]. cbn [forallb]. rewrite remote_allow_and, G, andb_true_r.
    destruct r as [|v' r']; [reflexivity|]. rewrite IH by discriminate. reflexivity.
  - destruct vpns as [|v r]; [contradiction|]. cbn [forallb]. rewrite remote_allow_and, G, andb_false_r. reflexivity.
Qed.

Fixpoint norm_ranges (rs : list (key * list (key * bool))) : option ranges :=
  match rs with
  | [] => Some []
  | (k, es) :: r =>
      match new_allow_list es, norm_key k with
      | Some t, Some p => match norm_ranges r with Some l => Some ((p, t) :: l) | None => None end
      | _, _ => None
      end
  end.

Lemma build_ranges_eq rs : forall acc,
  build_ranges rs acc = match norm_ranges rs with None => None | Some l => Some (rev l ++ acc) end.
Proof.
  induction rs as [|[k es] rs IH]; intros acc; cbn [build_ranges norm_ranges]; [reflexivity|].
  destruct (new_allow_list es) as [t|]; [|reflexivity]. destruct (norm_key k) as [p|]; [|reflexivity].
  rewrite IH. destruct (norm_ranges rs) as [l|]; [|reflexivity]. cbn [rev]. now rewrite <- app_assoc.
Qed.

Lemma norm_ranges_in rs l : norm_ranges rs = Some l ->
  forall p t, In (p, t) l <-> exists k es, In (k, es) rs /\ norm_key k = Some p /\ new_allow_list es = Some t.
Proof.
  revert l. induction rs as [|[k es] rs IH]; cbn [norm_ranges]; intros l H p t.
  - injection H as <-. split; [contradiction|intros [k [es [[] _]]]].
  - destruct (new_allow_list es) as [t0|] eqn:T; [|discriminate].
    destruct (norm_key k) as [p0|] eqn:K; [|discriminate].
    destruct (norm_ranges rs) as [l0|]; [|discriminate]. injection H as <-. cbn [In]. rewrite (IH l0 eq_refl). split.
    + intros [E|[k' [es' [Hin HH]]]]; [injection E as <- <-; exists k, es; auto|exists k', es'; auto].
    + intros [k' [es' [[E|Hin] [Hk Ht]]]]; [injection E as <- <-; left; congruence|right; eauto].
Qed.

Lemma ranges_in rs rg : new_remote_ranges rs = Some rg ->
  forall p t, In (p, t) rg <-> exists k es, In (k, es) rs /\ norm_key k = Some p /\ new_allow_list es = Some t.
Proof.
  unfold new_remote_ranges. rewrite build_ranges_eq. destruct (norm_ranges rs) as [l|] eqn:E; [|discriminate].
  intros H; injection H as <-. intros p t. rewrite app_nil_r, <- in_rev. now apply norm_ranges_in.
Qed.

Lemma ranges_refused rs :
  new_remote_ranges rs = None <->
  exists k es, In (k, es) rs /\ (norm_key k = None \/ new_allow_list es = None).
Proof.
  unfold new_remote_ranges. rewrite build_ranges_eq.
  induction rs as [|[k es] rs IH]; cbn [norm_ranges].
  - split; [discriminate|intros [k [es [[] _]]]].
  - destruct (new_allow_list es) as [t|] eqn:T.
    + destruct (norm_key k) as [p|] eqn:K.
      * destruct (norm_ranges rs) as [l|].
        -- split; [discriminate|]. intros [k' [es' [[E|Hin] HH]]].
           ++ injection E as <- <-. destruct HH; congruence.
           ++ destruct IH as [_ IH]. discriminate IH. eauto.
        -- split; [|reflexivity]. intros _. destruct IH as [IH _].
           destruct (IH eq_refl) as [k' [es' [Hin HH]]]. exists k', es'. split; [now right|exact HH].
      * split; [|reflexivity]. intros _. exists k, es. split; [now left|now left].
    + split; [|reflexivity]. intros _. exists k, es. split; [now left|now right].
Qed.

Lemma inside_some rg vpn t :
  inside_of (Some rg) vpn = Some t -> exists p, most_specific rg (unmap vpn) p t.
Proof.
  unfold inside_of. destruct (lpm rg (unmap vpn)) as [[b t']|] eqn:L; [|discriminate].
  intros H; injection H as <-. destruct (lpm_some _ _ _ _ L) as [p [H _]]. eauto.
Qed.

Lemma inside_none rg vpn :
  inside_of (Some rg) vpn = None <-> forall p t, In (p, t) rg -> contains p (unmap vpn) = false.
Proof.
  unfold inside_of. destruct (lpm rg (unmap vpn)) as [[b t']|] eqn:L.
  - split; [discriminate|]. intros H. destruct (lpm_some _ _ _ _ L) as [p [[Hin [Hc _]] _]].
    rewrite (H _ _ Hin) in Hc. discriminate.
  - split; [|reflexivity]. intros _. exact (lpm_none _ _ L).
Qed.

Lemma inside_lpm rg vpn p t :
  consistent rg -> most_specific rg (unmap vpn) p t -> inside_of (Some rg) vpn = Some t.
Proof.
  intros Hc Hms. destruct (inside_of (Some rg) vpn) as [t'|] eqn:E.
  - destruct (inside_some _ _ _ E) as [q Hq]. f_equal. eapply most_specific_unique; eauto.
  - destruct Hms as [Hin [Hcn _]]. rewrite inside_none in E. rewrite (E _ _ Hin) in Hcn. discriminate.
Qed.

Lemma inside_same_members rg rg' vpn :
  (forall p t, In (p, t) rg <-> In (p, t) rg') -> consistent rg ->
  inside_of (Some rg) vpn = inside_of (Some rg') vpn.
Proof.
  intros Hm Hc.
  assert (Hc' : consistent rg').
  { intros p v q w Hp Hq. apply Hc; now apply Hm. }
  destruct (most_specific_dec rg (unmap vpn)) as [Hno|[p [t [Hin [Hcn Hmax]]]]].
  - assert (E : inside_of (Some rg) vpn = None) by now apply inside_none.
    assert (E' : inside_of (Some rg') vpn = None).
    { apply inside_none. intros p t Hin. apply Hno with t. now apply Hm. }
    now rewrite E, E'.
  - rewrite (inside_lpm rg vpn p t Hc) by (split; auto).
    rewrite (inside_lpm rg' vpn p t Hc'); [reflexivity|].
    split; [now apply Hm|]. split; [exact Hcn|]. intros q w Hq. apply Hmax with w. now apply Hm.
Qed.

Lemma ranges_perm rs rs' rg rg' vpn :
  Permutation rs rs' -> new_remote_ranges rs = Some rg -> new_remote_ranges rs' = Some rg' ->
  consistent rg -> inside_of (Some rg) vpn = inside_of (Some rg') vpn.
Proof.
  intros P H H' Hc. apply inside_same_members; [|exact Hc].
  intros p t. rewrite (ranges_in _ _ H), (ranges_in _ _ H'). split; intros [k [es [Hin HH]]]; exists k, es; split; auto.
  - eapply Permutation_in; eauto.
  - eapply Permutation_in; [apply Permutation_sym|]; eauto.
Qed.

Lemma ranges_refused_perm rs rs' :
  Permutation rs rs' -> new_remote_ranges rs = None -> new_remote_ranges rs' = None.
Proof.
  intros P H. apply ranges_refused. apply ranges_refused in H as [k [es [Hin HH]]].
  exists k, es. split; [eapply Permutation_in; eauto|exact HH].
Qed.

(* ---- interface name rules ---------------------------------------------------------------------- *)

Section NamesP.
  Context {P Nm : Type}.
  Variable valid : P -> bool.
  Variable matches : P -> Nm -> bool.

  Definition all_valid (rs : list (P * bool)) : bool := forallb (fun e => valid (fst e)) rs.
  Definition all_value (u : bool) (rs : list (P * bool)) : bool := forallb (fun e => Bool.eqb (snd e) u) rs.

  Lemma build_names_nonfirst rs : forall allv,
    build_names valid rs false allv = if all_valid rs && all_value allv rs then Some rs else None.
  Proof.
    induction rs as [|[p a] rs IH]; intros allv; cbn [build_names all_valid all_value forallb fst snd]; [reflexivity|].
    destruct (valid p); cbn [andb]; [|reflexivity].
    destruct (Bool.eqb a allv); cbn [andb]; [|now rewrite andb_false_r].
    rewrite IH. unfold all_valid, all_value. destruct (forallb _ rs && forallb _ rs); reflexivity.
  Qed.

  Lemma new_names_char rs :
    new_name_rules valid rs =
    match rs with
    | [] => Some []
    | (_, a0) :: _ => if all_valid rs && all_value a0 rs then Some rs else None
    end.
  Proof.
    unfold new_name_rules. destruct rs as [|[p a] rs]; cbn [build_names]; [reflexivity|].
    cbn [all_valid all_value forallb fst snd]. rewrite Bool.eqb_reflx.
    destruct (valid p); cbn [andb]; [|reflexivity].
    rewrite build_names_nonfirst. unfold all_valid, all_value. destruct (forallb _ rs && forallb _ rs); reflexivity.
  Qed.

  Lemma new_names_some rs rules :
    new_name_rules valid rs = Some rules ->
    rules = rs /\ (forall p a, In (p, a) rs -> valid p = true) /\
    (forall p a q b, In (p, a) rs -> In (q, b) rs -> a = b).
  Proof.
    rewrite new_names_char. destruct rs as [|[p0 a0] rs].
    - intros H; injection H as <-. split; [reflexivity|]. split; intros; contradiction.
    - destruct (all_valid _ && all_value _ _) eqn:E; [|discriminate]. intros H; injection H as <-.
      apply andb_prop in E as [Ev Eu]. unfold all_valid, all_value in *. rewrite forallb_forall in Ev, Eu.
      split; [reflexivity|]. split.
      + intros p a Hin. exact (Ev _ Hin).
      + intros p a q b Hp Hq. apply Eu in Hp. apply Eu in Hq. cbn [snd] in *.
        apply Bool.eqb_prop in Hp. apply Bool.eqb_prop in Hq. congruence.
  Qed.

  Lemma new_names_ok rs :
    (forall p a, In (p, a) rs -> valid p = true) ->
    (forall p a q b, In (p, a) rs -> In (q, b) rs -> a = b) ->
    new_name_rules valid rs = Some rs.
  Proof.
    intros Hv Hu. rewrite new_names_char. destruct rs as [|[p0 a0] rs]; [reflexivity|].
    assert (E : all_valid ((p0, a0) :: rs) && all_value a0 ((p0, a0) :: rs) = true).
    { apply andb_true_intro. unfold all_valid, all_value. rewrite !forallb_forall. split.
      - intros [p a] Hin. exact (Hv _ _ Hin).
      - intros [p a] Hin. cbn [snd]. rewrite (Hu p a p0 a0 Hin (or_introl eq_refl)). apply Bool.eqb_reflx. }
    now rewrite E.
  Qed.

  (* refusal: an invalid pattern, or a true rule together with a false rule *)
  Lemma new_names_refused rs :
    new_name_rules valid rs = None <->
    (exists p a, In (p, a) rs /\ valid p = false) \/ (exists p q, In (p, true) rs /\ In (q, false) rs).
  Proof.
    split.
    - rewrite new_names_char. destruct rs as [|[p0 a0] rs]; [discriminate|].
      destruct (all_valid ((p0, a0) :: rs)) eqn:Ev; cbn [andb].
      + destruct (all_value a0 ((p0, a0) :: rs)) eqn:Eu; [discriminate|]. intros _. right.
        assert (Hex : exists q b, In (q, b) ((p0, a0) :: rs) /\ b <> a0).
        { clear Ev. revert Eu. unfold all_value. generalize ((p0, a0) :: rs). intros m H.
          induction m as [|[q b] m IH]; [discriminate|]. cbn [forallb snd] in H.
          destruct (Bool.eqb b a0) eqn:B.
          - destruct (IH H) as [q' [b' [Hin Hne]]]. exists q', b'. split; [now right|exact Hne].
          - exists q, b. split; [now left|]. intros ->. now rewrite Bool.eqb_reflx in B. }
        destruct Hex as [q [b [Hq Hne]]].
        assert (I0 : In (p0, a0) ((p0, a0) :: rs)) by now left.
        destruct a0, b; try congruence; [exists p0, q|exists q, p0]; auto.
      + intros _. left. clear - Ev. unfold all_valid in Ev. revert Ev. generalize ((p0, a0) :: rs). intros m H.
        induction m as [|[q b] m IH]; [discriminate|]. cbn [forallb fst] in H.
        destruct (valid q) eqn:V.
        * destruct (IH H) as [q' [b' [Hin Hv]]]. exists q', b'. split; [now right|exact Hv].
        * exists q, b. split; [now left|exact V].
    - intros H. destruct (new_name_rules valid rs) as [rules|] eqn:E; [|reflexivity].
      apply new_names_some in E as [_ [Hv Hu]]. destruct H as [[p [a [Hin Hp]]]|[p [q [Hp Hq]]]].
      + rewrite (Hv _ _ Hin) in Hp. discriminate.
      + discriminate (Hu _ _ _ _ Hp Hq).
  Qed.

  Lemma first_match_some rules nm a :
    first_match matches rules nm = Some a -> exists p, In (p, a) rules /\ matches p nm = true.
  Proof.
    induction rules as [|[p b] r IH]; cbn [first_match]; [discriminate|].
    destruct (matches p nm) eqn:M.
    - intros H; injection H as <-. exists p. split; [now left|exact M].
    - intros H. destruct (IH H) as [q [Hin Hm]]. exists q. split; [now right|exact Hm].
  Qed.

  Lemma first_match_none rules nm :
    first_match matches rules nm = None <-> forall p a, In (p, a) rules -> matches p nm = false.
  Proof.
    induction rules as [|[p b] r IH]; cbn [first_match].
    - split; [intros _ p a []|reflexivity].
    - destruct (matches p nm) eqn:M.
      + split; [discriminate|]. intros H. rewrite (H p b (or_introl eq_refl)) in M. discriminate.
      + rewrite IH. split.
        * intros H q a [E|Hin]; [injection E as <- <-; exact M|eauto].
        * intros H q a Hin. apply H with a. now right.
  Qed.

  (* AllowName: if some rule matches, the common value; otherwise its opposite; no rules: allow *)
  Lemma allow_name_match rules nm u p a :
    (forall q b, In (q, b) rules -> b = u) -> In (p, a) rules -> matches p nm = true ->
    allow_name matches rules nm = u.
  Proof.
    intros Hu Hin Hm. unfold allow_name. destruct rules as [|[p0 a0] r] eqn:E; [contradiction|]. rewrite <- E in *.
    destruct (first_match matches rules nm) as [b|] eqn:F.
    - destruct (first_match_some _ _ _ F) as [q [Hq _]]. exact (Hu _ _ Hq).
    - rewrite first_match_none in F. rewrite (F _ _ Hin) in Hm. discriminate.
  Qed.

  Lemma allow_name_nomatch rules nm u p a :
    (forall q b, In (q, b) rules -> b = u) -> In (p, a) rules ->
    (forall q b, In (q, b) rules -> matches q nm = false) ->
    allow_name matches rules nm = negb u.
  Proof.
    intros Hu Hin Hno. unfold allow_name. destruct rules as [|[p0 a0] r] eqn:E; [contradiction|]. rewrite <- E in *.
    assert (F : first_match matches rules nm = None) by now apply first_match_none.
    rewrite F. f_equal. apply Hu with p0. rewrite E. now left.
  Qed.

  Lemma names_decide (rules : list (P * bool)) nm :
    (exists p a, In (p, a) rules /\ matches p nm = true) \/ (forall q b, In (q, b) rules -> matches q nm = false).
  Proof.
    destruct (first_match matches rules nm) as [a|] eqn:F.
    - left. destruct (first_match_some _ _ _ F) as [p [Hin Hm]]. eauto.
    - right. now apply first_match_none.
  Qed.

  Lemma names_perm rs rs' rules rules' nm :
    Permutation rs rs' -> new_name_rules valid rs = Some rules -> new_name_rules valid rs' = Some rules' ->
    allow_name matches rules nm = allow_name matches rules' nm.
  Proof.
    intros Pm H H'. apply new_names_some in H as [-> [_ Hu]]. apply new_names_some in H' as [-> [_ Hu']].
    destruct rs as [|[p0 a0] r] eqn:E.
    - apply Permutation_nil in Pm. subst rs'. reflexivity.
    - rewrite <- E in *. assert (I0 : In (p0, a0) rs) by (rewrite E; now left).
      assert (I0' : In (p0, a0) rs') by (eapply Permutation_in; eauto).
      assert (U : forall q b, In (q, b) rs -> b = a0) by (intros q b Hq; exact (Hu _ _ _ _ Hq I0)).
      assert (U' : forall q b, In (q, b) rs' -> b = a0) by (intros q b Hq; exact (Hu' _ _ _ _ Hq I0')).
      destruct (names_decide rs nm) as [[p [a [Hin Hm]]]|Hno].
      + rewrite (allow_name_match rs nm a0 p a U Hin Hm).
        rewrite (allow_name_match rs' nm a0 p a U'); auto. eapply Permutation_in; eauto.
      + rewrite (allow_name_nomatch rs nm a0 p0 a0 U I0 Hno).
        rewrite (allow_name_nomatch rs' nm a0 p0 a0 U' I0'); auto.
        intros q b Hq. apply Hno with b. eapply Permutation_in; [apply Permutation_sym|]; eauto.
  Qed.

  Lemma names_refused_perm rs rs' :
    Permutation rs rs' -> new_name_rules valid rs = None -> new_name_rules valid rs' = None.
  Proof.
    intros Pm H. apply new_names_refused. apply new_names_refused in H as [[p [a [Hin Hv]]]|[p [q [Hp Hq]]]].
    - left. exists p, a. split; [eapply Permutation_in; eauto|exact Hv].
    - right. exists p, q. split; eapply Permutation_in; eauto.
  Qed.
End NamesP.

(* ---- values that are not booleans --------------------------------------------------------------- *)

Lemma all_vals_some {K : Type} (res : list (K * option bool)) es :
  all_vals res = Some es <-> res = map (fun e => (fst e, Some (snd e))) es.
Proof.
  revert es. induction res as [|[k [v|]] r IH]; intros es; cbn [all_vals].
  - split; [intros H; injection H as <-; reflexivity|]. destruct es; [reflexivity|discriminate].
  - destruct (all_vals r) as [l|].
    + split.
      * intros H; injection H as <-. cbn [map fst snd]. f_equal. now apply IH.
      * destruct es as [|[k' v'] es]; [discriminate|]. cbn [map fst snd]. intros H; injection H as -> -> H.
        apply IH in H. now injection H as ->.
    + split; [discriminate|]. destruct es as [|[k' v'] es]; [discriminate|]. cbn [map fst snd].
      intros H; injection H as _ _ H. apply IH in H. discriminate.
  - split; [discriminate|]. destruct es as [|[k' v'] es]; discriminate.
Qed.

Lemma all_vals_none {K : Type} (res : list (K * option bool)) :
  all_vals res = None <-> exists k, In (k, None) res.
Proof.
  induction res as [|[k [v|]] r IH]; cbn [all_vals].
  - split; [discriminate|intros [k []]].
  - destruct (all_vals r) as [l|].
    + split; [discriminate|]. intros [k' [E|Hin]]; [discriminate|]. destruct IH as [_ IH]. discriminate IH. eauto.
    + split; [|reflexivity]. intros _. destruct IH as [IH _]. destruct (IH eq_refl) as [k' Hin]. exists k'. now right.
  - split; [|reflexivity]. intros _. exists k. now left.
Qed.

Lemma raw_refused_iff res :
  new_allow_list_raw res = None <->
  (exists k, In (k, None) res) \/
  exists es, res = map (fun e => (fst e, Some (snd e))) es /\ new_allow_list es = None.
Proof.
  unfold new_allow_list_raw. destruct (all_vals res) as [es|] eqn:E.
  - split.
    + intros H. right. exists es. split; [now apply all_vals_some|exact H].
    + intros [[k Hin]|[es' [Hr Hn]]].
      * assert (all_vals res = None) by (apply all_vals_none; eauto). congruence.
      * apply all_vals_some in Hr. congruence.
  - split; [|reflexivity]. intros _. left. now apply all_vals_none.
Qed.

(* the two consequences of [allow_default], in terms of membership *)
Lemma allow_default_in es nes t x :
  new_allow_list es = Some t -> norm_all es = Some nes -> wf_addr x = true ->
  (forall q w, In (q, w) nes -> contains q (unmap x) = false) ->
  (forall q w, In (q, w) nes -> pfam q = fst (unmap x) -> allow t x = negb w) /\
  ((forall q w, In (q, w) nes -> pfam q <> fst (unmap x)) -> allow t x = true).
Proof.
  intros Ht Hn Wx Hno. destruct (allow_default _ _ _ _ Ht Hn Wx Hno) as [U A]. rewrite A. split.
  - intros q w Hq Hf. now apply fam_default_in with q.
  - intros H. now apply fam_default_none.
Qed.

Lemma norm_all_refused_iff es :
  norm_all es = None <->
  exists k v, In (k, v) es /\
    (wf_prefix k = false \/ (is_mapped (pfam k, paddr k) = true /\ pbits k < 96)).
Proof.
  rewrite norm_all_none. split; intros [k [v [Hin H]]]; exists k, v; (split; [exact Hin|]); now apply norm_key_none.
Qed.

Lemma order_both es es' :
  Permutation es es' ->
  (new_allow_list es = None <-> new_allow_list es' = None) /\
  (forall nes t t' x, norm_all es = Some nes -> consistent nes ->
     new_allow_list es = Some t -> new_allow_list es' = Some t' -> wf_addr x = true ->
     allow t x = allow t' x).
Proof.
  intros P. split.
  - split; apply new_refused_perm; [exact P|now apply Permutation_sym].
  - intros nes t t' x Hn Hc Ht Ht' Wx. eapply allow_perm; eauto.
Qed.

(* without consistency the answer does depend on the visiting order: 10.0.0.0/8 written twice *)
Lemma order_refuted :
  exists es es' t t' x, Permutation es es' /\ new_allow_list es = Some t /\ new_allow_list es' = Some t' /\
    wf_addr x = true /\ allow t x <> allow t' x.
Proof.
  exists [((V4, 167772160, 8), true); ((V6, 65535 * 2 ^ 32 + 167772160, 104), false); ((V4, 0, 0), false)].
  exists [((V6, 65535 * 2 ^ 32 + 167772160, 104), false); ((V4, 167772160, 8), true); ((V4, 0, 0), false)].
  eexists. eexists. exists (V4, 167837955).
  split; [apply perm_swap|]. split; [vm_compute; reflexivity|]. split; [vm_compute; reflexivity|].
  split; [vm_compute; reflexivity|]. vm_compute. discriminate.
Qed.

(* Lemmas for C30. Part 1: facts about the generated tables, by reflection over the finite feature space
   (forallb ... = true by vm_compute, lifted to forall rows). Part 2: the same facts as propositions.
   Part 3: induction over all histories of checks of a tunnel. *)
From Coq Require Import List NArith Bool Lia.
Import ListNotations.
From NV Require Import lib.ConnMgr_lib gen.Tab_ConnMgr model.ConnMgr.
Open Scope N_scope.

(* ---- generic ------------------------------------------------------------------------------- *)

Lemma row_eqb_eq a b : row_eqb a b = true -> a = b.
Proof.
  destruct a, b; unfold row_eqb; simpl; intros H.
  repeat (apply andb_prop in H; let H' := fresh "E" in destruct H as [H H']).
  apply cert_eqb_eq in H. repeat match goal with E : eqb _ _ = true |- _ => apply eqb_prop in E end.
  subst. reflexivity.
Qed.

Lemma row_eqb_refl a : row_eqb a a = true.
Proof.
  destruct a; unfold row_eqb; simpl. rewrite !eqb_reflx. destruct r_cert; reflexivity.
Qed.

Lemma assoc_in {V} (r : row) (x : V) l : assoc row_eqb r l = Some x -> In (r, x) l.
Proof.
  induction l as [|[k v] l IH]; simpl; [discriminate|].
  destruct (row_eqb r k) eqn:E.
  - intros H; inversion H; subst. apply row_eqb_eq in E. subst. now left.
  - intros H. right. now apply IH.
Qed.

Definition tab_forall (Q : row -> res -> bool) : bool := forallb (fun p => Q (fst p) (snd p)) tab_decide.

Lemma tab_forall_spec Q : tab_forall Q = true -> forall r x, decide r = Some x -> Q r x = true.
Proof.
  unfold tab_forall, decide. intros H r x Hd. apply assoc_in in Hd.
  rewrite forallb_forall in H. exact (H _ Hd).
Qed.

Definition is_some {A} (o : option A) : bool := match o with Some _ => true | None => false end.

(* ---- part 1: reflection ---------------------------------------------------------------------- *)

Definition cc (r : row) : bool := cert_closes (r_cert r) (r_dinv r).
Definition removing (d : decision) : bool := dec_eqb d DDelete || dec_eqb d DClose.

(* the table answers exactly the feasible feature combinations *)
Lemma total_b : rows_all (fun r => eqb (feasible r) (is_some (decide r))) = true.
Proof. vm_compute. reflexivity. Qed.

Lemma blocklisted_b : tab_forall (fun r x =>
  implb (cert_eqb (r_cert r) CBlock) (dec_eqb (d_dec x) DClose && d_removed x)) = true.
Proof. vm_compute. reflexivity. Qed.

Lemma invalid_on_b : tab_forall (fun r x =>
  implb (cert_eqb (r_cert r) CInvalid && r_dinv r) (dec_eqb (d_dec x) DClose && d_removed x)) = true.
Proof. vm_compute. reflexivity. Qed.

Definition with_cert (c : certst) (r : row) : row :=
  mkRow c (r_dinv r) (r_exh r) (r_primary r) (r_in r) (r_out r) (r_pd r) (r_dropi r) (r_idle r) (r_swap r).

(* with disconnect_invalid off an invalid certificate is treated exactly like a valid one *)
Lemma invalid_off_b : tab_forall (fun r x =>
  implb (cert_eqb (r_cert r) CInvalid && negb (r_dinv r))
        (match decide (with_cert COk r) with Some x' => res_eqb x x' | None => false end)) = true.
Proof. vm_compute. reflexivity. Qed.

Lemma exhausted_b : tab_forall (fun r x =>
  implb (r_exh r) (d_removed x && negb (d_notify x) && implb (negb (cc r)) (dec_eqb (d_dec x) DDelete))) = true.
Proof. vm_compute. reflexivity. Qed.

Lemma unanswered_b : tab_forall (fun r x =>
  implb (r_pd r && negb (r_in r)) (d_removed x && implb (negb (cc r)) (dec_eqb (d_dec x) DDelete))) = true.
Proof. vm_compute. reflexivity. Qed.

Lemma close_only_if_b : tab_forall (fun r x =>
  implb (dec_eqb (d_dec x) DClose) (cc r || idle_close r)) = true.
Proof. vm_compute. reflexivity. Qed.

Lemma inbound_b : tab_forall (fun r x =>
  implb (r_in r && negb (cc r) && negb (r_exh r))
        (negb (d_removed x) && negb (d_pd x) && timer_eqb (d_timer x) TCheck)) = true.
Proof. vm_compute. reflexivity. Qed.

(* the exact rule *)
Lemma exact_b : tab_forall (fun r x =>
  eqb (d_removed x) (exact_removed r) && eqb (d_notify x) (exact_notify r) && eqb (d_removed x) (removing (d_dec x))) = true.
Proof. vm_compute. reflexivity. Qed.

Lemma spec_b : tab_forall (fun r x => spec_ok r (d_removed x) (d_notify x)) = true.
Proof. vm_compute. reflexivity. Qed.

(* a probe goes out exactly on the sendTestPacket decision (the counter allows it); it marks the tunnel and
   re-arms it with the pending-deletion interval; only a primary with outbound-only traffic is probed *)
Lemma probe_b : tab_forall (fun r x =>
  eqb (d_probe x) (dec_eqb (d_dec x) DProbe) &&
  implb (d_probe x) (d_pd x && timer_eqb (d_timer x) TPending && negb (d_removed x) &&
                     r_primary r && r_out r && negb (r_in r) && negb (r_pd r))) = true.
Proof. vm_compute. reflexivity. Qed.

Lemma rehs_attempt_b : tab_forall (fun r x => eqb (dec_eqb (d_dec x) DRehs) (rehs_attempt r)) = true.
Proof. vm_compute. reflexivity. Qed.

(* a tunnel that stays has had its traffic flags consumed, and lastUsed moved iff there was traffic *)
Lemma kept_b : tab_forall (fun r x =>
  implb (negb (d_removed x)) (d_clear x && eqb (d_touch x) (r_in r || r_out r))) = true.
Proof. vm_compute. reflexivity. Qed.

(* a marked tunnel that stays is re-armed with the pending-deletion interval *)
Lemma pending_timer_b : tab_forall (fun r x =>
  implb (negb (d_removed x)) (eqb (d_pd x) (timer_eqb (d_timer x) TPending)) &&
  implb (d_removed x) (timer_eqb (d_timer x) TNone)) = true.
Proof. vm_compute. reflexivity. Qed.

Lemma swap_total_b : sw_all (fun s => eqb (sw_wf s) (is_some (swap_decide s))) = true.
Proof. vm_compute. reflexivity. Qed.

(* past the rekey threshold a tunnel is never swap eligible: why exhausted + eligible rows do not exist *)
Lemma swap_rk_b : sw_all (fun s => implb (s_rk s) (match swap_decide s with Some true => false | _ => true end)) = true.
Proof. vm_compute. reflexivity. Qed.

Lemma rehs_b : rh_all (fun h => eqb (rh_wf h) (is_some (rehs_decide h)) &&
  match rehs_decide h with Some y => eqb (negb (hs_eqb y HNone)) (rehs_cond h) | None => true end) = true.
Proof. vm_compute. reflexivity. Qed.

Lemma rehs_version_b : rh_all (fun h =>
  match rehs_decide h with Some y => eqb (hs_eqb y HStartPeerVersion) (h_lc h && h_up h) | None => true end) = true.
Proof. vm_compute. reflexivity. Qed.

Lemma unknown_nothing : tab_unknown_decision = DNothing /\ tab_unknown_inert = true.
Proof. split; reflexivity. Qed.

(* ---- part 2: propositions -------------------------------------------------------------------- *)

Ltac split_and H :=
  repeat match type of H with
  | _ && _ = true => let H' := fresh H in apply andb_prop in H; destruct H as [H H']
  end.

Lemma table_total r : feasible r = true <-> exists x, decide r = Some x.
Proof.
  pose proof (rows_all_spec _ total_b r) as H. cbv beta in H. apply eqb_prop in H. rewrite H.
  destruct (decide r) as [x|]; simpl; split; intros E; try reflexivity; try discriminate.
  - now exists x.
  - destruct E as [x E]. discriminate.
Qed.

Lemma blocklisted_closed r x : decide r = Some x -> r_cert r = CBlock -> d_dec x = DClose /\ d_removed x = true.
Proof.
  intros Hd Hc. pose proof (tab_forall_spec _ blocklisted_b r x Hd) as H. cbv beta in H.
  rewrite Hc in H. simpl in H. split_and H. apply dec_eqb_eq in H. now split.
Qed.

Lemma invalid_closed_on r x : decide r = Some x -> r_cert r = CInvalid -> r_dinv r = true ->
  d_dec x = DClose /\ d_removed x = true.
Proof.
  intros Hd Hc Hi. pose proof (tab_forall_spec _ invalid_on_b r x Hd) as H. cbv beta in H.
  rewrite Hc, Hi in H. simpl in H. split_and H. apply dec_eqb_eq in H. now split.
Qed.

Lemma punch_eqb_eq a b : punch_eqb a b = true -> a = b.
Proof. destruct a, b; simpl; intros H; try reflexivity; discriminate. Qed.

Lemma res_eqb_eq a b : res_eqb a b = true -> a = b.
Proof.
  destruct a, b; unfold res_eqb; simpl; intros H.
  repeat (apply andb_prop in H; let H' := fresh "E" in destruct H as [H H']).
  repeat match goal with
  | E : eqb _ _ = true |- _ => apply eqb_prop in E
  | E : dec_eqb _ _ = true |- _ => apply dec_eqb_eq in E
  | E : timer_eqb _ _ = true |- _ => apply timer_eqb_eq in E
  | E : punch_eqb _ _ = true |- _ => apply punch_eqb_eq in E
  end.
  subst. reflexivity.
Qed.

Lemma invalid_ignored_off r x : decide r = Some x -> r_cert r = CInvalid -> r_dinv r = false ->
  decide (with_cert COk r) = Some x.
Proof.
  intros Hd Hc Hi. pose proof (tab_forall_spec _ invalid_off_b r x Hd) as H. cbv beta in H.
  rewrite Hc, Hi in H. simpl in H. destruct (decide (with_cert COk r)) as [x'|]; [|discriminate].
  apply res_eqb_eq in H. now subst.
Qed.

Lemma exhausted_dropped r x : decide r = Some x -> r_exh r = true ->
  d_removed x = true /\ d_notify x = false /\ (cc r = false -> d_dec x = DDelete).
Proof.
  intros Hd He. pose proof (tab_forall_spec _ exhausted_b r x Hd) as H. cbv beta in H.
  rewrite He in H. simpl in H. split_and H. apply negb_true_iff in H1.
  repeat split; auto. intros Hc. rewrite Hc in H0. simpl in H0. now apply dec_eqb_eq.
Qed.

Lemma unanswered_dropped r x : decide r = Some x -> r_pd r = true -> r_in r = false ->
  d_removed x = true /\ (cc r = false -> d_dec x = DDelete).
Proof.
  intros Hd Hp Hi. pose proof (tab_forall_spec _ unanswered_b r x Hd) as H. cbv beta in H.
  rewrite Hp, Hi in H. simpl in H. split_and H. split; auto.
  intros Hc. rewrite Hc in H0. simpl in H0. now apply dec_eqb_eq.
Qed.

Lemma close_only_if r x : decide r = Some x -> d_dec x = DClose -> cc r = false ->
  r_primary r = true /\ r_dropi r = true /\ r_idle r = true /\ r_in r = false /\ r_out r = false.
Proof.
  intros Hd Hc Hn. pose proof (tab_forall_spec _ close_only_if_b r x Hd) as H. cbv beta in H.
  rewrite Hc, Hn in H. simpl in H. unfold idle_close in H. split_and H.
  apply negb_true_iff in H0, H1. auto.
Qed.

Lemma inbound_kept r x : decide r = Some x -> r_in r = true -> cc r = false -> r_exh r = false ->
  d_removed x = false /\ d_pd x = false /\ d_timer x = TCheck.
Proof.
  intros Hd Hi Hc He. pose proof (tab_forall_spec _ inbound_b r x Hd) as H. cbv beta in H.
  rewrite Hi, Hc, He in H. simpl in H. split_and H. apply negb_true_iff in H, H1. apply timer_eqb_eq in H0. auto.
Qed.

Lemma removed_exact r x : decide r = Some x ->
  d_removed x = exact_removed r /\ d_notify x = exact_notify r /\ d_removed x = removing (d_dec x).
Proof.
  intros Hd. pose proof (tab_forall_spec _ exact_b r x Hd) as H. cbv beta in H. split_and H.
  apply eqb_prop in H, H0, H1. auto.
Qed.

Lemma table_meets_spec r x : decide r = Some x -> spec_ok r (d_removed x) (d_notify x) = true.
Proof. intros Hd. exact (tab_forall_spec _ spec_b r x Hd). Qed.

Lemma probe_marks r x : decide r = Some x -> d_probe x = true ->
  d_dec x = DProbe /\ d_pd x = true /\ d_timer x = TPending /\ d_removed x = false /\
  r_primary r = true /\ r_out r = true /\ r_in r = false /\ r_pd r = false.
Proof.
  intros Hd Hp. pose proof (tab_forall_spec _ probe_b r x Hd) as H. cbv beta in H. split_and H.
  rewrite Hp in H, H0. simpl in H0. apply eqb_prop in H. symmetry in H. apply dec_eqb_eq in H.
  split_and H0. apply timer_eqb_eq in H6. apply negb_true_iff in H5, H2, H1. auto 10.
Qed.

Lemma probe_iff_decision r x : decide r = Some x -> (d_probe x = true <-> d_dec x = DProbe).
Proof.
  intros Hd. pose proof (tab_forall_spec _ probe_b r x Hd) as H. cbv beta in H. split_and H.
  apply eqb_prop in H. rewrite H. apply dec_eqb_eq.
Qed.

Lemma rehs_attempted_iff r x : decide r = Some x -> (d_dec x = DRehs <-> rehs_attempt r = true).
Proof.
  intros Hd. pose proof (tab_forall_spec _ rehs_attempt_b r x Hd) as H. cbv beta in H.
  apply eqb_prop in H. rewrite <- H. symmetry. apply dec_eqb_eq.
Qed.

Lemma kept_consumes r x : decide r = Some x -> d_removed x = false ->
  d_clear x = true /\ d_touch x = (r_in r || r_out r).
Proof.
  intros Hd Hr. pose proof (tab_forall_spec _ kept_b r x Hd) as H. cbv beta in H.
  rewrite Hr in H. simpl in H. split_and H. apply eqb_prop in H0. auto.
Qed.

Lemma rehs_total h : rh_wf h = true <-> exists y, rehs_decide h = Some y.
Proof.
  pose proof (rh_all_spec _ rehs_b h) as H. cbv beta in H. split_and H. apply eqb_prop in H. rewrite H.
  destruct (rehs_decide h) as [y|]; simpl; split; intros E; try reflexivity; try discriminate.
  - now exists y.
  - destruct E as [y E]. discriminate.
Qed.

Lemma rehs_started_iff h y : rehs_decide h = Some y ->
  (y <> HNone <-> h_lc h = false \/ h_up h = true \/ h_se h = false \/ h_bi h = true \/ h_rk h = true).
Proof.
  intros Hd. pose proof (rh_all_spec _ rehs_b h) as H. cbv beta in H. split_and H. rewrite Hd in H0.
  apply eqb_prop in H0. unfold rehs_cond in H0.
  destruct h as [lc up se bi rk]; simpl in *.
  destruct y, lc, up, se, bi, rk; simpl in H0; try discriminate; split; intros E; try congruence; intuition congruence.
Qed.

Lemma rehs_peer_version h y : rehs_decide h = Some y -> (y = HStartPeerVersion <-> h_lc h = true /\ h_up h = true).
Proof.
  intros Hd. pose proof (rh_all_spec _ rehs_version_b h) as H. cbv beta in H. rewrite Hd in H.
  apply eqb_prop in H. rewrite <- andb_true_iff, <- H. symmetry. apply hs_eqb_eq.
Qed.

Lemma swap_total s : sw_wf s = true <-> exists b, swap_decide s = Some b.
Proof.
  pose proof (sw_all_spec _ swap_total_b s) as H. cbv beta in H. apply eqb_prop in H. rewrite H.
  destruct (swap_decide s) as [b|]; simpl; split; intros E; try reflexivity; try discriminate.
  - now exists b.
  - destruct E as [b E]. discriminate.
Qed.

Lemma swap_not_past_rekey s : s_rk s = true -> swap_decide s <> Some true.
Proof.
  intros Hr. pose proof (sw_all_spec _ swap_rk_b s) as H. cbv beta in H. rewrite Hr in H. simpl in H.
  intros E. rewrite E in H. discriminate.
Qed.

(* ---- part 3: histories ----------------------------------------------------------------------- *)

(* a well-formed trace: each observation is one [step], states chain, the clock adds up *)
Fixpoint wf_trace (clk : N) (st : tstate) (tr : list obs) : Prop :=
  match tr with
  | [] => True
  | o :: tr' =>
    o_before o = st /\ o_now o = clk + e_dt (o_ev o) /\
    step (o_now o) (o_primary o) st (o_ev o) = Some (o_after o, o_row o, o_res o, o_hs o) /\
    wf_trace (o_now o) (o_after o) tr'
  end.

Lemma run_wf evs : forall clk st tr, run clk st evs = Some tr -> wf_trace clk st tr.
Proof.
  induction evs as [|[pri e] evs IH]; intros clk st tr H; simpl in H.
  - inversion H. exact I.
  - destruct (step (clk + e_dt e) pri st e) as [[[[st' r] x] y]|] eqn:Es; [|discriminate].
    destruct (run (clk + e_dt e) st' evs) as [tr'|] eqn:Er; [|discriminate].
    inversion H; subst. simpl. repeat split; auto.
Qed.

(* a step from a state in the hostmap *)
Lemma step_alive now pri st e st' r x y :
  step now pri st e = Some (st', r, x, y) -> t_alive st = true ->
  exists sw, swap_decide (sw_of e) = Some sw /\ r = row_of st now pri sw e /\ decide r = Some x /\
    t_alive st' = negb (d_removed x) /\ t_pd st' = d_pd x /\
    t_in st' = (if d_clear x then false else r_in r) /\
    t_last st' = (if d_touch x then Some now else t_last st) /\
    (d_dec x = DRehs -> rehs_decide (rh_of e) = Some y) /\ (d_dec x <> DRehs -> y = HNone).
Proof.
  unfold step. intros H Ha. rewrite Ha in H. simpl in H.
  destruct (swap_decide (sw_of e)) as [sw|]; [|discriminate].
  destruct (decide (row_of st now pri sw e)) as [x0|] eqn:Ed; [|discriminate].
  destruct (dec_eqb (d_dec x0) DRehs) eqn:Er.
  - destruct (rehs_decide (rh_of e)) as [y0|] eqn:Eh; [|discriminate].
    inversion H; subst. exists sw. repeat split; auto.
    intros N. apply dec_eqb_eq in Er. contradiction.
  - inversion H; subst. exists sw. repeat split; auto.
    intros E. apply dec_eqb_eq in E. congruence.
Qed.

Lemma step_dead now pri st e st' r x y :
  step now pri st e = Some (st', r, x, y) -> t_alive st = false ->
  t_alive st' = false /\ x = res_unknown /\ y = HNone /\ t_pd st' = t_pd st /\ t_last st' = t_last st.
Proof.
  unfold step. intros H Ha. rewrite Ha in H. simpl in H.
  destruct (swap_decide (sw_of e)) as [sw|]; [|discriminate].
  inversion H; subst. simpl. auto.
Qed.

Definition ev_cc (e : event) : bool := cert_closes (e_cert e) (e_dinv e).
Definition traffic (o : obs) : bool := r_in (o_row o) || r_out (o_row o).

(* (a) a tunnel that received traffic since the previous check survives the check (unless its certificate or
   its counter takes it down) and is not marked *)
Lemma history_survive tr : forall clk st, wf_trace clk st tr ->
  Forall (fun o => t_alive (o_before o) = true -> e_in (o_ev o) = true -> ev_cc (o_ev o) = false ->
                   e_ctr (o_ev o) <> CtrExh -> t_alive (o_after o) = true /\ t_pd (o_after o) = false) tr.
Proof.
  induction tr as [|o tr IH]; intros clk st H; [constructor|].
  simpl in H. destruct H as (Hb & Hn & Hs & Hw). constructor; [|exact (IH _ _ Hw)].
  intros Ha Hi Hc He. rewrite Hb in Ha.
  destruct (step_alive _ _ _ _ _ _ _ _ Hs Ha) as (sw & _ & Hr & Hd & Hal & Hpd & _).
  assert (Hin : r_in (o_row o) = true) by (rewrite Hr; simpl; rewrite Hi; reflexivity).
  assert (Hcc : cc (o_row o) = false) by (rewrite Hr; exact Hc).
  assert (Hex : r_exh (o_row o) = false) by (rewrite Hr; simpl; destruct (e_ctr (o_ev o)); try reflexivity; congruence).
  destruct (inbound_kept _ _ Hd Hin Hcc Hex) as (R & P & _).
  rewrite Hal, Hpd, R, P. auto.
Qed.

(* (b) after a probe, a check that saw no inbound traffic removes the tunnel *)
Lemma history_probe tr : forall clk st, wf_trace clk st tr ->
  forall pre o1 o2 post, tr = pre ++ o1 :: o2 :: post ->
  d_probe (o_res o1) = true -> t_alive (o_before o1) = true -> e_in (o_ev o2) = false ->
  t_alive (o_after o2) = false /\ d_removed (o_res o2) = true.
Proof.
  induction tr as [|o tr IH]; intros clk st H pre o1 o2 post E Hp Ha Hi.
  - destruct pre; discriminate.
  - simpl in H. destruct H as (Hb & Hn & Hs & Hw).
    destruct pre as [|p pre]; simpl in E; inversion E; subst.
    + (* o = o1, head of the rest is o2 *)
      destruct (step_alive _ _ _ _ _ _ _ _ Hs Ha) as (sw & _ & Hr & Hd & Hal & Hpd & Hin & _).
      destruct (probe_marks _ _ Hd Hp) as (_ & Ppd & _ & Prem & _).
      destruct (kept_consumes _ _ Hd Prem) as (Hcl & _).
      simpl in Hw. destruct Hw as (Hb2 & _ & Hs2 & _).
      assert (Ha2 : t_alive (o_after o1) = true) by (rewrite Hal, Prem; reflexivity).
      destruct (step_alive _ _ _ _ _ _ _ _ Hs2 Ha2) as (sw2 & _ & Hr2 & Hd2 & Hal2 & _).
      assert (Hpd2 : r_pd (o_row o2) = true) by (rewrite Hr2; simpl; rewrite Hpd; exact Ppd).
      assert (Hin2 : r_in (o_row o2) = false) by (rewrite Hr2; simpl; rewrite Hi, Hin, Hcl; reflexivity).
      destruct (unanswered_dropped _ _ Hd2 Hpd2 Hin2) as (R & _).
      rewrite Hal2, R. auto.
    + eapply IH; eauto.
Qed.

(* (c) closing for idleness: only with drop_inactive, only a primary, and no earlier than the inactivity
   timeout after every earlier check of this tunnel that saw traffic (and after the initial lastUsed) *)
Lemma history_idle_gen tr : forall clk st (T : list N), wf_trace clk st tr ->
  (forall l, t_last st = Some l -> l <= clk) ->
  (t_alive st = true -> forall t, In t T -> exists l, t_last st = Some l /\ t <= l) ->
  forall pre o post, tr = pre ++ o :: post ->
  d_dec (o_res o) = DClose -> ev_cc (o_ev o) = false ->
  e_dropi (o_ev o) = true /\ o_primary o = true /\
  (forall t, In t T -> e_timeout (o_ev o) <= o_now o - t) /\
  (forall o', In o' pre -> traffic o' = true -> e_timeout (o_ev o) <= o_now o - o_now o').
Proof.
  induction tr as [|o0 tr IH]; intros clk st T H Hclk HT pre o post E Hc Hcc.
  - destruct pre; discriminate.
  - simpl in H. destruct H as (Hb & Hn & Hs & Hw).
    destruct pre as [|p pre]; simpl in E; inversion E; subst.
    + (* the closing check is the head *)
      destruct (t_alive (o_before o)) eqn:Ha.
      * destruct (step_alive _ _ _ _ _ _ _ _ Hs Ha) as (sw & _ & Hr & Hd & _).
        assert (Hcc' : cc (o_row o) = false) by (rewrite Hr; exact Hcc).
        destruct (close_only_if _ _ Hd Hc Hcc') as (P1 & P2 & P3 & _).
        rewrite Hr in P1, P2, P3. simpl in P1, P2, P3.
        repeat split; auto.
        -- intros t Ht. destruct (HT eq_refl t Ht) as (l & El & Hl).
           rewrite El in P3. simpl in P3. apply N.leb_le in P3. specialize (Hclk l El). lia.
        -- intros o' [].
      * destruct (step_dead _ _ _ _ _ _ _ _ Hs Ha) as (_ & Ex & _).
        rewrite Ex in Hc. simpl in Hc. destruct unknown_nothing as [U _]. rewrite U in Hc. discriminate.
    + (* the closing check is later: extend the set of use times by this check if it saw traffic *)
      set (T' := if traffic p then o_now p :: T else T).
      assert (Hclk' : forall l, t_last (o_after p) = Some l -> l <= o_now p).
      { intros l El. destruct (t_alive (o_before p)) eqn:Ha.
        - destruct (step_alive _ _ _ _ _ _ _ _ Hs Ha) as (sw & _ & _ & _ & _ & _ & _ & Hl & _).
          rewrite Hl in El. destruct (d_touch (o_res p)).
          + inversion El. lia.
          + specialize (Hclk l El). lia.
        - destruct (step_dead _ _ _ _ _ _ _ _ Hs Ha) as (_ & _ & _ & _ & Hl).
          rewrite Hl in El. specialize (Hclk l El). lia. }
      assert (HT' : t_alive (o_after p) = true -> forall t, In t T' -> exists l, t_last (o_after p) = Some l /\ t <= l).
      { intros Ha' t Ht. destruct (t_alive (o_before p)) eqn:Ha.
        - destruct (step_alive _ _ _ _ _ _ _ _ Hs Ha) as (sw & _ & Hr & Hd & Hal & _ & _ & Hl & _).
          rewrite Ha' in Hal. symmetry in Hal. apply negb_true_iff in Hal.
          destruct (kept_consumes _ _ Hd Hal) as (_ & Ht').
          unfold T', traffic in Ht. rewrite <- Ht' in Ht. rewrite Hl.
          destruct (d_touch (o_res p)).
          + exists (o_now p). split; [reflexivity|]. destruct Ht as [Ht|Ht]; [lia|].
            destruct (HT eq_refl t Ht) as (l & El & Hle). specialize (Hclk l El). lia.
          + exact (HT eq_refl t Ht).
        - destruct (step_dead _ _ _ _ _ _ _ _ Hs Ha) as (Hd' & _). congruence. }
      destruct (IH _ _ T' Hw Hclk' HT' pre o post eq_refl Hc Hcc) as (Q1 & Q2 & Q3 & Q4).
      repeat split; auto.
      * intros t Ht. apply Q3. unfold T'. destruct (traffic p); [right|]; exact Ht.
      * intros o' [Eo|Ho] Htr; [|exact (Q4 o' Ho Htr)].
        subst o'. apply Q3. unfold T'. rewrite Htr. now left.
Qed.

(* runs never get stuck on feasible environments *)
Lemma step_total now pri st e : ev_feasible e = true -> exists z, step now pri st e = Some z.
Proof.
  intros Hf. unfold step.
  assert (Hsw : sw_wf (sw_of e) = true) by exact Hf.
  apply swap_total in Hsw. destruct Hsw as [sw Hsw]. rewrite Hsw.
  destruct (t_alive st); simpl; [|eauto].
  set (r := row_of st now pri sw e).
  assert (Hfe : feasible r = true).
  { unfold feasible, r. simpl. destruct (is_exh (e_ctr e)) eqn:Ex; [|reflexivity].
    simpl. apply negb_true_iff. destruct sw; [|reflexivity].
    exfalso. apply (swap_not_past_rekey (sw_of e)); [|exact Hsw].
    simpl. destruct (e_ctr e); try discriminate; reflexivity. }
  apply table_total in Hfe. destruct Hfe as [x Hx]. rewrite Hx.
  destruct (dec_eqb (d_dec x) DRehs); [|eauto].
  assert (Hrh : rh_wf (rh_of e) = true) by exact Hf.
  apply rehs_total in Hrh. destruct Hrh as [y Hy]. rewrite Hy. eauto.
Qed.

Lemma run_total evs : forall clk st, Forall (fun pe => ev_feasible (snd pe) = true) evs -> exists tr, run clk st evs = Some tr.
Proof.
  induction evs as [|[pri e] evs IH]; intros clk st H; simpl; [eauto|].
  inversion H; subst. simpl in H2.
  destruct (step_total (clk + e_dt e) pri st e H2) as [[[[st' r] x] y] Hs]. rewrite Hs.
  destruct (IH (clk + e_dt e) st' H3) as [tr Ht]. rewrite Ht. eauto.
Qed.

Lemma history_idle clk st evs tr : run clk st evs = Some tr ->
  (forall l, t_last st = Some l -> l <= clk) ->
  forall pre o post, tr = pre ++ o :: post ->
  d_dec (o_res o) = DClose -> ev_cc (o_ev o) = false ->
  e_dropi (o_ev o) = true /\ o_primary o = true /\
  (forall l, t_last st = Some l -> e_timeout (o_ev o) <= o_now o - l) /\
  (forall o', In o' pre -> traffic o' = true -> e_timeout (o_ev o) <= o_now o - o_now o').
Proof.
  intros Hr Hclk pre o post E Hc Hcc. apply run_wf in Hr.
  set (T := match t_last st with Some l => [l] | None => [] end).
  assert (HT : t_alive st = true -> forall t, In t T -> exists l, t_last st = Some l /\ t <= l).
  { intros _ t Ht. unfold T in Ht. destruct (t_last st) as [l|]; [|destruct Ht].
    destruct Ht as [Ht|[]]. subst. exists t. split; [reflexivity|lia]. }
  destruct (history_idle_gen tr clk st T Hr Hclk HT pre o post E Hc Hcc) as (Q1 & Q2 & Q3 & Q4).
  repeat split; auto. intros l El. apply Q3. unfold T. rewrite El. now left.
Qed.

Lemma history_survive_run clk st evs tr : run clk st evs = Some tr ->
  Forall (fun o => t_alive (o_before o) = true -> e_in (o_ev o) = true -> ev_cc (o_ev o) = false ->
                   e_ctr (o_ev o) <> CtrExh -> t_alive (o_after o) = true /\ t_pd (o_after o) = false) tr.
Proof. intros H. eapply history_survive, run_wf, H. Qed.

Lemma history_probe_run clk st evs tr : run clk st evs = Some tr ->
  forall pre o1 o2 post, tr = pre ++ o1 :: o2 :: post ->
  d_probe (o_res o1) = true -> t_alive (o_before o1) = true -> e_in (o_ev o2) = false ->
  t_alive (o_after o2) = false /\ d_removed (o_res o2) = true.
Proof. intros H. eapply history_probe, run_wf, H. Qed.

(* once removed, a tunnel stays out of the hostmap and further checks do nothing *)
Lemma history_dead tr : forall clk st, wf_trace clk st tr -> t_alive st = false ->
  Forall (fun o => t_alive (o_after o) = false /\ d_dec (o_res o) = DNothing /\ d_removed (o_res o) = false) tr.
Proof.
  induction tr as [|o tr IH]; intros clk st H Ha; [constructor|].
  simpl in H. destruct H as (Hb & Hn & Hs & Hw).
  destruct (step_dead _ _ _ _ _ _ _ _ Hs Ha) as (Hd & Ex & _).
  constructor; [|exact (IH _ _ Hw Hd)].
  rewrite Ex. simpl. destruct unknown_nothing as [U _]. rewrite U. auto.
Qed.

(* Segment_ref: the incremental computation of SegmentTCP / SegmentUDP equals the from-scratch reference
   ([segment_tcp] = Some [segments_ref_tcp], [segment_udp] = Some [segments_ref_udp]) for every well-formed superpacket. *)
From Coq Require Import List NArith ZArith Bool Arith Lia ZifyN ZifyNat ZifyBool.
Import ListNotations.
From NV Require Import lib.Bytes lib.Ones model.Segment proofs.Segment_buf proofs.Segment_arith proofs.Segment_geom.
Open Scope N_scope.
Local Ltac Zify.zify_post_hook ::= Z.div_mod_to_equations.

(* lengths of written buffers, then linear arithmetic *)
Ltac wlen :=
  repeat first [ rewrite wr16_length by wlen | rewrite wr8_length by wlen | rewrite wr32_length by wlen
               | rewrite firstn_length | rewrite sub_length by wlen ];
  lia.

(* ---------------------------------------------------------------------------------------------- *)
(** * L3 *)

Lemma ihl_firstn pkt cs : (1 <= cs)%nat -> ihl_of (firstn cs pkt) = ihl_of pkt.
Proof. intros H. unfold ihl_of. rewrite bat_firstn by lia. reflexivity. Qed.

(* the finished IPv4 header with a zeroed checksum field, restricted to its IHL bytes, and its sum *)
Lemma ipv4_zero_sum h tl id :
  (20 <= length h)%nat -> tl < 65536 -> id < 65536 ->
  let z := wr16 (wr16 (wr16 h 2 tl) 4 id) 10 0 in
  sum16 z + rd16 h 2 + rd16 h 10 + rd16 h 4 = sum16 h + tl + id /\ bat z 0 = bat h 0 /\ length z = length h.
Proof.
  intros Hl Htl Hid z.
  assert (L1 : length (wr16 h 2 tl) = length h) by (apply wr16_length; lia).
  assert (L2 : length (wr16 (wr16 h 2 tl) 4 id) = length h) by (rewrite wr16_length; lia).
  pose proof (sum16_wr16 h 2 tl eq_refl ltac:(lia) Htl) as S1.
  pose proof (sum16_wr16 (wr16 h 2 tl) 4 id eq_refl ltac:(lia) Hid) as S2.
  pose proof (sum16_wr16 (wr16 (wr16 h 2 tl) 4 id) 10 0 eq_refl ltac:(lia) ltac:(lia)) as S3.
  rewrite rd16_wr16_out in S2 by lia.
  rewrite !rd16_wr16_out in S3 by lia.
  fold z in S3. split; [lia|]. split.
  - unfold z. rewrite !bat_wr16_out by lia. reflexivity.
  - unfold z. rewrite wr16_length; lia.
Qed.

Lemma ip_patch_ref_v4 pkt hl cs plen i b :
  bytes_ok pkt = true -> bat pkt 0 / 16 = 4 -> (20 <= ihl_of pkt <= cs)%nat -> (cs <= length pkt)%nat ->
  N.of_nat (hl + plen) <= 65535 ->
  base_ipv4_hdr_sum pkt cs = Some b ->
  ip_patch true (firstn cs pkt) hl plen i (rd16 pkt 4) b =
  ref_ip true (firstn cs pkt) (hl + plen) i (rd16 (firstn cs pkt) 4).
Proof.
  intros Hok Hv Hihl Hcs Hlen Hb.
  unfold base_ipv4_hdr_sum in Hb.
  destruct ((ihl_of pkt <? 20)%nat || (cs <? ihl_of pkt)%nat) eqn:Eb; [discriminate|]. injection Hb as <-.
  unfold ip_patch, ref_ip. rewrite (rd16_firstn cs pkt 4) by lia.
  rewrite ihl_firstn by lia.
  set (iph := firstn cs pkt).
  assert (Liph : length iph = cs) by (unfold iph; rewrite firstn_length; lia).
  set (tl := N.of_nat (hl + plen)).
  assert (Hid : w16 (rd16 pkt 4 + w16 (N.of_nat i)) = (rd16 pkt 4 + N.of_nat i) mod 65536).
  { unfold w16. rewrite N.add_mod_idemp_r by discriminate. reflexivity. }
  rewrite Hid. set (id := (rd16 pkt 4 + N.of_nat i) mod 65536).
  assert (Hidlt : id < 65536) by (unfold id; apply N.mod_lt; discriminate).
  rewrite (w16_small tl) by lia.
  rewrite wr16_wr16_same by wlen.
  f_equal.
  (* the checksum value *)
  set (z := wr16 (wr16 (wr16 iph 2 tl) 4 id) 10 0).
  set (ihl := ihl_of pkt) in *.
  assert (Hz : firstn ihl z = wr16 (wr16 (wr16 (firstn ihl pkt) 2 tl) 4 id) 10 0).
  { unfold z.
    rewrite (firstn_wr16 ihl _ 10 0) by wlen.
    rewrite (firstn_wr16 ihl _ 4 id) by wlen.
    rewrite (firstn_wr16 ihl _ 2 tl) by wlen.
    unfold iph. rewrite firstn_firstn_le by lia. reflexivity. }
  assert (Lh : length (firstn ihl pkt) = ihl) by (rewrite firstn_length; lia).
  destruct (ipv4_zero_sum (firstn ihl pkt) tl id ltac:(lia) ltac:(lia) Hidlt) as (Es & E0 & _).
  rewrite <- Hz in Es, E0.
  rewrite !(rd16_firstn ihl pkt) in Es by lia.
  rewrite (bat_firstn ihl pkt) in E0 by lia.
  unfold csum16, osum, checksum. cbn [N.add].
  rewrite osum0.
  apply ip_csum_core; try (pose proof (bytes_ok_rd16 pkt 2 Hok); pose proof (bytes_ok_rd16 pkt 10 Hok);
                           pose proof (bytes_ok_rd16 pkt 4 Hok); lia).
  pose proof (sum16_ge_first (firstn ihl z)). lia.
Qed.

Lemma ip_patch_ref_v6 iph hl plen i oid b :
  (40 <= hl + plen)%nat -> N.of_nat (hl + plen) <= 65535 ->
  ip_patch false iph hl plen i oid b = ref_ip false iph (hl + plen) i (rd16 iph 4).
Proof.
  intros H40 Hlen. unfold ip_patch, ref_ip. f_equal. unfold w16. lia.
Qed.

(* what the L3 patch leaves alone: length, addresses *)
Definition min_l3 (isV4 : bool) : nat := if isV4 then 20%nat else 40%nat.
Definition addrs (isV4 : bool) (s : list N) : list N := if isV4 then sub s 12 20 else sub s 8 40.

Lemma ref_ip_length isV4 iph segLen i oid : (min_l3 isV4 <= length iph)%nat ->
  length (ref_ip isV4 iph segLen i oid) = length iph.
Proof. intros H. unfold ref_ip. destruct isV4; cbn [min_l3] in H; wlen. Qed.

Lemma ref_ip_addrs isV4 iph segLen i oid : (min_l3 isV4 <= length iph)%nat ->
  addrs isV4 (ref_ip isV4 iph segLen i oid) = addrs isV4 iph.
Proof.
  intros H. unfold ref_ip, addrs. destruct isV4; cbn [min_l3] in H.
  - rewrite !sub_wr16_after by wlen. reflexivity.
  - rewrite sub_wr16_after by wlen. reflexivity.
Qed.

Lemma sum16_pseudo isV4 s proto len : (min_l3 isV4 <= length s)%nat -> len < 65536 ->
  sum16 (pseudo_hdr isV4 s proto len) = sum16 (addrs isV4 s) + proto + len /\
  Nat.even (length (pseudo_hdr isV4 s proto len)) = true.
Proof.
  intros H Hl. destruct isV4; cbn [min_l3] in H; [apply sum16_pseudo_v4|apply sum16_pseudo_v6]; assumption.
Qed.

(* ---------------------------------------------------------------------------------------------- *)
(** * TCP *)

Lemma byte_forall (P : N -> bool) : forallb P (map N.of_nat (seq 0 256)) = true -> forall f, f < 256 -> P f = true.
Proof.
  intros H f Hf. rewrite forallb_forall in H. apply H.
  rewrite <- (N2Nat.id f). apply in_map. apply in_seq. lia.
Qed.

Lemma tcp_flags_le f i n : f < 256 -> tcp_flags f i n <= f.
Proof.
  intros Hf.
  assert (H := byte_forall (fun f => (N.ldiff f 128 <=? f) && (N.ldiff f 9 <=? f) && (N.ldiff (N.ldiff f 128) 9 <=? f))
                 ltac:(vm_compute; reflexivity) f Hf).
  cbv beta in H. apply andb_true_iff in H as [H H3]. apply andb_true_iff in H as [H1 H2].
  unfold tcp_flags. destruct (i =? 0)%nat, (i =? n - 1)%nat; lia.
Qed.

Lemma sub_firstn (l : list N) n a b : (b <= n)%nat -> sub (firstn n l) a b = sub l a b.
Proof.
  intros H. unfold sub. rewrite skipn_firstn_comm. rewrite firstn_firstn. f_equal. lia.
Qed.

Lemma base_pseudo_sum_addrs pkt cs isV4 p : (min_l3 isV4 <= cs)%nat ->
  base_pseudo_sum pkt isV4 p = w32 (fold16 (sum16 (addrs isV4 (firstn cs pkt))) + p).
Proof.
  intros H. unfold base_pseudo_sum, addrs, checksum. destruct isV4; cbn [min_l3] in H;
    rewrite sub_firstn by lia; rewrite osum0; reflexivity.
Qed.

(* the finished TCP header with a zeroed checksum field, and its sum *)
Lemma tcp_zero_sum l4h seq' f' :
  (20 <= length l4h)%nat -> seq' < 4294967296 ->
  let z := wr16 (wr8 (wr32 l4h 4 seq') 13 f') 16 0 in
  sum16 z + rd16 l4h 4 + rd16 l4h 6 + bat l4h 13 + rd16 l4h 16 = sum16 l4h + seq' / 65536 + seq' mod 65536 + f' mod 256
  /\ length z = length l4h.
Proof.
  intros Hl Hs z.
  pose proof (sum16_wr32 l4h 4 seq' eq_refl ltac:(lia) Hs) as S1. cbn [Nat.add] in S1.
  set (X1 := wr32 l4h 4 seq') in *.
  assert (L1 : length X1 = length l4h) by (unfold X1; wlen).
  pose proof (sum16_wr8_odd X1 13 f' eq_refl ltac:(lia)) as S2.
  assert (B : bat X1 13 = bat l4h 13).
  { unfold X1, wr32. rewrite !bat_wr16_out by wlen. reflexivity. }
  rewrite B in S2.
  set (X2 := wr8 X1 13 f') in *.
  assert (L2 : length X2 = length l4h) by (unfold X2; wlen).
  pose proof (sum16_wr16 X2 16 0 eq_refl ltac:(lia) ltac:(lia)) as S3. fold z in S3.
  assert (R : rd16 X2 16 = rd16 l4h 16).
  { unfold X2. rewrite rd16_wr8_out by lia. unfold X1, wr32. rewrite !rd16_wr16_out by wlen. reflexivity. }
  rewrite R in S3. split; [lia|]. unfold z. wlen.
Qed.

Lemma tcp_l4_ref isV4 iph' l4h chunk numSeg i off A :
  bytes_ok l4h = true -> (20 <= length l4h)%nat -> Nat.even (length l4h) = true -> (min_l3 isV4 <= length iph')%nat ->
  N.of_nat (length l4h + length chunk) <= 65535 ->
  sum16 (addrs isV4 iph') = A ->
  let seq0 := rd32 l4h 4 in
  let f0 := bat l4h 13 in
  let segSeq := w32 (seq0 + w32 (N.of_nat off)) in
  let segFlags := tcp_flags f0 i numSeg in
  let baseTcp := fold2 (w32 (fold16 (sum16 l4h) + cpl16 (w16 (seq0 / 65536)) + cpl16 (w16 seq0) + cpl16 f0
                             + cpl16 (rd16 l4h 16))) in
  let wide := w64 (baseTcp + fold16 (sum16 chunk) + w32 (fold16 A + 6) + segSeq + segFlags
                   + N.of_nat (length l4h + length chunk)) in
  tcp_l4_patch l4h segSeq segFlags (fold_complement (w32 (fold32_step (fold32_step wide)))) =
  let z := wr16 (wr8 (wr32 l4h 4 ((seq0 + N.of_nat off) mod 4294967296)) 13 (tcp_flags f0 i numSeg)) 16 0 in
  wr16 z 16 (csum16 (pseudo_hdr isV4 iph' IPPROTO_TCP (N.of_nat (length l4h + length chunk)) ++ z ++ chunk) 0).
Proof.
  intros Hok Hl He Hip Hlen HA seq0 f0 segSeq segFlags baseTcp wide.
  assert (Hseq : segSeq = (seq0 + N.of_nat off) mod 4294967296).
  { unfold segSeq, w32. rewrite N.add_mod_idemp_r by discriminate. reflexivity. }
  cbv zeta. rewrite <- Hseq. fold segFlags.
  assert (Hs32 : segSeq < 4294967296) by (rewrite Hseq; apply N.mod_lt; discriminate).
  unfold tcp_l4_patch. cbv zeta.
  rewrite wr16_wr16_same by wlen. f_equal.
  set (z := wr16 (wr8 (wr32 l4h 4 segSeq) 13 segFlags) 16 0).
  destruct (tcp_zero_sum l4h segSeq segFlags Hl Hs32) as [Es Lz]. fold z in Es, Lz.
  pose proof (bytes_ok_bat l4h 13 Hok) as Hf0. fold f0 in Hf0.
  pose proof (tcp_flags_le f0 i numSeg Hf0) as Hfl. fold segFlags in Hfl.
  rewrite (N.mod_small segFlags) in Es by lia.
  pose proof (bytes_ok_rd16 l4h 4 Hok) as H4. pose proof (bytes_ok_rd16 l4h 6 Hok) as H6.
  pose proof (bytes_ok_rd16 l4h 16 Hok) as H16.
  set (tcpLen := N.of_nat (length l4h + length chunk)) in *.
  destruct (sum16_pseudo isV4 iph' IPPROTO_TCP tcpLen Hip ltac:(lia)) as [Ep Eev].
  unfold csum16, osum. cbn [N.add].
  rewrite sum16_app by exact Eev. rewrite sum16_app by (rewrite Lz; exact He).
  rewrite Ep, HA.
  replace (A + IPPROTO_TCP + tcpLen + (sum16 z + sum16 chunk)) with (A + 6 + tcpLen + sum16 z + sum16 chunk)
    by (unfold IPPROTO_TCP; lia).
  unfold wide, baseTcp.
  assert (Eseq : seq0 = rd16 l4h 4 * 65536 + rd16 l4h 6) by reflexivity.
  assert (Ehi : seq0 / 65536 = rd16 l4h 4) by lia.
  assert (Elo : w16 seq0 = w16 (rd16 l4h 6)) by (unfold w16; lia).
  rewrite Ehi, Elo.
  apply tcp_csum_core; lia.
Qed.

Lemma is_v4_cases pkt : (bat pkt 0 / 16 = 4 -> is_v4 pkt = true) /\ (bat pkt 0 / 16 = 6 -> is_v4 pkt = false).
Proof. unfold is_v4. split; intros ->; reflexivity. Qed.

(* everything the proofs use about a well-formed superpacket's geometry *)
Lemma wf_common_facts pkt hl cs g : wf_common pkt hl cs g ->
  bytes_ok pkt = true /\ (1 <= g)%nat /\ (hl <= length pkt)%nat /\ (hl <= 120)%nat /\
  N.of_nat (hl + Nat.min g (length pkt - hl)) <= 65535 /\
  (min_l3 (is_v4 pkt) <= cs)%nat /\
  (is_v4 pkt = true -> bat pkt 0 / 16 = 4 /\ (20 <= ihl_of pkt <= cs)%nat) /\
  (is_v4 pkt = false -> (40 <= cs)%nat).
Proof.
  intros (Hok & Hg & Hhl & H120 & Hlen & Hv).
  destruct (is_v4_cases pkt) as [C4 C6].
  split; [exact Hok|]. split; [exact Hg|]. split; [exact Hhl|]. split; [exact H120|]. split; [exact Hlen|].
  destruct Hv as [[Hv Hi]|[Hv Hc]].
  - rewrite (C4 Hv). cbn [min_l3]. split; [lia|]. split; [intros _; split; [exact Hv|exact Hi]|discriminate].
  - rewrite (C6 Hv). cbn [min_l3]. split; [lia|]. split; [discriminate|intros _; exact Hc].
Qed.

Lemma seg_len_bound pkt hl g i :
  N.of_nat (hl + Nat.min g (length pkt - hl)) <= 65535 ->
  N.of_nat (hl + length (chunk_ref (skipn hl pkt) g i)) <= 65535.
Proof. intros H. rewrite chunk_ref_length, skipn_length. lia. Qed.

(* the L3 patch of segment i equals the reference, v4 and v6 *)
Lemma ip_patch_ref pkt hl cs g plen i oid b :
  wf_common pkt hl cs g -> (cs <= hl)%nat -> N.of_nat (hl + plen) <= 65535 ->
  (is_v4 pkt = true -> base_ipv4_hdr_sum pkt cs = Some b /\ oid = rd16 pkt 4) ->
  ip_patch (is_v4 pkt) (firstn cs pkt) hl plen i oid b =
  ref_ip (is_v4 pkt) (firstn cs pkt) (hl + plen) i (rd16 (firstn cs pkt) 4).
Proof.
  intros W Hcs Hlen Hb. destruct (wf_common_facts _ _ _ _ W) as (Hok & Hg & Hhl & H120 & _ & Hmin & H4 & H6).
  destruct (is_v4 pkt) eqn:E.
  - destruct (Hb eq_refl) as [Hb1 ->]. destruct (H4 eq_refl) as [Hv Hihl].
    apply ip_patch_ref_v4; try assumption. lia.
  - specialize (H6 eq_refl). apply ip_patch_ref_v6; lia.
Qed.

Lemma tcp_seg_ref pkt hl cs g i oid b :
  wf_tcp pkt hl cs g -> (i < seg_count (length pkt - hl) g)%nat ->
  (is_v4 pkt = true -> base_ipv4_hdr_sum pkt cs = Some b /\ oid = rd16 pkt 4) ->
  tcp_seg pkt hl cs g (is_v4 pkt) (tcp_hdr_len pkt cs) (seg_count (length pkt - hl) g) (rd32 pkt (cs + 4))
          (bat pkt (cs + 13)) (base_pseudo_sum pkt (is_v4 pkt) IPPROTO_TCP) (base_tcp_hdr_sum pkt cs hl) oid b i =
  ref_tcp_seg (is_v4 pkt) (firstn cs pkt) (sub pkt cs hl) (seg_count (length pkt - hl) g) i (i * g)
              (chunk_ref (skipn hl pkt) g i).
Proof.
  intros [W [Hthl Hhl]] Hi Hb.
  destruct (wf_common_facts _ _ _ _ W) as (Hok & Hg & Hlen & H120 & Hfit & Hmin & H4 & H6).
  set (thl := tcp_hdr_len pkt cs) in *.
  assert (Ev : Nat.even thl = true) by (unfold thl, tcp_hdr_len; apply even_mul4).
  unfold tcp_seg, ref_tcp_seg.
  rewrite chunk_of_ref by exact Hlen. rewrite seg_pay_len by exact Hlen.
  set (chunk := chunk_ref (skipn hl pkt) g i).
  pose proof (seg_len_bound pkt hl g i Hfit) as Hsl. fold chunk in Hsl.
  set (iph := firstn cs pkt). set (l4h := sub pkt cs hl).
  assert (Liph : length iph = cs) by (unfold iph; rewrite firstn_length; lia).
  assert (Ll4 : length l4h = thl) by (unfold l4h; rewrite sub_length; lia).
  assert (Ok4 : bytes_ok l4h = true) by (apply bytes_ok_sub; exact Hok).
  cbv zeta.
  replace (length iph + length l4h + length chunk)%nat with (hl + length chunk)%nat by lia.
  pose proof (ip_patch_ref pkt hl cs g (length chunk) i oid b W ltac:(lia) Hsl Hb) as EIP. fold iph in EIP.
  rewrite <- EIP. f_equal. f_equal.
  (* the L4 header *)
  assert (Lip : (min_l3 (is_v4 pkt) <= length (ip_patch (is_v4 pkt) iph hl (length chunk) i oid b))%nat).
  { rewrite EIP, ref_ip_length; lia. }
  assert (EA : sum16 (addrs (is_v4 pkt) (ip_patch (is_v4 pkt) iph hl (length chunk) i oid b)) =
               sum16 (addrs (is_v4 pkt) iph)).
  { rewrite EIP, ref_ip_addrs by lia. reflexivity. }
  pose proof (tcp_l4_ref (is_v4 pkt) _ l4h chunk (seg_count (length pkt - hl) g) i (i * g) _
                ltac:(exact Ok4) ltac:(lia) ltac:(rewrite Ll4; exact Ev) Lip ltac:(lia) EA) as R.
  cbv zeta in R.
  unfold l4h in R at 1 2 3. 
  rewrite <- R. clear R.
  unfold base_tcp_hdr_sum, checksum, seg_start.
  rewrite (base_pseudo_sum_addrs pkt cs) by lia. fold iph. rewrite !osum0.
  unfold l4h. rewrite !rd32_sub, !bat_sub, !rd16_sub by lia. fold l4h.
  rewrite Ll4. reflexivity.
Qed.

Lemma base_ipv4_some pkt cs : (20 <= ihl_of pkt <= cs)%nat -> exists b, base_ipv4_hdr_sum pkt cs = Some b.
Proof.
  intros H. unfold base_ipv4_hdr_sum.
  destruct (Nat.ltb_spec (ihl_of pkt) 20); [lia|]. destruct (Nat.ltb_spec cs (ihl_of pkt)); [lia|].
  cbn [orb]. eexists. reflexivity.
Qed.

(* the (origID, baseIP) pair the loop uses *)
Lemma ip_base_pair pkt hl cs g : wf_common pkt hl cs g ->
  exists oid b,
    (if is_v4 pkt then option_map (fun b => (rd16 pkt 4, b)) (base_ipv4_hdr_sum pkt cs) else Some (0, 0)) = Some (oid, b) /\
    (is_v4 pkt = true -> base_ipv4_hdr_sum pkt cs = Some b /\ oid = rd16 pkt 4).
Proof.
  intros W. destruct (wf_common_facts _ _ _ _ W) as (_ & _ & _ & _ & _ & _ & H4 & _).
  destruct (is_v4 pkt).
  - destruct (H4 eq_refl) as [_ Hi]. destruct (base_ipv4_some pkt cs Hi) as [b Hb].
    exists (rd16 pkt 4), b. rewrite Hb. split; [reflexivity|]. intros _. split; reflexivity.
  - exists 0, 0. split; [reflexivity|discriminate].
Qed.

Theorem segment_tcp_ref pkt hl cs g :
  wf_tcp pkt hl cs g -> segment_tcp pkt hl cs g = Some (segments_ref_tcp pkt hl cs g).
Proof.
  intros WF. pose proof WF as [W [Hthl Hhl]].
  destruct (wf_common_facts _ _ _ _ W) as (Hok & Hg & Hlen & H120 & Hfit & Hmin & H4 & H6).
  unfold segment_tcp.
  destruct (Nat.eqb_spec g 0); [lia|].
  destruct (Nat.eqb_spec cs 0); [destruct (is_v4 pkt); cbn [min_l3] in Hmin; lia|].
  destruct (Nat.ltb_spec 120 hl); [lia|].
  destruct (ip_base_pair pkt hl cs g W) as (oid & b & Ep & Hb).
  rewrite Ep. f_equal. unfold segments_ref_tcp. rewrite skipn_length.
  apply map_ext_in. intros i Hin. apply in_seq in Hin.
  apply (tcp_seg_ref pkt hl cs g i oid b WF); [lia|exact Hb].
Qed.

(* ---------------------------------------------------------------------------------------------- *)
(** * UDP *)

Lemma udp_seg_ref pkt hl cs g i oid b :
  wf_udp pkt hl cs g -> (i < seg_count (length pkt - hl) g)%nat ->
  (is_v4 pkt = true -> base_ipv4_hdr_sum pkt cs = Some b /\ oid = rd16 pkt 4) ->
  udp_seg pkt hl cs g (is_v4 pkt) (base_pseudo_sum pkt (is_v4 pkt) IPPROTO_UDP) oid b i =
  ref_udp_seg (is_v4 pkt) (firstn cs pkt) (sub pkt cs hl) i (chunk_ref (skipn hl pkt) g i).
Proof.
  intros [W Hhl] Hi Hb.
  destruct (wf_common_facts _ _ _ _ W) as (Hok & Hg & Hlen & H120 & Hfit & Hmin & H4 & H6).
  unfold udp_seg, ref_udp_seg.
  rewrite chunk_of_ref by exact Hlen. rewrite seg_pay_len by exact Hlen.
  set (chunk := chunk_ref (skipn hl pkt) g i).
  pose proof (seg_len_bound pkt hl g i Hfit) as Hsl. fold chunk in Hsl.
  set (iph := firstn cs pkt). set (l4h := sub pkt cs hl).
  assert (Liph : length iph = cs) by (unfold iph; rewrite firstn_length; lia).
  assert (Ll4 : length l4h = 8%nat) by (unfold l4h; rewrite sub_length; lia).
  cbv zeta. rewrite Ll4.
  replace (length iph + 8 + length chunk)%nat with (hl + length chunk)%nat by lia.
  pose proof (ip_patch_ref pkt hl cs g (length chunk) i oid b W ltac:(lia) Hsl Hb) as EIP. fold iph in EIP.
  rewrite <- EIP.
  set (iph' := ip_patch (is_v4 pkt) iph hl (length chunk) i oid b) in *.
  set (ulen := N.of_nat (8 + length chunk)).
  assert (Hul : ulen <= 65535) by (unfold ulen; lia).
  rewrite (w16_small ulen) by lia.
  change (wr (wr16 l4h 4 ulen) 6 [0; 0]) with (wr16 (wr16 l4h 4 ulen) 6 0).
  set (z := wr16 (wr16 l4h 4 ulen) 6 0).
  assert (Lz : length z = 8%nat) by (unfold z; wlen).
  assert (Lip : (min_l3 (is_v4 pkt) <= length iph')%nat) by (rewrite EIP, ref_ip_length; lia).
  assert (EA : sum16 (addrs (is_v4 pkt) iph') = sum16 (addrs (is_v4 pkt) iph))
    by (rewrite EIP, ref_ip_addrs by lia; reflexivity).
  assert (EC : cpl16 (checksum (z ++ chunk) (w16 (fold2 (w32 (base_pseudo_sum pkt (is_v4 pkt) IPPROTO_UDP + w32 ulen))))) =
               csum16 (pseudo_hdr (is_v4 pkt) iph' IPPROTO_UDP ulen ++ z ++ chunk) 0).
  { unfold csum16, checksum, osum. f_equal. cbn [N.add].
    destruct (sum16_pseudo (is_v4 pkt) iph' IPPROTO_UDP ulen Lip ltac:(lia)) as [Ep Eev].
    rewrite (sum16_app (pseudo_hdr _ _ _ _)) by exact Eev. rewrite Ep, EA.
    rewrite (base_pseudo_sum_addrs pkt cs) by lia. fold iph.
    unfold IPPROTO_UDP. apply udp_csum_core. lia. }
  rewrite EC. reflexivity.
Qed.

Theorem segment_udp_ref pkt hl cs g :
  wf_udp pkt hl cs g -> segment_udp pkt hl cs g = Some (segments_ref_udp pkt hl cs g).
Proof.
  intros WF. pose proof WF as [W Hhl].
  destruct (wf_common_facts _ _ _ _ W) as (Hok & Hg & Hlen & H120 & Hfit & Hmin & H4 & H6).
  unfold segment_udp.
  destruct (Nat.eqb_spec g 0); [lia|].
  destruct (Nat.eqb_spec cs 0); [destruct (is_v4 pkt); cbn [min_l3] in Hmin; lia|].
  destruct (Nat.ltb_spec 120 hl); [lia|].
  destruct (Nat.eqb_spec hl (cs + 8)); [|lia]. cbn [negb].
  destruct (ip_base_pair pkt hl cs g W) as (oid & b & Ep & Hb).
  rewrite Ep. f_equal. unfold segments_ref_udp. rewrite skipn_length.
  apply map_ext_in. intros i Hin. apply in_seq in Hin.
  apply (udp_seg_ref pkt hl cs g i oid b WF); [lia|exact Hb].
Qed.

(* Proofs for properties C18 and C19: the model of Drop / reloadFirewall (model/Conntrack.v, model/FwReload.v)
   satisfies the per-flow specification [flow_ok] on every history, i.e. the verdicts of a flow are the function
   [flow_fn] of that flow's own packets, which gives independence of flows; direct corollaries
   (idle expiry, a refused flow stays refused, revalidation after reload, same-rules reload). *)
From Coq Require Import List ZArith NArith Bool Lia.
Import ListNotations.
From NV Require Import model.Wheel gen.Consts_Conntrack model.Conntrack model.FwReload proofs.Conntrack_proofs.
Open Scope Z_scope.

Section Run.
Variable allowed : N -> N -> bool -> tuple -> bool.
Variable addr_ok : N -> N -> tuple -> bool.

Notation step := (step allowed addr_ok).
Notation exec := (exec allowed addr_ok).
Notation verdicts := (verdicts allowed addr_ok).
Notation flow_ok := (flow_ok allowed addr_ok).
Notation flow_fn := (flow_fn allowed addr_ok).
Notation fl_verdict := (fl_verdict allowed addr_ok).
Notation fl_live := (fl_live allowed).
Notation s_step := (s_step allowed addr_ok).
Notation quiet := (quiet allowed addr_ok).
Notation fl_next := (fl_next allowed addr_ok).
Notation tail_o := (tail_o allowed).
Notation drop_tail := (drop_tail allowed).

Definition conns_of (n : node) : cmap := ct_conns (n_ct n).

(* ---- invariants of the node ---------------------------------------------------------------------------- *)

(* no entry carries a version above the firewall's; the firewall's version is a uint16 *)
Definition vinv (n : node) : Prop :=
  (f_ver (n_fw n) < 65536)%N /\
  forall t c, cfind t (conns_of n) = Some c -> (c_ver c <= f_ver (n_fw n))%N.

(* an entry stamped with the current version was validated against the rule set currently loaded: some peer
   owning the remote address was allowed in the entry's original direction *)
Definition ivalid (n : node) : Prop :=
  forall t c, cfind t (conns_of n) = Some c -> c_ver c = f_ver (n_fw n) ->
    exists p, addr_ok (f_rules (n_fw n)) p t = true /\ allowed (f_rules (n_fw n)) p (c_in c) t = true.

(* ---- the relation between the node and the specification state of flow f -------------------------------- *)

Definition matches (fw : fwcfg) (c : conn) (e : Z) (d0 fr : bool) : Prop :=
  c_exp c = e /\ c_in c = d0 /\ fr = N.eqb (c_ver c) (f_ver fw).

Definition Rfs (fw : fwcfg) (now : Z) (fs : fstate) (o : option conn) : Prop :=
  match fs with
  | FNone => match o with Some c => c_exp c < now | None => True end
  | FKnown e d0 fr =>
      match o with
      | Some c => (c_exp c < now /\ e < now) \/ matches fw c e d0 fr
      | None => e < now
      end
  end.

Definition Rf (f : tuple) (n : node) (s : sstate) : Prop :=
  n_fw n = s_fw s /\ n_now n = s_now s /\ Rfs (s_fw s) (s_now s) (s_fs s) (cfind f (conns_of n)).

Lemma Rfs_shrinks fw now fs m m' f : shrinks now m m' -> Rfs fw now fs (cfind f m) -> Rfs fw now fs (cfind f m').
Proof.
  intros S R. destruct (S f) as [S1 S2]. destruct fs as [|e d0 fr]; cbn [Rfs] in *.
  - destruct (cfind f m') as [c|] eqn:F'; [|exact I]. now rewrite (S1 c eq_refl) in R.
  - destruct (cfind f m') as [c|] eqn:F'.
    + now rewrite (S1 c eq_refl) in R.
    + destruct (cfind f m) as [c|] eqn:F; [|exact R].
      destruct R as [[_ R]|[E _]]; [exact R|].
      destruct (Z.lt_ge_cases e now) as [L|L]; [exact L|].
      assert (X : None = Some c) by (apply S2; [reflexivity|lia]). discriminate X.
Qed.

Lemma Rfs_time fw now now' fs o : now <= now' -> Rfs fw now fs o -> Rfs fw now' fs o.
Proof.
  intros L R. destruct fs as [|e d0 fr]; cbn [Rfs] in *.
  - destruct o; [lia|exact I].
  - destruct o; [|lia]. destruct R as [[R1 R2]|R]; [left; lia|now right].
Qed.

(* ---- one packet of flow f: the verdict is the specification's, and the relation is kept ------------------- *)

Ltac fin :=
  cbn [fst snd Rfs c_exp c_in c_ver negb andb orb after_rules]; unfold matches;
  cbn [c_exp c_in c_ver]; rewrite ?N.eqb_refl;
  first [ exact I
        | split; [reflexivity|];
          first [ exact I | lia | assumption
                | right; repeat split; (reflexivity || lia || assumption)
                | left; split; lia ] ].

Lemma tail_spec fw now fs p d f o :
  addr_ok (f_rules fw) p f = true -> Rfs fw now fs o ->
  fst (tail_o fw p now d f o) = fl_verdict fw now fs p d f /\
  Rfs fw now (fl_next fw now fs p d f) (snd (tail_o fw p now d f o)).
Proof.
  intros A R. unfold FwReload.fl_verdict, FwReload.fl_next, FwReload.fl_live, Conntrack_proofs.tail_o.
  rewrite A. cbn [negb andb].
  destruct o as [[ce ci cv]|]; cbn [c_exp c_in c_ver].
  - destruct fs as [|e d0 fr]; cbn [Rfs c_exp] in R.
    + pose proof R as R'. apply Z.ltb_lt in R'. rewrite R'. cbn [orb].
      destruct (allowed (f_rules fw) p d f); fin.
    + destruct R as [[R1 R2]|[M1 [M2 M3]]]; cbn [c_exp c_in c_ver] in *.
      * pose proof R1 as R1'. apply Z.ltb_lt in R1'. rewrite R1'.
        pose proof R2 as R2'. apply Z.ltb_lt in R2'. rewrite R2'. cbn [negb andb orb].
        destruct (allowed (f_rules fw) p d f); fin.
      * subst ce ci fr.
        replace (negb (N.eqb cv (f_ver fw)) && negb (allowed (f_rules fw) p d0 f))
          with (negb (N.eqb cv (f_ver fw) || allowed (f_rules fw) p d0 f)) by (now rewrite negb_orb).
        destruct (e <? now) eqn:H1.
        -- pose proof H1 as H1'. apply Z.ltb_lt in H1'. cbn [negb andb orb].
           destruct (allowed (f_rules fw) p d f); fin.
        -- apply Z.ltb_ge in H1. cbn [negb andb].
           destruct (N.eqb cv (f_ver fw) || allowed (f_rules fw) p d0 f); cbn [negb orb].
           ++ fin.
           ++ destruct (allowed (f_rules fw) p d f); fin.
  - destruct fs as [|e d0 fr]; cbn [Rfs] in R.
    + cbn [orb]. destruct (allowed (f_rules fw) p d f); fin.
    + pose proof R as R'. apply Z.ltb_lt in R'. rewrite R'. cbn [negb andb orb].
      destruct (allowed (f_rules fw) p d f); fin.
Qed.

(* ---- what one event does to the node -------------------------------------------------------------------- *)

Definition pkt_o (p : N) (d : bool) (t : tuple) (n : node) : bool * option conn :=
  tail_o (n_fw n) p (n_now n) d t (cfind t (ct_conns (pre_purge (n_now n) (n_ct n)))).

Lemma step_pkt_fw p d t n : n_fw (snd (step (EPkt p d t) n)) = n_fw n /\ n_now (snd (step (EPkt p d t) n)) = n_now n.
Proof. unfold FwReload.step. destruct (drop _ _ _ _ _ _ _ _). split; reflexivity. Qed.

Lemma step_pkt_refused p d t n :
  addr_ok (f_rules (n_fw n)) p t = false -> step (EPkt p d t) n = (Some false, n).
Proof. intros A. unfold FwReload.step. rewrite drop_unfold, A. cbn [negb]. now destruct n. Qed.

Lemma step_pkt_same p d t n :
  addr_ok (f_rules (n_fw n)) p t = true ->
  fst (step (EPkt p d t) n) = Some (fst (pkt_o p d t n)) /\
  cfind t (conns_of (snd (step (EPkt p d t) n))) = snd (pkt_o p d t n).
Proof.
  intros A. unfold FwReload.step. rewrite drop_unfold, A. cbn [negb].
  pose proof (drop_tail_same allowed (n_fw n) p (n_now n) d t (pre_purge (n_now n) (n_ct n))) as S. cbv zeta in S.
  destruct (drop_tail _ _ _ _ _ _) as [v ct2]. cbn [fst snd] in *. unfold pkt_o, conns_of. cbn [n_ct].
  rewrite <- S. split; reflexivity.
Qed.

(* the entries of the other flows: untouched, or removed because their time had come *)
Lemma step_pkt_frame p d t n f :
  tuple_eqb f t = false ->
  exists m1, shrinks (n_now n) (conns_of n) m1 /\ cfind f (conns_of (snd (step (EPkt p d t) n))) = cfind f m1.
Proof.
  intros NE. destruct (addr_ok (f_rules (n_fw n)) p t) eqn:A.
  - exists (ct_conns (pre_purge (n_now n) (n_ct n))). split; [apply pre_purge_shrinks|].
    unfold FwReload.step. rewrite drop_unfold, A. cbn [negb].
    pose proof (drop_tail_other allowed (n_fw n) p (n_now n) d t (pre_purge (n_now n) (n_ct n)) f NE) as S.
    destruct (drop_tail _ _ _ _ _ _) as [v ct2]. cbn [fst snd] in *. exact S.
  - exists (conns_of n). split; [apply shrinks_refl|]. now rewrite step_pkt_refused.
Qed.

(* every entry after a packet is one from before or the one written for the packet's flow *)
Lemma step_pkt_entries p d t n f c :
  cfind f (conns_of (snd (step (EPkt p d t) n))) = Some c ->
  cfind f (conns_of n) = Some c \/
  (f = t /\ addr_ok (f_rules (n_fw n)) p t = true /\ snd (pkt_o p d t n) = Some c).
Proof.
  intros F. destruct (addr_ok (f_rules (n_fw n)) p t) eqn:A.
  - revert F. unfold FwReload.step. rewrite drop_unfold, A. cbn [negb].
    pose proof (drop_tail_entries allowed (n_fw n) p (n_now n) d t (pre_purge (n_now n) (n_ct n)) f c) as S.
    destruct (drop_tail _ _ _ _ _ _) as [v ct2]. cbn [fst snd conns_of n_ct] in *. intros F.
    destruct (S F) as [S1|[S1 S2]].
    + left. now apply (pre_purge_shrinks (n_now n) (n_ct n) f).
    + right. unfold pkt_o. auto.
  - left. now rewrite step_pkt_refused in F.
Qed.

Lemma tail_o_ver fw p now d t o c :
  snd (tail_o fw p now d t o) = Some c -> o = Some c \/ c_ver c = f_ver fw.
Proof.
  unfold Conntrack_proofs.tail_o. destruct o as [c0|].
  - destruct (c_exp c0 <? now); [destruct (allowed _ _ _ _); cbn [snd]; intros E; inversion E; auto|].
    destruct (negb _ && negb _); [destruct (allowed _ _ _ _); cbn [snd]; intros E; inversion E; auto|].
    cbn [snd]. intros E; inversion E; auto.
  - destruct (allowed _ _ _ _); cbn [snd]; intros E; inversion E; auto.
Qed.

Lemma next_ver_cases v : (v < 65536)%N ->
  (next_ver v = 0%N /\ v = 65535%N) \/ (next_ver v = (v + 1)%N /\ (v + 1 < 65536)%N).
Proof.
  intros L. unfold next_ver. destruct (N.eq_dec v 65535) as [->|NE].
  - left. split; reflexivity.
  - right. assert (v + 1 < 65536)%N by lia. split; [now apply N.mod_small|assumption].
Qed.

Lemma vinv_step e n : vinv n -> vinv (snd (step e n)).
Proof.
  intros [V1 V2]. destruct e as [p d t|d|rs tcp udp def].
  - destruct (step_pkt_fw p d t n) as [Efw _]. split; rewrite Efw; [exact V1|]. intros f c F.
    destruct (step_pkt_entries _ _ _ _ _ _ F) as [F0|[-> [_ F1]]]; [now apply (V2 f)|].
    unfold pkt_o in F1. destruct (tail_o_ver _ _ _ _ _ _ _ F1) as [F0 | Ev]; [|rewrite Ev; lia].
    apply (V2 t). now apply (pre_purge_shrinks (n_now n) (n_ct n) t).
  - exact (conj V1 V2).
  - cbn [FwReload.step snd]. unfold reload. destruct (next_ver_cases _ V1) as [[E0 _]|[E1 L]].
    + rewrite E0. cbn [N.eqb]. split; [reflexivity|]. intros f c F. discriminate F.
    + rewrite E1. assert (NZ : N.eqb (f_ver (n_fw n) + 1) 0 = false) by (apply N.eqb_neq; lia). rewrite NZ.
      split; cbn [n_fw f_ver]; [exact L|]. intros f c F. specialize (V2 f c F). lia.
Qed.

Lemma vinv_exec h : forall n, vinv n -> vinv (exec h n).
Proof. induction h as [|e h IH]; intros n V; [exact V|]. cbn [FwReload.exec]. apply IH. now apply vinv_step. Qed.

Lemma vinv_boot rs v0 tcp udp def t0 : (v0 < 65536)%N -> vinv (boot rs v0 tcp udp def t0).
Proof. intros L. split; [exact L|]. intros t c F. discriminate F. Qed.

(* ---- the model satisfies the specification of every flow on every history --------------------------------- *)

Lemma verdicts_cons e r n :
  verdicts (e :: r) n = match fst (step e n) with Some v => [v] | None => [] end ++ verdicts r (snd (step e n)).
Proof. reflexivity. Qed.

Lemma Rf_reload f n s rs tcp udp def :
  vinv n -> Rf f n s -> Rf f (reload rs tcp udp def n) (s_reload true rs tcp udp def s).
Proof.
  intros [V1 V2] [Efw [Enow R]]. unfold reload, s_reload. rewrite <- Efw. cbn [andb].
  destruct (next_ver_cases _ V1) as [[E0 _]|[E1 L]].
  - rewrite E0. cbn [N.eqb]. split; [reflexivity|]. split; [exact Enow|]. exact I.
  - rewrite E1. assert (NZ : N.eqb (f_ver (n_fw n) + 1) 0 = false) by (apply N.eqb_neq; lia). rewrite NZ.
    split; [reflexivity|]. split; [exact Enow|]. unfold conns_of in *. cbn [n_ct s_fw s_now s_fs].
    destruct (s_fs s) as [|e d0 fr]; cbn [Rfs] in *; auto.
    destruct (cfind f (ct_conns (n_ct n))) as [c|] eqn:F; [|exact R].
    destruct R as [R|[M1 [M2 M3]]]; [now left|right]. repeat split; auto. cbn [f_ver].
    symmetry. apply N.eqb_neq. specialize (V2 f c F). lia.
Qed.

(* one event keeps the relation between the node and the specification state of flow f *)
Lemma Rf_step f e n s : vinv n -> Rf f n s -> Rf f (snd (step e n)) (s_step true f e s).
Proof.
  intros V R. destruct e as [p d t|d|rs tcp udp def].
  - destruct R as [Efw [Enow R]]. destruct (step_pkt_fw p d t n) as [Efw' Enow'].
    destruct s as [sfw snow fs]. cbn [s_fw s_now s_fs] in *. subst sfw snow.
    cbn [FwReload.s_step s_fw s_now s_fs]. destruct (tuple_eqb f t) eqn:E.
    + apply tuple_eqb_eq in E. subst t. destruct (addr_ok (f_rules (n_fw n)) p f) eqn:A.
      * destruct (step_pkt_same p d f n A) as [S1 S2].
        assert (R1 : Rfs (n_fw n) (n_now n) fs (cfind f (ct_conns (pre_purge (n_now n) (n_ct n))))).
        { apply Rfs_shrinks with (m := conns_of n); [|exact R]. apply pre_purge_shrinks. }
        destruct (tail_spec (n_fw n) (n_now n) fs p d f _ A R1) as [J Rn].
        unfold pkt_o in *. split; [exact Efw'|]. split; [exact Enow'|]. cbn [s_fw s_now s_fs]. now rewrite S2.
      * rewrite (step_pkt_refused p d f n A). cbn [snd]. unfold FwReload.fl_next. rewrite A. cbn [negb].
        repeat split; auto.
    + split; [exact Efw'|]. split; [exact Enow'|]. cbn [s_fw s_now s_fs].
      destruct (step_pkt_frame p d t n f E) as [m1 [Sh Fm]]. rewrite Fm.
      apply Rfs_shrinks with (m := conns_of n); [exact Sh|exact R].
  - destruct R as [Efw [Enow R]]. cbn [FwReload.step snd FwReload.s_step].
    repeat split; cbn [n_fw n_now n_ct s_fw s_now s_fs conns_of]; try congruence.
    rewrite <- Enow. apply Rfs_time with (now := n_now n); [lia|now rewrite Enow].
  - cbn [FwReload.step snd FwReload.s_step]. now apply Rf_reload.
Qed.

(* the verdict of a packet of flow f is the specification's *)
Lemma Rf_verdict f p d n s : Rf f n s ->
  fst (step (EPkt p d f) n) = Some (fl_verdict (s_fw s) (s_now s) (s_fs s) p d f).
Proof.
  intros [Efw [Enow R]]. rewrite <- Efw, <- Enow. destruct (addr_ok (f_rules (n_fw n)) p f) eqn:A.
  - destruct (step_pkt_same p d f n A) as [S1 _]. rewrite S1. f_equal. unfold pkt_o.
    apply tail_spec; [exact A|]. rewrite Efw, Enow.
    apply Rfs_shrinks with (m := conns_of n); [|exact R]. rewrite <- Enow. apply pre_purge_shrinks.
  - rewrite (step_pkt_refused p d f n A). unfold FwReload.fl_verdict. now rewrite A.
Qed.

Lemma step_pkt_some p d t n : exists v, fst (step (EPkt p d t) n) = Some v.
Proof. unfold FwReload.step. destruct (drop _ _ _ _ _ _ _ _) as [v ct]. now exists v. Qed.

Theorem verdicts_determined f : forall h n s,
  vinv n -> Rf f n s -> restrict f h (verdicts h n) = flow_fn true f s h.
Proof.
  induction h as [|e h IH]; intros n s V R; [reflexivity|].
  pose proof (vinv_step e n V) as V'. pose proof (Rf_step f e n s V R) as R'. rewrite verdicts_cons.
  destruct e as [p d t|d|rs tcp udp def].
  - destruct (step_pkt_some p d t n) as [v Ev]. rewrite Ev. cbn [app restrict FwReload.flow_fn].
    destruct (tuple_eqb f t) eqn:E.
    + apply tuple_eqb_eq in E. subst t. rewrite (Rf_verdict f p d n s R) in Ev. injection Ev as <-.
      f_equal. apply IH; [exact V'|exact R'].
    + apply IH; [exact V'|]. cbn [FwReload.s_step] in R'. now rewrite E in R'.
  - cbn [FwReload.step fst app restrict FwReload.flow_fn]. now apply IH.
  - cbn [FwReload.step fst app restrict FwReload.flow_fn]. now apply IH.
Qed.

Theorem model_meets_spec f : forall h n s,
  vinv n -> Rf f n s -> flow_ok true f s h (verdicts h n) = true.
Proof.
  induction h as [|e h IH]; intros n s V R; [reflexivity|].
  pose proof (vinv_step e n V) as V'. pose proof (Rf_step f e n s V R) as R'. rewrite verdicts_cons.
  destruct e as [p d t|d|rs tcp udp def].
  - destruct (step_pkt_some p d t n) as [v Ev]. rewrite Ev. cbn [app FwReload.flow_ok].
    rewrite (IH _ _ V' R'), andb_true_r. destruct (tuple_eqb f t) eqn:E; [|reflexivity].
    apply tuple_eqb_eq in E. subst t. rewrite (Rf_verdict f p d n s R) in Ev. injection Ev as <-.
    apply Bool.eqb_reflx.
  - cbn [FwReload.step fst app FwReload.flow_ok]. now apply IH.
  - cbn [FwReload.step fst app FwReload.flow_ok]. now apply IH.
Qed.

Lemma Rf_boot f rs v0 tcp udp def t0 : Rf f (boot rs v0 tcp udp def t0) (spec_boot rs v0 tcp udp def t0).
Proof. repeat split. Qed.

(* ---- the verdicts of a flow depend on its own packets only --------------------------------------------------- *)

Lemma flow_fn_proj wr f : forall h s, flow_fn wr f s (proj f h) = flow_fn wr f s h.
Proof.
  induction h as [|e h IH]; intros s; [reflexivity|].
  destruct e as [p d t|d|rs tcp udp def]; cbn [proj FwReload.flow_fn].
  - destruct (tuple_eqb f t) eqn:E; [|apply IH]. cbn [FwReload.flow_fn]. rewrite E. f_equal. apply IH.
  - apply IH.
  - apply IH.
Qed.

Lemma restrict_proj_all f : forall h n, restrict f (proj f h) (verdicts (proj f h) n) = verdicts (proj f h) n.
Proof.
  induction h as [|e h IH]; intros n; [reflexivity|].
  destruct e as [p d t|d|rs tcp udp def]; cbn [proj].
  - destruct (tuple_eqb f t) eqn:E; [|apply IH]. rewrite verdicts_cons.
    destruct (step_pkt_some p d t n) as [v Ev]. rewrite Ev. cbn [app restrict]. rewrite E. f_equal. apply IH.
  - rewrite verdicts_cons. cbn [FwReload.step fst snd app restrict]. apply IH.
  - rewrite verdicts_cons. cbn [FwReload.step fst snd app restrict]. apply IH.
Qed.

Theorem flows_independent f h n s :
  vinv n -> Rf f n s -> restrict f h (verdicts h n) = verdicts (proj f h) n.
Proof.
  intros V R. rewrite (verdicts_determined f h n s V R), <- flow_fn_proj.
  rewrite <- (verdicts_determined f (proj f h) n s V R). apply restrict_proj_all.
Qed.

(* the specification that never resets (the property as stated) agrees with the code's on histories without a wrap *)
Lemma flow_fn_no_wrap f : forall h s,
  no_wrap (f_ver (s_fw s)) h = true -> flow_fn false f s h = flow_fn true f s h.
Proof.
  induction h as [|e h IH]; intros s NW; [reflexivity|].
  destruct e as [p d t|d|rs tcp udp def]; cbn [FwReload.flow_fn no_wrap] in *.
  - destruct (tuple_eqb f t); [f_equal|]; apply IH; cbn [FwReload.s_step]; try destruct (tuple_eqb f t); exact NW.
  - apply IH. exact NW.
  - apply andb_prop in NW as [N1 N2]. apply negb_true_iff in N1.
    assert (E : s_step false f (EReload rs tcp udp def) s = s_step true f (EReload rs tcp udp def) s).
    { cbn [FwReload.s_step]. unfold s_reload. rewrite N1. reflexivity. }
    rewrite E. apply IH. cbn [FwReload.s_step]. unfold s_reload. cbn [s_fw f_ver]. exact N2.
Qed.

Lemma flow_ok_no_wrap f : forall h s vs,
  no_wrap (f_ver (s_fw s)) h = true -> flow_ok false f s h vs = flow_ok true f s h vs.
Proof.
  induction h as [|e h IH]; intros s vs NW; [reflexivity|].
  destruct e as [p d t|d|rs tcp udp def]; cbn [FwReload.flow_ok no_wrap] in *.
  - destruct vs as [|v vs]; [reflexivity|]. f_equal. apply IH. cbn [FwReload.s_step]. now destruct (tuple_eqb f t).
  - apply IH. exact NW.
  - apply andb_prop in NW as [N1 N2]. apply negb_true_iff in N1.
    assert (E : s_step false f (EReload rs tcp udp def) s = s_step true f (EReload rs tcp udp def) s).
    { cbn [FwReload.s_step]. unfold s_reload. rewrite N1. reflexivity. }
    rewrite E. apply IH. cbn [FwReload.s_step]. unfold s_reload. cbn [s_fw f_ver]. exact N2.
Qed.

(* ---- a flow that is not honoured stays so until a rule allows it ------------------------------------------ *)

(* no live entry for f: none at all, or one whose Expires is strictly in the past *)
Definition dead (f : tuple) (n : node) : Prop := forall c, cfind f (conns_of n) = Some c -> c_exp c < n_now n.

Lemma dead_boot f rs v0 tcp udp def t0 : dead f (boot rs v0 tcp udp def t0).
Proof. intros c F. discriminate F. Qed.

Lemma tail_o_dead fw p now d t o :
  (forall c, o = Some c -> c_exp c < now) -> allowed (f_rules fw) p d t = false ->
  tail_o fw p now d t o = (false, o).
Proof.
  intros D A. unfold Conntrack_proofs.tail_o. rewrite A. destruct o as [c|]; [|reflexivity].
  specialize (D c eq_refl). apply Z.ltb_lt in D. now rewrite D.
Qed.

Lemma tail_o_refused fw p now d t o c :
  fst (tail_o fw p now d t o) = false -> snd (tail_o fw p now d t o) = Some c -> c_exp c < now.
Proof.
  unfold Conntrack_proofs.tail_o. destruct o as [c0|].
  - destruct (c_exp c0 <? now) eqn:L.
    + destruct (allowed _ _ _ _); cbn [fst snd]; [discriminate|]. intros _ E. inversion E; subst. now apply Z.ltb_lt.
    + destruct (negb _ && negb _); [destruct (allowed _ _ _ _)|]; cbn [fst snd]; discriminate.
  - destruct (allowed _ _ _ _); cbn [fst snd]; discriminate.
Qed.

Lemma refused_dead p d f n :
  addr_ok (f_rules (n_fw n)) p f = true -> fst (step (EPkt p d f) n) = Some false ->
  dead f (snd (step (EPkt p d f) n)).
Proof.
  intros A Fv c F. destruct (step_pkt_same p d f n A) as [S1 S2]. destruct (step_pkt_fw p d f n) as [_ Enow].
  rewrite Enow. rewrite S1 in Fv. injection Fv as Fv'. rewrite S2 in F. unfold pkt_o in *.
  now apply (tail_o_refused _ _ _ _ _ _ _ Fv' F).
Qed.

Lemma dead_shrinks f now m m' :
  shrinks now m m' -> (forall c, cfind f m = Some c -> c_exp c < now) -> forall c, cfind f m' = Some c -> c_exp c < now.
Proof. intros S D c F. apply D. now apply (S f). Qed.

Theorem dead_stays f : forall h n,
  dead f n -> quiet f (f_rules (n_fw n)) h = true ->
  forallb negb (restrict f h (verdicts h n)) = true /\ dead f (exec h n).
Proof.
  induction h as [|e h IH]; intros n D Q; [split; [reflexivity|exact D]|].
  rewrite verdicts_cons. cbn [FwReload.exec].
  destruct e as [p d t|d|rs tcp udp def]; cbn [FwReload.quiet restrict] in *.
  - apply andb_prop in Q as [Q1 Q2]. destruct (step_pkt_fw p d t n) as [Efw Enow].
    destruct (step_pkt_some p d t n) as [v Ev]. rewrite Ev. cbn [app].
    destruct (tuple_eqb f t) eqn:E.
    + apply tuple_eqb_eq in E. subst t. destruct (addr_ok (f_rules (n_fw n)) p f) eqn:A.
      * cbn [andb] in Q1. apply negb_true_iff in Q1.
        destruct (step_pkt_same p d f n A) as [S1 S2]. unfold pkt_o in *.
        rewrite (tail_o_dead (n_fw n) p (n_now n) d f _) in S1, S2;
          [|exact (dead_shrinks f _ _ _ (pre_purge_shrinks (n_now n) (n_ct n)) D)|exact Q1
           |exact (dead_shrinks f _ _ _ (pre_purge_shrinks (n_now n) (n_ct n)) D)|exact Q1].
        cbn [fst snd] in S1, S2. rewrite Ev in S1. inversion S1; subst v. cbn [forallb negb andb].
        apply IH; [|now rewrite Efw]. intros c F. rewrite Enow. rewrite S2 in F.
        exact (dead_shrinks f _ _ _ (pre_purge_shrinks (n_now n) (n_ct n)) D c F).
      * rewrite (step_pkt_refused p d f n A) in *. inversion Ev; subst v. cbn [forallb negb andb snd].
        now apply IH.
    + apply IH; [|now rewrite Efw]. intros c F. rewrite Enow.
      destruct (step_pkt_frame p d t n f E) as [m1 [Sh Fm]]. rewrite Fm in F.
      exact (dead_shrinks f _ _ _ Sh D c F).
  - cbn [FwReload.step fst snd app]. apply IH; [|exact Q]. intros c F. cbn [n_now]. specialize (D c F). lia.
  - cbn [FwReload.step fst snd app]. apply IH.
    + intros c F. unfold reload in *. destruct (N.eqb _ 0); cbn [conns_of n_ct n_now] in *; [discriminate F|now apply D].
    + unfold reload. now destruct (N.eqb _ 0).
Qed.

(* ---- idle expiry, with and without traffic on other flows --------------------------------------------------- *)

Lemma tail_o_pass fw p now d t o :
  fst (tail_o fw p now d t o) = true ->
  exists di, snd (tail_o fw p now d t o) = Some (mkConn (now + timeout_of fw t) di (f_ver fw)).
Proof.
  unfold Conntrack_proofs.tail_o. destruct o as [c0|].
  - destruct (c_exp c0 <? now); [destruct (allowed _ _ _ _); cbn [fst snd]; [eauto|discriminate]|].
    destruct (negb _ && negb _); [destruct (allowed _ _ _ _); cbn [fst snd]; [eauto|discriminate]|].
    cbn [fst snd]. eauto.
  - destruct (allowed _ _ _ _); cbn [fst snd]; [eauto|discriminate].
Qed.

(* while only sleeps and packets of other flows happen, the entry c0 of f is untouched, or gone once its time has passed *)
Definition held (f : tuple) (c0 : conn) (n : node) : Prop :=
  (forall c, cfind f (conns_of n) = Some c -> c = c0) /\ (n_now n <= c_exp c0 -> cfind f (conns_of n) = Some c0).

Lemma held_shrinks f c0 n m1 :
  held f c0 n -> shrinks (n_now n) (conns_of n) m1 ->
  (forall c, cfind f m1 = Some c -> c = c0) /\ (n_now n <= c_exp c0 -> cfind f m1 = Some c0).
Proof.
  intros [H1 H2] S. destruct (S f) as [S1 S2]. split.
  - intros c F. apply H1. now apply S1.
  - intros L. apply S2; [now apply H2|exact L].
Qed.

Lemma held_others f c0 : forall h n,
  others_only f h = true -> held f c0 n ->
  held f c0 (exec h n) /\ n_fw (exec h n) = n_fw n /\ n_now (exec h n) = n_now n + elapsed h.
Proof.
  induction h as [|e h IH]; intros n O H; [cbn; repeat split; try apply H; lia|].
  cbn [others_only forallb] in O. apply andb_prop in O as [O1 O2]. apply andb_prop in O1 as [O1 O3].
  cbn [FwReload.exec]. destruct e as [p d t|d|rs tcp udp def]; [| |discriminate O3].
  - cbn [on_flow] in O1. apply negb_true_iff in O1. destruct (step_pkt_fw p d t n) as [Efw Enow].
    destruct (step_pkt_frame p d t n f O1) as [m1 [Sh Fm]].
    destruct (held_shrinks f c0 n m1 H Sh) as [K1 K2].
    assert (H' : held f c0 (snd (step (EPkt p d t) n))).
    { split; rewrite ?Enow, Fm; assumption. }
    destruct (IH _ O2 H') as [I1 [I2 I3]]. split; [exact I1|]. split; [congruence|].
    rewrite I3, Enow. cbn [elapsed fold_right]. reflexivity.
  - cbn [FwReload.step snd]. assert (H' : held f c0 (mkNode (n_fw n) (n_ct n) (n_now n + Z.max 0 d))).
    { destruct H as [H1 H2]. split; cbn [conns_of n_ct n_now]; [exact H1|]. intros L. apply H2. lia. }
    destruct (IH _ O2 H') as [I1 [I2 I3]]. split; [exact I1|]. split; [exact I2|].
    rewrite I3. cbn [n_now elapsed fold_right]. fold (elapsed h). lia.
Qed.

Theorem idle_after_pass p d f n h2 p' d' :
  fst (step (EPkt p d f) n) = Some true ->
  others_only f h2 = true ->
  addr_ok (f_rules (n_fw n)) p' f = true ->
  let n2 := exec h2 (snd (step (EPkt p d f) n)) in
  (elapsed h2 <= timeout_of (n_fw n) f -> fst (step (EPkt p' d' f) n2) = Some true) /\
  (timeout_of (n_fw n) f < elapsed h2 -> allowed (f_rules (n_fw n)) p' d' f = false ->
   fst (step (EPkt p' d' f) n2) = Some false).
Proof.
  intros P O A' n2.
  destruct (addr_ok (f_rules (n_fw n)) p f) eqn:A; [|rewrite (step_pkt_refused p d f n A) in P; discriminate P].
  destruct (step_pkt_same p d f n A) as [S1 S2]. destruct (step_pkt_fw p d f n) as [Efw Enow].
  rewrite S1 in P. injection P as P'. unfold pkt_o in *.
  destruct (tail_o_pass _ _ _ _ _ _ P') as [di Ec]. rewrite Ec in S2.
  set (c0 := mkConn (n_now n + timeout_of (n_fw n) f) di (f_ver (n_fw n))) in *.
  assert (H1 : held f c0 (snd (step (EPkt p d f) n))).
  { split; [intros c F; rewrite S2 in F; now inversion F|intros _; exact S2]. }
  destruct (held_others f c0 h2 _ O H1) as [H2 [Efw2 Enow2]]. fold n2 in H2, Efw2, Enow2.
  rewrite Efw in Efw2. rewrite Enow in Enow2.
  assert (A2 : addr_ok (f_rules (n_fw n2)) p' f = true) by (now rewrite Efw2).
  destruct (step_pkt_same p' d' f n2 A2) as [T1 _]. rewrite T1. unfold pkt_o.
  destruct (held_shrinks f c0 n2 _ H2 (pre_purge_shrinks (n_now n2) (n_ct n2))) as [K1 K2].
  rewrite Efw2, Enow2 in *. cbn [c0 c_exp] in K2. split.
  - intros L. rewrite K2 by lia. unfold Conntrack_proofs.tail_o. cbn [c_exp c_ver c_in c0].
    assert (X : (n_now n + timeout_of (n_fw n) f <? n_now n + elapsed h2) = false) by (apply Z.ltb_ge; lia).
    rewrite X, N.eqb_refl. cbn [negb andb fst]. reflexivity.
  - intros L NA. rewrite tail_o_dead; [reflexivity| |exact NA].
    intros c F. rewrite (K1 c F). cbn [c0 c_exp]. lia.
Qed.

(* ---- revalidation after reloads ------------------------------------------------------------------------------- *)

Lemma tail_o_entry fw p now d t o c :
  snd (tail_o fw p now d t o) = Some c ->
  o = Some c \/
  (c_in c = d /\ c_ver c = f_ver fw /\ allowed (f_rules fw) p d t = true) \/
  (exists c0, o = Some c0 /\ c_in c = c_in c0 /\ c_ver c = f_ver fw /\
              (c_ver c0 = f_ver fw \/ allowed (f_rules fw) p (c_in c0) t = true)).
Proof.
  unfold Conntrack_proofs.tail_o. destruct o as [c0|].
  - destruct (c_exp c0 <? now).
    + destruct (allowed (f_rules fw) p d t) eqn:A; cbn [snd]; intros E; inversion E; subst; cbn; auto.
    + destruct (negb (N.eqb (c_ver c0) (f_ver fw)) && negb (allowed (f_rules fw) p (c_in c0) t)) eqn:C.
      * destruct (allowed (f_rules fw) p d t) eqn:A; cbn [snd]; intros E; inversion E; subst; cbn; auto.
      * cbn [snd]. intros E; inversion E; subst. right. right. exists c0. cbn. repeat split; auto.
        apply andb_false_iff in C as [C|C]; apply negb_false_iff in C; [left; now apply N.eqb_eq|now right].
  - destruct (allowed (f_rules fw) p d t) eqn:A; cbn [snd]; intros E; inversion E; subst; cbn; auto.
Qed.

Lemma ivalid_step e n : vinv n -> ivalid n -> ivalid (snd (step e n)).
Proof.
  intros [V1 V2] IV. destruct e as [p d t|d|rs tcp udp def].
  - destruct (step_pkt_fw p d t n) as [Efw _]. intros f c F Ev. rewrite Efw in *.
    destruct (step_pkt_entries _ _ _ _ _ _ F) as [F0|[-> [A F1]]]; [now apply (IV f c)|].
    unfold pkt_o in F1. destruct (tail_o_entry _ _ _ _ _ _ _ F1) as [F0|[[E1 [E2 E3]]|[c0 [F0 [E1 [E2 [E3|E3]]]]]]].
    + apply (IV t c); [|exact Ev]. now apply (pre_purge_shrinks (n_now n) (n_ct n) t).
    + exists p. rewrite E1. auto.
    + rewrite E1. apply (IV t c0); [|exact E3]. now apply (pre_purge_shrinks (n_now n) (n_ct n) t).
    + exists p. rewrite E1. auto.
  - exact IV.
  - cbn [FwReload.step snd]. unfold reload. destruct (next_ver_cases _ V1) as [[E0 _]|[E1 L]].
    + rewrite E0. cbn [N.eqb]. intros f c F. discriminate F.
    + rewrite E1. assert (NZ : N.eqb (f_ver (n_fw n) + 1) 0 = false) by (apply N.eqb_neq; lia). rewrite NZ.
      intros f c F Ev. cbn [conns_of n_ct n_fw f_ver] in *. specialize (V2 f c F). lia.
Qed.

Lemma inv_exec h : forall n, vinv n -> ivalid n -> vinv (exec h n) /\ ivalid (exec h n).
Proof.
  induction h as [|e h IH]; intros n V IV; [now split|]. cbn [FwReload.exec].
  apply IH; [now apply vinv_step|now apply ivalid_step].
Qed.

Lemma ivalid_boot rs v0 tcp udp def t0 : ivalid (boot rs v0 tcp udp def t0).
Proof. intros t c F. discriminate F. Qed.

Lemma tail_o_pass_why fw p now d t o :
  fst (tail_o fw p now d t o) = true ->
  allowed (f_rules fw) p d t = true \/
  exists c, o = Some c /\ now <= c_exp c /\ (c_ver c = f_ver fw \/ allowed (f_rules fw) p (c_in c) t = true).
Proof.
  unfold Conntrack_proofs.tail_o. destruct o as [c0|].
  - destruct (c_exp c0 <? now) eqn:L; [destruct (allowed _ _ _ _); cbn [fst]; [auto|discriminate]|].
    apply Z.ltb_ge in L.
    destruct (negb (N.eqb (c_ver c0) (f_ver fw)) && negb (allowed (f_rules fw) p (c_in c0) t)) eqn:C;
      [destruct (allowed (f_rules fw) p d t); cbn [fst]; [auto|discriminate]|].
    intros _. right. exists c0. repeat split; auto.
    apply andb_false_iff in C as [C|C]; apply negb_false_iff in C; [left; now apply N.eqb_eq|now right].
  - destruct (allowed _ _ _ _); cbn [fst]; [auto|discriminate].
Qed.

Theorem pass_justified p d t n :
  ivalid n -> fst (step (EPkt p d t) n) = Some true ->
  addr_ok (f_rules (n_fw n)) p t = true /\
  (allowed (f_rules (n_fw n)) p d t = true \/
   exists c, cfind t (conns_of n) = Some c /\ n_now n <= c_exp c /\
             exists p', addr_ok (f_rules (n_fw n)) p' t = true /\ allowed (f_rules (n_fw n)) p' (c_in c) t = true).
Proof.
  intros IV P.
  destruct (addr_ok (f_rules (n_fw n)) p t) eqn:A; [|rewrite (step_pkt_refused p d t n A) in P; discriminate P].
  split; [reflexivity|]. destruct (step_pkt_same p d t n A) as [S1 _]. rewrite S1 in P. injection P as P'.
  unfold pkt_o in P'. destruct (tail_o_pass_why _ _ _ _ _ _ P') as [Al|[c [F [L W]]]]; [now left|right].
  apply (pre_purge_shrinks (n_now n) (n_ct n) t) in F. exists c. repeat split; auto.
  destruct W as [W|W]; [now apply (IV t c)|exists p; auto].
Qed.

(* a reload to rules that decide this flow the same way does not cut it, unless the version counter wraps *)
Theorem same_rules_keeps p d t n rs' tcp udp def :
  vinv n -> ivalid n ->
  (forall p1 p2, addr_ok (f_rules (n_fw n)) p1 t = true -> addr_ok (f_rules (n_fw n)) p2 t = true -> p1 = p2) ->
  (forall q dd, allowed rs' q dd t = allowed (f_rules (n_fw n)) q dd t) ->
  (forall q, addr_ok rs' q t = addr_ok (f_rules (n_fw n)) q t) ->
  next_ver (f_ver (n_fw n)) <> 0%N ->
  fst (step (EPkt p d t) n) = Some true ->
  fst (step (EPkt p d t) (reload rs' tcp udp def n)) = Some true.
Proof.
  intros [V1 V2] IV Ex SA SO NW P.
  destruct (addr_ok (f_rules (n_fw n)) p t) eqn:A; [|rewrite (step_pkt_refused p d t n A) in P; discriminate P].
  destruct (step_pkt_same p d t n A) as [S1 _]. rewrite S1 in P. injection P as P'. clear S1.
  unfold reload. apply N.eqb_neq in NW. rewrite NW.
  set (n' := mkNode (mkFw rs' (next_ver (f_ver (n_fw n))) tcp udp def) (n_ct n) (n_now n)).
  assert (A' : addr_ok (f_rules (n_fw n')) p t = true) by (cbn [n' n_fw f_rules]; now rewrite SO).
  destruct (step_pkt_same p d t n' A') as [S1 _]. rewrite S1. f_equal. unfold pkt_o in *. cbn [n' n_fw n_now n_ct].
  destruct (tail_o_pass_why _ _ _ _ _ _ P') as [Al|[c [F [L W]]]].
  - unfold Conntrack_proofs.tail_o. cbn [f_rules]. rewrite SA, Al.
    destruct (cfind t (ct_conns (pre_purge (n_now n) (n_ct n)))) as [c|]; [|reflexivity].
    destruct (c_exp c <? n_now n); [reflexivity|]. now destruct (negb _ && negb _).
  - rewrite F. unfold Conntrack_proofs.tail_o. cbn [f_rules f_ver].
    assert (X : (c_exp c <? n_now n) = false) by (apply Z.ltb_ge; lia). rewrite X.
    assert (Y : allowed (f_rules (n_fw n)) p (c_in c) t = true).
    { destruct W as [W|W]; [|exact W].
      apply (pre_purge_shrinks (n_now n) (n_ct n) t) in F. destruct (IV t c F W) as [p' [Ap Al]].
      now rewrite (Ex p p' A Ap). }
    rewrite SA, Y. cbn [negb]. rewrite andb_false_r. reflexivity.
Qed.

Lemma reload_wrap_empty rs tcp udp def n :
  next_ver (f_ver (n_fw n)) = 0%N -> conns_of (reload rs tcp udp def n) = [].
Proof. intros E. unfold reload. rewrite E. reflexivity. Qed.

End Run.

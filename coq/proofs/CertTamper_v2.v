(* C02, version 2: the signed bytes rawDetails ‖ curve ‖ publicKey determine every identity field. *)
From Coq Require Import List NArith ZArith Lia Bool.
From Coq Require Import ZifyN ZifyNat ZifyBool.
Import ListNotations.
From NV Require Import lib.Bytes lib.Proto lib.Der model.CertCodec model.CertTamper
  proofs.CertCodec_sort proofs.CertCodec_v2 proofs.CertCodec_v1 proofs.CertCodec_main.
Open Scope N_scope.

Definition ident_c (c : cert) :=
  (c_name c, c_nets c, c_unsafe c, c_groups c, c_isca c, c_nb c, c_na c, c_issuer c, c_curve c, c_pub c).

Definition rebuild (d : cert) (cv : N) (pub sg : list N) : cert :=
  mkCert (c_name d) (c_nets d) (c_unsafe d) (c_groups d) (c_isca d) (c_nb d) (c_na d) (c_issuer d) cv pub sg.

(* what signing and decoding both guarantee about a v2 certificate: the kept details are exactly one DER element,
   the curve is a byte, and the fields are the details read from those bytes (+ curve, key), validated *)
Definition wf_v2 (c : cert2) : Prop :=
  (exists g h ct, read_tlv (c2_raw c) = Some (g, h, ct, []) /\ g = t_details) /\
  c_curve (c2 c) < 256 /\
  exists d, unmarshal_details (c2_raw c) = Some d /\
            validate_v2 (rebuild d (c_curve (c2 c)) (c_pub (c2 c)) (c_sig (c2 c))) = Some (c2 c).

Lemma read_element_trim tag s raw rest : read_element tag s = Some (raw, rest) ->
  exists h ct, read_tlv raw = Some (tag, h, ct, []).
Proof.
  unfold read_element. destruct (read_tlv s) as [[[[t h] c0] r0]|] eqn:E; [|discriminate].
  destruct (t =? tag) eqn:Et; [|discriminate]. intros H; inversion H; subst. apply N.eqb_eq in Et. subst.
  exists h, c0. eapply read_tlv_trim; eassumption.
Qed.

Lemma read_element_bytes_ok tag s raw rest : bytes_ok s = true -> read_element tag s = Some (raw, rest) ->
  bytes_ok rest = true.
Proof.
  unfold read_element. intros Hok. destruct (read_tlv s) as [[[[t h] c0] r0]|] eqn:E; [|discriminate].
  destruct (t =? tag); [|discriminate]. intros H; inversion H; subst.
  now apply (read_tlv_bytes_ok _ _ _ _ _ Hok) in E as (_ & _ & B).
Qed.

Lemma read_opt_byte_range tag dflt s v rest : bytes_ok s = true -> dflt < 256 ->
  read_opt_byte tag dflt s = Some (v, rest) -> v < 256.
Proof.
  intros Hok Hd. unfold read_opt_byte, read_optional. destruct (peek_tag tag s).
  - destruct (read_asn1 tag s) as [[c r]|] eqn:E; [|discriminate].
    destruct c as [|b [|? ?]]; try discriminate. intros H; inversion H; subst.
    apply (read_asn1_bytes_ok _ _ _ _ Hok) in E as [A _]. cbn in A. apply andb_prop in A as [A _].
    now apply N.ltb_lt.
  - intros H; inversion H; subst. exact Hd.
Qed.

Theorem decoded_wf_v2 pk dcurve b c : bytes_ok b = true -> decode_v2 pk dcurve b = Some c -> wf_v2 c.
Proof.
  intros Hok H. pose proof (decode_v2_sound _ _ _ _ H) as (_ & _ & _ & d & Hd & Hv).
  unfold wf_v2. split; [|split; [|exists d; split; assumption]].
  - unfold decode_v2 in H. destruct (is_nil b || _); [discriminate|].
    destruct (read_asn1 tag_sequence b) as [[inp r0]|]; [|discriminate].
    destruct (is_nil inp); [discriminate|].
    destruct (read_element t_details inp) as [[raw inp1]|] eqn:Er; [|discriminate].
    destruct (read_opt_byte t_curve (dcurve mod 256) inp1) as [[curve inp2]|]; [|discriminate].
    match goal with H : context [match ?e with Some _ => _ | None => None end = Some c] |- _ => destruct e as [[pub inp3]|] end; [|discriminate].
    destruct (is_nil pub); [discriminate|].
    destruct (read_asn1 t_signature inp3) as [[sig r1]|]; [|discriminate].
    destruct (is_nil sig); [discriminate|].
    destruct (unmarshal_details raw); [|discriminate]. destruct (validate_v2 _); [|discriminate].
    inversion H; subst. cbn [c2_raw]. apply read_element_trim in Er as (h & ct & Er). eauto.
  - unfold decode_v2 in H. destruct (is_nil b || _); [discriminate|].
    destruct (read_asn1 tag_sequence b) as [[inp r0]|] eqn:E0; [|discriminate].
    destruct (is_nil inp); [discriminate|].
    destruct (read_element t_details inp) as [[raw inp1]|] eqn:Er; [|discriminate].
    destruct (read_opt_byte t_curve (dcurve mod 256) inp1) as [[curve inp2]|] eqn:Ec; [|discriminate].
    match goal with H : context [match ?e with Some _ => _ | None => None end = Some c] |- _ => destruct e as [[pub inp3]|] end; [|discriminate].
    destruct (is_nil pub); [discriminate|].
    destruct (read_asn1 t_signature inp3) as [[sig r1]|]; [|discriminate].
    destruct (is_nil sig); [discriminate|].
    destruct (unmarshal_details raw); [|discriminate]. destruct (validate_v2 _) as [c'|] eqn:Ev; [|discriminate].
    inversion H; subst. cbn [c2].
    destruct (validate_v2_keeps _ _ Ev) as (_ & K & _). rewrite K. cbn [c_curve].
    apply (read_asn1_bytes_ok _ _ _ _ Hok) in E0 as [Hinp _].
    pose proof (read_element_bytes_ok _ _ _ _ Hinp Er) as Hinp1.
    eapply read_opt_byte_range; [exact Hinp1| |exact Ec]. apply N.mod_lt. discriminate.
Qed.

Theorem issued_wf_v2 tbs sig c : sign_v2 tbs sig = Some c -> wf_v2 c.
Proof.
  intros H. destruct (sign_v2_issued _ _ _ H) as (c' & -> & Hi & Hf & _).
  destruct Hi as (Hv & Hsig & Hcv & Hnb & Hna).
  assert (Hraw : fits (encode_details c')).
  { unfold encode_v2, seal_v2 in Hf. cbn [c2 c2_raw] in Hf.
    match type of Hf with fits (emit_tlv _ ?x) => pose proof (emit_tlv_length tag_sequence x) as L; unfold fits in *;
      rewrite !app_length in L end. lia. }
  pose proof (fits_details_body _ Hraw) as Hbody.
  unfold wf_v2, seal_v2. cbn [c2 c2_raw]. split; [|split; [exact Hcv|]].
  - unfold encode_details. rewrite <- (app_nil_r (emit_tlv t_details (details_body c'))).
    rewrite read_tlv_emit by (try discriminate; now apply lenN_le_cap). eauto.
  - exists (details_only c'). split.
    + apply unmarshal_details_encode; [|exact Hraw].
      apply check_v2_details_wf; [now apply valid_v2_check|assumption|assumption].
    + unfold rebuild. rewrite rebuild_eq by reflexivity. now apply valid_v2_validate.
Qed.

Lemma validate_v2_ident d cv pub s1 s2 a1 a2 :
  validate_v2 (rebuild d cv pub s1) = Some a1 -> validate_v2 (rebuild d cv pub s2) = Some a2 -> ident_c a1 = ident_c a2.
Proof.
  unfold validate_v2. destruct (check_v2 (rebuild d cv pub s1)); [|discriminate].
  destruct (check_v2 (rebuild d cv pub s2)); [|discriminate].
  intros H1 H2; inversion H1; inversion H2; subst. reflexivity.
Qed.

(* rawDetails ‖ byte(curve) ‖ publicKey: the details element delimits itself, one byte follows, the rest is the key *)
Theorem tbs_v2_injective c1 c2' : wf_v2 c1 -> wf_v2 c2' -> tbs_v2 c1 = tbs_v2 c2' ->
  c2_raw c1 = c2_raw c2' /\ ident_c (c2 c1) = ident_c (c2 c2').
Proof.
  intros ((g1 & h1 & t1 & R1 & _) & Hc1 & d1 & D1 & V1) ((g2 & h2 & t2 & R2 & _) & Hc2 & d2 & D2 & V2) E.
  unfold tbs_v2 in E.
  destruct (read_tlv_prefix_inj _ _ _ _ _ _ _ _ _ _ R1 R2 E) as [Eraw Etail].
  cbn [app] in Etail. inversion Etail as [[Ecv Epub]].
  rewrite !N.mod_small in Ecv by assumption.
  split; [exact Eraw|].
  rewrite Eraw in D1. rewrite D1 in D2. inversion D2; subst d2.
  rewrite Ecv, Epub in V1. eapply validate_v2_ident; eassumption.
Qed.

(* the first signed byte of a v2 certificate is the details tag *)
Lemma tbs_v2_head c : wf_v2 c -> exists r, tbs_v2 c = t_details :: r.
Proof.
  intros ((g & h & t & R & ->) & _). apply read_tlv_split in R as (E & _ & (h' & ->) & _).
  unfold tbs_v2. rewrite E. cbn [app]. eauto.
Qed.

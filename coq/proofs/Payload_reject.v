(* Rejection rules, unknown-field skipping and the documented disagreement classes between the hand-written
   parser and the generated decoder (model/Payload.v). *)
From Coq Require Import List NArith ZArith Lia Bool.
From Coq Require Import ZifyN ZifyNat ZifyBool.
Import ListNotations.
From NV Require Import lib.Bytes lib.Proto model.Payload proofs.Payload_proofs.
Open Scope N_scope.
Local Ltac Zify.zify_post_hook ::= Z.div_mod_to_equations.

Definition known_details (num : N) : Prop :=
  num = f_cert \/ num = f_ii \/ num = f_ri \/ num = f_time \/ num = f_ver.
Definition u32_field (num : N) : Prop := num = f_ii \/ num = f_ri \/ num = f_ver.
Definition varint_field (num : N) : Prop := num = f_ii \/ num = f_ri \/ num = f_time \/ num = f_ver.
Definition expected_wt (num : N) : N := if num =? f_cert then wt_bytes else wt_varint.
Definition valid_num (num : N) : Prop := 1 <= num /\ num <= max_field_number.
Definition unknown_details (num : N) : Prop :=
  valid_num num /\ num <> f_cert /\ num <> f_ii /\ num <> f_ri /\ num <> f_time /\ num <> f_ver.
Definition all_cont (t : list N) : Prop := forall x, In x t -> 128 <= x.   (* continuation bit on every byte *)

Lemma known_valid num : known_details num -> valid_num num.
Proof. unfold valid_num, max_field_number. intros [-> | [-> | [-> | [-> | ->]]]]; fconst; lia. Qed.

(* ---- step level: the Details loop ---- *)

(* R1  a known field number with any other wire type *)
Lemma hstep_wrong_wiretype s p num typ rest : known_details num -> typ < 8 -> typ <> expected_wt num ->
  details_step s p (tag_enc num typ ++ rest) = None.
Proof.
  intros K Ht Hne. pose proof (known_valid _ K) as [V1 V2]. unfold details_step.
  rewrite tag_dec_enc by assumption.
  destruct K as [-> | [-> | [-> | [-> | ->]]]]; cbv in Hne; fcalc;
    (destruct typ as [|[[[]|[]|]|[[]|[]|]|]]; try reflexivity; try (exfalso; apply Hne; reflexivity); cbv in Ht; discriminate).
Qed.

(* R2  a 32-bit field above 2^32 - 1 *)
Lemma hstep_u32_range s p num v rest : u32_field num -> two32 <= v -> v < two64 ->
  details_step s p (field_varint num v ++ rest) = None.
Proof.
  intros K H1 H2. unfold field_varint, details_step. rewrite <- !app_assoc.
  destruct K as [-> | [-> | ->]]; (rewrite tag_dec_enc by tag_ok); fcalc; now rewrite dec_u32_range.
Qed.

Lemma dec_u32_truncated t : all_cont t -> dec_u32 t = None.
Proof. intros H. unfold dec_u32. destruct (varint_dec_truncated t H) as [-> _]. reflexivity. Qed.

(* R3  input ending inside a varint: in a value ... *)
Lemma hstep_truncated_value s p num t : valid_num num -> all_cont t ->
  details_step s p (tag_enc num wt_varint ++ t) = None.
Proof.
  intros [V1 V2] Ht. unfold details_step. rewrite tag_dec_enc by (try assumption; reflexivity). fcalc.
  destruct (varint_dec_truncated t Ht) as [Hv _].
  repeat match goal with |- context [if ?c then _ else _] => destruct c end; try reflexivity;
    rewrite ?dec_u32_truncated, ?Hv by assumption; try reflexivity.
  rewrite skip_field_pw_nongroup by discriminate. cbn [skip_field]. now rewrite Hv.
Qed.

(* ... or in a tag *)
Lemma hstep_truncated_tag s p t : all_cont t -> details_step s p t = None.
Proof. intros Ht. unfold details_step, tag_dec. destruct (varint_dec_truncated t Ht) as [-> _]. reflexivity. Qed.

(* R4  a length-delimited value announcing more bytes than there are *)
Lemma hstep_length_overrun s p num n body : valid_num num -> n < two64 -> N.of_nat (length body) < n ->
  details_step s p (tag_enc num wt_bytes ++ varint_enc n ++ body) = None.
Proof.
  intros [V1 V2] Hn Hb. unfold details_step. rewrite tag_dec_enc by (try assumption; reflexivity). fcalc.
  destruct (bytes_dec_overrun n body Hn Hb) as [Hv _].
  repeat match goal with |- context [if ?c then _ else _] => destruct c end; try reflexivity;
    rewrite ?Hv; try reflexivity.
  rewrite skip_field_pw_nongroup by discriminate. cbn [skip_field]. now rewrite Hv.
Qed.

(* ---- step level: the outer loop ---- *)

Lemma ostep_wrong_wiretype s p typ rest : typ < 8 -> typ <> wt_bytes ->
  outer_step s p (tag_enc f_details typ ++ rest) = None.
Proof.
  intros Ht Hne. unfold outer_step. rewrite tag_dec_enc by (try assumption; tag_ok). cbv in Hne. fcalc.
  destruct typ as [|[[[]|[]|]|[[]|[]|]|]]; try reflexivity; try (exfalso; apply Hne; reflexivity); cbv in Ht; discriminate.
Qed.

Lemma ostep_truncated_tag s p t : all_cont t -> outer_step s p t = None.
Proof. intros Ht. unfold outer_step, tag_dec. destruct (varint_dec_truncated t Ht) as [-> _]. reflexivity. Qed.

Lemma ostep_truncated_value s p num t : valid_num num -> all_cont t ->
  outer_step s p (tag_enc num wt_varint ++ t) = None.
Proof.
  intros [V1 V2] Ht. unfold outer_step. rewrite tag_dec_enc by (try assumption; reflexivity). fcalc.
  destruct (varint_dec_truncated t Ht) as [Hv _].
  repeat match goal with |- context [if ?c then _ else _] => destruct c end; try reflexivity.
  rewrite skip_field_pw_nongroup by discriminate. cbn [skip_field]. now rewrite Hv.
Qed.

Lemma ostep_length_overrun s p num n body : valid_num num -> n < two64 -> N.of_nat (length body) < n ->
  outer_step s p (tag_enc num wt_bytes ++ varint_enc n ++ body) = None.
Proof.
  intros [V1 V2] Hn Hb. unfold outer_step. rewrite tag_dec_enc by (try assumption; reflexivity). fcalc.
  destruct (bytes_dec_overrun n body Hn Hb) as [Hv _].
  repeat match goal with |- context [if ?c then _ else _] => destruct c end; try reflexivity;
    rewrite ?Hv; try reflexivity.
  rewrite skip_field_pw_nongroup by discriminate. cbn [skip_field]. now rewrite Hv.
Qed.

(* ---- lifting: a bad field after any valid prefix rejects the whole message ---- *)

Lemma hrun_reject s p bad : bad <> [] -> details_step s p bad = None -> hrun s p bad = None.
Proof. apply msg_run_step_none. intros; eapply details_step_progress; eassumption. Qed.

Lemma orun_reject s p bad : bad <> [] -> outer_step s p bad = None -> orun s p bad = None.
Proof. apply msg_run_step_none. intros; eapply outer_step_progress; eassumption. Qed.

Lemma details_reject_after s p q bad : wf_payload q -> bad <> [] ->
  (forall p', details_step s p' bad = None) -> unmarshal_details s p (details_enc q ++ bad) = None.
Proof.
  intros Hq Hb Hs. unfold unmarshal_details. change (msg_run (details_step s)) with (hrun s).
  rewrite hrun_details_enc by assumption. now apply hrun_reject.
Qed.

(* [details_enc q ++ bad] inside the Details field of an otherwise arbitrary message *)
Theorem reject_in_details s q bad after : wf_payload q -> bad <> [] ->
  N.of_nat (length (details_enc q ++ bad)) < two64 ->
  (forall p', details_step s p' bad = None) ->
  unmarshal_gen s (field_bytes f_details (details_enc q ++ bad) ++ after) = None.
Proof.
  intros Hq Hb Hl Hs. unfold unmarshal_gen. change (msg_run (outer_step s)) with (orun s).
  rewrite orun_details by assumption. now rewrite details_reject_after.
Qed.

(* a bad outer field after a complete valid message *)
Theorem reject_after_message s q bad : wf_payload q -> bad <> [] ->
  (forall p', outer_step s p' bad = None) -> unmarshal_gen s (marshal_payload q ++ bad) = None.
Proof.
  intros Hq Hb Hs. unfold unmarshal_gen, marshal_payload. change (msg_run (outer_step s)) with (orun s).
  rewrite orun_details by (now apply details_enc_length).
  rewrite unmarshal_details_enc by assumption. now apply orun_reject.
Qed.

Lemma app_nonempty_l {A} (a b : list A) : a <> [] -> a ++ b <> [].
Proof. destruct a; [contradiction|discriminate]. Qed.

(* ---- unknown fields ---- *)

Inductive wf_value : N -> list N -> Prop :=
| WV_varint x : x < two64 -> wf_value wt_varint (varint_enc x)
| WV_fixed64 v : length v = 8%nat -> wf_value wt_fixed64 v
| WV_bytes w : N.of_nat (length w) < two64 -> wf_value wt_bytes (bytes_enc w)
| WV_fixed32 v : length v = 4%nat -> wf_value wt_fixed32 v.

Lemma wf_value_typ typ v : wf_value typ v -> typ < 8 /\ typ <> 3.
Proof. intros H. inversion H; subst; split; try reflexivity; discriminate. Qed.

Lemma skip_wf_value num typ v rest : wf_value typ v -> skip_field_pw num typ (v ++ rest) = Some rest.
Proof.
  intros H. rewrite skip_field_pw_nongroup by (apply (wf_value_typ _ _ H)).
  inversion H; subst.
  - now apply skip_field_varint.
  - now apply skip_field_fixed64.
  - now apply skip_field_bytes.
  - now apply skip_field_fixed32.
Qed.

Lemma hstep_unknown p num typ v rest : unknown_details num -> wf_value typ v ->
  details_step false p (tag_enc num typ ++ v ++ rest) = Some (p, rest).
Proof.
  intros ([V1 V2] & N1 & N2 & N3 & N5 & N8) Hv. unfold details_step.
  rewrite tag_dec_enc by (try assumption; apply (wf_value_typ _ _ Hv)).
  apply N.eqb_neq in N1, N2, N3, N5, N8. rewrite N1, N2, N3, N5, N8.
  rewrite andb_false_r. now rewrite skip_wf_value.
Qed.

Lemma ostep_unknown p num typ v rest : valid_num num -> num <> f_details -> wf_value typ v ->
  outer_step false p (tag_enc num typ ++ v ++ rest) = Some (p, rest).
Proof.
  intros [V1 V2] N1 Hv. unfold outer_step.
  rewrite tag_dec_enc by (try assumption; apply (wf_value_typ _ _ Hv)).
  apply N.eqb_neq in N1. rewrite N1. rewrite andb_false_r. now rewrite skip_wf_value.
Qed.

(* an (empty) unknown group is skipped when its end tag carries the same field number ... *)
Lemma skip_empty_group num rest : valid_num num ->
  skip_field_pw num wt_sgroup (tag_enc num wt_egroup ++ rest) = Some rest.
Proof.
  intros [V1 V2]. unfold skip_field_pw. rewrite pw_recursion_levels_S.
  change wt_sgroup with 3. rewrite skip_value_pw_group by lia.
  rewrite group_run_pw_unfold. rewrite tag_dec_enc by (try assumption; reflexivity).
  change (wt_egroup =? 4) with true. cbv iota. now rewrite N.eqb_refl.
Qed.

(* ... and refused when it carries another one *)
Lemma skip_mismatched_group num num2 rest : valid_num num2 -> num2 <> num ->
  skip_field_pw num wt_sgroup (tag_enc num2 wt_egroup ++ rest) = None.
Proof.
  intros [V1 V2] Hne. unfold skip_field_pw. rewrite pw_recursion_levels_S.
  change wt_sgroup with 3. rewrite skip_value_pw_group by lia.
  rewrite group_run_pw_unfold. rewrite tag_dec_enc by (try assumption; reflexivity).
  change (wt_egroup =? 4) with true. cbv iota. apply N.eqb_neq in Hne. now rewrite Hne.
Qed.

Lemma hstep_unknown_group p num rest : unknown_details num ->
  details_step false p (tag_enc num wt_sgroup ++ tag_enc num wt_egroup ++ rest) = Some (p, rest).
Proof.
  intros ([V1 V2] & N1 & N2 & N3 & N5 & N8). unfold details_step.
  rewrite tag_dec_enc by (try assumption; reflexivity).
  apply N.eqb_neq in N1, N2, N3, N5, N8. rewrite N1, N2, N3, N5, N8.
  rewrite andb_false_r. rewrite skip_empty_group by (split; assumption). reflexivity.
Qed.

(* message level: decoding goes on as if the unknown field were not there *)
Theorem details_unknown_skipped p num typ v rest : unknown_details num -> wf_value typ v ->
  unmarshal_details false p (tag_enc num typ ++ v ++ rest) = unmarshal_details false p rest.
Proof.
  intros Hn Hv. unfold unmarshal_details. change (msg_run (details_step false)) with (hrun false).
  rewrite app_assoc. apply hrun_field.
  - apply app_nonempty_l, tag_enc_nonempty.
  - rewrite <- app_assoc. now apply hstep_unknown.
Qed.

Theorem outer_unknown_skipped p num typ v rest : valid_num num -> num <> f_details -> wf_value typ v ->
  orun false p (tag_enc num typ ++ v ++ rest) = orun false p rest.
Proof.
  intros Hn Hne Hv. rewrite app_assoc.
  apply msg_run_field; [intros; eapply outer_step_progress; eassumption|apply app_nonempty_l, tag_enc_nonempty|].
  rewrite <- app_assoc. now apply ostep_unknown.
Qed.

(* an unknown field between the fields of two payload encodings: the result is the merge of the two *)
Theorem unknown_between_fields q1 q2 num typ v : wf_payload q1 -> wf_payload q2 -> unknown_details num -> wf_value typ v ->
  N.of_nat (length (details_enc q1 ++ (tag_enc num typ ++ v) ++ details_enc q2)) < two64 ->
  unmarshal_payload (field_bytes f_details (details_enc q1 ++ (tag_enc num typ ++ v) ++ details_enc q2)) =
  Some (merge q1 q2).
Proof.
  intros H1 H2 Hn Hv Hl. unfold unmarshal_payload, unmarshal_gen. change (msg_run (outer_step false)) with (orun false).
  rewrite <- (app_nil_r (field_bytes _ _)). rewrite orun_details by assumption.
  unfold unmarshal_details at 1. change (msg_run (details_step false)) with (hrun false).
  rewrite hrun_details_enc by assumption. rewrite merge_payload0. rewrite <- app_assoc.
  change (hrun false) with (msg_run (details_step false)).
  change (msg_run (details_step false) q1 ?b) with (unmarshal_details false q1 b).
  rewrite details_unknown_skipped by assumption. now rewrite unmarshal_details_enc.
Qed.

(* ---- documented disagreement classes ---- *)

(* D1  32-bit fields: the parser range-checks, the generated code keeps the low 32 bits *)
Definition dset_of (num : N) : details_msg -> N -> details_msg :=
  if num =? f_ii then dset_ii else if num =? f_ri then dset_ri else dset_ver.

Theorem disagree_u32_range q num v : wf_payload q -> u32_field num -> two32 <= v -> v < two64 ->
  N.of_nat (length (details_enc q ++ field_varint num v)) < two64 ->
  let b := field_bytes f_details (details_enc q ++ field_varint num v) in
  unmarshal_payload b = None /\
  schema_decode b = Some (mkHs (Some (dset_of num (details_of_payload q) (v mod two32))) []).
Proof.
  intros Hq K H1 H2 Hl b. split.
  - unfold b, unmarshal_payload. rewrite <- (app_nil_r (field_bytes _ _)).
    apply reject_in_details; try assumption; [apply field_varint_nonempty|].
    intros p'. rewrite <- (app_nil_r (field_varint num v)). now apply hstep_u32_range.
  - unfold b, schema_decode. change (msg_run schema_outer_step) with gorun.
    rewrite <- (app_nil_r (field_bytes _ _)).
    rewrite (gorun_field hs0 (mkHs (Some (dset_of num (details_of_payload q) (v mod two32))) [])); [reflexivity|apply field_bytes_nonempty|].
    rewrite gostep_details by assumption. cbn [h_details hs0 h_hmac].
    unfold schema_details_decode. change (msg_run schema_details_step) with grun.
    rewrite details_enc_is_schema. rewrite grun_schema_details_enc by (now apply wf_details_of_payload).
    rewrite dmerge_details0. rewrite <- (app_nil_r (field_varint num v)).
    rewrite (grun_field _ (dset_of num (details_of_payload q) (v mod two32))); [reflexivity|apply field_varint_nonempty|].
    apply gstep_u32; [|assumption].
    unfold dset_of. destruct K as [-> | [-> | ->]]; fcalc; auto.
Qed.

(* D3  fields the schema knows and the parser does not: a wrong wire type is skipped by the parser (it is an unknown
   field for it) and refused by the generated code; the strict variant of the parser refuses it as well *)
Theorem disagree_hmac_wiretype p m x rest : x < two64 ->
  outer_step false p (field_varint f_hmac x ++ rest) = Some (p, rest) /\
  outer_step true p (field_varint f_hmac x ++ rest) = None /\
  schema_outer_step m (field_varint f_hmac x ++ rest) = None.
Proof.
  intros Hx. unfold field_varint. rewrite <- !app_assoc. split; [|split].
  - unfold outer_step. rewrite tag_dec_enc by tag_ok. fcalc.
    rewrite skip_field_pw_nongroup by discriminate. now rewrite skip_field_varint.
  - unfold outer_step. rewrite tag_dec_enc by tag_ok. fcalc. reflexivity.
  - unfold schema_outer_step. rewrite tag_dec_gogo_enc by (try discriminate; tag_ok). fcalc. reflexivity.
Qed.

Theorem disagree_cookie_wiretype p d w rest : N.of_nat (length w) < two64 ->
  details_step false p (field_bytes f_cookie w ++ rest) = Some (p, rest) /\
  details_step true p (field_bytes f_cookie w ++ rest) = None /\
  schema_details_step d (field_bytes f_cookie w ++ rest) = None.
Proof.
  intros Hw. unfold field_bytes. rewrite <- !app_assoc. split; [|split].
  - unfold details_step. rewrite tag_dec_enc by tag_ok. fcalc.
    rewrite skip_field_pw_nongroup by discriminate. now rewrite skip_field_bytes.
  - unfold details_step. rewrite tag_dec_enc by tag_ok. fcalc. reflexivity.
  - unfold schema_details_step. rewrite tag_dec_gogo_enc by (try discriminate; tag_ok). fcalc. reflexivity.
Qed.

(* D2, D4, D5  witnesses of the remaining classes: all are refused by the parser and accepted by the generated code *)
Example disagree_overlong_varint :
  (* Time = ff ff ff ff ff ff ff ff ff 02: ten bytes, more than 64 bits *)
  let b := field_bytes f_details (tag_enc f_time wt_varint ++ [255; 255; 255; 255; 255; 255; 255; 255; 255; 2]) in
  unmarshal_payload b = None /\
  schema_decode b = Some (mkHs (Some (mkDetails [] 0 0 0 9223372036854775807 0)) []).
Proof. vm_compute. split; reflexivity. Qed.

Example disagree_field_number_wrap :
  (* tag with field number 2^32 + 5: refused by ConsumeTag, read as field 5 by the generated code *)
  let b := field_bytes f_details (varint_enc ((4294967296 + 5) * 8) ++ [7]) in
  unmarshal_payload b = None /\
  schema_decode b = Some (mkHs (Some (mkDetails [] 0 0 0 7 0)) []).
Proof. vm_compute. split; reflexivity. Qed.

Example disagree_group_end_mismatch :
  (* unknown group 9 closed by an end-group tag of field 10 *)
  let b := field_bytes f_details (tag_enc 9 wt_sgroup ++ tag_enc 10 wt_egroup ++ field_varint f_time 7) in
  unmarshal_payload b = None /\
  schema_decode b = Some (mkHs (Some (mkDetails [] 0 0 0 7 0)) []).
Proof. vm_compute. split; reflexivity. Qed.

Example repeated_fields_last_wins :
  let b := field_bytes f_details (field_varint f_ii 5 ++ field_varint f_ii 6) ++ field_bytes f_details (field_varint f_time 9) in
  unmarshal_payload b = Some (mkPayload [] 6 0 9 0) /\
  schema_decode b = Some (mkHs (Some (mkDetails [] 6 0 0 9 0)) []).
Proof. vm_compute. split; reflexivity. Qed.

(* ---- the statements of props/C08.v that combine several of the lemmas above ---- *)

Lemma rejects_in_details_all : forall q bad after, wf_payload q ->
  N.of_nat (length (details_enc q ++ bad)) < two64 ->
  (exists num typ rest, bad = tag_enc num typ ++ rest /\ known_details num /\ typ < 8 /\ typ <> expected_wt num) \/
  (exists num v rest, bad = field_varint num v ++ rest /\ u32_field num /\ two32 <= v < two64) \/
  (exists num t, bad = tag_enc num wt_varint ++ t /\ valid_num num /\ all_cont t) \/
  (bad <> [] /\ all_cont bad) \/
  (exists num n body, bad = tag_enc num wt_bytes ++ varint_enc n ++ body /\ valid_num num /\ n < two64 /\
                      N.of_nat (length body) < n) ->
  unmarshal_payload (field_bytes f_details (details_enc q ++ bad) ++ after) = None.
Proof.
  intros q bad after Hq Hl H. apply reject_in_details; try assumption.
  - destruct H as [(num & typ & rest & -> & _)|[(num & v & rest & -> & _)|[(num & t & -> & _)|[[H _]|(num & n & body & -> & _)]]]];
      try assumption; try (apply app_nonempty_l, tag_enc_nonempty); apply app_nonempty_l, field_varint_nonempty.
  - intros p'.
    destruct H as [(num & typ & rest & -> & K & Ht & Hne)|[(num & v & rest & -> & K & H1 & H2)|[(num & t & -> & V & Ht)|[[_ Ht]|(num & n & body & -> & V & Hn & Hb)]]]].
    + now apply hstep_wrong_wiretype.
    + now apply hstep_u32_range.
    + now apply hstep_truncated_value.
    + now apply hstep_truncated_tag.
    + now apply hstep_length_overrun.
Qed.

Lemma rejects_outer_all : forall bad,
  (exists typ rest, bad = tag_enc f_details typ ++ rest /\ typ < 8 /\ typ <> wt_bytes) \/
  (exists num t, bad = tag_enc num wt_varint ++ t /\ valid_num num /\ all_cont t) \/
  (bad <> [] /\ all_cont bad) \/
  (exists num n body, bad = tag_enc num wt_bytes ++ varint_enc n ++ body /\ valid_num num /\ n < two64 /\
                      N.of_nat (length body) < n) ->
  unmarshal_payload bad = None /\
  forall q, wf_payload q -> unmarshal_payload (marshal_payload q ++ bad) = None.
Proof.
  intros bad H.
  assert (Hne : bad <> []).
  { destruct H as [(typ & rest & -> & _)|[(num & t & -> & _)|[[H _]|(num & n & body & -> & _)]]];
      try assumption; apply app_nonempty_l, tag_enc_nonempty. }
  assert (Hs : forall p', outer_step false p' bad = None).
  { intros p'.
    destruct H as [(typ & rest & -> & Ht & Hn)|[(num & t & -> & V & Ht)|[[_ Ht]|(num & n & body & -> & V & Hn & Hb)]]].
    - now apply ostep_wrong_wiretype.
    - now apply ostep_truncated_value.
    - now apply ostep_truncated_tag.
    - now apply ostep_length_overrun. }
  split.
  - apply orun_reject; [assumption|apply Hs].
  - intros q Hq. now apply reject_after_message.
Qed.

Lemma unknown_skipped_both : forall p num typ v rest, wf_value typ v ->
  (unknown_details num -> unmarshal_details false p (tag_enc num typ ++ v ++ rest) = unmarshal_details false p rest) /\
  (valid_num num -> num <> f_details ->
   msg_run (outer_step false) p (tag_enc num typ ++ v ++ rest) = msg_run (outer_step false) p rest).
Proof.
  intros p num typ v rest Hv. split.
  - intros Hn. now apply details_unknown_skipped.
  - intros Hn Hne. now apply outer_unknown_skipped.
Qed.

Lemma schema_fwd_full : forall p, wf_payload p ->
  schema_decode (marshal_payload p) = Some (msg_of_payload p) /\
  payload_of_msg (msg_of_payload p) = p /\
  marshal_payload p = schema_encode (msg_of_payload p).
Proof.
  intros p H. split; [now apply schema_fwd|split; [apply payload_of_msg_of_payload|apply marshal_is_schema_encode]].
Qed.

Lemma disagree_schema_only_fields : forall p m d x w rest, x < two64 -> N.of_nat (length w) < two64 ->
  (outer_step false p (field_varint f_hmac x ++ rest) = Some (p, rest) /\
   outer_step true p (field_varint f_hmac x ++ rest) = None /\
   schema_outer_step m (field_varint f_hmac x ++ rest) = None) /\
  (details_step false p (field_bytes f_cookie w ++ rest) = Some (p, rest) /\
   details_step true p (field_bytes f_cookie w ++ rest) = None /\
   schema_details_step d (field_bytes f_cookie w ++ rest) = None).
Proof. intros. split; [now apply disagree_hmac_wiretype|now apply disagree_cookie_wiretype]. Qed.

Lemma disagree_witnesses :
  (let b := field_bytes f_details (tag_enc f_time wt_varint ++ [255; 255; 255; 255; 255; 255; 255; 255; 255; 2]) in
   unmarshal_payload b = None /\ schema_decode b = Some (mkHs (Some (mkDetails [] 0 0 0 9223372036854775807 0)) [])) /\
  (let b := field_bytes f_details (varint_enc ((4294967296 + 5) * 8) ++ [7]) in
   unmarshal_payload b = None /\ schema_decode b = Some (mkHs (Some (mkDetails [] 0 0 0 7 0)) [])) /\
  (let b := field_bytes f_details (tag_enc 9 wt_sgroup ++ tag_enc 10 wt_egroup ++ field_varint f_time 7) in
   unmarshal_payload b = None /\ schema_decode b = Some (mkHs (Some (mkDetails [] 0 0 0 7 0)) [])).
Proof.
  split; [exact disagree_overlong_varint|split; [exact disagree_field_number_wrap|exact disagree_group_end_mismatch]].
Qed.

(* Csum_proofs: checksumAVX2 (model asm_csum) and gvisor's Checksum (model gvisor_csum) return exactly the
   RFC 1071 value rfc1071 buf init - the same representative (0 only for all-zero input, else 1..0xffff). *)
From Coq Require Import List Arith NArith ZArith Lia Bool ZifyN ZifyNat ZifyBool.
Import ListNotations.
From NV Require Import lib.Bytes lib.Ones model.Csum.
Open Scope N_scope.
Local Ltac Zify.zify_post_hook ::= Z.div_mod_to_equations.

(* ---------------------------------------------------------------------------------------------- *)
(** * the bitwise forms of truncation and carry *)

Lemma wrap64_w64 x : wrap64 x = w64 x.
Proof. unfold wrap64, w64. change 18446744073709551615 with (N.ones 64). now rewrite N.land_ones. Qed.

Lemma carry64_div x : carry64 x = x / M64.
Proof. unfold carry64, M64. now rewrite N.shiftr_div_pow2. Qed.

(* ---------------------------------------------------------------------------------------------- *)
(** * little-endian loads *)

Lemma le_val_mod l : le_val l mod 65535 = sum16le l mod 65535.
Proof.
  induction l as [| a | a b l IH] using list_ind2.
  - reflexivity.
  - cbn [le_val sum16le]. lia.
  - cbn [le_val]. rewrite sum16le_pair. lia.
Qed.

Lemma le_val_0_iff l : le_val l = 0 <-> sum16le l = 0.
Proof.
  rewrite sum16le_0_iff. induction l as [|b l IH]; cbn [le_val].
  - split; [constructor|reflexivity].
  - split.
    + intros H. constructor; [lia|]. apply IH. lia.
    + intros H. inversion H as [|? ? Hb Hl]; subst. apply IH in Hl. lia.
Qed.

Lemma le_val_lt l : bytes_ok l = true -> le_val l < 256 ^ N.of_nat (length l).
Proof.
  induction l as [|b l IH]; intros H.
  - cbn. lia.
  - cbn [bytes_ok forallb] in H. apply andb_true_iff in H as [Hb Hl].
    unfold byte_ok in Hb. apply N.ltb_lt in Hb. specialize (IH Hl).
    cbn [le_val length]. replace (N.of_nat (S (length l))) with (N.succ (N.of_nat (length l))) by lia.
    rewrite N.pow_succ_r'. lia.
Qed.

Lemma le_val_lt_bytes k l : (length l <= k)%nat -> bytes_ok l = true -> le_val l < 256 ^ N.of_nat k.
Proof.
  intros Hk Hb. eapply N.lt_le_trans; [apply le_val_lt; exact Hb|].
  apply N.pow_le_mono_r; lia.
Qed.

Lemma le_val_lt64 l : (length l <= 8)%nat -> bytes_ok l = true -> le_val l < M64.
Proof. intros. change M64 with (256 ^ N.of_nat 8). now apply le_val_lt_bytes. Qed.

Lemma le_val_lt32 l : (length l <= 4)%nat -> bytes_ok l = true -> le_val l <= 4294967295.
Proof. intros Hk Hb. pose proof (le_val_lt_bytes 4 l Hk Hb) as H. change (256 ^ N.of_nat 4) with 4294967296 in H. lia. Qed.

(* ---------------------------------------------------------------------------------------------- *)
(** * partial sums: T stands for the bytes p when it is congruent to their little-endian word sum and is
      zero exactly when they are all zero *)

Definition rel (T : N) (p : list N) : Prop :=
  T mod 65535 = sum16le p mod 65535 /\ (T = 0 <-> sum16le p = 0).

Lemma rel_le_val p : rel (le_val p) p.
Proof. split; [apply le_val_mod|apply le_val_0_iff]. Qed.

Lemma rel_nil : rel 0 [].
Proof. split; reflexivity. Qed.

Lemma rel_app T1 T2 p1 p2 :
  Nat.even (length p1) = true -> rel T1 p1 -> rel T2 p2 -> rel (T1 + T2) (p1 ++ p2).
Proof.
  intros He [M1 Z1] [M2 Z2]. unfold rel. rewrite sum16le_app by exact He. split; lia.
Qed.

Definition lsum (l : list N) : N := fold_right N.add 0 l.

Lemma lsum_cons a l : lsum (a :: l) = a + lsum l.
Proof. reflexivity. Qed.

Lemma firstn_plus {A} (a b : nat) (l : list A) : firstn (a + b) l = firstn a l ++ firstn b (skipn a l).
Proof.
  revert l; induction a as [|a IH]; intros l; [reflexivity|].
  destruct l as [|x l]; cbn [Nat.add firstn skipn app].
  - now rewrite firstn_nil.
  - now rewrite IH.
Qed.

Lemma blocks_length k cnt : forall l, length (blocks k cnt l) = cnt.
Proof. induction cnt as [|c IH]; intros l; cbn [blocks length]; [reflexivity|now rewrite IH]. Qed.

Lemma even_mul_l k n : Nat.even k = true -> Nat.even (k * n) = true.
Proof. intros H. rewrite Nat.even_mul, H. reflexivity. Qed.

(* a loop summing f over cnt consecutive k-byte blocks stands for the k*cnt bytes it consumed *)
Lemma blocks_sum_rel (f : list N -> N) (k : nat) (B : N) :
  Nat.even k = true ->
  (forall p, length p = k -> bytes_ok p = true -> rel (f p) p /\ f p <= B) ->
  forall cnt l, (k * cnt <= length l)%nat -> bytes_ok l = true ->
    rel (lsum (map f (blocks k cnt l))) (firstn (k * cnt) l) /\
    lsum (map f (blocks k cnt l)) <= N.of_nat cnt * B.
Proof.
  intros Hk Hf. induction cnt as [|c IH]; intros l Hlen Hok.
  - cbn [blocks map lsum fold_right]. rewrite Nat.mul_0_r. cbn [firstn]. split; [apply rel_nil|lia].
  - cbn [blocks map lsum fold_right]. fold (lsum (map f (blocks k c (skipn k l)))).
    assert (Hl1 : length (firstn k l) = k) by (apply firstn_length_le; lia).
    destruct (Hf (firstn k l) Hl1 (bytes_ok_firstn k l Hok)) as [R1 B1].
    destruct (IH (skipn k l)) as [R2 B2].
    { rewrite skipn_length. lia. }
    { apply bytes_ok_skipn; exact Hok. }
    replace (k * S c)%nat with (k + k * c)%nat by lia. rewrite firstn_plus. split.
    + apply rel_app; [rewrite Hl1; exact Hk|exact R1|exact R2].
    + lia.
Qed.

(* ---------------------------------------------------------------------------------------------- *)
(** * the vector part of checksumAVX2 *)

Definition B32 : N := 4294967295.

(* words of one 4k-byte block *)
Lemma words32_block blk w :
  length blk = (4 * w)%nat -> bytes_ok blk = true ->
  rel (lsum (words32 blk)) blk /\ lsum (words32 blk) <= N.of_nat w * B32 /\ length (words32 blk) = w.
Proof.
  intros Hlen Hok. unfold words32.
  assert (E : (length blk / 4)%nat = w) by (rewrite Hlen; lia). rewrite E.
  assert (HF : forall p, length p = 4%nat -> bytes_ok p = true -> rel (le_val p) p /\ le_val p <= B32).
  { intros p Hp Hpo. split; [apply rel_le_val|]. apply le_val_lt32; [lia|exact Hpo]. }
  destruct (blocks_sum_rel le_val 4 B32 eq_refl HF w blk ltac:(lia) Hok) as [R Bd].
  rewrite <- Hlen, firstn_all in R. rewrite map_length, blocks_length. auto.
Qed.

Lemma vpaddq_spec : forall acc ws, (length ws <= length acc)%nat ->
  length (vpaddq acc ws) = length acc /\
  lsum (vpaddq acc ws) mod M64 = (lsum acc + lsum ws) mod M64.
Proof.
  induction acc as [|a acc IH]; intros [|w ws] H; cbn [vpaddq length lsum fold_right] in *.
  - split; reflexivity.
  - lia.
  - split; [reflexivity|]. f_equal. lia.
  - destruct (IH ws) as [L E]; [lia|]. fold (lsum (vpaddq acc ws)). fold (lsum acc). fold (lsum ws).
    split; [now rewrite L|]. rewrite wrap64_w64. unfold w64. fold M64.
    rewrite N.add_mod_idemp_l by discriminate.
    rewrite <- N.add_mod_idemp_r by discriminate. rewrite E. rewrite N.add_mod_idemp_r by discriminate.
    f_equal. lia.
Qed.

(* loop64 / loop32: trip count cnt, k = 4 w bytes per trip with w <= 16 words *)
Lemma vec_loop k w : k = (4 * w)%nat -> (w <= 16)%nat ->
  forall cnt l lanes, (k * cnt <= length l)%nat -> bytes_ok l = true -> length lanes = 16%nat ->
    length (fold_left vec_step (blocks k cnt l) lanes) = 16%nat /\
    lsum (fold_left vec_step (blocks k cnt l) lanes) mod M64 =
      (lsum lanes + lsum (map (fun p => lsum (words32 p)) (blocks k cnt l))) mod M64.
Proof.
  intros Hk Hw. induction cnt as [|c IH]; intros l lanes Hlen Hok HL.
  - cbn [blocks fold_left map]. change (lsum []) with 0. split; [exact HL|now rewrite N.add_0_r].
  - cbn [blocks fold_left map]. rewrite lsum_cons.
    assert (Hl1 : length (firstn k l) = (4 * w)%nat) by (rewrite firstn_length_le; lia).
    destruct (words32_block (firstn k l) w Hl1 (bytes_ok_firstn k l Hok)) as [_ [_ Lw]].
    destruct (vpaddq_spec lanes (words32 (firstn k l))) as [L1 E1]; [lia|].
    destruct (IH (skipn k l) (vec_step lanes (firstn k l))) as [L2 E2].
    { rewrite skipn_length. lia. }
    { apply bytes_ok_skipn; exact Hok. }
    { unfold vec_step. lia. }
    split; [exact L2|]. rewrite E2. unfold vec_step.
    rewrite <- N.add_mod_idemp_l by discriminate. rewrite E1. rewrite N.add_mod_idemp_l by discriminate.
    f_equal. lia.
Qed.

Lemma w64_idem_l a b : w64 (w64 a + b) = w64 (a + b).
Proof. unfold w64. apply N.add_mod_idemp_l. discriminate. Qed.

Lemma w64_idem_r a b : w64 (a + w64 b) = w64 (a + b).
Proof. unfold w64. apply N.add_mod_idemp_r. discriminate. Qed.

Lemma hreduce_spec lanes : length lanes = 16%nat -> hreduce lanes = w64 (lsum lanes).
Proof.
  intros H. unfold hreduce.
  set (y4 := firstn 4 lanes). set (y5 := firstn 4 (skipn 4 lanes)).
  set (y6 := firstn 4 (skipn 8 lanes)). set (y7 := firstn 4 (skipn 12 lanes)).
  assert (Hs : lsum lanes = lsum y4 + lsum y5 + lsum y6 + lsum y7).
  { subst y4 y5 y6 y7.
    do 16 (destruct lanes as [|? lanes]; [discriminate H|]). destruct lanes; [|discriminate H].
    cbn [firstn skipn lsum fold_right]. lia. }
  assert (L4 : length y4 = 4%nat) by (subst y4; rewrite firstn_length; lia).
  assert (L5 : length y5 = 4%nat) by (subst y5; rewrite firstn_length, skipn_length; lia).
  assert (L6 : length y6 = 4%nat) by (subst y6; rewrite firstn_length, skipn_length; lia).
  assert (L7 : length y7 = 4%nat) by (subst y7; rewrite firstn_length, skipn_length; lia).
  clearbody y4 y5 y6 y7.
  destruct (vpaddq_spec y4 y5) as [La Ea]; [rewrite L4, L5; apply Nat.le_refl|].
  destruct (vpaddq_spec y6 y7) as [Lb Eb]; [rewrite L6, L7; apply Nat.le_refl|].
  destruct (vpaddq_spec (vpaddq y4 y5) (vpaddq y6 y7)) as [Lc Ec]; [rewrite La, Lb, L4, L6; apply Nat.le_refl|].
  set (Y := vpaddq (vpaddq y4 y5) (vpaddq y6 y7)) in *.
  assert (EY : lsum Y mod M64 = lsum lanes mod M64).
  { rewrite Ec, Hs. rewrite N.add_mod by discriminate. rewrite Ea, Eb.
    rewrite <- N.add_mod by discriminate. f_equal. lia. }
  assert (LY : length Y = 4%nat) by (rewrite Lc, La; exact L4).
  clearbody Y.
  destruct Y as [|a [|b [|c [|d [|e Y]]]]]; try discriminate LY.
  cbn [firstn skipn vpaddq rev app hd]. rewrite !wrap64_w64. rewrite w64_idem_l, w64_idem_r.
  unfold w64. fold M64. rewrite <- EY. cbn [lsum fold_right]. f_equal. lia.
Qed.

Lemma lsum_zero_lanes : lsum zero_lanes = 0.
Proof. reflexivity. Qed.

(* ---------------------------------------------------------------------------------------------- *)
(** * the scalar accumulator *)

Definition Rax (ax S : N) : Prop := ax < M64 /\ ax mod 65535 = S mod 65535 /\ (ax = 0 <-> S = 0).

Lemma addq_adcq_eac ax src : ax < M64 -> src < M64 -> addq_adcq ax src = eac M64 ax src.
Proof.
  intros Ha Hs. unfold addq_adcq. cbv zeta. unfold w64 at 2. fold M64.
  rewrite eac_wrap by (try assumption; discriminate).
  unfold w64. fold M64. apply N.mod_small. now apply eac_lt.
Qed.

Lemma Rax_step ax S src p :
  Rax ax S -> src < M64 -> rel src p -> Rax (addq_adcq ax src) (S + sum16le p).
Proof.
  intros (Hlt & Hm & Hz) Hs [Rm Rz]. rewrite addq_adcq_eac by assumption.
  pose proof (eac_lt M64 ax src Hlt Hs). pose proof (eac64_mod ax src) as Em. fold M64 in Em.
  pose proof (eac_0_iff M64 ax src Hlt Hs).
  repeat split; try lia.
Qed.

Lemma Rax_ext ax S S' : Rax ax S -> S = S' -> Rax ax S'.
Proof. intros H <-. exact H. Qed.

Lemma loop8_inv cnt : forall l ax T,
  Rax ax T -> (8 * cnt <= length l)%nat -> bytes_ok l = true ->
  Rax (fold_left (fun a blk => addq_adcq a (le_val blk)) (blocks 8 cnt l) ax) (T + sum16le (firstn (8 * cnt) l)).
Proof.
  induction cnt as [|c IH]; intros l ax T HR Hlen Hok.
  - cbn [blocks fold_left]. rewrite Nat.mul_0_r. cbn [firstn sum16le]. rewrite N.add_0_r. exact HR.
  - cbn [blocks fold_left].
    assert (Hl1 : length (firstn 8 l) = 8%nat) by (apply firstn_length_le; lia).
    assert (Hok1 := bytes_ok_firstn 8 l Hok).
    eapply Rax_ext.
    + apply IH.
      * apply (Rax_step ax T (le_val (firstn 8 l)) (firstn 8 l) HR); [apply le_val_lt64; [lia|exact Hok1]|apply rel_le_val].
      * rewrite skipn_length. lia.
      * apply bytes_ok_skipn; exact Hok.
    + replace (8 * S c)%nat with (8 + 8 * c)%nat by lia. rewrite firstn_plus.
      rewrite sum16le_app by (rewrite Hl1; reflexivity). lia.
Qed.

(* one of the 4/2/1-byte tails *)
Lemma tail_step k rest ax S :
  (k <= 8)%nat -> Nat.even k = true \/ (length rest <= k)%nat ->
  Rax ax S -> bytes_ok rest = true ->
  Rax (addq_adcq ax (le_val (firstn k rest))) (S + sum16le rest - sum16le (skipn k rest)) /\
  sum16le (skipn k rest) <= S + sum16le rest.
Proof.
  intros Hk He HR Hok.
  assert (Hsplit : sum16le rest = sum16le (firstn k rest) + sum16le (skipn k rest)).
  { destruct He as [He|He].
    - apply sum16le_split; exact He.
    - rewrite firstn_all2, skipn_all2 by lia. cbn [sum16le]. lia. }
  split; [|lia].
  eapply Rax_ext.
  - apply (Rax_step ax S (le_val (firstn k rest)) (firstn k rest) HR); [|apply rel_le_val].
    apply le_val_lt64; [rewrite firstn_length; lia|apply bytes_ok_firstn; exact Hok].
  - lia.
Qed.

Lemma scalar_tail_inv rest ax S :
  Rax ax S -> bytes_ok rest = true -> Rax (scalar_tail rest ax) (S + sum16le rest).
Proof.
  intros HR Hok. unfold scalar_tail.
  set (n8 := (length rest / 8)%nat).
  assert (Hn8 : (8 * n8 <= length rest < 8 * n8 + 8)%nat) by (unfold n8; lia).
  pose proof (loop8_inv n8 rest ax S HR (proj1 Hn8) Hok) as H1.
  set (ax1 := fold_left (fun a blk => addq_adcq a (le_val blk)) (blocks 8 n8 rest) ax) in *.
  pose proof (sum16le_split (8 * n8) rest (even_mul_l 8 n8 eq_refl)) as E1.
  set (r1 := skipn (8 * n8) rest) in *.
  assert (L1 : (length r1 < 8)%nat) by (unfold r1; rewrite skipn_length; lia).
  assert (Hok1 : bytes_ok r1 = true) by (apply bytes_ok_skipn; exact Hok).
  set (S1 := S + sum16le (firstn (8 * n8) rest)) in *.
  replace (S + sum16le rest) with (S1 + sum16le r1) by (unfold S1; lia).
  clearbody ax1 S1 r1. clear E1 Hn8 n8 HR Hok ax S rest.
  (* tail4 *)
  assert (exists ax2 r2 S2, (if (4 <=? length r1)%nat then (addq_adcq ax1 (le_val (firstn 4 r1)), skipn 4 r1) else (ax1, r1)) = (ax2, r2)
            /\ Rax ax2 S2 /\ S2 + sum16le r2 = S1 + sum16le r1 /\ (length r2 < 4)%nat /\ bytes_ok r2 = true)
    as (ax2 & r2 & S2 & E2 & HR2 & HS2 & L2 & Hok2).
  { destruct (Nat.leb_spec 4 (length r1)) as [Hc|Hc].
    - destruct (tail_step 4 r1 ax1 S1) as [T1 T2]; [lia|left; reflexivity|exact H1|exact Hok1|].
      eexists _, _, _. split; [reflexivity|]. split; [exact T1|]. split; [lia|].
      split; [rewrite skipn_length; lia|apply bytes_ok_skipn; exact Hok1].
    - eexists _, _, _. split; [reflexivity|]. split; [exact H1|]. split; [reflexivity|]. split; [lia|exact Hok1]. }
  rewrite E2. clear E2.
  replace (S1 + sum16le r1) with (S2 + sum16le r2) by lia.
  clear H1 L1 Hok1 HS2 ax1 S1 r1.
  (* tail2 *)
  assert (exists ax3 r3 S3, (if (2 <=? length r2)%nat then (addq_adcq ax2 (le_val (firstn 2 r2)), skipn 2 r2) else (ax2, r2)) = (ax3, r3)
            /\ Rax ax3 S3 /\ S3 + sum16le r3 = S2 + sum16le r2 /\ (length r3 < 2)%nat /\ bytes_ok r3 = true)
    as (ax3 & r3 & S3 & E3 & HR3 & HS3 & L3 & Hok3).
  { destruct (Nat.leb_spec 2 (length r2)) as [Hc|Hc].
    - destruct (tail_step 2 r2 ax2 S2) as [T1 T2]; [lia|left; reflexivity|exact HR2|exact Hok2|].
      eexists _, _, _. split; [reflexivity|]. split; [exact T1|]. split; [lia|].
      split; [rewrite skipn_length; lia|apply bytes_ok_skipn; exact Hok2].
    - eexists _, _, _. split; [reflexivity|]. split; [exact HR2|]. split; [reflexivity|]. split; [lia|exact Hok2]. }
  rewrite E3. clear E3.
  replace (S2 + sum16le r2) with (S3 + sum16le r3) by lia.
  clear HR2 L2 Hok2 HS3 ax2 S2 r2.
  (* tail1 *)
  destruct (Nat.eqb_spec (length r3) 0) as [Hc|Hc].
  - destruct r3; [|discriminate Hc]. cbn [sum16le]. rewrite N.add_0_r. exact HR3.
  - destruct (tail_step 1 r3 ax3 S3) as [T1 T2]; [lia|right; lia|exact HR3|exact Hok3|].
    rewrite skipn_all2 in T1 by lia. cbn [sum16le] in T1. rewrite N.sub_0_r in T1. exact T1.
Qed.

(* ---------------------------------------------------------------------------------------------- *)
(** * the fold stages *)

Lemma w64_small x : x < 18446744073709551616 -> w64 x = x.
Proof. apply N.mod_small. Qed.

Lemma asm_fold_reduce64 ax : ax < M64 -> asm_fold ax = swap16 (reduce64 ax).
Proof.
  unfold M64. intros H. unfold asm_fold, reduce64, fold32_step, fold_step. cbv zeta.
  change (ax mod 4294967296) with (w32 ax).
  set (a1 := w32 ax + ax / 4294967296).
  assert (B1 : a1 <= 8589934590) by (unfold a1, w32; lia).
  rewrite (w64_small a1) by lia.
  rewrite (w64_small (a1 + a1 / 4294967296)) by lia.
  rewrite (N.add_comm (a1 / 4294967296) a1).
  set (a2 := w32 (a1 + a1 / 4294967296)).
  assert (B2 : a2 <= 4294967295) by (unfold a2, w32; lia).
  change (a2 mod 65536) with (w16 a2).
  set (a3 := w16 a2 + a2 / 65536).
  assert (B3 : a3 <= 131070) by (unfold a3, w16; lia).
  rewrite (w64_small a3) by lia.
  rewrite (w64_small (a3 + a3 / 65536)) by lia.
  rewrite (N.add_comm (a3 / 65536) a3). reflexivity.
Qed.

Lemma asm_fold_spec ax : ax < M64 -> asm_fold ax = swap16 (fold16 ax).
Proof. intros H. rewrite asm_fold_reduce64 by exact H. now rewrite reduce64_fold16. Qed.

(* the common last step: fold a little-endian-space accumulator and swap *)
Lemma finish_le ax buf init :
  init < 65536 -> Rax ax (swap16 init + sum16le buf) -> swap16 (fold16 ax) = rfc1071 buf init.
Proof.
  intros Hi (Hlt & Hm & Hz). unfold rfc1071. apply swap16_fold16.
  - pose proof (swap16_mod init Hi). pose proof (sum16le_mod buf). lia.
  - pose proof (swap16_0_iff init Hi). pose proof (sum16_sum16le_0 buf). lia.
Qed.

(* ---------------------------------------------------------------------------------------------- *)
(** * checksumAVX2 = RFC 1071 *)

Definition max_len : N := 17179869184.   (* 2^34 *)

Theorem asm_csum_correct buf init :
  bytes_ok buf = true -> init < 65536 -> N.of_nat (length buf) < max_len ->
  asm_csum buf init = rfc1071 buf init.
Proof.
  intros Hok Hi Hn. unfold asm_csum. cbv zeta.
  replace (w16 init) with init by (symmetry; apply N.mod_small; exact Hi).
  assert (R0 : Rax (swap16 init) (swap16 init)).
  { pose proof (swap16_lt init). unfold Rax, M64. repeat split; lia. }
  destruct (Nat.ltb_spec (length buf) 32) as [Hs|Hs].
  - (* scalar only *)
    pose proof (scalar_tail_inv buf _ _ R0 Hok) as HR.
    rewrite asm_fold_spec by apply HR. now apply finish_le.
  - set (n64 := (length buf / 64)%nat).
    assert (Hn64 : (64 * n64 <= length buf < 64 * n64 + 64)%nat) by (unfold n64; lia).
    destruct (vec_loop 64 16 eq_refl (Nat.le_refl _) n64 buf zero_lanes (proj1 Hn64) Hok eq_refl) as [L1 E1].
    assert (HF64 : forall p, length p = 64%nat -> bytes_ok p = true ->
                     rel (lsum (words32 p)) p /\ lsum (words32 p) <= 16 * B32).
    { intros p Hp Hpo. destruct (words32_block p 16 Hp Hpo) as (? & ? & _). split; [assumption|lia]. }
    destruct (blocks_sum_rel (fun p => lsum (words32 p)) 64 (16 * B32) eq_refl HF64 n64 buf (proj1 Hn64) Hok)
      as [RA BA].
    set (lanes1 := fold_left vec_step (blocks 64 n64 buf) zero_lanes) in *.
    set (A := lsum (map (fun p => lsum (words32 p)) (blocks 64 n64 buf))) in *.
    pose proof (sum16le_split (64 * n64) buf (even_mul_l 64 n64 eq_refl)) as Sp1.
    set (rest1 := skipn (64 * n64) buf) in *.
    assert (Lr1 : length rest1 = (length buf - 64 * n64)%nat) by (unfold rest1; apply skipn_length).
    assert (Hok1 : bytes_ok rest1 = true) by (apply bytes_ok_skipn; exact Hok).
    set (n32 := (length rest1 / 32)%nat).
    assert (Hn32 : (32 * n32 <= length rest1 < 32 * n32 + 32)%nat) by (unfold n32; lia).
    destruct (vec_loop 32 8 eq_refl ltac:(lia) n32 rest1 lanes1 (proj1 Hn32) Hok1 L1) as [L2 E2].
    assert (HF32 : forall p, length p = 32%nat -> bytes_ok p = true ->
                     rel (lsum (words32 p)) p /\ lsum (words32 p) <= 8 * B32).
    { intros p Hp Hpo. destruct (words32_block p 8 Hp Hpo) as (? & ? & _). split; [assumption|lia]. }
    destruct (blocks_sum_rel (fun p => lsum (words32 p)) 32 (8 * B32) eq_refl HF32 n32 rest1 (proj1 Hn32) Hok1)
      as [RB BB].
    set (lanes2 := fold_left vec_step (blocks 32 n32 rest1) lanes1) in *.
    set (Bv := lsum (map (fun p => lsum (words32 p)) (blocks 32 n32 rest1))) in *.
    pose proof (sum16le_split (32 * n32) rest1 (even_mul_l 32 n32 eq_refl)) as Sp2.
    set (rest2 := skipn (32 * n32) rest1) in *.
    assert (Hok2 : bytes_ok rest2 = true) by (apply bytes_ok_skipn; exact Hok1).
    (* R8 is the exact sum of the u32 words: no 64-bit wrap below 2^34 bytes *)
    assert (HR8 : hreduce lanes2 = A + Bv).
    { rewrite hreduce_spec by exact L2. unfold w64. fold M64. rewrite E2.
      rewrite <- (N.add_mod_idemp_l (lsum lanes1)) by discriminate. rewrite E1.
      rewrite N.add_mod_idemp_l by discriminate.
      rewrite lsum_zero_lanes. apply N.mod_small. unfold M64, B32, max_len in *. lia. }
    rewrite HR8.
    assert (RAB : rel (A + Bv) (firstn (64 * n64) buf ++ firstn (32 * n32) rest1)).
    { apply rel_app; [|exact RA|exact RB]. rewrite firstn_length_le by lia. apply even_mul_l. reflexivity. }
    assert (R1 : Rax (addq_adcq (swap16 init) (A + Bv))
                   (swap16 init + sum16le (firstn (64 * n64) buf ++ firstn (32 * n32) rest1))).
    { apply Rax_step; [exact R0| |exact RAB]. unfold M64, B32, max_len in *. lia. }
    pose proof (scalar_tail_inv rest2 _ _ R1 Hok2) as HR.
    rewrite asm_fold_spec by apply HR. apply finish_le; [exact Hi|].
    eapply Rax_ext; [exact HR|].
    rewrite sum16le_app by (rewrite firstn_length_le by lia; apply even_mul_l; reflexivity).
    clear - Sp1 Sp2. lia.
Qed.

(* what the common value is: the canonical representative *)
Lemma rfc1071_range buf init :
  rfc1071 buf init <= 65535 /\ (rfc1071 buf init = 0 <-> init = 0 /\ Forall (fun b => b = 0) buf).
Proof.
  unfold rfc1071. split; [apply fold16_le|]. rewrite fold16_0_iff, <- sum16_0_iff. lia.
Qed.

Lemma rfc1071_representative buf init :
  rfc1071 buf init <= 65535 /\
  (rfc1071 buf init = 0 <-> init = 0 /\ Forall (fun b => b = 0) buf) /\
  rfc1071 buf init mod 65535 = (init + sum16 buf) mod 65535.
Proof. split; [apply rfc1071_range|]. split; [apply rfc1071_range|apply fold16_mod]. Qed.

Lemma rfc1071_mod buf init : rfc1071 buf init mod 65535 = (init + sum16 buf) mod 65535.
Proof. apply fold16_mod. Qed.

(* ---------------------------------------------------------------------------------------------- *)
(** * the word-by-word textbook sum is the same function *)

Lemma ocadd_fold16 a w : a <= 65535 -> w <= 65535 -> ocadd a w = fold16 (a + w) /\ ocadd a w <= 65535.
Proof.
  intros Ha Hw. unfold ocadd, fold16. cbv zeta.
  destruct (N.ltb_spec (a + w) 65536); destruct (N.eqb_spec (a + w) 0); lia.
Qed.

Lemma textbook_from_spec l : forall acc, bytes_ok l = true -> acc <= 65535 ->
  textbook_from acc l = fold16 (acc + sum16 l).
Proof.
  induction l as [| a | a b l IH] using list_ind2; intros acc Hok Hacc.
  - cbn [textbook_from sum16]. rewrite N.add_0_r. symmetry. now apply fold16_small.
  - cbn [bytes_ok forallb] in Hok. rewrite andb_true_r in Hok. unfold byte_ok in Hok. apply N.ltb_lt in Hok.
    cbn [textbook_from sum16]. apply ocadd_fold16; lia.
  - cbn [bytes_ok forallb] in Hok. apply andb_true_iff in Hok as [Ha Hok]. apply andb_true_iff in Hok as [Hb Hok].
    unfold byte_ok in Ha, Hb. apply N.ltb_lt in Ha. apply N.ltb_lt in Hb.
    cbn [textbook_from]. rewrite sum16_pair.
    destruct (ocadd_fold16 acc (a * 256 + b)) as [E B]; [exact Hacc|lia|].
    rewrite IH by assumption. rewrite E, fold16_add_l. f_equal. lia.
Qed.

Theorem textbook_rfc1071 buf init :
  bytes_ok buf = true -> init < 65536 -> textbook buf init = rfc1071 buf init.
Proof. intros Hok Hi. unfold textbook, rfc1071. apply textbook_from_spec; [exact Hok|lia]. Qed.

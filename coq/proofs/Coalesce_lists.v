(* Coalesce_lists: list, association-map and sorting lemmas used by the C23 proofs. *)
From Coq Require Import List NArith Bool Arith Lia Permutation Sorted.
Import ListNotations.
From NV Require Import lib.Bytes lib.Corr gen.Consts_Coalesce model.Coalesce.
Open Scope N_scope.

(* ---------------------------------------------------------------------------------------------- *)
(** * upd_nth *)

Lemma upd_nth_length {A} (x : A) : forall l i, length (upd_nth i x l) = length l.
Proof. induction l as [|y l IH]; intros [|i]; simpl; auto. Qed.

Lemma nth_error_upd_nth_eq {A} (x : A) : forall l i, (i < length l)%nat -> nth_error (upd_nth i x l) i = Some x.
Proof.
  induction l as [|y l IH]; intros [|i] H; simpl in *; try lia; auto.
  apply IH. lia.
Qed.

Lemma nth_error_upd_nth_neq {A} (x : A) : forall l i j, i <> j -> nth_error (upd_nth i x l) j = nth_error l j.
Proof.
  induction l as [|y l IH]; intros [|i] [|j] H; simpl; auto; try congruence.
Qed.

Lemma upd_nth_split {A} (x : A) : forall l i y, nth_error l i = Some y ->
  l = firstn i l ++ y :: skipn (S i) l /\ upd_nth i x l = firstn i l ++ x :: skipn (S i) l.
Proof.
  induction l as [|z l IH]; intros [|i] y H; simpl in *; try discriminate.
  - inversion H; subst. split; reflexivity.
  - destruct (IH i y H) as [E1 E2]. split.
    + f_equal. exact E1.
    + f_equal. exact E2.
Qed.

Lemma nth_error_Some_lt {A} (l : list A) i y : nth_error l i = Some y -> (i < length l)%nat.
Proof. intros H. apply nth_error_Some. congruence. Qed.

Lemma nth_error_app_new {A} (l : list A) (x : A) : nth_error (l ++ [x]) (length l) = Some x.
Proof. rewrite nth_error_app2 by lia. rewrite Nat.sub_diag. reflexivity. Qed.

Lemma nth_error_snoc_cases {A} (l : list A) (x : A) j y :
  nth_error (l ++ [x]) j = Some y -> (nth_error l j = Some y /\ (j < length l)%nat) \/ (j = length l /\ y = x).
Proof.
  intros H. destruct (Nat.lt_ge_cases j (length l)) as [Hl|Hl].
  - left. rewrite nth_error_app1 in H by exact Hl. auto.
  - right. rewrite nth_error_app2 in H by exact Hl.
    destruct (j - length l)%nat as [|k] eqn:E; simpl in H.
    + inversion H; subst. split; [lia|reflexivity].
    + destruct k; discriminate.
Qed.

Lemma concat_snoc {A} (l : list (list A)) (x : list A) : concat (l ++ [x]) = concat l ++ x.
Proof. rewrite concat_app. simpl. rewrite app_nil_r. reflexivity. Qed.

(* ---------------------------------------------------------------------------------------------- *)
(** * ForallOrdPairs *)

Section FOP.
  Context {A : Type} (R : A -> A -> Prop).

  Lemma FOP_app (a b : list A) :
    ForallOrdPairs R (a ++ b) <->
    ForallOrdPairs R a /\ ForallOrdPairs R b /\ (forall x y, In x a -> In y b -> R x y).
  Proof.
    induction a as [|z a IH]; simpl.
    - split.
      + intros H. repeat split; auto. constructor. intros x y [].
      + intros (_ & H & _). exact H.
    - split.
      + intros H. inversion H as [|? ? Hz Hr]; subst.
        apply IH in Hr. destruct Hr as (Ha & Hb & Hab).
        rewrite Forall_app in Hz. destruct Hz as [Hza Hzb].
        repeat split; auto.
        * constructor; assumption.
        * intros x y [Hx|Hx] Hy.
          -- subst. rewrite Forall_forall in Hzb. apply Hzb. exact Hy.
          -- apply Hab; assumption.
      + intros (Ha & Hb & Hab). inversion Ha as [|? ? Hz Hr]; subst.
        constructor.
        * rewrite Forall_app. split; [exact Hz|].
          rewrite Forall_forall. intros y Hy. apply Hab; [left; reflexivity|exact Hy].
        * apply IH. repeat split; auto.
  Qed.

  Lemma FOP_single (x : A) : ForallOrdPairs R [x].
  Proof. constructor; constructor. Qed.

  (* appending at the end *)
  Lemma FOP_snoc (a : list A) (x : A) :
    ForallOrdPairs R a -> (forall y, In y a -> R y x) -> ForallOrdPairs R (a ++ [x]).
  Proof.
    intros Ha Hx. apply FOP_app. repeat split; auto.
    - apply FOP_single.
    - intros y z Hy [Hz|[]]. subst. apply Hx. exact Hy.
  Qed.

  (* inserting in the middle *)
  Lemma FOP_insert (a b : list A) (x : A) :
    ForallOrdPairs R (a ++ b) -> (forall y, In y a -> R y x) -> (forall y, In y b -> R x y) ->
    ForallOrdPairs R (a ++ x :: b).
  Proof.
    intros H Ha Hb. apply FOP_app in H. destruct H as (H1 & H2 & H12).
    apply FOP_app. repeat split; auto.
    - constructor; [|exact H2]. rewrite Forall_forall. exact Hb.
    - intros y z Hy [Hz|Hz]; [subst; apply Ha; exact Hy|apply H12; assumption].
  Qed.

  Lemma FOP_decomp (l1 l2 l3 : list A) (q p : A) :
    ForallOrdPairs R (l1 ++ q :: l2 ++ p :: l3) -> R q p.
  Proof.
    intros H. apply FOP_app in H. destruct H as (_ & H & _).
    inversion H as [|? ? Hq _]; subst. rewrite Forall_forall in Hq. apply Hq.
    apply in_or_app. right. left. reflexivity.
  Qed.
End FOP.

Lemma FOP_impl_in {A} (R S : A -> A -> Prop) (l : list A) :
  (forall x y, In x l -> In y l -> R x y -> S x y) -> ForallOrdPairs R l -> ForallOrdPairs S l.
Proof.
  induction l as [|z l IH]; intros Hi H; [constructor|].
  inversion H as [|? ? Hz Hr]; subst. constructor.
  - rewrite Forall_forall in *. intros y Hy. apply Hi; [left; reflexivity|right; exact Hy|apply Hz; exact Hy].
  - apply IH; [|exact Hr]. intros x y Hx Hy. apply Hi; right; assumption.
Qed.

(* ---------------------------------------------------------------------------------------------- *)
(** * Forall2 *)

Lemma Forall2_concat {A B} (R : A -> B -> Prop) (la : list (list A)) (lb : list (list B)) :
  Forall2 (Forall2 R) la lb -> Forall2 R (concat la) (concat lb).
Proof.
  induction 1; simpl; [constructor|]. apply Forall2_app; assumption.
Qed.

Lemma Forall2_map_l {A B C} (R : B -> C -> Prop) (f : A -> B) (la : list A) (lc : list C) :
  Forall2 (fun a c => R (f a) c) la lc <-> Forall2 R (map f la) lc.
Proof.
  split.
  - induction 1; simpl; constructor; auto.
  - revert lc. induction la as [|a la IH]; intros lc H; inversion H; subst; constructor; auto.
Qed.

Lemma Forall2_refl_in {A} (R : A -> A -> Prop) (l : list A) : (forall x, In x l -> R x x) -> Forall2 R l l.
Proof. induction l; intros H; constructor; [apply H; left; reflexivity|apply IHl; intros; apply H; right; assumption]. Qed.

Lemma Forall2_impl {A B} (R S : A -> B -> Prop) la lb :
  (forall a b, R a b -> S a b) -> Forall2 R la lb -> Forall2 S la lb.
Proof. intros H. induction 1; constructor; auto. Qed.

(* ---------------------------------------------------------------------------------------------- *)
(** * flow keys and the open-slot map *)

Lemma fkey_eqb_eq (a b : fkey) : fkey_eqb a b = true <-> a = b.
Proof.
  destruct a as [[[[v s] d] sp] dp], b as [[[[v' s'] d'] sp'] dp']. simpl.
  rewrite !andb_true_iff, eqb_true_iff, !N.eqb_eq. split.
  - intros ((((-> & ->) & ->) & ->) & ->). reflexivity.
  - intros H. inversion H. repeat split; reflexivity.
Qed.

Lemma fkey_eqb_refl a : fkey_eqb a a = true.
Proof. apply fkey_eqb_eq. reflexivity. Qed.

Lemma fkey_eqb_neq (a b : fkey) : fkey_eqb a b = false <-> a <> b.
Proof.
  split.
  - intros H E. apply fkey_eqb_eq in E. congruence.
  - intros H. destruct (fkey_eqb a b) eqn:E; [apply fkey_eqb_eq in E; contradiction|reflexivity].
Qed.

Lemma fkey_dec (a b : fkey) : a = b \/ a <> b.
Proof. destruct (fkey_eqb a b) eqn:E; [left; apply fkey_eqb_eq; exact E|right; apply fkey_eqb_neq; exact E]. Qed.

Lemma assoc_remove_key f g m : assoc f (remove_key g m) = if fkey_eqb f g then None else assoc f m.
Proof.
  induction m as [|[k v] m IH]; simpl.
  - destruct (fkey_eqb f g); reflexivity.
  - destruct (fkey_eqb k g) eqn:Ekg.
    + rewrite IH. destruct (fkey_eqb f g) eqn:Efg; [reflexivity|].
      destruct (fkey_eqb k f) eqn:Ekf; [|reflexivity].
      apply fkey_eqb_eq in Ekg, Ekf. subst. rewrite fkey_eqb_refl in Efg. discriminate.
    + simpl. destruct (fkey_eqb k f) eqn:Ekf.
      * apply fkey_eqb_eq in Ekf. subst. rewrite Ekg. reflexivity.
      * exact IH.
Qed.

Lemma assoc_set_key f g v m : assoc f (set_key g v m) = if fkey_eqb f g then Some v else assoc f m.
Proof.
  unfold set_key. simpl. destruct (fkey_eqb g f) eqn:E.
  - apply fkey_eqb_eq in E. subst. rewrite fkey_eqb_refl. reflexivity.
  - rewrite assoc_remove_key. destruct (fkey_eqb f g) eqn:E'; [|reflexivity].
    apply fkey_eqb_eq in E'. subst. rewrite fkey_eqb_refl in E. discriminate.
Qed.

(* ---------------------------------------------------------------------------------------------- *)
(** * keys, sorting *)

Definition key_le (a b : key) : Prop := key_leb a b = true.
Definition key_lt (a b : key) : Prop := key_ltb a b = true.

Lemma key_leb_spec a b : key_leb a b = true <-> (fst a < fst b \/ (fst a = fst b /\ snd a <= snd b)).
Proof.
  unfold key_leb. rewrite orb_true_iff, andb_true_iff, N.ltb_lt, N.eqb_eq, N.leb_le. tauto.
Qed.

Lemma key_ltb_spec a b : key_ltb a b = true <-> (fst a < fst b \/ (fst a = fst b /\ snd a < snd b)).
Proof.
  unfold key_ltb. rewrite orb_true_iff, andb_true_iff, !N.ltb_lt, N.eqb_eq. tauto.
Qed.

Lemma key_le_total a b : key_le a b \/ key_le b a.
Proof. unfold key_le. rewrite !key_leb_spec. lia. Qed.

Lemma key_le_trans a b c : key_le a b -> key_le b c -> key_le a c.
Proof. unfold key_le. rewrite !key_leb_spec. lia. Qed.

Lemma key_le_not_lt a b : key_le a b -> key_ltb b a = false.
Proof.
  unfold key_le. rewrite key_leb_spec. intros H.
  destruct (key_ltb b a) eqn:E; [|reflexivity]. apply key_ltb_spec in E. lia.
Qed.

Lemma key_leb_false a b : key_leb a b = false -> key_le b a.
Proof.
  intros H. destruct (key_le_total a b) as [H'|H']; [unfold key_le in H'; congruence|exact H'].
Qed.

Definition skey_le (a b : staged) : Prop := key_le (fst a) (fst b).
Definition sorted_staged (l : list staged) : Prop := StronglySorted skey_le l.

Lemma insert_staged_perm x l : Permutation (insert_staged x l) (x :: l).
Proof.
  induction l as [|y l IH]; simpl; [reflexivity|].
  destruct (key_leb (fst x) (fst y)); [reflexivity|].
  rewrite IH. apply perm_swap.
Qed.

Lemma sort_staged_perm l : Permutation (sort_staged l) l.
Proof.
  induction l as [|x l IH]; simpl; [reflexivity|].
  unfold sort_staged in *. simpl. rewrite insert_staged_perm. constructor. exact IH.
Qed.

Lemma insert_staged_sorted x l : sorted_staged l -> sorted_staged (insert_staged x l).
Proof.
  unfold sorted_staged. induction l as [|y l IH]; intros H; simpl.
  - constructor; constructor.
  - destruct (key_leb (fst x) (fst y)) eqn:E.
    + constructor; [exact H|]. inversion H as [|? ? Hs Hf]; subst. constructor; [exact E|].
      rewrite Forall_forall in *. intros z Hz. eapply key_le_trans; [exact E|apply Hf; exact Hz].
    + inversion H as [|? ? Hs Hf]; subst. constructor; [apply IH; exact Hs|].
      rewrite Forall_forall in *. intros z Hz.
      apply (Permutation_in _ (insert_staged_perm x l)) in Hz. destruct Hz as [Hz|Hz].
      * subst. apply key_leb_false. exact E.
      * apply Hf. exact Hz.
Qed.

Lemma sort_staged_sorted l : sorted_staged (sort_staged l).
Proof.
  induction l as [|x l IH]; simpl; [constructor|].
  unfold sort_staged in *. simpl. apply insert_staged_sorted. exact IH.
Qed.

(* ---------------------------------------------------------------------------------------------- *)
(** * chunk *)

Lemma chunk_fuel_cons fuel n (l : list N) :
  l <> [] -> chunk_fuel (S fuel) n l = firstn n l :: chunk_fuel fuel n (skipn n l).
Proof. destruct l; [congruence|reflexivity]. Qed.

Lemma chunk_fuel_nil fuel n : chunk_fuel fuel n [] = [].
Proof. destruct fuel; reflexivity. Qed.

Lemma chunk_fuel_pieces (n : nat) : forall (ps : list (list N)) (fuel : nat),
  (1 <= n)%nat ->
  (length (concat ps) <= fuel)%nat ->
  all_but_last (fun x => N.of_nat (length x) =? N.of_nat n) ps = true ->
  (1 <= length (last ps []))%nat -> (length (last ps []) <= n)%nat ->
  chunk_fuel fuel n (concat ps) = ps.
Proof.
  induction ps as [|p ps IH]; intros fuel Hn Hf Hab Hl1 Hl2.
  - simpl in Hl1. lia.
  - destruct ps as [|p2 ps].
    + (* the last piece *)
      simpl in Hl1, Hl2, Hf. simpl concat. rewrite app_nil_r in *.
      destruct fuel as [|fuel]; [lia|].
      rewrite chunk_fuel_cons by (destruct p; simpl in *; [lia|discriminate]).
      rewrite firstn_all2 by exact Hl2. rewrite skipn_all2 by exact Hl2.
      rewrite chunk_fuel_nil. reflexivity.
    + assert (Hp : length p = n).
      { simpl in Hab. apply andb_prop in Hab. destruct Hab as [Hab _]. apply N.eqb_eq in Hab. lia. }
      assert (Hab' : all_but_last (fun x => N.of_nat (length x) =? N.of_nat n) (p2 :: ps) = true).
      { simpl in Hab. apply andb_prop in Hab. destruct Hab as [_ Hab]. exact Hab. }
      change (concat (p :: p2 :: ps)) with (p ++ concat (p2 :: ps)) in *.
      rewrite app_length in Hf.
      destruct fuel as [|fuel]; [lia|].
      rewrite chunk_fuel_cons by (destruct p; simpl in *; [lia|discriminate]).
      rewrite firstn_app, skipn_app, Hp, Nat.sub_diag, firstn_O, skipn_O, app_nil_r.
      rewrite (firstn_all2 p) by lia. rewrite (skipn_all2 p) by lia. rewrite app_nil_l.
      f_equal. apply IH; auto. lia.
Qed.

Lemma chunk_pieces (n : nat) (ps : list (list N)) :
  (1 <= n)%nat ->
  all_but_last (fun x => N.of_nat (length x) =? N.of_nat n) ps = true ->
  (1 <= length (last ps []))%nat -> (length (last ps []) <= n)%nat ->
  chunk n (concat ps) = ps.
Proof. intros. unfold chunk. apply chunk_fuel_pieces; auto. Qed.

(* History-level form of the replay statement of C10: a stage 1 that was accepted (it created a tunnel) and is
   delivered again at any later point of any continuation while that tunnel is still held is answered with a
   resend and changes nothing.  Needs that the log of completed handshakes names each tunnel once. *)
From Coq Require Import List NArith Bool Lia.
Import ListNotations.
From NV Require Import gen.Consts_HostMap model.HostMap proofs.HostMap_maps proofs.HostMap_lists proofs.HostMap_inv
  proofs.HostMap_ops proofs.HostMap_props model.HsMgr proofs.HsMgr_frame proofs.HsMgr_inv proofs.HsMgr_props.
Open Scope N_scope.

Lemma NoDup_snoc {A} (l : list A) x : NoDup l -> ~ In x l -> NoDup (l ++ [x]).
Proof.
  induction l as [|y r IH]; intros ND NI; simpl.
  - repeat constructor. intros [].
  - inversion ND; subst. constructor.
    + intros IN. apply in_app_or in IN as [IN|[E|[]]]; [contradiction|]. subst. apply NI. now left.
    + apply IH; [assumption|]. intros IN. apply NI. now right.
Qed.

Section Hist.
Variable cfg : config.

(* the hostmap of the next state is reached by hostmap operations *)
Lemma hstep_ops o s : exists l, hm (fst (hstep cfg o s)) = run (hm s) l.
Proof.
  assert (ONE : forall p, exists l, fst (step p (hm s)) = run (hm s) l) by (intros p; exists [p]; reflexivity).
  assert (SW : forall s0 a bl, exists l, hm (start_with s0 a bl) = run (hm s0) l).
  { intros s0 a bl. unfold start_with. exists [OStart (nxt s0) a]. cbn [run].
    destruct (step (OStart (nxt s0) a) (hm s0)) as [m' r]. destruct r; reflexivity. }
  destruct o; cbn [hstep].
  - cbn [fst]. apply SW.
  - cbn [fst set_hm hm]. apply ONE.
  - destruct (complete_guard h (hm s)); [|exists []; reflexivity].
    destruct (has_self cfg cert); [cbn [fst set_hm hm]; apply ONE|].
    destruct (step (OComplete h cert ridx) (hm s)) as [m' r] eqn:E.
    assert (M : m' = run (hm s) [OComplete h cert ridx]) by (cbn [run]; now rewrite E).
    destruct r; try (exists [OComplete h cert ridx]; cbn [fst set_hm hm]; exact M).
    destruct b; [exists [OComplete h cert ridx]; cbn [fst hm]; exact M|].
    destruct (target_of s h) as [a|]; cbn [fst]; [|exists [OComplete h cert ridx]; exact M].
    destruct (SW (set_hm s m') a (Some (block v (blk_of s h)))) as [l L]. cbn [set_hm hm] in L.
    exists ([OComplete h cert ridx] ++ l). rewrite run_app, <- M. exact L.
  - destruct cert as [|a0 r]; [exists []; reflexivity|]. destruct (has_self cfg (a0 :: r)); [exists []; reflexivity|].
    destruct (gen_index cs) as [[i cs']|]; [|exists []; reflexivity].
    destruct (check_and_complete s pkt t a0 i).
    + unfold set_remote_if_preferred. destruct (x_remote (hx_of s x)) as [cur|]; [|exists []; reflexivity].
      destruct (_ && _); exists []; reflexivity.
    + exists []. reflexivity.
    + exists []. reflexivity.
    + cbn [fst hm]. apply ONE.
  - cbn [fst set_hm hm]. apply ONE.
  - cbn [fst set_hm hm]. apply ONE.
  - cbn [fst set_hm hm]. apply ONE.
  - destruct (mget a (pvpn (hm s))); [cbn [fst set_hm hm]; apply ONE|exists []; reflexivity].
Qed.

(* every logged tunnel is established or removed (never pending), and is logged once *)
Record K (s : hstate) : Prop := mkK {
  k_st : forall e, In e (log s) -> st_of (hm s) (e_id e) = Some Main \/ st_of (hm s) (e_id e) = Some Dead;
  k_nodup : NoDup (map e_id (log s))
}.

Lemma K_init : K hinit.
Proof. constructor; cbn; [intros e []|constructor]. Qed.

Lemma st_keep s s' e : Good (hm s) -> (exists l, hm s' = run (hm s) l) ->
  st_of (hm s) (e_id e) = Some Main \/ st_of (hm s) (e_id e) = Some Dead ->
  st_of (hm s') (e_id e) = Some Main \/ st_of (hm s') (e_id e) = Some Dead.
Proof.
  intros G [l ->] [M|D].
  - now apply main_run.
  - right. now apply dead_run.
Qed.

Lemma live_is_main m h hi : Good m -> mget h (infos m) = Some hi -> mget (hi_local hi) (idx m) = Some h ->
  st_of m h = Some Main.
Proof. intros G E1 E2. apply live_main; [assumption|]. exists hi. auto. Qed.

Lemma K_step o s : HInv cfg s -> K s -> K (fst (hstep cfg o s)).
Proof.
  intros HI [KS KN].
  pose proof (hinv_step cfg o s HI) as HI'.
  pose proof (hstep_ops o s) as OPS.
  pose proof (hv_good _ _ HI) as G. pose proof (hv_good _ _ HI') as G'.
  destruct (log_step cfg o s) as [E|(ev0 & E & OK)].
  - constructor; rewrite E; [|assumption].
    intros e IN. apply (st_keep s _ e G OPS). apply KS, IN.
  - (* a handshake completed: its tunnel is established now, and was pending or unknown before *)
    assert (NEW : st_of (hm (fst (hstep cfg o s))) (e_id ev0) = Some Main /\
                  st_of (hm s) (e_id ev0) <> Some Main /\ st_of (hm s) (e_id ev0) <> Some Dead).
    { destruct o; cbn [ev_of_op] in OK; try contradiction.
      - (* InitComplete *) destruct OK as (_ & EID & _).
        revert E HI' G'. cbn [hstep]. destruct (complete_guard h (hm s)) eqn:GD.
        2:{ intros E. exfalso. cbn [fst] in E. apply (f_equal (@length ev)) in E. rewrite app_length in E. cbn in E. lia. }
        destruct (has_self cfg cert).
        { intros E. exfalso. cbn [fst set_hm log] in E. apply (f_equal (@length ev)) in E. rewrite app_length in E. cbn in E. lia. }
        rewrite (step_complete_cases _ _ _ _ GD). destruct (correct_host h cert (hm s)) eqn:CH.
        + cbn [fst log hm]. intros E HI' G'. apply app_inv_head in E. inversion E; subst ev0. cbn [e_id].
          destruct (guard_known _ _ GD) as [hi HH].
          destruct (complete_frame h cert ridx (hm s) hi HH) as (_ & CS & CL & _).
          split; [eapply live_is_main; eauto|].
          unfold complete_guard in GD. rewrite HH in GD. apply is_some_id_true in GD.
          destruct G as (IV & _). destruct (i_pidx _ IV _ _ GD) as (_ & _ & _ & SP). rewrite SP. split; discriminate.
        + intros E. exfalso. destruct (target_of s h); cbn [fst] in E; rewrite ?start_with_log in E; cbn [set_hm log] in E;
            apply (f_equal (@length ev)) in E; rewrite app_length in E; cbn in E; lia.
      - (* RespStage1 *) destruct OK as (EI & _).
        revert E HI' G'. cbn [hstep]. destruct cert as [|a0 r].
        { intros E. exfalso. cbn [fst] in E. apply (f_equal (@length ev)) in E. rewrite app_length in E. cbn in E. lia. }
        destruct (has_self cfg (a0 :: r)).
        { intros E. exfalso. cbn [fst] in E. apply (f_equal (@length ev)) in E. rewrite app_length in E. cbn in E. lia. }
        destruct (gen_index cs) as [[i cs']|] eqn:GI.
        2:{ intros E. exfalso. cbn [fst] in E. apply (f_equal (@length ev)) in E. rewrite app_length in E. cbn in E. lia. }
        destruct (check_and_complete s pkt t a0 i) eqn:CA.
        + intros E. exfalso. unfold set_remote_if_preferred in E.
          destruct (x_remote (hx_of s x)) as [cur|]; [destruct (_ && _)|]; cbn [fst set_remote log] in E;
            apply (f_equal (@length ev)) in E; rewrite app_length in E; cbn in E; lia.
        + intros E. exfalso. cbn [fst] in E. apply (f_equal (@length ev)) in E. rewrite app_length in E. cbn in E. lia.
        + intros E. exfalso. cbn [fst] in E. apply (f_equal (@length ev)) in E. rewrite app_length in E. cbn in E. lia.
        + cbn [fst log hm]. intros E HI' G'. apply app_inv_head in E. inversion E; subst ev0. cbn [e_id].
          destruct (cac_add _ _ _ _ _ CA) as [EX EP].
          pose proof (hv_fresh _ _ HI (nxt s) (N.le_refl _)) as U.
          rewrite (step_resp_unknown _ _ _ _ _ _ U) in *.
          pose proof (resp_frame (nxt s) (a0 :: r) ridx cs (hm s)) as (_ & _ & RS & RI). cbn zeta in *.
          specialize (RS _ _ GI). specialize (RI _ _ GI EX EP).
          split; [eapply live_is_main; eauto|].
          destruct G as (IV & _).
          assert (SN : st_of (hm s) (nxt s) = None) by (apply st_none_of_info; assumption).
          rewrite SN. split; discriminate. }
    destruct NEW as (N1 & N2 & N3).
    constructor; rewrite E.
    + intros e IN. apply in_app_or in IN as [IN|[<-|[]]]; [apply (st_keep s _ e G OPS); apply KS, IN|now left].
    + rewrite map_app. cbn [map]. apply NoDup_snoc; [assumption|].
      intros IN. apply in_map_iff in IN as (e & EQ & IN). destruct (KS _ IN) as [M|D]; rewrite EQ in *; contradiction.
Qed.

Lemma K_run ops : forall s, HInv cfg s -> K s -> K (hrun cfg s ops).
Proof.
  induction ops as [|o r IH]; intros s HI KK; cbn [hrun]; [assumption|].
  apply IH; [now apply hinv_step|now apply K_step].
Qed.

Theorem K_reachable ops : K (hrun cfg hinit ops).
Proof. apply K_run; [apply hinv_init|apply K_init]. Qed.

Lemma log_prefix ops : forall s, exists l, log (hrun cfg s ops) = log s ++ l.
Proof.
  induction ops as [|o r IH]; intros s; cbn [hrun]; [exists []; now rewrite app_nil_r|].
  destruct (IH (fst (hstep cfg o s))) as [l L]. rewrite L.
  destruct (log_step cfg o s) as [E|(e & E & _)]; rewrite E.
  - eauto.
  - exists ([e] ++ l). now rewrite app_assoc.
Qed.

Lemma nodup_id_inj (l : list ev) e1 e2 :
  NoDup (map e_id l) -> In e1 l -> In e2 l -> e_id e1 = e_id e2 -> e1 = e2.
Proof.
  induction l as [|x r IH]; intros ND I1 I2 EQ; [destruct I1|].
  cbn [map] in ND. inversion ND as [|? ? NI ND']; subst.
  destruct I1 as [<-|I1], I2 as [<-|I2]; auto.
  - exfalso. apply NI. rewrite EQ. now apply in_map.
  - exfalso. apply NI. rewrite <- EQ. now apply in_map.
Qed.

(* A stage 1 that was accepted - it created tunnel [id] - delivered again (any sender, any index candidates, even
   with other header fields) after ANY continuation [ops2], while tunnel [id] is still in Indexes: nothing is
   created, the hostmap state is unchanged, and the stored stage-2 reply of a held tunnel with this payload is
   resent (preceded by at most one test request). *)
Theorem replay_history ops1 ops2 pkt cs ridx t a0 rest v id cs2 ridx2 t2 v2 :
  let s1 := hrun cfg hinit ops1 in
  let r1 := hstep cfg (RespStage1 pkt cs ridx t (a0 :: rest) v) s1 in
  log (fst r1) = log s1 ++ [mkEv id false pkt t (a0 :: rest) None] ->
  let s2 := hrun cfg (fst r1) ops2 in
  (exists hi, mget id (infos (hm s2)) = Some hi /\ mget (hi_local hi) (idx (hm s2)) = Some id) ->
  gen_index cs2 <> None ->
  exists x pre, In x (get_list (hm s2) a0) /\ seen s2 pkt x = true /\
    let r := hstep cfg (RespStage1 pkt cs2 ridx2 t2 (a0 :: rest) v2) s2 in
    hm (fst r) = hm s2 /\ nxt (fst r) = nxt s2 /\ log (fst r) = log s2 /\
    snd r = pre ++ [OStage2 x v2] /\ (pre = [] \/ exists q u, pre = [OTest q u]).
Proof.
  intros s1 r1 LG s2 (hi & E1 & E2) GI.
  set (ops := ops1 ++ RespStage1 pkt cs ridx t (a0 :: rest) v :: ops2).
  assert (ES : s2 = hrun cfg hinit ops).
  { unfold ops. rewrite hrun_app. cbn [hrun]. reflexivity. }
  pose proof (hinv_reachable cfg ops) as HI. pose proof (K_reachable ops) as KK. rewrite <- ES in HI, KK.
  pose proof (good_WF _ (hv_good _ _ HI)) as W.
  (* the log entry of [id] in s2 is the one written when the stage 1 was accepted *)
  destruct (hv_j _ _ HI _ _ E1 E2) as (e & IN & EID & EA & (r & EX) & NE & NS & _).
  destruct (log_prefix ops2 (fst r1)) as [l L]. fold s2 in L.
  assert (IN0 : In (mkEv id false pkt t (a0 :: rest) None) (log s2)).
  { rewrite L, LG. apply in_or_app. left. apply in_or_app. right. now left. }
  assert (EE : e = mkEv id false pkt t (a0 :: rest) None).
  { apply (nodup_id_inj (log s2)); auto. apply (k_nodup _ KK). }
  subst e. cbn [e_cert e_init e_pkt e_time] in *.
  assert (SE : seen s2 pkt id = true).
  { unfold seen, hx_of. rewrite EX. cbn [x_init x_pkt0]. now rewrite N.eqb_refl. }
  assert (INL : In id (get_list (hm s2) a0)).
  { destruct (wf_idx _ W _ _ E2) as (hi' & F1 & _ & F3). rewrite E1 in F1. inversion F1; subst hi'.
    apply F3. rewrite EA. now left. }
  pose proof (replay_noop cfg ops pkt cs2 ridx2 t2 a0 rest v2 id) as RN. cbn zeta in RN. rewrite <- ES in RN.
  destruct (RN NS GI INL SE) as (x & pre & A & B & C & D & F & _ & _ & _ & G & H).
  exists x, pre. auto 10.
Qed.

End Hist.

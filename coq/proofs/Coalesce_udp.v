(* Coalesce_udp: the UDP coalescer keeps the slot invariant, and the kernel's USO segmentation of a flushed UDP
   slot reproduces the slot's members modulo [approx]. *)
From Coq Require Import List NArith Bool Arith Lia.
Import ListNotations.
From NV Require Import lib.Bytes lib.Ones lib.Corr gen.Consts_Coalesce model.Coalesce
  proofs.Coalesce_lists proofs.Coalesce_lane proofs.Coalesce_chain proofs.Coalesce_approx proofs.Coalesce_tcp.
Open Scope N_scope.

Definition pre_udp (p : pkt) : Prop := p_proto p = coal_proto_udp /\ wf_pktb p = true.

Record udp_member (m0 : pkt) (i : N) (m : pkt) : Prop := mkUM {
  um_pre : pre_udp m;
  um_shape : p_shape m = ShUdp;
  um_hdr : udp_headers_match m0 m = true;
  um_id : p_v6 m0 = true \/ p_df m0 = true \/ p_id m = w16 (p_id m0 + i)
}.

Definition mid_udp (m0 : pkt) (gs i : N) (m : pkt) : Prop := udp_member m0 i m /\ paylen m = gs /\ 1 <= gs.
Definition fin_udp (m0 : pkt) (gs i : N) (m : pkt) : Prop := udp_member m0 i m /\ 1 <= paylen m /\ paylen m <= gs.
Definition xinv_udp (s : slot) : Prop := s_psh s = false.

Lemma wf_udp p : wf_pktb p = true -> p_shape p = ShUdp ->
  p_raw p = [] /\ p_id p < 65536 /\ p_seq p = 0 /\ p_ack p = 0 /\ p_x2 p = 0 /\ p_flags p = 0 /\ p_win p = 0 /\
  p_urg p = 0 /\ p_opts p = [].
Proof.
  unfold wf_pktb. intros H E. rewrite E in H.
  destruct (p_raw p); [|discriminate].
  destruct (p_id p <? 65536) eqn:E1; [|discriminate].
  destruct (p_seq p =? 0) eqn:E2; [|discriminate].
  destruct (p_ack p =? 0) eqn:E3; [|discriminate].
  destruct (p_x2 p =? 0) eqn:E4; [|discriminate].
  destruct (p_flags p =? 0) eqn:E5; [|discriminate].
  destruct (p_win p =? 0) eqn:E6; [|discriminate].
  destruct (p_urg p =? 0) eqn:E7; [|discriminate].
  destruct (p_opts p); [|discriminate].
  apply N.ltb_lt in E1. apply N.eqb_eq in E2, E3, E4, E5, E6, E7. repeat split; auto.
Qed.

Lemma udp_parse_shape p : pol_parse udp_pol p = true -> p_shape p = ShUdp.
Proof. cbn [udp_pol pol_parse]. unfold is_shape. apply shape_eqb_eq. Qed.

Lemma udp_cls_data p : pol_cls udp_pol p = CData -> paylen p <> 0.
Proof.
  cbn [udp_pol pol_cls]. destruct (paylen p =? 0) eqn:E; [discriminate|]. intros _. apply N.eqb_neq in E. exact E.
Qed.

Lemma udp_max_pos : 1 <= coal_udp_max_segs.
Proof. vm_compute. discriminate. Qed.

Lemma udp_mid_fin m0 gs i m : mid_udp m0 gs i m -> fin_udp m0 gs i m.
Proof. intros (Hm & Hs & Hg). split; [exact Hm|]. lia. Qed.

Lemma udp_mid_size m0 gs i m : mid_udp m0 gs i m -> paylen m = gs.
Proof. intros (_ & Hs & _). exact Hs. Qed.

Lemma udp_fin_size m0 gs i m : fin_udp m0 gs i m -> 1 <= paylen m /\ paylen m <= gs.
Proof. intros (_ & H). exact H. Qed.

Lemma udp_seed_ok : forall kp, let p := snd kp in
  pre_udp p -> pol_parse udp_pol p = true -> pol_cls udp_pol p = CData ->
  (pol_buf udp_pol <? pol_hlen udp_pol p + paylen p) = false ->
  1 <= paylen p /\ fin_udp p (paylen p) 0 p /\ (pol_seed_open udp_pol p = true -> mid_udp p (paylen p) 0 p) /\
  xinv_udp (seed_slot udp_pol kp).
Proof.
  intros kp p Hpre Hpar Hcls _.
  pose proof (udp_cls_data p Hcls) as Hpl.
  pose proof (udp_parse_shape p Hpar) as Hsh.
  destruct Hpre as [Hproto Hwf]. destruct (wf_udp p Hwf Hsh) as (_ & Hid & _).
  assert (H1 : 1 <= paylen p) by lia.
  assert (Hmem : udp_member p 0 p).
  { constructor; auto.
    - split; assumption.
    - apply udp_headers_match_refl.
    - right. right. rewrite N.add_0_r, w16_small by exact Hid. reflexivity. }
  split; [exact H1|]. split; [split; [exact Hmem|lia]|]. split.
  - intros _. split; [exact Hmem|]. split; [reflexivity|exact H1].
  - reflexivity.
Qed.

Lemma udp_append_ok : forall s kp, let p := snd kp in
  s_verb s = false ->
  chain_ok udp_pol coal_udp_max_segs mid_udp fin_udp xinv_udp s -> slot_open mid_udp s ->
  pre_udp p -> pol_parse udp_pol p = true -> pol_cls udp_pol p = CData -> pol_can_append udp_pol s p = true ->
  fin_udp (s_seed s) (s_gso s) (s_nseg s) p /\
  (pol_closes udp_pol s p = false -> mid_udp (s_seed s) (s_gso s) (s_nseg s) p) /\
  xinv_udp (append_slot udp_pol s kp) /\
  s_nseg s + 1 <= coal_udp_max_segs /\ s_hlen s + (s_total s + paylen p) <= pol_buf udp_pol.
Proof.
  intros s kp p Hv Hc Ho Hpre Hpar Hcls Hcan.
  pose proof (udp_cls_data p Hcls) as Hpl.
  pose proof (udp_parse_shape p Hpar) as Hsh.
  pose proof (co_x _ _ _ _ _ _ Hc) as Hpsh. unfold xinv_udp in Hpsh.
  cbn [udp_pol pol_can_append] in Hcan. unfold udp_can_append in Hcan.
  rewrite !andb_true_iff in Hcan.
  destruct Hcan as (((((C1 & C3) & C4) & C5) & C7) & C8).
  apply N.ltb_lt in C3. apply N.leb_le in C4, C5.
  assert (Hmem : udp_member (s_seed s) (s_nseg s) p).
  { constructor; auto.
    apply orb_true_iff in C7. destruct C7 as [C7|C7]; [left; exact C7|].
    unfold ipv4_can_coalesce_id in C7. apply orb_true_iff in C7. destruct C7 as [C7|C7]; [right; left; exact C7|].
    right. right. apply N.eqb_eq in C7. rewrite C7. apply w16_add_idem_r. }
  split; [split; [exact Hmem|split; [lia|exact C4]]|].
  split.
  { cbn [udp_pol pol_closes]. intros Hlt. apply N.ltb_ge in Hlt.
    split; [exact Hmem|]. split; [lia|apply (co_gso1 _ _ _ _ _ _ Hc)]. }
  split.
  { unfold xinv_udp. cbn [append_slot s_psh udp_pol pol_psh]. rewrite Hpsh. reflexivity. }
  split; [lia|].
  cbn [udp_pol pol_buf]. lia.
Qed.

Definition udp_chain_ok := chain_ok udp_pol coal_udp_max_segs mid_udp fin_udp xinv_udp.
Definition udp_slot_ok := slot_ok udp_pol coal_udp_max_segs mid_udp fin_udp xinv_udp.
Definition udp_chains := lane_chains udp_pol coal_udp_max_segs mid_udp fin_udp xinv_udp.

Theorem udp_commit_chains l kp :
  lane_struct udp_pol l -> udp_chains l -> pre_udp (snd kp) -> udp_chains (commit_staged udp_pol l kp).
Proof.
  apply (commit_chains udp_pol coal_udp_max_segs pre_udp mid_udp fin_udp xinv_udp
           udp_max_pos udp_mid_fin udp_mid_size udp_fin_size udp_seed_ok udp_append_ok).
Qed.

Lemma udp_lane0_chains : udp_chains lane0.
Proof. apply lane0_chains. Qed.

Lemma seg_render_udp s gs i first last c :
  let sd := s_seed s in
  seg_pkt (render udp_pol s) gs i first last c =
  mkPkt (p_proto sd) (p_shape sd) (p_v6 sd) (p_src sd) (p_dst sd) (p_sport sd) (p_dport sd) (p_tos sd) (p_flow sd)
        (p_ttl sd) (p_nxt sd) (p_df sd) (p_rsv sd) (seg_id sd i) (p_seq sd) (p_ack sd) (p_x2 sd)
        (if s_psh s then N.lor (p_flags sd) coal_flag_psh else p_flags sd)
        (p_win sd) (p_urg sd) (p_opts sd) 0 0 c [] (p_raw sd).
Proof. reflexivity. Qed.

Lemma udp_member_approx s i m first last :
  udp_member (s_seed s) i m -> pre_udp (s_seed s) -> p_shape (s_seed s) = ShUdp -> s_psh s = false ->
  approx m (seg_pkt (render udp_pol s) (s_gso s) i first last (p_pay m)).
Proof.
  intros Hm [Hp0 Hwf0] Hsh0 Hpsh. destruct Hm as [[Hp Hwf] Hsh Hh Hid].
  destruct (udp_headers_match_eq _ _ Hh) as (Hip & E1 & E2).
  destruct (ip_headers_match_eq _ _ Hip) as (I1 & I2 & I3 & I4 & I5 & I6 & I7 & I8 & I9).
  destruct (wf_udp _ Hwf Hsh) as (R1 & _ & R3 & R4 & R5 & R6 & R7 & R8 & R9).
  destruct (wf_udp _ Hwf0 Hsh0) as (S1 & _ & S3 & S4 & S5 & S6 & S7 & S8 & S9).
  unfold approx. rewrite seg_render_udp. rewrite Hpsh.
  apply approxb_intro;
    cbn [p_proto p_shape p_v6 p_src p_dst p_sport p_dport p_tos p_flow p_ttl p_nxt p_df p_rsv p_id p_seq p_ack p_x2
         p_flags p_win p_urg p_opts p_pay p_raw]; try congruence.
  - apply (seg_id_ok (s_seed s) m (s_seed s) i); auto.
Qed.

Theorem udp_slot_transparent s :
  udp_slot_ok s ->
  Forall2 (fun kp q => approx (snd kp) q) (s_mem s) (kernel_segment (slot_write udp_pol s)).
Proof.
  intros Hok. unfold udp_slot_ok, slot_ok in Hok. unfold slot_write.
  destruct (s_verb s) eqn:Ev.
  { destruct Hok as (kp & Em & Es). simpl. rewrite Em, Es. constructor; [apply approxb_refl|constructor]. }
  fold udp_chain_ok in Hok.
  destruct (co_mem _ _ _ _ _ _ Hok) as (kp0 & rest & Em & Es).
  pose proof (co_nseg _ _ _ _ _ _ Hok) as Hn.
  simpl orb. destruct (s_nseg s =? 1) eqn:E1.
  { apply N.eqb_eq in E1. rewrite E1, Em in Hn. destruct rest; [|simpl in Hn; lia].
    simpl. rewrite Em, Es. constructor; [apply approxb_refl|constructor]. }
  apply N.eqb_neq in E1.
  assert (H2 : 2 <= s_nseg s) by (rewrite Hn, Em in *; simpl length in *; lia).
  rewrite (kernel_segment_render udp_pol coal_udp_max_segs pre_udp mid_udp fin_udp xinv_udp
             udp_max_pos udp_mid_fin udp_mid_size udp_fin_size udp_seed_ok udp_append_ok s Hok H2).
  apply Forall2_map_l.
  pose proof (co_chain _ _ _ _ _ _ Hok) as Hch.
  pose proof (co_x _ _ _ _ _ _ Hok) as Hpsh. unfold xinv_udp in Hpsh.
  assert (Hseed : mid_udp (s_seed s) (s_gso s) 0 (s_seed s)).
  { rewrite Em in Hch. destruct rest as [|kp1 rest]; [rewrite Hn, Em in H2; simpl in H2; lia|].
    cbn [chain] in Hch. destruct Hch as [Hm _]. rewrite <- Es in Hm. exact Hm. }
  destruct Hseed as (Hm0 & _ & _).
  refine (chain_segs mid_udp fin_udp approx (fun _ => True) (render udp_pol s) (s_seed s) (s_gso s) _ _
            (s_mem s) 0 staged0 _ _ _).
  - intros i m (Hm & _ & _).
    apply udp_member_approx; auto; [apply (um_pre _ _ _ Hm0)|apply (um_shape _ _ _ Hm0)].
  - intros i m (Hm & _ & _) _.
    apply udp_member_approx; auto; [apply (um_pre _ _ _ Hm0)|apply (um_shape _ _ _ Hm0)].
  - rewrite Em. discriminate.
  - exact I.
  - exact Hch.
Qed.

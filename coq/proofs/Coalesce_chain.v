(* Coalesce_chain: the per-slot invariant of a coalescer lane, generic in the protocol.

   A non-verbatim slot holds a chain of members m_0 (the seed) .. m_{k-1}.  Every member but the last satisfies
   [mid] (a full-size segment that does not end the chain), the last one satisfies [fin]; a slot that is still
   registered as open has only [mid] members.  The protocol files (Coalesce_tcp / Coalesce_udp) provide mid / fin
   and show (Section hypotheses below) that seed and canAppend establish them; this file carries them through
   commit_staged and derives the geometry of the rendered superpacket and the shape of its kernel
   segmentation. *)
From Coq Require Import List NArith Bool Arith Lia Permutation.
Import ListNotations.
From NV Require Import lib.Bytes lib.Corr gen.Consts_Coalesce model.Coalesce proofs.Coalesce_lists proofs.Coalesce_lane.
Open Scope N_scope.

Definition pays_of (ms : list staged) : list (list N) := map (fun kp => p_pay (snd kp)) ms.

Lemma sum_lens_app a b : sum_lens (a ++ b) = sum_lens a + sum_lens b.
Proof. induction a as [|x a IH]; simpl; [reflexivity|]. rewrite IH. lia. Qed.

Lemma pays_of_app a b : pays_of (a ++ b) = pays_of a ++ pays_of b.
Proof. apply map_app. Qed.

Lemma Forall_upd_nth {A} (P : A -> Prop) (x : A) : forall l i, Forall P l -> P x -> Forall P (upd_nth i x l).
Proof.
  induction l as [|y l IH]; intros [|i] H Hx; simpl; auto; inversion H; subst; constructor; auto.
Qed.

(* an open chain: every member is a full-size segment that does not end the chain *)
Section OpenChain.
  Variable mid : pkt -> N -> N -> pkt -> Prop.
  Hypothesis H_mid_size : forall m0 gs i m, mid m0 gs i m -> paylen m = gs.

  Fixpoint chain_open0 (m0 : pkt) (gs i : N) (ms : list staged) : Prop :=
    match ms with
    | [] => True
    | kp :: r => mid m0 gs i (snd kp) /\ chain_open0 m0 gs (i + 1) r
    end.

  Lemma chain_open_total m0 gs : forall ms i,
    chain_open0 m0 gs i ms -> sum_lens (pays_of ms) = N.of_nat (length ms) * gs.
  Proof.
    induction ms as [|kp r IH]; intros i H; [reflexivity|].
    destruct H as [Hm Hr].
    change (pays_of (kp :: r)) with (p_pay (snd kp) :: pays_of r).
    change (sum_lens (p_pay (snd kp) :: pays_of r)) with (N.of_nat (length (p_pay (snd kp))) + sum_lens (pays_of r)).
    rewrite (IH _ Hr). apply H_mid_size in Hm. unfold paylen in Hm. rewrite Hm.
    change (length (kp :: r)) with (S (length r)). rewrite Nat2N.inj_succ, N.mul_succ_l. lia.
  Qed.
End OpenChain.

Section Chain.
  Variable pol : policy.
  Variable maxsegs : N.
  Variable pre : pkt -> Prop.                 (* what dispatch guarantees about every packet of this lane *)
  Variable mid fin : pkt -> N -> N -> pkt -> Prop.   (* seed, gso size, index, member *)
  Variable xinv : slot -> Prop.               (* protocol specific bookkeeping (nextSeq, PSH propagate) *)

  Fixpoint chain (m0 : pkt) (gs i : N) (ms : list staged) : Prop :=
    match ms with
    | [] => True
    | kp :: r => match r with
                 | [] => fin m0 gs i (snd kp)
                 | _ => mid m0 gs i (snd kp) /\ chain m0 gs (i + 1) r
                 end
    end.

  Local Notation chain_open := (chain_open0 mid).

  Record chain_ok (s : slot) : Prop := mkCO {
    co_mem : exists kp0 rest, s_mem s = kp0 :: rest /\ s_seed s = snd kp0;
    co_pays : s_pays s = pays_of (s_mem s);
    co_nseg : s_nseg s = N.of_nat (length (s_mem s));
    co_total : s_total s = sum_lens (s_pays s);
    co_gso : s_gso s = paylen (s_seed s);
    co_hlen : s_hlen s = pol_hlen pol (s_seed s);
    co_gso1 : 1 <= s_gso s;
    co_buf : s_hlen s + s_total s <= pol_buf pol;
    co_segs : s_nseg s <= maxsegs;
    co_chain : chain (s_seed s) (s_gso s) 0 (s_mem s);
    co_x : xinv s
  }.

  Definition slot_ok (s : slot) : Prop :=
    if s_verb s then exists kp, s_mem s = [kp] /\ s_seed s = snd kp else chain_ok s.
  Definition slot_open (s : slot) : Prop := chain_open (s_seed s) (s_gso s) 0 (s_mem s).

  Record lane_chains (l : lane) : Prop := mkLC {
    lc_slots : Forall slot_ok (l_slots l);
    lc_open : forall f i s, opens l f i -> nth_error (l_slots l) i = Some s -> s_verb s = false /\ slot_open s
  }.

  Hypothesis Hmax : 1 <= maxsegs.
  Hypothesis H_mid_fin : forall m0 gs i m, mid m0 gs i m -> fin m0 gs i m.
  Hypothesis H_mid_size : forall m0 gs i m, mid m0 gs i m -> paylen m = gs.
  Hypothesis H_fin_size : forall m0 gs i m, fin m0 gs i m -> 1 <= paylen m /\ paylen m <= gs.
  Hypothesis H_seed : forall kp, let p := snd kp in
    pre p -> pol_parse pol p = true -> pol_cls pol p = CData -> (pol_buf pol <? pol_hlen pol p + paylen p) = false ->
    1 <= paylen p /\ fin p (paylen p) 0 p /\ (pol_seed_open pol p = true -> mid p (paylen p) 0 p) /\
    xinv (seed_slot pol kp).
  Hypothesis H_append : forall s kp, let p := snd kp in
    s_verb s = false -> chain_ok s -> slot_open s ->
    pre p -> pol_parse pol p = true -> pol_cls pol p = CData -> pol_can_append pol s p = true ->
    fin (s_seed s) (s_gso s) (s_nseg s) p /\
    (pol_closes pol s p = false -> mid (s_seed s) (s_gso s) (s_nseg s) p) /\
    xinv (append_slot pol s kp) /\
    s_nseg s + 1 <= maxsegs /\ s_hlen s + (s_total s + paylen p) <= pol_buf pol.

  (* ---- chains ---- *)

  Lemma chain_open_chain m0 gs : forall ms i, chain_open m0 gs i ms -> chain m0 gs i ms.
  Proof.
    induction ms as [|kp r IH]; intros i H; simpl; [exact I|].
    destruct H as [Hm Hr]. destruct r as [|kp2 r]; [apply H_mid_fin; exact Hm|].
    split; [exact Hm|apply IH; exact Hr].
  Qed.

  Lemma chain_cons2 m0 gs i kp r :
    r <> [] -> chain m0 gs i (kp :: r) = (mid m0 gs i (snd kp) /\ chain m0 gs (i + 1) r).
  Proof. destruct r; [congruence|reflexivity]. Qed.

  Lemma chain_open_snoc_fin m0 gs kp : forall ms i,
    chain_open m0 gs i ms -> fin m0 gs (i + N.of_nat (length ms)) (snd kp) -> chain m0 gs i (ms ++ [kp]).
  Proof.
    induction ms as [|kp1 r IH]; intros i H Hf.
    - simpl in *. rewrite N.add_0_r in Hf. exact Hf.
    - destruct H as [Hm Hr]. change ((kp1 :: r) ++ [kp]) with (kp1 :: (r ++ [kp])).
      rewrite chain_cons2 by (destruct r; discriminate).
      split; [exact Hm|]. apply IH; [exact Hr|].
      replace (i + 1 + N.of_nat (length r)) with (i + N.of_nat (length (kp1 :: r))) by (simpl length; lia).
      exact Hf.
  Qed.

  Lemma chain_open_snoc_mid m0 gs kp : forall ms i,
    chain_open m0 gs i ms -> mid m0 gs (i + N.of_nat (length ms)) (snd kp) -> chain_open m0 gs i (ms ++ [kp]).
  Proof.
    induction ms as [|kp1 r IH]; intros i H Hf.
    - simpl in *. rewrite N.add_0_r in Hf. split; [exact Hf|exact I].
    - destruct H as [Hm Hr]. simpl. split; [exact Hm|]. apply IH; [exact Hr|].
      replace (i + 1 + N.of_nat (length r)) with (i + N.of_nat (length (kp1 :: r))) by (simpl length; lia).
      exact Hf.
  Qed.

  (* sizes of a chain: all pieces but the last have the gso size, the last one 1..gso *)
  Lemma chain_sizes m0 gs : forall ms i, 1 <= gs -> ms <> [] -> chain m0 gs i ms ->
    all_but_last (fun x => N.of_nat (length x) =? gs) (pays_of ms) = true /\
    1 <= N.of_nat (length (last (pays_of ms) [])) /\ N.of_nat (length (last (pays_of ms) [])) <= gs.
  Proof.
    induction ms as [|kp r IH]; intros i Hgs Hne H; [congruence|].
    destruct r as [|kp2 r].
    - simpl in *. apply H_fin_size in H. unfold paylen in H. split; [reflexivity|exact H].
    - destruct H as [Hm Hr]. destruct (IH (i + 1) Hgs ltac:(discriminate) Hr) as (A & B & C).
      split; [|split].
      + change (pays_of (kp :: kp2 :: r)) with (p_pay (snd kp) :: pays_of (kp2 :: r)).
        change (pays_of (kp2 :: r)) with (p_pay (snd kp2) :: pays_of r) in *.
        cbn [all_but_last]. apply andb_true_intro. split; [|exact A].
        apply N.eqb_eq. apply H_mid_size in Hm. exact Hm.
      + exact B.
      + exact C.
  Qed.

  (* ---- seed and append keep a slot well formed ---- *)

  Lemma seed_slot_ok kp :
    pre (snd kp) -> pol_parse pol (snd kp) = true -> pol_cls pol (snd kp) = CData ->
    (pol_buf pol <? pol_hlen pol (snd kp) + paylen (snd kp)) = false ->
    chain_ok (seed_slot pol kp) /\ (pol_seed_open pol (snd kp) = true -> slot_open (seed_slot pol kp)).
  Proof.
    intros Hpre Hpar Hcls Hbuf. destruct (H_seed kp Hpre Hpar Hcls Hbuf) as (H1 & Hfin & Hmid & Hx).
    split.
    - constructor; cbn [seed_slot s_mem s_seed s_pays s_nseg s_total s_gso s_hlen]; auto.
      + exists kp, []. split; reflexivity.
      + simpl. unfold paylen. lia.
      + apply N.ltb_ge in Hbuf. exact Hbuf.
    - intros Ho. unfold slot_open. cbn [seed_slot s_mem s_seed s_gso chain_open]. split; [apply Hmid; exact Ho|exact I].
  Qed.

  Lemma append_slot_ok s kp :
    s_verb s = false -> chain_ok s -> slot_open s ->
    pre (snd kp) -> pol_parse pol (snd kp) = true -> pol_cls pol (snd kp) = CData ->
    pol_can_append pol s (snd kp) = true ->
    chain_ok (append_slot pol s kp) /\
    (pol_closes pol s (snd kp) = false -> slot_open (append_slot pol s kp)).
  Proof.
    intros Hv Hc Ho Hpre Hpar Hcls Hcan.
    destruct (H_append s kp Hv Hc Ho Hpre Hpar Hcls Hcan) as (Hfin & Hmid & Hx & Hseg & Hbuf).
    destruct (co_mem _ Hc) as (kp0 & rest & Em & Es).
    split.
    - constructor; cbn [append_slot s_mem s_seed s_pays s_nseg s_total s_gso s_hlen].
      + exists kp0, (rest ++ [kp]). rewrite Em. split; [reflexivity|exact Es].
      + rewrite pays_of_app, (co_pays _ Hc). reflexivity.
      + rewrite app_length, (co_nseg _ Hc). simpl. lia.
      + rewrite sum_lens_app, (co_total _ Hc). simpl. unfold paylen. lia.
      + apply (co_gso _ Hc).
      + apply (co_hlen _ Hc).
      + apply (co_gso1 _ Hc).
      + exact Hbuf.
      + exact Hseg.
      + apply chain_open_snoc_fin; [exact Ho|]. rewrite N.add_0_l, <- (co_nseg _ Hc). exact Hfin.
      + exact Hx.
    - intros Hcl. unfold slot_open. cbn [append_slot s_mem s_seed s_gso].
      apply chain_open_snoc_mid; [exact Ho|]. rewrite N.add_0_l, <- (co_nseg _ Hc). apply Hmid. exact Hcl.
  Qed.

  (* ---- the lane invariant ---- *)

  Lemma lane0_chains : lane_chains lane0.
  Proof. constructor; [constructor|]. intros f i s H. unfold opens in H. simpl in H. discriminate. Qed.

  Lemma chains_shrink l l' :
    lane_chains l -> l_slots l' = l_slots l -> (forall f i, opens l' f i -> opens l f i) -> lane_chains l'.
  Proof.
    intros Hc Es Ho. constructor.
    - rewrite Es. apply (lc_slots _ Hc).
    - intros f i s H Hn. rewrite Es in Hn. apply (lc_open _ Hc f i s); auto.
  Qed.

  Lemma seal_flow_chains l fk : lane_chains l -> lane_chains (seal_flow l fk).
  Proof.
    intros Hc. apply (chains_shrink l); [exact Hc|apply seal_flow_slots|].
    intros f i H. unfold opens in *. rewrite seal_flow_assoc in H. destruct (fkey_eqb f fk); [discriminate|exact H].
  Qed.

  Lemma seal_all_chains l : lane_chains l -> lane_chains (seal_all l).
  Proof.
    intros Hc. apply (chains_shrink l); [exact Hc|reflexivity|]. intros f i H. unfold opens in H. simpl in H. discriminate.
  Qed.

  Lemma push_chains l s : lane_struct pol l -> lane_chains l -> slot_ok s -> lane_chains (push_slot l s).
  Proof.
    intros Hs Hc Hok. constructor; unfold push_slot; cbn [l_slots].
    - apply Forall_app. split; [apply (lc_slots _ Hc)|constructor; [exact Hok|constructor]].
    - intros f i s0 H Hn. unfold opens in H. cbn [l_open] in H.
      destruct (ls_open _ _ Hs f i H) as (s1 & Hn1 & _).
      rewrite nth_error_app1 in Hn by (eapply nth_error_Some_lt; eauto).
      apply (lc_open _ Hc f i s0); assumption.
  Qed.

  Lemma verb_slot_ok kp : slot_ok (verb_slot kp).
  Proof. unfold slot_ok. cbn [verb_slot s_verb]. exists kp. split; reflexivity. Qed.

  Lemma add_verbatim_chains l kp : lane_struct pol l -> lane_chains l -> lane_chains (add_verbatim l kp).
  Proof. intros Hs Hc. rewrite add_verbatim_push. apply push_chains; auto. apply verb_slot_ok. Qed.

  Lemma seed_chains l kp :
    lane_struct pol l -> lane_chains l ->
    pre (snd kp) -> pol_parse pol (snd kp) = true -> pol_cls pol (snd kp) = CData ->
    lane_chains (seed pol l kp).
  Proof.
    intros Hs Hc Hpre Hpar Hcls. unfold seed.
    destruct (pol_buf pol <? pol_hlen pol (snd kp) + paylen (snd kp)) eqn:Ebuf.
    { apply add_verbatim_chains; [apply seal_flow_struct; exact Hs|apply seal_flow_chains; exact Hc]. }
    fold (seed_slot pol kp).
    destruct (seed_slot_ok kp Hpre Hpar Hcls Ebuf) as [Hok Hop].
    assert (Hsok : slot_ok (seed_slot pol kp)) by (unfold slot_ok; cbn [seed_slot s_verb]; exact Hok).
    pose proof (push_chains l _ Hs Hc Hsok) as Hpush.
    destruct (pol_seed_open pol (snd kp)) eqn:Eopen.
    - constructor; cbn [l_slots].
      + apply (lc_slots _ Hpush).
      + intros f i s H Hn. unfold opens in H. cbn [l_open] in H. rewrite assoc_set_key in H.
        destruct (fkey_eqb f (fk_of (snd kp))).
        * inversion H; subst i. rewrite nth_error_app_new in Hn. inversion Hn; subst s.
          split; [reflexivity|apply Hop; reflexivity].
        * apply (lc_open _ Hpush f i s); assumption.
    - apply (seal_flow_chains (push_slot l (seed_slot pol kp))). exact Hpush.
  Qed.

  Theorem commit_chains l kp :
    lane_struct pol l -> lane_chains l -> pre (snd kp) -> lane_chains (commit_staged pol l kp).
  Proof.
    intros Hs Hc Hpre. unfold commit_staged.
    destruct (pol_parse pol (snd kp)) eqn:Epar.
    2:{ apply add_verbatim_chains; [apply seal_all_struct; exact Hs|apply seal_all_chains; exact Hc]. }
    unfold commit_parsed.
    destruct (pol_cls pol (snd kp)) eqn:Ecls.
    - apply add_verbatim_chains; [apply seal_flow_struct; exact Hs|apply seal_flow_chains; exact Hc].
    - apply add_verbatim_chains; assumption.
    - rewrite (find_open_assoc _ _ _ Hs).
      destruct (assoc (fk_of (snd kp)) (l_open l)) as [i|] eqn:Eo.
      2:{ apply seed_chains; assumption. }
      destruct (ls_open _ _ Hs _ _ Eo) as (s & Hn & Hf). rewrite Hn.
      destruct (lc_open _ Hc _ _ _ Eo Hn) as [Hv Hop].
      assert (Hcok : chain_ok s).
      { pose proof (lc_slots _ Hc) as Hall. rewrite Forall_forall in Hall.
        specialize (Hall s (nth_error_In _ _ Hn)). unfold slot_ok in Hall. rewrite Hv in Hall. exact Hall. }
      destruct (pol_can_append pol s (snd kp)) eqn:Ecan.
      2:{ apply seed_chains; auto; [apply seal_flow_struct; exact Hs|apply seal_flow_chains; exact Hc]. }
      destruct (append_slot_ok s kp Hv Hcok Hop Hpre Epar Ecls Ecan) as [Hnew Hnewopen].
      assert (Hlt : (i < length (l_slots l))%nat) by (eapply nth_error_Some_lt; eauto).
      assert (Hall' : Forall slot_ok (upd_nth i (append_slot pol s kp) (l_slots l))).
      { apply Forall_upd_nth; [apply (lc_slots _ Hc)|]. unfold slot_ok. cbn [append_slot s_verb]. exact Hnew. }
      assert (Hother : forall f i' s', opens l f i' -> i' <> i ->
                nth_error (upd_nth i (append_slot pol s kp) (l_slots l)) i' = Some s' -> s_verb s' = false /\ slot_open s').
      { intros f i' s' H Hne Hn'. rewrite nth_error_upd_nth_neq in Hn' by congruence.
        apply (lc_open _ Hc f i' s'); assumption. }
      assert (Hfun : forall f, opens l f i -> f = fk_of (snd kp)).
      { intros f H. destruct (ls_open _ _ Hs f i H) as (s1 & Hn1 & Hf1). congruence. }
      destruct (pol_closes pol s (snd kp)) eqn:Ecl.
      + constructor.
        * rewrite seal_flow_slots. exact Hall'.
        * intros f i' s' H Hn'. rewrite seal_flow_slots in Hn'. cbn [l_slots] in Hn'.
          unfold opens in H. rewrite seal_flow_assoc in H. cbn [l_open] in H.
          destruct (fkey_eqb f (fk_of (snd kp))) eqn:Ef; [discriminate|].
          apply (Hother f i' s' H); [|exact Hn'].
          intros ->. apply Hfun in H. subst f. rewrite fkey_eqb_refl in Ef. discriminate.
      + constructor; cbn [l_slots l_open].
        * exact Hall'.
        * intros f i' s' H Hn'. unfold opens in H. cbn [l_open] in H.
          destruct (Nat.eq_dec i' i) as [->|Hne].
          -- rewrite nth_error_upd_nth_eq in Hn' by exact Hlt. inversion Hn'; subst s'.
             split; [reflexivity|apply Hnewopen; reflexivity].
          -- apply (Hother f i' s' H Hne Hn').
  Qed.

  (* ---- what Flush writes for a well formed slot ---- *)

  Lemma chain_ok_pays_geometry s :
    chain_ok s ->
    all_but_last (fun x => N.of_nat (length x) =? s_gso s) (s_pays s) = true /\
    1 <= N.of_nat (length (last (s_pays s) [])) /\ N.of_nat (length (last (s_pays s) [])) <= s_gso s.
  Proof.
    intros Hc. destruct (co_mem _ Hc) as (kp0 & rest & Em & Es).
    rewrite (co_pays _ Hc). apply (chain_sizes (s_seed s) (s_gso s) (s_mem s) 0).
    - apply (co_gso1 _ Hc).
    - rewrite Em. discriminate.
    - apply (co_chain _ Hc).
  Qed.

  Lemma chain_ok_first_size s :
    chain_ok s -> 2 <= s_nseg s -> N.of_nat (length (hd [] (s_pays s))) = s_gso s.
  Proof.
    intros Hc H2. destruct (co_mem _ Hc) as (kp0 & rest & Em & Es).
    pose proof (co_chain _ Hc) as Hch. pose proof (co_nseg _ Hc) as Hn. rewrite (co_pays _ Hc).
    rewrite Em in *. destruct rest as [|kp1 rest]; [simpl in Hn; lia|].
    cbn [chain] in Hch. destruct Hch as [Hm _]. apply H_mid_size in Hm. exact Hm.
  Qed.

  (* the kernel cuts the superpacket back into exactly the members' payloads *)
  Theorem kernel_segment_render s :
    chain_ok s -> 2 <= s_nseg s ->
    kernel_segment (WGso (render pol s)) = segs_from (render pol s) (s_gso s) 0 (pays_of (s_mem s)).
  Proof.
    intros Hc H2. unfold kernel_segment. unfold gso_size. cbn [render g_pays].
    pose proof (chain_ok_first_size s Hc H2) as Hfirst.
    destruct (chain_ok_pays_geometry s Hc) as (Ha & Hl1 & Hl2).
    pose proof (co_gso1 _ Hc) as Hg1.
    rewrite Hfirst. f_equal. rewrite <- (co_pays _ Hc).
    apply chunk_pieces.
    - lia.
    - rewrite Hfirst. exact Ha.
    - lia.
    - lia.
  Qed.

  (* member-wise comparison of a chain with the segments the kernel makes *)
  Lemma chain_segs (R : pkt -> pkt -> Prop) (Q : pkt -> Prop) g m0 gs :
    (forall i m, mid m0 gs i m -> R m (seg_pkt g gs i (i =? 0) false (p_pay m))) ->
    (forall i m, fin m0 gs i m -> Q m -> R m (seg_pkt g gs i (i =? 0) true (p_pay m))) ->
    forall ms i d, ms <> [] -> Q (snd (last ms d)) -> chain m0 gs i ms ->
    Forall2 R (map snd ms) (segs_from g gs i (pays_of ms)).
  Proof.
    intros Hmid Hfin. induction ms as [|kp r IH]; intros i d Hne HQ Hch; [congruence|].
    destruct r as [|kp2 r].
    - simpl in *. constructor; [|constructor]. apply Hfin; assumption.
    - destruct Hch as [Hm Hr].
      change (pays_of (kp :: kp2 :: r)) with (p_pay (snd kp) :: pays_of (kp2 :: r)).
      change (map snd (kp :: kp2 :: r)) with (snd kp :: map snd (kp2 :: r)).
      cbn [segs_from]. change (pays_of (kp2 :: r)) with (p_pay (snd kp2) :: pays_of r) at 1.
      constructor.
      + apply Hmid. exact Hm.
      + change (p_pay (snd kp2) :: pays_of r) with (pays_of (kp2 :: r)).
        apply (IH (i + 1) d); [discriminate| |exact Hr].
        change (last (kp :: kp2 :: r) d) with (last (kp2 :: r) d) in HQ. exact HQ.
  Qed.
End Chain.

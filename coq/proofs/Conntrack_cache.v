(* Proofs about Drop with a routine-local conntrack cache (drop_c / cstep, model/Conntrack.v, model/FwReload.v):
   the cached run satisfies the per-flow specification with a cache ([cflow_ok]); a flow that was refused stays
   refused (it is never in the cache); a tuple is in the cache only because a packet of it was honoured by the
   TABLE (tracked, not expired, valid under the rules then loaded) since the last tick: the bounded staleness. *)
From Coq Require Import List ZArith NArith Bool Lia.
Import ListNotations.
From NV Require Import model.Wheel gen.Consts_Conntrack model.Conntrack model.FwReload
  proofs.Conntrack_proofs proofs.FwReload_proofs.
Open Scope Z_scope.

Section Cache.
Variable allowed : N -> N -> bool -> tuple -> bool.
Variable addr_ok : N -> N -> tuple -> bool.

Notation step := (step allowed addr_ok).
Notation cstep := (cstep allowed addr_ok).
Notation cexec := (cexec allowed addr_ok).
Notation cverdicts := (cverdicts allowed addr_ok).
Notation cflow_ok := (cflow_ok allowed addr_ok).
Notation cs_step := (cs_step allowed addr_ok).
Notation cfl_verdict := (cfl_verdict allowed addr_ok).
Notation quiet := (quiet allowed addr_ok).

(* ---- does the table honour the packet? as a function of the flow's entry after the prologue ------------- *)

Definition look_o (fw : fwcfg) (p : N) (now : Z) (t : tuple) (o : option conn) : bool :=
  match o with
  | None => false
  | Some c => if c_exp c <? now then false
              else negb (negb (N.eqb (c_ver c) (f_ver fw)) && negb (allowed (f_rules fw) p (c_in c) t))
  end.

Lemma look_hit fw p now t ct1 : fst (look allowed fw p now t ct1) = look_o fw p now t (cfind t (ct_conns ct1)).
Proof.
  unfold look, look_o. destruct (cfind t (ct_conns ct1)) as [c|]; [|reflexivity].
  destruct (c_exp c <? now); [reflexivity|]. now destruct (negb _ && negb _).
Qed.

Lemma look_o_live fw now fs p f o : Rfs fw now fs o -> look_o fw p now f o = fl_live allowed fw now fs p f.
Proof.
  intros R. unfold look_o, fl_live. destruct fs as [|e d0 fr]; destruct o as [c|]; cbn [Rfs] in R; try reflexivity.
  - apply Z.ltb_lt in R. now rewrite R.
  - destruct R as [[R1 R2]|[M1 [M2 M3]]].
    + apply Z.ltb_lt in R1, R2. now rewrite R1, R2.
    + subst e d0 fr. destruct (c_exp c <? now); [reflexivity|]. cbn [negb andb].
      now rewrite negb_andb, !negb_involutive.
  - apply Z.ltb_lt in R. now rewrite R.
Qed.

Definition hit_o (p : N) (t : tuple) (n : node) : bool :=
  look_o (n_fw n) p (n_now n) t (cfind t (ct_conns (pre_purge (n_now n) (n_ct n)))).

(* ---- one packet on a node with a cache ------------------------------------------------------------------------ *)

Lemma drop_c_unfold fw p now d t ch ct :
  drop_c allowed addr_ok fw p now d t ch ct =
  if negb (addr_ok (f_rules fw) p t) then (false, ch, ct)
  else if in_cache t ch then (true, ch, ct)
  else let r := drop_tail allowed fw p now d t (pre_purge now ct) in
       (fst r, if fst (look allowed fw p now t (pre_purge now ct)) then t :: ch else ch, snd r).
Proof.
  unfold drop_c, in_conns, drop_tail. destruct (negb _); [reflexivity|]. destruct (in_cache t ch); [reflexivity|].
  destruct (look allowed fw p now t (pre_purge now ct)) as [hit ct1]. cbn [fst].
  destruct hit; [reflexivity|]. now destruct (allowed _ _ _ _).
Qed.

(* the packet's flow is in the cache: it passes and nothing changes *)
Lemma cstep_cached p d t cn :
  addr_ok (f_rules (n_fw (cn_node cn))) p t = true -> in_cache t (cn_cache cn) = true ->
  cstep (EPkt p d t) cn = (Some true, cn).
Proof.
  intros A C. unfold FwReload.cstep. rewrite drop_c_unfold, A, C. cbn [negb]. destruct cn as [[fw ct now] ch P c0].
  reflexivity.
Qed.

(* otherwise: the node moves as without a cache, and the flow enters the cache iff the table honoured the packet *)
Lemma cstep_uncached p d t cn :
  addr_ok (f_rules (n_fw (cn_node cn))) p t = false \/ in_cache t (cn_cache cn) = false ->
  fst (cstep (EPkt p d t) cn) = fst (step (EPkt p d t) (cn_node cn)) /\
  cn_node (snd (cstep (EPkt p d t) cn)) = snd (step (EPkt p d t) (cn_node cn)) /\
  cn_cache (snd (cstep (EPkt p d t) cn)) =
    (if addr_ok (f_rules (n_fw (cn_node cn))) p t && hit_o p t (cn_node cn) then t :: cn_cache cn else cn_cache cn) /\
  cn_period (snd (cstep (EPkt p d t) cn)) = cn_period cn /\ cn_origin (snd (cstep (EPkt p d t) cn)) = cn_origin cn.
Proof.
  intros H. unfold FwReload.cstep, FwReload.step, hit_o. rewrite drop_c_unfold, drop_unfold.
  destruct (addr_ok (f_rules (n_fw (cn_node cn))) p t) eqn:A; cbn [negb andb].
  - destruct H as [H|H]; [discriminate H|]. rewrite H. cbv zeta. rewrite <- look_hit.
    destruct (drop_tail allowed _ _ _ _ _ _) as [v ct2]. cbn [fst snd cn_node cn_cache cn_period cn_origin].
    repeat split; reflexivity.
  - cbn [fst snd cn_node cn_cache cn_period cn_origin]. repeat split; reflexivity.
Qed.

Lemma cstep_node e cn :
  cn_node (snd (cstep e cn)) = snd (step e (cn_node cn)) \/
  (exists p d t, e = EPkt p d t /\ snd (cstep e cn) = cn).
Proof.
  destruct e as [p d t|d|rs tcp udp def]; [|left; reflexivity|left; reflexivity].
  destruct (addr_ok (f_rules (n_fw (cn_node cn))) p t) eqn:A.
  - destruct (in_cache t (cn_cache cn)) eqn:C.
    + right. exists p, d, t. split; [reflexivity|]. now rewrite cstep_cached.
    + left. now apply cstep_uncached; right.
  - left. now apply cstep_uncached; left.
Qed.

Lemma vinv_cstep e cn : vinv (cn_node cn) -> vinv (cn_node (snd (cstep e cn))).
Proof.
  intros V. destruct (cstep_node e cn) as [E|[p [d [t [_ E]]]]]; rewrite E; [now apply vinv_step|exact V].
Qed.

Lemma in_cache_cons_other f t ch : tuple_eqb f t = false -> in_cache f (t :: ch) = in_cache f ch.
Proof. intros E. unfold in_cache. cbn [existsb]. now rewrite E. Qed.

Lemma in_cache_cons_same f ch : in_cache f (f :: ch) = true.
Proof. unfold in_cache. cbn [existsb]. now rewrite tuple_eqb_refl. Qed.

(* ---- the cached run satisfies the specification with a cache ---------------------------------------------------- *)

Definition CR (f : tuple) (cn : cnode) (cs : cstate) : Prop :=
  Rf f (cn_node cn) (cs_s cs) /\ cs_cached cs = in_cache f (cn_cache cn) /\
  cs_period cs = cn_period cn /\ cs_origin cs = cn_origin cn.

Lemma CR_verdict f p d cn cs : CR f cn cs -> fst (cstep (EPkt p d f) cn) = Some (cfl_verdict cs p d f).
Proof.
  intros [R [C _]]. unfold FwReload.cfl_verdict. destruct R as [Efw [Enow R]]. rewrite <- Efw.
  destruct (addr_ok (f_rules (n_fw (cn_node cn))) p f) eqn:A; cbn [andb].
  - rewrite C. destruct (in_cache f (cn_cache cn)) eqn:IC; cbn [orb].
    + now rewrite cstep_cached.
    + destruct (cstep_uncached p d f cn (or_intror IC)) as [E _]. rewrite E.
      rewrite (Rf_verdict allowed addr_ok f p d (cn_node cn) (cs_s cs) (conj Efw (conj Enow R))).
      unfold fl_verdict. now rewrite <- Efw, A.
  - destruct (cstep_uncached p d f cn (or_introl A)) as [E _]. rewrite E.
    now rewrite (step_pkt_refused allowed addr_ok p d f _ A).
Qed.

Lemma CR_step f e cn cs : vinv (cn_node cn) -> CR f cn cs -> CR f (snd (cstep e cn)) (cs_step true f e cs).
Proof.
  intros V [R [C [EP EO]]]. destruct e as [p d t|d|rs tcp udp def].
  - cbn [FwReload.cs_step]. destruct (tuple_eqb f t) eqn:E; cbn [negb].
    + apply tuple_eqb_eq in E. subst t. pose proof R as [Efw [Enow R0]]. rewrite <- Efw.
      destruct (addr_ok (f_rules (n_fw (cn_node cn))) p f) eqn:A; cbn [negb].
      * rewrite C. destruct (in_cache f (cn_cache cn)) eqn:IC.
        -- rewrite cstep_cached by assumption. cbn [snd]. split; [exact R|split; [congruence|split; assumption]].
        -- destruct (cstep_uncached p d f cn (or_intror IC)) as [_ [En [Ec [Ep Eo]]]].
           pose proof (Rf_step allowed addr_ok f (EPkt p d f) _ _ V R) as R'.
           cbn [FwReload.s_step] in R'. rewrite tuple_eqb_refl in R'.
           split; [rewrite En; cbn [cs_s]; rewrite Efw; exact R'|]. cbn [cs_cached cs_period cs_origin].
           rewrite Ec, A, Ep, Eo. cbn [andb]. unfold hit_o.
           rewrite (look_o_live (n_fw (cn_node cn)) (n_now (cn_node cn)) (s_fs (cs_s cs)) p f).
           2:{ rewrite Efw, Enow. apply Rfs_shrinks with (m := conns_of (cn_node cn)); [|exact R0].
               rewrite <- Enow. apply pre_purge_shrinks. }
           rewrite <- Enow. split; [|split; assumption].
           destruct (fl_live allowed _ _ _ _ _); [now rewrite in_cache_cons_same|now rewrite IC].
      * destruct (cstep_uncached p d f cn (or_introl A)) as [_ [En [Ec [Ep Eo]]]].
        rewrite (step_pkt_refused allowed addr_ok p d f _ A) in En. cbn [snd] in En.
        split; [now rewrite En|]. rewrite Ec, A, Ep, Eo. cbn [andb]. repeat split; assumption.
    + destruct (addr_ok (f_rules (n_fw (cn_node cn))) p t && in_cache t (cn_cache cn)) eqn:AC.
      * apply andb_prop in AC as [A IC]. rewrite cstep_cached by assumption. cbn [snd]. split; [exact R|split; [exact C|split; assumption]].
      * assert (H : addr_ok (f_rules (n_fw (cn_node cn))) p t = false \/ in_cache t (cn_cache cn) = false)
          by (apply andb_false_iff in AC; exact AC).
        destruct (cstep_uncached p d t cn H) as [_ [En [Ec [Ep Eo]]]].
        pose proof (Rf_step allowed addr_ok f (EPkt p d t) _ _ V R) as R'.
        cbn [FwReload.s_step] in R'. rewrite E in R'.
        split; [now rewrite En|]. rewrite Ec, Ep, Eo. split; [|split; assumption].
        destruct (_ && hit_o p t (cn_node cn)); [now rewrite in_cache_cons_other|exact C].
  - pose proof (Rf_step allowed addr_ok f (ESleep d) _ _ V R) as R'. cbn [FwReload.s_step FwReload.step snd] in R'.
    cbn [FwReload.cstep FwReload.cs_step snd]. split; [exact R'|]. cbn [cs_cached cn_cache cs_period cn_period cs_origin cn_origin].
    destruct R as [_ [Enow _]]. rewrite EP, EO, <- Enow. split; [|split; reflexivity].
    destruct (ticked _ _ _ _); [reflexivity|exact C].
  - pose proof (Rf_step allowed addr_ok f (EReload rs tcp udp def) _ _ V R) as R'.
    cbn [FwReload.s_step FwReload.step snd] in R'.
    cbn [FwReload.cstep FwReload.cs_step snd]. split; [exact R'|]. repeat split; assumption.
Qed.

Lemma cverdicts_cons e r cn :
  cverdicts (e :: r) cn = match fst (cstep e cn) with Some v => [v] | None => [] end ++ cverdicts r (snd (cstep e cn)).
Proof. reflexivity. Qed.

Lemma cstep_pkt_some p d t cn : exists v, fst (cstep (EPkt p d t) cn) = Some v.
Proof.
  unfold FwReload.cstep. destruct (drop_c _ _ _ _ _ _ _ _ _) as [[v ch] ct]. now exists v.
Qed.

Theorem cache_model_meets_spec f : forall h cn cs,
  vinv (cn_node cn) -> CR f cn cs -> cflow_ok true f cs h (cverdicts h cn) = true.
Proof.
  induction h as [|e h IH]; intros cn cs V R; [reflexivity|].
  pose proof (vinv_cstep e cn V) as V'. pose proof (CR_step f e cn cs V R) as R'. rewrite cverdicts_cons.
  destruct e as [p d t|d|rs tcp udp def].
  - destruct (cstep_pkt_some p d t cn) as [v Ev]. rewrite Ev. cbn [app FwReload.cflow_ok].
    rewrite (IH _ _ V' R'), andb_true_r. destruct (tuple_eqb f t) eqn:E; [|reflexivity].
    apply tuple_eqb_eq in E. subst t. rewrite (CR_verdict f p d cn cs R) in Ev. injection Ev as <-.
    apply Bool.eqb_reflx.
  - cbn [FwReload.cstep fst app FwReload.cflow_ok]. now apply IH.
  - cbn [FwReload.cstep fst app FwReload.cflow_ok]. now apply IH.
Qed.

Lemma CR_boot f n s P : Rf f n s -> CR f (cboot n P) (cspec_boot s P).
Proof.
  intros R. split; [exact R|]. repeat split. cbn. destruct R as [_ [E _]]. now rewrite E.
Qed.

(* the specification that never resets at the version wrap agrees on histories without a wrap *)
Lemma cflow_ok_no_wrap f : forall h cs vs,
  no_wrap (f_ver (s_fw (cs_s cs))) h = true -> cflow_ok false f cs h vs = cflow_ok true f cs h vs.
Proof.
  induction h as [|e h IH]; intros cs vs NW; [reflexivity|].
  destruct e as [p d t|d|rs tcp udp def]; cbn [FwReload.cflow_ok no_wrap] in *.
  - destruct vs as [|v vs]; [reflexivity|]. f_equal. apply IH. cbn [FwReload.cs_step].
    destruct (negb (tuple_eqb f t)); [exact NW|]. destruct (negb (addr_ok _ _ _)); [exact NW|].
    destruct (cs_cached cs); exact NW.
  - apply IH. exact NW.
  - apply andb_prop in NW as [N1 N2]. apply negb_true_iff in N1.
    assert (E : cs_step false f (EReload rs tcp udp def) cs = cs_step true f (EReload rs tcp udp def) cs).
    { cbn [FwReload.cs_step]. unfold s_reload. rewrite N1. reflexivity. }
    rewrite E. apply IH. cbn [FwReload.cs_step]. unfold s_reload. cbn [cs_s s_fw f_ver]. exact N2.
Qed.

(* ---- a refused flow stays refused: it is never in the cache ----------------------------------------------------- *)

Definition cdead (f : tuple) (cn : cnode) : Prop := in_cache f (cn_cache cn) = false /\ dead f (cn_node cn).

Lemma crefused_dead p d f cn :
  addr_ok (f_rules (n_fw (cn_node cn))) p f = true -> fst (cstep (EPkt p d f) cn) = Some false ->
  cdead f (snd (cstep (EPkt p d f) cn)).
Proof.
  intros A Fv. destruct (in_cache f (cn_cache cn)) eqn:IC; [rewrite cstep_cached in Fv by assumption; discriminate Fv|].
  destruct (cstep_uncached p d f cn (or_intror IC)) as [Ev [En [Ec _]]]. rewrite Ev in Fv. split.
  - rewrite Ec, A. cbn [andb]. destruct (hit_o p f (cn_node cn)) eqn:H; [|exact IC].
    exfalso. destruct (step_pkt_same allowed addr_ok p d f _ A) as [S1 _]. rewrite S1 in Fv. injection Fv as Fv.
    unfold pkt_o, hit_o, look_o, tail_o in *.
    destruct (cfind f (ct_conns (pre_purge (n_now (cn_node cn)) (n_ct (cn_node cn))))) as [c|]; [|discriminate H].
    destruct (c_exp c <? n_now (cn_node cn)); [discriminate H|].
    destruct (negb _ && negb _); [discriminate H|discriminate Fv].
  - rewrite En. now apply refused_dead.
Qed.

Theorem cdead_stays f : forall h cn,
  cdead f cn -> quiet f (f_rules (n_fw (cn_node cn))) h = true ->
  forallb negb (restrict f h (cverdicts h cn)) = true /\ cdead f (cexec h cn).
Proof.
  induction h as [|e h IH]; intros cn [IC D] Q; [split; [reflexivity|now split]|].
  rewrite cverdicts_cons. cbn [FwReload.cexec].
  destruct e as [p d t|d|rs tcp udp def]; cbn [FwReload.quiet restrict] in *.
  - apply andb_prop in Q as [Q1 Q2]. destruct (cstep_pkt_some p d t cn) as [v Ev]. rewrite Ev. cbn [app].
    destruct (tuple_eqb f t) eqn:E.
    + apply tuple_eqb_eq in E. subst t.
      destruct (cstep_uncached p d f cn (or_intror IC)) as [Efst [En [Ec _]]].
      pose proof (dead_stays allowed addr_ok f [EPkt p d f] (cn_node cn) D) as DS.
      cbn [FwReload.quiet] in DS. rewrite tuple_eqb_refl, Q1 in DS. specialize (DS eq_refl).
      destruct DS as [DV DD]. cbn [FwReload.verdicts restrict FwReload.exec] in DV, DD.
      rewrite <- Efst, Ev in DV. cbn [app restrict] in DV. rewrite tuple_eqb_refl in DV. cbn [forallb] in DV.
      apply andb_prop in DV as [DV _]. cbn [forallb]. rewrite DV. cbn [andb].
      destruct (step_pkt_fw allowed addr_ok p d f (cn_node cn)) as [Efw _].
      apply IH; [|now rewrite En, Efw]. split; [|now rewrite En].
      rewrite Ec. destruct (addr_ok _ _ _ && hit_o p f (cn_node cn)) eqn:AH; [|exact IC]. exfalso.
      apply andb_prop in AH as [A H]. apply negb_true_iff in DV. subst v.
      pose proof (crefused_dead p d f cn A Ev) as [X _]. rewrite Ec in X. rewrite ?A, ?H in X. cbn [andb] in X.
      now rewrite in_cache_cons_same in X.
    + destruct (cstep_node (EPkt p d t) cn) as [En|[_ [_ [_ [_ En]]]]].
      * pose proof (dead_stays allowed addr_ok f [EPkt p d t] (cn_node cn) D) as DS.
        cbn [FwReload.quiet] in DS. rewrite E in DS. specialize (DS eq_refl). destruct DS as [_ DD].
        cbn [FwReload.exec] in DD. destruct (step_pkt_fw allowed addr_ok p d t (cn_node cn)) as [Efw _].
        apply IH; [|now rewrite En, Efw]. split; [|now rewrite En].
        destruct (addr_ok (f_rules (n_fw (cn_node cn))) p t && in_cache t (cn_cache cn)) eqn:AC.
        -- apply andb_prop in AC as [A C]. now rewrite cstep_cached.
        -- apply andb_false_iff in AC. destruct (cstep_uncached p d t cn AC) as [_ [_ [Ec _]]]. rewrite Ec.
           destruct (_ && hit_o p t (cn_node cn)); [now rewrite in_cache_cons_other|exact IC].
      * rewrite En. apply IH; [now split|exact Q2].
  - cbn [FwReload.cstep fst snd app]. apply IH; [|exact Q]. split.
    + cbn [cn_cache]. now destruct (ticked _ _ _ _).
    + intros c F. cbn [cn_node n_now conns_of n_ct] in *. specialize (D c F). lia.
  - cbn [FwReload.cstep fst snd app]. apply IH.
    + split; [exact IC|]. intros c F. cbn [cn_node] in *. unfold reload in *.
      destruct (N.eqb _ 0); cbn [conns_of n_ct n_now] in *; [discriminate F|now apply D].
    + cbn [cn_node]. unfold reload. now destruct (N.eqb _ 0).
Qed.

(* ---- bounded staleness: how a tuple got into the cache ------------------------------------------------------------ *)

(* the table honours a packet of t from peer p: tracked, not idle past its timeout, valid under the rules loaded *)
Definition table_live (p : N) (t : tuple) (n : node) : Prop :=
  addr_ok (f_rules (n_fw n)) p t = true /\
  exists c, cfind t (conns_of n) = Some c /\ n_now n <= c_exp c /\
            (c_ver c = f_ver (n_fw n) \/ allowed (f_rules (n_fw n)) p (c_in c) t = true).

Lemma hit_o_live p t n : addr_ok (f_rules (n_fw n)) p t = true -> hit_o p t n = true -> table_live p t n.
Proof.
  intros A H. split; [exact A|]. unfold hit_o, look_o in H.
  destruct (cfind t (ct_conns (pre_purge (n_now n) (n_ct n)))) as [c|] eqn:F; [|discriminate H].
  apply (pre_purge_shrinks (n_now n) (n_ct n) t) in F. exists c. split; [exact F|].
  destruct (c_exp c <? n_now n) eqn:L; [discriminate H|]. apply Z.ltb_ge in L. split; [exact L|].
  apply negb_true_iff, andb_false_iff in H. destruct H as [H|H]; apply negb_false_iff in H;
    [left; now apply N.eqb_eq|now right].
Qed.

Lemma cexec_app h1 : forall h2 cn, cexec (h1 ++ h2) cn = cexec h2 (cexec h1 cn).
Proof. induction h1 as [|e h1 IH]; intros; [reflexivity|]. cbn [app FwReload.cexec]. apply IH. Qed.

Lemma cstep_meta e cn :
  cn_period (snd (cstep e cn)) = cn_period cn /\ cn_origin (snd (cstep e cn)) = cn_origin cn /\
  n_now (cn_node (snd (cstep e cn))) = n_now (cn_node cn) + match e with ESleep d => Z.max 0 d | _ => 0 end.
Proof.
  destruct e as [p d t|d|rs tcp udp def].
  - destruct (addr_ok (f_rules (n_fw (cn_node cn))) p t && in_cache t (cn_cache cn)) eqn:AC.
    + apply andb_prop in AC as [A C]. rewrite cstep_cached by assumption. cbn [snd]. repeat split; lia.
    + apply andb_false_iff in AC. destruct (cstep_uncached p d t cn AC) as [_ [En [_ [Ep Eo]]]].
      rewrite En, Ep, Eo. destruct (step_pkt_fw allowed addr_ok p d t (cn_node cn)) as [_ E]. rewrite E.
      repeat split; lia.
  - cbn. repeat split.
  - cbn [FwReload.cstep snd cn_period cn_origin cn_node]. unfold reload. destruct (N.eqb _ 0); cbn; repeat split; lia.
Qed.

Lemma cexec_meta h : forall cn,
  cn_period (cexec h cn) = cn_period cn /\ cn_origin (cexec h cn) = cn_origin cn /\
  n_now (cn_node (cexec h cn)) = n_now (cn_node cn) + elapsed h.
Proof.
  induction h as [|e h IH]; intros cn; [cbn; repeat split; lia|].
  cbn [FwReload.cexec]. destruct (IH (snd (cstep e cn))) as [I1 [I2 I3]].
  destruct (cstep_meta e cn) as [M1 [M2 M3]]. rewrite I1, I2, I3, M1, M2, M3.
  repeat split. cbn [elapsed fold_right]. fold (elapsed h). destruct e; lia.
Qed.

Lemma no_tick_app P c0 h1 : forall t h2,
  no_tick P c0 t (h1 ++ h2) = no_tick P c0 t h1 && no_tick P c0 (t + elapsed h1) h2.
Proof.
  induction h1 as [|e h1 IH]; intros t h2; [cbn; now rewrite Z.add_0_r|].
  destruct e as [p d x|d|rs tcp udp def]; cbn [app no_tick elapsed fold_right]; fold (elapsed h1).
  - apply IH.
  - rewrite IH, andb_assoc. do 2 f_equal. lia.
  - apply IH.
Qed.

(* A tuple is in the cache only because, since the last tick, a packet of it was honoured by the table. *)
Theorem cache_origin f : forall h cn,
  in_cache f (cn_cache cn) = false -> in_cache f (cn_cache (cexec h cn)) = true ->
  exists h1 p d h2, h = h1 ++ EPkt p d f :: h2 /\
    table_live p f (cn_node (cexec h1 cn)) /\
    no_tick (cn_period cn) (cn_origin cn) (n_now (cn_node (cexec h1 cn))) h2 = true.
Proof.
  intros h. induction h as [|e h IH] using rev_ind; intros cn IC0 IC; [cbn in IC; congruence|].
  rewrite cexec_app in IC. cbn [FwReload.cexec] in IC. set (cm := cexec h cn) in *.
  assert (Ext : in_cache f (cn_cache cm) = true ->
                no_tick (cn_period cn) (cn_origin cn) (n_now (cn_node cm)) [e] = true ->
                exists h1 p d h2, h ++ [e] = h1 ++ EPkt p d f :: h2 /\ table_live p f (cn_node (cexec h1 cn)) /\
                  no_tick (cn_period cn) (cn_origin cn) (n_now (cn_node (cexec h1 cn))) h2 = true).
  { intros ICm NT. destruct (IH cn IC0 ICm) as [h1 [p [d [h2 [E [TL N]]]]]].
    exists h1, p, d, (h2 ++ [e]). split; [rewrite E, <- app_assoc; reflexivity|]. split; [exact TL|].
    rewrite no_tick_app, N. cbn [andb].
    assert (Enow : n_now (cn_node cm) = n_now (cn_node (cexec h1 cn)) + elapsed h2).
    { unfold cm. rewrite E, cexec_app. cbn [FwReload.cexec].
      destruct (cexec_meta h2 (snd (cstep (EPkt p d f) (cexec h1 cn)))) as [_ [_ X]]. rewrite X.
      destruct (cstep_meta (EPkt p d f) (cexec h1 cn)) as [_ [_ Y]]. rewrite Y. lia. }
    now rewrite <- Enow. }
  destruct (cexec_meta h cn) as [MP [MO _]]. fold cm in MP, MO.
  destruct e as [p d t|d|rs tcp udp def].
  - destruct (in_cache f (cn_cache cm)) eqn:ICm; [now apply Ext|].
    destruct (addr_ok (f_rules (n_fw (cn_node cm))) p t && in_cache t (cn_cache cm)) eqn:AC.
    + apply andb_prop in AC as [A C]. rewrite cstep_cached in IC by assumption. cbn [snd] in IC. congruence.
    + apply andb_false_iff in AC. destruct (cstep_uncached p d t cm AC) as [_ [_ [Ec _]]]. rewrite Ec in IC.
      destruct (addr_ok (f_rules (n_fw (cn_node cm))) p t && hit_o p t (cn_node cm)) eqn:AH; [|congruence].
      apply andb_prop in AH as [A H]. destruct (tuple_eqb f t) eqn:E; [|rewrite in_cache_cons_other in IC; congruence].
      apply tuple_eqb_eq in E. subst t. exists h, p, d, []. split; [reflexivity|]. split; [|reflexivity].
      now apply hit_o_live.
  - cbn [FwReload.cstep snd cn_cache] in IC. rewrite MP, MO in IC.
    destruct (ticked (cn_period cn) (cn_origin cn) (n_now (cn_node cm)) (n_now (cn_node cm) + Z.max 0 d)) eqn:T;
      [cbn in IC; discriminate IC|].
    apply Ext; [exact IC|]. cbn [no_tick]. now rewrite T.
  - cbn [FwReload.cstep snd cn_cache] in IC. now apply Ext.
Qed.

(* With a cache, a packet no rule allows passes only if the table honours its flow now, or honoured a packet of it
   earlier within the current cache period. *)
Theorem cache_pass_justified p d f h cn :
  in_cache f (cn_cache cn) = false ->
  fst (cstep (EPkt p d f) (cexec h cn)) = Some true ->
  allowed (f_rules (n_fw (cn_node (cexec h cn)))) p d f = false ->
  table_live p f (cn_node (cexec h cn)) \/
  exists h1 p' d' h2, h = h1 ++ EPkt p' d' f :: h2 /\
    table_live p' f (cn_node (cexec h1 cn)) /\
    no_tick (cn_period cn) (cn_origin cn) (n_now (cn_node (cexec h1 cn))) h2 = true.
Proof.
  intros IC0 P NA. set (cm := cexec h cn) in *.
  destruct (in_cache f (cn_cache cm)) eqn:IC; [right; now apply cache_origin|left].
  destruct (cstep_uncached p d f cm (or_intror IC)) as [E _]. rewrite E in P.
  destruct (addr_ok (f_rules (n_fw (cn_node cm))) p f) eqn:A;
    [|rewrite (step_pkt_refused allowed addr_ok p d f _ A) in P; discriminate P].
  split; [exact A|]. destruct (step_pkt_same allowed addr_ok p d f _ A) as [S1 _]. rewrite S1 in P. injection P as P.
  unfold pkt_o in P. destruct (tail_o_pass_why allowed _ _ _ _ _ _ P) as [Al|[c [F [L W]]]]; [congruence|].
  apply (pre_purge_shrinks (n_now (cn_node cm)) (n_ct (cn_node cm)) f) in F. now exists c.
Qed.

End Cache.

(* Sorting + the dedup loop under a strict total order: the result is strictly sorted, duplicate free, has the
   same elements, and is the ONLY list with these properties - so it depends neither on the order in which the
   sources were enumerated (Go map order) nor on the sorting algorithm or its stability. *)
From Coq Require Import List NArith Bool Lia Sorting.Permutation Sorting.Sorted.
Import ListNotations.
From NV Require Import model.RemoteList proofs.RemoteList_order.
Open Scope N_scope.

Section Generic.
  Context {A : Type} (lt : A -> A -> bool) (eqb : A -> A -> bool).
  Hypothesis eqb_eq : forall a b, eqb a b = true <-> a = b.
  Hypothesis lt_irrefl : forall a, lt a a = false.
  Hypothesis lt_trans : forall a b c, lt a b = true -> lt b c = true -> lt a c = true.
  Hypothesis lt_total : forall a b, lt a b = false -> lt b a = false -> a = b.

  Definition wsorted (l : list A) : Prop := StronglySorted (fun a b => lt b a = false) l.
  Definition ssorted (l : list A) : Prop := StronglySorted (fun a b => lt a b = true) l.

  Lemma lt_asym a b : lt a b = true -> lt b a = false.
  Proof.
    intros H. destruct (lt b a) eqn:E; [|reflexivity].
    pose proof (lt_trans _ _ _ H E) as C. rewrite lt_irrefl in C. discriminate.
  Qed.

  Lemma eqb_false a b : eqb a b = false <-> a <> b.
  Proof.
    split.
    - intros H E. apply eqb_eq in E. congruence.
    - intros H. destruct (eqb a b) eqn:E; [apply eqb_eq in E; contradiction|reflexivity].
  Qed.

  Lemma insert_perm x l : Permutation (insert_by lt x l) (x :: l).
  Proof.
    induction l as [|y r IH]; cbn [insert_by]; [reflexivity|].
    destruct (lt x y); [reflexivity|]. rewrite IH. apply perm_swap.
  Qed.

  Lemma sort_perm l : Permutation (sort_by lt l) l.
  Proof.
    induction l as [|x r IH]; cbn [sort_by]; [reflexivity|].
    rewrite insert_perm. now constructor.
  Qed.

  Lemma sort_in l x : In x (sort_by lt l) <-> In x l.
  Proof. split; apply Permutation_in; [apply sort_perm | symmetry; apply sort_perm]. Qed.

  Lemma insert_wsorted x l : wsorted l -> wsorted (insert_by lt x l).
  Proof.
    induction l as [|y r IH]; intros Hs; cbn [insert_by].
    - repeat constructor.
    - inversion Hs as [|? ? Hr Hy]; subst. destruct (lt x y) eqn:E.
      + constructor; [exact Hs|]. constructor; [now apply lt_asym|].
        rewrite Forall_forall in *. intros b Hb. specialize (Hy b Hb).
        destruct (lt b x) eqn:Eb; [|reflexivity].
        pose proof (lt_trans _ _ _ Eb E). congruence.
      + constructor; [now apply IH|].
        eapply Permutation_Forall; [symmetry; apply insert_perm|].
        constructor; assumption.
  Qed.

  Lemma sort_wsorted l : wsorted (sort_by lt l).
  Proof. induction l as [|x r IH]; cbn [sort_by]; [constructor|now apply insert_wsorted]. Qed.

  Lemma dedup_from_spec : forall l last,
    wsorted l -> Forall (fun x => lt x last = false) l ->
    ssorted (dedup_from eqb last l) /\
    Forall (fun x => lt last x = true) (dedup_from eqb last l) /\
    (forall x, In x (dedup_from eqb last l) <-> In x l /\ x <> last).
  Proof.
    induction l as [|x r IH]; intros last Hs Hf; cbn [dedup_from].
    - split; [constructor|]. split; [constructor|]. intros x. cbn [In]. tauto.
    - inversion Hs as [|? ? Hr Hx]; subst. inversion Hf as [|? ? Hxl Hrl]; subst.
      destruct (eqb last x) eqn:E.
      + apply eqb_eq in E. subst x. destruct (IH last Hr Hrl) as (S1 & S2 & S3).
        split; [assumption|]. split; [assumption|]. intros y. rewrite S3. cbn [In]. split.
        * intros [H1 H2]. split; [now right|assumption].
        * intros [[H1|H1] H2]; [congruence|]. tauto.
      + apply eqb_false in E. destruct (IH x Hr Hx) as (S1 & S2 & S3).
        assert (Hlx : lt last x = true).
        { destruct (lt last x) eqn:El; [reflexivity|]. exfalso. apply E. now apply lt_total. }
        split; [constructor; assumption|]. split.
        * constructor; [assumption|]. rewrite Forall_forall in *. intros y Hy. eapply lt_trans; [exact Hlx|now apply S2].
        * intros y. cbn [In]. rewrite S3. split.
          -- intros [H|[H Hn]].
             ++ subst y. split; [now left|congruence].
             ++ split; [now right|]. rewrite Forall_forall in Hx. specialize (Hx _ H). intros ->. congruence.
          -- intros [[H|H] Hn]; [now left|]. destruct (eqb x y) eqn:Ex; [apply eqb_eq in Ex; now left|].
             apply eqb_false in Ex. right. split; [assumption|congruence].
  Qed.

  Lemma dedup_spec l : wsorted l -> ssorted (dedup eqb l) /\ (forall x, In x (dedup eqb l) <-> In x l).
  Proof.
    destruct l as [|x r]; intros Hs; cbn [dedup].
    - split; [constructor|tauto].
    - inversion Hs as [|? ? Hr Hx]; subst. destruct (dedup_from_spec r x Hr Hx) as (S1 & S2 & S3). split.
      + constructor; assumption.
      + intros y. split.
        * intros [H|H]; [now left|]. apply S3 in H. right. tauto.
        * intros [H|H]; [now left|]. destruct (eqb x y) eqn:E; [apply eqb_eq in E; now left|].
          apply eqb_false in E. right. apply S3. split; [assumption|congruence].
  Qed.

  Lemma ssorted_nodup l : ssorted l -> NoDup l.
  Proof.
    induction 1 as [|a l Hs IH Ha]; constructor; [|assumption].
    intros Hin. rewrite Forall_forall in Ha. specialize (Ha _ Hin). rewrite lt_irrefl in Ha. discriminate.
  Qed.

  Lemma ssorted_unique : forall l1 l2, ssorted l1 -> ssorted l2 -> (forall x, In x l1 <-> In x l2) -> l1 = l2.
  Proof.
    induction l1 as [|a l1 IH]; intros [|b l2] H1 H2 Hin.
    - reflexivity.
    - exfalso. apply (proj2 (Hin b)). now left.
    - exfalso. apply (proj1 (Hin a)). now left.
    - inversion H1 as [|? ? S1 F1]; subst. inversion H2 as [|? ? S2 F2]; subst.
      rewrite Forall_forall in F1, F2.
      assert (a = b).
      { destruct (proj1 (Hin a) (or_introl eq_refl)) as [E|E]; [now symmetry|].
        destruct (proj2 (Hin b) (or_introl eq_refl)) as [E'|E']; [assumption|].
        pose proof (F2 _ E) as L1. pose proof (F1 _ E') as L2. apply lt_asym in L1. congruence. }
      subst b. f_equal. apply IH; try assumption. intros x. split; intros Hx.
      + destruct (proj1 (Hin x) (or_intror Hx)) as [E|E]; [|assumption].
        subst x. specialize (F1 _ Hx). rewrite lt_irrefl in F1. discriminate.
      + destruct (proj2 (Hin x) (or_intror Hx)) as [E|E]; [|assumption].
        subst x. specialize (F2 _ Hx). rewrite lt_irrefl in F2. discriminate.
  Qed.

  Lemma wsorted_nodup_ssorted l : wsorted l -> NoDup l -> ssorted l.
  Proof.
    induction 1 as [|a l Hs IH Ha]; intros Hn; [constructor|].
    inversion Hn as [|? ? Hna Hnl]; subst. constructor; [now apply IH|].
    rewrite Forall_forall in *. intros b Hb. specialize (Ha b Hb).
    destruct (lt a b) eqn:E; [reflexivity|]. exfalso. apply Hna. rewrite (lt_total _ _ E Ha). assumption.
  Qed.

  Definition canon (l : list A) : list A := dedup eqb (sort_by lt l).

  Lemma canon_sorted l : ssorted (canon l).
  Proof. apply dedup_spec, sort_wsorted. Qed.

  Lemma canon_in l x : In x (canon l) <-> In x l.
  Proof. unfold canon. rewrite (proj2 (dedup_spec _ (sort_wsorted l))). apply sort_in. Qed.

  Lemma canon_nodup l : NoDup (canon l).
  Proof. apply ssorted_nodup, canon_sorted. Qed.

  (* the result depends on the SET of inputs only *)
  Lemma canon_ext l l' : (forall x, In x l <-> In x l') -> canon l = canon l'.
  Proof.
    intros H. apply ssorted_unique; try apply canon_sorted.
    intros x. rewrite !canon_in. apply H.
  Qed.

  (* any sorting procedure (stable or not) followed by the dedup loop gives the same list *)
  Lemma canon_any_sort l l' : wsorted l' -> (forall x, In x l' <-> In x l) -> dedup eqb l' = canon l.
  Proof.
    intros Hs Hin. destruct (dedup_spec l' Hs) as [S1 S2].
    apply ssorted_unique; [assumption|apply canon_sorted|].
    intros x. rewrite S2, canon_in. apply Hin.
  Qed.

  (* and every strictly sorted list with the right elements is that list *)
  Lemma canon_unique l m : ssorted m -> (forall x, In x m <-> In x l) -> m = canon l.
  Proof.
    intros Hs Hin. apply ssorted_unique; [assumption|apply canon_sorted|].
    intros x. rewrite canon_in. apply Hin.
  Qed.

  Lemma canon_idem l : canon (canon l) = canon l.
  Proof. apply canon_ext. intros x. apply canon_in. Qed.

  (* the keys a map keeps *)
  Lemma nodup_keys_in l x : In x (nodup_keys eqb l) <-> In x l.
  Proof.
    induction l as [|a r IH]; cbn [nodup_keys]; [tauto|]. split.
    - intros [H|H]; [now left|]. apply filter_In in H. right. apply IH. tauto.
    - intros [H|H]; [now left|]. destruct (eqb a x) eqn:E; [apply eqb_eq in E; now left|].
      right. apply filter_In. split; [now apply IH|]. now rewrite E.
  Qed.

  Lemma nodup_keys_nodup l : NoDup (nodup_keys eqb l).
  Proof.
    induction l as [|a r IH]; cbn [nodup_keys]; constructor.
    - intros H. apply filter_In in H. destruct H as [_ H]. rewrite (proj2 (eqb_eq a a) eq_refl) in H. discriminate.
    - now apply NoDup_filter.
  Qed.

  Lemma sort_nodup_ssorted m : NoDup m -> ssorted (sort_by lt m).
  Proof.
    intros H. apply wsorted_nodup_ssorted; [apply sort_wsorted|].
    eapply Permutation_NoDup; [symmetry; apply sort_perm|assumption].
  Qed.

  (* dedup through a map (any key order) then sort = sort then dedup loop *)
  Lemma sort_keys_canon l m : NoDup m -> (forall x, In x m <-> In x l) -> sort_by lt m = canon l.
  Proof.
    intros Hn Hin. apply canon_unique; [now apply sort_nodup_ssorted|].
    intros x. rewrite sort_in. apply Hin.
  Qed.
End Generic.

(* ---- instantiation: addresses ---- *)
Definition addrs_sorted (pref : list prefix) (l : list ap) : Prop := ssorted (less pref) l.
Definition relays_sorted (l : list addr) : Prop := ssorted addr_ltb l.

Lemma sort_addrs_sorted pref l : addrs_sorted pref (sort_addrs pref l).
Proof. apply (canon_sorted (less pref) ap_eqb ap_eqb_eq (less_irrefl pref) (less_trans pref) (less_total pref)). Qed.

Lemma sort_addrs_in pref l x : In x (sort_addrs pref l) <-> In x l.
Proof. apply (canon_in (less pref) ap_eqb ap_eqb_eq (less_irrefl pref) (less_trans pref) (less_total pref)). Qed.

Lemma sort_addrs_nodup pref l : NoDup (sort_addrs pref l).
Proof. apply (canon_nodup (less pref) ap_eqb ap_eqb_eq (less_irrefl pref) (less_trans pref) (less_total pref)). Qed.

Lemma sort_addrs_ext pref l l' : (forall x, In x l <-> In x l') -> sort_addrs pref l = sort_addrs pref l'.
Proof. apply (canon_ext (less pref) ap_eqb ap_eqb_eq (less_irrefl pref) (less_trans pref) (less_total pref)). Qed.

Lemma sort_addrs_any_sort pref l l' :
  wsorted (less pref) l' -> (forall x, In x l' <-> In x l) -> dedup ap_eqb l' = sort_addrs pref l.
Proof. apply (canon_any_sort (less pref) ap_eqb ap_eqb_eq (less_irrefl pref) (less_trans pref) (less_total pref)). Qed.

Lemma sort_addrs_unique pref l m : addrs_sorted pref m -> (forall x, In x m <-> In x l) -> m = sort_addrs pref l.
Proof. apply (canon_unique (less pref) ap_eqb ap_eqb_eq (less_irrefl pref) (less_trans pref) (less_total pref)). Qed.

(* a preferred-range change between two rebuilds: re-sorting the previous result = sorting the sources afresh *)
Lemma sort_addrs_resort p1 p2 l : sort_addrs p2 (sort_addrs p1 l) = sort_addrs p2 l.
Proof. apply sort_addrs_ext. intros x. apply sort_addrs_in. Qed.

Lemma relays_of_canon l : relays_of l = canon addr_ltb addr_eqb l.
Proof.
  apply (sort_keys_canon addr_ltb addr_eqb addr_eqb_eq addr_ltb_irrefl addr_ltb_trans addr_ltb_total).
  - apply (nodup_keys_nodup addr_eqb addr_eqb_eq).
  - intros x. apply (nodup_keys_in addr_eqb addr_eqb_eq).
Qed.

Lemma relays_of_sorted l : relays_sorted (relays_of l).
Proof. rewrite relays_of_canon. apply (canon_sorted addr_ltb addr_eqb addr_eqb_eq addr_ltb_irrefl addr_ltb_trans addr_ltb_total). Qed.

Lemma relays_of_in l x : In x (relays_of l) <-> In x l.
Proof. rewrite relays_of_canon. apply (canon_in addr_ltb addr_eqb addr_eqb_eq addr_ltb_irrefl addr_ltb_trans addr_ltb_total). Qed.

Lemma relays_of_nodup l : NoDup (relays_of l).
Proof. rewrite relays_of_canon. apply (canon_nodup addr_ltb addr_eqb addr_eqb_eq addr_ltb_irrefl addr_ltb_trans addr_ltb_total). Qed.

Lemma relays_of_ext l l' : (forall x, In x l <-> In x l') -> relays_of l = relays_of l'.
Proof. intros H. rewrite !relays_of_canon. now apply (canon_ext addr_ltb addr_eqb addr_eqb_eq addr_ltb_irrefl addr_ltb_trans addr_ltb_total). Qed.

(* whatever order the map hands the distinct relays out in *)
Lemma relays_any_map_order l m : NoDup m -> (forall x, In x m <-> In x l) -> sort_by addr_ltb m = relays_of l.
Proof.
  intros Hn Hin. rewrite relays_of_canon.
  now apply (sort_keys_canon addr_ltb addr_eqb addr_eqb_eq addr_ltb_irrefl addr_ltb_trans addr_ltb_total).
Qed.

Lemma relays_of_idem l : relays_of (relays_of l) = relays_of l.
Proof. apply relays_of_ext. intros x. apply relays_of_in. Qed.

(* C12: at most one receiver thread delivers a given counter, under every schedule. Corollary of the
   C11 refinement (proofs/Bits_sim.v): a delivery passes through an accepting Update, and the
   specification accepts a counter only if it has not been seen. *)
From Coq Require Import List NArith ZArith Lia Bool.
Import ListNotations.
From NV Require Import lib.Bytes lib.Bits_lib model.Bits model.Decrypt
                       proofs.Bits_word proofs.Bits_sim proofs.Bits_hist.
Open Scope N_scope.

Definition okc (c : N) (t : thread) : bool := (t_ctr t =? c) && delivered t.
Definition b2n (b : bool) : nat := if b then 1%nat else 0%nat.

Lemma thread_step_eq b t : thread_step b t = decrypt_step b t.
Proof. unfold thread_step. destruct (t_entry t); reflexivity. Qed.

Lemma delivered_count_cons c t ths :
  delivered_count c (t :: ths) = (b2n (okc c t) + delivered_count c ths)%nat.
Proof. unfold delivered_count, okc. cbn [filter]. destruct (_ && _); reflexivity. Qed.

Lemma count_set_thread c t' : forall ths i t,
  nth_error ths i = Some t ->
  (delivered_count c (set_thread ths i t') + b2n (okc c t) =
   delivered_count c ths + b2n (okc c t'))%nat.
Proof.
  induction ths as [|x r IH]; intros [|i] t H; cbn [nth_error set_thread] in *; try discriminate.
  - injection H as ->. rewrite !delivered_count_cons. lia.
  - rewrite !delivered_count_cons. specialize (IH i t H). lia.
Qed.

Lemma forall_set_thread (P : thread -> Prop) t' : forall ths i,
  Forall P ths -> P t' -> Forall P (set_thread ths i t').
Proof.
  induction ths as [|x r IH]; intros [|i] H Ht; cbn [set_thread]; auto;
    inversion H; subst; constructor; auto.
Qed.

Lemma nth_error_forall (P : thread -> Prop) ths i t :
  Forall P ths -> nth_error ths i = Some t -> P t.
Proof. intros H E. rewrite Forall_forall in H. apply H. eapply nth_error_In. exact E. Qed.

(* the invariant of every reachable state *)
Definition inv (L : N) (st : bits * list thread) : Prop :=
  exists s, R L (fst st) s /\
    Forall (fun t => t_ctr t < two64 - L) (snd st) /\
    forall c, (delivered_count c (snd st) <= b2n (seen s c))%nat.

(* a thread past the cipher call, or delivered, carried an authentic packet *)
Definition auth_ok (t : thread) : Prop :=
  match t_pc t with
  | PAuthed | PDone Delivered => t_auth t = true
  | _ => True
  end.

Lemma inv_step L st tid : pow2 L -> inv L st -> inv L (sched_step st tid).
Proof.
  intros HL (s & HR & Hrange & Hcnt). destruct st as [b ths]. cbn [fst snd] in *.
  unfold sched_step. destruct (nth_error ths tid) as [t|] eqn:Et; [|exists s; auto].
  pose proof (nth_error_forall _ ths tid t Hrange Et) as Hc. cbn beta in Hc.
  rewrite thread_step_eq. unfold decrypt_step.
  assert (Hsame : forall t', t_ctr t' = t_ctr t -> delivered t = false -> delivered t' = false ->
            inv L (b, set_thread ths tid t')).
  { intros t' E1 D1 D2. exists s. cbn [fst snd]. split; [exact HR|]. split.
    - apply forall_set_thread; [exact Hrange|]. rewrite E1. exact Hc.
    - intros c. pose proof (count_set_thread c t' ths tid t Et) as Q.
      unfold okc in Q. rewrite D1, D2, !andb_false_r in Q. cbn [b2n] in Q.
      specialize (Hcnt c). lia. }
  destruct (t_pc t) as [| | |r] eqn:Epc.
  - destruct (check b (t_ctr t)); apply Hsame; try reflexivity; unfold delivered; rewrite ?Epc; reflexivity.
  - destruct (t_auth t); apply Hsame; try reflexivity; unfold delivered; rewrite ?Epc; reflexivity.
  - destruct (update_sim L b s (t_ctr t) HL HR Hc) as [Ev HR'].
    destruct (update b (t_ctr t)) as [ok b'] eqn:Eu. cbn [fst snd] in Ev, HR'.
    unfold spec_update in Ev, HR'. destruct (spec_accept L s (t_ctr t)) eqn:Ea; cbn [fst snd] in Ev, HR'; subst ok.
    + (* the accepting Update: the counter had not been seen, so nobody had delivered it *)
      exists (mkSpec (N.max (s_cur s) (t_ctr t)) (t_ctr t :: s_acc s)). cbn [fst snd].
      split; [exact HR'|]. split.
      * apply forall_set_thread; [exact Hrange|exact Hc].
      * intros c. pose proof (count_set_thread c (at_pc t (PDone Delivered)) ths tid t Et) as Q.
        unfold okc in Q. unfold delivered in Q at 1. rewrite Epc, andb_false_r in Q.
        cbn [at_pc t_ctr delivered t_pc b2n] in Q. rewrite andb_true_r in Q.
        rewrite seen_cons. specialize (Hcnt c).
        unfold spec_accept in Ea. apply andb_true_iff in Ea as [Ea _]. apply negb_true_iff in Ea.
        destruct (N.eqb_spec (t_ctr t) c) as [E|E].
        -- subst c. rewrite N.eqb_refl. rewrite Ea in Hcnt. cbn [b2n orb] in *. lia.
        -- destruct (N.eqb_spec c (t_ctr t)); [congruence|]. cbn [b2n orb] in *. lia.
    + exists s. cbn [fst snd]. split; [exact HR'|]. split.
      * apply forall_set_thread; [exact Hrange|exact Hc].
      * intros c. pose proof (count_set_thread c (at_pc t (PDone AlreadySeen)) ths tid t Et) as Q.
        unfold okc in Q. unfold delivered in Q. rewrite Epc in Q. cbn [at_pc t_pc] in Q.
        rewrite !andb_false_r in Q. cbn [b2n] in Q. specialize (Hcnt c). lia.
  - exists s. cbn [fst snd]. split; [exact HR|]. split.
    + apply forall_set_thread; [exact Hrange|exact Hc].
    + intros c. pose proof (count_set_thread c t ths tid t Et) as Q. specialize (Hcnt c). lia.
Qed.

Lemma inv_run L : pow2 L -> forall sched st, inv L st -> inv L (run_sched st sched).
Proof.
  intros HL. unfold run_sched. induction sched as [|tid r IH]; intros st H; [exact H|].
  cbn [fold_left]. apply IH. apply inv_step; assumption.
Qed.

Lemma fresh_not_delivered c ths :
  forallb fresh ths = true -> delivered_count c ths = 0%nat.
Proof.
  induction ths as [|t r IH]; intros H; [reflexivity|].
  cbn [forallb] in H. apply andb_true_iff in H as [Hf Hr].
  rewrite delivered_count_cons, (IH Hr). unfold okc, delivered. unfold fresh in Hf.
  destruct (t_pc t); try discriminate. rewrite andb_false_r. reflexivity.
Qed.

Lemma inv_init L b0 ths :
  pow2 L -> new_bits L = Some b0 -> threads_ok L ths = true -> inv L (b0, ths).
Proof.
  intros HL Hn Hok. exists spec_init. cbn [fst snd]. split; [apply R_init; assumption|].
  unfold threads_ok in Hok. split.
  - apply Forall_forall. intros t Ht. rewrite forallb_forall in Hok. specialize (Hok t Ht).
    apply andb_true_iff in Hok as [_ Hr]. apply N.ltb_lt in Hr. exact Hr.
  - intros c. rewrite fresh_not_delivered; [lia|].
    rewrite forallb_forall in *. intros t Ht. specialize (Hok t Ht).
    apply andb_true_iff in Hok as [Hf _]. exact Hf.
Qed.

Lemma at_most_once L b0 ths sched c :
  pow2 L -> new_bits L = Some b0 -> threads_ok L ths = true ->
  (delivered_count c (snd (run_sched (b0, ths) sched)) <= 1)%nat.
Proof.
  intros HL Hn Hok.
  destruct (inv_run L HL sched (b0, ths) (inv_init L b0 ths HL Hn Hok)) as (s & _ & _ & H).
  specialize (H c). destruct (seen s c); cbn [b2n] in H; lia.
Qed.

(* from any reachable-like state: a window related to a specification state in which every counter
   already delivered is seen *)
Lemma at_most_once_from L st sched c :
  pow2 L -> inv L st -> (delivered_count c (snd (run_sched st sched)) <= 1)%nat.
Proof.
  intros HL Hi. destruct (inv_run L HL sched st Hi) as (s & _ & _ & H).
  specialize (H c). destruct (seen s c); cbn [b2n] in H; lia.
Qed.

(* only authentic packets are delivered *)
Lemma auth_step b t : auth_ok t -> auth_ok (snd (thread_step b t)).
Proof.
  intros H. rewrite thread_step_eq. unfold decrypt_step, auth_ok in *.
  destruct (t_pc t) eqn:E.
  - destruct (check b (t_ctr t)); cbn; exact I.
  - destruct (t_auth t) eqn:Ea; cbn; [exact Ea|exact I].
  - destruct (update b (t_ctr t)) as [ok b']. destruct ok; cbn; [exact H|exact I].
  - cbn. rewrite E. exact H.
Qed.

Lemma auth_run : forall sched b ths,
  Forall auth_ok ths -> Forall auth_ok (snd (run_sched (b, ths) sched)).
Proof.
  unfold run_sched. induction sched as [|tid r IH]; intros b ths H; [exact H|].
  cbn [fold_left]. unfold sched_step at 2. destruct (nth_error ths tid) as [t|] eqn:Et; [|apply IH; exact H].
  pose proof (auth_step b t (nth_error_forall _ ths tid t H Et)) as Hs.
  destruct (thread_step b t) as [b' t']. cbn [snd] in Hs. apply IH.
  apply forall_set_thread; assumption.
Qed.

Lemma delivered_authentic L b0 ths sched t :
  threads_ok L ths = true -> In t (snd (run_sched (b0, ths) sched)) -> delivered t = true -> t_auth t = true.
Proof.
  intros Hok Hin Hd.
  assert (H0 : Forall auth_ok ths).
  { apply Forall_forall. intros x Hx. unfold threads_ok in Hok. rewrite forallb_forall in Hok.
    specialize (Hok x Hx). apply andb_true_iff in Hok as [Hf _]. unfold fresh in Hf. unfold auth_ok.
    destruct (t_pc x); try discriminate. exact I. }
  pose proof (auth_run sched b0 ths H0) as H. rewrite Forall_forall in H. specialize (H t Hin).
  unfold auth_ok in H. unfold delivered in Hd. destruct (t_pc t) as [| | |[| |]]; try discriminate. exact H.
Qed.

(* a tunnel whose window has already processed any in-range history (e.g. the seeding loop of
   newConnectionStateFromResult, or earlier traffic) *)
Lemma inv_seeded L b0 ops ths :
  pow2 L -> new_bits L = Some b0 -> ops_in_range L ops = true -> threads_ok L ths = true ->
  inv L (snd (run_ops b0 ops), ths).
Proof.
  intros HL Hn Hr Hok.
  destruct (run_sim L HL ops b0 spec_init (R_init L b0 HL Hn) Hr) as [_ HR].
  exists (snd (spec_run L spec_init ops)). cbn [fst snd]. split; [exact HR|].
  unfold threads_ok in Hok. split.
  - apply Forall_forall. intros t Ht. rewrite forallb_forall in Hok. specialize (Hok t Ht).
    apply andb_true_iff in Hok as [_ Hr']. apply N.ltb_lt in Hr'. exact Hr'.
  - intros c. rewrite fresh_not_delivered; [lia|].
    rewrite forallb_forall in *. intros t Ht. specialize (Hok t Ht).
    apply andb_true_iff in Hok as [Hf _]. exact Hf.
Qed.

(* Lighthouse_examples: concrete histories. The hypotheses of the theorems are satisfiable and their conclusions are
   not vacuous; and the one region excluded by a hypothesis (two certificates sharing an overlay address) really does
   behave differently. *)
From Coq Require Import List NArith Bool Lia.
Import ListNotations.
From NV Require Import lib.Ip gen.Tab_Lighthouse model.Lighthouse proofs.Lighthouse_gate proofs.Lighthouse_hist.
Open Scope N_scope.

Definition xA : addr := (true, 176160770).   (* 10.128.0.2 *)
Definition xB : addr := (true, 176160771).
Definition xC : addr := (false, 336294682933583715844663186250927177732). (* fd00::4 *)
Definition xL : addr := (true, 176160780).   (* a configured lighthouse *)
Definition xnets : list prefix := [((true, 176160769), 16); ((false, 336294682933583715844663186250927177729), 64)].
Definition lh_node : cfg := mkCfg true [] xnets false true.         (* a lighthouse *)
Definition cl_node : cfg := mkCfg false [xL] xnets false true.      (* an ordinary node with lighthouse xL *)

(* 198.51.100.7:4242 and (inside my own network, filtered) 10.128.9.9:1 *)
Definition upd (claim : option (N * N)) : lmsg := mkMsg t_host_update true 0 claim [(3325256711, 4242); (176163081, 1)] [] [] [].

Lemma init_alias : alias_inv [] init_state.
Proof. split; intros; discriminate. Qed.

(* a lighthouse stores an update of (A, B) under A, registered for A and B, and acknowledges it *)
Example ex_update_stored :
  let '(st, outs) := step lh_node init_state (xA, [xB]) (PMsg (upd None)) in
  entry st 0 xA = Some (mkCe None None [(3325256711, 4242)] [] []) /\ amap_get xA st = Some 0 /\ amap_get xB st = Some 0 /\
  outs = [OSend xA (blank t_host_update_ack)].
Proof. vm_compute. repeat split; reflexivity. Qed.

(* the same update claiming a foreign address changes nothing; so does any update at a node that is not a lighthouse *)
Example ex_update_refused :
  step lh_node init_state (xA, [xB]) (PMsg (upd (Some (to_hl xC)))) = (init_state, []) /\
  step cl_node init_state (xA, [xB]) (PMsg (upd None)) = (init_state, []).
Proof. vm_compute. split; reflexivity. Qed.

(* a query is answered by a lighthouse and ignored by an ordinary node, whatever it has cached *)
Example ex_query :
  let st := run lh_node init_state [HMsg (xA, [xB]) (PMsg (upd None))] in
  let q := mkMsg t_host_query true (snd xB) None [] [] [] [] in
  (exists r, step lh_node st (xC, []) (PMsg q) = (st, OSend xC r :: nil) /\ m_v4 r = [(3325256711, 4242)]) /\
  step cl_node (learn init_state (xB, []) ((true, 3325256711), 4242)) (xC, []) (PMsg q) =
    (learn init_state (xB, []) ((true, 3325256711), 4242), []).
Proof. vm_compute. split; [eexists; split; reflexivity|reflexivity]. Qed.

(* an ordinary node takes a query reply and a punch request from its lighthouse, and neither from anybody else *)
Example ex_client :
  let rep := mkMsg t_host_query_reply true (snd xA) None [(3325256711, 4242)] [] [] [] in
  let pun := mkMsg t_host_punch true (snd xA) None [(3325256711, 4242); (176163081, 1)] [] [] [] in
  entry (fst (step cl_node init_state (xL, []) (PMsg rep))) 0 xL = Some (mkCe None None [(3325256711, 4242)] [] []) /\
  step cl_node init_state (xB, []) (PMsg rep) = (init_state, []) /\
  snd (step cl_node init_state (xL, []) (PMsg pun)) = [OPunch ((true, 3325256711), 4242) xA; ORespond xA] /\
  step cl_node init_state (xB, []) (PMsg pun) = (init_state, []).
Proof. vm_compute. repeat split; reflexivity. Qed.

(* tunnels with disjoint certificates satisfy the hypothesis of the address theorem *)
Example ex_wf : wf_sets (sets_of [HMsg (xA, [xB]) (PMsg (upd None)); HLearn (xC, []) ((true, 1), 1); HMsg (xA, [xB]) (PMsg (upd None))]).
Proof.
  intros F G HF HG (x & XF & XG) y. simpl in HF, HG.
  assert (D : forall z, In z [xA; xB] -> In z [xC] -> False).
  { intros z [<-|[<-|[]]] [E|[]]; discriminate. }
  destruct HF as [<-|[<-|[<-|[]]]], HG as [<-|[<-|[<-|[]]]]; try tauto; exfalso; eapply D; eauto.
Qed.

(* Outside that hypothesis: when (A, B) and (B, C) are both certified (two certificates share B), the update of (B, C) is
   stored in the list that is also registered for A, although A is not certified for that sender.  It is stored under
   the owner key B, so a query for A (answered from the entry of the list's first address A) does not return it. *)
Lemma shared_address_witness :
  exists c st0 h f m st' outs rid o A,
    alias_inv [] st0 /\ step c (run c st0 h) f (PMsg m) = (st', outs) /\ m_type m = t_host_update /\
    entry st' rid o <> entry (run c st0 h) rid o /\ amap_get A st' = Some rid /\ ~ In A (all_from f).
Proof.
  exists lh_node, init_state, [HMsg (xA, [xB]) (PMsg (upd None))], (xB, [xC]), (upd None).
  eexists. eexists. exists 0, xB, xA.
  split; [exact init_alias|]. split; [vm_compute; reflexivity|]. split; [reflexivity|].
  split; [vm_compute; discriminate|]. split; [vm_compute; reflexivity|].
  intros [E|[E|[]]]; discriminate.
Qed.

Lemma shared_address_not_served :
  let st := run lh_node init_state [HMsg (xA, [xB]) (PMsg (upd None)); HMsg (xB, [xC]) (PMsg (mkMsg t_host_update true 0 None [(3325256999, 1)] [] [] []))] in
  prep st xA = Some (mkCe None None [(3325256711, 4242)] [] []) /\ prep st xB = prep st xA.
Proof. vm_compute. split; reflexivity. Qed.

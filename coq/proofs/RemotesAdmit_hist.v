(* All histories of lighthouse operations under a fixed configuration keep the admission invariant on every
   RemoteList ever created (including lists whose keys were deleted and that a HostInfo may still hold). *)
From Coq Require Import List NArith Bool Lia.
Import ListNotations.
From NV Require Import gen.Consts_RemoteList model.RemoteList model.RemotesAdmit
  proofs.RemoteList_order proofs.RemoteList_sort proofs.RemoteList_rebuild proofs.RemotesAdmit_inv.
Open Scope N_scope.

(* ---- the list table ---- *)
Lemma lupd_in l id f e : In e (lupd l id f) -> In e l \/ exists r, In (fst e, r) l /\ snd e = f r /\ fst e = id.
Proof.
  induction l as [|[k v] t IH]; cbn [lupd]; [intros []|].
  destruct (k =? id) eqn:E.
  - apply N.eqb_eq in E. intros [<-|H]; [right; exists v; cbn [fst snd]; repeat split; [now left|assumption]|left; now right].
  - intros [<-|H]; [left; now left|]. destruct (IH H) as [H'|(r & H1 & H2 & H3)]; [left; now right|].
    right. exists r. repeat split; try assumption. now right.
Qed.

Lemma lupd_lupd l id f g : lupd (lupd l id g) id f = lupd l id (fun r => f (g r)).
Proof.
  induction l as [|[k v] t IH]; cbn [lupd]; [reflexivity|].
  destruct (k =? id) eqn:E; cbn [lupd]; rewrite E; [reflexivity|now rewrite IH].
Qed.

Lemma lupd_app_fresh l id r0 f : (forall e, In e l -> fst e <> id) -> lupd (l ++ [(id, r0)]) id f = l ++ [(id, f r0)].
Proof.
  induction l as [|[k v] t IH]; intros H; cbn [lupd app].
  - now rewrite N.eqb_refl.
  - destruct (k =? id) eqn:E; [apply N.eqb_eq in E; exfalso; apply (H (k, v)); [now left|exact E]|].
    rewrite IH; [reflexivity|]. intros e He. apply H. now right.
Qed.

Lemma lget_in l id r : lget l id = Some r -> In (id, r) l.
Proof.
  induction l as [|[k v] t IH]; cbn [lget]; [discriminate|].
  destruct (k =? id) eqn:E; [apply N.eqb_eq in E; intros [= <-]; subst; now left|intros H; right; now apply IH].
Qed.

Lemma lget_lupd_same l id f : lget (lupd l id f) id = option_map f (lget l id).
Proof.
  induction l as [|[k v] t IH]; cbn [lupd lget]; [reflexivity|].
  destruct (k =? id) eqn:E; cbn [lget]; rewrite E; [reflexivity|exact IH].
Qed.

Section Hist.
  Variable c : config.
  Notation adm := (adm c).
  Notation chk := (chk c).
  Notation inv_rec := (inv_rec c).

  Definition all_inv (s : lh) : Prop := forall e, In e (lh_lists s) -> inv_rec (snd e).
  Definition ids_lt (s : lh) : Prop := forall e, In e (lh_lists s) -> fst e < lh_next s.
  Definition good (s : lh) : Prop := all_inv s /\ ids_lt s.

  Lemma good_lupd s id f : good s -> (forall r, inv_rec r -> inv_rec (f r)) ->
    good (mkLH (lh_map s) (lupd (lh_lists s) id f) (lh_next s)).
  Proof.
    intros [A B] Hf. split; intros e He; cbn [lh_lists lh_next] in *; destruct (lupd_in _ _ _ _ He) as [H|(r & H1 & H2 & H3)].
    - now apply A.
    - rewrite H2. apply Hf. apply (A (fst e, r) H1).
    - now apply B.
    - apply (B (fst e, r) H1).
  Qed.

  (* look a list up (creating it if needed), then update it: the update only has to keep the invariant for records
     that already know all the addresses the list was looked up under *)
  Lemma good_grl s all s1 id f :
    good s -> all <> [] -> get_remote_list s all = (s1, id) ->
    (forall p L, inv_rec (p, L) -> incl all p -> inv_rec (f (p, L))) ->
    good (mkLH (lh_map s1) (lupd (lh_lists s1) id f) (lh_next s1)).
  Proof.
    intros [A B] Hne G Hf. unfold get_remote_list in G. destruct (first_known (lh_map s) all) as [i|].
    - injection G as <- <-. cbn [lh_map lh_lists lh_next]. rewrite lupd_lupd.
      apply (good_lupd s i (fun r => f (fst r ++ all, snd r))); [split; assumption|].
      intros [p L] I. cbn [fst snd]. apply Hf; [|apply incl_appr, incl_refl].
      eapply inv_mono; [exact I|apply incl_appl, incl_refl].
    - injection G as <- <-. cbn [lh_map lh_lists lh_next].
      rewrite lupd_app_fresh by (intros e He; specialize (B e He); lia).
      split; intros e He; cbn [lh_lists lh_next] in *; apply in_app_iff in He; destruct He as [He|[<-|[]]].
      + now apply A.
      + cbn [snd]. apply Hf; [now apply inv_new|apply incl_refl].
      + specialize (B e He). lia.
      + cbn [fst]. lia.
  Qed.

  Lemma good_grl_id s all s1 id : good s -> all <> [] -> get_remote_list s all = (s1, id) -> good s1.
  Proof.
    intros G Hne E. pose proof (good_grl s all s1 id (fun r => r) G Hne E (fun p L I _ => I)) as H.
    assert (X : forall l i, lupd l i (fun r : lrec => r) = l).
    { induction l as [|[k v] t IH]; intros i; cbn [lupd]; [reflexivity|]. destruct (k =? i); [reflexivity|now rewrite IH]. }
    rewrite X in H. destruct s1. exact H.
  Qed.

  Lemma good_on_list s all s1 id ops :
    good s -> all <> [] -> get_remote_list s all = (s1, id) ->
    (forall p, incl all p -> Forall (rop_ok c p) ops) -> good (on_list c s1 id ops).
  Proof.
    intros G Hne E H. unfold on_list. apply (good_grl s all s1 id _ G Hne E).
    intros p L I Hin. cbn [fst snd]. apply inv_rrun; [exact I|now apply H].
  Qed.

  (* ---- the static hosts: the initial state ---- *)
  Lemma static_addrs_plain addrs a : In a (static_addrs addrs) -> plain a.
  Proof.
    unfold static_addrs. intros H. apply (proj1 (nodup_keys_in ap_eqb ap_eqb_eq _ _)) in H. apply in_map_iff in H.
    destruct H as (x & <- & _). unfold plain, ap_addr. cbn [fst]. apply unmap_idem.
  Qed.

  Lemma divmod64 v : v / 18446744073709551616 * 18446744073709551616 + v mod 18446744073709551616 = v.
  Proof. pose proof (N.div_mod v 18446744073709551616). lia. Qed.

  Lemma static_ops_ok vpn addrs p : In vpn p -> Forall (rop_ok c p) (static_ops c vpn addrs).
  Proof.
    intros Hin. unfold static_ops. constructor; [intros a Ha; now apply (static_addrs_plain addrs)|].
    apply Forall_forall. intros o Ho. apply in_flat_map in Ho. destruct Ho as (a & Ha & Ho).
    destruct (should_add c [vpn] (ap_addr a)) eqn:E; [|destruct Ho].
    assert (U : usable c p (ap_addr a)).
    { eapply usable_mono; [apply (adm_usable c [vpn]); [discriminate|exact E]|]. intros y [<-|[]]. exact Hin. }
    pose proof (static_addrs_plain addrs a Ha) as P.
    destruct a as [[[|] v] port]; cbn [ap_fam fst] in Ho; destruct Ho as [<-|[]]; cbn [rop_ok].
    - exact U.
    - unfold ap_val, ap_port, ap_addr, of_v6 in *. cbn [fst snd] in *. rewrite divmod64.
      unfold plain, ap_addr in P. cbn [fst] in P. split; [unfold plain, ap_addr; cbn [fst]; apply unmap_idem|].
      rewrite P. exact U.
  Qed.

  Lemma good_add_static s e : good s -> good (add_static c s e).
  Proof.
    intros G. unfold add_static. destruct (get_remote_list s [fst e]) as [s1 id] eqn:E.
    apply (good_on_list s [fst e] s1 id); [exact G|discriminate|exact E|].
    intros p Hp. apply static_ops_ok. apply Hp. now left.
  Qed.

  Lemma good_init : good (lh_init c).
  Proof.
    unfold lh_init.
    assert (X : forall l s, good s -> good (fold_left (add_static c) l s)).
    { induction l as [|e r IH]; intros s G; cbn [fold_left]; [exact G|]. apply IH, good_add_static, G. }
    apply X. split; intros e [].
  Qed.

  (* ---- one operation ---- *)
  (* roaming sources arrive Unmap()ed from the udp layer *)
  Definition plain_src (o : lop) : Prop := match o with LLearn _ src => plain src | _ => True end.

  Lemma good_lstep s o : good s -> plain_src o -> good (fst (lstep c s o)).
  Proof.
    intros G P. destruct o; cbn [lstep].
    - (* LQueryReply *)
      destruct from as [|f0 fr]; [exact G|]. destruct (details old vpn) as [d|]; [|exact G].
      destruct (any_lighthouse c (f0 :: fr)); [|exact G].
      destruct (get_remote_list s [d]) as [s1 id] eqn:E. cbn [fst].
      apply (good_on_list s [d] s1 id); [exact G|discriminate|exact E|].
      intros p Hp. assert (In d p) by (apply Hp; now left). repeat constructor; assumption.
    - (* LUpdate *)
      destruct from as [|f0 fr]; [exact G|].
      destruct (cfg_am_lh c && match details old vpn with Some d => mem_addr d (f0 :: fr) | None => true end); [|exact G].
      destruct (get_remote_list s (f0 :: fr)) as [s1 id] eqn:E. cbn [fst].
      apply (good_on_list s (f0 :: fr) s1 id); [exact G|discriminate|exact E|].
      intros p Hp. assert (In f0 p) by (apply Hp; now left). repeat constructor; assumption.
    - (* LPunch *)
      destruct (details old vpn); [destruct (any_lighthouse c from)|]; exact G.
    - (* LPunchAll *)
      destruct vpns as [|v0 vr]; [exact G|]. destruct (get_remote_list s (v0 :: vr)) as [s1 id] eqn:E.
      destruct (any_lighthouse c (v0 :: vr)); cbn [fst].
      + apply (good_grl_id s (v0 :: vr) s1 id); [exact G|discriminate|exact E].
      + apply (good_on_list s (v0 :: vr) s1 id); [exact G|discriminate|exact E|]. intros p _. repeat constructor.
    - (* LCalc *)
      destruct (is_static c vpn); [exact G|]. destruct (calc_remotes c vpn) as [l|]; [|exact G].
      destruct (get_remote_list s [vpn]) as [s1 id] eqn:E. cbn [fst].
      destruct l as [|x l]; [apply (good_grl_id s [vpn] s1 id); [exact G|discriminate|exact E]|].
      destruct (fst vpn); apply (good_on_list s [vpn] s1 id); try exact G; try discriminate; try exact E;
        intros p Hp; assert (In vpn p) by (apply Hp; now left); repeat constructor; assumption.
    - (* LDelete *)
      destruct vpns as [|v0 vr]; [exact G|]. destruct (existsb (is_static c) (v0 :: vr)); [exact G|].
      destruct (mget (lh_map s) v0); [|exact G]. cbn [fst]. destruct G as [A B]. split; intros e He; [now apply A|now apply B].
    - (* LLearn *)
      destruct vpns as [|v0 vr]; [exact G|]. destruct (in_my c (ap_addr src)) eqn:Emy; [exact G|].
      destruct (get_remote_list s (v0 :: vr)) as [s1 id] eqn:E.
      destruct (ral_allow_all c (v0 :: vr) (ap_addr src)) eqn:Ea; cbn [fst].
      + apply (good_on_list s (v0 :: vr) s1 id); [exact G|discriminate|exact E|].
        intros p Hp. constructor; [|constructor]. cbn [rop_ok]. split; [exact P|].
        eapply usable_mono; [apply (allow_all_usable c (v0 :: vr)); [discriminate|exact Emy|exact Ea]|exact Hp].
      + apply (good_grl_id s (v0 :: vr) s1 id); [exact G|discriminate|exact E].
    - (* LBlock *)
      destruct (get_remote_list s [vpn]) as [s1 id] eqn:E. cbn [fst].
      apply (good_on_list s [vpn] s1 id); [exact G|discriminate|exact E|]. intros p _. repeat constructor.
    - (* LDone *)
      destruct vpns as [|v0 vr]; [exact G|]. destruct (get_remote_list s (v0 :: vr)) as [s1 id] eqn:E. cbn [fst].
      apply (good_grl s (v0 :: vr) s1 id _ G); [discriminate|exact E|].
      intros p L I Hp. cbn [fst snd]. apply inv_rstep.
      + eapply inv_mono; [exact I|apply incl_appl, incl_refl].
      + cbn [rop_ok]. split; [discriminate|apply incl_appr, incl_refl].
    - (* LCopy *)
      destruct (mget (lh_map s) vpn) as [id|]; [|exact G]. cbn [fst]. unfold on_list.
      apply good_lupd; [exact G|]. intros [p L] I. cbn [fst snd]. apply inv_rrun; [exact I|repeat constructor].
    - (* LHsCheck *) exact G.
  Qed.

  Lemma good_lrun ops : forall s, good s -> Forall plain_src ops -> good (lrun c s ops).
  Proof.
    induction ops as [|o r IH]; intros s G H; cbn [lrun fold_left]; [exact G|].
    inversion H as [|? ? Ho Hr]; subst. apply (IH (fst (lstep c s o))); [now apply good_lstep|assumption].
  Qed.

  Theorem reachable_good ops : Forall plain_src ops -> good (lrun c (lh_init c) ops).
  Proof. intros H. apply good_lrun; [apply good_init|exact H]. Qed.

  (* ---- what the operations show ---- *)
  Lemma punch_filtered from old vpn v4 v6 s s' dst :
    lstep c s (LPunch from old vpn v4 v6) = (s', OPunch dst) ->
    s' = s /\ forall a, In a dst -> exists d, details old vpn = Some d /\ usable c [d] (eff a).
  Proof.
    cbn [lstep]. destruct (details old vpn) as [d|]; [destruct (any_lighthouse c from)|]; intros [= <- <-]; split; try reflexivity; try (intros a []).
    intros a Ha. exists d. split; [reflexivity|]. apply in_app_iff in Ha.
    destruct Ha as [Ha|Ha]; apply filter_In in Ha; destruct Ha as [Hin Hc]; apply in_map_iff in Hin; destruct Hin as (e & <- & _).
    - unfold eff. rewrite (of_v4_plain e). now apply chk_usable.
    - unfold eff. rewrite (of_v6_plain e). now apply chk_usable.
  Qed.

  Lemma punch_all_filtered vpns pref s s' dst :
    good s -> lstep c s (LPunchAll vpns pref) = (s', OPunch dst) ->
    dst = [] \/ exists id r, In (id, r) (lh_lists s') /\ dst = rl_addrs (snd r) /\ rl_dirty (snd r) = false /\
      forall a, In a dst -> usable c (fst r) (eff a) /\ ~ In a (rl_bad (snd r)).
  Proof.
    intros G. cbn [lstep]. destruct vpns as [|v0 vr]; [intros [= <- <-]; now left|].
    destruct (get_remote_list s (v0 :: vr)) as [s1 id] eqn:E.
    destruct (any_lighthouse c (v0 :: vr)); [intros [= <- <-]; now left|].
    intros [= <- <-].
    assert (G2 : good (on_list c s1 id [RRebuild pref])).
    { apply (good_on_list s (v0 :: vr) s1 id); [exact G|discriminate|exact E|]. intros p _. repeat constructor. }
    unfold list_of. destruct (lget (lh_lists (on_list c s1 id [RRebuild pref])) id) as [r|] eqn:L; [|now left].
    right. exists id, r. pose proof (lget_in _ _ _ L) as Hin. split; [exact Hin|]. split; [reflexivity|].
    unfold on_list in L. cbn [lh_lists] in L. rewrite lget_lupd_same in L.
    destruct (lget (lh_lists s1) id) as [r0|]; [|discriminate]. injection L as <-. cbn [fst snd rrun fold_left rstep rebuild rl_dirty].
    split; [reflexivity|]. intros a Ha.
    destruct G2 as [A _]. pose proof (A _ Hin) as I. cbn [snd fst] in I. destruct I as [Ic _].
    split; [apply (i_addrs c _ Ic); exact Ha|].
    destruct (i_bad c _ Ic) as [D|D]; [cbn in D; discriminate|]. apply D. exact Ha.
  Qed.
End Hist.

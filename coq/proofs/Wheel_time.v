(* Lemmas about model/Wheel.v, part 2: histories. When an item fires (exactly), clock disciplines,
   draining, relabelling; the theorems of props/C33.v; a summary of characterising lemmas for clients. *)
From Coq Require Import List ZArith Lia Bool Permutation PreOmega.
Import ListNotations.
From NV Require Import model.Wheel lib.Wheel_lib proofs.Wheel_proofs.
Open Scope Z_scope.

Section WheelTime.
Context {A : Type}.
Implicit Types (w : wheel A) (h : list (op A)) (o : op A).

(* ---- histories: composition -------------------------------------------------------------------- *)

Lemma exec_app h1 : forall h2 w, exec (h1 ++ h2) w = exec h2 (exec h1 w).
Proof. induction h1; intros; cbn [exec app]; auto. Qed.

Lemma outs_app h1 : forall h2 w, outs (h1 ++ h2) w = outs h1 w ++ outs h2 (exec h1 w).
Proof. induction h1 as [|o h1 IH]; intros; cbn [outs exec app]; auto. now rewrite IH, app_assoc. Qed.

Lemma adds_app h1 : forall h2, adds (h1 ++ h2) = adds h1 ++ adds h2.
Proof. induction h1 as [|[]]; intros; cbn [adds app]; auto. now rewrite IHh1. Qed.

Lemma nows_app h1 : forall h2, nows (h1 ++ h2) = nows h1 ++ nows h2.
Proof. induction h1 as [|[]]; intros; cbn [nows app]; auto. now rewrite IHh1. Qed.

Lemma clock_ok_app j h1 : forall m h2,
  clock_ok j m (h1 ++ h2) <-> clock_ok j m h1 /\ clock_ok j (clock_end m h1) h2.
Proof.
  induction h1 as [|[v T|now|] h1 IH]; intros m h2; cbn [clock_ok clock_end app]; try tauto; try apply IH.
  rewrite IH. tauto.
Qed.

Lemma clock_end_app h1 : forall m h2, clock_end m (h1 ++ h2) = clock_end (clock_end m h1) h2.
Proof. induction h1 as [|[]]; intros; cbn [clock_end app]; auto. Qed.

Lemma clock_ok_weaken j j' h : j <= j' -> forall m, clock_ok j m h -> clock_ok j' m h.
Proof.
  intros Hj. induction h as [|[v T|now|] h IH]; intros m; cbn [clock_ok]; auto.
  intros [H1 H2]. split; auto. destruct m; auto. lia.
Qed.

(* a stretch without Advance leaves lastTick, current and the clock alone *)
Lemma no_adv_state h : nows h = [] -> forall w,
  w_last (exec h w) = w_last w /\ w_cur (exec h w) = w_cur w.
Proof.
  induction h as [|[v T|now|] h IH]; cbn [nows exec step]; intros H w; try discriminate; auto.
  - destruct (IH H (add v T w)) as [-> ->]. unfold add. fields. auto.
  - destruct (IH H (snd (purge w))) as [-> ->]. unfold purge. destruct (w_exp w); cbn [snd]; fields; auto.
Qed.

Lemma no_adv_clock h : nows h = [] -> forall m, clock_end m h = m.
Proof. induction h as [|[v T|now|] h IH]; cbn [nows clock_end]; intros H m; try discriminate; auto. Qed.

(* ---- expired items only leave through Purge ---------------------------------------------------- *)

Lemma exp_flow h : forall w x, In x (w_exp w) -> In x (outs h w ++ w_exp (exec h w)).
Proof.
  induction h as [|[v T|now|] h IH]; intros w x Hx; cbn [outs exec step step_out app].
  - exact Hx.
  - apply IH. exact Hx.
  - apply IH. apply advance_exp_incl, Hx.
  - unfold purge in *. destruct (w_exp w) as [|y r] eqn:E; cbn [fst snd app].
    + apply IH. rewrite E. exact Hx.
    + destruct Hx as [->|Hx]; [left; reflexivity|]. right. apply IH. exact Hx.
Qed.

(* ---- when a waiting item fires ------------------------------------------------------------------
   [adv_ok w h]: no Advance of h is handed an instant a full tick or more behind lastTick. *)

Fixpoint adv_ok w h : Prop :=
  match h with
  | [] => True
  | o :: h' =>
      match o, w_last w with
      | OAdvance now, Some L => L - w_tick w < now
      | _, _ => True
      end /\ adv_ok (step o w) h'
  end.

Lemma add_slot_in v T w s x : In x (slot_at w s) -> In x (slot_at (add v T w) s).
Proof.
  unfold slot_at, add. fields. intros H.
  destruct (Nat.eq_dec (Z.to_nat (find_wheel w T)) (Z.to_nat s)) as [E|E].
  - rewrite E. destruct (Nat.lt_ge_cases (Z.to_nat s) (length (w_slots w))) as [Hl|Hl].
    + rewrite nth_upd_nth_eq by exact Hl. apply in_or_app. auto.
    + rewrite nth_overflow in H by exact Hl. destruct H.
  - rewrite nth_upd_nth_neq by exact E. exact H.
Qed.

Lemma add_slot_new v T w : wf w -> In v (slot_at (add v T w) (find_wheel w T)).
Proof.
  intros Hwf. destruct (find_wheel_ok w T Hwf) as [Hi _]. destruct Hwf as (_ & _ & _ & Hs & _).
  unfold slot_at, add. fields. rewrite nth_upd_nth_eq by lia. apply in_or_app. right. left. reflexivity.
Qed.

(* the core: an item sitting in slot s fires at the first Advance that reaches F = lastTick + rem_ticks s * tick *)
Lemma slot_wait h : forall w L s x,
  wf w -> w_last w = Some L -> 0 <= s < w_len w -> In x (slot_at w s) -> adv_ok w h ->
  let F := L + rem_ticks w s * w_tick w in
  ((forall now, In now (nows h) -> now < F) -> In x (slot_at (exec h w) s)) /\
  ((exists now, In now (nows h) /\ F <= now) -> In x (outs h w ++ w_exp (exec h w))).
Proof.
  induction h as [|o h IH]; intros w L s x Hwf HL Hs Hx Hok F.
  - cbn [nows exec outs]. split; [auto|]. intros (now & [] & _).
  - destruct Hok as [Hok1 Hok].
    destruct o as [v T|now|]; cbn [nows exec outs step step_out app] in *.
    + assert (HF : F = L + rem_ticks (add v T w) s * w_tick (add v T w)) by reflexivity.
      rewrite HF. apply IH; auto using wf_add, add_slot_in.
    + rewrite HL in Hok1.
      destruct (advance_slot w now L s Hwf HL Hok1 Hs) as [Hlt Hge].
      destruct (Z_lt_le_dec now F) as [Hn|Hn].
      * destruct (Hlt Hn) as (E1 & L' & E2 & E3).
        assert (Hs' : 0 <= s < w_len (advance now w)) by (destruct (step_fields (OAdvance now) w) as (_ & _ & Hl); cbn [step] in Hl; lia).
        assert (Ht : w_tick (advance now w) = w_tick w) by (destruct (step_fields (OAdvance now) w) as (Hl & _); exact Hl).
        destruct (IH (advance now w) L' s x (wf_advance now w Hwf) E2 Hs' ltac:(rewrite E1; exact Hx) Hok) as [I1 I2].
        rewrite Ht, E3 in I1, I2. fold F in I1, I2. split.
        -- intros Hall. apply I1. intros n' Hn'. apply Hall. right. exact Hn'.
        -- intros (n' & [<-|Hn'] & Hle); [lia|]. apply I2. exists n'. auto.
      * destruct (Hge Hn) as (E1 & E2). split.
        -- intros Hall. specialize (Hall now (or_introl eq_refl)). lia.
        -- intros _. apply exp_flow. apply E2. exact Hx.
    + assert (Hw' : wf (snd (purge w))) by (apply wf_purge; exact Hwf).
      assert (E : w_last (snd (purge w)) = w_last w /\ slot_at (snd (purge w)) s = slot_at w s /\
                  rem_ticks (snd (purge w)) s = rem_ticks w s /\ w_tick (snd (purge w)) = w_tick w /\
                  w_len (snd (purge w)) = w_len w)
        by (unfold purge; destruct (w_exp w); cbn [snd]; repeat split; reflexivity).
      destruct E as (E1 & E2 & E3 & E4 & E5).
      destruct (IH (snd (purge w)) L s x Hw' ltac:(rewrite E1; exact HL) ltac:(rewrite E5; exact Hs)
                   ltac:(rewrite E2; exact Hx) Hok) as [I1 I2].
      rewrite E3, E4 in I1, I2. split; [exact I1|].
      intros Hex. rewrite <- app_assoc. apply in_or_app. right. apply I2. exact Hex.
Qed.

(* Add v T on a wheel whose lastTick is t: v fires exactly at the first Advance reaching t + (n+1)*tick *)
Lemma add_fires w t v T h : wf w -> w_last w = Some t -> adv_ok (add v T w) h ->
  let F := t + (nticks w T + 1) * w_tick w in
  ((forall now, In now (nows h) -> now < F) -> In v (waiting (exec h (add v T w)))) /\
  ((exists now, In now (nows h) /\ F <= now) -> In v (outs h (add v T w) ++ w_exp (exec h (add v T w)))).
Proof.
  intros Hwf HL Hok F.
  destruct (find_wheel_ok w T Hwf) as [Hi Hr].
  pose proof (slot_wait h (add v T w) t (find_wheel w T) v (wf_add v T w Hwf) HL Hi (add_slot_new v T w Hwf) Hok) as H.
  change (rem_ticks (add v T w) (find_wheel w T)) with (rem_ticks w (find_wheel w T)) in H.
  change (w_tick (add v T w)) with (w_tick w) in H. rewrite Hr in H. fold F in H.
  destruct H as [H1 H2]. split; [|exact H2].
  intros Hall. unfold waiting. eapply in_concat_nth. exact (H1 Hall).
Qed.

(* ---- clock disciplines imply adv_ok -------------------------------------------------------------- *)

Definition cinv w (m : option Z) : Prop :=
  match w_last w with
  | None => True
  | Some L => match m with Some mm => L <= mm | None => False end
  end.

Lemma advance_clock j w m c : wf w -> 1 <= j <= w_tick w -> cinv w m ->
  match m with Some mm => mm - j < c | None => True end ->
  match w_last w with Some L => L - w_tick w < c | None => True end /\
  cinv (advance c w) (clock_max m c) /\
  exists t, w_last (advance c w) = Some t /\ t <= c + (j - 1) /\ c < t + w_tick w.
Proof.
  intros Hwf Hj Hinv Hc. assert (Ht : 0 < w_tick w) by apply Hwf.
  unfold cinv in *. rewrite advance_last. unfold clock_max.
  destruct (w_last w) as [L|].
  - destruct m as [mm|]; [|contradiction].
    pose proof (quot_mul_bounds (c - L) (w_tick w) Ht) as Hb.
    destruct (Z_lt_le_dec c L) as [Hlt|Hge].
    + rewrite (quot_small_neg (c - L) (w_tick w)) in * by lia.
      split; [lia|]. split; [lia|]. eexists; split; [reflexivity|]. lia.
    + pose proof (quot_mul_le (c - L) (w_tick w) Ht ltac:(lia)).
      split; [lia|]. split; [lia|]. eexists; split; [reflexivity|]. lia.
  - rewrite Z.sub_diag, Z.quot_0_l by lia. split; [auto|]. split.
    + destruct m; lia.
    + eexists; split; [reflexivity|]. lia.
Qed.

Lemma clock_adv_ok j h : forall w m, wf w -> 1 <= j <= w_tick w -> cinv w m -> clock_ok j m h ->
  adv_ok w h /\ cinv (exec h w) (clock_end m h).
Proof.
  induction h as [|o h IH]; intros w m Hwf Hj Hinv Hok.
  - cbn. auto.
  - destruct (step_fields o w) as (Ht & _).
    destruct o as [v T|now|]; cbn [adv_ok exec clock_ok clock_end step] in *.
    + destruct (IH (add v T w) m (wf_add v T w Hwf) ltac:(rewrite Ht; exact Hj) Hinv Hok). auto.
    + destruct Hok as [Hok1 Hok2].
      destruct (advance_clock j w m now Hwf Hj Hinv Hok1) as (H1 & H2 & _).
      destruct (IH (advance now w) (clock_max m now) (wf_advance now w Hwf) ltac:(rewrite Ht; exact Hj) H2 Hok2).
      split; [split|]; auto.
    + assert (Hinv' : cinv (snd (purge w)) m) by (unfold purge; destruct (w_exp w); exact Hinv).
      destruct (IH (snd (purge w)) m (wf_purge w Hwf) ltac:(rewrite Ht; exact Hj) Hinv' Hok). auto.
Qed.

(* ---- draining ------------------------------------------------------------------------------------ *)

Lemma drain m : forall w, (length (w_exp w) <= m)%nat ->
  outs (repeat OPurge m) w = w_exp w /\ w_exp (exec (repeat OPurge m) w) = [] /\
  w_slots (exec (repeat OPurge m) w) = w_slots w.
Proof.
  induction m as [|m IH]; intros w Hl; cbn [repeat outs exec step step_out].
  - destruct (w_exp w); [auto|cbn in Hl; lia].
  - unfold purge. destruct (w_exp w) as [|x r] eqn:E; cbn [fst snd app].
    + destruct (IH w ltac:(rewrite E; cbn; lia)) as (I1 & I2 & I3). rewrite E in I1. auto.
    + destruct (IH (set_exp w r) ltac:(cbn in *; lia)) as (I1 & I2 & I3). fields. rewrite I1. auto.
Qed.

(* an Advance reaching lastTick + wheelLen * tick flushes every slot, whatever the clock did before *)
Lemma advance_flush_all w L now : wf w -> w_last w = Some L -> L + w_len w * w_tick w <= now ->
  waiting (advance now w) = [].
Proof.
  intros Hwf HL Hnow. assert (Ht : 0 < w_tick w) by apply Hwf. pose proof (wf_len_ge2 w Hwf) as Hl2.
  unfold waiting. apply concat_nil_nth. intros n Hn.
  pose proof (wf_advance now w Hwf) as Hwf'.
  destruct (step_fields (OAdvance now) w) as (_ & _ & Hlen). cbn [step] in Hlen.
  assert (Hs : 0 <= Z.of_nat n < w_len w) by (destruct Hwf' as (_ & _ & _ & Hs' & _); lia).
  destruct (advance_slot w now L (Z.of_nat n) Hwf HL ltac:(nia) Hs) as [_ Hge].
  pose proof (rem_ticks_range w (Z.of_nat n) Hwf Hs) as Hr.
  destruct Hge as [E _]; [nia|]. unfold slot_at in E. rewrite Nat2Z.id in E. exact E.
Qed.

(* after any Advance the new lastTick is within one tick of the instant handed in *)
Lemma advance_last_near w a : wf w ->
  exists t, w_last (advance a w) = Some t /\ t - w_tick w < a < t + w_tick w.
Proof.
  intros Hwf. assert (Ht : 0 < w_tick w) by apply Hwf. rewrite advance_last.
  eexists; split; [reflexivity|].
  destruct (w_last w) as [L|].
  - pose proof (quot_mul_bounds (a - L) (w_tick w) Ht). lia.
  - rewrite Z.sub_diag, Z.quot_0_l by lia. lia.
Qed.

End WheelTime.

(* ---- relabelling: the wheel is parametric in its items ------------------------------------------- *)

Section Relabel.
Context {A B : Type} (f : A -> B).

Lemma map_wheel_add v T (w : wheel A) : map_wheel f (add v T w) = add (f v) T (map_wheel f w).
Proof.
  unfold add, map_wheel, set_slots, find_wheel, nticks, clamp. fields. f_equal.
  apply upd_nth_map. intros x. now rewrite map_app.
Qed.

Lemma map_wheel_tick1 (w : wheel A) : map_wheel f (tick1 w) = tick1 (map_wheel f w).
Proof.
  unfold tick1, map_wheel, slot_at. fields. f_equal.
  - apply upd_nth_map. reflexivity.
  - rewrite map_app. f_equal. change (@nil B) with (map f (@nil A)). now rewrite map_nth.
Qed.

Lemma map_wheel_iter j (w : wheel A) : map_wheel f (Nat.iter j tick1 w) = Nat.iter j tick1 (map_wheel f w).
Proof.
  induction j as [|j IH]; [reflexivity|].
  change (Nat.iter (S j) tick1 w) with (tick1 (Nat.iter j tick1 w)).
  change (Nat.iter (S j) tick1 (map_wheel f w)) with (tick1 (Nat.iter j tick1 (map_wheel f w))).
  now rewrite map_wheel_tick1, IH.
Qed.

Lemma map_wheel_advance now (w : wheel A) : map_wheel f (advance now w) = advance now (map_wheel f w).
Proof.
  unfold advance.
  change (w_last (map_wheel f w)) with (w_last w). change (w_tick (map_wheel f w)) with (w_tick w).
  change (w_len (map_wheel f w)) with (w_len w).
  rewrite <- map_wheel_iter. reflexivity.
Qed.

Lemma map_wheel_purge (w : wheel A) :
  fst (purge (map_wheel f w)) = option_map f (fst (purge w)) /\
  snd (purge (map_wheel f w)) = map_wheel f (snd (purge w)).
Proof. unfold purge, map_wheel, set_exp. fields. destruct (w_exp w) eqn:E; cbn [map fst snd option_map]; fields; rewrite ?E; split; reflexivity. Qed.

Lemma map_wheel_step o (w : wheel A) :
  step (map_op f o) (map_wheel f w) = map_wheel f (step o w) /\
  step_out (map_op f o) (map_wheel f w) = map f (step_out o w).
Proof.
  destruct o as [v T|now|]; cbn [step step_out map_op map].
  - now rewrite map_wheel_add.
  - now rewrite map_wheel_advance.
  - destruct (map_wheel_purge w) as [E1 E2]. rewrite E1, E2. split; auto. destruct (fst (purge w)); reflexivity.
Qed.

Lemma exec_map h : forall w : wheel A, exec (map (map_op f) h) (map_wheel f w) = map_wheel f (exec h w).
Proof.
  induction h as [|o h IH]; intros w; cbn [exec map]; auto.
  destruct (map_wheel_step o w) as [-> _]. apply IH.
Qed.

Lemma outs_map h : forall w : wheel A, outs (map (map_op f) h) (map_wheel f w) = map f (outs h w).
Proof.
  induction h as [|o h IH]; intros w; cbn [outs map]; auto.
  destruct (map_wheel_step o w) as [-> ->]. now rewrite IH, map_app.
Qed.

Lemma map_wheel_init mn mx : map_wheel f (@init A mn mx) = @init B mn mx.
Proof.
  unfold init, map_wheel. fields. f_equal.
  induction (Z.to_nat (wheel_len mn mx)) as [|n IH]; cbn [repeat map]; [reflexivity|now rewrite IH].
Qed.

End Relabel.

Lemma label_erase {A} (h : list (op A)) : forall i, map (map_op snd) (label i h) = h.
Proof. induction h as [|[v T|now|] h IH]; intros i; cbn [label map map_op snd]; now rewrite ?IH. Qed.

Lemma label_adds_ge {A} (h : list (op A)) : forall i p, In p (adds (label i h)) -> (i <= fst p)%nat.
Proof.
  induction h as [|[v T|now|] h IH]; intros i p; cbn [label adds]; try (now intros []); auto.
  intros [<-|H]; [cbn; lia|]. apply IH in H. lia.
Qed.

Lemma label_NoDup {A} (h : list (op A)) : forall i, NoDup (adds (label i h)).
Proof.
  induction h as [|[v T|now|] h IH]; intros i; cbn [label adds]; auto; [constructor|].
  constructor; [|apply IH]. intros H. apply label_adds_ge in H. cbn in H. lia.
Qed.

Lemma label_nows {A} (h : list (op A)) : forall i, nows (label i h) = nows h.
Proof. induction h as [|[v T|now|] h IH]; intros i; cbn [label nows]; now rewrite ?IH. Qed.

(* Segment_main: the statements of props/C24.v, for the segments [segment_tcp] / [segment_udp] yield on
   well-formed superpackets (through Segment_ref: they are the reference segments; through Segment_props: what
   a reference segment looks like). *)
From Coq Require Import List NArith ZArith Bool Arith Lia ZifyN ZifyNat ZifyBool.
Import ListNotations.
From NV Require Import lib.Bytes lib.Ones model.Segment proofs.Segment_buf proofs.Segment_arith proofs.Segment_geom
  proofs.Segment_ref proofs.Segment_props.
Open Scope N_scope.
Local Ltac Zify.zify_post_hook ::= Z.div_mod_to_equations.

Lemma nth_map_seq {A} (f : nat -> A) n i d : (i < n)%nat -> nth i (map f (seq 0 n)) d = f i.
Proof.
  intros H. rewrite (nth_indep _ d (f 0%nat)) by (rewrite map_length, seq_length; lia).
  rewrite map_nth. rewrite seq_nth by lia. reflexivity.
Qed.

Lemma firstn_seq_0 i n : (i <= n)%nat -> firstn i (seq 0 n) = seq 0 i.
Proof.
  intros H. replace n with (i + (n - i))%nat by lia. rewrite seq_app.
  rewrite firstn_app, seq_length, Nat.sub_diag. cbn [firstn]. rewrite app_nil_r.
  apply firstn_all2. rewrite seq_length. lia.
Qed.

(* ---- the common shape ---- *)

Theorem segment_l4_ref tcp pkt hl cs g :
  wf_l4 tcp pkt hl cs g -> segment_l4 tcp pkt hl cs g = Some (segments_ref tcp pkt hl cs g).
Proof. destruct tcp; [apply segment_tcp_ref|apply segment_udp_ref]. Qed.

Lemma wf_l4_common tcp pkt hl cs g : wf_l4 tcp pkt hl cs g ->
  wf_common pkt hl cs g /\ (cs + 8 <= hl)%nat /\
  (tcp = true -> (20 <= hl - cs)%nat /\ Nat.even (hl - cs) = true) /\ (tcp = false -> hl = (cs + 8)%nat).
Proof.
  destruct tcp; cbn [wf_l4].
  - intros [W [H20 Hhl]]. split; [exact W|]. split; [lia|]. split; [|discriminate].
    intros _. replace (hl - cs)%nat with (tcp_hdr_len pkt cs) by lia. split; [exact H20|].
    unfold tcp_hdr_len. apply even_mul4.
  - intros [W Hhl]. split; [exact W|]. split; [lia|]. split; [discriminate|]. intros _. exact Hhl.
Qed.

(* segment i of the reference, for either protocol *)
Definition ref_seg (tcp : bool) (pkt : list N) (hl cs g i : nat) : list N :=
  let payload := skipn hl pkt in
  if tcp then ref_tcp_seg (is_v4 pkt) (firstn cs pkt) (sub pkt cs hl) (seg_count (length payload) g) i (i * g)
                          (chunk_ref payload g i)
  else ref_udp_seg (is_v4 pkt) (firstn cs pkt) (sub pkt cs hl) i (chunk_ref payload g i).

Lemma segments_ref_nth tcp pkt hl cs g i : (i < seg_count (length (skipn hl pkt)) g)%nat ->
  nth i (segments_ref tcp pkt hl cs g) [] = ref_seg tcp pkt hl cs g i.
Proof.
  intros H. unfold segments_ref, segments_ref_tcp, segments_ref_udp, ref_seg.
  destruct tcp; cbv zeta; rewrite nth_map_seq by exact H; reflexivity.
Qed.

Lemma segments_ref_length tcp pkt hl cs g :
  length (segments_ref tcp pkt hl cs g) = seg_count (length (skipn hl pkt)) g.
Proof.
  unfold segments_ref, segments_ref_tcp, segments_ref_udp.
  destruct tcp; cbv zeta; rewrite map_length, seq_length; reflexivity.
Qed.

(* the facts about segment i that do not depend on the protocol *)
Lemma ref_seg_common tcp pkt hl cs g i :
  wf_l4 tcp pkt hl cs g -> (i < seg_count (length (skipn hl pkt)) g)%nat ->
  let s := ref_seg tcp pkt hl cs g i in
  let chunk := chunk_ref (skipn hl pkt) g i in
  length s = (hl + length chunk)%nat /\ skipn hl s = chunk /\
  l3_ok (is_v4 pkt) (firstn cs pkt) s i /\
  valid_csum (pseudo_hdr (is_v4 pkt) s (l4_proto tcp) (N.of_nat (length s - cs)) ++ skipn cs s) /\
  (forall k, (k < hl)%nat -> rewritten tcp (is_v4 pkt) cs k = false -> bat s k = bat pkt k).
Proof.
  intros WF Hi s chunk.
  destruct (wf_l4_common _ _ _ _ _ WF) as (W & Hcs & Ht & Hu).
  destruct (wf_common_facts _ _ _ _ W) as (Hok & Hg & Hlen & H120 & Hfit & Hmin & H4 & H6).
  pose proof (seg_len_bound pkt hl g i Hfit) as Hsl. fold chunk in Hsl.
  set (iph := firstn cs pkt). set (l4h := sub pkt cs hl).
  assert (Liph : length iph = cs) by (unfold iph; rewrite firstn_length; lia).
  assert (Ll4 : length l4h = (hl - cs)%nat) by (unfold l4h; rewrite sub_length; lia).
  assert (Ok4 : bytes_ok l4h = true) by (apply bytes_ok_sub; exact Hok).
  assert (Hihl : is_v4 pkt = true -> (20 <= ihl_of iph <= length iph)%nat).
  { intros E. destruct (H4 E) as [_ Hi4]. unfold iph. rewrite ihl_firstn by lia. rewrite firstn_length. lia. }
  assert (Hhdr : forall k, (k < hl)%nat -> bat (iph ++ l4h) k = bat pkt k).
  { intros k Hk. destruct (Nat.lt_ge_cases k cs) as [Hkc|Hkc].
    - rewrite bat_app_l by lia. unfold iph. apply bat_firstn. exact Hkc.
    - assert (E : exists d, k = (length iph + d)%nat) by (exists (k - cs)%nat; lia). destruct E as [d ->].
      rewrite bat_app_r. unfold l4h. rewrite bat_sub by lia. f_equal. lia. }
  unfold s, ref_seg. cbv zeta. fold iph l4h chunk. destruct tcp; cbn [l4_proto].
  - destruct (Ht eq_refl) as [H20 Hev].
    destruct (ref_tcp_seg_props (is_v4 pkt) iph l4h (seg_count (length (skipn hl pkt)) g) i (i * g) chunk
                Ok4 ltac:(lia) Hihl ltac:(lia) ltac:(rewrite Ll4; exact Hev) ltac:(lia)) as (L & Sk & L3 & V & _ & _ & Cp).
    rewrite Liph, Ll4 in *. replace (cs + (hl - cs))%nat with hl in * by lia.
    split; [exact L|]. split; [exact Sk|]. split; [exact L3|]. split; [exact V|].
    intros k Hk Hr. rewrite <- Hhdr by exact Hk. apply Cp; assumption.
  - specialize (Hu eq_refl).
    destruct (ref_udp_seg_props (is_v4 pkt) iph l4h i chunk ltac:(lia) Hihl ltac:(lia) ltac:(lia)) as (L & Sk & L3 & V & _ & _ & _ & Cp).
    rewrite Liph in *. replace (cs + 8)%nat with hl in * by lia.
    split; [exact L|]. split; [exact Sk|]. split; [exact L3|]. split; [exact V|].
    intros k Hk Hr. rewrite <- Hhdr by exact Hk. apply Cp; assumption.
Qed.

(* ---- protocol-specific fields of segment i ---- *)

Lemma testbit_128 bit : N.testbit 128 bit = (bit =? 7).
Proof. change 128 with (2 ^ 7). rewrite N.pow2_bits_eqb. apply N.eqb_sym. Qed.

Lemma testbit_9 bit : N.testbit 9 bit = (bit =? 0) || (bit =? 3).
Proof.
  destruct (N.lt_ge_cases bit 4) as [H|H].
  - assert (E : bit = 0 \/ bit = 1 \/ bit = 2 \/ bit = 3) by lia.
    destruct E as [->|[->|[->| ->]]]; reflexivity.
  - rewrite N.bits_above_log2 by (change (N.log2 9) with 3; lia).
    destruct (N.eqb_spec bit 0); [lia|]. destruct (N.eqb_spec bit 3); [lia|]. reflexivity.
Qed.

Lemma tcp_flags_bits f i n bit : N.testbit (tcp_flags f i n) bit = N.testbit f bit && flag_kept bit i n.
Proof.
  unfold tcp_flags, flag_kept.
  destruct (i =? 0)%nat, (i =? n - 1)%nat; rewrite ?N.ldiff_spec, ?testbit_128, ?testbit_9;
    destruct (N.eqb_spec bit 7) as [->|H7]; cbn [negb andb orb]; rewrite ?andb_true_r, ?andb_false_r;
    try reflexivity;
    destruct (N.eqb_spec bit 0); destruct (N.eqb_spec bit 3); cbn [negb andb orb];
    rewrite ?andb_true_r, ?andb_false_r; try reflexivity; lia.
Qed.

Lemma ref_seg_tcp_fields pkt hl cs g i :
  wf_tcp pkt hl cs g -> (i < seg_count (length (skipn hl pkt)) g)%nat ->
  let s := ref_seg true pkt hl cs g i in
  rd32 s (cs + 4) = (rd32 pkt (cs + 4) + N.of_nat (i * g)) mod 4294967296 /\
  forall bit, N.testbit (bat s (cs + 13)) bit =
              N.testbit (bat pkt (cs + 13)) bit && flag_kept bit i (seg_count (length (skipn hl pkt)) g).
Proof.
  intros WF Hi s.
  destruct (wf_l4_common true _ _ _ _ WF) as (W & Hcs & Ht & _). destruct (Ht eq_refl) as [H20 Hev].
  destruct (wf_common_facts _ _ _ _ W) as (Hok & Hg & Hlen & H120 & Hfit & Hmin & H4 & H6).
  pose proof (seg_len_bound pkt hl g i Hfit) as Hsl.
  set (iph := firstn cs pkt). set (l4h := sub pkt cs hl).
  assert (Liph : length iph = cs) by (unfold iph; rewrite firstn_length; lia).
  assert (Ll4 : length l4h = (hl - cs)%nat) by (unfold l4h; rewrite sub_length; lia).
  assert (Ok4 : bytes_ok l4h = true) by (apply bytes_ok_sub; exact Hok).
  assert (Hihl : is_v4 pkt = true -> (20 <= ihl_of iph <= length iph)%nat).
  { intros E. destruct (H4 E) as [_ Hi4]. unfold iph. rewrite ihl_firstn by lia. rewrite firstn_length. lia. }
  unfold s, ref_seg. cbv zeta. fold iph l4h.
  destruct (ref_tcp_seg_props (is_v4 pkt) iph l4h (seg_count (length (skipn hl pkt)) g) i (i * g)
              (chunk_ref (skipn hl pkt) g i)
              Ok4 ltac:(lia) Hihl ltac:(lia) ltac:(rewrite Ll4; exact Hev) ltac:(lia)) as (_ & _ & _ & _ & Sq & Fl & _).
  rewrite Liph in Sq, Fl. split.
  - rewrite Sq. unfold l4h. rewrite rd32_sub by lia. reflexivity.
  - intros bit. rewrite Fl. unfold l4h. rewrite bat_sub by lia. apply tcp_flags_bits.
Qed.

Lemma ref_seg_udp_fields pkt hl cs g i :
  wf_udp pkt hl cs g -> (i < seg_count (length (skipn hl pkt)) g)%nat ->
  let s := ref_seg false pkt hl cs g i in
  rd16 s (cs + 4) = N.of_nat (length s - cs) /\
  rd16 s (cs + 6) <> 0 /\
  (let c := csum16 (pseudo_hdr (is_v4 pkt) s IPPROTO_UDP (N.of_nat (length s - cs)) ++ wr16 (skipn cs s) 6 0) 0 in
   rd16 s (cs + 6) = if c =? 0 then 65535 else c).
Proof.
  intros WF Hi s.
  destruct (wf_l4_common false _ _ _ _ WF) as (W & Hcs & _ & Hu). specialize (Hu eq_refl).
  destruct (wf_common_facts _ _ _ _ W) as (Hok & Hg & Hlen & H120 & Hfit & Hmin & H4 & H6).
  pose proof (seg_len_bound pkt hl g i Hfit) as Hsl.
  set (iph := firstn cs pkt). set (l4h := sub pkt cs hl).
  assert (Liph : length iph = cs) by (unfold iph; rewrite firstn_length; lia).
  assert (Ll4 : length l4h = 8%nat) by (unfold l4h; rewrite sub_length; lia).
  assert (Hihl : is_v4 pkt = true -> (20 <= ihl_of iph <= length iph)%nat).
  { intros E. destruct (H4 E) as [_ Hi4]. unfold iph. rewrite ihl_firstn by lia. rewrite firstn_length. lia. }
  unfold s, ref_seg. cbv zeta. fold iph l4h.
  destruct (ref_udp_seg_props (is_v4 pkt) iph l4h i (chunk_ref (skipn hl pkt) g i) ltac:(lia) Hihl Ll4 ltac:(lia))
    as (_ & _ & _ & _ & Ln & Nz & Cz & _).
  rewrite Liph in Ln, Nz, Cz. split; [exact Ln|]. split; [exact Nz|exact Cz].
Qed.

(* ---------------------------------------------------------------------------------------------- *)
(** * the theorems *)

Section Main.
Variables (tcp : bool) (pkt : list N) (hl cs g : nat) (segs : list (list N)).
Hypothesis WF : wf_l4 tcp pkt hl cs g.
Hypothesis SEG : segment_l4 tcp pkt hl cs g = Some segs.

Let payload := skipn hl pkt.
Let n := seg_count (length payload) g.

Lemma segs_are_ref : segs = segments_ref tcp pkt hl cs g.
Proof. pose proof (segment_l4_ref tcp pkt hl cs g WF) as E. rewrite SEG in E. injection E as ->. reflexivity. Qed.

Lemma segs_length : length segs = n.
Proof. rewrite segs_are_ref. apply segments_ref_length. Qed.

Lemma segs_nth i : (i < length segs)%nat -> nth i segs [] = ref_seg tcp pkt hl cs g i.
Proof. intros H. rewrite segs_length in H. rewrite segs_are_ref. apply segments_ref_nth. exact H. Qed.

Lemma g_pos : (1 <= g)%nat.
Proof.
  destruct (wf_l4_common _ _ _ _ _ WF) as (W & _). destruct (wf_common_facts _ _ _ _ W) as (_ & Hg & _). exact Hg.
Qed.

Lemma segs_payloads : map (skipn hl) segs = map (chunk_ref payload g) (seq 0 n).
Proof.
  rewrite segs_are_ref. unfold segments_ref, segments_ref_tcp, segments_ref_udp.
  destruct tcp; cbv zeta; rewrite map_map; apply map_ext_in; intros i Hin; apply in_seq in Hin;
    unfold n, payload in Hin;
    [ pose proof (ref_seg_common true pkt hl cs g i WF ltac:(lia)) as R
    | pose proof (ref_seg_common false pkt hl cs g i WF ltac:(lia)) as R ];
    cbv zeta in R; destruct R as (_ & R & _); exact R.
Qed.

Lemma prefix_len i : (i < n)%nat -> length (concat (map (chunk_ref payload g) (seq 0 i))) = (i * g)%nat.
Proof.
  induction i as [|i IH]; intros Hi; [reflexivity|].
  rewrite seq_S, map_app, concat_app, app_length, IH by lia. cbn [map concat Nat.add]. rewrite app_nil_r.
  rewrite chunk_full by (try apply g_pos; fold n; lia). lia.
Qed.

Theorem payload_thm :
  length segs = seg_count (length (skipn hl pkt)) g /\ (1 <= length segs)%nat /\
  concat (map (skipn hl) segs) = skipn hl pkt /\
  forall i, (i < length segs)%nat ->
    let s := nth i segs [] in
    (hl <= length s)%nat /\
    skipn hl s = chunk_ref (skipn hl pkt) g i /\
    (length s - hl <= g)%nat /\
    ((i + 1 < length segs)%nat -> length s = (hl + g)%nat) /\
    ((0 < length (skipn hl pkt))%nat -> (hl < length s)%nat) /\
    length (concat (map (skipn hl) (firstn i segs))) = (i * g)%nat.
Proof.
  pose proof g_pos as Hg.
  split; [exact segs_length|]. split; [rewrite segs_length; apply seg_count_pos; exact Hg|].
  split; [rewrite segs_payloads; apply concat_chunks_count; exact Hg|].
  intros i Hi s. pose proof Hi as Hi'. rewrite segs_length in Hi'.
  pose proof (ref_seg_common tcp pkt hl cs g i WF Hi') as R. cbv zeta in R.
  destruct R as (L & Sk & _). unfold s. rewrite segs_nth by exact Hi.
  rewrite L. fold payload.
  split; [lia|]. split; [exact Sk|]. split; [pose proof (chunk_le payload g i); lia|].
  split; [|split].
  - intros Hn. rewrite chunk_full by (try exact Hg; fold n; rewrite <- segs_length; lia). reflexivity.
  - intros Hp. pose proof (chunk_last_nonempty payload g i Hg Hi' Hp). lia.
  - rewrite <- firstn_map, segs_payloads.
    rewrite firstn_map. rewrite firstn_seq_0 by (fold n in Hi'; lia). apply prefix_len. exact Hi'.
Qed.

Theorem l3_thm i : (i < length segs)%nat ->
  let s := nth i segs [] in
  bat s 0 = bat pkt 0 /\
  (is_v4 pkt = true ->
     rd16 s 2 = N.of_nat (length s) /\ rd16 s 4 = (rd16 pkt 4 + N.of_nat i) mod 65536 /\
     valid_csum (firstn (ihl_of s) s)) /\
  (is_v4 pkt = false -> rd16 s 4 = N.of_nat (length s - 40)).
Proof.
  intros Hi s. pose proof Hi as Hi'. rewrite segs_length in Hi'.
  pose proof (ref_seg_common tcp pkt hl cs g i WF Hi') as R. cbv zeta in R.
  destruct R as (_ & _ & (B0 & V4 & V6) & _). unfold s. rewrite segs_nth by exact Hi.
  destruct (wf_l4_common _ _ _ _ _ WF) as (W & _).
  destruct (wf_common_facts _ _ _ _ W) as (_ & _ & _ & _ & _ & Hmin & _).
  assert (Hcs : (6 <= cs)%nat) by (destruct (is_v4 pkt); cbn [min_l3] in Hmin; lia).
  rewrite bat_firstn in B0 by lia. rewrite rd16_firstn in V4 by lia.
  split; [exact B0|]. split; [exact V4|exact V6].
Qed.

Theorem l4_thm i : (i < length segs)%nat ->
  let s := nth i segs [] in
  valid_csum (pseudo_hdr (is_v4 pkt) s (l4_proto tcp) (N.of_nat (length s - cs)) ++ skipn cs s).
Proof.
  intros Hi s. pose proof Hi as Hi'. rewrite segs_length in Hi'.
  pose proof (ref_seg_common tcp pkt hl cs g i WF Hi') as R. cbv zeta in R.
  destruct R as (_ & _ & _ & V & _). unfold s. rewrite segs_nth by exact Hi. exact V.
Qed.

Theorem copied_thm i k : (i < length segs)%nat -> (k < hl)%nat -> rewritten tcp (is_v4 pkt) cs k = false ->
  bat (nth i segs []) k = bat pkt k.
Proof.
  intros Hi Hk Hr. pose proof Hi as Hi'. rewrite segs_length in Hi'.
  pose proof (ref_seg_common tcp pkt hl cs g i WF Hi') as R. cbv zeta in R.
  destruct R as (_ & _ & _ & _ & C). rewrite segs_nth by exact Hi. apply C; assumption.
Qed.

End Main.

Theorem tcp_fields_thm pkt hl cs g segs i :
  wf_tcp pkt hl cs g -> segment_tcp pkt hl cs g = Some segs -> (i < length segs)%nat ->
  let s := nth i segs [] in
  rd32 s (cs + 4) = (rd32 pkt (cs + 4) + N.of_nat (i * g)) mod 4294967296 /\
  forall bit, N.testbit (bat s (cs + 13)) bit = N.testbit (bat pkt (cs + 13)) bit && flag_kept bit i (length segs).
Proof.
  intros WF SEG Hi s.
  pose proof (segs_length true pkt hl cs g segs WF SEG) as Ln.
  unfold s. rewrite (segs_nth true pkt hl cs g segs WF SEG i Hi). rewrite Ln.
  apply ref_seg_tcp_fields; [exact WF|lia].
Qed.

Theorem udp_fields_thm pkt hl cs g segs i :
  wf_udp pkt hl cs g -> segment_udp pkt hl cs g = Some segs -> (i < length segs)%nat ->
  let s := nth i segs [] in
  rd16 s (cs + 4) = N.of_nat (length s - cs) /\
  rd16 s (cs + 6) <> 0 /\
  (let c := csum16 (pseudo_hdr (is_v4 pkt) s IPPROTO_UDP (N.of_nat (length s - cs)) ++ wr16 (skipn cs s) 6 0) 0 in
   rd16 s (cs + 6) = if c =? 0 then 65535 else c).
Proof.
  intros WF SEG Hi s.
  pose proof (segs_length false pkt hl cs g segs WF SEG) as Ln.
  unfold s. rewrite (segs_nth false pkt hl cs g segs WF SEG i Hi).
  apply ref_seg_udp_fields; [exact WF|lia].
Qed.

(* ---------------------------------------------------------------------------------------------- *)
(** * the boolean form of the hypotheses decides them *)

Lemma wf_commonb_iff pkt hl cs g : wf_commonb pkt hl cs g = true <-> wf_common pkt hl cs g.
Proof.
  unfold wf_commonb, wf_common.
  rewrite !andb_true_iff, orb_true_iff, !andb_true_iff, !Nat.leb_le, N.leb_le, !N.eqb_eq. tauto.
Qed.

Lemma wf_tcpb_iff pkt hl cs g : wf_tcpb pkt hl cs g = true <-> wf_tcp pkt hl cs g.
Proof.
  unfold wf_tcpb, wf_tcp. rewrite !andb_true_iff, wf_commonb_iff, Nat.leb_le, Nat.eqb_eq. tauto.
Qed.

Lemma wf_udpb_iff pkt hl cs g : wf_udpb pkt hl cs g = true <-> wf_udp pkt hl cs g.
Proof.
  unfold wf_udpb, wf_udp. rewrite !andb_true_iff, wf_commonb_iff, Nat.eqb_eq. tauto.
Qed.

(* Lemmas about issuance (model/Cert.v: sign_with, sign, normalize_s): C04 *)
From Coq Require Import List NArith ZArith Bool Lia ZifyN ZifyBool.
Import ListNotations.
From NV Require Import lib.Corr model.Cert proofs.Cert_proofs.
Open Scope N_scope.
Ltac Zify.zify_post_hook ::= Z.div_mod_to_equations.

Definition cert_of_tbs (t : tbs) (iss fp fp2 : str) : cert :=
  mkCert (t_version t) (t_curve t) (t_name t) (t_networks t) (t_unsafe t) (t_groups t) (t_isCA t)
         (t_nb t) (t_na t) iss (t_pub t) fp fp2.

Lemma sign_with_inv signer kc t fp fp2 c :
  sign_with signer kc t fp fp2 = SOk c ->
  kc = t_curve t /\
  ((t_version t = 1 /\ validate_v1 t = true) \/ (t_version t = 2 /\ validate_v2 t = true)) /\
  match signer with
  | Some ca => t_isCA t = false /\
               check_ca_constraints ca (t_nb t) (t_na t) (t_groups t) (t_networks t) (t_unsafe t) = None /\
               c = cert_of_tbs t (c_fp ca) fp fp2
  | None => t_isCA t = true /\ c = cert_of_tbs t [] fp fp2
  end.
Proof.
  unfold sign_with, cert_of_tbs.
  destruct (kc =? t_curve t) eqn:EK; simpl; [apply N.eqb_eq in EK|discriminate].
  destruct signer as [ca|].
  - destruct (t_isCA t) eqn:ECA; [discriminate|].
    destruct (check_ca_constraints ca _ _ _ _ _) eqn:EC; [discriminate|].
    destruct (t_version t =? 1) eqn:V1.
    + destruct (validate_v1 t) eqn:EV; [|discriminate]. intros H; inversion H; subst.
      apply N.eqb_eq in V1. repeat split; try reflexivity. now left.
    + destruct (t_version t =? 2) eqn:V2; [|discriminate].
      destruct (validate_v2 t) eqn:EV; [|discriminate]. intros H; inversion H; subst.
      apply N.eqb_eq in V2. repeat split; try reflexivity. now right.
  - destruct (t_isCA t) eqn:ECA; simpl; [|discriminate].
    destruct (t_version t =? 1) eqn:V1.
    + destruct (validate_v1 t) eqn:EV; [|discriminate]. intros H; inversion H; subst.
      apply N.eqb_eq in V1. repeat split; try reflexivity. now left.
    + destruct (t_version t =? 2) eqn:V2; [|discriminate].
      destruct (validate_v2 t) eqn:EV; [|discriminate]. intros H; inversion H; subst.
      apply N.eqb_eq in V2. repeat split; try reflexivity. now right.
Qed.

Lemma constraints_window ca nb na g n u :
  check_ca_constraints ca nb na g n u = None -> (c_nb ca <= nb /\ na <= c_na ca)%Z.
Proof.
  unfold check_ca_constraints.
  destruct (Z.ltb_spec (c_na ca) na); [discriminate|].
  destruct (Z.ltb_spec nb (c_nb ca)); [discriminate|]. intros _. lia.
Qed.

(* every certificate issued under a CA verifies against any pool that holds that CA, at every time inside
   the certificate's own window (which lies inside the CA's), unless one of its fingerprints is blocklisted *)
Lemma sign_implies_verify ca kc t fp fp2 c :
  sign_with (Some ca) kc t fp fp2 = SOk c ->
  kc = c_curve ca ->
  forall P bl now sig,
    lookup (c_fp ca) P = Some ca -> c_fp ca <> [] -> sig ca = true ->
    ~ In fp bl -> ~ In fp2 bl ->
    (c_nb c <= now <= c_na c)%Z ->
    exists cc, verify_g P bl now c sig = Ok cc.
Proof.
  intros HS HK P bl now sig HL HNE HSig HB1 HB2 HW.
  apply sign_with_inv in HS. destruct HS as (EK & _ & ECA & EC & ->).
  apply rule_g. unfold accept_spec_g, cert_of_tbs in *. simpl in *.
  apply blocked_false_In in HB1. apply blocked_false_In in HB2. rewrite HB1, HB2, HL.
  apply is_empty_false in HNE. rewrite HNE. rewrite andb_false_r. simpl.
  pose proof (constraints_window _ _ _ _ _ _ EC) as HWin.
  assert (E1 : (c_curve ca =? t_curve t) = true) by (apply N.eqb_eq; congruence).
  rewrite E1, HSig. simpl.
  assert (E2 : valid_at ca now = true) by (apply valid_at_prop; lia).
  rewrite E2. simpl.
  assert (E3 : valid_at (mkCert (t_version t) (t_curve t) (t_name t) (t_networks t) (t_unsafe t) (t_groups t)
                         (t_isCA t) (t_nb t) (t_na t) (c_fp ca) (t_pub t) fp fp2) now = true)
    by (apply valid_at_prop; simpl; lia).
  rewrite E3. simpl.
  pose proof (constraints_none_iff ca (mkCert (t_version t) (t_curve t) (t_name t) (t_networks t) (t_unsafe t)
                (t_groups t) (t_isCA t) (t_nb t) (t_na t) (c_fp ca) (t_pub t) fp fp2)) as [HC _].
  unfold check_ca_constraints_cert in HC. simpl in HC. specialize (HC EC).
  rewrite <- !andb_assoc in HC. rewrite <- !andb_assoc. exact HC.
Qed.

(* signing succeeds only inside the signer's constraints, never for a CA, and records the signer *)
Lemma sign_within_constraints ca kc t fp fp2 c :
  sign_with (Some ca) kc t fp fp2 = SOk c ->
  c_isCA c = false /\ c_curve c = kc /\ c_issuer c = c_fp ca /\ c_fp c = fp /\ c_fp2 c = fp2 /\
  (c_nb ca <= c_nb c /\ c_na c <= c_na ca)%Z /\
  (c_groups ca = [] \/ forall g, In g (c_groups c) -> In g (c_groups ca)) /\
  (c_networks ca = [] \/ forall n, In n (c_networks c) -> exists m, In m (c_networks ca) /\ Covers m n) /\
  (c_unsafe ca = [] \/ forall n, In n (c_unsafe c) -> exists m, In m (c_unsafe ca) /\ Covers m n).
Proof.
  intros HS. apply sign_with_inv in HS. destruct HS as (EK & _ & ECA & EC & ->).
  pose proof (constraints_none_iff ca (cert_of_tbs t (c_fp ca) fp fp2)) as [HC _].
  unfold check_ca_constraints_cert, cert_of_tbs in *. simpl in *. specialize (HC EC).
  rewrite !andb_true_iff in HC. destruct HC as [[[H1 H2] H3] H4].
  unfold inside_window in H1. simpl in H1. rewrite andb_true_iff, !Z.leb_le in H1.
  apply subset_groups_prop in H2. apply inside_nets_prop in H3. apply inside_nets_prop in H4. simpl in *.
  repeat split; try assumption; try reflexivity; try tauto. congruence.
Qed.

Lemma no_ca_from_ca ca kc t fp fp2 :
  t_isCA t = true -> kc = t_curve t -> sign_with (Some ca) kc t fp fp2 = SErr SCaWithSigner.
Proof. intros H1 H2. unfold sign_with. subst kc. rewrite N.eqb_refl. simpl. now rewrite H1. Qed.

Lemma signed_by_ca_is_not_ca ca kc t fp fp2 c : sign_with (Some ca) kc t fp fp2 = SOk c -> c_isCA c = false.
Proof. intros H. now apply sign_within_constraints in H. Qed.

Lemma selfsign_only_ca kc t fp fp2 :
  (t_isCA t = false -> kc = t_curve t -> sign_with None kc t fp fp2 = SErr SSelfNotCA) /\
  (forall c, sign_with None kc t fp fp2 = SOk c -> c_isCA c = true /\ c_issuer c = [] /\ c_curve c = kc).
Proof.
  split.
  - intros H1 H2. unfold sign_with. subst kc. rewrite N.eqb_refl. simpl. now rewrite H1.
  - intros c H. apply sign_with_inv in H. destruct H as (EK & _ & ECA & ->). simpl. repeat split; congruence.
Qed.

Lemma key_curve_guard signer kc t fp fp2 : kc <> t_curve t -> sign_with signer kc t fp fp2 = SErr SKeyCurve.
Proof. intros H. unfold sign_with. apply N.eqb_neq in H. now rewrite H. Qed.

Lemma sign_guard signer kc t fp fp2 :
  (t_curve t <> 0 -> t_curve t <> 1 -> sign signer kc t fp fp2 = SErr SBadCurve) /\
  (t_curve t = 0 \/ t_curve t = 1 -> sign signer kc t fp fp2 = sign_with signer kc t fp fp2).
Proof.
  unfold sign. split.
  - intros H0 H1. apply N.eqb_neq in H0. apply N.eqb_neq in H1. now rewrite H0, H1.
  - intros [H|H]; now rewrite H.
Qed.

(* ---- low-S ----------------------------------------------------------------------------------------- *)

Lemma low_s_odd n s :
  N.odd n = true -> 0 < s < n ->
  exists s', normalize_s n (n / 2) s = Some s' /\ 0 < s' <= n / 2 /\ (s' = s \/ s' = n - s).
Proof.
  intros Hodd Hs. apply N.odd_spec in Hodd. destruct Hodd as [h Hh].
  unfold normalize_s, is_low_s, swap_s.
  destruct (N.leb_spec s (n / 2)).
  - exists s. repeat split; lia.
  - destruct (N.ltb_spec s n); [|lia]. exists (n - s). repeat split; lia.
Qed.

Lemma swap_involutive n s : 0 < s < n -> swap_s n s = Some (n - s) /\ swap_s n (n - s) = Some s.
Proof.
  intros Hs. unfold swap_s. destruct (N.ltb_spec s n); [|lia]. destruct (N.ltb_spec (n - s) n); [|lia].
  split; [reflexivity|]. f_equal. lia.
Qed.

(* of a signature's two forms exactly one is low: the twin fingerprint is the other form's fingerprint *)
Lemma exactly_one_low n s : N.odd n = true -> 0 < s < n -> is_low_s (n / 2) (n - s) = negb (is_low_s (n / 2) s).
Proof.
  intros Hodd Hs. apply N.odd_spec in Hodd. destruct Hodd as [h Hh]. unfold is_low_s.
  destruct (N.leb_spec s (n / 2)); destruct (N.leb_spec (n - s) (n / 2)); simpl; try reflexivity; lia.
Qed.

(* ---- re-using one request object ------------------------------------------------------------------------ *)

(* the outcome does not depend on what the object's issuer field holds, i.e. on earlier signings - with a signer
   (the field is overwritten with the signer's fingerprint) and without one (it is cleared) *)
Lemma resign_any signer kc t iss0 fp fp2 :
  fst (sign_with_st signer kc t iss0 fp fp2) = sign_with signer kc t fp fp2 /\
  fst (sign_st signer kc t iss0 fp fp2) = sign signer kc t fp fp2.
Proof.
  assert (H : fst (sign_with_st signer kc t iss0 fp fp2) = sign_with signer kc t fp fp2).
  { unfold sign_with_st, sign_with.
    destruct (negb (kc =? t_curve t)); [reflexivity|].
    destruct signer as [ca|].
    - destruct (t_isCA t); [reflexivity|].
      destruct (check_ca_constraints ca (t_nb t) (t_na t) (t_groups t) (t_networks t) (t_unsafe t)); reflexivity.
    - destruct (negb (t_isCA t)); reflexivity. }
  split; [exact H|]. unfold sign_st, sign. destruct ((t_curve t =? 0) || (t_curve t =? 1)); [exact H|reflexivity].
Qed.

(* a whole history of signings of one object *)
Fixpoint issuer_after (iss : str) (h : list (option cert * N * tbs * str * str)) : str :=
  match h with
  | [] => iss
  | (signer, kc, t, fp, fp2) :: r => issuer_after (snd (sign_with_st signer kc t iss fp fp2)) r
  end.

Lemma resign_independent h signer kc t fp fp2 :
  fst (sign_with_st signer kc t (issuer_after [] h) fp fp2) = sign_with signer kc t fp fp2 /\
  fst (sign_st signer kc t (issuer_after [] h) fp fp2) = sign signer kc t fp fp2.
Proof. apply resign_any. Qed.

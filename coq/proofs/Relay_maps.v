(* C39: association maps, list helpers and the elementary state updates of model/Relay.v. *)
From Coq Require Import List NArith Bool Lia.
Import ListNotations.
From NV Require Import lib.Relay_lib gen.Tab_Relay model.Relay.
Open Scope N_scope.

(* ---- amap ---------------------------------------------------------------------------------------- *)
Lemma mget_mset_eq {V} k (v : V) m : mget k (mset k v m) = Some v.
Proof.
  induction m as [|[k' v'] m IH]; simpl.
  - now rewrite N.eqb_refl.
  - destruct (k <? k') eqn:L; simpl.
    + now rewrite N.eqb_refl.
    + destruct (k =? k') eqn:E; simpl.
      * now rewrite N.eqb_refl.
      * rewrite E. exact IH.
Qed.

Lemma mget_mset_neq {V} k k' (v : V) m : k' <> k -> mget k' (mset k v m) = mget k' m.
Proof.
  intros N. induction m as [|[k0 v0] m IH]; simpl.
  - destruct (k' =? k) eqn:E; [apply N.eqb_eq in E; contradiction | reflexivity].
  - destruct (k <? k0) eqn:L; simpl.
    + destruct (k' =? k) eqn:E; [apply N.eqb_eq in E; contradiction | reflexivity].
    + destruct (k =? k0) eqn:E; simpl.
      * apply N.eqb_eq in E. subst k0.
        destruct (k' =? k) eqn:E'; [apply N.eqb_eq in E'; contradiction | reflexivity].
      * destruct (k' =? k0); [reflexivity | exact IH].
Qed.

Lemma mget_mset {V} k k' (v : V) m : mget k' (mset k v m) = if k' =? k then Some v else mget k' m.
Proof.
  destruct (k' =? k) eqn:E.
  - apply N.eqb_eq in E. subst. apply mget_mset_eq.
  - apply mget_mset_neq. intros ->. now rewrite N.eqb_refl in E.
Qed.

Lemma mget_mdel {V} k k' (m : amap V) : mget k' (mdel k m) = if k' =? k then None else mget k' m.
Proof.
  induction m as [|[k0 v0] m IH]; simpl.
  - now destruct (k' =? k).
  - destruct (k =? k0) eqn:E.
    + apply N.eqb_eq in E. subst k0. rewrite IH. destruct (k' =? k); reflexivity.
    + simpl. rewrite IH. destruct (k' =? k0) eqn:E0; [| reflexivity].
      apply N.eqb_eq in E0. subst k0. destruct (k' =? k) eqn:E1; [| reflexivity].
      apply N.eqb_eq in E1. subst. now rewrite N.eqb_refl in E.
Qed.

(* ---- lists ------------------------------------------------------------------------------------------ *)
Lemma memN_in x l : memN x l = true <-> In x l.
Proof.
  unfold memN. rewrite existsb_exists. split.
  - intros [y [Hy E]]. apply N.eqb_eq in E. now subst.
  - intros H. exists x. split; [exact H | apply N.eqb_refl].
Qed.

Lemma memN_false x l : memN x l = false <-> ~ In x l.
Proof. rewrite <- memN_in. destruct (memN x l); split; intros H; try discriminate; try reflexivity; exfalso; now apply H. Qed.

Lemma remove_first_subset x l y : In y (remove_first x l) -> In y l.
Proof.
  induction l as [|z l IH]; simpl; [tauto |].
  destruct (x =? z); [tauto |]. simpl. intros [E|H]; auto.
Qed.

Lemma remove_first_nodup x l : NoDup l -> NoDup (remove_first x l) /\ ~ In x (remove_first x l).
Proof.
  induction l as [|z l IH]; simpl; intros ND.
  - split; [constructor | tauto].
  - inversion ND as [|? ? Hz ND']; subst. destruct (x =? z) eqn:E.
    + apply N.eqb_eq in E. subst. auto.
    + destruct (IH ND') as [I1 I2]. split.
      * constructor; [| exact I1]. intros H. apply Hz. eapply remove_first_subset; eauto.
      * simpl. intros [H|H]; [subst; now rewrite N.eqb_refl in E | auto].
Qed.

Lemma remove_first_other x l y : y <> x -> In y l -> In y (remove_first x l).
Proof.
  intros N. induction l as [|z l IH]; simpl; [tauto |].
  destruct (x =? z) eqn:E.
  - apply N.eqb_eq in E. subst. intros [H|H]; [congruence | exact H].
  - simpl. intros [H|H]; auto.
Qed.

Lemma optN_is_true o h : optN_is o h = true <-> o = Some h.
Proof.
  destruct o as [x|]; simpl; split; intros H; try discriminate.
  - apply N.eqb_eq in H. now subst.
  - inversion H. apply N.eqb_refl.
Qed.

(* ---- state accessors under the elementary updates ----------------------------------------------------- *)
Lemma tun_with_tun s h t x : tun (with_tun s h t) x = if x =? h then Some t else tun s x.
Proof. unfold tun, with_tun; simpl. apply mget_mset. Qed.

Lemma hostlist_with_tun s h t a : hostlist (with_tun s h t) a = hostlist s a.
Proof. reflexivity. Qed.

Lemma hostlist_set_list s a l a' : hostlist (set_list a l s) a' = if a' =? a then l else hostlist s a'.
Proof.
  unfold set_list, hostlist. destruct l as [|x l]; simpl.
  - rewrite mget_mdel. destruct (a' =? a); reflexivity.
  - rewrite mget_mset. destruct (a' =? a); reflexivity.
Qed.

Lemma tun_set_list s a l x : tun (set_list a l s) x = tun s x.
Proof. unfold set_list. destruct l; reflexivity. Qed.

(* the parts of the state an operation leaves alone *)
Lemma set_list_fields s a l :
  s_me (set_list a l s) = s_me s /\ s_am (set_list a l s) = s_am s /\ s_tun (set_list a l s) = s_tun s /\
  s_index (set_list a l s) = s_index s /\ s_relays (set_list a l s) = s_relays s.
Proof. unfold set_list. destruct l; simpl; auto. Qed.

Lemma find_some_in {A} (f : A -> bool) l x : find f l = Some x -> In x l /\ f x = true.
Proof. apply find_some. Qed.

Lemma rec_by_addr_some l a r : rec_by_addr l a = Some r -> In r l /\ r_peer r = a.
Proof. unfold rec_by_addr. intros H. apply find_some in H as [H1 H2]. apply N.eqb_eq in H2. auto. Qed.
Lemma rec_by_idx_some l i r : rec_by_idx l i = Some r -> In r l /\ r_idx r = i.
Proof. unfold rec_by_idx. intros H. apply find_some in H as [H1 H2]. apply N.eqb_eq in H2. auto. Qed.

Lemma in_ins_rec x l y : In y (ins_rec x l) <-> y = x \/ In y l.
Proof.
  induction l as [|z l IH]; simpl.
  - intuition.
  - destruct (r_idx x <? r_idx z); simpl; [intuition |]. rewrite IH. intuition.
Qed.

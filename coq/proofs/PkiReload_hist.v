(* C42: what one reload and every history of reloads does to the node's identity and trust store
   (statements in Prop, from the boolean lemmas of PkiReload_proofs.v; histories by induction). *)
From Coq Require Import List NArith Bool Lia.
Import ListNotations.
From NV Require Import lib.Corr lib.ConnMgr_lib lib.PkiReload_lib gen.Tab_PkiReload model.PkiReload proofs.PkiReload_proofs.
Open Scope N_scope.

(* ---- the invariant, in words --------------------------------------------------------------------- *)

Definition paired (s : cstate) : Prop :=
  (s_v1 s <> None \/ s_v2 s <> None) /\
  (forall a b, s_v1 s = Some a -> s_v2 s = Some b -> k_pub a = k_pub b /\ k_curve a = k_curve b /\ prim a = prim b) /\
  (forall a, s_v1 s = Some a -> k_pub a = s_kpub s) /\ (forall b, s_v2 s = Some b -> k_pub b = s_kpub s).

Lemma inv_b_paired s : inv_b s = true <-> paired s.
Proof.
  destruct s as [v1 v2 k]. unfold inv_b, paired. cbn [s_v1 s_v2 s_kpub].
  rewrite !andb_true_iff. split.
  - intros [[[H1 H2] H3] H4]. repeat split.
    + destruct v1; [left; discriminate|]. destruct v2; [right; discriminate|discriminate].
    + inversion H; inversion H0; subst. cbn [both] in H2. now apply pair_ok_spec in H2.
    + inversion H; inversion H0; subst. cbn [both] in H2. now apply pair_ok_spec in H2.
    + inversion H; inversion H0; subst. cbn [both] in H2. now apply pair_ok_spec in H2.
    + intros a E. subst. cbn [opt_all] in H3. now apply N.eqb_eq.
    + intros b E. subst. cbn [opt_all] in H4. now apply N.eqb_eq.
  - intros (H1 & H2 & H3 & H4). repeat split.
    + destruct v1; [reflexivity|]. destruct v2; [reflexivity|]. destruct H1 as [H1|H1]; now elim H1.
    + destruct v1 as [a|], v2 as [b|]; try reflexivity. cbn [both]. apply pair_ok_spec. now apply H2.
    + destruct v1 as [a|]; [|reflexivity]. cbn [opt_all]. apply N.eqb_eq. now apply H3.
    + destruct v2 as [b|]; [|reflexivity]. cbn [opt_all]. apply N.eqb_eq. now apply H4.
Qed.

(* ---- identity across one step, in words --------------------------------------------------------- *)

(* a v2 certificate was added next to a v1 certificate that keeps exactly the networks of the v1-only state *)
Definition v2_added_next_to_v1 (s s' : cstate) : Prop :=
  s_v2 s = None /\ exists a a' b', s_v1 s = Some a /\ s_v1 s' = Some a' /\ s_v2 s' = Some b' /\ k_nets a' = k_nets a.

Definition identity_kept (s s' : cstate) : Prop :=
  st_curve s' = st_curve s /\ st_prim s' = st_prim s /\
  (st_nets s' = st_nets s \/ v2_added_next_to_v1 s s') /\
  (forall b, s_v2 s = Some b -> s_v2 s' = None ->
     exists a', s_v1 s' = Some a' /\ k_nets a' = k_nets b /\ k_curve a' = k_curve b).

Lemma id_step_b_spec s s' : id_step_b s (st_nets s) s' (st_nets s') = true -> identity_kept s s'.
Proof.
  unfold id_step_b, identity_kept. rewrite !andb_true_iff. intros [[[Hc Hp] Hn] Hd].
  apply N.eqb_eq in Hc. apply optN_eqb_eq in Hp. repeat split; try assumption.
  - apply orb_true_iff in Hn as [Hn|Hn]; [left; now apply nlist_eqb_eq|right].
    unfold added_v2 in Hn. unfold v2_added_next_to_v1.
    destruct (s_v2 s); [discriminate|]. destruct (s_v1 s') as [a'|]; [|discriminate].
    destruct (s_v2 s') as [b'|]; [|discriminate]. destruct (s_v1 s) as [a|]; [|discriminate].
    cbn [has negb andb both] in Hn. split; [reflexivity|]. exists a, a', b'. repeat split.
    symmetry. now apply nets_same_eq.
  - intros b Eb En. unfold v2_drop_ok in Hd. rewrite Eb, En in Hd.
    destruct (s_v1 s') as [a'|]; [|discriminate]. apply andb_true_iff in Hd as [H1 H2].
    exists a'. repeat split. + symmetry. now apply nets_same_eq. + now apply N.eqb_eq.
Qed.

(* ---- one reload ------------------------------------------------------------------------------------ *)

Lemma reload_refused_unchanged s c s' : reload_certs s c = Some s' -> accepted s c = false -> s' = s.
Proof. intros H A. apply reload_certs_cases in H as [(_ & _ & E)|(_ & A' & _)]; [exact E|congruence]. Qed.

Lemma reload_accepted_identity s c s' : inv_b s = true -> reload_certs s c = Some s' -> accepted s c = true ->
  s' = state_of c /\ inv_b s' = true /\ identity_kept s s'.
Proof.
  intros I H A. apply reload_certs_cases in H as [(_ & A' & _)|(R & _ & E)]; [congruence|]. subst s'.
  split; [reflexivity|]. split; [exact (rule_inv _ _ R)|]. apply id_step_b_spec. now apply rule_identity.
Qed.

Lemma reload_keeps_inv s c s' : inv_b s = true -> reload_certs s c = Some s' -> inv_b s' = true.
Proof.
  intros I H. apply reload_certs_cases in H as [(_ & _ & E)|(R & _ & E)]; subst s'; [exact I|exact (rule_inv _ _ R)].
Qed.

Lemma reload_keeps_curve_prim s c s' : inv_b s = true -> reload_certs s c = Some s' ->
  st_curve s' = st_curve s /\ st_prim s' = st_prim s.
Proof.
  intros I H. destruct (accepted s c) eqn:A.
  - destruct (reload_accepted_identity s c s' I H A) as (_ & _ & K). destruct K as (K1 & K2 & _). now split.
  - rewrite (reload_refused_unchanged s c s' H A). now split.
Qed.

(* acceptance is exactly the documented rule *)
Lemma accepted_iff_rule s c : inv_b s = true -> accepted s c = rule (features (Some s) c).
Proof.
  intros I. unfold accepted. rewrite (plookup_feasible _ (features_feasible s c I)).
  destruct (rule (features (Some s) c)); reflexivity.
Qed.

(* ---- the trust store --------------------------------------------------------------------------------- *)

Lemma reload_ca_defined q c : reload_ca q c = Some (if ca_rule (ca_features c) then pool_of c else q).
Proof.
  unfold reload_ca. rewrite (ca_lookup_feasible _ (ca_features_feasible c)).
  destruct (ca_rule (ca_features c)); reflexivity.
Qed.

Lemma ca_unreadable_kept q c : ca_kind c <> 0 -> reload_ca q c = Some q.
Proof.
  intros K. rewrite reload_ca_defined. unfold ca_features. apply N.eqb_neq in K. rewrite K. reflexivity.
Qed.

Lemma ca_all_expired_kept q c :
  existsb (fun x => negb (snd x)) (ca_cas c) = false -> existsb (fun x => snd x) (ca_cas c) = true ->
  reload_ca q c = Some q.
Proof.
  intros V E. rewrite reload_ca_defined. unfold ca_features. destruct (ca_kind c =? 0); [|reflexivity].
  unfold ca_rule. cbn [a_unread a_valid a_expired]. rewrite V, E. reflexivity.
Qed.

Lemma ca_replaced q c : ca_rule (ca_features c) = true -> reload_ca q c = Some (pool_of c).
Proof. intros R. rewrite reload_ca_defined, R. reflexivity. Qed.

(* ---- histories ---------------------------------------------------------------------------------------- *)

Lemma step_inv p e p' : step p e = Some p' ->
  reload_certs (cs p) (fst e) = Some (cs p') /\ reload_ca (ca p) (snd e) = Some (ca p').
Proof.
  unfold step. destruct (reload_certs (cs p) (fst e)) as [s|]; [|discriminate].
  destruct (reload_ca (ca p) (snd e)) as [q|]; [|discriminate]. intros H. inversion H. now split.
Qed.

Lemma step_defined p e : inv_b (cs p) = true -> exists p', step p e = Some p'.
Proof.
  intros I. unfold step. rewrite (reload_certs_defined _ (fst e) I), reload_ca_defined. eauto.
Qed.

Lemma run_defined evs : forall p, inv_b (cs p) = true -> exists p', run p evs = Some p'.
Proof.
  induction evs as [|e evs IH]; intros p I; [now exists p|].
  destruct (step_defined p e I) as [p1 S]. cbn [run]. rewrite S. apply IH.
  apply step_inv in S as [S _]. exact (reload_keeps_inv _ _ _ I S).
Qed.

Lemma run_identity evs : forall p p', inv_b (cs p) = true -> run p evs = Some p' ->
  inv_b (cs p') = true /\ st_curve (cs p') = st_curve (cs p) /\ st_prim (cs p') = st_prim (cs p).
Proof.
  induction evs as [|e evs IH]; intros p p' I R.
  - inversion R; subst. now repeat split.
  - cbn [run] in R. destruct (step p e) as [p1|] eqn:S; [|discriminate].
    apply step_inv in S as [S _].
    pose proof (reload_keeps_inv _ _ _ I S) as I1.
    destruct (reload_keeps_curve_prim _ _ _ I S) as [C1 P1].
    destruct (IH p1 p' I1 R) as (I2 & C2 & P2). repeat split; [exact I2|congruence|congruence].
Qed.

(* no step of the history adds a v2 certificate next to a v1 certificate of a v1-only state *)
Fixpoint never_adds_v2 (p : pki) (evs : list (cand * cacand)) : Prop :=
  match evs with
  | [] => True
  | e :: r =>
      (s_v2 (cs p) = None -> n_v1 (fst e) <> None -> n_v2 (fst e) = None) /\
      match step p e with Some p' => never_adds_v2 p' r | None => True end
  end.

Lemma run_networks evs : forall p p', inv_b (cs p) = true -> run p evs = Some p' -> never_adds_v2 p evs ->
  st_nets (cs p') = st_nets (cs p).
Proof.
  induction evs as [|e evs IH]; intros p p' I R NV.
  - now inversion R.
  - cbn [run] in R. cbn [never_adds_v2] in NV. destruct NV as [NV1 NV2].
    destruct (step p e) as [p1|] eqn:S; [|discriminate].
    apply step_inv in S as [S _].
    pose proof (reload_keeps_inv _ _ _ I S) as I1.
    rewrite (IH p1 p' I1 R NV2).
    destruct (accepted (cs p) (fst e)) eqn:A.
    + destruct (reload_accepted_identity _ _ _ I S A) as (E & _ & _ & _ & [K|K] & _); [exact K|].
      destruct K as (V2 & a & a' & b' & _ & E1 & E2 & _). rewrite E in E1, E2. cbn [state_of s_v1 s_v2] in E1, E2.
      assert (n_v2 (fst e) = None) by (apply NV1; [exact V2|congruence]). congruence.
    + now rewrite (reload_refused_unchanged _ _ _ S A).
Qed.

(* an unreadable bundle at every reload of a history: the trust store is the initial one throughout *)
Lemma run_ca_kept evs : forall p p', run p evs = Some p' ->
  Forall (fun e => ca_kind (snd e) <> 0) evs -> ca p' = ca p.
Proof.
  induction evs as [|e evs IH]; intros p p' R F.
  - now inversion R.
  - cbn [run] in R. destruct (step p e) as [p1|] eqn:S; [|discriminate]. inversion F as [|? ? F1 F2]; subst.
    apply step_inv in S as [_ S]. rewrite (ca_unreadable_kept _ _ F1) in S. inversion S as [E].
    rewrite (IH p1 p' R F2). congruence.
Qed.

(* the two halves of a reload do not depend on each other *)
Lemma step_independent p e p' : step p e = Some p' ->
  cs p' = (if accepted (cs p) (fst e) then state_of (fst e) else cs p) /\
  ca p' = (if ca_rule (ca_features (snd e)) then pool_of (snd e) else ca p).
Proof.
  intros S. apply step_inv in S as [S1 S2]. split.
  - apply reload_certs_cases in S1 as [(_ & A & E)|(_ & A & E)]; rewrite A; exact E.
  - rewrite reload_ca_defined in S2. now inversion S2.
Qed.

(* start-up *)
Lemma start_inv e p : start e = Some (Some p) -> inv_b (cs p) = true /\ cs p = state_of (fst e) /\ ca p = pool_of (snd e).
Proof.
  unfold start. destruct (start_certs (fst e)) as [[s|]|] eqn:SC; try discriminate;
    destruct (start_ca (snd e)) as [[q|]|] eqn:SA; try discriminate.
  intros H. inversion H; subst. cbn [cs ca].
  apply start_certs_cases in SC as [(_ & E)|(R & E)]; [discriminate|]. inversion E; subst.
  split; [exact (rule_inv _ _ R)|]. split; [reflexivity|].
  unfold start_ca in SA. destruct (ca_lookup (ca_features (snd e))) as [[| |]|]; inversion SA. reflexivity.
Qed.

Lemma start_defined e : exists r, start e = Some r.
Proof.
  unfold start. destruct (start_certs_defined (fst e)) as [r E]. rewrite E.
  unfold start_ca. rewrite (ca_lookup_feasible _ (ca_features_feasible (snd e))).
  destruct r, (ca_rule (ca_features (snd e))); eauto.
Qed.

(* ---- the statements props/C42.v quotes ----------------------------------------------------------------- *)

Lemma identity_thm s c s' : inv_b s = true -> reload_certs s c = Some s' -> accepted s c = true ->
  s' = state_of c /\ inv_b s' = true /\
  st_curve s' = st_curve s /\ st_prim s' = st_prim s /\
  (st_nets s' = st_nets s \/ v2_added_next_to_v1 s s') /\
  (forall b, s_v2 s = Some b -> s_v2 s' = None ->
     exists a', s_v1 s' = Some a' /\ k_nets a' = k_nets b /\ k_curve a' = k_curve b).
Proof.
  intros I R A. destruct (reload_accepted_identity s c s' I R A) as (E & I' & K1 & K2 & K3 & K4).
  repeat split; assumption.
Qed.

Lemma change_refused s c s' : inv_b s = true -> reload_certs s c = Some s' ->
  ~ identity_kept s (state_of c) -> accepted s c = false /\ s' = s.
Proof.
  intros I R NK. destruct (accepted s c) eqn:A.
  - destruct (reload_accepted_identity s c s' I R A) as (E & _ & K). subst s'. now elim NK.
  - split; [reflexivity|]. exact (reload_refused_unchanged s c s' R A).
Qed.

Lemma pairing_thm e p0 evs p : start e = Some (Some p0) -> run p0 evs = Some p ->
  inv_b (cs p0) = true /\ inv_b (cs p) = true /\
  st_curve (cs p) = st_curve (cs p0) /\ st_prim (cs p) = st_prim (cs p0).
Proof.
  intros S R. destruct (start_inv e p0 S) as (I & _ & _).
  destruct (run_identity evs p0 p I R) as (I' & C & P). repeat split; assumption.
Qed.

(* ---- the hypotheses are satisfiable, and the one route that changes the networks ------------------ *)

Example ex_state : cstate := mkSt (Some (mkCrt [1; 3] 0 7)) None 7.
Example ex_add_v2 : cand := mkCand (Some (mkCrt [1; 3] 0 7)) (Some (mkCrt [1; 2] 0 7)) 0 7 0.
Example ex_drop_v1 : cand := mkCand None (Some (mkCrt [1; 2] 0 7)) 0 7 0.
Example ex_other_net : cand := mkCand None (Some (mkCrt [4] 0 7)) 0 7 0.
Example ex_pool : pool := mkPool [(0, false)] [].
Example ex_ca_bad : cacand := mkCa 2 [] [5].

Example ex_inv : inv_b ex_state = true.
Proof. reflexivity. Qed.

Example ex_run :
  run (mkPki ex_state ex_pool) [(ex_other_net, ex_ca_bad); (ex_add_v2, ex_ca_bad); (ex_drop_v1, ex_ca_bad)]
  = Some (mkPki (mkSt None (Some (mkCrt [1; 2] 0 7)) 7) ex_pool).
Proof. vm_compute. reflexivity. Qed.

Lemma add_v2_changes_networks : exists s c s',
  inv_b s = true /\ reload_certs s c = Some s' /\ accepted s c = true /\
  st_nets s' <> st_nets s /\ exists n, In n (st_nets s) /\ ~ In n (st_nets s').
Proof.
  exists ex_state, ex_add_v2, (state_of ex_add_v2). repeat split; try (vm_compute; reflexivity).
  - vm_compute. discriminate.
  - exists 3. split; [vm_compute; tauto|]. vm_compute. intros [H|[H|H]]; try discriminate H; exact H.
Qed.

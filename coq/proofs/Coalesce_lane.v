(* Coalesce_lane: structure of one coalescer lane, for any policy (TCP or UDP).

   lane_struct   the open-slot map and the lastSlot cache are in lockstep and point at live slots of their
                 flow; behind an open slot there are only packets of other flows or trailing packets (pure ACKs)
   commit_slots  one commit either appends a fresh one-packet slot or folds the packet into the flow's open slot
   commit_perm   the ghost member lists hold exactly the committed packets
   commit_order  transmission order is preserved per flow key, except that a trailing packet may be overtaken *)
From Coq Require Import List NArith Bool Arith Lia Permutation Sorted.
Import ListNotations.
From NV Require Import lib.Bytes lib.Corr gen.Consts_Coalesce model.Coalesce proofs.Coalesce_lists.
Open Scope N_scope.

Definition opens (l : lane) (f : fkey) (i : nat) : Prop := assoc f (l_open l) = Some i.

(* the packets that do not seal their flow although they are emitted on their own: TCP pure ACKs *)
Definition trailing (pol : policy) (p : pkt) : bool :=
  pol_parse pol p && match pol_cls pol p with CKeepVerb => true | _ => false end.

Record lane_struct (pol : policy) (l : lane) : Prop := mkLS {
  ls_open : forall f i, opens l f i -> exists s, nth_error (l_slots l) i = Some s /\ s_fk s = f;
  ls_last : forall i, l_last l = Some i -> exists s, nth_error (l_slots l) i = Some s /\ opens l (s_fk s) i;
  ls_after : forall f i j s y, opens l f i -> (i < j)%nat -> nth_error (l_slots l) j = Some s -> In y (s_mem s) ->
             fk_of (snd y) <> f \/ trailing pol (snd y) = true
}.

Lemma lane0_struct pol : lane_struct pol lane0.
Proof.
  constructor; unfold opens; simpl.
  - intros f i H. discriminate.
  - intros i H. discriminate.
  - intros f i j s y H. discriminate.
Qed.

Section Lane.
  Variable pol : policy.

  Lemma find_open_assoc l fk : lane_struct pol l -> find_open l fk = assoc fk (l_open l).
  Proof.
    intros Hs. unfold find_open, last_matches.
    destruct (l_last l) as [i|] eqn:El; [|reflexivity].
    destruct (ls_last _ _ Hs i El) as (s & Hn & Ho). rewrite Hn.
    destruct (fkey_eqb (s_fk s) fk) eqn:E; [|reflexivity].
    apply fkey_eqb_eq in E. subst. symmetry. exact Ho.
  Qed.

  (* ---- sealAllOpen / sealFlow ---- *)

  Lemma seal_all_struct l : lane_struct pol l -> lane_struct pol (seal_all l).
  Proof.
    intros _. constructor; unfold opens; simpl; intros; discriminate.
  Qed.

  Lemma seal_flow_slots l fk : l_slots (seal_flow l fk) = l_slots l.
  Proof. unfold seal_flow. destruct (l_open l); reflexivity. Qed.

  Lemma seal_flow_assoc l fk f :
    assoc f (l_open (seal_flow l fk)) = if fkey_eqb f fk then None else assoc f (l_open l).
  Proof.
    unfold seal_flow. destruct (l_open l) as [|e m] eqn:E.
    - rewrite E. simpl. destruct (fkey_eqb f fk); reflexivity.
    - cbn [l_open]. apply assoc_remove_key.
  Qed.

  Lemma seal_flow_struct l fk : lane_struct pol l -> lane_struct pol (seal_flow l fk).
  Proof.
    intros Hs. constructor.
    - intros f i Ho. unfold opens in Ho. rewrite seal_flow_assoc in Ho.
      destruct (fkey_eqb f fk); [discriminate|]. rewrite seal_flow_slots. apply (ls_open _ _ Hs). exact Ho.
    - intros i Hl. rewrite seal_flow_slots.
      assert (Hl0 : l_last l = Some i /\ (l_open l = [] \/ last_matches l fk = None)).
      { unfold seal_flow in Hl. destruct (l_open l) eqn:E.
        - split; [exact Hl|left; reflexivity].
        - cbn [l_last] in Hl. destruct (last_matches l fk) eqn:E2; [discriminate|]. split; [exact Hl|right; reflexivity]. }
      destruct Hl0 as [Hl0 Hc]. destruct (ls_last _ _ Hs i Hl0) as (s & Hn & Ho).
      exists s. split; [exact Hn|]. unfold opens. rewrite seal_flow_assoc.
      destruct Hc as [Hc|Hc].
      + unfold opens in Ho. rewrite Hc in Ho. discriminate.
      + unfold last_matches in Hc. rewrite Hl0, Hn in Hc.
        destruct (fkey_eqb (s_fk s) fk); [discriminate|exact Ho].
    - intros f i j s y Ho Hij Hn Hy. unfold opens in Ho. rewrite seal_flow_assoc in Ho.
      destruct (fkey_eqb f fk); [discriminate|]. rewrite seal_flow_slots in Hn.
      eapply (ls_after _ _ Hs); eauto.
  Qed.

  (* ---- a new slot at the end ---- *)

  Definition push_slot (l : lane) (s : slot) : lane := mkLane (l_slots l ++ [s]) (l_open l) (l_last l).

  Lemma push_struct l s :
    lane_struct pol l ->
    (forall f i y, opens l f i -> In y (s_mem s) -> fk_of (snd y) <> f \/ trailing pol (snd y) = true) ->
    lane_struct pol (push_slot l s).
  Proof.
    intros Hs Hnew. constructor; unfold push_slot, opens; cbn [l_slots l_open l_last].
    - intros f i Ho. destruct (ls_open _ _ Hs f i Ho) as (s0 & Hn & Hf). exists s0. split; [|exact Hf].
      rewrite nth_error_app1; [exact Hn|]. eapply nth_error_Some_lt; eauto.
    - intros i Hl. destruct (ls_last _ _ Hs i Hl) as (s0 & Hn & Ho). exists s0. split; [|exact Ho].
      rewrite nth_error_app1; [exact Hn|]. eapply nth_error_Some_lt; eauto.
    - intros f i j s0 y Ho Hij Hn Hy. apply nth_error_snoc_cases in Hn. destruct Hn as [[Hn _]|[_ ->]].
      + eapply (ls_after _ _ Hs); eauto.
      + eapply Hnew; eauto.
  Qed.

  Lemma add_verbatim_push l kp : add_verbatim l kp = push_slot l (verb_slot kp).
  Proof. reflexivity. Qed.

  Lemma add_verbatim_struct l kp :
    lane_struct pol l ->
    (forall f i, opens l f i -> fk_of (snd kp) <> f \/ trailing pol (snd kp) = true) ->
    lane_struct pol (add_verbatim l kp).
  Proof.
    intros Hs H. rewrite add_verbatim_push. apply push_struct; [exact Hs|].
    intros f i y Ho [<-|[]]. eapply H; eauto.
  Qed.

  Lemma sealed_verbatim_struct l kp :
    lane_struct pol l -> lane_struct pol (add_verbatim (seal_flow l (fk_of (snd kp))) kp).
  Proof.
    intros Hs. apply add_verbatim_struct; [apply seal_flow_struct; exact Hs|].
    intros f i Ho. unfold opens in Ho. rewrite seal_flow_assoc in Ho.
    destruct (fkey_eqb f (fk_of (snd kp))) eqn:E; [discriminate|].
    left. intros E'. subst. rewrite fkey_eqb_refl in E. discriminate.
  Qed.

  (* ---- seed ---- *)

  Definition seed_slot (kp : staged) : slot :=
    let p := snd kp in
    mkSlot false p (fk_of p) (pol_hlen pol p) (paylen p) 1 (paylen p) (pol_next pol p) false [p_pay p] [kp].

  Lemma seed_struct l kp :
    lane_struct pol l -> assoc (fk_of (snd kp)) (l_open l) = None -> lane_struct pol (seed pol l kp).
  Proof.
    intros Hs Hnone. unfold seed.
    destruct (pol_buf pol <? pol_hlen pol (snd kp) + paylen (snd kp)); [apply sealed_verbatim_struct; exact Hs|].
    fold (seed_slot kp).
    assert (Hpush : lane_struct pol (push_slot l (seed_slot kp))).
    { apply push_struct; [exact Hs|]. intros f i y Ho [<-|[]]. left. intros E. subst.
      unfold opens in Ho. rewrite Hnone in Ho. discriminate. }
    destruct (pol_seed_open pol (snd kp)).
    - constructor; unfold opens; cbn [l_slots l_open l_last].
      + intros f i Ho. rewrite assoc_set_key in Ho. destruct (fkey_eqb f (fk_of (snd kp))) eqn:E.
        * inversion Ho; subst. exists (seed_slot kp). split; [apply nth_error_app_new|].
          apply fkey_eqb_eq in E. subst. reflexivity.
        * apply (ls_open _ _ Hpush). exact Ho.
      + intros i Hl. inversion Hl; subst. exists (seed_slot kp). split; [apply nth_error_app_new|].
        cbn [seed_slot s_fk]. rewrite assoc_set_key, fkey_eqb_refl. reflexivity.
      + intros f i j s y Ho Hij Hn Hy. rewrite assoc_set_key in Ho.
        destruct (fkey_eqb f (fk_of (snd kp))) eqn:E.
        * inversion Ho; subst. apply nth_error_Some_lt in Hn. rewrite app_length in Hn. simpl in Hn. lia.
        * eapply (ls_after _ _ Hpush); eauto.
    - apply (seal_flow_struct (push_slot l (seed_slot kp))). exact Hpush.
  Qed.

  (* ---- appendPayload ---- *)

  Lemma append_struct l fk i s kp :
    lane_struct pol l -> opens l fk i -> nth_error (l_slots l) i = Some s -> fk_of (snd kp) = fk ->
    lane_struct pol (mkLane (upd_nth i (append_slot pol s kp) (l_slots l)) (l_open l) (l_last l)).
  Proof.
    intros Hs Ho Hn Hfk.
    assert (Hlt : (i < length (l_slots l))%nat) by (eapply nth_error_Some_lt; eauto).
    assert (Hsfk : s_fk s = fk).
    { destruct (ls_open _ _ Hs fk i Ho) as (s0 & Hn0 & Hf). congruence. }
    constructor; unfold opens; cbn [l_slots l_open l_last].
    - intros f i' Ho'. destruct (ls_open _ _ Hs f i' Ho') as (s0 & Hn0 & Hf).
      destruct (Nat.eq_dec i i') as [<-|Hne].
      + exists (append_slot pol s kp). split; [apply nth_error_upd_nth_eq; exact Hlt|].
        cbn [append_slot s_fk]. congruence.
      + exists s0. split; [|exact Hf]. rewrite nth_error_upd_nth_neq by exact Hne. exact Hn0.
    - intros i' Hl. destruct (ls_last _ _ Hs i' Hl) as (s0 & Hn0 & Ho').
      destruct (Nat.eq_dec i i') as [<-|Hne].
      + exists (append_slot pol s kp). split; [apply nth_error_upd_nth_eq; exact Hlt|].
        cbn [append_slot s_fk]. replace (s_fk s) with (s_fk s0) by congruence. exact Ho'.
      + exists s0. split; [|exact Ho']. rewrite nth_error_upd_nth_neq by exact Hne. exact Hn0.
    - intros f i' j s1 y Ho' Hij Hn1 Hy.
      destruct (Nat.eq_dec i j) as [<-|Hne].
      + rewrite nth_error_upd_nth_eq in Hn1 by exact Hlt. inversion Hn1; subst s1.
        cbn [append_slot s_mem] in Hy. apply in_app_or in Hy. destruct Hy as [Hy|[<-|[]]].
        * eapply (ls_after _ _ Hs); eauto.
        * left. intros E. rewrite Hfk in E. subst f. unfold opens in Ho, Ho'. rewrite Ho in Ho'.
          inversion Ho'. lia.
      + rewrite nth_error_upd_nth_neq in Hn1 by exact Hne. eapply (ls_after _ _ Hs); eauto.
  Qed.

  Lemma set_last_struct l i s :
    lane_struct pol l -> nth_error (l_slots l) i = Some s -> opens l (s_fk s) i ->
    lane_struct pol (mkLane (l_slots l) (l_open l) (Some i)).
  Proof.
    intros Hs Hn Ho. constructor; unfold opens; cbn [l_slots l_open l_last].
    - apply (ls_open _ _ Hs).
    - intros i' E. inversion E; subst. exists s. split; assumption.
    - apply (ls_after _ _ Hs).
  Qed.

  (* ---- one commit ---- *)

  Theorem commit_struct l kp : lane_struct pol l -> lane_struct pol (commit_staged pol l kp).
  Proof.
    intros Hs. unfold commit_staged.
    destruct (pol_parse pol (snd kp)) eqn:Epar.
    2:{ apply add_verbatim_struct; [apply seal_all_struct; exact Hs|].
        intros f i Ho. unfold opens in Ho. simpl in Ho. discriminate. }
    unfold commit_parsed.
    destruct (pol_cls pol (snd kp)) eqn:Ecls.
    - apply sealed_verbatim_struct. exact Hs.
    - apply add_verbatim_struct; [exact Hs|]. intros f i _. right. unfold trailing. rewrite Epar, Ecls. reflexivity.
    - rewrite (find_open_assoc _ _ Hs).
      destruct (assoc (fk_of (snd kp)) (l_open l)) as [i|] eqn:Eo.
      2:{ apply seed_struct; assumption. }
      destruct (ls_open _ _ Hs _ _ Eo) as (s & Hn & Hf). rewrite Hn.
      destruct (pol_can_append pol s (snd kp)).
      2:{ apply seed_struct; [apply seal_flow_struct; exact Hs|]. rewrite seal_flow_assoc, fkey_eqb_refl. reflexivity. }
      pose proof (append_struct l _ i s kp Hs Eo Hn eq_refl) as Ha.
      destruct (pol_closes pol s (snd kp)).
      + apply (seal_flow_struct _ _ Ha).
      + cbn [l_slots l_open].
        apply (set_last_struct _ i (append_slot pol s kp) Ha).
        * cbn [l_slots]. apply nth_error_upd_nth_eq. eapply nth_error_Some_lt; eauto.
        * unfold opens. cbn [l_open append_slot s_fk]. rewrite Hf. exact Eo.
  Qed.

  (* what a commit does to the slot list *)
  Theorem commit_slots l kp :
    lane_struct pol l ->
    let l' := commit_staged pol l kp in
    (exists s, l_slots l' = l_slots l ++ [s] /\ s_mem s = [kp]) \/
    (exists i s, opens l (fk_of (snd kp)) i /\ nth_error (l_slots l) i = Some s /\
                 l_slots l' = upd_nth i (append_slot pol s kp) (l_slots l)).
  Proof.
    intros Hs. cbv zeta.
    assert (Hseed : forall l0, l_slots l0 = l_slots l ->
                    exists s, l_slots (seed pol l0 kp) = l_slots l ++ [s] /\ s_mem s = [kp]).
    { intros l0 E. unfold seed.
      destruct (pol_buf pol <? pol_hlen pol (snd kp) + paylen (snd kp)).
      - exists (verb_slot kp). cbn [add_verbatim l_slots]. rewrite seal_flow_slots, E. split; reflexivity.
      - destruct (pol_seed_open pol (snd kp)).
        + eexists. cbn [l_slots]. rewrite E. split; reflexivity.
        + eexists. rewrite seal_flow_slots. cbn [l_slots]. rewrite E. split; reflexivity. }
    unfold commit_staged.
    destruct (pol_parse pol (snd kp)).
    2:{ left. exists (verb_slot kp). split; reflexivity. }
    unfold commit_parsed.
    destruct (pol_cls pol (snd kp)).
    - left. exists (verb_slot kp). cbn [add_verbatim l_slots]. rewrite seal_flow_slots. split; reflexivity.
    - left. exists (verb_slot kp). split; reflexivity.
    - rewrite (find_open_assoc _ _ Hs).
      destruct (assoc (fk_of (snd kp)) (l_open l)) as [i|] eqn:Eo.
      2:{ left. apply Hseed. reflexivity. }
      destruct (ls_open _ _ Hs _ _ Eo) as (s & Hn & Hf). rewrite Hn.
      destruct (pol_can_append pol s (snd kp)).
      2:{ left. apply Hseed. apply seal_flow_slots. }
      right. exists i, s. split; [exact Eo|]. split; [exact Hn|].
      destruct (pol_closes pol s (snd kp)); [rewrite seal_flow_slots|]; reflexivity.
  Qed.

  Lemma lane_mem_upd l i s kp :
    nth_error (l_slots l) i = Some s ->
    lane_mem l = concat (map s_mem (firstn i (l_slots l))) ++ s_mem s ++ concat (map s_mem (skipn (S i) (l_slots l))) /\
    concat (map s_mem (upd_nth i (append_slot pol s kp) (l_slots l))) =
      (concat (map s_mem (firstn i (l_slots l))) ++ s_mem s) ++ kp :: concat (map s_mem (skipn (S i) (l_slots l))).
  Proof.
    intros Hn. destruct (upd_nth_split (append_slot pol s kp) _ _ _ Hn) as [E1 E2].
    split.
    - unfold lane_mem. rewrite E1 at 1. rewrite map_app, concat_app. reflexivity.
    - rewrite E2. rewrite map_app, concat_app. cbn [map concat append_slot s_mem].
      rewrite <- !app_assoc. reflexivity.
  Qed.

  Theorem commit_perm l kp :
    lane_struct pol l -> Permutation (lane_mem (commit_staged pol l kp)) (lane_mem l ++ [kp]).
  Proof.
    intros Hs. destruct (commit_slots l kp Hs) as [(s & E & Em)|(i & s & Ho & Hn & E)]; unfold lane_mem at 1; rewrite E.
    - rewrite map_app, concat_app. cbn [map concat]. rewrite app_nil_r, Em. reflexivity.
    - destruct (lane_mem_upd l i s kp Hn) as [E1 E2]. rewrite E2, E1.
      rewrite <- !app_assoc. apply Permutation_app_head. apply Permutation_app_head.
      apply Permutation_cons_append.
  Qed.

  (* ---- order ---- *)

  (* q is delivered before p: if p was transmitted before q in the same flow, p is a trailing packet *)
  Definition lane_rel (q p : staged) : Prop :=
    key_ltb (fst p) (fst q) = true -> fk_of (snd p) = fk_of (snd q) -> trailing pol (snd p) = true.

  Lemma nth_error_skipn {A} (l : list A) : forall k n, nth_error (skipn k l) n = nth_error l (k + n).
  Proof. induction l as [|x l IH]; intros [|k] n; simpl; auto. destruct n; reflexivity. Qed.

  Lemma in_later_slots (slots : list slot) i y :
    In y (concat (map s_mem (skipn (S i) slots))) ->
    exists j s, (i < j)%nat /\ nth_error slots j = Some s /\ In y (s_mem s).
  Proof.
    intros H. apply in_concat in H. destruct H as (m & Hm & Hy).
    apply in_map_iff in Hm. destruct Hm as (s & <- & Hs).
    apply In_nth_error in Hs. destruct Hs as (n & Hn). rewrite nth_error_skipn in Hn.
    exists (S i + n)%nat, s. repeat split; [lia|exact Hn|exact Hy].
  Qed.

  Theorem commit_order l kp :
    lane_struct pol l ->
    (forall y, In y (lane_mem l) -> key_le (fst y) (fst kp)) ->
    ForallOrdPairs lane_rel (lane_mem l) ->
    ForallOrdPairs lane_rel (lane_mem (commit_staged pol l kp)).
  Proof.
    intros Hs Hkeys Hfop.
    assert (Hbefore : forall y, In y (lane_mem l) -> lane_rel y kp).
    { intros y Hy Hlt. rewrite (key_le_not_lt _ _ (Hkeys y Hy)) in Hlt. discriminate. }
    destruct (commit_slots l kp Hs) as [(s & E & Em)|(i & s & Ho & Hn & E)]; unfold lane_mem at 1; rewrite E.
    - rewrite map_app, concat_app. cbn [map concat]. rewrite app_nil_r, Em. apply FOP_snoc; assumption.
    - destruct (lane_mem_upd l i s kp Hn) as [E1 E2]. rewrite E2.
      apply FOP_insert.
      + rewrite <- app_assoc. rewrite <- E1. exact Hfop.
      + intros y Hy. apply Hbefore. rewrite E1. rewrite app_assoc. apply in_or_app. left. exact Hy.
      + intros y Hy Hlt Hfk. apply in_later_slots in Hy. destruct Hy as (j & s' & Hij & Hn' & Hy).
        destruct (ls_after _ _ Hs _ _ _ _ _ Ho Hij Hn' Hy) as [Hne|Ht]; [|exact Ht].
        exfalso. apply Hne. exact Hfk.
  Qed.
End Lane.

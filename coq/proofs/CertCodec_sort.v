(* comparePrefix order, insertion sort, findDuplicatePrefix: what validate() (v2) does to the network lists. *)
From Coq Require Import List NArith ZArith Lia Bool.
From Coq Require Import ZifyN ZifyNat ZifyBool.
Import ListNotations.
From NV Require Import lib.Bytes lib.Proto lib.Der model.CertCodec.
Open Scope N_scope.

Lemma pfx_ltb_asym p q : pfx_ltb p q = true -> pfx_ltb q p = false.
Proof.
  destruct p as [[a x] m], q as [[b y] n]. unfold pfx_ltb, p_is4, p_addr, p_bits. cbn [fst snd].
  destruct a, b; try discriminate; try reflexivity; intros H; lia.
Qed.

Lemma pfx_ltb_irrefl_eqb p q : pfx_ltb p q = true -> pfx_eqb p q = false.
Proof.
  destruct p as [[a x] m], q as [[b y] n]. unfold pfx_ltb, pfx_eqb, p_is4, p_addr, p_bits. cbn [fst snd].
  destruct a, b; cbn [Bool.eqb]; try reflexivity; intros H; lia.
Qed.

(* trichotomy: not greater and not equal means smaller *)
Lemma pfx_ltb_total p q : pfx_ltb q p = false -> pfx_eqb p q = false -> pfx_ltb p q = true.
Proof.
  destruct p as [[a x] m], q as [[b y] n]. unfold pfx_ltb, pfx_eqb, p_is4, p_addr, p_bits. cbn [fst snd].
  destruct a, b; cbn [Bool.eqb]; try discriminate; try reflexivity; intros H1 H2; lia.
Qed.

Lemma pfx_ltb_trans p q r : pfx_ltb p q = true -> pfx_ltb q r = true -> pfx_ltb p r = true.
Proof.
  destruct p as [[a x] m], q as [[b y] n], r as [[c z] k]. unfold pfx_ltb, p_is4, p_addr, p_bits. cbn [fst snd].
  destruct a, b, c; try discriminate; try reflexivity; intros H1 H2; lia.
Qed.

Lemma pfx_eqb_eq p q : pfx_eqb p q = true <-> p = q.
Proof.
  destruct p as [[a x] m], q as [[b y] n]. unfold pfx_eqb, p_is4, p_addr, p_bits. cbn [fst snd]. split.
  - intros H. apply andb_prop in H as [H H3]. apply andb_prop in H as [H1 H2].
    apply Bool.eqb_prop in H1. apply N.eqb_eq in H2, H3. now subst.
  - intros H. inversion H; subst. rewrite Bool.eqb_reflx, !N.eqb_refl. reflexivity.
Qed.

(* ---- sorted lists ---- *)

(* non-strict order: every adjacent pair is "not greater" *)
Fixpoint sorted_le (l : list pfx) : bool :=
  match l with
  | p :: ((q :: _) as r) => negb (pfx_ltb q p) && sorted_le r
  | _ => true
  end.

Lemma sorted_le_insert p : forall l, sorted_le l = true -> sorted_le (pfx_insert p l) = true.
Proof.
  induction l as [|q r IH]; intros H; [reflexivity|].
  cbn [pfx_insert]. destruct (pfx_ltb q p) eqn:E.
  - destruct r as [|s r'].
    + cbn. rewrite (pfx_ltb_asym _ _ E). reflexivity.
    + cbn [sorted_le] in H. apply andb_prop in H as [H1 H2]. specialize (IH H2).
      cbn [pfx_insert] in *. destruct (pfx_ltb s p) eqn:E2.
      * cbn [sorted_le]. rewrite H1. exact IH.
      * cbn [sorted_le]. rewrite (pfx_ltb_asym _ _ E). cbn [negb andb]. exact IH.
  - cbn [sorted_le]. rewrite E. exact H.
Qed.

Lemma sorted_le_sort l : sorted_le (pfx_sort l) = true.
Proof. induction l as [|p l IH]; [reflexivity|]. cbn [pfx_sort fold_right]. now apply sorted_le_insert. Qed.

Lemma strictly_of_sorted_nodup l : sorted_le l = true -> adjacent_dup l = false -> strictly_sorted l = true.
Proof.
  induction l as [|p [|q r] IH]; intros H1 H2; try reflexivity.
  cbn [sorted_le adjacent_dup strictly_sorted] in *.
  apply andb_prop in H1 as [A B]. apply orb_false_iff in H2 as [C D].
  apply negb_true_iff in A. rewrite (pfx_ltb_total _ _ A C). cbn [andb]. now apply IH.
Qed.

Lemma strictly_nodup l : strictly_sorted l = true -> adjacent_dup l = false.
Proof.
  induction l as [|p [|q r] IH]; intros H; try reflexivity.
  cbn [adjacent_dup strictly_sorted] in *. apply andb_prop in H as [A B].
  rewrite (pfx_ltb_irrefl_eqb _ _ A). cbn [orb]. now apply IH.
Qed.

Lemma strictly_sort_id l : strictly_sorted l = true -> pfx_sort l = l.
Proof.
  induction l as [|p [|q r] IH]; intros H; try reflexivity.
  cbn [strictly_sorted] in H. apply andb_prop in H as [A B].
  change (pfx_sort (p :: q :: r)) with (pfx_insert p (pfx_sort (q :: r))). rewrite (IH B).
  cbn [pfx_insert]. now rewrite (pfx_ltb_asym _ _ A).
Qed.

(* ---- insertion keeps the elements ---- *)

Lemma forallb_insert f p : forall l, forallb f (pfx_insert p l) = f p && forallb f l.
Proof.
  induction l as [|q r IH]; [reflexivity|]. cbn [pfx_insert]. destruct (pfx_ltb q p).
  - cbn [forallb]. rewrite IH. destruct (f p), (f q); reflexivity.
  - reflexivity.
Qed.

Lemma forallb_sort f l : forallb f (pfx_sort l) = forallb f l.
Proof. induction l as [|p l IH]; [reflexivity|]. cbn [pfx_sort fold_right forallb]. rewrite forallb_insert. now f_equal. Qed.

Lemma existsb_insert f p : forall l, existsb f (pfx_insert p l) = f p || existsb f l.
Proof.
  induction l as [|q r IH]; [reflexivity|]. cbn [pfx_insert]. destruct (pfx_ltb q p).
  - cbn [existsb]. rewrite IH. destruct (f p), (f q); reflexivity.
  - reflexivity.
Qed.

Lemma existsb_sort f l : existsb f (pfx_sort l) = existsb f l.
Proof. induction l as [|p l IH]; [reflexivity|]. cbn [pfx_sort fold_right existsb]. rewrite existsb_insert. now f_equal. Qed.

Lemma insert_not_nil p l : is_nil (pfx_insert p l) = false.
Proof. destruct l as [|q r]; [reflexivity|]. cbn [pfx_insert]. destruct (pfx_ltb q p); reflexivity. Qed.

Lemma is_nil_sort l : is_nil (pfx_sort l) = is_nil l.
Proof. destruct l as [|p l]; [reflexivity|]. cbn [pfx_sort fold_right]. apply insert_not_nil. Qed.

Lemma sort_idem l : adjacent_dup (pfx_sort l) = false -> pfx_sort (pfx_sort l) = pfx_sort l.
Proof. intros H. apply strictly_sort_id. apply strictly_of_sorted_nodup; [apply sorted_le_sort|exact H]. Qed.

Lemma length_insert p : forall l, length (pfx_insert p l) = S (length l).
Proof.
  induction l as [|q r IH]; [reflexivity|]. cbn [pfx_insert]. destruct (pfx_ltb q p); cbn [length]; [now rewrite IH|reflexivity].
Qed.

(* ---- validate ---- *)

Theorem validate_v2_valid c c' : validate_v2 c = Some c' -> valid_v2 c' = true.
Proof.
  unfold validate_v2. destruct (check_v2 c) eqn:E; [|discriminate]. intros H; inversion H; subst; clear H.
  unfold valid_v2. unfold check_v2 in *. destruct c as [nm nets uns grp ca nb na iss cv pub sg].
  unfold with_nets in *. cbn [CertCodec.c_name CertCodec.c_nets CertCodec.c_unsafe CertCodec.c_groups CertCodec.c_isca CertCodec.c_pub] in *.
  repeat (apply andb_prop in E as [E ?]).
  match goal with H : negb (adjacent_dup (pfx_sort nets)) = true |- _ => apply negb_true_iff in H; rename H into Dn end.
  match goal with H : negb (adjacent_dup (pfx_sort uns)) = true |- _ => apply negb_true_iff in H; rename H into Du end.
  rewrite (sort_idem _ Dn), (sort_idem _ Du), Dn, Du.
  rewrite !forallb_sort, !existsb_sort, !is_nil_sort.
  rewrite (strictly_of_sorted_nodup _ (sorted_le_sort _) Dn), (strictly_of_sorted_nodup _ (sorted_le_sort _) Du).
  repeat (apply andb_true_intro; split); assumption || reflexivity.
Qed.

Theorem valid_v2_validate c : valid_v2 c = true -> validate_v2 c = Some c.
Proof.
  unfold valid_v2. intros H. apply andb_prop in H as [H Su]. apply andb_prop in H as [H Sn].
  unfold validate_v2. rewrite H. rewrite (strictly_sort_id _ Sn), (strictly_sort_id _ Su). destruct c; reflexivity.
Qed.

Lemma valid_v2_check c : valid_v2 c = true -> check_v2 c = true.
Proof. unfold valid_v2. intros H. apply andb_prop in H as [H _]. now apply andb_prop in H as [H _]. Qed.

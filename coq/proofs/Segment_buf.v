(* Segment_buf: list-level lemmas about the byte-buffer operations of model/Segment.v
   (bat, rd16, rd32, sub, wr, wr8, wr16, wr32) and how the one's-complement sum reacts to a field write. *)
From Coq Require Import List NArith ZArith Bool Arith Lia ZifyN ZifyNat ZifyBool.
Import ListNotations.
From NV Require Import lib.Bytes lib.Ones model.Segment.
Open Scope N_scope.
Local Ltac Zify.zify_post_hook ::= Z.div_mod_to_equations.

(* ---------------------------------------------------------------------------------------------- *)
(** * bat / sub / firstn / skipn *)

Lemma skipn_skipn {A} (x y : nat) (l : list A) : skipn x (skipn y l) = skipn (x + y) l.
Proof.
  revert l. induction y as [|y IH]; intros l.
  - rewrite Nat.add_0_r. reflexivity.
  - destruct l as [|a l]; [rewrite !skipn_nil; reflexivity|].
    replace (x + S y)%nat with (S (x + y)) by lia. simpl. apply IH.
Qed.

Lemma bat_firstn n l k : (k < n)%nat -> bat (firstn n l) k = bat l k.
Proof.
  unfold bat. revert n k. induction l as [|a l IH]; intros [|n] [|k] H; simpl; try reflexivity; try lia.
  apply IH. lia.
Qed.

Lemma bat_skipn n l k : bat (skipn n l) k = bat l (n + k).
Proof.
  unfold bat. revert n. induction l as [|a l IH]; intros [|n]; simpl; try reflexivity.
  - destruct k; reflexivity.
  - apply IH.
Qed.

Lemma bat_app_l a b k : (k < length a)%nat -> bat (a ++ b) k = bat a k.
Proof. intros H. unfold bat. apply app_nth1. exact H. Qed.

Lemma bat_app_r a b k : bat (a ++ b) (length a + k) = bat b k.
Proof. unfold bat. rewrite app_nth2 by lia. f_equal. lia. Qed.

Lemma bat_sub l a b k : (a + k < b)%nat -> bat (sub l a b) k = bat l (a + k).
Proof. intros H. unfold sub. rewrite bat_firstn by lia. apply bat_skipn. Qed.

Lemma rd16_firstn n l k : (k + 2 <= n)%nat -> rd16 (firstn n l) k = rd16 l k.
Proof. intros H. unfold rd16. rewrite !bat_firstn by lia. reflexivity. Qed.

Lemma rd16_sub l a b k : (a + k + 2 <= b)%nat -> rd16 (sub l a b) k = rd16 l (a + k).
Proof. intros H. unfold rd16. rewrite !bat_sub by lia. replace (a + S k)%nat with (S (a + k)) by lia. reflexivity. Qed.

Lemma rd32_sub l a b k : (a + k + 4 <= b)%nat -> rd32 (sub l a b) k = rd32 l (a + k).
Proof.
  intros H. unfold rd32. rewrite !rd16_sub by lia. replace (a + (k + 2))%nat with (a + k + 2)%nat by lia. reflexivity.
Qed.

Lemma rd16_app_l a b k : (k + 2 <= length a)%nat -> rd16 (a ++ b) k = rd16 a k.
Proof. intros H. unfold rd16. rewrite !bat_app_l by lia. reflexivity. Qed.

Lemma sub_length l a b : (a <= b)%nat -> (b <= length l)%nat -> length (sub l a b) = (b - a)%nat.
Proof. intros H1 H2. unfold sub. rewrite firstn_length, skipn_length. lia. Qed.

Lemma sub_0 l b : sub l 0 b = firstn b l.
Proof. unfold sub. rewrite Nat.sub_0_r. reflexivity. Qed.

Lemma firstn_firstn_le {A} (l : list A) n m : (n <= m)%nat -> firstn n (firstn m l) = firstn n l.
Proof. intros H. rewrite firstn_firstn. f_equal. lia. Qed.

Lemma split3 l a b : (a <= b)%nat -> l = firstn a l ++ sub l a b ++ skipn b l.
Proof.
  intros H. unfold sub.
  rewrite <- (firstn_skipn a l) at 1. f_equal.
  rewrite <- (firstn_skipn (b - a) (skipn a l)) at 1. f_equal.
  rewrite skipn_skipn. f_equal. lia.
Qed.

Lemma bytes_ok_sub l a b : bytes_ok l = true -> bytes_ok (sub l a b) = true.
Proof. intros H. unfold sub. apply bytes_ok_firstn, bytes_ok_skipn, H. Qed.

Lemma bytes_ok_bat l k : bytes_ok l = true -> bat l k < 256.
Proof.
  unfold bat. revert k. induction l as [|a l IH]; intros k H.
  - destruct k; simpl; lia.
  - cbn [bytes_ok forallb] in H. apply andb_true_iff in H as [Ha Hl]. unfold byte_ok in Ha.
    destruct k; simpl; [lia|]. apply IH. exact Hl.
Qed.

Lemma bytes_ok_rd16 l k : bytes_ok l = true -> rd16 l k < 65536.
Proof. intros H. unfold rd16. pose proof (bytes_ok_bat l k H). pose proof (bytes_ok_bat l (S k) H). lia. Qed.

Lemma bytes_ok_rd32 l k : bytes_ok l = true -> rd32 l k < 4294967296.
Proof. intros H. unfold rd32. pose proof (bytes_ok_rd16 l k H). pose proof (bytes_ok_rd16 l (k + 2) H). lia. Qed.

(* two bytes of a list, exposed *)
Lemma expose16 l off : (off + 2 <= length l)%nat ->
  l = firstn off l ++ [bat l off; bat l (S off)] ++ skipn (off + 2) l.
Proof.
  intros H. rewrite <- (firstn_skipn off l) at 1. f_equal.
  remember (skipn off l) as r eqn:Er.
  assert (Hl : (2 <= length r)%nat) by (subst r; rewrite skipn_length; lia).
  destruct r as [|x [|y r']]; simpl in Hl; try lia.
  assert (Hx : bat l off = x). { rewrite <- (Nat.add_0_r off), <- bat_skipn, <- Er. reflexivity. }
  assert (Hy : bat l (S off) = y). { replace (S off) with (off + 1)%nat by lia. rewrite <- bat_skipn, <- Er. reflexivity. }
  rewrite Hx, Hy. simpl. f_equal. f_equal.
  replace (off + 2)%nat with (2 + off)%nat by lia. rewrite <- skipn_skipn, <- Er. reflexivity.
Qed.

Lemma expose8 l off : (off < length l)%nat ->
  l = firstn off l ++ [bat l off] ++ skipn (off + 1) l.
Proof.
  intros H. rewrite <- (firstn_skipn off l) at 1. f_equal.
  remember (skipn off l) as r eqn:Er.
  assert (Hl : (1 <= length r)%nat) by (subst r; rewrite skipn_length; lia).
  destruct r as [|x r']; simpl in Hl; try lia.
  assert (Hx : bat l off = x). { rewrite <- (Nat.add_0_r off), <- bat_skipn, <- Er. reflexivity. }
  rewrite Hx. simpl. f_equal.
  replace (off + 1)%nat with (1 + off)%nat by lia. rewrite <- skipn_skipn, <- Er. reflexivity.
Qed.

(* ---------------------------------------------------------------------------------------------- *)
(** * wr *)

Lemma wr_length l off bs : (off + length bs <= length l)%nat -> length (wr l off bs) = length l.
Proof. intros H. unfold wr. rewrite !app_length, firstn_length, skipn_length. lia. Qed.

Lemma be16_bytes_length v : length (be16_bytes v) = 2%nat.
Proof. reflexivity. Qed.

Lemma wr16_length l off v : (off + 2 <= length l)%nat -> length (wr16 l off v) = length l.
Proof. intros H. unfold wr16. apply wr_length. rewrite be16_bytes_length. exact H. Qed.

Lemma wr8_length l off v : (off + 1 <= length l)%nat -> length (wr8 l off v) = length l.
Proof. intros H. unfold wr8. apply wr_length. simpl. exact H. Qed.

Lemma wr32_length l off v : (off + 4 <= length l)%nat -> length (wr32 l off v) = length l.
Proof.
  intros H. unfold wr32.
  assert (H1 : length (wr16 l off ((v / 65536) mod 65536)) = length l) by (apply wr16_length; lia).
  rewrite wr16_length by lia. exact H1.
Qed.

Lemma bat_wr_out l off bs k : (off + length bs <= length l)%nat -> (k < off \/ off + length bs <= k)%nat ->
  bat (wr l off bs) k = bat l k.
Proof.
  intros H [Hk|Hk]; unfold wr.
  - rewrite bat_app_l by (rewrite firstn_length; lia). apply bat_firstn. exact Hk.
  - assert (E : exists d, k = (length (firstn off l) + (length bs + d))%nat).
    { exists (k - off - length bs)%nat. rewrite firstn_length. lia. }
    destruct E as [d ->]. rewrite bat_app_r, bat_app_r, bat_skipn. f_equal. rewrite firstn_length. lia.
Qed.

Lemma bat_wr_in l off bs k : (off + length bs <= length l)%nat -> (k < length bs)%nat ->
  bat (wr l off bs) (off + k) = nth k bs 0.
Proof.
  intros H Hk. unfold wr.
  replace (off + k)%nat with (length (firstn off l) + k)%nat by (rewrite firstn_length; lia).
  rewrite bat_app_r, bat_app_l by exact Hk. reflexivity.
Qed.

Lemma bat_wr_in0 l off bs : (off + length bs <= length l)%nat -> (0 < length bs)%nat ->
  bat (wr l off bs) off = nth 0 bs 0.
Proof. intros H Hk. pose proof (bat_wr_in l off bs 0 H Hk) as E. rewrite Nat.add_0_r in E. exact E. Qed.

Lemma bat_wr_in1 l off bs : (off + length bs <= length l)%nat -> (1 < length bs)%nat ->
  bat (wr l off bs) (S off) = nth 1 bs 0.
Proof. intros H Hk. pose proof (bat_wr_in l off bs 1 H Hk) as E. rewrite Nat.add_1_r in E. exact E. Qed.

Lemma wr_app_l a b off bs : (off + length bs <= length a)%nat -> wr (a ++ b) off bs = wr a off bs ++ b.
Proof.
  intros H. unfold wr. rewrite firstn_app, skipn_app.
  replace (off - length a)%nat with 0%nat by lia. replace (off + length bs - length a)%nat with 0%nat by lia.
  simpl. rewrite app_nil_r, <- !app_assoc. reflexivity.
Qed.

Lemma wr_app_r a b off bs : wr (a ++ b) (length a + off) bs = a ++ wr b off bs.
Proof.
  unfold wr. rewrite firstn_app, skipn_app.
  rewrite firstn_all2 by lia. rewrite skipn_all2 by lia.
  replace (length a + off - length a)%nat with off by lia.
  replace (length a + off + length bs - length a)%nat with (off + length bs)%nat by lia.
  simpl. rewrite <- !app_assoc. reflexivity.
Qed.

Lemma firstn_wr n l off bs : (off + length bs <= n)%nat -> (n <= length l)%nat ->
  firstn n (wr l off bs) = wr (firstn n l) off bs.
Proof.
  intros H Hn. rewrite <- (firstn_skipn n l) at 1.
  rewrite wr_app_l by (rewrite firstn_length; lia).
  rewrite firstn_app. rewrite wr_length by (rewrite firstn_length; lia).
  rewrite firstn_length. replace (n - Nat.min n (length l))%nat with 0%nat by lia. simpl. rewrite app_nil_r.
  apply firstn_all2. rewrite wr_length; rewrite firstn_length; lia.
Qed.

Lemma wr_wr_same l off bs bs' : length bs = length bs' -> (off + length bs <= length l)%nat ->
  wr (wr l off bs) off bs' = wr l off bs'.
Proof.
  intros E H. unfold wr at 1 3. f_equal.
  - unfold wr. rewrite firstn_app, firstn_length. replace (off - Nat.min off (length l))%nat with 0%nat by lia.
    simpl. rewrite app_nil_r. apply firstn_firstn_le. lia.
  - f_equal. unfold wr. rewrite skipn_app, firstn_length.
    rewrite skipn_all2 by (rewrite firstn_length; lia). simpl.
    replace (off + length bs' - Nat.min off (length l))%nat with (length bs) by lia.
    rewrite skipn_app. rewrite skipn_all. replace (length bs - length bs)%nat with 0%nat by lia. simpl.
    rewrite E. reflexivity.
Qed.

Lemma wr16_wr16_same l off a b : (off + 2 <= length l)%nat -> wr16 (wr16 l off a) off b = wr16 l off b.
Proof. intros H. unfold wr16. apply wr_wr_same; [reflexivity|exact H]. Qed.

Lemma wr16_app_l a b off v : (off + 2 <= length a)%nat -> wr16 (a ++ b) off v = wr16 a off v ++ b.
Proof. intros H. unfold wr16. apply wr_app_l. exact H. Qed.

Lemma firstn_wr16 n l off v : (off + 2 <= n)%nat -> (n <= length l)%nat ->
  firstn n (wr16 l off v) = wr16 (firstn n l) off v.
Proof. intros. unfold wr16. apply firstn_wr; assumption. Qed.

Lemma bytes_ok_wr l off bs : bytes_ok l = true -> bytes_ok bs = true -> bytes_ok (wr l off bs) = true.
Proof.
  intros Hl Hb. unfold wr. rewrite !bytes_ok_app, Hb, bytes_ok_firstn, bytes_ok_skipn by exact Hl. reflexivity.
Qed.

Lemma bytes_ok_wr16 l off v : bytes_ok l = true -> bytes_ok (wr16 l off v) = true.
Proof. intros H. unfold wr16. apply bytes_ok_wr; [exact H|apply be16_bytes_ok]. Qed.

Lemma bytes_ok_wr8 l off v : bytes_ok l = true -> bytes_ok (wr8 l off v) = true.
Proof.
  intros H. unfold wr8. apply bytes_ok_wr; [exact H|]. cbn. rewrite andb_true_r. unfold byte_ok.
  apply N.ltb_lt. apply N.mod_lt. discriminate.
Qed.

Lemma bytes_ok_wr32 l off v : bytes_ok l = true -> bytes_ok (wr32 l off v) = true.
Proof. intros H. unfold wr32. apply bytes_ok_wr16, bytes_ok_wr16, H. Qed.

(* reading back *)
Lemma rd16_wr16_same l off v : (off + 2 <= length l)%nat -> v < 65536 -> rd16 (wr16 l off v) off = v.
Proof.
  intros H Hv. unfold rd16, wr16.
  rewrite bat_wr_in0, bat_wr_in1 by (rewrite ?be16_bytes_length; lia).
  cbn [be16_bytes nth]. lia.
Qed.

Lemma rd16_wr_out l off bs k : (off + length bs <= length l)%nat -> (k + 2 <= off \/ off + length bs <= k)%nat ->
  rd16 (wr l off bs) k = rd16 l k.
Proof. intros H Hk. unfold rd16. rewrite !bat_wr_out by lia. reflexivity. Qed.

Lemma rd16_wr16_out l off v k : (off + 2 <= length l)%nat -> (k + 2 <= off \/ off + 2 <= k)%nat ->
  rd16 (wr16 l off v) k = rd16 l k.
Proof. intros H Hk. unfold wr16. apply rd16_wr_out; rewrite ?be16_bytes_length; lia. Qed.

Lemma bat_wr16_out l off v k : (off + 2 <= length l)%nat -> (k < off \/ off + 2 <= k)%nat ->
  bat (wr16 l off v) k = bat l k.
Proof. intros H Hk. unfold wr16. apply bat_wr_out; rewrite ?be16_bytes_length; lia. Qed.

Lemma bat_wr8_same l off v : (off + 1 <= length l)%nat -> bat (wr8 l off v) off = v mod 256.
Proof.
  intros H. unfold wr8. rewrite bat_wr_in0 by (simpl; lia). reflexivity.
Qed.

Lemma bat_wr8_out l off v k : (off + 1 <= length l)%nat -> k <> off -> bat (wr8 l off v) k = bat l k.
Proof. intros H Hk. unfold wr8. apply bat_wr_out; simpl; lia. Qed.

Lemma rd16_wr8_out l off v k : (off + 1 <= length l)%nat -> (k + 2 <= off \/ off + 1 <= k)%nat ->
  rd16 (wr8 l off v) k = rd16 l k.
Proof. intros H Hk. unfold wr8. apply rd16_wr_out; simpl; lia. Qed.

Lemma rd32_wr32_same l off v : (off + 4 <= length l)%nat -> v < 4294967296 -> rd32 (wr32 l off v) off = v.
Proof.
  intros H Hv. unfold rd32, wr32.
  rewrite rd16_wr16_same by (rewrite ?wr16_length; lia).
  rewrite rd16_wr16_out by (rewrite ?wr16_length; lia).
  rewrite rd16_wr16_same by lia. lia.
Qed.

(* ---------------------------------------------------------------------------------------------- *)
(** * sums *)

Lemma even_firstn_len (l : list N) off : (off <= length l)%nat -> Nat.even off = true -> Nat.even (length (firstn off l)) = true.
Proof. intros H E. rewrite firstn_length. replace (Nat.min off (length l)) with off by lia. exact E. Qed.

Lemma sum16_be16 v : v < 65536 -> (v / 256) mod 256 * 256 + v mod 256 = v.
Proof. intros H. lia. Qed.

(* a 16-bit field at an even offset is replaced *)
Lemma sum16_wr16 l off v : Nat.even off = true -> (off + 2 <= length l)%nat -> v < 65536 ->
  sum16 (wr16 l off v) + rd16 l off = sum16 l + v.
Proof.
  intros E H Hv. unfold wr16, wr. rewrite be16_bytes_length.
  assert (X : sum16 l = sum16 (firstn off l ++ [bat l off; bat l (S off)] ++ skipn (off + 2) l)).
  { f_equal. apply expose16. exact H. }
  rewrite X.
  pose proof (sum16_replace16 (firstn off l) (skipn (off + 2) l) (bat l off) (bat l (S off))
                ((v / 256) mod 256) (v mod 256) (even_firstn_len l off ltac:(lia) E)) as R.
  unfold be16_bytes. unfold rd16. rewrite sum16_be16 in R by exact Hv. exact R.
Qed.

(* a byte at an odd offset (the low byte of its 16-bit word) is replaced *)
Lemma sum16_wr8_odd l off v : Nat.even off = false -> (off + 1 <= length l)%nat ->
  sum16 (wr8 l off v) + bat l off = sum16 l + v mod 256.
Proof.
  intros E H. unfold wr8, wr. cbn [length].
  assert (X : sum16 l = sum16 (firstn off l ++ [bat l off] ++ skipn (off + 1) l)).
  { f_equal. apply expose8. lia. }
  rewrite X.
  assert (Ho : Nat.even (length (firstn off l)) = false).
  { rewrite firstn_length. replace (Nat.min off (length l)) with off by lia. exact E. }
  rewrite !sum16_app_odd by exact Ho.
  cbn [app]. rewrite !sum16le_cons. lia.
Qed.

Lemma sum16_wr32 l off v : Nat.even off = true -> (off + 4 <= length l)%nat -> v < 4294967296 ->
  sum16 (wr32 l off v) + rd16 l off + rd16 l (off + 2) = sum16 l + v / 65536 + v mod 65536.
Proof.
  intros E H Hv. unfold wr32.
  assert (E2 : Nat.even (off + 2) = true) by (rewrite Nat.even_add, E; reflexivity).
  pose proof (sum16_wr16 (wr16 l off ((v / 65536) mod 65536)) (off + 2) (v mod 65536) E2
                ltac:(rewrite wr16_length; lia) ltac:(lia)) as R2.
  rewrite rd16_wr16_out in R2 by lia.
  pose proof (sum16_wr16 l off ((v / 65536) mod 65536) E ltac:(lia) ltac:(lia)) as R1.
  rewrite (N.mod_small (v / 65536)) in * by lia. lia.
Qed.

Lemma sum16_even_bound l : bytes_ok l = true -> sum16 l <= 65535 * ((N.of_nat (length l) + 1) / 2).
Proof. apply sum16_bound_len. Qed.

(* ---------------------------------------------------------------------------------------------- *)
(** * slices past a write; first byte and the sum *)

Lemma skipn_wr_after n l off bs : (off + length bs <= n)%nat -> (off + length bs <= length l)%nat ->
  skipn n (wr l off bs) = skipn n l.
Proof.
  intros H Hl. unfold wr.
  rewrite skipn_app, firstn_length.
  rewrite (skipn_all2 (firstn off l)) by (rewrite firstn_length; lia). cbn [app].
  replace (Nat.min off (length l)) with off by lia.
  rewrite skipn_app. rewrite (skipn_all2 bs) by lia. cbn [app].
  rewrite skipn_skipn. f_equal. lia.
Qed.

Lemma sub_wr_after l off bs a b : (off + length bs <= a)%nat -> (off + length bs <= length l)%nat ->
  sub (wr l off bs) a b = sub l a b.
Proof. intros H Hl. unfold sub. rewrite skipn_wr_after by assumption. reflexivity. Qed.

Lemma sub_wr16_after l off v a b : (off + 2 <= a)%nat -> (off + 2 <= length l)%nat ->
  sub (wr16 l off v) a b = sub l a b.
Proof. intros. unfold wr16. apply sub_wr_after; rewrite ?be16_bytes_length; assumption. Qed.

Lemma sum16_ge_first l : bat l 0 * 256 <= sum16 l.
Proof. destruct l as [|a [|b r]]; cbn [sum16 bat nth]; lia. Qed.

Lemma even_mul4 n : Nat.even (n * 4) = true.
Proof. rewrite Nat.even_mul. cbn. apply orb_true_r. Qed.

Lemma be32_bytes_small v : v < 65536 -> be32_bytes v = [0; 0] ++ be16_bytes v.
Proof.
  intros H. unfold be32_bytes. rewrite N.div_small by lia. rewrite (N.mod_small v) by lia. reflexivity.
Qed.

(* the sum of the pseudo-header: addresses + protocol + L4 length *)
Lemma sum16_pseudo_v4 s proto len : (20 <= length s)%nat -> len < 65536 ->
  sum16 (pseudo_hdr true s proto len) = sum16 (sub s 12 20) + proto + len /\
  Nat.even (length (pseudo_hdr true s proto len)) = true.
Proof.
  intros Hs Hl. unfold pseudo_hdr.
  assert (L : length (sub s 12 20) = 8%nat) by (rewrite sub_length; lia).
  split.
  - rewrite !sum16_app by (rewrite ?L; reflexivity). rewrite sum16_be16_bytes by exact Hl.
    cbn [sum16]. lia.
  - rewrite !app_length, L. reflexivity.
Qed.

Lemma sum16_pseudo_v6 s proto len : (40 <= length s)%nat -> len < 65536 ->
  sum16 (pseudo_hdr false s proto len) = sum16 (sub s 8 40) + proto + len /\
  Nat.even (length (pseudo_hdr false s proto len)) = true.
Proof.
  intros Hs Hl. unfold pseudo_hdr.
  assert (L : length (sub s 8 40) = 32%nat) by (rewrite sub_length; lia).
  rewrite be32_bytes_small by exact Hl.
  split.
  - rewrite !sum16_app by (rewrite ?L; reflexivity). rewrite sum16_be16_bytes by exact Hl.
    cbn [sum16]. lia.
  - rewrite !app_length, L. reflexivity.
Qed.

(* Property statements of model/HsMgr.v (C09, C10), derived from the invariant HsMgr_inv.HInv. *)
From Coq Require Import List NArith Bool Lia.
Import ListNotations.
From NV Require Import gen.Consts_HostMap model.HostMap proofs.HostMap_maps proofs.HostMap_lists proofs.HostMap_inv
  proofs.HostMap_ops proofs.HostMap_props model.HsMgr proofs.HsMgr_frame proofs.HsMgr_inv.
Open Scope N_scope.

Lemma hrun_app cfg ops1 : forall s ops2, hrun cfg s (ops1 ++ ops2) = hrun cfg (hrun cfg s ops1) ops2.
Proof. induction ops1 as [|o r IH]; intros s ops2; cbn [hrun app]; [reflexivity|apply IH]. Qed.

Lemma has_self_in cfg cert a : has_self cfg cert = false -> In a cert -> is_self cfg a = false.
Proof.
  unfold has_self. intros H IN. destruct (is_self cfg a) eqn:E; [|reflexivity].
  assert (X : existsb (is_self cfg) cert = true) by (apply existsb_exists; eauto). congruence.
Qed.

(* the index maps and primaries of the main hostmap *)
Definition main_same (m m' : HostMap.state) : Prop :=
  hosts m' = hosts m /\ more m' = more m /\ idx m' = idx m /\ ridx m' = ridx m /\ rel m' = rel m.

Lemma main_same_refl m : main_same m m.
Proof. repeat split. Qed.

(* ---------- C10 ------------------------------------------------------------------------------------ *)

Section Props.
Variable cfg : config.

Lemma list_nonempty_hosts m a h : WF m -> In h (get_list m a) -> exists e, mget a (hosts m) = Some e.
Proof.
  intros W IN. unfold get_list in IN. destruct (mget a (more m)) as [l|] eqn:EM.
  - destruct (wf_more _ W _ _ EM) as [_ NN]. destruct (mget a (hosts m)) as [e|]; [eauto|contradiction].
  - destruct (mget a (hosts m)) as [e|]; [eauto|contradiction].
Qed.

Lemma test_out_shape s a : test_out s a = [] \/ exists q u, test_out s a = [OTest q u].
Proof.
  unfold test_out. destruct (mget a (hosts (hm s))) as [e|]; [|now left].
  destruct (mget e (infos (hm s))) as [hi|]; [|now left]. destruct (x_remote (hx_of s e)) as [u|]; [|now left].
  right. eauto.
Qed.

Lemma seen_set_remote s x v pkt y : seen (set_remote s x v) pkt y = seen s pkt y.
Proof.
  unfold seen, hx_of, set_remote. cbn [hxs]. rewrite mget_mset. destruct (N.eqb_spec y x) as [->|NE]; [|reflexivity].
  cbn [x_init x_pkt0]. reflexivity.
Qed.

(* A stage 1 whose payload equals the one kept by a tunnel still held for the first certificate address:
   nothing is created, no map (index maps, primaries, hostinfo records) changes, and the only packets sent are
   the stored stage-2 of such a tunnel, preceded by a test request if the remote of that tunnel moved to a
   preferred address. *)
Theorem replay_noop ops pkt cs ridx t a0 rest v h :
  let s := hrun cfg hinit ops in
  has_self cfg (a0 :: rest) = false -> gen_index cs <> None ->
  In h (get_list (hm s) a0) -> seen s pkt h = true ->
  exists x pre,
    In x (get_list (hm s) a0) /\ seen s pkt x = true /\
    let r := hstep cfg (RespStage1 pkt cs ridx t (a0 :: rest) v) s in
    hm (fst r) = hm s /\ nxt (fst r) = nxt s /\ log (fst r) = log s /\ blk (fst r) = blk s /\
    (forall y, y <> x -> mget y (hxs (fst r)) = mget y (hxs s)) /\
    (forall y, seen (fst r) pkt y = seen s pkt y) /\
    snd r = pre ++ [OStage2 x v] /\ (pre = [] \/ exists q u, pre = [OTest q u]).
Proof.
  intros s NS GI IN SE.
  pose proof (hinv_reachable cfg ops) as HI. fold s in HI. pose proof (good_WF _ (hv_good _ _ HI)) as W.
  destruct (list_nonempty_hosts _ _ _ W IN) as [e EH].
  destruct (find (seen s pkt) (get_list (hm s) a0)) as [x|] eqn:FD.
  2:{ pose proof (find_none _ _ FD _ IN). congruence. }
  destruct (find_some _ _ FD) as [INX SX].
  destruct (gen_index cs) as [[i cs']|] eqn:G; [|congruence].
  assert (CA : check_and_complete s pkt t a0 i = CSeen x).
  { unfold check_and_complete. now rewrite EH, FD. }
  exists x. cbn [hstep]. rewrite NS, G, CA. unfold set_remote_if_preferred.
  assert (SR : forall pre, (pre = [] \/ exists q u, pre = [OTest q u]) ->
     exists pre0, In x (get_list (hm s) a0) /\ seen s pkt x = true /\
       hm (set_remote s x v) = hm s /\ nxt (set_remote s x v) = nxt s /\ log (set_remote s x v) = log s /\
       blk (set_remote s x v) = blk s /\
       (forall y, y <> x -> mget y (hxs (set_remote s x v)) = mget y (hxs s)) /\
       (forall y, seen (set_remote s x v) pkt y = seen s pkt y) /\
       pre ++ [OStage2 x v] = pre0 ++ [OStage2 x v] /\ (pre0 = [] \/ exists q u, pre0 = [OTest q u])).
  { intros pre P. exists pre. repeat split; auto.
    - intros y NE. unfold set_remote. cbn [hxs]. now rewrite mget_mset_neq.
    - intros y. apply seen_set_remote. }
  destruct (x_remote (hx_of s x)) as [cur|].
  - destruct (negb (mem cur (c_pref cfg)) && mem v (c_pref cfg)); cbn [fst snd].
    + apply SR, test_out_shape.
    + exists []. repeat split; auto.
  - cbn [fst snd]. apply SR, test_out_shape.
Qed.

(* A stage 1 whose peer-reported time is not newer than the primary tunnel for the first certificate address,
   when this node holds that tunnel as responder: nothing is created and no map changes. *)
Theorem older_rejected s pkt cs ridx t a0 rest v e :
  mget a0 (hosts (hm s)) = Some e -> x_init (hx_of s e) = false -> t <= x_time (hx_of s e) ->
  let r := hstep cfg (RespStage1 pkt cs ridx t (a0 :: rest) v) s in
  hm (fst r) = hm s /\ nxt (fst r) = nxt s /\ log (fst r) = log s /\
  (forall x w, In (OStage2 x w) (snd r) -> seen s pkt x = true).
Proof.
  intros EH XI LE. cbn [hstep]. destruct (has_self cfg (a0 :: rest)); [cbn; repeat split; auto; intros x w []|].
  destruct (gen_index cs) as [[i cs']|]; [|cbn; repeat split; auto; intros x w []].
  unfold check_and_complete. rewrite EH.
  destruct (find (seen s pkt) (get_list (hm s) a0)) as [x|] eqn:FD.
  - destruct (find_some _ _ FD) as [INX SX]. unfold set_remote_if_preferred.
    assert (T : forall s1 x0 w, In (OStage2 x0 w) (test_out s1 a0) -> False).
    { intros s1 x0 w. destruct (test_out_shape s1 a0) as [->|(q & u & ->)]; [intros []|].
      intros [X|[]]. discriminate. }
    assert (O : forall pre, (forall x0 w, In (OStage2 x0 w) pre -> False) ->
                forall x0 w, In (OStage2 x0 w) (pre ++ [OStage2 x v]) -> seen s pkt x0 = true).
    { intros pre P x0 w IN. apply in_app_or in IN as [IN|[IN|[]]]; [destruct (P _ _ IN)|]. inversion IN; subst. exact SX. }
    destruct (x_remote (hx_of s x)) as [cur|].
    + destruct (negb (mem cur (c_pref cfg)) && mem v (c_pref cfg)); cbn [fst snd].
      * repeat split; auto. apply O. apply T.
      * repeat split; auto. apply (O []). intros x0 w [].
    + cbn [fst snd]. repeat split; auto. apply O. apply T.
  - apply N.leb_le in LE. rewrite LE, XI. cbn [negb andb fst snd]. repeat split; auto.
    intros x w IN. destruct (test_out_shape s a0) as [E|(q & u & E)]; rewrite E in IN; [destruct IN|].
    destruct IN as [X|[]]. discriminate.
Qed.

(* ---------- C09 ------------------------------------------------------------------------------------ *)

(* every tunnel in Indexes is described by a completed handshake of the log: its recorded peer addresses are
   exactly the certificate addresses of that handshake, none of them is one of my own, and a tunnel this node
   initiated was started for one of the certificate addresses *)
Definition bound_to (s : hstate) (h : N) (hi : hinfo) (e : ev) : Prop :=
  In e (log s) /\ e_id e = h /\ hi_addrs hi = e_cert e /\ e_cert e <> [] /\ has_self cfg (e_cert e) = false /\
  x_init (hx_of s h) = e_init e /\ x_pkt0 (hx_of s h) = e_pkt e /\ x_time (hx_of s h) = e_time e /\
  (e_init e = true -> exists tg, e_target e = Some tg /\ In tg (e_cert e)).

Lemma J_bound s h hi : J cfg s -> mget h (infos (hm s)) = Some hi -> mget (hi_local hi) (idx (hm s)) = Some h ->
  exists e, bound_to s h hi e.
Proof.
  intros JJ E1 E2. destruct (JJ _ _ E1 E2) as (e & IN & A & B & (r & C) & D & F & G).
  exists e. unfold bound_to, hx_of. rewrite C. cbn [x_init x_pkt0 x_time]. repeat split; auto.
Qed.

Theorem live_bound ops i h :
  let s := hrun cfg hinit ops in
  mget i (idx (hm s)) = Some h -> exists hi e, mget h (infos (hm s)) = Some hi /\ hi_local hi = i /\ bound_to s h hi e.
Proof.
  intros s E. pose proof (hinv_reachable cfg ops) as HI. fold s in HI.
  pose proof (good_WF _ (hv_good _ _ HI)) as W.
  destruct (wf_idx _ W _ _ E) as (hi & E1 & E2 & _). subst i.
  destruct (J_bound s h hi (hv_j _ _ HI) E1 E) as [e B]. eauto.
Qed.

(* a tunnel used for overlay address a: a is one of the certificate addresses and not one of mine *)
Theorem member_bound ops a h :
  let s := hrun cfg hinit ops in
  In h (get_list (hm s) a) ->
  exists hi e, mget h (infos (hm s)) = Some hi /\ bound_to s h hi e /\ In a (hi_addrs hi) /\ In a (e_cert e) /\
               is_self cfg a = false.
Proof.
  intros s IN. pose proof (hinv_reachable cfg ops) as HI. fold s in HI.
  pose proof (good_WF _ (hv_good _ _ HI)) as W.
  destruct (wf_member _ W _ _ IN) as [(hi & E1 & E2) (hi' & E3 & OW)].
  rewrite E1 in E3. inversion E3; subst hi'.
  destruct (J_bound s h hi (hv_j _ _ HI) E1 E2) as [e B].
  exists hi, e. split; [assumption|]. split; [assumption|]. split; [assumption|].
  destruct B as (_ & _ & EA & _ & NS & _). rewrite EA in OW. split; [assumption|].
  eapply has_self_in; eauto.
Qed.

Theorem primary_bound ops a h :
  let s := hrun cfg hinit ops in
  mget a (hosts (hm s)) = Some h ->
  exists hi e, mget h (infos (hm s)) = Some hi /\ bound_to s h hi e /\ In a (hi_addrs hi) /\ In a (e_cert e) /\
               is_self cfg a = false.
Proof.
  intros s E. pose proof (hinv_reachable cfg ops) as HI. fold s in HI.
  pose proof (good_WF _ (hv_good _ _ HI)) as W.
  destruct (wf_primary _ W _ _ E) as [r GL]. apply member_bound. fold s. rewrite GL. now left.
Qed.

(* the log is sound: an entry is appended exactly when a handshake completes, with the arguments of that
   handshake *)
Definition ev_of_op (o : hop) (e : ev) : Prop :=
  match o with
  | RespStage1 pkt cs ridx t cert v => e_init e = false /\ e_pkt e = pkt /\ e_time e = t /\ e_cert e = cert
  | InitComplete h cert ridx t v => e_init e = true /\ e_id e = h /\ e_time e = t /\ e_cert e = cert
  | _ => False
  end.

Lemma start_with_log s a bl : log (start_with s a bl) = log s.
Proof.
  unfold start_with. destruct (step (OStart (nxt s) a) (hm s)) as [m' r]. destruct r; reflexivity.
Qed.

Lemma log_step o s :
  log (fst (hstep cfg o s)) = log s \/ exists e, log (fst (hstep cfg o s)) = log s ++ [e] /\ ev_of_op o e.
Proof.
  destruct o; cbn [hstep]; try (left; reflexivity).
  - left. cbn [fst]. apply start_with_log.
  - destruct (complete_guard h (hm s)); [|now left]. destruct (has_self cfg cert); [now left|].
    destruct (step (OComplete h cert ridx) (hm s)) as [m' r]. destruct r; try (left; reflexivity).
    destruct b.
    + right. eexists. split; [reflexivity|]. cbn. auto.
    + left. destruct (target_of s h); cbn [fst]; [now rewrite start_with_log|reflexivity].
  - destruct cert as [|a0 r]; [now left|]. destruct (has_self cfg (a0 :: r)); [now left|].
    destruct (gen_index cs) as [[i cs']|]; [|now left].
    destruct (check_and_complete s pkt t a0 i).
    + left. unfold set_remote_if_preferred. destruct (x_remote (hx_of s x)) as [cur|]; [|reflexivity].
      destruct (_ && _); reflexivity.
    + now left.
    + now left.
    + right. eexists. split; [reflexivity|]. cbn. auto.
  - left. destruct (mget a (pvpn (hm s))); reflexivity.
Qed.

Theorem log_sound ops e :
  In e (log (hrun cfg hinit ops)) ->
  exists ops1 o ops2, ops = ops1 ++ o :: ops2 /\ ev_of_op o e /\
    log (hrun cfg hinit (ops1 ++ [o])) = log (hrun cfg hinit ops1) ++ [e].
Proof.
  induction ops as [|o ops IH] using rev_ind; [intros []|].
  rewrite hrun_app. cbn [hrun]. intros IN.
  destruct (log_step o (hrun cfg hinit ops)) as [E|(e' & E & OK)].
  - rewrite E in IN. destruct (IH IN) as (o1 & o' & o2 & -> & A & B).
    exists o1, o', (o2 ++ [o]). split; [now rewrite <- app_assoc|]. auto.
  - rewrite E in IN. apply in_app_or in IN as [IN|[<-|[]]].
    + destruct (IH IN) as (o1 & o' & o2 & -> & A & B).
      exists o1, o', (o2 ++ [o]). split; [now rewrite <- app_assoc|]. auto.
    + exists ops, o, []. split; [reflexivity|]. split; [assumption|]. rewrite hrun_app. cbn [hrun]. exact E.
Qed.

(* a certificate naming one of my addresses is refused by the responder: nothing changes, nothing is sent *)
Theorem self_refused_resp s pkt cs ridx t cert v :
  has_self cfg cert = true -> hstep cfg (RespStage1 pkt cs ridx t cert v) s = (s, []).
Proof. intros H. cbn [hstep]. destruct cert; [reflexivity|]. now rewrite H. Qed.

Lemma pend_delete_punreachable m h :
  Good m -> complete_guard h m = true -> punreachable (pend_delete h m) h.
Proof.
  intros G GD. destruct (guard_known _ _ GD) as [hi HI]. pose proof G as (IV & _ & _).
  unfold complete_guard in GD. rewrite HI in GD. apply is_some_id_true in GD.
  destruct (i_pidx _ IV _ _ GD) as (hi' & E1 & _ & SP). unfold info in E1. rewrite HI in E1. inversion E1; subst hi'.
  destruct (pend_delete_good m h hi G HI) as [(IV' & _) _].
  apply nonpend_punreachable; [assumption|].
  unfold pend_delete. rewrite st_gmove, N.eqb_refl.
  destruct (pend_unlink_spec m h hi HI) as (_ & _ & _ & _ & _ & _ & _ & _ & EG).
  unfold st_of at 1. rewrite EG. fold (st_of m h). rewrite SP. cbn. discriminate.
Qed.

(* ... and by the initiator: the main hostmap is untouched, the pending handshake is dropped, nothing is sent *)
Theorem self_refused_init ops h cert ridx t v :
  let s := hrun cfg hinit ops in
  complete_guard h (hm s) = true -> has_self cfg cert = true ->
  let r := hstep cfg (InitComplete h cert ridx t v) s in
  main_same (hm s) (hm (fst r)) /\ infos (hm (fst r)) = infos (hm s) /\ punreachable (hm (fst r)) h /\
  hxs (fst r) = hxs s /\ log (fst r) = log s /\ snd r = [].
Proof.
  intros s GD NS. pose proof (hinv_reachable cfg ops) as HI. fold s in HI.
  cbn [hstep]. rewrite GD, NS. cbn [fst snd set_hm hm hxs log].
  rewrite (step_penddelete_known h (hm s) (guard_known _ _ GD)).
  destruct (pend_delete_frame h (hm s)) as (A & B & C & D & E & F).
  split; [repeat split; assumption|]. split; [assumption|]. split; [|auto].
  apply pend_delete_punreachable; [apply (hv_good _ _ HI)|assumption].
Qed.

(* the responder's certificate does not list the address the initiator was trying to reach: no tunnel is
   installed - the main hostmap is untouched - the pending handshake is dropped and restarted with the
   sender's underlay address blocked, and a close-tunnel goes to the host that answered *)
Theorem wrong_responder ops h cert ridx t v a :
  let s := hrun cfg hinit ops in
  complete_guard h (hm s) = true -> has_self cfg cert = false ->
  target_of s h = Some a -> ~ In a cert ->
  let r := hstep cfg (InitComplete h cert ridx t v) s in
  main_same (hm s) (hm (fst r)) /\
  (forall y, y <> nxt s -> mget y (infos (hm (fst r))) = mget y (infos (hm s))) /\
  punreachable (hm (fst r)) h /\
  (exists h', mget a (pvpn (hm (fst r))) = Some h' /\ h' <> h /\ In v (blk_of (fst r) h') /\
              (forall u, In u (blk_of s h) -> In u (blk_of (fst r) h'))) /\
  hxs (fst r) = hxs s /\ log (fst r) = log s /\ snd r = [OClose ridx v].
Proof.
  intros s GD NS TG NI. pose proof (hinv_reachable cfg ops) as HI. fold s in HI.
  destruct (guard_known _ _ GD) as [hi HH].
  assert (CH : correct_host h cert (hm s) = false).
  { unfold correct_host. rewrite HH. unfold target_of in TG. rewrite HH in TG.
    destruct (hi_addrs hi) as [|a' r']; [discriminate|]. inversion TG; subst a'. now apply mem_false. }
  cbn [hstep]. rewrite GD, NS, (step_complete_cases _ _ _ _ GD), CH, TG. cbn [fst snd].
  set (m1 := pend_delete h (hm s)).
  destruct (pend_delete_frame h (hm s)) as (A & B & C & D & E & F). fold m1 in A, B, C, D, E, F.
  assert (P1 : punreachable m1 h) by (apply pend_delete_punreachable; [apply (hv_good _ _ HI)|assumption]).
  assert (U : mget (nxt s) (infos m1) = None) by (rewrite A; apply (hv_fresh _ _ HI); lia).
  assert (NH : nxt s <> h).
  { intros X. rewrite <- X in HH. rewrite (hv_fresh _ _ HI (nxt s)) in HH by lia. discriminate. }
  assert (BL : forall l, In v (block v l) /\ forall u, In u l -> In u (block v l)).
  { intros l. unfold block. destruct (mem v l) eqn:M.
    - split; [now apply mem_In|auto].
    - split; [apply in_or_app; right; now left|intros u X; apply in_or_app; now left]. }
  assert (BO : forall m hx b n lg e l, blk_of (mkHS m hx (mset e l b) n lg) e = l).
  { intros. unfold blk_of. cbn [blk]. now rewrite mget_mset_eq. }
  unfold start_with. cbn [hm set_hm nxt blk hxs log].
  destruct (step_start_cases (nxt s) a m1 U) as [(e & PV & ->)|(PV & ->)]; cbn [hm hxs log].
  - split; [repeat split; assumption|]. split; [intros y _; now rewrite A|]. split; [assumption|].
    split; [|auto]. exists e. split; [assumption|]. split; [intros ->; now apply (proj1 P1 a)|].
    rewrite BO. apply BL.
  - set (m2 := gset _ _ _).
    split; [repeat split; assumption|]. split.
    { intros y NE. unfold m2. cbn [infos gset set_gst set_pvpn set_infos]. rewrite mget_mset_neq by assumption. now rewrite A. }
    split.
    { split.
      - intros b. unfold m2. cbn [pvpn gset set_gst set_pvpn]. rewrite mget_mset. destruct (b =? a).
        + intros X. inversion X. contradiction.
        + apply (proj1 P1).
      - intros i. unfold m2. cbn [pidx gset set_gst set_pvpn set_infos]. apply (proj2 P1). }
    split; [|auto]. exists (nxt s). split.
    { unfold m2. cbn [pvpn gset set_gst set_pvpn]. apply mget_mset_eq. }
    split; [assumption|]. rewrite BO. apply BL.
Qed.

End Props.

(* Lemmas for C48: ApplyV4/ApplyV6 splice exactly the first [len] bits of the mask address with the
   remaining bits of the overlay address; the port is kept; results exist only for overlay addresses
   inside a configured range of the same family. *)
From Coq Require Import List NArith ZArith Bool Lia.
Import ListNotations.
From NV Require Import lib.Bytes model.CalcRemote.
Open Scope N_scope.

(* ---- upto ---- *)
Lemma In_upto k : forall n, n < N.of_nat k -> In n (upto k).
Proof.
  induction k as [|k IH]; intros n H; [lia|]. cbn [upto]. apply in_or_app.
  destruct (N.eq_dec n (N.of_nat k)) as [->|Hne]; [right; now left|left; apply IH; lia].
Qed.

Lemma upto_In k : forall n, In n (upto k) -> n < N.of_nat k.
Proof.
  induction k as [|k IH]; intros n H; [contradiction|]. cbn [upto] in H. apply in_app_or in H as [H|[<-|[]]].
  - apply IH in H. lia.
  - lia.
Qed.

(* ---- bit-level facts ---- *)
Definition topmask (w len : N) : N := N.shiftl (N.ones len) (w - len).

Lemma topmask_bit w len j : len <= w -> j < w -> N.testbit (topmask w len) j = (w - len <=? j).
Proof.
  intros Hl Hj. unfold topmask. destruct (w - len <=? j) eqn:E.
  - apply N.leb_le in E. rewrite N.shiftl_spec_high' by assumption. apply N.ones_spec_low. lia.
  - apply N.leb_gt in E. now apply N.shiftl_spec_low.
Qed.

Lemma masked_bit f a len j : N.testbit (masked f a len) j = (bitlen f - len <=? j) && N.testbit a j.
Proof.
  unfold masked. destruct (bitlen f - len <=? j) eqn:E.
  - apply N.leb_le in E. rewrite N.shiftl_spec_high' by assumption. rewrite N.shiftr_spec'. cbn [andb]. f_equal. lia.
  - apply N.leb_gt in E. now rewrite N.shiftl_spec_low.
Qed.

Lemma not_bit k x j : j < k -> N.testbit (N.lxor x (N.ones k)) j = negb (N.testbit x j).
Proof. intros H. rewrite N.lxor_spec, N.ones_spec_low by assumption. now rewrite xorb_true_r. Qed.

Lemma splice_word_bit mA mM oA k j : j < k ->
  N.testbit (N.lor (N.land mA mM) (N.land oA (N.lxor mM (N.ones k)))) j =
  (N.testbit mA j && N.testbit mM j) || (N.testbit oA j && negb (N.testbit mM j)).
Proof. intros H. now rewrite N.lor_spec, !N.land_spec, not_bit. Qed.

Lemma lt_pow2_of_bits x w : (forall j, w <= j -> N.testbit x j = false) -> x < 2 ^ w.
Proof.
  intros H. assert (E : x = x mod 2 ^ w).
  { apply N.bits_inj. intros j. destruct (N.lt_ge_cases j w) as [Hj|Hj].
    - now rewrite N.mod_pow2_bits_low.
    - rewrite N.mod_pow2_bits_high by assumption. now apply H. }
  rewrite E. apply N.mod_upper_bound. apply N.pow_nonzero. discriminate.
Qed.

Lemma bits_above x w j : x < 2 ^ w -> w <= j -> N.testbit x j = false.
Proof.
  intros Hx Hj. destruct (N.eq_dec x 0) as [->|Hne]; [apply N.bits_0|].
  apply N.bits_above_log2. apply N.log2_lt_pow2 in Hx; lia.
Qed.

Lemma splice_word_lt mA mM oA k : oA < 2 ^ k -> mM < 2 ^ k ->
  N.lor (N.land mA mM) (N.land oA (N.lxor mM (N.ones k))) < 2 ^ k.
Proof.
  intros Ho Hm. apply lt_pow2_of_bits. intros j Hj.
  rewrite N.lor_spec, !N.land_spec. rewrite (bits_above mM k j), (bits_above oA k j) by assumption.
  now rewrite andb_false_r.
Qed.

Lemma ones32 : 4294967295 = N.ones 32. Proof. reflexivity. Qed.
Lemma ones64 : 18446744073709551615 = N.ones 64. Proof. reflexivity. Qed.

(* ---- net.CIDRMask, by complete enumeration of the prefix lengths ---- *)
Definition mask32_ok (len : N) : bool :=
  match cidr_mask len 32 with
  | Some mb => be_dec (firstn 4 mb) =? topmask 32 len
  | None => false
  end.

Definition mask128_ok (len : N) : bool :=
  match cidr_mask len 128 with
  | Some mb => (length mb =? 16)%nat &&
               (be_dec (firstn 8 mb) =? topmask 128 len / 2 ^ 64) &&
               (be_dec (skipn 8 mb) =? topmask 128 len mod 2 ^ 64)
  | None => false
  end.

Lemma mask32_sweep : forallb mask32_ok (upto 33) = true.
Proof. vm_compute. reflexivity. Qed.

Lemma mask128_sweep : forallb mask128_ok (upto 129) = true.
Proof. vm_compute. reflexivity. Qed.

Lemma mask32 len : len <= 32 ->
  exists mb, cidr_mask len 32 = Some mb /\ be_dec (firstn 4 mb) = topmask 32 len.
Proof.
  intros H. pose proof mask32_sweep as S. rewrite forallb_forall in S.
  specialize (S len (In_upto 33 len ltac:(lia))). unfold mask32_ok in S.
  destruct (cidr_mask len 32) as [mb|]; [|discriminate]. exists mb. split; [reflexivity|now apply N.eqb_eq].
Qed.

Lemma mask128 len : len <= 128 ->
  exists mb, cidr_mask len 128 = Some mb /\ length mb = 16%nat /\
             be_dec (firstn 8 mb) = topmask 128 len / 2 ^ 64 /\
             be_dec (skipn 8 mb) = topmask 128 len mod 2 ^ 64.
Proof.
  intros H. pose proof mask128_sweep as S. rewrite forallb_forall in S.
  specialize (S len (In_upto 129 len ltac:(lia))). unfold mask128_ok in S.
  destruct (cidr_mask len 128) as [mb|]; [|discriminate]. exists mb.
  apply andb_prop in S as [S S3]. apply andb_prop in S as [S1 S2].
  repeat split; [now apply Nat.eqb_eq|now apply N.eqb_eq|now apply N.eqb_eq].
Qed.

Lemma topmask_lt w len : len <= w -> topmask w len < 2 ^ w.
Proof.
  intros H. unfold topmask. rewrite N.shiftl_mul_pow2, N.ones_equiv.
  assert (2 ^ w = 2 ^ len * 2 ^ (w - len)) as -> by (rewrite <- N.pow_add_r; f_equal; lia).
  apply N.mul_lt_mono_pos_r; [apply N.neq_0_lt_0, N.pow_nonzero; discriminate|].
  pose proof (N.pow_nonzero 2 len ltac:(discriminate)). lia.
Qed.

(* ---- As16 then Uint64 of each half ---- *)
Lemma be_enc_app m k x : be_enc (m + k) x = be_enc m (x / 256 ^ N.of_nat k) ++ be_enc k x.
Proof.
  induction m as [|m IH]; [reflexivity|]. cbn [plus be_enc app]. rewrite IH. f_equal.
  rewrite N.div_div by (apply N.pow_nonzero; discriminate).
  rewrite <- N.pow_add_r. do 3 f_equal. lia.
Qed.

Lemma as16_hi x : x < 2 ^ 128 -> be_dec (firstn 8 (as16 x)) = x / 2 ^ 64.
Proof.
  intros H. unfold as16. change 16%nat with (8 + 8)%nat. rewrite be_enc_app.
  rewrite firstn_app, be_enc_length, Nat.sub_diag, firstn_O, app_nil_r.
  rewrite firstn_all2 by (rewrite be_enc_length; lia).
  change (256 ^ N.of_nat 8) with (2 ^ 64). apply be_dec_enc. change (256 ^ N.of_nat 8) with (2 ^ 64).
  apply N.div_lt_upper_bound; [discriminate|]. now rewrite <- N.pow_add_r.
Qed.

Lemma as16_lo x : be_dec (skipn 8 (as16 x)) = x mod 2 ^ 64.
Proof.
  unfold as16. change 16%nat with (8 + 8)%nat. rewrite be_enc_app.
  rewrite skipn_app, be_enc_length, Nat.sub_diag, skipn_O.
  rewrite skipn_all2 by (rewrite be_enc_length; lia). cbn [app].
  apply be_dec_enc_mod.
Qed.

Lemma addr128_bit hi lo j : lo < 2 ^ 64 ->
  N.testbit (addr128 hi lo) j = if j <? 64 then N.testbit lo j else N.testbit hi (j - 64).
Proof.
  intros Hlo. unfold addr128. change 18446744073709551616 with (2 ^ 64).
  assert (Hd : (hi * 2 ^ 64 + lo) / 2 ^ 64 = hi).
  { rewrite N.div_add_l by discriminate. rewrite N.div_small by assumption. lia. }
  assert (Hm : (hi * 2 ^ 64 + lo) mod 2 ^ 64 = lo).
  { rewrite N.add_comm, N.mod_add by discriminate. now apply N.mod_small. }
  destruct (j <? 64) eqn:E.
  - apply N.ltb_lt in E. rewrite <- Hm at 2. now rewrite N.mod_pow2_bits_low.
  - apply N.ltb_ge in E. rewrite <- Hd at 2. rewrite N.div_pow2_bits. f_equal. lia.
Qed.

(* ---- newCalculatedRemote ---- *)
Lemma new_cr_some cf mf ma ml port c : new_calculated_remote cf mf ma ml port = Some c ->
  mf = cf /\ (0 <= port <= 65535)%Z /\
  c = mkCR mf ma (masked mf ma ml) ml (Z.to_N port).
Proof.
  unfold new_calculated_remote. destruct (fam_eqb mf cf) eqn:Ef; cbn [negb]; [|discriminate].
  destruct ((port <? 0)%Z || (65535 <? port)%Z) eqn:Ep; [discriminate|]. intros H. injection H as <-.
  apply orb_false_elim in Ep as [E1 E2]. apply Z.ltb_ge in E1, E2.
  repeat split; try assumption. destruct mf, cf; (reflexivity || discriminate).
Qed.

Lemma new_cr_none cf mf ma ml port : new_calculated_remote cf mf ma ml port = None <->
  mf <> cf \/ (port < 0)%Z \/ (65535 < port)%Z.
Proof.
  unfold new_calculated_remote. split.
  - destruct (fam_eqb mf cf) eqn:Ef; cbn [negb].
    + destruct ((port <? 0)%Z || (65535 <? port)%Z) eqn:Ep; [|discriminate]. intros _. right.
      apply orb_prop in Ep as [E|E]; apply Z.ltb_lt in E; [now left|now right].
    + intros _. left. intros ->. destruct cf; discriminate.
  - intros [H|H].
    + destruct mf, cf; try reflexivity; contradiction.
    + destruct (fam_eqb mf cf); [|reflexivity]. cbn [negb].
      replace ((port <? 0)%Z || (65535 <? port)%Z) with true; [reflexivity|].
      symmetry. apply orb_true_iff. destruct H as [H|H]; [left|right]; now apply Z.ltb_lt.
Qed.

(* ---- ApplyV4 ---- *)
Lemma apply_v4_spec ma ml port oa : ml <= 32 -> oa < 2 ^ 32 ->
  exists r, apply_v4 (mkCR V4 ma (masked V4 ma ml) ml port) V4 oa = Some (r, port) /\ r < 2 ^ 32 /\
  forall i, i < 32 -> bit_msb 32 r i = if i <? ml then bit_msb 32 ma i else bit_msb 32 oa i.
Proof.
  intros Hl Ho. destruct (mask32 ml Hl) as (mb & Hmb & Hdec).
  unfold apply_v4. cbn [cr_bits cr_fam cr_mask cr_port bitlen]. rewrite Hmb. eexists. split; [reflexivity|].
  rewrite Hdec. unfold as4. rewrite !be_dec_enc_mod. change (256 ^ N.of_nat 4) with (2 ^ 32).
  rewrite (N.mod_small oa) by assumption. unfold not32. rewrite ones32. split.
  - apply splice_word_lt; [assumption|now apply topmask_lt].
  - intros i Hi. unfold bit_msb. rewrite splice_word_bit by lia.
    rewrite N.mod_pow2_bits_low by lia. rewrite masked_bit. cbn [bitlen]. rewrite topmask_bit by lia.
    assert (E : (32 - ml <=? 32 - 1 - i) = (i <? ml)).
    { destruct (i <? ml) eqn:E1; [apply N.ltb_lt in E1; apply N.leb_le; lia|apply N.ltb_ge in E1; apply N.leb_gt; lia]. }
    rewrite E. destruct (i <? ml); cbn [andb negb orb].
    + now rewrite andb_true_r, andb_false_r, orb_false_r.
    + now rewrite andb_true_r.
Qed.

(* ---- ApplyV6 ---- *)
Lemma apply_v6_spec ma ml port oa : ml <= 128 -> ma < 2 ^ 128 -> oa < 2 ^ 128 ->
  exists hi lo, apply_v6 (mkCR V6 ma (masked V6 ma ml) ml port) V6 oa = Some (hi, lo, port) /\
  hi < 2 ^ 64 /\ lo < 2 ^ 64 /\
  forall i, i < 128 -> bit_msb 128 (addr128 hi lo) i = if i <? ml then bit_msb 128 ma i else bit_msb 128 oa i.
Proof.
  intros Hl Hma Ho. destruct (mask128 ml Hl) as (mb & Hmb & Hlen & Hhi & Hlo).
  assert (Hmm : masked V6 ma ml < 2 ^ 128).
  { apply lt_pow2_of_bits. intros j Hj. rewrite masked_bit. rewrite (bits_above ma 128 j) by assumption.
    apply andb_false_r. }
  unfold apply_v6. cbn [cr_bits cr_fam cr_mask cr_port bitlen to16]. rewrite Hmb, Hlen. cbn [Nat.ltb Nat.leb].
  do 2 eexists. split; [reflexivity|].
  rewrite Hhi, Hlo, !as16_hi, !as16_lo by assumption. unfold not64. rewrite ones64.
  assert (Hdiv : forall x, x < 2 ^ 128 -> x / 2 ^ 64 < 2 ^ 64).
  { intros x Hx. apply N.div_lt_upper_bound; [discriminate|]. now rewrite <- N.pow_add_r. }
  assert (Hmod : forall x, x mod 2 ^ 64 < 2 ^ 64) by (intros x; apply N.mod_upper_bound; discriminate).
  pose proof (topmask_lt 128 ml Hl) as HM.
  assert (Hlo_lt : N.lor (N.land (masked V6 ma ml mod 2 ^ 64) (topmask 128 ml mod 2 ^ 64))
                         (N.land (oa mod 2 ^ 64) (N.lxor (topmask 128 ml mod 2 ^ 64) (N.ones 64))) < 2 ^ 64)
    by (apply splice_word_lt; apply Hmod).
  split; [apply splice_word_lt; now apply Hdiv|]. split; [exact Hlo_lt|].
  intros i Hi. unfold bit_msb. rewrite addr128_bit by exact Hlo_lt.
  set (j := 128 - 1 - i).
  assert (E : (128 - ml <=? j) = (i <? ml)).
  { unfold j. destruct (i <? ml) eqn:E1; [apply N.ltb_lt in E1; apply N.leb_le; lia|apply N.ltb_ge in E1; apply N.leb_gt; lia]. }
  assert (Hbits : forall x, (if j <? 64 then N.testbit (x mod 2 ^ 64) j else N.testbit (x / 2 ^ 64) (j - 64)) = N.testbit x j).
  { intros x. destruct (j <? 64) eqn:Ej.
    - apply N.ltb_lt in Ej. now rewrite N.mod_pow2_bits_low.
    - apply N.ltb_ge in Ej. rewrite N.div_pow2_bits. f_equal. lia. }
  assert (Hres : (if j <? 64
                  then N.testbit (N.lor (N.land (masked V6 ma ml mod 2 ^ 64) (topmask 128 ml mod 2 ^ 64))
                                        (N.land (oa mod 2 ^ 64) (N.lxor (topmask 128 ml mod 2 ^ 64) (N.ones 64)))) j
                  else N.testbit (N.lor (N.land (masked V6 ma ml / 2 ^ 64) (topmask 128 ml / 2 ^ 64))
                                        (N.land (oa / 2 ^ 64) (N.lxor (topmask 128 ml / 2 ^ 64) (N.ones 64)))) (j - 64)) =
                 (N.testbit (masked V6 ma ml) j && N.testbit (topmask 128 ml) j) ||
                 (N.testbit oa j && negb (N.testbit (topmask 128 ml) j))).
  { rewrite <- (Hbits (masked V6 ma ml)), <- (Hbits (topmask 128 ml)), <- (Hbits oa).
    destruct (j <? 64) eqn:Ej.
    - apply N.ltb_lt in Ej. now rewrite splice_word_bit.
    - apply N.ltb_ge in Ej. rewrite splice_word_bit; [reflexivity|unfold j in *; lia]. }
  rewrite Hres. rewrite masked_bit. cbn [bitlen]. rewrite topmask_bit by (unfold j; lia). rewrite E.
  destruct (i <? ml); cbn [andb negb orb].
  - now rewrite andb_true_r, andb_false_r, orb_false_r.
  - now rewrite andb_true_r.
Qed.

(* ---- range lookup ---- *)
Definition e_fam (e : entry) : fam := let '(f, _, _, _) := e in f.
Definition e_addr (e : entry) : N := let '(_, a, _, _) := e in a.
Definition e_len (e : entry) : N := let '(_, _, l, _) := e in l.
Definition e_rems (e : entry) : list calc_remote := let '(_, _, _, r) := e in r.
Definition e_contains (e : entry) (xf : fam) (x : N) : bool := contains (e_fam e) (e_addr e) (e_len e) xf x.

Lemma lookup_spec cfg xf x : forall best,
  (forall b, best = Some b -> e_contains b xf x = true) ->
  match lookup cfg xf x best with
  | Some e => (best = Some e \/ In e cfg) /\ e_contains e xf x = true /\
              (forall b, best = Some b -> e_len b <= e_len e) /\
              (forall e', In e' cfg -> e_contains e' xf x = true -> e_len e' <= e_len e)
  | None => best = None /\ forall e', In e' cfg -> e_contains e' xf x = false
  end.
Proof.
  induction cfg as [|e cfg IH]; intros best Hb.
  - cbn [lookup]. destruct best as [b|].
    + repeat split; [now left|now apply Hb|intros b' [= <-]; lia|intros e' []].
    + split; [reflexivity|intros e' []].
  - destruct e as [[[f a] len] rems]. cbn [lookup].
    remember (match best with None => true | Some (_, _, blen, _) => blen <? len end) as better eqn:Hbetter.
    assert (Hlen : e_len (f, a, len, rems) = len) by reflexivity.
    assert (Hcont : e_contains (f, a, len, rems) xf x = contains f a len xf x) by reflexivity.
    remember (f, a, len, rems) as e eqn:He.
    destruct (contains f a len xf x && better) eqn:Ec.
    + apply andb_prop in Ec as [Ec Ebt].
      assert (Hpre : forall b, @Some entry e = Some b -> e_contains b xf x = true).
      { intros b Hbe. injection Hbe as <-. now rewrite Hcont. }
      specialize (IH (@Some entry e) Hpre). destruct (lookup cfg xf x (@Some entry e)) as [r|].
      * destruct IH as (Hin & Hc & Hbest & Hmax). repeat split.
        -- right. destruct Hin as [Hin|Hin]; [injection Hin as <-; now left|now right].
        -- exact Hc.
        -- intros b ->. destruct b as [[[bf ba] bl] br]. rewrite Hbetter in Ebt. apply N.ltb_lt in Ebt.
           specialize (Hbest e eq_refl). rewrite Hlen in Hbest. cbn [e_len]. lia.
        -- intros e' [<-|Hin'] Hc'; [apply (Hbest e eq_refl)|now apply Hmax].
      * destruct IH as [IH _]. discriminate.
    + specialize (IH best Hb). destruct (lookup cfg xf x best) as [r|].
      * destruct IH as (Hin & Hc & Hbest & Hmax). repeat split.
        -- destruct Hin as [Hin|Hin]; [now left|right; now right].
        -- exact Hc.
        -- exact Hbest.
        -- intros e' [<-|Hin'] Hc'; [|now apply Hmax].
           rewrite Hcont in Hc'. rewrite Hc' in Ec. cbn [andb] in Ec. rewrite Hlen.
           destruct best as [[[[bf ba] bl] br]|]; [|rewrite Hbetter in Ec; discriminate].
           rewrite Hbetter in Ec. apply N.ltb_ge in Ec. specialize (Hbest _ eq_refl). cbn [e_len] in Hbest. lia.
      * destruct IH as [-> Hnone]. split; [reflexivity|].
        intros e' [<-|Hin']; [|now apply Hnone].
        rewrite Hbetter in Ec. rewrite andb_true_r in Ec. now rewrite Hcont.
Qed.

Lemma lookup_none cfg xf x : lookup cfg xf x None = None <->
  forall e, In e cfg -> e_contains e xf x = false.
Proof.
  pose proof (lookup_spec cfg xf x None ltac:(discriminate)) as H.
  destruct (lookup cfg xf x None) as [e|].
  - destruct H as ([H|H] & Hc & _); [discriminate|]. split; [discriminate|].
    intros Hall. rewrite (Hall e H) in Hc. discriminate.
  - destruct H as [_ H]. split; [intros _; exact H|reflexivity].
Qed.

Lemma lookup_some cfg xf x e : lookup cfg xf x None = Some e ->
  In e cfg /\ e_contains e xf x = true /\
  forall e', In e' cfg -> e_contains e' xf x = true -> e_len e' <= e_len e.
Proof.
  intros E. pose proof (lookup_spec cfg xf x None ltac:(discriminate)) as H. rewrite E in H.
  destruct H as ([H|H] & Hc & _ & Hmax); [discriminate|]. repeat split; assumption.
Qed.

Lemma contains_fam f a len xf x : contains f a len xf x = true -> f = xf.
Proof. unfold contains. intros H. apply andb_prop in H as [H _]. destruct f, xf; (reflexivity || discriminate). Qed.

(* ---- configuration ---- *)
Lemma build_remotes_spec cf : forall raws cs, build_remotes cf raws = Some cs ->
  Forall2 (fun raw c => let '(mf, ma, ml, port) := raw in new_calculated_remote cf mf ma ml port = Some c) raws cs.
Proof.
  induction raws as [|[[[mf ma] ml] port] raws IH]; intros cs H; cbn [build_remotes] in H.
  - injection H as <-. constructor.
  - destruct (new_calculated_remote cf mf ma ml port) as [c|] eqn:E; [|discriminate].
    destruct (build_remotes cf raws) as [cs'|]; [|discriminate]. injection H as <-.
    constructor; [exact E|now apply IH].
Qed.

Lemma build_cfg_spec : forall raws cfg, build_cfg raws = Some cfg ->
  Forall2 (fun raw e => let '(cf, ca, cl, rr) := raw in
                        exists cs, build_remotes cf rr = Some cs /\ e = (cf, ca, cl, cs)) raws cfg.
Proof.
  induction raws as [|[[[cf ca] cl] rr] raws IH]; intros cfg H; cbn [build_cfg] in H.
  - injection H as <-. constructor.
  - destruct (build_remotes cf rr) as [cs|] eqn:E; [|discriminate].
    destruct (build_cfg raws) as [es|]; [|discriminate]. injection H as <-.
    constructor; [exists cs; now split|now apply IH].
Qed.

Lemma Forall2_In_r {A B} (R : A -> B -> Prop) l1 l2 b : Forall2 R l1 l2 -> In b l2 -> exists a, In a l1 /\ R a b.
Proof.
  induction 1 as [|a0 b0 l1 l2 H0 H IH]; intros Hin; [contradiction|].
  destruct Hin as [<-|Hin]; [exists a0; split; [now left|assumption]|].
  destruct (IH Hin) as (a & Ha & HR). exists a. split; [now right|assumption].
Qed.

(* what one calculated remote must look like for overlay address x of family xf and configured
   mask address / prefix length / port *)
Definition remote_ok (xf : fam) (x ma ml : N) (port : Z) (r : remote) : Prop :=
  match xf, r with
  | V4, R4 a p => p = Z.to_N port /\ a < 2 ^ 32 /\
      forall i, i < 32 -> bit_msb 32 a i = if i <? ml then bit_msb 32 ma i else bit_msb 32 x i
  | V6, R6 hi lo p => p = Z.to_N port /\ hi < 2 ^ 64 /\ lo < 2 ^ 64 /\
      forall i, i < 128 -> bit_msb 128 (addr128 hi lo) i = if i <? ml then bit_msb 128 ma i else bit_msb 128 x i
  | _, _ => False
  end.

(* well-formed raw configuration: what netip.ParsePrefix guarantees *)
Definition raw_remote_wf (r : raw_remote) : Prop := let '(mf, ma, ml, _) := r in ml <= bitlen mf /\ ma < 2 ^ bitlen mf.
Definition raw_entry_wf (e : raw_entry) : Prop :=
  let '(cf, ca, cl, rr) := e in cl <= bitlen cf /\ ca < 2 ^ bitlen cf /\ Forall raw_remote_wf rr.

Lemma apply_all_spec xf x : x < 2 ^ bitlen xf -> forall raws cs,
  Forall raw_remote_wf raws ->
  Forall2 (fun raw c => let '(mf, ma, ml, port) := raw in new_calculated_remote xf mf ma ml port = Some c) raws cs ->
  exists rs, apply_all xf x cs = Some rs /\
    Forall2 (fun raw r => let '(mf, ma, ml, port) := raw in mf = xf /\ (0 <= port <= 65535)%Z /\ remote_ok xf x ma ml port r) raws rs.
Proof.
  intros Hx raws cs Hwf H. induction H as [|[[[mf ma] ml] port] c raws cs Hnew H IH].
  - exists []. split; [reflexivity|constructor].
  - inversion Hwf as [|? ? Hwf1 Hwf2]; subst. destruct (IH Hwf2) as (rs & Hrs & Hall).
    apply new_cr_some in Hnew as (-> & Hport & ->). destruct Hwf1 as [Hml Hma].
    cbn [apply_all]. rewrite Hrs. destruct xf.
    + destruct (apply_v4_spec ma ml (Z.to_N port) x Hml Hx) as (r & Er & Hr & Hbits).
      rewrite Er. cbn [option_map]. eexists. split; [reflexivity|]. constructor; [|exact Hall].
      repeat split; try assumption; tauto.
    + destruct (apply_v6_spec ma ml (Z.to_N port) x Hml Hma Hx) as (hi & lo & Er & Hhi & Hlo & Hbits).
      rewrite Er. cbn [option_map]. eexists. split; [reflexivity|]. constructor; [|exact Hall].
      repeat split; try assumption; tauto.
Qed.

(* addCalculatedRemotes, end to end from the raw configuration *)
Lemma add_calculated_spec raws cfg xf x :
  Forall raw_entry_wf raws -> build_cfg raws = Some cfg -> x < 2 ^ bitlen xf ->
  exists rs, add_calculated cfg xf x = Some rs /\
  ( (rs = [] /\ forall cf ca cl rr, In (cf, ca, cl, rr) raws -> contains cf ca cl xf x = false)
    \/
    (exists cf ca cl rr, In (cf, ca, cl, rr) raws /\ cf = xf /\ contains cf ca cl xf x = true /\
       (forall cf' ca' cl' rr', In (cf', ca', cl', rr') raws -> contains cf' ca' cl' xf x = true -> cl' <= cl) /\
       Forall2 (fun raw r => let '(mf, ma, ml, port) := raw in
                             mf = xf /\ (0 <= port <= 65535)%Z /\ remote_ok xf x ma ml port r) rr rs) ).
Proof.
  intros Hwf Hb Hx. apply build_cfg_spec in Hb. unfold add_calculated.
  destruct (lookup cfg xf x None) as [[[[f a] len] cs]|] eqn:El.
  - apply lookup_some in El as (Hin & Hc & Hmax).
    destruct (Forall2_In_r _ _ _ _ Hb Hin) as ([[[cf ca] cl] rr] & Hinr & (cs' & Hbr & Heq)).
    injection Heq as -> -> -> ->.
    unfold e_contains in Hc. cbn [e_fam e_addr e_len] in Hc.
    pose proof (contains_fam _ _ _ _ _ Hc) as Hf. subst cf.
    rewrite Forall_forall in Hwf. destruct (Hwf _ Hinr) as (_ & _ & Hrwf).
    destruct (apply_all_spec xf x Hx rr cs' Hrwf (build_remotes_spec _ _ _ Hbr)) as (rs & Ers & Hall).
    exists rs. split; [exact Ers|]. right. exists xf, ca, cl, rr. repeat split; try assumption.
    intros cf' ca' cl' rr' Hin' Hc'.
    assert (Hex : exists cs'', In (cf', ca', cl', cs'') cfg).
    { clear - Hb Hin'. induction Hb as [|r0 e0 raws cfg H0 Hb IH]; [contradiction|].
      destruct Hin' as [->|Hin'].
      - destruct H0 as (cs0 & _ & ->). exists cs0. now left.
      - destruct (IH Hin') as (cs0 & Hcs0). exists cs0. now right. }
    destruct Hex as (cs'' & Hin'').
    apply (Hmax (cf', ca', cl', cs'') Hin''). exact Hc'.
  - exists []. split; [reflexivity|]. left. split; [reflexivity|].
    intros cf ca cl rr Hin.
    assert (Hex : exists cs'', In (cf, ca, cl, cs'') cfg).
    { clear - Hb Hin. induction Hb as [|r0 e0 raws cfg H0 Hb IH]; [contradiction|].
      destruct Hin as [->|Hin].
      - destruct H0 as (cs0 & _ & ->). exists cs0. now left.
      - destruct (IH Hin) as (cs0 & Hcs0). exists cs0. now right. }
    destruct Hex as (cs'' & Hin'').
    rewrite lookup_none in El. specialize (El _ Hin''). unfold e_contains in El. cbn in El.
    exact El.
Qed.

Lemma shiftr_eq_bits w a x len : len <= w -> a < 2 ^ w -> x < 2 ^ w ->
  (N.shiftr x (w - len) = N.shiftr a (w - len) <-> forall i, i < len -> bit_msb w x i = bit_msb w a i).
Proof.
  intros Hl Ha Hx. unfold bit_msb. split.
  - intros E i Hi. apply (f_equal (fun v => N.testbit v (len - 1 - i))) in E.
    rewrite !N.shiftr_spec' in E. replace (len - 1 - i + (w - len)) with (w - 1 - i) in E by lia. exact E.
  - intros H. apply N.bits_inj. intros j. rewrite !N.shiftr_spec'.
    destruct (N.lt_ge_cases j len) as [Hj|Hj].
    + specialize (H (len - 1 - j) ltac:(lia)). replace (w - 1 - (len - 1 - j)) with (j + (w - len)) in H by lia. exact H.
    + rewrite (bits_above x w), (bits_above a w) by (assumption || lia). reflexivity.
Qed.

Lemma contains_bits f a len xf x : len <= bitlen f -> a < 2 ^ bitlen f -> x < 2 ^ bitlen f ->
  (contains f a len xf x = true <-> f = xf /\ forall i, i < len -> bit_msb (bitlen f) x i = bit_msb (bitlen f) a i).
Proof.
  intros Hl Ha Hx. unfold contains. rewrite andb_true_iff, N.eqb_eq, (shiftr_eq_bits (bitlen f)) by assumption.
  split; intros [H1 H2]; (split; [|exact H2]).
  - destruct f, xf; (reflexivity || discriminate).
  - subst. destruct xf; reflexivity.
Qed.

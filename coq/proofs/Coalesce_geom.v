(* Coalesce_geom: every superpacket a lane flushes has the geometry the kernel accepts, consistent length fields,
   and correct checksum seeds. *)
From Coq Require Import List NArith Bool Arith Lia.
Import ListNotations.
From NV Require Import lib.Bytes lib.Ones lib.Corr gen.Consts_Coalesce model.Coalesce
  proofs.Coalesce_lists proofs.Coalesce_lane proofs.Coalesce_chain proofs.Coalesce_approx
  proofs.Coalesce_tcp proofs.Coalesce_udp.
Open Scope N_scope.

Lemma tcp_buf_le : coal_tcp_buf <= 65535.
Proof. vm_compute. discriminate. Qed.
Lemma udp_buf_le : coal_udp_buf <= 65535.
Proof. vm_compute. discriminate. Qed.

Lemma pays_len (ms : list staged) : length (pays_of ms) = length ms.
Proof. apply map_length. Qed.

(* the fields of a rendered superpacket header *)
Lemma render_pays pol s : g_pays (render pol s) = s_pays s.
Proof. reflexivity. Qed.
Lemma render_proto pol s : g_proto (render pol s) = pol_gproto pol.
Proof. reflexivity. Qed.
Lemma render_v6 pol s : p_v6 (g_hdr (render pol s)) = p_v6 (s_seed s).
Proof. reflexivity. Qed.
Lemma render_shape pol s : p_shape (g_hdr (render pol s)) = p_shape (s_seed s).
Proof. reflexivity. Qed.
Lemma render_tcp_hlen pol s : tcp_hlen (g_hdr (render pol s)) = tcp_hlen (s_seed s).
Proof. reflexivity. Qed.
Lemma render_udp_hlen pol s : udp_hlen (g_hdr (render pol s)) = udp_hlen (s_seed s).
Proof. reflexivity. Qed.
Lemma render_iphl pol s : iphl (g_hdr (render pol s)) = iphl (s_seed s).
Proof. reflexivity. Qed.
Lemma render_iplen pol s :
  g_iplen (render pol s) =
  w16 (if p_v6 (s_seed s) then s_hlen s + s_total s - iphl (s_seed s) else s_hlen s + s_total s).
Proof. reflexivity. Qed.
Lemma render_udplen pol s :
  g_udplen (render pol s) = if pol_gproto pol =? 2 then w16 (s_hlen s + s_total s - iphl (s_seed s)) else 0.
Proof. reflexivity. Qed.

(* ---- TCP ---- *)

Theorem tcp_slot_geometry s : tcp_chain_ok s -> 2 <= s_nseg s -> geometry_okb (render tcp_pol s) = true.
Proof.
  intros Hc H2. unfold tcp_chain_ok in Hc.
  pose proof (chain_ok_first_size tcp_pol coal_tcp_max_segs pre_tcp mid_tcp fin_tcp xinv_tcp
                tcp_max_pos tcp_mid_fin tcp_mid_size tcp_fin_size tcp_seed_ok tcp_append_ok s Hc H2) as Hfirst.
  destruct (chain_ok_pays_geometry tcp_pol coal_tcp_max_segs mid_tcp fin_tcp xinv_tcp
              tcp_mid_size tcp_fin_size s Hc) as (Hab & Hl1 & Hl2).
  pose proof (co_gso1 _ _ _ _ _ _ Hc) as Hg1. pose proof (co_buf _ _ _ _ _ _ Hc) as Hbuf.
  pose proof (co_segs _ _ _ _ _ _ Hc) as Hsegs. pose proof (co_hlen _ _ _ _ _ _ Hc) as Hhl.
  pose proof (co_total _ _ _ _ _ _ Hc) as Htot.
  assert (Hlen : N.of_nat (length (s_pays s)) = s_nseg s).
  { rewrite (co_pays _ _ _ _ _ _ Hc), pays_len, (co_nseg _ _ _ _ _ _ Hc). reflexivity. }
  cbn [tcp_pol pol_buf pol_hlen] in Hbuf, Hhl. pose proof tcp_buf_le as Hb.
  (* the seed is a TCP shaped packet *)
  assert (Hsh : p_shape (s_seed s) = ShTcp).
  { destruct (co_mem _ _ _ _ _ _ Hc) as (kp0 & rest & Em & Es). pose proof (co_chain _ _ _ _ _ _ Hc) as Hch.
    rewrite Em in Hch. destruct rest.
    - cbn [chain] in Hch. destruct Hch as (Hm & _). rewrite Es. apply (tm_shape _ _ _ _ Hm).
    - cbn [chain] in Hch. destruct Hch as ((Hm & _) & _). rewrite Es. apply (tm_shape _ _ _ _ Hm). }
  unfold geometry_okb, gso_size. cbv zeta.
  rewrite render_proto, render_pays, render_v6, render_tcp_hlen, render_iplen, render_udplen, render_iphl.
  unfold is_shape. rewrite render_shape.
  cbn [tcp_pol pol_gproto].
  change (1 =? 1) with true. change (1 =? 2) with false. cbv iota.
  rewrite <- Hhl, <- Htot, Hlen, Hfirst, Hab.
  rewrite Hsh. cbn [shape_eqb].
  assert (E1 : (2 <=? s_nseg s) = true) by (apply N.leb_le; exact H2).
  assert (E2 : (s_nseg s <=? coal_tcp_max_segs) = true) by (apply N.leb_le; exact Hsegs).
  assert (E3 : (1 <=? s_gso s) = true) by (apply N.leb_le; exact Hg1).
  assert (E4 : (1 <=? N.of_nat (length (last (s_pays s) []))) = true) by (apply N.leb_le; exact Hl1).
  assert (E5 : (N.of_nat (length (last (s_pays s) [])) <=? s_gso s) = true) by (apply N.leb_le; exact Hl2).
  assert (E6 : (s_hlen s + s_total s <=? 65535) = true) by (apply N.leb_le; lia).
  rewrite E1, E2, E3, E4, E5, E6. cbn [andb orb].
  change (0 =? 0) with true. rewrite !andb_true_r.
  apply N.eqb_eq. unfold iphl. destruct (p_v6 (s_seed s)); apply w16_small; lia.
Qed.

(* ---- UDP ---- *)

Theorem udp_slot_geometry s : udp_chain_ok s -> 2 <= s_nseg s -> geometry_okb (render udp_pol s) = true.
Proof.
  intros Hc H2. unfold udp_chain_ok in Hc.
  pose proof (chain_ok_first_size udp_pol coal_udp_max_segs pre_udp mid_udp fin_udp xinv_udp
                udp_max_pos udp_mid_fin udp_mid_size udp_fin_size udp_seed_ok udp_append_ok s Hc H2) as Hfirst.
  destruct (chain_ok_pays_geometry udp_pol coal_udp_max_segs mid_udp fin_udp xinv_udp
              udp_mid_size udp_fin_size s Hc) as (Hab & Hl1 & Hl2).
  pose proof (co_gso1 _ _ _ _ _ _ Hc) as Hg1. pose proof (co_buf _ _ _ _ _ _ Hc) as Hbuf.
  pose proof (co_segs _ _ _ _ _ _ Hc) as Hsegs. pose proof (co_hlen _ _ _ _ _ _ Hc) as Hhl.
  pose proof (co_total _ _ _ _ _ _ Hc) as Htot.
  assert (Hlen : N.of_nat (length (s_pays s)) = s_nseg s).
  { rewrite (co_pays _ _ _ _ _ _ Hc), pays_len, (co_nseg _ _ _ _ _ _ Hc). reflexivity. }
  cbn [udp_pol pol_buf pol_hlen] in Hbuf, Hhl. pose proof udp_buf_le as Hb.
  assert (Hsh : p_shape (s_seed s) = ShUdp).
  { destruct (co_mem _ _ _ _ _ _ Hc) as (kp0 & rest & Em & Es). pose proof (co_chain _ _ _ _ _ _ Hc) as Hch.
    rewrite Em in Hch. destruct rest.
    - cbn [chain] in Hch. destruct Hch as (Hm & _). rewrite Es. apply (um_shape _ _ _ Hm).
    - cbn [chain] in Hch. destruct Hch as ((Hm & _) & _). rewrite Es. apply (um_shape _ _ _ Hm). }
  unfold geometry_okb, gso_size. cbv zeta.
  rewrite render_proto, render_pays, render_v6, render_udp_hlen, render_iplen, render_udplen, render_iphl.
  unfold is_shape. rewrite render_shape.
  cbn [udp_pol pol_gproto].
  change (2 =? 1) with false. change (2 =? 2) with true. cbv iota.
  rewrite <- Hhl, <- Htot, Hlen, Hfirst, Hab.
  rewrite Hsh. cbn [shape_eqb].
  assert (E1 : (2 <=? s_nseg s) = true) by (apply N.leb_le; exact H2).
  assert (E2 : (s_nseg s <=? coal_udp_max_segs) = true) by (apply N.leb_le; exact Hsegs).
  assert (E3 : (1 <=? s_gso s) = true) by (apply N.leb_le; exact Hg1).
  assert (E4 : (1 <=? N.of_nat (length (last (s_pays s) []))) = true) by (apply N.leb_le; exact Hl1).
  assert (E5 : (N.of_nat (length (last (s_pays s) [])) <=? s_gso s) = true) by (apply N.leb_le; exact Hl2).
  assert (E6 : (s_hlen s + s_total s <=? 65535) = true) by (apply N.leb_le; lia).
  rewrite E1, E2, E3, E4, E5, E6. cbn [andb orb].
  rewrite ?andb_true_r.
  assert (Hih : iphl (s_seed s) <= s_hlen s) by (rewrite Hhl; unfold udp_hlen; lia).
  apply andb_true_intro. split; apply N.eqb_eq.
  - unfold iphl. destruct (p_v6 (s_seed s)); apply w16_small; lia.
  - apply w16_small. lia.
Qed.

(* ---- checksum seeds ---- *)

Lemma words16_le : forall k n, words16 k n <= 65535 * N.of_nat k.
Proof.
  induction k as [|k IH]; intros n; [simpl; lia|].
  cbn [words16]. specialize (IH (n / 65536)). pose proof (N.mod_lt n 65536 ltac:(discriminate)).
  rewrite Nat2N.inj_succ. lia.
Qed.

Lemma fold_once_fold16 x : x < 4294967296 -> fold_once_no_invert x = fold16 x.
Proof.
  intros H. unfold fold_once_no_invert. rewrite (fold_loop_32 2 x) by (auto; lia).
  apply w16_small. apply fold16_lt.
Qed.

Lemma ranges_ok_spec p : ranges_okb p = true -> p_tos p < 256 /\ p_ttl p < 256 /\ p_nxt p < 256 /\ p_id p < 65536.
Proof.
  unfold ranges_okb.
  destruct (p_tos p <? 256) eqn:E1; [|discriminate].
  destruct (p_ttl p <? 256) eqn:E2; [|discriminate].
  destruct (p_nxt p <? 256) eqn:E3; [|discriminate].
  intros E4. apply N.ltb_lt in E1, E2, E3, E4. auto.
Qed.

Lemma render_seeds pol s :
  ranges_okb (s_seed s) = true -> pol_l4proto pol <= 255 ->
  s_hlen s + s_total s <= 65535 ->
  let g := render pol s in
  p_l4ck (g_hdr g) = fold16 (pseudo_sum (g_hdr g) (pol_l4proto pol) (s_hlen s + s_total s - iphl (s_seed s))) /\
  (p_v6 (g_hdr g) = true \/ fold16 (ipv4_hdr_sum (g_hdr g) (g_iplen g) + p_ipck (g_hdr g)) = 65535).
Proof.
  intros Hr Hp Hb g. destruct (ranges_ok_spec _ Hr) as (R1 & R2 & R3 & R4).
  set (sd := s_seed s) in *. set (l4len := s_hlen s + s_total s - iphl sd).
  assert (Hl4 : l4len <= 65535) by (unfold l4len; lia).
  split.
  - change (p_l4ck (g_hdr g)) with (fold_once_no_invert (pseudo_sum sd (pol_l4proto pol) l4len)).
    change (pseudo_sum (g_hdr g) (pol_l4proto pol) l4len) with (pseudo_sum sd (pol_l4proto pol) l4len).
    apply fold_once_fold16. unfold pseudo_sum.
    pose proof (words16_le 8 (p_src sd)). pose proof (words16_le 8 (p_dst sd)).
    pose proof (words16_le 2 (p_src sd)). pose proof (words16_le 2 (p_dst sd)).
    pose proof (N.mod_lt l4len 65536 ltac:(discriminate)).
    assert (l4len / 65536 = 0) by (apply N.div_small; lia).
    simpl N.of_nat in *. destruct (p_v6 sd); lia.
  - destruct (p_v6 sd) eqn:Ev; [left; exact Ev|right].
    set (lenfield := w16 (s_hlen s + s_total s)).
    assert (Hlf : lenfield < 65536) by (unfold lenfield, w16; apply N.mod_lt; discriminate).
    assert (E1 : g_iplen g = lenfield).
    { unfold g. cbn [render g_iplen]. fold sd. rewrite Ev. reflexivity. }
    assert (E2 : p_ipck (g_hdr g) = ipv4_hdr_checksum sd lenfield).
    { unfold g. cbn [render g_hdr with_body with_cks p_ipck]. fold sd. rewrite Ev. reflexivity. }
    assert (E3 : ipv4_hdr_sum (g_hdr g) lenfield = ipv4_hdr_sum sd lenfield) by reflexivity.
    rewrite E1, E2, E3. unfold ipv4_hdr_checksum.
    assert (Hs : ipv4_hdr_sum sd lenfield < 4294967296).
    { unfold ipv4_hdr_sum, ipv4_flags_word.
      pose proof (words16_le 2 (p_src sd)). pose proof (words16_le 2 (p_dst sd)). simpl N.of_nat in *.
      destruct (p_rsv sd), (p_df sd); nia. }
    rewrite (fold_loop_cpl_spec _ Hs). apply fold16_add_cpl.
Qed.

Theorem tcp_slot_seeds s :
  tcp_chain_ok s -> ranges_okb (s_seed s) = true -> seeds_okb (render tcp_pol s) = true.
Proof.
  intros Hc Hr. unfold tcp_chain_ok in Hc.
  pose proof (co_buf _ _ _ _ _ _ Hc) as Hbuf. pose proof (co_hlen _ _ _ _ _ _ Hc) as Hhl.
  pose proof (co_total _ _ _ _ _ _ Hc) as Htot.
  cbn [tcp_pol pol_buf pol_hlen] in Hbuf, Hhl. pose proof tcp_buf_le as Hb.
  destruct (render_seeds tcp_pol s Hr ltac:(vm_compute; discriminate) ltac:(lia)) as [H1 H2].
  unfold seeds_okb.
  change (g_proto (render tcp_pol s) =? 1) with true. cbv iota.
  change (tcp_hlen (g_hdr (render tcp_pol s))) with (tcp_hlen (s_seed s)).
  change (g_pays (render tcp_pol s)) with (s_pays s).
  change (iphl (g_hdr (render tcp_pol s))) with (iphl (s_seed s)).
  rewrite <- Hhl, <- Htot.
  apply andb_true_intro. split.
  - apply N.eqb_eq. exact H1.
  - destruct H2 as [H2|H2]; [rewrite H2; reflexivity|]. rewrite H2. apply orb_true_r.
Qed.

Theorem udp_slot_seeds s :
  udp_chain_ok s -> ranges_okb (s_seed s) = true -> seeds_okb (render udp_pol s) = true.
Proof.
  intros Hc Hr. unfold udp_chain_ok in Hc.
  pose proof (co_buf _ _ _ _ _ _ Hc) as Hbuf. pose proof (co_hlen _ _ _ _ _ _ Hc) as Hhl.
  pose proof (co_total _ _ _ _ _ _ Hc) as Htot.
  cbn [udp_pol pol_buf pol_hlen] in Hbuf, Hhl. pose proof udp_buf_le as Hb.
  destruct (render_seeds udp_pol s Hr ltac:(vm_compute; discriminate) ltac:(lia)) as [H1 H2].
  unfold seeds_okb.
  change (g_proto (render udp_pol s) =? 1) with false. cbv iota.
  change (udp_hlen (g_hdr (render udp_pol s))) with (udp_hlen (s_seed s)).
  change (g_pays (render udp_pol s)) with (s_pays s).
  change (iphl (g_hdr (render udp_pol s))) with (iphl (s_seed s)).
  rewrite <- Hhl, <- Htot.
  apply andb_true_intro. split.
  - apply N.eqb_eq. exact H1.
  - destruct H2 as [H2|H2]; [rewrite H2; reflexivity|]. rewrite H2. apply orb_true_r.
Qed.

(* The one-pass recogniser of model/CpuPick.v accepts exactly the cpulist grammar and returns its expansion,
   hence agrees with parse_cpu_list on every byte string. *)
From Coq Require Import List NArith ZArith Bool Lia.
Import ListNotations.
From NV Require Import lib.Bytes model.CpuPick proofs.CpuPick_parse.
Open Scope N_scope.

(* ---- single steps -------------------------------------------------------------------------- *)
Lemma step_comma q r :
  r_run q (comma :: r) =
  match r_finish q with
  | Some p => match r_run RStart r with Some l => Some (p ++ l) | None => None end
  | None => None
  end.
Proof. reflexivity. Qed.

Lemma step_start_blank c r : is_blank c = true -> r_run RStart (c :: r) = r_run RStart r.
Proof. intros H. cbn [r_run]. now rewrite (blank_not_comma _ H), H. Qed.
Lemma step_start_digit c r : is_digit c = true -> r_run RStart (c :: r) = r_run (RNum1 (c - 48)) r.
Proof. intros H. cbn [r_run]. now rewrite (digit_not_comma _ H), (digit_not_blank _ H), H. Qed.
Lemma step_num1_digit v c r : is_digit c = true -> r_run (RNum1 v) (c :: r) = r_run (RNum1 (10 * v + (c - 48))) r.
Proof. intros H. cbn [r_run]. now rewrite (digit_not_comma _ H), H. Qed.
Lemma step_num1_dash v r : r_run (RNum1 v) (dash :: r) = r_run (RDash v) r.
Proof. reflexivity. Qed.
Lemma step_num1_blank v c r p : is_blank c = true -> r_single v = Some p -> r_run (RNum1 v) (c :: r) = r_run (RTrail p) r.
Proof. intros H Hp. cbn [r_run]. now rewrite (blank_not_comma _ H), (blank_not_digit _ H), (blank_not_dash _ H), H, Hp. Qed.
Lemma step_dash_digit a c r : is_digit c = true -> r_run (RDash a) (c :: r) = r_run (RNum2 a (c - 48)) r.
Proof. intros H. cbn [r_run]. now rewrite (digit_not_comma _ H), H. Qed.
Lemma step_num2_digit a v c r : is_digit c = true -> r_run (RNum2 a v) (c :: r) = r_run (RNum2 a (10 * v + (c - 48))) r.
Proof. intros H. cbn [r_run]. now rewrite (digit_not_comma _ H), H. Qed.
Lemma step_num2_blank a v c r p : is_blank c = true -> r_range a v = Some p -> r_run (RNum2 a v) (c :: r) = r_run (RTrail p) r.
Proof. intros H Hp. cbn [r_run]. now rewrite (blank_not_comma _ H), (blank_not_digit _ H), H, Hp. Qed.
Lemma step_trail_blank p c r : is_blank c = true -> r_run (RTrail p) (c :: r) = r_run (RTrail p) r.
Proof. intros H. cbn [r_run]. now rewrite (blank_not_comma _ H), H. Qed.

(* ---- grammar => recogniser --------------------------------------------------------------------- *)
(* what is left of the input when a field ends: nothing, or a comma and the remaining fields *)
Definition at_end (k : list N) : Prop := k = [] \/ exists k', k = comma :: k'.
Definition r_cont (p k : list N) : option (list N) :=
  match k with
  | [] => Some p
  | _ :: k' => match r_run RStart k' with Some l => Some (p ++ l) | None => None end
  end.

Lemma run_end q k p : at_end k -> r_finish q = Some p -> r_run q k = r_cont p k.
Proof.
  intros [->|[k' ->]] H.
  - simpl. exact H.
  - rewrite step_comma, H. reflexivity.
Qed.

Lemma run_blanks_start ws k : blanks ws -> r_run RStart (ws ++ k) = r_run RStart k.
Proof. induction 1 as [|b ws Hb _ IH]; [reflexivity|]. cbn [app]. now rewrite step_start_blank. Qed.
Lemma run_blanks_trail p ws k : blanks ws -> r_run (RTrail p) (ws ++ k) = r_run (RTrail p) k.
Proof. induction 1 as [|b ws Hb _ IH]; [reflexivity|]. cbn [app]. now rewrite step_trail_blank. Qed.

Lemma run_digits1 ds : forall v v' k, digits_val v ds = Some v' -> r_run (RNum1 v) (ds ++ k) = r_run (RNum1 v') k.
Proof.
  induction ds as [|d ds IH]; intros v v' k H; cbn [digits_val] in H.
  - injection H as <-. reflexivity.
  - destruct (is_digit d) eqn:Hd; [|discriminate]. cbn [app]. rewrite step_num1_digit by assumption. now apply IH.
Qed.
Lemma run_digits2 a ds : forall v v' k, digits_val v ds = Some v' -> r_run (RNum2 a v) (ds ++ k) = r_run (RNum2 a v') k.
Proof.
  induction ds as [|d ds IH]; intros v v' k H; cbn [digits_val] in H.
  - injection H as <-. reflexivity.
  - destruct (is_digit d) eqn:Hd; [|discriminate]. cbn [app]. rewrite step_num2_digit by assumption. now apply IH.
Qed.

Lemma number_head ds n : number ds n -> exists d r, ds = d :: r /\ is_digit d = true /\ digits_val (d - 48) r = Some n.
Proof.
  intros H. destruct (number_first _ _ H) as [d [r [-> Hd]]]. apply number_digits_val in H.
  cbn [digits_val] in H. rewrite Hd, N.mul_0_r, N.add_0_l in H. eauto.
Qed.

Definition closable (q : rstate) : Prop :=
  match q with RNum1 _ | RNum2 _ _ | RTrail _ => True | _ => False end.

Lemma run_close q p ws k :
  closable q -> r_finish q = Some p -> blanks ws -> at_end k -> r_run q (ws ++ k) = r_cont p k.
Proof.
  intros Hq Hf Hw Hk. destruct Hw as [|w ws Hb Hw]; [now apply run_end|]. cbn [app].
  assert (Ht : r_run (RTrail p) (ws ++ k) = r_cont p k) by (rewrite run_blanks_trail by assumption; now apply run_end).
  destruct q; try contradiction; cbn [r_finish] in Hf.
  - now rewrite (step_num1_blank _ _ _ p).
  - now rewrite (step_num2_blank _ _ _ _ p).
  - injection Hf as ->. now rewrite step_trail_blank.
Qed.

Lemma r_single_ok n : n <= max_int -> r_single n = Some [n].
Proof. intros H. unfold r_single. apply N.leb_le in H. now rewrite H. Qed.
Lemma r_range_ok n m : n <= m -> m <= max_int -> m - n <= max_span -> r_range n m = Some (cpu_range n m).
Proof. intros H1 H2 H3. unfold r_range. apply N.leb_le in H1, H2, H3. now rewrite H1, H2, H3. Qed.

Lemma item_run body l ws k :
  item body l -> blanks ws -> at_end k -> r_run RStart (body ++ ws ++ k) = r_cont l k.
Proof.
  intros Hi Hw Hk. destruct Hi as [ds n Hn Hm|ds1 n ds2 m Hn Hm Hle Hmax Hspan].
  - destruct (number_head _ _ Hn) as [d [r [-> [Hd Hv]]]]. cbn [app].
    rewrite step_start_digit by assumption. rewrite (run_digits1 _ _ _ _ Hv).
    apply run_close; auto; [exact I|now apply r_single_ok].
  - destruct (number_head _ _ Hn) as [d [r [-> [Hd Hv]]]]. destruct (number_head _ _ Hm) as [d2 [r2 [-> [Hd2 Hv2]]]].
    rewrite <- app_assoc. cbn [app]. rewrite step_start_digit by assumption. rewrite (run_digits1 _ _ _ _ Hv).
    rewrite step_num1_dash, step_dash_digit by assumption. rewrite (run_digits2 _ _ _ _ _ Hv2).
    apply run_close; auto; [exact I|now apply r_range_ok].
Qed.

Lemma field_run f l k : field f l -> at_end k -> r_run RStart (f ++ k) = r_cont l k.
Proof.
  intros Hf Hk. destruct Hf as [ws Hw|ws1 body ws2 l H1 H2 Hi].
  - rewrite run_blanks_start by assumption. now apply run_end.
  - rewrite <- !app_assoc. rewrite run_blanks_start by assumption. now apply item_run.
Qed.

Lemma cpulist_recognise s l : cpulist s l -> recognise s = Some l.
Proof.
  unfold recognise. induction 1 as [f l Hf|f l s l' Hf Hs IH].
  - rewrite <- (app_nil_r f). rewrite (field_run f l []) by (auto; now left). reflexivity.
  - rewrite (field_run f l (comma :: s)) by (auto; right; eauto). cbn [r_cont]. now rewrite IH.
Qed.

(* ---- recogniser => grammar --------------------------------------------------------------------- *)
(* what a state knows about the part of the current field read so far *)
Definition st_ok (q : rstate) (pre : list N) : Prop :=
  match q with
  | RStart => blanks pre
  | RNum1 v => exists ws ds, pre = ws ++ ds /\ blanks ws /\ number ds v
  | RDash a => exists ws ds, pre = ws ++ ds ++ [dash] /\ blanks ws /\ number ds a
  | RNum2 a v => exists ws ds1 ds2, pre = ws ++ ds1 ++ dash :: ds2 /\ blanks ws /\ number ds1 a /\ number ds2 v
  | RTrail p => exists ws1 body ws2, pre = ws1 ++ body ++ ws2 /\ blanks ws1 /\ blanks ws2 /\ item body p
  end.

Lemma r_single_inv v p : r_single v = Some p -> v <= max_int /\ p = [v].
Proof. unfold r_single. destruct (v <=? max_int) eqn:E; [|discriminate]. intros H; injection H as <-. apply N.leb_le in E. auto. Qed.
Lemma r_range_inv a b p : r_range a b = Some p -> a <= b /\ b <= max_int /\ b - a <= max_span /\ p = cpu_range a b.
Proof.
  unfold r_range. destruct ((a <=? b) && (b <=? max_int) && (b - a <=? max_span)) eqn:E; [|discriminate].
  intros H; injection H as <-. apply andb_true_iff in E as [E E3]. apply andb_true_iff in E as [E1 E2].
  apply N.leb_le in E1, E2, E3. auto.
Qed.

Lemma finish_field q pre p : st_ok q pre -> r_finish q = Some p -> field pre p.
Proof.
  destruct q as [|v|a|a v|p']; cbn [st_ok r_finish]; intros Hs Hf.
  - injection Hf as <-. now apply field_empty.
  - destruct Hs as [ws [ds [-> [Hw Hn]]]]. apply r_single_inv in Hf as [Hm ->].
    rewrite <- (app_nil_r ds). apply field_item; auto; [constructor|now apply item_one].
  - discriminate.
  - destruct Hs as [ws [ds1 [ds2 [-> [Hw [Hn1 Hn2]]]]]]. apply r_range_inv in Hf as [H1 [H2 [H3 ->]]].
    rewrite <- (app_nil_r (ds1 ++ dash :: ds2)). apply field_item; auto; [constructor|now apply item_range].
  - injection Hf as <-. destruct Hs as [ws1 [body [ws2 [-> [H1 [H2 Hi]]]]]]. now apply field_item.
Qed.

Lemma blanks_snoc ws c : blanks ws -> is_blank c = true -> blanks (ws ++ [c]).
Proof. intros H Hc. apply Forall_app. split; [assumption|]. repeat constructor. assumption. Qed.

Lemma run_cpulist s : forall q pre l, st_ok q pre -> r_run q s = Some l -> cpulist (pre ++ s) l.
Proof.
  induction s as [|c s IH]; intros q pre l Hs H.
  - rewrite app_nil_r. apply cl_last. eapply finish_field; eassumption.
  - destruct (c =? comma) eqn:Ec.
    + apply N.eqb_eq in Ec. subst c. rewrite step_comma in H.
      destruct (r_finish q) as [p|] eqn:Ef; [|discriminate]. destruct (r_run RStart s) as [l'|] eqn:Er; [|discriminate].
      injection H as <-. apply cl_cons; [eapply finish_field; eassumption|].
      apply (IH RStart [] l'); [constructor|assumption].
    + replace (pre ++ c :: s) with ((pre ++ [c]) ++ s) by (now rewrite <- app_assoc).
      cbn [r_run] in H. rewrite Ec in H. destruct q as [|v|a|a v|p]; cbn [st_ok] in Hs.
      * destruct (is_blank c) eqn:Hb.
        -- apply (IH RStart); [now apply blanks_snoc|assumption].
        -- destruct (is_digit c) eqn:Hd; [|discriminate]. apply (IH (RNum1 (c - 48))); [|assumption].
           exists pre, [c]. repeat split; [assumption|now apply num_one].
      * destruct Hs as [ws [ds [-> [Hw Hn]]]]. destruct (is_digit c) eqn:Hd.
        -- apply (IH (RNum1 (10 * v + (c - 48)))); [|assumption].
           exists ws, (ds ++ [c]). repeat split; [now rewrite app_assoc|assumption|now apply num_snoc].
        -- destruct (c =? dash) eqn:Ed.
           ++ apply N.eqb_eq in Ed. subst c. apply (IH (RDash v)); [|assumption].
              exists ws, ds. repeat split; [now rewrite app_assoc|assumption|assumption].
           ++ destruct (is_blank c) eqn:Hb; [|discriminate]. destruct (r_single v) as [p|] eqn:Ep; [|discriminate].
              apply r_single_inv in Ep as [Hm ->]. apply (IH (RTrail [v])); [|assumption].
              exists ws, ds, [c]. repeat split; [now rewrite app_assoc|assumption|repeat constructor; assumption|now apply item_one].
      * destruct Hs as [ws [ds [-> [Hw Hn]]]]. destruct (is_digit c) eqn:Hd; [|discriminate].
        apply (IH (RNum2 a (c - 48))); [|assumption].
        exists ws, ds, [c]. repeat split; [now rewrite <- !app_assoc|assumption|assumption|now apply num_one].
      * destruct Hs as [ws [ds1 [ds2 [-> [Hw [Hn1 Hn2]]]]]]. destruct (is_digit c) eqn:Hd.
        -- apply (IH (RNum2 a (10 * v + (c - 48)))); [|assumption].
           exists ws, ds1, (ds2 ++ [c]). repeat split; [now rewrite <- !app_assoc|assumption|assumption|now apply num_snoc].
        -- destruct (is_blank c) eqn:Hb; [|discriminate]. destruct (r_range a v) as [p|] eqn:Ep; [|discriminate].
           apply r_range_inv in Ep as [H1 [H2 [H3 ->]]]. apply (IH (RTrail (cpu_range a v))); [|assumption].
           exists ws, (ds1 ++ dash :: ds2), [c].
           repeat split; [now rewrite <- !app_assoc|assumption|repeat constructor; assumption|now apply item_range].
      * destruct Hs as [ws1 [body [ws2 [-> [H1 [H2 Hi]]]]]]. destruct (is_blank c) eqn:Hb; [|discriminate].
        apply (IH (RTrail p)); [|assumption].
        exists ws1, body, (ws2 ++ [c]). repeat split; [now rewrite <- !app_assoc|assumption|now apply blanks_snoc|assumption].
Qed.

Theorem recognise_grammar s l : recognise s = Some l <-> cpulist s l.
Proof.
  split; [|apply cpulist_recognise]. intros H. apply (run_cpulist s RStart [] l); [constructor|exact H].
Qed.

(* the mirror of the code and the independent recogniser agree on every byte string *)
Theorem parse_cpu_list_recognise s : parse_cpu_list s = recognise s.
Proof.
  destruct (parse_cpu_list s) as [l|] eqn:E.
  - symmetry. apply recognise_grammar. now apply parse_cpu_list_grammar.
  - destruct (recognise s) as [l|] eqn:Er; [|reflexivity].
    apply recognise_grammar, parse_cpu_list_grammar in Er. congruence.
Qed.

(* the grammar is functional: a string has at most one expansion *)
Lemma cpulist_functional s l1 l2 : cpulist s l1 -> cpulist s l2 -> l1 = l2.
Proof. intros H1 H2. apply recognise_grammar in H1, H2. congruence. Qed.

(* Dns_examples: a concrete responder state and the answers it gives (non-vacuity of the C44 theorems). *)
From Coq Require Import List NArith Bool.
Import ListNotations.
From NV Require Import lib.Ip lib.Corr model.Dns proofs.Dns_proofs.
Open Scope N_scope.

Definition n_lh : name := [108; 104].                          (* "lh" *)
Definition n_Host1 : name := [72; 111; 115; 116; 49].          (* "Host1" *)
Definition n_v4only : name := [118; 52; 111; 110; 108; 121].   (* "v4only" *)
Definition q_HOST1 : name := [72; 79; 83; 84; 49; 46].         (* "HOST1." *)
Definition q_host1 : name := [104; 111; 115; 116; 49; 46].     (* "host1." *)
Definition q_v4only : name := [118; 52; 111; 110; 108; 121; 46].
Definition q_nope : name := [110; 111; 112; 101; 46].          (* "nope." *)
Definition q_ip5 : name := [49; 48; 46; 49; 46; 48; 46; 53; 46]. (* "10.1.0.5." *)

Definition a_me : addr := (true, 167837697).     (* 10.1.0.1 *)
Definition a_h4 : addr := (true, 167837701).     (* 10.1.0.5 *)
Definition a_h6 : addr := (false, 336294682933583715844663186250927177733). (* fd00::5 *)
Definition a_v4 : addr := (true, 167837702).     (* 10.1.0.6 *)
Definition outside : option addr := Some (true, 134744072).   (* 8.8.8.8 *)
Definition loopback : option addr := Some (true, 2130706433). (* 127.0.0.1 *)

Definition ex_hist : list dop := [DAdd 2 n_Host1 [a_h4; a_h6]; DAdd 3 n_v4only [a_v4]].
Definition ex_state : dstate := drun (dinit true 1 n_lh [a_me]) ex_hist.

(* case-insensitive A and AAAA answers with the certificate's addresses *)
Example ex_a : parse_query ex_state outside [(ty_A, q_HOST1, None)] = ([(ty_A, q_HOST1, snd a_h4)], false) /\
               parse_query ex_state outside [(ty_AAAA, q_host1, None)] = ([(ty_AAAA, q_host1, snd a_h6)], false).
Proof. vm_compute. split; reflexivity. Qed.

(* known name, no record of that type: NOERROR and nothing; unknown name: NXDOMAIN *)
Example ex_nodata : parse_query ex_state outside [(15, q_host1, None)] = ([], false) /\
                    parse_query ex_state outside [(ty_AAAA, q_v4only, None)] = ([], false) /\
                    parse_query ex_state outside [(ty_A, q_nope, None)] = ([], true) /\
                    parse_query ex_state outside [(15, q_nope, None)] = ([], true).
Proof. vm_compute. repeat split; reflexivity. Qed.

(* certificate details: to loopback and to my own address, not to anybody else (who gets NOERROR and nothing) *)
Example ex_txt : parse_query ex_state loopback [(ty_TXT, q_ip5, Some a_h4)] = ([(ty_TXT, q_ip5, 2)], false) /\
                 parse_query ex_state (Some a_me) [(ty_TXT, q_ip5, Some a_h4)] = ([(ty_TXT, q_ip5, 2)], false) /\
                 parse_query ex_state outside [(ty_TXT, q_ip5, Some a_h4)] = ([], false) /\
                 parse_query ex_state (Some a_h4) [(ty_TXT, q_ip5, Some a_h4)] = ([], false).
Proof. vm_compute. repeat split; reflexivity. Qed.

(* several questions: one known name is enough for NOERROR; a certificate question from a client that may not ask it
   ends the processing with NOERROR even when no name is known *)
Example ex_multi : parse_query ex_state outside [(ty_A, q_nope, None); (15, q_host1, None)] = ([], false) /\
                   parse_query ex_state outside [(ty_A, q_nope, None); (15, q_nope, None)] = ([], true) /\
                   parse_query ex_state outside [(ty_A, q_nope, None); (ty_TXT, q_nope, None)] = ([], false) /\
                   parse_query ex_state outside [(ty_TXT, q_nope, None); (ty_A, q_host1, None)] = ([], false) /\
                   parse_query ex_state loopback [(ty_A, q_nope, None); (ty_TXT, q_nope, None)] = ([], true).
Proof. vm_compute. repeat split; reflexivity. Qed.

(* my own record, and what a disabled responder holds *)
Example ex_self : parse_query ex_state outside [(ty_A, n_lh ++ [dot], None)] = ([(ty_A, n_lh ++ [dot], snd a_me)], false) /\
                  d_m4 (drun ex_state [DReload false; DAdd 4 n_Host1 [a_h4]]) = [].
Proof. vm_compute. split; reflexivity. Qed.

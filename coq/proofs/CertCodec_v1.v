(* Version 1 (protobuf): decoding what was encoded; the decoder only returns certificates that obey validate(). *)
From Coq Require Import List NArith ZArith Lia Bool.
From Coq Require Import ZifyN ZifyNat ZifyBool.
Import ListNotations.
From NV Require Import lib.Bytes lib.Proto lib.Der model.CertCodec proofs.CertCodec_sort proofs.CertCodec_v2.
Open Scope N_scope.
Local Ltac Zify.zify_post_hook ::= Z.div_mod_to_equations.

(* a Go slice holds fewer than 2^63 bytes: the only size assumption of the v1 round trip *)
Definition go_len (b : list N) : Prop := lenN b < two63.

(* ---- handlers never grow the input ---- *)

Lemma pb_unknown_le {St} (st st' : St) num typ b r : pb_unknown st num typ b = Some (st', r) -> (length r <= length b)%nat.
Proof.
  unfold pb_unknown. destruct (skip_field_pw num typ b) as [r0|] eqn:E; [|discriminate].
  intros H; inversion H; subst. eapply skip_field_pw_shorter; eassumption.
Qed.

Lemma pb_bytes_le {St} b (k : list N -> option St) st' r : pb_bytes b k = Some (st', r) -> (length r <= length b)%nat.
Proof.
  unfold pb_bytes. destruct (bytes_dec b) as [[v r0]|] eqn:E; [|discriminate].
  destruct (k v); [|discriminate]. intros H; inversion H; subst.
  apply bytes_dec_progress in E as (p & -> & _). rewrite !app_length. lia.
Qed.

Lemma pb_varint_le {St} b (k : N -> St) st' r : pb_varint b k = Some (st', r) -> (length r <= length b)%nat.
Proof.
  unfold pb_varint. destruct (varint_dec b) as [[v r0]|] eqn:E; [|discriminate].
  intros H; inversion H; subst. apply varint_dec_progress in E as ((p & -> & _) & _). rewrite app_length. lia.
Qed.

Lemma pb_u32s_le {St} typ b (k : list N -> St) st num st' r :
  pb_u32s typ b k st num = Some (st', r) -> (length r <= length b)%nat.
Proof.
  unfold pb_u32s.
  destruct typ as [|[[[]|[]|]|[[]|[]|]|]]; first [apply pb_unknown_le | apply pb_bytes_le | apply pb_varint_le].
Qed.

Lemma tag_dec_pb_progress b num typ r : tag_dec_pb b = Some (num, typ, r) -> (length r < length b)%nat.
Proof.
  unfold tag_dec_pb. destruct (varint_dec b) as [[v r0]|] eqn:E; [|discriminate].
  destruct (_ && _); [|discriminate]. intros H; inversion H; subst.
  apply varint_dec_progress in E as ((p & -> & Hp) & _). rewrite app_length. lia.
Qed.

Ltac handler_le :=
  match goal with
  | |- (if ?c then _ else _) = Some _ -> _ => destruct c; handler_le
  | |- pb_unknown _ _ _ _ = Some _ -> _ => let H := fresh in intros H; apply pb_unknown_le in H; lia
  | |- pb_bytes _ _ = Some _ -> _ => let H := fresh in intros H; apply pb_bytes_le in H; lia
  | |- pb_varint _ _ = Some _ -> _ => let H := fresh in intros H; apply pb_varint_le in H; lia
  | |- pb_u32s _ _ _ _ _ = Some _ -> _ => let H := fresh in intros H; apply pb_u32s_le in H; lia
  end.

Lemma d_step_progress d b d' b' : d_step d b = Some (d', b') -> (length b' < length b)%nat.
Proof.
  unfold d_step. destruct (tag_dec_pb b) as [[[num typ] b1]|] eqn:E; [|discriminate].
  apply tag_dec_pb_progress in E.
  repeat match goal with |- context [match ?x with _ => _ end] => is_var x; destruct x end; handler_le.
Qed.

Lemma c_step_progress st b st' b' : c_step st b = Some (st', b') -> (length b' < length b)%nat.
Proof.
  unfold c_step. destruct (tag_dec_pb b) as [[[num typ] b1]|] eqn:E; [|discriminate].
  apply tag_dec_pb_progress in E.
  repeat match goal with |- context [match ?x with _ => _ end] => is_var x; destruct x end; handler_le.
Qed.

(* ---- reading back one field ---- *)

Lemma tag_dec_pb_enc num typ rest : 1 <= num -> num <= max_valid_number -> typ < 8 -> typ <> 4 ->
  tag_dec_pb (tag_enc num typ ++ rest) = Some (num, typ, rest).
Proof.
  intros H1 H2 H3 H4. unfold tag_dec_pb, tag_enc. unfold max_valid_number in H2.
  rewrite varint_dec_enc by (unfold two64; lia). rewrite tag_div, tag_mod by assumption.
  replace (1 <=? num) with true by (symmetry; apply N.leb_le; lia).
  replace (num <=? max_valid_number) with true by (symmetry; apply N.leb_le; unfold max_valid_number; lia).
  replace (typ =? 4) with false by (symmetry; now apply N.eqb_neq). reflexivity.
Qed.

Lemma field_bytes_nonempty n v : field_bytes n v <> [].
Proof.
  unfold field_bytes, tag_enc. pose proof (varint_enc_nonempty (n * 8 + wt_bytes)).
  destruct (varint_enc (n * 8 + wt_bytes)); [contradiction|discriminate].
Qed.

Lemma field_varint_nonempty n v : field_varint n v <> [].
Proof.
  unfold field_varint, tag_enc. pose proof (varint_enc_nonempty (n * 8 + wt_varint)).
  destruct (varint_enc (n * 8 + wt_varint)); [contradiction|discriminate].
Qed.

Lemma field_bytes_len n v : (length v <= length (field_bytes n v))%nat.
Proof. unfold field_bytes, bytes_enc. rewrite !app_length. lia. Qed.

Definition small (v : list N) : Prop := lenN v < two64.

(* the state after one field, by field *)
Ltac step_bytes :=
  unfold d_step, field_bytes; rewrite <- app_assoc;
  rewrite tag_dec_pb_enc by (unfold max_valid_number, wt_bytes; lia || discriminate);
  cbv iota; change (wt_bytes =? 2) with true; cbv iota; unfold pb_bytes;
  rewrite bytes_dec_enc by assumption.

Ltac step_varint :=
  unfold d_step, field_varint; rewrite <- app_assoc;
  rewrite tag_dec_pb_enc by (unfold max_valid_number, wt_varint; lia || discriminate);
  cbv iota; change (wt_varint =? 0) with true; cbv iota; unfold pb_varint;
  rewrite varint_dec_enc by assumption.

Lemma d_step_name d v rest : small v -> utf8_valid v = true ->
  d_step d (field_bytes 1 v ++ rest) = Some (set_name d v, rest).
Proof. intros Hs Hu. step_bytes. now rewrite Hu. Qed.

Lemma d_step_group d v rest : small v -> utf8_valid v = true ->
  d_step d (field_bytes 4 v ++ rest) = Some (add_group d v, rest).
Proof. intros Hs Hu. step_bytes. now rewrite Hu. Qed.

Lemma d_step_pub d v rest : small v -> d_step d (field_bytes 7 v ++ rest) = Some (set_pub d v, rest).
Proof. intros Hs. step_bytes. reflexivity. Qed.

Lemma d_step_issuer d v rest : small v -> d_step d (field_bytes 9 v ++ rest) = Some (set_issuer d v, rest).
Proof. intros Hs. step_bytes. reflexivity. Qed.

Lemma d_step_nb d x rest : x < two64 -> d_step d (field_varint 5 x ++ rest) = Some (set_nb d x, rest).
Proof. intros Hx. step_varint. reflexivity. Qed.

Lemma d_step_na d x rest : x < two64 -> d_step d (field_varint 6 x ++ rest) = Some (set_na d x, rest).
Proof. intros Hx. step_varint. reflexivity. Qed.

Lemma d_step_isca d x rest : x < two64 -> d_step d (field_varint 8 x ++ rest) = Some (set_isca d (negb (x =? 0)), rest).
Proof. intros Hx. step_varint. reflexivity. Qed.

Lemma d_step_curve d x rest : x < two64 -> d_step d (field_varint 100 x ++ rest) = Some (set_curve d (w32 x), rest).
Proof. intros Hx. step_varint. reflexivity. Qed.

(* packed repeated varints *)
Lemma packed_step acc b : b <> [] ->
  msg_run (fun acc b => match varint_dec b with Some (v, r) => Some (acc ++ [v], r) | None => None end) acc b =
  match varint_dec b with
  | Some (v, r) => msg_run (fun acc b => match varint_dec b with Some (v, r) => Some (acc ++ [v], r) | None => None end) (acc ++ [v]) r
  | None => None
  end.
Proof.
  intros Hb. rewrite msg_run_step; [|..|exact Hb].
  - destruct (varint_dec b) as [[v r]|]; reflexivity.
  - intros st b0 st' b' H. destruct (varint_dec b0) as [[v r]|] eqn:E; [|discriminate]. inversion H; subst.
    apply varint_dec_progress in E as ((p & -> & Hp) & _). rewrite app_length. lia.
Qed.

Lemma packed_dec_enc_acc xs : forall acc, Forall (fun x => x < two64) xs ->
  msg_run (fun acc b => match varint_dec b with Some (v, r) => Some (acc ++ [v], r) | None => None end) acc (packed_enc xs)
  = Some (acc ++ xs).
Proof.
  induction xs as [|x xs IH]; intros acc HF.
  - cbn. now rewrite app_nil_r.
  - inversion HF; subst. unfold packed_enc. cbn [flat_map]. rewrite packed_step.
    + rewrite varint_dec_enc by assumption. fold (packed_enc xs). rewrite IH by assumption. now rewrite <- app_assoc.
    + pose proof (varint_enc_nonempty x). destruct (varint_enc x); [contradiction|discriminate].
Qed.

Lemma packed_dec_enc xs : Forall (fun x => x < two64) xs -> packed_dec varint_dec (packed_enc xs) = Some xs.
Proof. intros H. unfold packed_dec. now rewrite packed_dec_enc_acc. Qed.

Lemma map_w32_id xs : Forall (fun x => x < two32) xs -> map w32 xs = xs.
Proof.
  induction 1 as [|x xs Hx _ IH]; [reflexivity|]. cbn [map]. rewrite IH. f_equal. unfold w32. apply N.mod_small.
  exact Hx.
Qed.

Lemma d_step_ips d xs rest : small (packed_enc xs) -> Forall (fun x => x < two32) xs ->
  d_step d (field_bytes 2 (packed_enc xs) ++ rest) = Some (add_ips d xs, rest).
Proof.
  intros Hs HF. unfold d_step, field_bytes. rewrite <- app_assoc.
  rewrite tag_dec_pb_enc by (unfold max_valid_number, wt_bytes; lia || discriminate).
  cbv iota. unfold pb_u32s, wt_bytes. cbv iota. unfold pb_bytes. rewrite bytes_dec_enc by assumption.
  rewrite packed_dec_enc by (eapply Forall_impl; [|exact HF]; cbn; unfold two32, two64; intros; lia).
  now rewrite map_w32_id.
Qed.

Lemma d_step_subnets d xs rest : small (packed_enc xs) -> Forall (fun x => x < two32) xs ->
  d_step d (field_bytes 3 (packed_enc xs) ++ rest) = Some (add_subnets d xs, rest).
Proof.
  intros Hs HF. unfold d_step, field_bytes. rewrite <- app_assoc.
  rewrite tag_dec_pb_enc by (unfold max_valid_number, wt_bytes; lia || discriminate).
  cbv iota. unfold pb_u32s, wt_bytes. cbv iota. unfold pb_bytes. rewrite bytes_dec_enc by assumption.
  rewrite packed_dec_enc by (eapply Forall_impl; [|exact HF]; cbn; unfold two32, two64; intros; lia).
  now rewrite map_w32_id.
Qed.

(* ---- running over the encoded details ---- *)

Notation drun := (msg_run d_step).

Lemma drun_field d d' f rest : f <> [] -> d_step d (f ++ rest) = Some (d', rest) -> drun d (f ++ rest) = drun d' rest.
Proof. intros. apply (msg_run_field d_step d_step_progress); assumption. Qed.

Lemma drun_groups gs : forall d rest, Forall (fun g => small g /\ utf8_valid g = true) gs ->
  drun d (flat_map (field_bytes 4) gs ++ rest) =
  drun (mkRawd (r_name d) (r_ips d) (r_subnets d) (r_groups d ++ gs) (r_nb d) (r_na d) (r_pub d) (r_isca d) (r_issuer d) (r_curve d)) rest.
Proof.
  induction gs as [|g gs IH]; intros d rest HF.
  - cbn [flat_map app]. rewrite app_nil_r. destruct d; reflexivity.
  - inversion HF as [|? ? [Hs Hu] HF']; subst. cbn [flat_map]. rewrite <- app_assoc.
    rewrite (drun_field d (add_group d g)) by (try apply field_bytes_nonempty; now apply d_step_group).
    rewrite IH by assumption. unfold add_group. cbn [r_name r_ips r_subnets r_groups r_nb r_na r_pub r_isca r_issuer r_curve].
    now rewrite <- app_assoc.
Qed.

(* the fields as the certificate has them *)
Definition rawd_of (c : cert) : rawd :=
  mkRawd (c_name c) (ip_pairs (c_nets c)) (ip_pairs (c_unsafe c)) (c_groups c) (i64_to_u64 (c_nb c)) (i64_to_u64 (c_na c))
         (c_pub c) (c_isca c) (c_issuer c) (c_curve c).

Lemma i64_u64_bound z : i64_to_u64 z < two64.
Proof. unfold i64_to_u64, two64. lia. Qed.

Lemma u64_i64_roundtrip z : int64_ok z = true -> u64_to_i64 (i64_to_u64 z) = z.
Proof.
  unfold int64_ok, u64_to_i64, i64_to_u64, two63. intros H.
  destruct (_ <? _) eqn:E; lia.
Qed.

Lemma curve_u64_bound cv : cv < two32 -> curve_to_u64 cv < two64.
Proof. unfold curve_to_u64, two32, two64. intros H. destruct (cv <? 2147483648); lia. Qed.

Lemma curve_u64_w32 cv : cv < two32 -> w32 (curve_to_u64 cv) = cv.
Proof. unfold curve_to_u64, w32, two32, two64. intros H. destruct (cv <? 2147483648) eqn:E; lia. Qed.

Lemma curve_u64_zero cv : cv < two32 -> curve_to_u64 cv = 0 -> cv = 0.
Proof. unfold curve_to_u64, two32, two64. intros H. destruct (cv <? 2147483648) eqn:E; lia. Qed.

Definition v1_small (c : cert) : Prop :=
  small (c_name c) /\ small (packed_enc (ip_pairs (c_nets c))) /\ small (packed_enc (ip_pairs (c_unsafe c))) /\
  Forall small (c_groups c) /\ small (c_pub c) /\ small (c_issuer c).

Lemma ip_pairs_w32 l : forallb pfx_valid l = true -> forallb p_is4 l = true -> Forall (fun x => x < two32) (ip_pairs l).
Proof.
  induction l as [|p l IH]; intros Hv H4; [constructor|].
  cbn [forallb] in *. apply andb_prop in Hv as [Hv1 Hv2]. apply andb_prop in H4 as [H41 H42].
  unfold ip_pairs. cbn [flat_map app]. constructor; [|constructor; [|now apply IH]].
  - unfold pfx_valid in Hv1. rewrite H41 in Hv1. apply andb_prop in Hv1 as [A _]. now apply N.ltb_lt.
  - unfold cidr_mask, two32.
    assert (0 < 2 ^ (32 - p_bits p)) by (apply N.neq_0_lt_0; apply N.pow_nonzero; discriminate). lia.
Qed.

Theorem drun_details c rest : v1_small c -> marshalable_v1 c = true ->
  forallb pfx_valid (c_nets c) = true -> forallb p_is4 (c_nets c) = true ->
  forallb pfx_valid (c_unsafe c) = true -> forallb p_is4 (c_unsafe c) = true ->
  c_curve c < two32 -> c_pub c = c_pub c ->
  drun rawd0 (encode_details_v1 c ++ rest) = drun (rawd_of c) rest.
Proof.
  intros (Sn & Si & Su & Sg & Sp & Siss) Hm Hnv Hn4 Huv Hu4 Hcv _.
  unfold marshalable_v1 in Hm. apply andb_prop in Hm as [Hname Hgroups].
  unfold encode_details_v1. rewrite <- !app_assoc.
  (* name *)
  match goal with |- drun ?d (opt_bytes 1 ?x ++ ?r) = _ =>
    assert (E1 : drun d (opt_bytes 1 x ++ r) = drun (set_name d x) r) end.
  { unfold opt_bytes. destruct (c_name c) as [|x nm] eqn:En; [reflexivity|]. cbn [is_nil].
    apply drun_field; [apply field_bytes_nonempty|]. now apply d_step_name. }
  rewrite E1; clear E1.
  (* ips *)
  match goal with |- drun ?d (opt_packed 2 ?xs ++ ?r) = _ =>
    assert (E2 : drun d (opt_packed 2 xs ++ r) = drun (add_ips d xs) r) end.
  { unfold opt_packed. destruct (ip_pairs (c_nets c)) as [|x l] eqn:En; [reflexivity|]. cbn [is_nil].
    apply drun_field; [apply field_bytes_nonempty|]. apply d_step_ips; [assumption|].
    rewrite <- En. now apply ip_pairs_w32. }
  rewrite E2; clear E2.
  match goal with |- drun ?d (opt_packed 3 ?xs ++ ?r) = _ =>
    assert (E3 : drun d (opt_packed 3 xs ++ r) = drun (add_subnets d xs) r) end.
  { unfold opt_packed. destruct (ip_pairs (c_unsafe c)) as [|x l] eqn:En; [reflexivity|]. cbn [is_nil].
    apply drun_field; [apply field_bytes_nonempty|]. apply d_step_subnets; [assumption|].
    rewrite <- En. now apply ip_pairs_w32. }
  rewrite E3; clear E3.
  (* groups *)
  rewrite drun_groups.
  2:{ rewrite Forall_forall in *. rewrite forallb_forall in Hgroups. intros g Hg. split; [now apply Sg|now apply Hgroups]. }
  cbn [set_name add_ips add_subnets rawd0 r_name r_ips r_subnets r_groups r_nb r_na r_pub r_isca r_issuer r_curve app].
  (* not before / not after *)
  match goal with |- drun ?d (opt_varint 5 ?x ++ ?r) = _ =>
    assert (E5 : drun d (opt_varint 5 x ++ r) = drun (set_nb d x) r) end.
  { unfold opt_varint. destruct (i64_to_u64 (c_nb c) =? 0) eqn:Ez.
    - apply N.eqb_eq in Ez. rewrite Ez. reflexivity.
    - apply drun_field; [apply field_varint_nonempty|]. apply d_step_nb. apply i64_u64_bound. }
  rewrite E5; clear E5.
  match goal with |- drun ?d (opt_varint 6 ?x ++ ?r) = _ =>
    assert (E6 : drun d (opt_varint 6 x ++ r) = drun (set_na d x) r) end.
  { unfold opt_varint. destruct (i64_to_u64 (c_na c) =? 0) eqn:Ez.
    - apply N.eqb_eq in Ez. rewrite Ez. reflexivity.
    - apply drun_field; [apply field_varint_nonempty|]. apply d_step_na. apply i64_u64_bound. }
  rewrite E6; clear E6.
  match goal with |- drun ?d (opt_bytes 7 ?x ++ ?r) = _ =>
    assert (E7 : drun d (opt_bytes 7 x ++ r) = drun (set_pub d x) r) end.
  { unfold opt_bytes. destruct (c_pub c) as [|x l] eqn:En; [reflexivity|]. cbn [is_nil].
    apply drun_field; [apply field_bytes_nonempty|]. now apply d_step_pub. }
  rewrite E7; clear E7.
  match goal with |- drun ?d ((if c_isca c then _ else _) ++ ?r) = _ =>
    assert (E8 : drun d ((if c_isca c then field_varint 8 1 else []) ++ r) = drun (set_isca d (c_isca c)) r) end.
  { destruct (c_isca c); [|reflexivity].
    apply drun_field; [apply field_varint_nonempty|]. apply (d_step_isca _ 1). unfold two64. lia. }
  rewrite E8; clear E8.
  match goal with |- drun ?d (opt_bytes 9 ?x ++ ?r) = _ =>
    assert (E9 : drun d (opt_bytes 9 x ++ r) = drun (set_issuer d x) r) end.
  { unfold opt_bytes. destruct (c_issuer c) as [|x l] eqn:En; [reflexivity|]. cbn [is_nil].
    apply drun_field; [apply field_bytes_nonempty|]. now apply d_step_issuer. }
  rewrite E9; clear E9.
  match goal with |- drun ?d (opt_varint 100 ?x ++ ?r) = _ =>
    assert (E10 : drun d (opt_varint 100 x ++ r) = drun (set_curve d (c_curve c)) r) end.
  { unfold opt_varint. destruct (curve_to_u64 (c_curve c) =? 0) eqn:Ez.
    - apply N.eqb_eq in Ez. apply curve_u64_zero in Ez; [|assumption]. rewrite Ez. reflexivity.
    - rewrite <- (curve_u64_w32 (c_curve c)) at 2 by assumption.
      apply drun_field; [apply field_varint_nonempty|]. apply d_step_curve. now apply curve_u64_bound. }
  rewrite E10; clear E10.
  reflexivity.
Qed.

(* ---- addresses and masks ---- *)

Lemma mask_size_table : forallb (fun k => mask_size (cidr_mask k) =? k) (map N.of_nat (seq 0 33)) = true.
Proof. vm_compute. reflexivity. Qed.

Lemma mask_size_cidr bits : bits <= 32 -> mask_size (cidr_mask bits) = bits.
Proof.
  intros H. pose proof mask_size_table as T. rewrite forallb_forall in T.
  apply N.eqb_eq. apply T. apply in_map_iff. exists (N.to_nat bits). split; [lia|]. apply in_seq. lia.
Qed.

Lemma unpair_pairs l : forallb pfx_valid l = true -> forallb p_is4 l = true -> unpair (ip_pairs l) = l.
Proof.
  induction l as [|p l IH]; intros Hv H4; [reflexivity|].
  cbn [forallb] in *. apply andb_prop in Hv as [Hv1 Hv2]. apply andb_prop in H4 as [H41 H42].
  unfold ip_pairs. cbn [flat_map app unpair]. fold (ip_pairs l). rewrite IH by assumption. f_equal.
  destruct p as [[is4 a] bits]. unfold pfx_valid, p_is4, p_addr, p_bits in *. cbn [fst snd] in *. subst is4.
  apply andb_prop in Hv1 as [_ Hb]. apply N.leb_le in Hb. now rewrite mask_size_cidr.
Qed.

Lemma ip_pairs_even l : Nat.odd (length (ip_pairs l)) = false.
Proof.
  induction l as [|p l IH]; [reflexivity|]. unfold ip_pairs. cbn [flat_map app length]. fold (ip_pairs l).
  exact IH.
Qed.

(* ---- the certificate ---- *)

(* the conditions under which the encoding of [c] reads back field by field ([c_pub] may be empty: handshake form) *)
Definition fields_v1_ok (c : cert) : Prop :=
  marshalable_v1 c = true /\
  forallb pfx_valid (c_nets c) = true /\ forallb p_is4 (c_nets c) = true /\
  forallb pfx_valid (c_unsafe c) = true /\ forallb p_is4 (c_unsafe c) = true /\
  int64_ok (c_nb c) = true /\ int64_ok (c_na c) = true /\ c_curve c < two32.

Lemma opt_bytes_len1 n v : (length v <= length (opt_bytes n v))%nat.
Proof. unfold opt_bytes. destruct v; [cbn; lia|]. cbn [is_nil]. apply field_bytes_len. Qed.

Lemma opt_packed_len n xs : (length (packed_enc xs) <= length (opt_packed n xs))%nat.
Proof. unfold opt_packed. destruct xs; [cbn; lia|]. cbn [is_nil]. apply field_bytes_len. Qed.

Lemma small_of_go_len (part whole : list N) : (length part <= length whole)%nat -> go_len whole -> small part.
Proof. unfold go_len, small, lenN, two63, two64. lia. Qed.

Lemma details_v1_small c : go_len (encode_details_v1 c) -> v1_small c.
Proof.
  intros G. unfold v1_small.
  assert (L : forall part, (length part <= length (encode_details_v1 c))%nat -> small part)
    by (intros; eapply small_of_go_len; eassumption).
  unfold encode_details_v1 in L.
  pose proof (opt_bytes_len1 1 (c_name c)). pose proof (opt_packed_len 2 (ip_pairs (c_nets c))).
  pose proof (opt_packed_len 3 (ip_pairs (c_unsafe c))). pose proof (opt_bytes_len1 7 (c_pub c)).
  pose proof (opt_bytes_len1 9 (c_issuer c)).
  repeat split; try (apply L; rewrite !app_length; lia).
  apply Forall_forall. intros g Hg. apply L.
  pose proof (flat_map_elem_len (field_bytes 4) _ _ Hg). pose proof (field_bytes_len 4 g).
  rewrite !app_length. lia.
Qed.

Lemma c_step_details st D rest d : small D -> msg_run d_step (match fst st with Some d0 => d0 | None => rawd0 end) D = Some d ->
  c_step st (field_bytes 1 D ++ rest) = Some ((Some d, snd st), rest).
Proof.
  intros Hs Hr. unfold c_step, field_bytes. rewrite <- app_assoc.
  rewrite tag_dec_pb_enc by (unfold max_valid_number, wt_bytes; lia || discriminate).
  cbv iota. change (wt_bytes =? 2) with true. cbv iota. unfold pb_bytes. rewrite bytes_dec_enc by assumption.
  now rewrite Hr.
Qed.

Lemma c_step_sig st v rest : small v -> c_step st (field_bytes 2 v ++ rest) = Some ((fst st, v), rest).
Proof.
  intros Hs. unfold c_step, field_bytes. rewrite <- app_assoc.
  rewrite tag_dec_pb_enc by (unfold max_valid_number, wt_bytes; lia || discriminate).
  cbv iota. change (wt_bytes =? 2) with true. cbv iota. unfold pb_bytes. now rewrite bytes_dec_enc by assumption.
Qed.

Theorem run_encode_v1 c : fields_v1_ok c -> go_len (encode_v1 c) ->
  msg_run c_step (None, []) (encode_v1 c) = Some (Some (rawd_of c), c_sig c).
Proof.
  intros (Hm & Hnv & Hn4 & Huv & Hu4 & Hnb & Hna & Hcv) G. unfold encode_v1 in *.
  assert (GD : go_len (encode_details_v1 c)).
  { unfold go_len, lenN in *. rewrite app_length in G. pose proof (field_bytes_len 1 (encode_details_v1 c)). lia. }
  assert (SD : small (encode_details_v1 c)) by (eapply small_of_go_len; [|exact GD]; lia).
  assert (SS : small (c_sig c)).
  { eapply small_of_go_len; [|exact G]. rewrite app_length. pose proof (opt_bytes_len1 2 (c_sig c)). lia. }
  pose proof (details_v1_small c GD) as Hsmall.
  assert (RD : msg_run d_step rawd0 (encode_details_v1 c) = Some (rawd_of c)).
  { rewrite <- (app_nil_r (encode_details_v1 c)). rewrite drun_details by (assumption || reflexivity). reflexivity. }
  rewrite (msg_run_field c_step c_step_progress (None, []) (Some (rawd_of c), []));
    [|apply field_bytes_nonempty|now apply c_step_details].
  unfold opt_bytes. destruct (c_sig c) as [|x sg] eqn:Es; [reflexivity|]. cbn [is_nil].
  rewrite <- (app_nil_r (field_bytes 2 (x :: sg))).
  rewrite (msg_run_field c_step c_step_progress (Some (rawd_of c), []) (Some (rawd_of c), x :: sg));
    [reflexivity|apply field_bytes_nonempty|now apply c_step_sig].
Qed.

Definition issued_v1 (c : cert) : Prop :=
  valid_v1 c = true /\ marshalable_v1 c = true /\ int64_ok (c_nb c) = true /\ int64_ok (c_na c) = true /\ c_curve c < two32.

Lemma valid_v1_parts c : valid_v1 c = true ->
  c_pub c <> [] /\ forallb pfx_valid (c_nets c) = true /\ forallb p_is4 (c_nets c) = true /\
  forallb pfx_valid (c_unsafe c) = true /\ forallb p_is4 (c_unsafe c) = true.
Proof.
  unfold valid_v1. intros H. repeat (apply andb_prop in H as [H ?]).
  match goal with X : forallb net_ok_v1 _ = true |- _ => rename X into Fn end.
  match goal with X : forallb unsafe_ok_v1 _ = true |- _ => rename X into Fu end.
  apply negb_true_iff in H. rewrite forallb_forall in Fn, Fu.
  repeat split; try (now apply is_nil_false_iff); apply forallb_forall; intros p Hp.
  - specialize (Fn p Hp). unfold net_ok_v1 in Fn. apply andb_prop in Fn as [Fn _]. now apply andb_prop in Fn as [Fn _].
  - specialize (Fn p Hp). unfold net_ok_v1 in Fn. apply andb_prop in Fn as [Fn _]. now apply andb_prop in Fn as [_ Fn].
  - specialize (Fu p Hp). unfold unsafe_ok_v1 in Fu. now apply andb_prop in Fu as [Fu _].
  - specialize (Fu p Hp). unfold unsafe_ok_v1 in Fu. now apply andb_prop in Fu as [_ Fu].
Qed.

Lemma encode_v1_not_nil c : is_nil (encode_v1 c) = false.
Proof.
  unfold encode_v1. pose proof (field_bytes_nonempty 1 (encode_details_v1 c)).
  destruct (field_bytes 1 (encode_details_v1 c)); [contradiction|reflexivity].
Qed.

(* the standard encoding: Marshal -> unmarshalCertificateV1(b, nil) *)
Theorem decode_encode_v1 c : issued_v1 c -> go_len (encode_v1 c) -> decode_v1 [] (encode_v1 c) = Some c.
Proof.
  intros (Hv & Hm & Hnb & Hna & Hcv) G.
  destruct (valid_v1_parts c Hv) as (Hpub & Hnv & Hn4 & Huv & Hu4).
  unfold decode_v1. rewrite encode_v1_not_nil.
  rewrite run_encode_v1 by (try assumption; repeat split; assumption).
  cbn [fst snd rawd_of r_name r_ips r_subnets r_groups r_nb r_na r_pub r_isca r_issuer r_curve is_nil negb andb].
  rewrite !ip_pairs_even. cbn [orb].
  rewrite !unpair_pairs, !u64_i64_roundtrip by assumption.
  replace (mkCert _ _ _ _ _ _ _ _ _ _ _) with c by (destruct c; reflexivity).
  now rewrite Hv.
Qed.

(* the handshake encoding: MarshalForHandshakes -> unmarshalCertificateV1(b, publicKey) *)
Theorem decode_encode_hs_v1 c : issued_v1 c -> go_len (encode_hs_v1 c) -> decode_v1 (c_pub c) (encode_hs_v1 c) = Some c.
Proof.
  intros (Hv & Hm & Hnb & Hna & Hcv) G.
  destruct (valid_v1_parts c Hv) as (Hpub & Hnv & Hn4 & Huv & Hu4).
  unfold decode_v1, encode_hs_v1 in *. rewrite encode_v1_not_nil.
  rewrite run_encode_v1 by (try assumption; repeat split; assumption).
  cbn [fst snd rawd_of with_pub c_name c_nets c_unsafe c_groups c_isca c_nb c_na c_issuer c_curve c_pub c_sig
       r_name r_ips r_subnets r_groups r_nb r_na r_pub r_isca r_issuer r_curve].
  rewrite !ip_pairs_even. cbn [orb]. rewrite (is_nil_false _ Hpub). cbn [is_nil negb andb].
  rewrite !unpair_pairs, !u64_i64_roundtrip by assumption.
  replace (mkCert _ _ _ _ _ _ _ _ _ _ _) with c by (destruct c; reflexivity).
  now rewrite Hv.
Qed.

(* every certificate the v1 decoder returns passed validate() *)
Theorem decode_v1_sound pk b c : decode_v1 pk b = Some c -> valid_v1 c = true.
Proof.
  unfold decode_v1. destruct (is_nil b); [discriminate|].
  destruct (msg_run c_step (None, []) b) as [[[d|] sg]|]; try discriminate. cbn [fst snd].
  destruct (Nat.odd _ || Nat.odd _); [discriminate|]. destruct (negb _ && negb _); [discriminate|].
  destruct (valid_v1 _) eqn:E; [|discriminate]. intros H; inversion H; subst. exact E.
Qed.

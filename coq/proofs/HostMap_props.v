(* The ghost-free property statements of model/HostMap.v (WF, IDX, RELEASE, delete, no resurrection)
   derived from the invariant, and their executable versions. *)
From Coq Require Import List NArith Bool Lia.
Import ListNotations.
From NV Require Import gen.Consts_HostMap model.HostMap proofs.HostMap_maps proofs.HostMap_lists proofs.HostMap_inv
  proofs.HostMap_ops.
Open Scope N_scope.

Lemma run_app ops1 : forall s ops2, run s (ops1 ++ ops2) = run (run s ops1) ops2.
Proof. induction ops1 as [|o r IH]; intros s ops2; simpl; [reflexivity|apply IH]. Qed.

(* ---------- live = Main ------------------------------------------------------------------------------ *)

Lemma live_main s h : Good s -> (live s h <-> st_of s h = Some Main).
Proof.
  intros (IV & _ & _). split.
  - intros (hi & E1 & E2). destruct (i_idx _ IV _ _ E2) as (hi' & _ & _ & M). exact M.
  - intros M. destruct (info s h) as [hi|] eqn:E.
    + exists hi. split; [exact E|]. eapply (i_main_idx _ IV); eauto.
    + exfalso. apply (i_ghost _ IV h); congruence.
Qed.

(* a hostinfo that is neither Main nor being added is referenced by no map of the main hostmap *)
Lemma nonmain_unreachable s h :
  Inv s -> st_of s h <> Some Main -> st_of s h <> Some Adding -> unreachable s h.
Proof.
  intros IV NM NA.
  assert (NL : forall a, ~ In h (L s a)).
  { intros a H. destruct (i_mem _ IV _ _ H) as (_ & _ & _ & [M|A]); contradiction. }
  repeat split.
  - intros a E. destruct (sync_hosts_head _ _ _ (i_sync _ IV) E) as [r GL]. apply (NL a). rewrite GL. now left.
  - exact NL.
  - intros a l E H. apply (NL a). now rewrite (more_in_list _ _ _ E).
  - intros i E. destruct (i_idx _ IV _ _ E) as (_ & _ & _ & M). contradiction.
  - intros i E. destruct (i_ridx _ IV _ _ E) as (_ & _ & _ & M). contradiction.
  - intros i E. destruct (i_rel _ IV _ _ E) as (_ & _ & _ & M). contradiction.
Qed.

Lemma nonpend_punreachable s h : Inv s -> st_of s h <> Some Pend -> punreachable s h.
Proof.
  intros IV NP. split.
  - intros a E. destruct (i_pvpn _ IV _ _ E) as (_ & _ & _ & M). contradiction.
  - intros a E. destruct (i_pidx _ IV _ _ E) as (_ & _ & _ & M). contradiction.
Qed.

Lemma dead_unreachable s h : Inv s -> st_of s h = Some Dead -> unreachable s h /\ punreachable s h.
Proof.
  intros IV D. split; [apply nonmain_unreachable|apply nonpend_punreachable]; auto; congruence.
Qed.

(* ---------- C28: WF ---------------------------------------------------------------------------------- *)

Lemma good_WF s : Good s -> WF s.
Proof.
  intros G. pose proof G as (IV & LN & NO). pose proof IV as IV0. inv_destruct IV0.
  assert (LV : forall x, st_of s x = Some Main -> live s x) by (intros x; apply live_main; assumption).
  constructor.
  - intros a p E. now apply sync_hosts_head.
  - intros a l E. destruct (SY _ _ E) as (p & q & r & -> & H). split; [simpl; lia|congruence].
  - exact ND.
  - exact LN.
  - intros a x H. destruct (MEM _ _ H) as (hi & E1 & E2 & [E3|E3]); [|now apply NO in E3].
    split; [now apply LV|]. exists hi. auto.
  - intros i h E. destruct (IX _ _ E) as (hi & E1 & E2 & E3). exists hi. split; [exact E1|]. split; [exact E2|].
    intros a A. eapply ML; eauto.
  - intros r h E. destruct (RX _ _ E) as (hi & E1 & E2 & E3). split; [now apply LV|]. eauto.
  - intros r h E. destruct (RL _ _ E) as (hi & E1 & E2 & E3). split; [now apply LV|]. eauto.
Qed.

Theorem wf_reachable ops : WF (run init ops).
Proof. apply good_WF, good_reachable. Qed.

(* ---------- C28: delete ------------------------------------------------------------------------------ *)

Lemma delete_unreachable s h :
  Good s -> known h s = true -> unreachable (fst (delete_hi h s)) h.
Proof.
  intros G K. apply known_info in K as [hi HI]. destruct (delete_hi h s) as [s' f] eqn:E. simpl.
  destruct (delete_good _ _ _ _ _ G HI E) as ((IV' & _ & NO') & _ & _).
  destruct G as (IV & _ & NO).
  apply nonmain_unreachable; [assumption| |apply NO'].
  destruct (st_of s h) as [g|] eqn:SG.
  - destruct g.
    + rewrite (del_st_fwd s s' h hi f IV HI (NO h) E h Pend SG); discriminate.
    + now apply NO in SG.
    + rewrite (del_st_h_main s s' h hi f IV HI E SG). discriminate.
    + rewrite (del_st_fwd s s' h hi f IV HI (NO h) E h Dead SG); discriminate.
  - rewrite (del_st_h_other s s' h hi f IV HI (NO h) E); congruence.
Qed.

Lemma is_nil_iff l : is_nil l = true <-> l = [].
Proof. destruct l; simpl; split; intros; congruence. Qed.

Lemma delete_final_iff s h :
  Good s -> known h s = true -> (snd (delete_hi h s) = true <-> no_other_holder s h).
Proof.
  intros (IV & _ & _) K. apply known_info in K as [hi HI]. destruct (delete_hi h s) as [s' f] eqn:E. simpl.
  destruct (delete_hi_spec h s hi s' f HI (i_nodup _ IV) E) as (_ & FF & _). rewrite FF.
  unfold no_other_holder. rewrite forallb_forall. split.
  - intros H hi' HI' a x A X. unfold info in HI. rewrite HI in HI'. inversion HI'; subst hi'.
    specialize (H a A). apply is_nil_iff in H. apply (rf_nil_iff h (L s a) (i_nodup _ IV a)); assumption.
  - intros H a A. apply is_nil_iff. apply (rf_nil_iff h (L s a) (i_nodup _ IV a)). intros x X. eapply H; eauto.
Qed.

(* ---------- C28: a removed tunnel never comes back ------------------------------------------------------ *)

Lemma removed_stays_removed ops1 ops2 ops3 h :
  live (run init ops1) h -> ~ live (run init (ops1 ++ ops2)) h ->
  ~ live (run init (ops1 ++ ops2 ++ ops3)) h /\ unreachable (run init (ops1 ++ ops2 ++ ops3)) h.
Proof.
  intros L1 NL2.
  pose proof (good_reachable ops1) as G1. pose proof (good_reachable (ops1 ++ ops2)) as G2.
  pose proof (good_reachable (ops1 ++ ops2 ++ ops3)) as G3.
  apply (live_main _ _ G1) in L1.
  assert (D2 : st_of (run init (ops1 ++ ops2)) h = Some Dead).
  { rewrite run_app. destruct (main_run ops2 _ _ G1 L1) as [M|D]; [|assumption].
    exfalso. apply NL2. apply (live_main _ _ G2). now rewrite run_app. }
  assert (D3 : st_of (run init (ops1 ++ ops2 ++ ops3)) h = Some Dead).
  { rewrite app_assoc, run_app. now apply dead_run. }
  split.
  - intros L3. apply (live_main _ _ G3) in L3. congruence.
  - destruct G3 as (IV3 & _). now apply dead_unreachable.
Qed.

Lemma liveb_live s h : liveb s h = true <-> live s h.
Proof.
  unfold liveb, live. destruct (mget h (infos s)) as [hi|].
  - rewrite is_some_id_true. split; [eauto|]. intros (hi' & E & H). inversion E; subst. assumption.
  - split; [discriminate|]. intros (hi' & E & _). discriminate.
Qed.

(* MakePrimary on a tunnel that is not live changes nothing (whatever the state) *)
Lemma promote_not_live s h : ~ live s h -> make_primary h s = (s, false).
Proof.
  intros NL. unfold make_primary. destruct (mget h (infos s)) as [hi|] eqn:HI; [|reflexivity].
  destruct (is_some_id (mget (hi_local hi) (idx s)) h) eqn:G; [|reflexivity].
  exfalso. apply NL. exists hi. apply is_some_id_true in G. auto.
Qed.

Lemma promote_live s h : live s h -> snd (make_primary h s) = true.
Proof.
  intros (hi & HI & G). unfold make_primary. rewrite HI. apply is_some_id_true in G. now rewrite G.
Qed.

(* ---------- C29 -------------------------------------------------------------------------------------- *)

Lemma good_IDX s : Good s -> IDX s.
Proof.
  intros G. pose proof G as (IV & LN & NO). pose proof IV as IV0. inv_destruct IV0. constructor.
  - auto.
  - intros i E. destruct (mget i (idx s)) as [h|] eqn:EH; [|congruence]. eapply DJ; eauto.
  - intros i h E. destruct (IX _ _ E) as (hi & E1 & E2 & _). eauto.
  - intros i h E. destruct (PX _ _ E) as (hi & E1 & E2 & _). eauto.
  - intros h hi r LV HI R. apply (live_main _ _ G) in LV. eapply MR; eauto.
Qed.

Theorem idx_reachable ops : IDX (run init ops).
Proof. apply good_IDX, good_reachable. Qed.

Lemma step_RELEASE o s : Good s -> RELEASE s (fst (step o s)).
Proof.
  intros G. destruct (good_step o s G) as ((IV' & _ & _) & ST). constructor.
  - intros i h E N. destruct (sp_held _ _ ST _ _ E) as [K|D]; [congruence|]. now apply dead_unreachable.
  - intros r h E N. destruct (sp_rel _ _ ST _ _ E) as [K|D]; [congruence|]. now apply dead_unreachable.
  - intros r h E N. destruct (sp_ridx _ _ ST _ _ E) as [K|D]; [contradiction|]. now apply dead_unreachable.
Qed.

(* what is handed out is non-zero and not held at that moment - for every state and candidate stream *)
Lemma alloc_handed_out s id cs s' i :
  step (OAlloc id cs) s = (s', RIdx (Some i)) -> i <> 0 /\ held s i = None.
Proof.
  simpl. destruct (alloc_guard id s); [|discriminate]. unfold alloc.
  destruct (mget id (infos s)); [|discriminate].
  destruct (alloc_loop alloc_tries cs s) as [j|] eqn:AL; [|discriminate].
  intros E. inversion E; subst. apply alloc_loop_spec in AL as (A & B & C). split; [assumption|].
  unfold held. now rewrite C.
Qed.

Lemma resp_handed_out s id addrs remote cs s' i :
  step (OResp id addrs remote cs) s = (s', RResp 0 i) -> i <> 0 /\ held s i = None.
Proof.
  simpl. destruct (known id s); [discriminate|]. destruct addrs as [|a0 t]; [discriminate|].
  unfold resp. destruct (gen_index cs) as [[j cs']|] eqn:GI; [|discriminate]. simpl.
  destruct (mget j (idx s)) eqn:EX; [intros E; inversion E|].
  destruct (mget j (pidx s)) eqn:EP; [intros E; inversion E|].
  intros E. inversion E; subst. split; [eapply gen_index_nonzero; eauto|]. unfold held. now rewrite EX.
Qed.

Lemma add_relay_loop_handed_out fuel h : forall cs s s' i,
  add_relay_loop fuel h cs s = (s', Some i) -> i <> 0 /\ mget i (rel s) = None.
Proof.
  induction fuel as [|fuel IH]; intros cs s s' i; simpl; [discriminate|].
  destruct (gen_index cs) as [[j cs']|] eqn:GI; [|discriminate].
  destruct (mget j (rel s)) eqn:ER; [apply IH|].
  destruct (make_primary h s) as [s1 ok]. destruct ok; [|discriminate].
  destruct (mget h (infos s1)); [|discriminate].
  intros E. inversion E; subst. split; [eapply gen_index_nonzero; eauto|assumption].
Qed.

Lemma relay_handed_out s id peer cs s' i :
  step (OAddRelay id peer cs) s = (s', RIdx (Some i)) -> i <> 0 /\ mget i (rel s) = None.
Proof.
  simpl. destruct (known id s); [|discriminate]. destruct (add_relay id cs s) as [s1 r] eqn:E.
  intros X. inversion X; subst. unfold add_relay in E. eapply add_relay_loop_handed_out; eauto.
Qed.

(* two different tunnels held at the same time (pending or established) never carry the same local index *)
Definition holder (s : state) (h : N) : Prop := exists i, held s i = Some h.

Lemma holders_distinct s h1 h2 hi1 hi2 :
  IDX s -> holder s h1 -> holder s h2 -> mget h1 (infos s) = Some hi1 -> mget h2 (infos s) = Some hi2 ->
  hi_local hi1 = hi_local hi2 -> h1 = h2.
Proof.
  intros IX (i1 & H1) (i2 & H2) E1 E2 EL.
  assert (K : forall i h hi, held s i = Some h -> mget h (infos s) = Some hi -> i = hi_local hi).
  { intros i h hi H E. unfold held in H. destruct (mget i (idx s)) as [z|] eqn:EZ.
    - inversion H; subst. destruct (ix_main _ IX _ _ EZ) as (hi' & F1 & F2). congruence.
    - destruct (ix_pend _ IX _ _ H) as (hi' & F1 & F2). congruence. }
  rewrite (K _ _ _ H1 E1) in H1. rewrite (K _ _ _ H2 E2) in H2. congruence.
Qed.

(* ---------- the executable specifications are implied by the propositions ---------------------------- *)

Lemma ownsb_owns s h a : ownsb s h a = true <-> owns s h a.
Proof.
  unfold ownsb, owns. destruct (mget h (infos s)) as [hi|].
  - rewrite mem_In. split; [eauto|]. intros (hi' & E & H). inversion E; subst. assumption.
  - split; [discriminate|]. intros (hi' & E & _). discriminate.
Qed.

Lemma wf_addr_of_WF s a : WF s -> wf_addr s a = true.
Proof.
  intros W. unfold wf_addr. repeat (apply andb_true_intro; split).
  - destruct (mget a (hosts s)) as [p|] eqn:E; [|reflexivity].
    destruct (wf_primary _ W _ _ E) as [r ->]. simpl. apply N.eqb_refl.
  - destruct (mget a (more s)) as [m|] eqn:E; [|reflexivity]. destruct (wf_more _ W _ _ E) as [A B].
    apply andb_true_intro. split; [apply N.leb_le; lia|]. destruct (mget a (hosts s)); [reflexivity|congruence].
  - apply nodupb_NoDup, (wf_nodup _ W).
  - apply N.leb_le, (wf_len _ W).
  - apply forallb_forall. intros x H. destruct (wf_member _ W _ _ H) as [A B].
    apply andb_true_intro. split; [now apply liveb_live|now apply ownsb_owns].
Qed.

Lemma wfb_of_WF s : WF s -> wfb s = true.
Proof.
  intros W. unfold wfb. repeat (apply andb_true_intro; split); apply forallb_forall.
  - intros a _. now apply wf_addr_of_WF.
  - intros i _. unfold wf_idx_entry. destruct (mget i (idx s)) as [h|] eqn:E; [|reflexivity].
    destruct (wf_idx _ W _ _ E) as (hi & E1 & E2 & E3). rewrite E1. apply andb_true_intro. split.
    + now apply N.eqb_eq.
    + apply forallb_forall. intros a A. apply mem_In. auto.
  - intros r _. unfold wf_ridx_entry. destruct (mget r (ridx s)) as [h|] eqn:E; [|reflexivity].
    destruct (wf_ridx _ W _ _ E) as (LV & hi & E1 & E2). apply andb_true_intro. split; [now apply liveb_live|].
    rewrite E1. now apply N.eqb_eq.
  - intros r _. unfold wf_rel_entry. destruct (mget r (rel s)) as [h|] eqn:E; [|reflexivity].
    destruct (wf_rel _ W _ _ E) as (LV & hi & E1 & E2). apply andb_true_intro. split; [now apply liveb_live|].
    rewrite E1. now apply mem_In.
Qed.

Lemma vals_free_intro {V} (m : amap V) (inv : V -> bool) :
  (forall k v, mget k m = Some v -> inv v = false) -> vals_free m inv = true.
Proof.
  intros H. unfold vals_free. apply forallb_forall. intros k _. destruct (mget k m) as [v|] eqn:E; [|reflexivity].
  now rewrite (H _ _ E).
Qed.

Lemma unreachableb_of s h : unreachable s h -> unreachableb s h = true.
Proof.
  intros (A & _ & C & D & E & F). unfold unreachableb. repeat (apply andb_true_intro; split); apply vals_free_intro.
  - intros k v X. destruct (N.eqb_spec h v); [subst; now apply A in X|reflexivity].
  - intros k v X. apply mem_false. eauto.
  - intros k v X. destruct (N.eqb_spec h v); [subst; now apply D in X|reflexivity].
  - intros k v X. destruct (N.eqb_spec h v); [subst; now apply E in X|reflexivity].
  - intros k v X. destruct (N.eqb_spec h v); [subst; now apply F in X|reflexivity].
Qed.

Lemma punreachableb_of s h : punreachable s h -> punreachableb s h = true.
Proof.
  intros (A & B). unfold punreachableb. apply andb_true_intro; split; apply vals_free_intro.
  - intros k v X. destruct (N.eqb_spec h v); [subst; now apply A in X|reflexivity].
  - intros k v X. destruct (N.eqb_spec h v); [subst; now apply B in X|reflexivity].
Qed.

Lemma no_other_holderb_iff s h : no_other_holderb s h = true <-> no_other_holder s h.
Proof.
  unfold no_other_holderb, no_other_holder. destruct (mget h (infos s)) as [hi|].
  - rewrite forallb_forall. split.
    + intros H hi' E a x A X. inversion E; subst hi'. specialize (H a A). rewrite forallb_forall in H.
      symmetry. apply N.eqb_eq. auto.
    + intros H a A. apply forallb_forall. intros x X. apply N.eqb_eq. symmetry. eapply H; eauto.
  - split; [intros _ hi' E; discriminate|reflexivity].
Qed.

Lemma idxb_of_IDX s : IDX s -> idxb s = true.
Proof.
  intros X. destruct (ix_zero _ X) as (Z1 & Z2 & Z3). unfold idxb.
  repeat (apply andb_true_intro; split).
  - apply negb_true_iff, mem_false. now apply mget_none_keys.
  - apply negb_true_iff, mem_false. now apply mget_none_keys.
  - apply negb_true_iff, mem_false. now apply mget_none_keys.
  - apply forallb_forall. intros i H. apply negb_true_iff, mem_false, mget_none_keys.
    apply (ix_disj _ X). apply keys_mget in H as [v H]. congruence.
  - apply forallb_forall. intros i _. unfold idx_entry_ok. destruct (mget i (idx s)) as [h|] eqn:E; [|reflexivity].
    destruct (ix_main _ X _ _ E) as (hi & E1 & E2). rewrite E1. now apply N.eqb_eq.
  - apply forallb_forall. intros i _. unfold idx_entry_ok. destruct (mget i (pidx s)) as [h|] eqn:E; [|reflexivity].
    destruct (ix_pend _ X _ _ E) as (hi & E1 & E2). rewrite E1. now apply N.eqb_eq.
  - apply forallb_forall. intros h _. unfold rel_owner_ok. destruct (mget h (infos s)) as [hi|] eqn:E; [|reflexivity].
    destruct (liveb s h) eqn:LV; [|reflexivity]. simpl. apply forallb_forall. intros r R.
    apply is_some_id_true. apply (ix_rel _ X h hi r); auto. now apply liveb_live.
Qed.

Lemma releaseb_of_RELEASE s s' : RELEASE s s' -> releaseb s s' = true.
Proof.
  intros R. unfold releaseb. repeat (apply andb_true_intro; split); apply forallb_forall.
  - intros i _. destruct (held s i) as [h|] eqn:E1; [|reflexivity]. destruct (held s' i) eqn:E2; [reflexivity|].
    destruct (rl_local _ _ R _ _ E1 E2) as [A B]. apply andb_true_intro.
    split; [now apply unreachableb_of|now apply punreachableb_of].
  - intros r _. destruct (mget r (rel s)) as [h|] eqn:E1; [|reflexivity]. destruct (mget r (rel s')) eqn:E2; [reflexivity|].
    apply unreachableb_of. eapply rl_relay; eauto.
  - intros r _. destruct (mget r (ridx s)) as [h|] eqn:E1; [|reflexivity]. destruct (mget r (ridx s')) eqn:E2; [reflexivity|].
    apply unreachableb_of. eapply rl_remote; eauto.
Qed.

(* ---------- and the main specification conversely: wfb accepts only well-formed states --------------- *)

Lemma WF_of_wfb s : wfb s = true -> WF s.
Proof.
  unfold wfb. rewrite !andb_true_iff, !forallb_forall. intros (((HA & HX) & HR) & HL).
  assert (ADDR : forall a, wf_addr s a = true).
  { intros a. destruct (mget a (hosts s)) as [p|] eqn:EH.
    - apply HA, in_or_app. left. eapply mget_in_keys; eauto.
    - destruct (mget a (more s)) as [m|] eqn:EM.
      + apply HA, in_or_app. right. eapply mget_in_keys; eauto.
      + unfold wf_addr, get_list. rewrite EH, EM. reflexivity. }
  assert (AD : forall a,
     (forall p, mget a (hosts s) = Some p -> head_is (L s a) p = true) /\
     (forall m, mget a (more s) = Some m -> (2 <= length m)%nat /\ mget a (hosts s) <> None) /\
     NoDup (L s a) /\ N.of_nat (length (L s a)) <= MaxHostInfosPerVpnIp /\
     (forall x, In x (L s a) -> live s x /\ owns s x a)).
  { intros a. specialize (ADDR a). unfold wf_addr in ADDR. rewrite !andb_true_iff in ADDR.
    destruct ADDR as ((((A1 & A2) & A3) & A4) & A5). repeat split.
    - intros p E. now rewrite E in A1.
    - rewrite H in A2. apply andb_true_iff in A2 as [A2 _]. apply N.leb_le in A2. lia.
    - rewrite H in A2. apply andb_true_iff in A2 as [_ A2]. destruct (mget a (hosts s)); congruence.
    - now apply nodupb_NoDup.
    - now apply N.leb_le.
    - rewrite forallb_forall in A5. specialize (A5 _ H). apply andb_true_iff in A5 as [B _]. now apply liveb_live.
    - rewrite forallb_forall in A5. specialize (A5 _ H). apply andb_true_iff in A5 as [_ B]. now apply ownsb_owns. }
  constructor.
  - intros a p E. destruct (AD a) as (A1 & _). specialize (A1 _ E). destruct (L s a) as [|x r]; [discriminate|].
    simpl in A1. apply N.eqb_eq in A1. subst. eauto.
  - intros a l E. destruct (AD a) as (_ & A2 & _). auto.
  - intros a. apply AD.
  - intros a. apply AD.
  - intros a. apply AD.
  - intros i h E. specialize (HX i (mget_in_keys _ _ _ E)). unfold wf_idx_entry in HX. rewrite E in HX.
    destruct (mget h (infos s)) as [hi|]; [|discriminate]. apply andb_true_iff in HX as [B1 B2].
    exists hi. split; [reflexivity|]. split; [now apply N.eqb_eq|]. rewrite forallb_forall in B2.
    intros a A. apply mem_In. auto.
  - intros r h E. specialize (HR r (mget_in_keys _ _ _ E)). unfold wf_ridx_entry in HR. rewrite E in HR.
    apply andb_true_iff in HR as [B1 B2]. split; [now apply liveb_live|].
    destruct (mget h (infos s)) as [hi|]; [|discriminate]. exists hi. split; [reflexivity|now apply N.eqb_eq].
  - intros r h E. specialize (HL r (mget_in_keys _ _ _ E)). unfold wf_rel_entry in HL. rewrite E in HL.
    apply andb_true_iff in HL as [B1 B2]. split; [now apply liveb_live|].
    destruct (mget h (infos s)) as [hi|]; [|discriminate]. exists hi. split; [reflexivity|now apply mem_In].
Qed.
